import JumanjiModel.Pytree
import JumanjiModel.Prim.Lemmas
namespace Pytree
variable {τ β : Type} [DecidableEq τ]

theorem mapM_option_eq_some {α γ} (f : α → Option γ) (l : List α) (r : List γ)
    (hlen : r.length = l.length) (h : ∀ k (hk : k < l.length) (hr : k < r.length), f l[k] = some r[k]) :
    l.mapM f = some r := by
  induction l generalizing r with
  | nil => cases r <;> simp_all
  | cons a l ih =>
    cases r with
    | nil => simp at hlen
    | cons b r =>
      have ha := h 0 (by simp) (by simp)
      simp at ha
      have hl := ih r (by simpa using hlen) (fun k hk hr => by
        have := h (k+1) (by simp; omega) (by simp; omega)
        simpa using this)
      simp [List.mapM_cons, ha, hl]

theorem column_getElem? (ts : List (PTree τ β)) (j : Nat) (h : ∀ t ∈ ts, j < t.leaves.length) (i : Nat) :
    (column ts j)[i]? = (ts[i]?).bind (fun t => t.leaves[j]?) := by
  induction ts generalizing i with
  | nil => simp [column]
  | cons t ts ih =>
    have ht : j < t.leaves.length := h t (by simp)
    have ih' := ih (fun x hx => h x (by simp [hx]))
    unfold column at ih' ⊢
    simp only [List.filterMap_cons, List.getElem?_eq_getElem ht]
    cases i with
    | zero => simp [List.getElem?_eq_getElem ht]
    | succ i => simpa using ih' i

theorem column_length (ts : List (PTree τ β)) (j : Nat) (h : ∀ t ∈ ts, j < t.leaves.length) :
    (column ts j).length = ts.length := by
  induction ts with
  | nil => simp [column]
  | cons t ts ih =>
    have ht : j < t.leaves.length := h t (by simp)
    have ih' := ih (fun x hx => h x (by simp [hx]))
    unfold column at ih' ⊢
    simp [List.filterMap_cons, List.getElem?_eq_getElem ht, ih']

theorem staticIdx_nat {n i : Nat} (h : i < n) : staticIdx n (i : Int) = some i := by
  unfold staticIdx Jx.wrapIdx
  simp only []
  have h1 : ¬ ((i : Int) < 0) := by omega
  have h2 : ¬ ((i : Int) ≥ (n : Int)) := by omega
  simp [h1, h2]

/-- slicing the stacked trees at `i` returns the `i`-th tree -/
theorem slice_transpose (td : τ) (n : Nat) (ts : List (PTree τ β)) (hs : SameStructure td n ts)
    (i : Nat) (hi : i < ts.length) : slice (transpose td n ts) (i : Int) = some ts[i] := by
  have hti := hs ts[i] (List.getElem_mem hi)
  have hall : ∀ j, j < n → ∀ t ∈ ts, j < t.leaves.length := fun j hj t ht => by
    have := (hs t ht).2; omega
  unfold slice transpose
  simp only []
  rw [mapM_option_eq_some _ _ ts[i].leaves]
  · simp only [Option.map_some]
    congr 1
    cases h : ts[i] with
    | mk td' ls => simp [h] at hti; simp [hti.1]
  · simp [hti.2]
  · intro k hk hr
    simp at hk
    simp only [List.getElem_map, List.getElem_range]
    rw [column_length ts k (hall k hk), staticIdx_nat hi]
    simp only [Option.bind_some]
    rw [column_getElem? ts k (hall k hk) i, List.getElem?_eq_getElem hi]
    simp only [Option.bind_some]
    exact List.getElem?_eq_getElem hr

theorem addElement_structure (t : PTree τ (List β)) (i : Int) (e : PTree τ β) (t' : PTree τ (List β))
    (h : addElement t i e = some t') :
    t'.td = t.td ∧ t'.leaves.length = t.leaves.length ∧
    ∀ k (hk : k < t'.leaves.length) (hk' : k < t.leaves.length), t'.leaves[k].length = t.leaves[k].length := by
  unfold addElement at h
  split at h
  · rename_i hc
    injection h with h; subst h
    refine ⟨rfl, by simp [hc.2], ?_⟩
    intro k hk hk'
    simp [Jx.setWD_length]
  · simp at h

/-- after `tree_add_element tree i e`, slicing at `i` gives `e` (when `i` is a valid index of every leaf) -/
theorem slice_addElement_same (t : PTree τ (List β)) (i : Nat) (e : PTree τ β)
    (hst : t.td = e.td ∧ t.leaves.length = e.leaves.length)
    (hi : ∀ x ∈ t.leaves, i < x.length) :
    (addElement t i e).bind (fun t' => slice t' i) = some e := by
  unfold addElement
  simp only [hst, and_self, if_true, Option.bind_some]
  unfold slice
  simp only []
  rw [mapM_option_eq_some _ _ e.leaves]
  · cases e with
    | mk tde ls => simp [hst.1]
  · simp [hst.2]
  · intro k hk hr
    simp only [List.getElem_zipWith]
    have hk' : k < t.leaves.length := by simp at hk; omega
    have hx := hi t.leaves[k] (List.getElem_mem hk')
    rw [Jx.setWD_length, staticIdx_nat hx, Jx.setWD_nat _ _ hx]
    simp [hx]

theorem mapM_zipWith_congr {α γ δ} (f : α → Option δ) (g : α → γ → α) (as : List α) (bs : List γ)
    (hlen : as.length = bs.length) (h : ∀ a ∈ as, ∀ v, f (g a v) = f a) :
    (List.zipWith g as bs).mapM f = as.mapM f := by
  induction as generalizing bs with
  | nil => simp
  | cons a as ih =>
    cases bs with
    | nil => simp at hlen
    | cons b bs =>
      have := ih bs (by simpa using hlen) (fun x hx v => h x (by simp [hx]) v)
      simp [List.mapM_cons, h a (by simp) b, this]

/-- … and slicing at any other valid index `j ≠ i` gives what was there before -/
theorem slice_addElement_other (t : PTree τ (List β)) (i j : Nat) (e : PTree τ β)
    (hst : t.td = e.td ∧ t.leaves.length = e.leaves.length) (hij : j ≠ i)
    (hi : ∀ x ∈ t.leaves, i < x.length) :
    (addElement t i e).bind (fun t' => slice t' j) = slice t j := by
  unfold addElement
  simp only [hst, and_self, if_true, Option.bind_some]
  unfold slice
  simp only []
  rw [mapM_zipWith_congr _ _ _ _ hst.2, hst.1]
  · intro a ha v
    have hx := hi a ha
    rw [Jx.setWD_length, Jx.setWD_nat _ _ hx]
    cases hs : staticIdx a.length (j : Int) with
    | none => rfl
    | some k =>
      have hk : k = j := by
        unfold staticIdx Jx.wrapIdx at hs
        simp only [] at hs
        repeat' split at hs
        all_goals (try simp at hs)
        all_goals omega
      subst hk
      simp [List.getElem?_set, Ne.symm hij]

end Pytree

namespace Pytree
variable {τ ε : Type} [DecidableEq τ] [DecidableEq ε]

theorem arrayEqual_iff (a b : Leaf ε) : arrayEqual a b = true ↔ a.shape = b.shape ∧ a.data = b.data := by
  unfold arrayEqual; simp

theorem isEqual_refl (t : PTree τ (Leaf ε)) : isEqual t t = some true := by
  unfold isEqual
  simp only [and_self, if_true]
  congr 1
  rw [List.all_eq_true]
  intro b hb
  rw [List.mem_iff_getElem] at hb
  obtain ⟨k, hk, rfl⟩ := hb
  simp [arrayEqual]

theorem arrayEqual_symm (a b : Leaf ε) : arrayEqual a b = arrayEqual b a := by
  unfold arrayEqual
  rw [Bool.eq_iff_iff]; simp
  constructor <;> (rintro ⟨h1, h2⟩; exact ⟨h1.symm, h2.symm⟩)

theorem zipWith_arrayEqual_symm (l1 l2 : List (Leaf ε)) :
    List.zipWith arrayEqual l1 l2 = List.zipWith arrayEqual l2 l1 := by
  induction l1 generalizing l2 with
  | nil => simp
  | cons a l1 ih =>
    cases l2 with
    | nil => simp
    | cons b l2 => simp [arrayEqual_symm a b, ih l2]

theorem isEqual_symm (t1 t2 : PTree τ (Leaf ε)) : isEqual t1 t2 = isEqual t2 t1 := by
  unfold isEqual
  by_cases h : t1.td = t2.td ∧ t1.leaves.length = t2.leaves.length
  · have h' : t2.td = t1.td ∧ t2.leaves.length = t1.leaves.length := ⟨h.1.symm, h.2.symm⟩
    rw [if_pos h, if_pos h', zipWith_arrayEqual_symm]
  · have h' : ¬ (t2.td = t1.td ∧ t2.leaves.length = t1.leaves.length) := fun hh => h ⟨hh.1.symm, hh.2.symm⟩
    rw [if_neg h, if_neg h']

/-- for two trees of the same structure the helper is true exactly when every pair of leaves has
equal shape and equal elements -/
theorem isEqual_iff (t1 t2 : PTree τ (Leaf ε)) (h : t1.td = t2.td ∧ t1.leaves.length = t2.leaves.length) :
    isEqual t1 t2 = some true ↔
      ∀ k (h1 : k < t1.leaves.length) (h2 : k < t2.leaves.length),
        t1.leaves[k].shape = t2.leaves[k].shape ∧ t1.leaves[k].data = t2.leaves[k].data := by
  unfold isEqual
  rw [if_pos h]
  simp only [Option.some.injEq]
  rw [List.all_eq_true]
  constructor
  · intro hall k h1 h2
    have := hall (arrayEqual t1.leaves[k] t2.leaves[k]) (by
      rw [List.mem_iff_getElem]
      exact ⟨k, by simp; omega, by simp⟩)
    exact (arrayEqual_iff _ _).1 this
  · intro hk b hb
    rw [List.mem_iff_getElem] at hb
    obtain ⟨k, hk', rfl⟩ := hb
    have hk1 : k < t1.leaves.length := by simp at hk'; omega
    have hk2 : k < t2.leaves.length := by simp at hk'; omega
    simp only [List.getElem_zipWith, id]
    exact (arrayEqual_iff _ _).2 (hk k hk1 hk2)

end Pytree

namespace Pytree
variable {τ ε : Type} [DecidableEq τ] [DecidableEq ε]

/-! ### the assertion helpers -/

theorem assertDifferent_ok_iff (t1 t2 : PTree τ (Leaf ε)) :
    assertDifferent t1 t2 = .ok () ↔ isEqual t1 t2 = some false := by
  unfold assertDifferent
  cases isEqual t1 t2 with
  | none => simp
  | some b => cases b <;> simp

/-- the 'trees are different' assertion FAILS (AssertionError) exactly when the equality helper is true -/
theorem assertDifferent_fails_iff (t1 t2 : PTree τ (Leaf ε)) :
    assertDifferent t1 t2 = .error .sameValues ↔ isEqual t1 t2 = some true := by
  unfold assertDifferent
  cases isEqual t1 t2 with
  | none => simp
  | some b => cases b <;> simp

theorem assertEqual_ok_iff (t1 t2 : PTree τ (Leaf ε)) :
    assertEqual t1 t2 = .ok () ↔ isEqual t1 t2 = some true := by
  unfold assertEqual
  cases isEqual t1 t2 with
  | none => simp
  | some b => cases b <;> simp

theorem assertEqual_fails_iff (t1 t2 : PTree τ (Leaf ε)) :
    assertEqual t1 t2 = .error .differ ↔ isEqual t1 t2 = some false := by
  unfold assertEqual
  cases isEqual t1 t2 with
  | none => simp
  | some b => cases b <;> simp

/-- both helpers raise the structure error exactly when the structures differ -/
theorem assert_structure_iff (t1 t2 : PTree τ (Leaf ε)) :
    (assertDifferent t1 t2 = .error .structureMismatch ↔ ¬ (t1.td = t2.td ∧ t1.leaves.length = t2.leaves.length)) ∧
    (assertEqual t1 t2 = .error .structureMismatch ↔ ¬ (t1.td = t2.td ∧ t1.leaves.length = t2.leaves.length)) := by
  by_cases h : t1.td = t2.td ∧ t1.leaves.length = t2.leaves.length
  · have e : isEqual t1 t2 = some ((List.zipWith arrayEqual t1.leaves t2.leaves).all id) := by
      unfold isEqual; rw [if_pos h]
    unfold assertDifferent assertEqual
    rw [e]
    generalize (List.zipWith arrayEqual t1.leaves t2.leaves).all id = b
    cases b <;> simp [h]
  · have e : isEqual t1 t2 = none := by unfold isEqual; rw [if_neg h]
    unfold assertDifferent assertEqual
    rw [e]
    exact ⟨⟨fun _ => h, fun _ => rfl⟩, ⟨fun _ => h, fun _ => rfl⟩⟩

/-- on trees of the same structure exactly one of the two assertions passes; `assert_trees_are_equal` passes exactly
when every pair of leaves has equal shape and equal elements, `assert_trees_are_different` exactly when some pair
differs in shape or in an element -/
theorem assertEqual_iff_leaves (t1 t2 : PTree τ (Leaf ε)) (h : t1.td = t2.td ∧ t1.leaves.length = t2.leaves.length) :
    assertEqual t1 t2 = .ok () ↔
      ∀ k (h1 : k < t1.leaves.length) (h2 : k < t2.leaves.length),
        t1.leaves[k].shape = t2.leaves[k].shape ∧ t1.leaves[k].data = t2.leaves[k].data := by
  rw [assertEqual_ok_iff, isEqual_iff t1 t2 h]

theorem isEqual_some_of_structure (t1 t2 : PTree τ (Leaf ε)) (h : t1.td = t2.td ∧ t1.leaves.length = t2.leaves.length) :
    ∃ b, isEqual t1 t2 = some b := by
  unfold isEqual; rw [if_pos h]; exact ⟨_, rfl⟩

theorem assertDifferent_iff_leaves (t1 t2 : PTree τ (Leaf ε)) (h : t1.td = t2.td ∧ t1.leaves.length = t2.leaves.length) :
    assertDifferent t1 t2 = .ok () ↔
      ∃ k, ∃ (h1 : k < t1.leaves.length) (h2 : k < t2.leaves.length),
        t1.leaves[k].shape ≠ t2.leaves[k].shape ∨ t1.leaves[k].data ≠ t2.leaves[k].data := by
  rw [assertDifferent_ok_iff]
  obtain ⟨b, hb⟩ := isEqual_some_of_structure t1 t2 h
  have hi := isEqual_iff t1 t2 h
  rw [hb] at hi ⊢
  cases b with
  | true =>
    simp only [Option.some.injEq, Bool.true_eq_false, false_iff, true_iff] at hi ⊢
    rintro ⟨k, h1, h2, hne⟩
    have := hi k h1 h2
    rcases hne with hne | hne
    · exact hne this.1
    · exact hne this.2
  | false =>
    simp only [Option.some.injEq, Bool.false_eq_true, false_iff, true_iff] at hi ⊢
    apply Classical.byContradiction
    intro hno
    apply hi
    intro k h1 h2
    constructor
    · apply Classical.byContradiction; intro hne; exact hno ⟨k, h1, h2, Or.inl hne⟩
    · apply Classical.byContradiction; intro hne; exact hno ⟨k, h1, h2, Or.inr hne⟩

theorem assert_exactly_one (t1 t2 : PTree τ (Leaf ε)) (h : t1.td = t2.td ∧ t1.leaves.length = t2.leaves.length) :
    (assertEqual t1 t2 = .ok () ∧ assertDifferent t1 t2 = .error .sameValues) ∨
    (assertEqual t1 t2 = .error .differ ∧ assertDifferent t1 t2 = .ok ()) := by
  obtain ⟨b, hb⟩ := isEqual_some_of_structure t1 t2 h
  cases b with
  | true => left; exact ⟨(assertEqual_ok_iff _ _).2 hb, (assertDifferent_fails_iff _ _).2 hb⟩
  | false => right; exact ⟨(assertEqual_fails_iff _ _).2 hb, (assertDifferent_ok_iff _ _).2 hb⟩

end Pytree

namespace Pytree
variable {τ β δ : Type} [DecidableEq τ]

/-! ### valid (possibly negative) static indices -/

theorem normIdx_lt {n : Nat} {i : Int} (h : -(n : Int) ≤ i ∧ i < n) : normIdx n i < n := by
  unfold normIdx Jx.wrapIdx; split <;> omega

theorem staticIdx_valid {n : Nat} {i : Int} (h : -(n : Int) ≤ i ∧ i < n) : staticIdx n i = some (normIdx n i) := by
  unfold staticIdx normIdx Jx.wrapIdx
  simp only []
  by_cases hneg : i < 0
  · have h1 : ¬ (i + n < 0) := by omega
    have h2 : ¬ (i + n ≥ n) := by omega
    simp [hneg, h1, h2]
  · have h2 : ¬ (i ≥ n) := by omega
    simp [hneg, h2]

theorem setWD_valid {α} (xs : List α) (v : α) {i : Int} (h : -(xs.length : Int) ≤ i ∧ i < xs.length) :
    Jx.setWD xs i v = xs.set (normIdx xs.length i) v := by
  unfold Jx.setWD normIdx Jx.wrapIdx
  simp only []
  by_cases hneg : i < 0
  · have h1 : ¬ (i + xs.length < 0) := by omega
    have h2 : ¬ (i + xs.length ≥ xs.length) := by omega
    simp [hneg, h1, h2]
  · have h2 : ¬ (i ≥ xs.length) := by omega
    simp [hneg, h2]

/-- a non-negative valid index is itself, a negative one counts from the end -/
theorem normIdx_cases (n : Nat) (i : Int) : (0 ≤ i → (normIdx n i : Int) = i) ∧ (i < 0 → -(n : Int) ≤ i → (normIdx n i : Int) = i + n) := by
  unfold normIdx Jx.wrapIdx; constructor <;> intro h <;> split <;> omega

theorem staticIdx_some {n : Nat} {i : Int} {k : Nat} (h : staticIdx n i = some k) :
    (-(n : Int) ≤ i ∧ i < n) ∧ k = normIdx n i := by
  unfold staticIdx normIdx Jx.wrapIdx at *
  simp only [] at h
  repeat' split at h
  all_goals (try simp at h)
  all_goals (constructor <;> omega)

/-! ### typed stack / set / slice -/

theorem addElementT_structure (promote : δ → δ → δ) (cast : δ → δ → β → β) (t : PTree τ (TArr δ β)) (i : Int)
    (e : PTree τ (TVal δ β)) (t' : PTree τ (TArr δ β)) (h : addElementT promote cast t i e = some t') :
    t'.td = t.td ∧ t'.leaves.length = t.leaves.length ∧
    ∀ k (hk : k < t'.leaves.length) (hk' : k < t.leaves.length),
      t'.leaves[k].dtype = t.leaves[k].dtype ∧ t'.leaves[k].slices.length = t.leaves[k].slices.length := by
  unfold addElementT at h
  split at h
  · rename_i hc
    injection h with h; subst h
    refine ⟨rfl, by simp [hc.2], ?_⟩
    intro k hk hk'
    simp [Jx.setWD_length]
  · simp at h

/-- after `tree_add_element tree i e`, slicing at `i` gives `e` converted leaf by leaf to the promoted dtype and
then to the dtype of the tree (any valid index, negative ones included) -/
theorem slice_addElementT_same_cast (promote : δ → δ → δ) (cast : δ → δ → β → β) (t : PTree τ (TArr δ β)) (i : Int)
    (e : PTree τ (TVal δ β)) (hst : t.td = e.td ∧ t.leaves.length = e.leaves.length)
    (hi : ∀ x ∈ t.leaves, -(x.slices.length : Int) ≤ i ∧ i < x.slices.length) :
    (addElementT promote cast t i e).bind (fun t' => sliceT t' i) =
      some { td := e.td,
             leaves := List.zipWith (fun (a : TArr δ β) (v : TVal δ β) =>
               ({ dtype := a.dtype,
                  val := cast (promote a.dtype v.dtype) a.dtype (cast v.dtype (promote a.dtype v.dtype) v.val) } : TVal δ β))
               t.leaves e.leaves } := by
  unfold addElementT
  simp only [hst, and_self, if_true, Option.bind_some]
  unfold sliceT
  simp only []
  rw [mapM_option_eq_some _ _ (List.zipWith (fun (a : TArr δ β) (v : TVal δ β) =>
               ({ dtype := a.dtype,
                  val := cast (promote a.dtype v.dtype) a.dtype (cast v.dtype (promote a.dtype v.dtype) v.val) } : TVal δ β))
               t.leaves e.leaves)]
  · simp [hst.1]
  · simp
  · intro k hk hr
    simp only [List.getElem_zipWith]
    have hk' : k < t.leaves.length := by simp at hk; omega
    have hx := hi t.leaves[k] (List.getElem_mem hk')
    have hx' : -((List.map (cast t.leaves[k].dtype (promote t.leaves[k].dtype e.leaves[k].dtype)) t.leaves[k].slices).length : Int) ≤ i ∧
        i < (List.map (cast t.leaves[k].dtype (promote t.leaves[k].dtype e.leaves[k].dtype)) t.leaves[k].slices).length := by
      simpa using hx
    rw [List.length_map, Jx.setWD_length, List.length_map, staticIdx_valid hx, setWD_valid _ _ hx']
    simp [normIdx_lt hx]

/-- … which is `e` itself when every leaf of `e` already has the dtype of the corresponding leaf of the tree
(no promotion, a cast to the own dtype being the identity) -/
theorem slice_addElementT_same (promote : δ → δ → δ) (cast : δ → δ → β → β) (hprom : ∀ d, promote d d = d)
    (hcast : ∀ d v, cast d d v = v)
    (t : PTree τ (TArr δ β)) (i : Int) (e : PTree τ (TVal δ β))
    (hst : t.td = e.td ∧ t.leaves.length = e.leaves.length)
    (hdt : ∀ k (h1 : k < t.leaves.length) (h2 : k < e.leaves.length), t.leaves[k].dtype = e.leaves[k].dtype)
    (hi : ∀ x ∈ t.leaves, -(x.slices.length : Int) ≤ i ∧ i < x.slices.length) :
    (addElementT promote cast t i e).bind (fun t' => sliceT t' i) = some e := by
  rw [slice_addElementT_same_cast promote cast t i e hst hi]
  cases e with
  | mk tde ls =>
    simp only [Option.some.injEq, PTree.mk.injEq, true_and]
    apply List.ext_getElem
    · have h2 : t.leaves.length = ls.length := hst.2
      simp [h2]
    · intro k h1 h2
      simp only [List.getElem_zipWith]
      have hk1 : k < t.leaves.length := by simp at h1; omega
      rw [hdt k hk1 h2, hprom, hcast, hcast]

theorem mapM_zipWith_congr2 {α γ δ'} (f : α → Option δ') (g : α → γ → α) (as : List α) (bs : List γ)
    (hlen : as.length = bs.length)
    (h : ∀ k (h1 : k < as.length) (h2 : k < bs.length), f (g as[k] bs[k]) = f as[k]) :
    (List.zipWith g as bs).mapM f = as.mapM f := by
  induction as generalizing bs with
  | nil => simp
  | cons a as ih =>
    cases bs with
    | nil => simp at hlen
    | cons b bs =>
      have h0 := h 0 (by simp) (by simp)
      simp at h0
      have := ih bs (by simpa using hlen) (fun k h1 h2 => by
        have := h (k+1) (by simp; omega) (by simp; omega)
        simpa using this)
      simp [List.mapM_cons, h0, this]

/-- … and slicing at any other index gives what was there before, PROVIDED the round trip of the stored entries through
the promoted dtype is exact (always so when the element has the dtypes of the tree; not so e.g. for int32 entries above
2²⁴ when the element is a float32) — indices compared after normalisation -/
theorem slice_addElementT_other (promote : δ → δ → δ) (cast : δ → δ → β → β) (t : PTree τ (TArr δ β)) (i j : Int)
    (e : PTree τ (TVal δ β)) (hst : t.td = e.td ∧ t.leaves.length = e.leaves.length)
    (hi : ∀ x ∈ t.leaves, -(x.slices.length : Int) ≤ i ∧ i < x.slices.length)
    (hij : ∀ x ∈ t.leaves, normIdx x.slices.length j ≠ normIdx x.slices.length i)
    (hrt : ∀ k (h1 : k < t.leaves.length) (h2 : k < e.leaves.length), ∀ x ∈ t.leaves[k].slices,
      cast (promote t.leaves[k].dtype e.leaves[k].dtype) t.leaves[k].dtype
        (cast t.leaves[k].dtype (promote t.leaves[k].dtype e.leaves[k].dtype) x) = x) :
    (addElementT promote cast t i e).bind (fun t' => sliceT t' j) = sliceT t j := by
  unfold addElementT
  simp only [hst, and_self, if_true, Option.bind_some]
  unfold sliceT
  simp only []
  rw [mapM_zipWith_congr2 _ _ _ _ hst.2, hst.1]
  intro k h1 h2
  have ha : t.leaves[k] ∈ t.leaves := List.getElem_mem h1
  have hx := hi _ ha
  have hne := hij _ ha
  have hx' : -((List.map (cast t.leaves[k].dtype (promote t.leaves[k].dtype e.leaves[k].dtype)) t.leaves[k].slices).length : Int) ≤ i ∧
      i < (List.map (cast t.leaves[k].dtype (promote t.leaves[k].dtype e.leaves[k].dtype)) t.leaves[k].slices).length := by
    simpa using hx
  simp only [List.length_map, Jx.setWD_length]
  rw [setWD_valid _ _ hx']
  cases hs : staticIdx t.leaves[k].slices.length j with
  | none => rfl
  | some m =>
    obtain ⟨hjv, rfl⟩ := staticIdx_some hs
    have hm := normIdx_lt hjv
    simp only [List.length_map, Option.bind_some, List.getElem?_map, List.getElem?_set, Ne.symm hne, if_false,
      List.getElem?_eq_getElem hm, Option.map_some]
    rw [hrt k h1 h2 _ (List.getElem_mem hm)]

/-- the same when the element has the dtypes of the tree: nothing but index `i` changes -/
theorem slice_addElementT_other_same_dtype (promote : δ → δ → δ) (cast : δ → δ → β → β) (hprom : ∀ d, promote d d = d)
    (hcast : ∀ d v, cast d d v = v) (t : PTree τ (TArr δ β)) (i j : Int)
    (e : PTree τ (TVal δ β)) (hst : t.td = e.td ∧ t.leaves.length = e.leaves.length)
    (hdt : ∀ k (h1 : k < t.leaves.length) (h2 : k < e.leaves.length), t.leaves[k].dtype = e.leaves[k].dtype)
    (hi : ∀ x ∈ t.leaves, -(x.slices.length : Int) ≤ i ∧ i < x.slices.length)
    (hij : ∀ x ∈ t.leaves, normIdx x.slices.length j ≠ normIdx x.slices.length i) :
    (addElementT promote cast t i e).bind (fun t' => sliceT t' j) = sliceT t j := by
  apply slice_addElementT_other promote cast t i j e hst hi hij
  intro k h1 h2 x _
  rw [hdt k h1 h2, hprom, hcast, hcast]

end Pytree
