/-
L0: the handful of JAX array primitives whose corner semantics the environments rely on.
Import-free (core Lean only).  Each function here has a micro-correspondence stream against
`jax.numpy` in `harness/l0.py` (run at the start of every check).

JAX 0.4.35 semantics reproduced here (checked, not trusted):
* `x[i]` with a traced/array index: negative indices wrap once (`i + n`), then the index is
  clamped into `[0, n-1]` (gather mode "clip"/promise_in_bounds default = clamp).
* `x.at[i].set(v)`: negative indices wrap once, an index still out of range is dropped.
* `argmax/argmin`: first occurrence.
-/
namespace Jx

/-- normalise a (possibly negative) JAX index: wrap once. -/
def wrapIdx (n : Nat) (i : Int) : Int := if i < 0 then i + n else i

/-- gather index: wrap once, then clamp to `[0, n-1]`. -/
def clampIdx (n : Nat) (i : Int) : Nat :=
  let j := wrapIdx n i
  if j < 0 then 0 else if j ≥ (n : Int) then n - 1 else j.toNat

/-- `xs[i]` with traced `i` (wrap, then clamp).  `d` is returned only for the empty list. -/
def getWC {α} (xs : List α) (d : α) (i : Int) : α := xs.getD (clampIdx xs.length i) d

/-- `xs.at[i].set(v)` (wrap, then drop if out of range). -/
def setWD {α} (xs : List α) (i : Int) (v : α) : List α :=
  let j := wrapIdx xs.length i
  if j < 0 then xs else if j ≥ (xs.length : Int) then xs else xs.set j.toNat v

theorem setWD_length {α} (xs : List α) (i : Int) (v : α) : (setWD xs i v).length = xs.length := by
  unfold setWD; simp only []; split
  · rfl
  · split
    · rfl
    · simp

theorem clampIdx_lt {n : Nat} (h : 0 < n) (i : Int) : clampIdx n i < n := by
  unfold clampIdx wrapIdx; simp only []
  repeat' split
  all_goals omega

/-- in-range non-negative index: plain lookup -/
theorem clampIdx_of_inrange {n : Nat} {i : Nat} (h : i < n) : clampIdx n (i : Int) = i := by
  unfold clampIdx wrapIdx; simp only []
  repeat' split
  all_goals omega

/-- first index of a maximal element (0 for the empty list), as `jnp.argmax`. -/
def argmaxAux : List Int → Nat → Nat → Int → Nat
  | [], _, best, _ => best
  | x :: xs, i, best, bv => if x > bv then argmaxAux xs (i+1) i x else argmaxAux xs (i+1) best bv

def argmax : List Int → Nat
  | [] => 0
  | x :: xs => argmaxAux xs 1 0 x

def argmin (xs : List Int) : Nat := argmax (xs.map (fun x => -x))

def argmaxBool (xs : List Bool) : Nat := argmax (xs.map (fun b => if b then 1 else 0))
def argminBool (xs : List Bool) : Nat := argmin (xs.map (fun b => if b then 1 else 0))

def sumInt (xs : List Int) : Int := xs.foldl (· + ·) 0
def sumNat (xs : List Nat) : Nat := xs.foldl (· + ·) 0
def countTrue (xs : List Bool) : Nat := (xs.filter id).length

/-- `jnp.roll(xs, 1)`-style rotation by `k` to the right -/
def roll {α} (xs : List α) (k : Nat) : List α :=
  let n := xs.length
  if n = 0 then xs else
    let k' := k % n
    xs.drop (n - k') ++ xs.take (n - k')

end Jx
