/- Basic facts about the L0 primitives on in-range indices. -/
import JumanjiModel.Prim.Idx
namespace Jx

theorem getWC_nat {α} (xs : List α) (d : α) {a : Nat} (h : a < xs.length) :
    getWC xs d (a : Int) = xs.getD a d := by
  unfold getWC; rw [clampIdx_of_inrange h]

theorem setWD_nat {α} (xs : List α) (v : α) {a : Nat} (h : a < xs.length) :
    setWD xs (a : Int) v = xs.set a v := by
  unfold setWD wrapIdx; simp only []
  have h1 : ¬ ((a : Int) < 0) := by omega
  simp only [h1, if_false]
  have h2 : ¬ ((a : Int) ≥ (xs.length : Int)) := by omega
  simp [h2]

end Jx
