/-
L0: IEEE-754 binary32 rounding of an exact rational (round-to-nearest, ties-to-even, subnormals,
no overflow handling: magnitudes in the environments are tiny).  Used ONLY by the executable
correspondence (so that discrete decisions that depend on a float32 result are reproduced exactly);
theorems are stated for an arbitrary rounding function with the properties they need
(monotone, fixes 0), which `roundF32` has (checked against NumPy in `harness/l0.py`).
Import-free.
-/
namespace Jx

/-- floor(log2 (n/d)) for positive n, d -/
def ilog2Rat (n d : Nat) : Int :=
  let e0 : Int := (Nat.log2 n : Int) - (Nat.log2 d : Int)
  -- 2^e0 ≤ n/d ?
  let ge : Bool := if e0 ≥ 0 then n ≥ d * 2 ^ e0.toNat else n * 2 ^ (-e0).toNat ≥ d
  if ge then e0 else e0 - 1

/-- round a non-negative rational to the nearest integer, ties to even -/
def roundHalfEven (n d : Nat) : Nat :=
  let q := n / d
  let r := n % d
  if 2 * r < d then q else if 2 * r > d then q + 1 else (if q % 2 == 0 then q else q + 1)

def pow2 (e : Int) : Rat := if e ≥ 0 then ((2 ^ e.toNat : Nat) : Rat) else 1 / ((2 ^ (-e).toNat : Nat) : Rat)

/-- nearest binary32 value -/
def roundF32 (x : Rat) : Rat :=
  if x == 0 then 0 else
    let neg := x < 0
    let n := x.num.natAbs
    let d := x.den
    let e := ilog2Rat n d
    let e := if e < -126 then -126 else e
    -- scaled = |x| / 2^(e-23)
    let sh := e - 23
    let (sn, sd) := if sh ≥ 0 then (n, d * 2 ^ sh.toNat) else (n * 2 ^ (-sh).toNat, d)
    let m := roundHalfEven sn sd
    let r := (m : Rat) * pow2 sh
    if neg then -r else r

/-- float32 subtraction / addition / multiplication / division of float32 inputs -/
def f32sub (a b : Rat) : Rat := roundF32 (a - b)
def f32add (a b : Rat) : Rat := roundF32 (a + b)
def f32mul (a b : Rat) : Rat := roundF32 (a * b)
def f32div (a b : Rat) : Rat := roundF32 (a / b)

end Jx
