/-
Lemmas about `Jx.roundF32` (nearest binary32 of an exact rational, ties to even, subnormals, no overflow):
it fixes 0 and 1, commutes with negation and is MONOTONE on all of `Rat`.  Core Lean only (no Mathlib).
Not imported by the driver.

Structure: `Near q m` (m is a nearest natural to `q`, ties to even) is monotone in `q` (`near_mono`);
`roundHalfEven n d` is `Near (n/d)` (`rhe_near`); `ilog2Rat n d` is the floor of `log2 (n/d)`
(`ilog2Rat_spec`); for `0 < x`, `roundF32 x = m * 2^(e-23)` with `Near (x / 2^(e-23)) m`, `-126 ≤ e`,
`x < 2^(e+1)` and (`-126 < e → 2^e ≤ x`) (`roundF32_pos_char`); monotonicity follows by comparing exponents.
-/
import JumanjiModel.Prim.Float
namespace Jx

/-! ### small `Rat` facts -/

theorem two_ne : (2 : Rat) ≠ 0 := by decide
theorem two_pos : (0 : Rat) < 2 := by decide

theorem rat_le_div_iff {a b c : Rat} (hc : 0 < c) : a ≤ b / c ↔ a * c ≤ b := by
  rw [← Rat.not_lt, ← Rat.not_lt, Rat.div_lt_iff hc]

theorem rat_div_le_iff {a b c : Rat} (hb : 0 < b) : a / b ≤ c ↔ a ≤ c * b := by
  rw [← Rat.not_lt, ← Rat.not_lt, Rat.lt_div_iff hb]

theorem rat_div_le_div_right {a b c : Rat} (hc : 0 < c) (h : a ≤ b) : a / c ≤ b / c := by
  rw [Rat.div_def, Rat.div_def]
  exact Rat.mul_le_mul_of_nonneg_right h (Rat.le_of_lt (Rat.inv_pos.mpr hc))

theorem natCast_pos' {n : Nat} (h : 0 < n) : (0 : Rat) < (n : Rat) := Rat.natCast_pos.mpr h

/-! ### `pow2` is the integer power of two -/

theorem pow2_eq (e : Int) : pow2 e = (2 : Rat) ^ e := by
  unfold pow2
  split
  · rw [Rat.natCast_pow]
    have : e = ((e.toNat : Nat) : Int) := by omega
    conv => rhs; rw [this]
    rw [Rat.zpow_natCast]; rfl
  · rw [Rat.natCast_pow]
    have : e = -(((-e).toNat : Nat) : Int) := by omega
    conv => rhs; rw [this]
    rw [Rat.zpow_neg, Rat.zpow_natCast, Rat.div_def, Rat.one_mul]; rfl

theorem pow2_pos (e : Int) : 0 < pow2 e := by rw [pow2_eq]; exact Rat.zpow_pos two_pos

theorem pow2_add (a b : Int) : pow2 (a + b) = pow2 a * pow2 b := by
  simp only [pow2_eq]; exact Rat.zpow_add two_ne a b

theorem pow2_nat (k : Nat) : pow2 (k : Int) = (2 : Rat) ^ k := by rw [pow2_eq, Rat.zpow_natCast]

theorem pow2_succ (e : Int) : pow2 (e + 1) = 2 * pow2 e := by
  rw [pow2_add, Rat.mul_comm]; congr 1

theorem pow2_pred (e : Int) : pow2 (e - 1) = pow2 e / 2 := by
  have h := pow2_succ (e - 1)
  rw [Int.sub_add_cancel] at h
  rw [h]; grind

theorem one_le_two_pow (k : Nat) : (1 : Rat) ≤ (2 : Rat) ^ k := by
  induction k with
  | zero => simp
  | succ k ih =>
    rw [Rat.pow_succ]
    have : (0 : Rat) < (2 : Rat) ^ k := Rat.pow_pos two_pos
    grind

theorem pow2_mono {a b : Int} (h : a ≤ b) : pow2 a ≤ pow2 b := by
  obtain ⟨k, rfl⟩ : ∃ k : Nat, b = a + (k : Int) := ⟨(b - a).toNat, by omega⟩
  rw [pow2_add, pow2_nat]
  have h1 := one_le_two_pow k
  have h2 := pow2_pos a
  have := Rat.mul_le_mul_of_nonneg_left h1 (Rat.le_of_lt h2)
  rwa [Rat.mul_one] at this

/-! ### nearest natural, ties to even -/

/-- `m` is a natural number nearest to `q`, and on a tie (`q` half-way between two integers) `m` is even -/
def Near (q : Rat) (m : Nat) : Prop :=
  (m : Rat) ≤ q + 1 / 2 ∧ q ≤ (m : Rat) + 1 / 2 ∧
  ((m : Rat) = q + 1 / 2 → m % 2 = 0) ∧ (q = (m : Rat) + 1 / 2 → m % 2 = 0)

/-- nearest-even rounding is monotone (hence unique) -/
theorem near_mono {q1 q2 : Rat} {m1 m2 : Nat} (h1 : Near q1 m1) (h2 : Near q2 m2) (h : q1 ≤ q2) :
    m1 ≤ m2 := by
  apply Nat.le_of_not_lt
  intro hlt
  have hc : ((m2 + 1 : Nat) : Rat) ≤ (m1 : Rat) := Rat.natCast_le_natCast.mpr hlt
  rw [Rat.natCast_add] at hc
  obtain ⟨a1, _, a3, _⟩ := h1
  obtain ⟨_, b2, _, b4⟩ := h2
  have e1 : (m1 : Rat) = q1 + 1 / 2 := by grind
  have e2 : q2 = (m2 : Rat) + 1 / 2 := by grind
  have e3 : (m1 : Rat) = ((m2 + 1 : Nat) : Rat) := by rw [Rat.natCast_add]; grind
  have := a3 e1
  have := b4 e2
  have := Rat.natCast_inj.mp e3
  omega

theorem near_nat (k : Nat) : Near (k : Rat) k := by
  refine ⟨by grind, by grind, ?_, ?_⟩ <;> intro h <;> exfalso <;> grind

theorem near_unique {q : Rat} {m1 m2 : Nat} (h1 : Near q m1) (h2 : Near q m2) : m1 = m2 :=
  Nat.le_antisymm (near_mono h1 h2 Rat.le_refl) (near_mono h2 h1 Rat.le_refl)

theorem rhe_near (n d : Nat) (hd : 0 < d) : Near ((n : Rat) / (d : Rat)) (roundHalfEven n d) := by
  have hD : (0 : Rat) < (d : Rat) := natCast_pos' hd
  have hD0 : (d : Rat) ≠ 0 := Rat.ne_of_gt hD
  have hdm : d * (n / d) + n % d = n := Nat.div_add_mod n d
  have hr : n % d < d := Nat.mod_lt n hd
  have hc : (n : Rat) = (d : Rat) * ((n / d : Nat) : Rat) + ((n % d : Nat) : Rat) := by
    rw [← Rat.natCast_mul, ← Rat.natCast_add, hdm]
  -- the fractional part
  have hq : (n : Rat) / (d : Rat) = ((n / d : Nat) : Rat) + ((n % d : Nat) : Rat) / (d : Rat) := by
    rw [hc]; grind
  have hf0 : (0 : Rat) ≤ ((n % d : Nat) : Rat) / (d : Rat) := by
    rw [rat_le_div_iff hD, Rat.zero_mul]; exact Rat.natCast_nonneg
  have hlt : ∀ a b : Nat, a < b ↔ (a : Rat) < (b : Rat) := fun a b => Rat.natCast_lt_natCast.symm
  have k1 : 2 * (n % d) < d ↔ ((n % d : Nat) : Rat) / (d : Rat) < 1 / 2 := by
    rw [Rat.div_lt_iff hD, hlt, Rat.natCast_mul]; constructor <;> intro h <;> grind
  have k2 : 2 * (n % d) > d ↔ 1 / 2 < ((n % d : Nat) : Rat) / (d : Rat) := by
    rw [Rat.lt_div_iff hD, gt_iff_lt, hlt, Rat.natCast_mul]; constructor <;> intro h <;> grind
  have k3 : ((n % d : Nat) : Rat) / (d : Rat) < 1 := by
    rw [Rat.div_lt_iff hD, Rat.one_mul]; exact (hlt _ _).mp hr
  rw [hq]
  generalize ((n % d : Nat) : Rat) / (d : Rat) = f at *
  unfold roundHalfEven
  simp only []
  split
  · rename_i c1
    have := k1.mp c1
    refine ⟨by grind, by grind, ?_, ?_⟩ <;> intro h <;> exfalso <;> grind
  · rename_i c1
    split
    · rename_i c2
      have := k2.mp c2
      unfold Near; rw [Rat.natCast_add]
      refine ⟨by grind, by grind, ?_, ?_⟩ <;> intro h <;> exfalso <;> grind
    · rename_i c2
      have hf : f = 1 / 2 := by
        have a1 : ¬ f < 1 / 2 := fun h => c1 (k1.mpr h)
        have a2 : ¬ 1 / 2 < f := fun h => c2 (k2.mpr h)
        grind
      split
      · rename_i c3
        have : (n / d) % 2 = 0 := by simpa using c3
        refine ⟨by grind, by grind, fun _ => this, fun _ => this⟩
      · rename_i c3
        have : (n / d + 1) % 2 = 0 := by
          have : ¬ (n / d) % 2 = 0 := by simpa using c3
          omega
        unfold Near; rw [Rat.natCast_add]
        refine ⟨by grind, by grind, fun _ => this, fun _ => this⟩

/-! ### `ilog2Rat n d` is the floor of `log2 (n / d)` -/

theorem log2_bracket (n : Nat) (hn : 0 < n) :
    (2 : Rat) ^ (Nat.log2 n) ≤ (n : Rat) ∧ (n : Rat) < 2 * (2 : Rat) ^ (Nat.log2 n) := by
  have h1 := Nat.log2_self_le (Nat.pos_iff_ne_zero.mp hn)
  have h2 := @Nat.lt_log2_self n
  constructor
  · have := Rat.natCast_le_natCast.mpr h1
    simpa [Rat.natCast_pow] using this
  · have := Rat.natCast_lt_natCast.mpr h2
    rw [Rat.natCast_pow, Rat.pow_succ, Rat.mul_comm] at this
    simpa using this

theorem bracket_div {n d A B : Rat} (hA : 0 < A) (hB : 0 < B) (h1 : A ≤ n) (h2 : n < 2 * A)
    (h3 : B ≤ d) (h4 : d < 2 * B) : A / B / 2 < n / d ∧ n / d < 2 * (A / B) := by
  have hd : 0 < d := by grind
  have hAB : 0 < A / B := by rw [Rat.div_def]; exact Rat.mul_pos hA (Rat.inv_pos.mpr hB)
  have c : A / B * B = A := Rat.div_mul_cancel (Rat.ne_of_gt hB)
  constructor
  · rw [Rat.lt_div_iff hd]
    have := Rat.mul_lt_mul_of_pos_left h4 hAB
    grind
  · rw [Rat.div_lt_iff hd]
    have := Rat.mul_le_mul_of_nonneg_left h3 (Rat.le_of_lt hAB)
    grind

theorem pow2_sub_nat (a b : Nat) : pow2 ((a : Int) - (b : Int)) = (2 : Rat) ^ a / (2 : Rat) ^ b := by
  rw [Int.sub_eq_add_neg, pow2_add, pow2_nat, pow2_eq, Rat.zpow_neg, Rat.zpow_natCast, Rat.div_def]

theorem ilog2Rat_spec (n d : Nat) (hn : 0 < n) (hd : 0 < d) :
    pow2 (ilog2Rat n d) ≤ (n : Rat) / (d : Rat) ∧ (n : Rat) / (d : Rat) < pow2 (ilog2Rat n d + 1) := by
  have hN : (0 : Rat) < (n : Rat) := natCast_pos' hn
  have hD : (0 : Rat) < (d : Rat) := natCast_pos' hd
  obtain ⟨a1, a2⟩ := log2_bracket n hn
  obtain ⟨b1, b2⟩ := log2_bracket d hd
  have hb := bracket_div (Rat.pow_pos two_pos) (Rat.pow_pos two_pos) a1 a2 b1 b2
  rw [← pow2_sub_nat] at hb
  unfold ilog2Rat
  generalize ((Nat.log2 n : Nat) : Int) - ((Nat.log2 d : Nat) : Int) = e0 at *
  simp only []
  -- the test `ge`
  have hge : (if e0 ≥ 0 then decide (n ≥ d * 2 ^ e0.toNat) else decide (n * 2 ^ (-e0).toNat ≥ d)) = true ↔
      pow2 e0 ≤ (n : Rat) / (d : Rat) := by
    unfold pow2
    split
    · rw [rat_le_div_iff hD, ← Rat.natCast_mul, Rat.natCast_le_natCast, decide_eq_true_eq, ge_iff_le,
        Nat.mul_comm]
    · have hK : (0 : Rat) < ((2 ^ (-e0).toNat : Nat) : Rat) := natCast_pos' (Nat.pow_pos (by decide))
      rw [rat_le_div_iff hD, decide_eq_true_eq, ge_iff_le,
        show (1 : Rat) / ((2 ^ (-e0).toNat : Nat) : Rat) * (d : Rat) = (d : Rat) / ((2 ^ (-e0).toNat : Nat) : Rat) by
          grind,
        rat_div_le_iff hK, ← Rat.natCast_mul, Rat.natCast_le_natCast]
  generalize (if e0 ≥ 0 then decide (n ≥ d * 2 ^ e0.toNat) else decide (n * 2 ^ (-e0).toNat ≥ d)) = g at hge ⊢
  cases g
  · have c' : ¬ pow2 e0 ≤ (n : Rat) / (d : Rat) := fun h => absurd (hge.mpr h) (by decide)
    simp only [Bool.false_eq_true, if_false]
    rw [Int.sub_add_cancel, pow2_pred]
    exact ⟨Rat.le_of_lt hb.1, Rat.not_le.mp c'⟩
  · simp only [if_true]
    refine ⟨hge.mp rfl, ?_⟩
    rw [pow2_succ]; exact hb.2

/-! ### the magnitude computed by `roundF32` -/

/-- the magnitude `roundF32` computes from numerator and denominator of `|x|` -/
def mag (n d : Nat) : Rat :=
  let e := ilog2Rat n d
  let e := if e < -126 then -126 else e
  let sh := e - 23
  let (sn, sd) := if sh ≥ 0 then (n, d * 2 ^ sh.toNat) else (n * 2 ^ (-sh).toNat, d)
  (roundHalfEven sn sd : Rat) * pow2 sh

theorem roundF32_eq (x : Rat) :
    roundF32 x = if x = 0 then 0 else if x < 0 then -(mag x.num.natAbs x.den) else mag x.num.natAbs x.den := by
  unfold roundF32 mag
  by_cases h : x = 0
  · simp [h]
  · have : (x == 0) = false := by simpa using h
    simp only [this, h, if_false, Bool.false_eq_true]

/-- what `mag n d` is: the exponent `e` (clamped below at −126) brackets `q = n/d`, and the result is the
nearest-even multiple of `2^(e−23)` -/
theorem mag_char (n d : Nat) (hn : 0 < n) (hd : 0 < d) :
    ∃ (e : Int) (m : Nat), -126 ≤ e ∧ (n : Rat) / (d : Rat) < pow2 (e + 1) ∧
      (-126 < e → pow2 e ≤ (n : Rat) / (d : Rat)) ∧
      Near ((n : Rat) / (d : Rat) / pow2 (e - 23)) m ∧ mag n d = (m : Rat) * pow2 (e - 23) := by
  obtain ⟨s1, s2⟩ := ilog2Rat_spec n d hn hd
  have hD : (0 : Rat) < (d : Rat) := natCast_pos' hd
  unfold mag
  generalize ilog2Rat n d = l at *
  simp only []
  generalize hE : (if l < -126 then -126 else l) = e
  have he : -126 ≤ e := by rw [← hE]; split <;> omega
  have hlt : (n : Rat) / (d : Rat) < pow2 (e + 1) := by
    have : pow2 (l + 1) ≤ pow2 (e + 1) := pow2_mono (by rw [← hE]; split <;> omega)
    grind
  have hge : -126 < e → pow2 e ≤ (n : Rat) / (d : Rat) := by
    intro h
    have : e = l := by rw [← hE]; rw [← hE] at h; split at h <;> omega
    rw [this]; exact s1
  refine ⟨e, _, he, hlt, hge, ?_, rfl⟩
  have hK : ∀ k : Nat, (0 : Rat) < ((2 ^ k : Nat) : Rat) := fun k => natCast_pos' (Nat.pow_pos (by decide))
  by_cases hs : e - 23 ≥ 0
  · simp only [hs, if_true]
    have := rhe_near n (d * 2 ^ (e - 23).toNat) (Nat.mul_pos hd (Nat.pow_pos (by decide)))
    have e1 : (n : Rat) / ((d * 2 ^ (e - 23).toNat : Nat) : Rat) = (n : Rat) / (d : Rat) / pow2 (e - 23) := by
      unfold pow2; rw [if_pos hs, Rat.natCast_mul]
      have := hK (e - 23).toNat
      generalize ((2 ^ (e - 23).toNat : Nat) : Rat) = K at *
      grind
    rwa [e1] at this
  · simp only [hs, if_false]
    have := rhe_near (n * 2 ^ (-(e - 23)).toNat) d hd
    have e1 : ((n * 2 ^ (-(e - 23)).toNat : Nat) : Rat) / (d : Rat) = (n : Rat) / (d : Rat) / pow2 (e - 23) := by
      unfold pow2; rw [if_neg hs, Rat.natCast_mul]
      have := hK (-(e - 23)).toNat
      generalize ((2 ^ (-(e - 23)).toNat : Nat) : Rat) = K at *
      grind
    rwa [e1] at this

/-! ### monotonicity on the positive rationals -/

theorem pos_num_den (x : Rat) (hx : 0 < x) :
    0 < x.num.natAbs ∧ 0 < x.den ∧ (x.num.natAbs : Rat) / (x.den : Rat) = x := by
  have h1 : 0 ≤ x.num := Rat.num_nonneg.mpr (Rat.le_of_lt hx)
  have h2 : x.num ≠ 0 := fun h => Rat.ne_of_gt hx (Rat.num_eq_zero.mp h)
  refine ⟨by omega, x.den_pos, ?_⟩
  have e : ((x.num.natAbs : Nat) : Int) = x.num := by omega
  have : (x.num.natAbs : Rat) = (x.num : Rat) := by rw [← Rat.intCast_natCast, e]
  rw [this, ← Rat.mkRat_eq_div, Rat.mkRat_self]

/-- the description of `roundF32 x` for `0 < x` used by all later proofs -/
def Char (x : Rat) (e : Int) (m : Nat) : Prop :=
  -126 ≤ e ∧ x < pow2 (e + 1) ∧ (-126 < e → pow2 e ≤ x) ∧ Near (x / pow2 (e - 23)) m

theorem roundF32_pos_char (x : Rat) (hx : 0 < x) :
    ∃ (e : Int) (m : Nat), Char x e m ∧ roundF32 x = (m : Rat) * pow2 (e - 23) := by
  obtain ⟨hn, hd, hq⟩ := pos_num_den x hx
  obtain ⟨e, m, h1, h2, h3, h4, h5⟩ := mag_char _ _ hn hd
  rw [hq] at h2 h3 h4
  refine ⟨e, m, ⟨h1, h2, h3, h4⟩, ?_⟩
  rw [roundF32_eq, if_neg (Rat.ne_of_gt hx), if_neg (Rat.not_lt.mpr (Rat.le_of_lt hx)), h5]

theorem two_pow_24 : pow2 24 = ((16777216 : Nat) : Rat) := by decide +kernel
theorem two_pow_23 : pow2 23 = ((8388608 : Nat) : Rat) := by decide +kernel

theorem pow2_split24 (e : Int) : pow2 (e + 1) = ((16777216 : Nat) : Rat) * pow2 (e - 23) := by
  rw [← two_pow_24, ← pow2_add]; congr 1; omega

theorem pow2_split23 (e : Int) : pow2 e = ((8388608 : Nat) : Rat) * pow2 (e - 23) := by
  rw [← two_pow_23, ← pow2_add]; congr 1; omega

/-- below the top of the binade the significand is at most `2^24` -/
theorem char_le_top {x : Rat} {e : Int} {m : Nat} (h : Char x e m) :
    (m : Rat) * pow2 (e - 23) ≤ pow2 (e + 1) := by
  obtain ⟨_, h2, _, h4⟩ := h
  have hP := pow2_pos (e - 23)
  have : x / pow2 (e - 23) ≤ ((16777216 : Nat) : Rat) := by
    rw [rat_div_le_iff hP, ← pow2_split24]; exact Rat.le_of_lt h2
  have hm := near_mono h4 (near_nat _) this
  rw [pow2_split24]
  exact Rat.mul_le_mul_of_nonneg_right (Rat.natCast_le_natCast.mpr hm) (Rat.le_of_lt hP)

/-- in a normal binade the significand is at least `2^23` -/
theorem char_ge_bot {x : Rat} {e : Int} {m : Nat} (h : Char x e m) (he : -126 < e) :
    pow2 e ≤ (m : Rat) * pow2 (e - 23) := by
  obtain ⟨_, _, h3, h4⟩ := h
  have hP := pow2_pos (e - 23)
  have : ((8388608 : Nat) : Rat) ≤ x / pow2 (e - 23) := by
    rw [rat_le_div_iff hP, ← pow2_split23]; exact h3 he
  have hm := near_mono (near_nat _) h4 this
  rw [pow2_split23]
  exact Rat.mul_le_mul_of_nonneg_right (Rat.natCast_le_natCast.mpr hm) (Rat.le_of_lt hP)

theorem char_mono {x y : Rat} (hxy : x ≤ y) {e1 e2 : Int} {m1 m2 : Nat}
    (h1 : Char x e1 m1) (h2 : Char y e2 m2) :
    (m1 : Rat) * pow2 (e1 - 23) ≤ (m2 : Rat) * pow2 (e2 - 23) := by
  rcases Int.lt_trichotomy e1 e2 with hlt | heq | hgt
  · -- x is below the binade boundary `2^e2`, y above
    have a := char_le_top h1
    have b := char_ge_bot h2 (by have := h1.1; omega)
    have c : pow2 (e1 + 1) ≤ pow2 e2 := pow2_mono (by omega)
    exact Rat.le_trans a (Rat.le_trans c b)
  · subst heq
    have hP := pow2_pos (e1 - 23)
    have hm := near_mono h1.2.2.2 h2.2.2.2 (rat_div_le_div_right hP hxy)
    exact Rat.mul_le_mul_of_nonneg_right (Rat.natCast_le_natCast.mpr hm) (Rat.le_of_lt hP)
  · exfalso
    have a : y < pow2 (e2 + 1) := h2.2.1
    have b : pow2 e1 ≤ x := h1.2.2.1 (by have := h2.1; omega)
    have c : pow2 (e2 + 1) ≤ pow2 e1 := pow2_mono (by omega)
    grind

theorem roundF32_mono_pos {x y : Rat} (hx : 0 < x) (hxy : x ≤ y) : roundF32 x ≤ roundF32 y := by
  obtain ⟨e1, m1, c1, r1⟩ := roundF32_pos_char x hx
  obtain ⟨e2, m2, c2, r2⟩ := roundF32_pos_char y (by grind)
  rw [r1, r2]; exact char_mono hxy c1 c2

theorem roundF32_nonneg_of_pos {x : Rat} (hx : 0 < x) : 0 ≤ roundF32 x := by
  obtain ⟨e, m, _, r⟩ := roundF32_pos_char x hx
  rw [r]; exact Rat.mul_nonneg Rat.natCast_nonneg (Rat.le_of_lt (pow2_pos _))

/-! ### the four facts -/

theorem roundF32_zero : roundF32 0 = 0 := by decide +kernel
theorem roundF32_one : roundF32 1 = 1 := by decide +kernel

theorem roundF32_neg (x : Rat) : roundF32 (-x) = -(roundF32 x) := by
  rw [roundF32_eq, roundF32_eq]
  by_cases h0 : x = 0
  · subst h0; decide +kernel
  · have h0' : -x ≠ 0 := by grind
    rw [if_neg h0, if_neg h0', Rat.neg_num, Rat.neg_den, Int.natAbs_neg]
    by_cases hn : x < 0
    · have : ¬ -x < 0 := by grind
      rw [if_pos hn, if_neg this, Rat.neg_neg]
    · have : -x < 0 := by grind
      rw [if_pos this, if_neg hn]

theorem roundF32_nonneg {x : Rat} (hx : 0 ≤ x) : 0 ≤ roundF32 x := by
  by_cases h0 : x = 0
  · subst h0; rw [roundF32_zero]; exact Rat.le_refl
  · exact roundF32_nonneg_of_pos (by grind)

theorem roundF32_nonpos {x : Rat} (hx : x ≤ 0) : roundF32 x ≤ 0 := by
  have := roundF32_nonneg (x := -x) (by grind)
  rw [roundF32_neg] at this; grind

/-- `roundF32` is monotone on all of `Rat` -/
theorem roundF32_mono {x y : Rat} (h : x ≤ y) : roundF32 x ≤ roundF32 y := by
  by_cases hx : 0 < x
  · exact roundF32_mono_pos hx h
  · have hx' : x ≤ 0 := Rat.not_lt.mp hx
    by_cases hy : y < 0
    · have := roundF32_mono_pos (x := -y) (y := -x) (by grind) (by grind)
      rw [roundF32_neg, roundF32_neg] at this; grind
    · exact Rat.le_trans (roundF32_nonpos hx') (roundF32_nonneg (Rat.not_lt.mp hy))

/-- the unit interval is kept -/
theorem roundF32_unit {x : Rat} (h0 : 0 ≤ x) (h1 : x ≤ 1) : 0 ≤ roundF32 x ∧ roundF32 x ≤ 1 :=
  ⟨roundF32_nonneg h0, roundF32_one ▸ roundF32_mono h1⟩

/-! ### stepping stones about `roundHalfEven`, in `Nat` -/

/-- monotone in the numerator for a fixed denominator -/
theorem roundHalfEven_mono_num {n1 n2 d : Nat} (hd : 0 < d) (h : n1 ≤ n2) :
    roundHalfEven n1 d ≤ roundHalfEven n2 d :=
  near_mono (rhe_near n1 d hd) (rhe_near n2 d hd)
    (rat_div_le_div_right (natCast_pos' hd) (Rat.natCast_le_natCast.mpr h))

/-- monotone across fractions: `n1/d1 ≤ n2/d2` (cross-multiplied) -/
theorem roundHalfEven_mono {n1 d1 n2 d2 : Nat} (h1 : 0 < d1) (h2 : 0 < d2) (h : n1 * d2 ≤ n2 * d1) :
    roundHalfEven n1 d1 ≤ roundHalfEven n2 d2 := by
  apply near_mono (rhe_near n1 d1 h1) (rhe_near n2 d2 h2)
  have D1 := natCast_pos' h1
  have D2 := natCast_pos' h2
  rw [rat_div_le_iff D1, Rat.div_def, Rat.mul_assoc, Rat.mul_comm _ (d1 : Rat), ← Rat.mul_assoc, ← Rat.div_def,
    rat_le_div_iff D2, ← Rat.natCast_mul, ← Rat.natCast_mul]
  exact Rat.natCast_le_natCast.mpr h

/-- the rounding error is at most half a unit: `|d * roundHalfEven n d − n| ≤ d / 2` -/
theorem roundHalfEven_err (n d : Nat) (hd : 0 < d) :
    2 * (d * roundHalfEven n d) ≤ 2 * n + d ∧ 2 * n ≤ 2 * (d * roundHalfEven n d) + d := by
  obtain ⟨a, b, _, _⟩ := rhe_near n d hd
  have D := natCast_pos' hd
  generalize roundHalfEven n d = m at *
  have hq : (n : Rat) / (d : Rat) * (d : Rat) = (n : Rat) := Rat.div_mul_cancel (Rat.ne_of_gt D)
  have a' := Rat.mul_le_mul_of_nonneg_right a (Rat.le_of_lt D)
  have b' := Rat.mul_le_mul_of_nonneg_right b (Rat.le_of_lt D)
  rw [Rat.add_mul, hq] at a' b'
  constructor
  · apply Rat.natCast_le_natCast.mp
    simp only [Rat.natCast_mul, Rat.natCast_add, Rat.natCast_ofNat]
    grind
  · apply Rat.natCast_le_natCast.mp
    simp only [Rat.natCast_mul, Rat.natCast_add, Rat.natCast_ofNat]
    grind

/-! ### binary32 values are fixed points -/

/-- every `k · 2^s` with `k < 2^24` and `s ≥ −149` (i.e. every non-negative binary32 value, normal or
subnormal) is returned unchanged -/
theorem roundF32_fix (k : Nat) (s : Int) (hk : k < 16777216) (hs : -149 ≤ s) :
    roundF32 ((k : Rat) * pow2 s) = (k : Rat) * pow2 s := by
  by_cases hk0 : k = 0
  · subst hk0; simp [roundF32_zero]
  have hkp : (0 : Rat) < (k : Rat) := natCast_pos' (by omega)
  have hx : 0 < (k : Rat) * pow2 s := Rat.mul_pos hkp (pow2_pos s)
  obtain ⟨e, m, ⟨c1, c2, c3, c4⟩, r⟩ := roundF32_pos_char _ hx
  have hj : 0 ≤ s - (e - 23) := by
    by_cases he : e = -126
    · omega
    · have h1 : pow2 e ≤ (k : Rat) * pow2 s := c3 (by omega)
      have h2 : (k : Rat) * pow2 s < pow2 (s + 24) := by
        have := pow2_split24 (s + 23)
        rw [show s + 23 - 23 = s by omega, show s + 23 + 1 = s + 24 by omega] at this
        rw [this]
        exact Rat.mul_lt_mul_of_pos_right (Rat.natCast_lt_natCast.mpr hk) (pow2_pos s)
      apply Decidable.byContradiction
      intro hc
      have : pow2 (s + 24) ≤ pow2 e := pow2_mono (by omega)
      grind
  have hs' : pow2 s = pow2 (s - (e - 23)) * pow2 (e - 23) := by rw [← pow2_add]; congr 1; omega
  have hpj : pow2 (s - (e - 23)) = ((2 ^ (s - (e - 23)).toNat : Nat) : Rat) := by unfold pow2; rw [if_pos hj]
  have hP := pow2_pos (e - 23)
  have hq : (k : Rat) * pow2 s / pow2 (e - 23) = ((k * 2 ^ (s - (e - 23)).toNat : Nat) : Rat) := by
    rw [Rat.natCast_mul, ← hpj, hs', ← Rat.mul_assoc, Rat.mul_div_cancel (Rat.ne_of_gt hP)]
  rw [hq] at c4
  have hm := near_unique c4 (near_nat _)
  rw [r, hm, Rat.natCast_mul, ← hpj, Rat.mul_assoc, ← hs']

/-- and so is its negative -/
theorem roundF32_fix_neg (k : Nat) (s : Int) (hk : k < 16777216) (hs : -149 ≤ s) :
    roundF32 (-((k : Rat) * pow2 s)) = -((k : Rat) * pow2 s) := by
  rw [roundF32_neg, roundF32_fix k s hk hs]

theorem char_m_le {x : Rat} {e : Int} {m : Nat} (h : Char x e m) : m ≤ 16777216 := by
  obtain ⟨_, h2, _, h4⟩ := h
  have hP := pow2_pos (e - 23)
  have : x / pow2 (e - 23) ≤ ((16777216 : Nat) : Rat) := by
    rw [rat_div_le_iff hP, ← pow2_split24]; exact Rat.le_of_lt h2
  exact near_mono h4 (near_nat _) this

/-- rounding twice is rounding once (the result is a binary32 value) -/
theorem roundF32_idem (x : Rat) : roundF32 (roundF32 x) = roundF32 x := by
  have pos : ∀ x : Rat, 0 < x → roundF32 (roundF32 x) = roundF32 x := by
    intro x hx
    obtain ⟨e, m, c, r⟩ := roundF32_pos_char x hx
    have hm := char_m_le c
    have he := c.1
    rw [r]
    by_cases h : m < 16777216
    · exact roundF32_fix m (e - 23) h (by omega)
    · have : m = 16777216 := by omega
      subst this
      have e1 : ((16777216 : Nat) : Rat) * pow2 (e - 23) = ((8388608 : Nat) : Rat) * pow2 (e - 22) := by
        rw [show e - 22 = (e - 23) + 1 by omega, pow2_succ]
        rw [show ((16777216 : Nat) : Rat) = ((8388608 : Nat) : Rat) * 2 by decide +kernel, Rat.mul_assoc]
      rw [e1]
      exact roundF32_fix 8388608 (e - 22) (by decide) (by omega)
  by_cases h0 : x = 0
  · subst h0; rw [roundF32_zero, roundF32_zero]
  · by_cases hx : 0 < x
    · exact pos x hx
    · have hn : 0 < -x := by grind
      have := pos (-x) hn
      rw [roundF32_neg, roundF32_neg] at this
      grind

end Jx
