/-
L0: 2-D grids as lists of rows.  Import-free.
-/
import JumanjiModel.Prim.Idx
namespace Jx

abbrev Grid (α : Type) := List (List α)

namespace Grid
variable {α : Type}

def rows (g : Grid α) : Nat := g.length
def cols (g : Grid α) : Nat := match g with | [] => 0 | r :: _ => r.length

/-- plain in-range lookup with default (no wrapping): use only behind an explicit bounds test -/
def get (g : Grid α) (d : α) (r c : Nat) : α := List.getD (List.getD g r []) c d

/-- `g[r, c]` with traced indices: wrap + clamp on both axes (JAX gather). -/
def getWC (g : Grid α) (d : α) (r c : Int) : α := Jx.getWC (Jx.getWC g [] r) d c

def set (g : Grid α) (r c : Nat) (v : α) : Grid α :=
  match g[r]? with
  | none => g
  | some row => List.set g r (List.set row c v)

/-- `g.at[r, c].set(v)`: wrap, drop if either index is out of range. -/
def setWD (g : Grid α) (r c : Int) (v : α) : Grid α :=
  let nr := g.length
  let r' := wrapIdx nr r
  if r' < 0 then g else if r' ≥ (nr : Int) then g else
    match g[r'.toNat]? with
    | none => g
    | some row =>
      let c' := wrapIdx row.length c
      if c' < 0 then g else if c' ≥ (row.length : Int) then g else
        List.set g r'.toNat (List.set row c'.toNat v)

def transpose (g : Grid α) : Grid α :=
  match g with
  | [] => []
  | r :: _ => (List.range r.length).map (fun c => List.filterMap (fun row => row[c]?) g)

def flipLR (g : Grid α) : Grid α := List.map List.reverse g
def flipUD (g : Grid α) : Grid α := List.reverse g

/-- `jnp.rot90(g, k=1)`: counter-clockwise. -/
def rot90 (g : Grid α) : Grid α := List.reverse (transpose g)

def rot90k (g : Grid α) : Nat → Grid α
  | 0 => g
  | k+1 => rot90 (rot90k g k)

def mk (nr nc : Nat) (v : α) : Grid α := List.replicate nr (List.replicate nc v)

def flatten (g : Grid α) : List α := List.flatten g

def count (p : α → Bool) (g : Grid α) : Nat := ((List.flatten g).filter p).length

def all (p : α → Bool) (g : Grid α) : Bool := List.all g (fun r => List.all r p)
def any (p : α → Bool) (g : Grid α) : Bool := List.any g (fun r => List.any r p)

def map {β} (f : α → β) (g : Grid α) : Grid β := List.map (List.map f) g

def zipWith {β γ} (f : α → β → γ) (a : Grid α) (b : Grid β) : Grid γ :=
  List.zipWith (List.zipWith f) a b

/-- all coordinates `(r,c)` of an `nr × nc` grid in row-major order -/
def coords (nr nc : Nat) : List (Nat × Nat) :=
  (List.range nr).flatMap (fun r => (List.range nc).map (fun c => (r, c)))

/-- well-shaped: every row has `nc` columns and there are `nr` rows -/
def shaped (g : Grid α) (nr nc : Nat) : Bool := List.length g == nr && List.all g (fun r => List.length r == nc)

end Grid
end Jx
