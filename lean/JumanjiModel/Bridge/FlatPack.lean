/- Driver ops for FlatPack.  Ops: flat_pack.state, flat_pack.step, flat_pack.judge, flat_pack.instance -/
import JumanjiModel.Bridge.Json
import JumanjiModel.Env.FlatPack.Model
import JumanjiModel.Prim.Float
import JumanjiModel.Env.FlatPack.Bounds
import JumanjiModel.Bridge.PuzzleBounds
open Lean Jb

namespace Jb.FlatPack
open _root_.FlatPack

structure BCfg where
  cfg : Cfg
  f32 : Bool
  byActions : Bool

def getCfg (j : Json) : Except String BCfg := do
  let c : Cfg := { numRows := ← fNat j "num_rows", numCols := ← fNat j "num_cols",
                   numBlocks := ← fNat j "num_blocks", cellDense := ← fBool j "cell_dense" }
  if c.numRows < 3 || c.numCols < 3 then throw "grid smaller than a block"
  pure { cfg := c, f32 := ← fBool j "f32", byActions := (← fOpt j "by_actions" getBool).getD false }

def getMask (j : Json) : Except String Mask := getList (getList (getList (getList getBool))) j
def jMask (m : Mask) : Json := jList (jList (jList jBools)) m

def maskShaped (cfg : Cfg) (m : Mask) : Bool :=
  m.length == cfg.numBlocks && m.all (fun a => a.length == 4 && a.all (fun b =>
    b.length == cfg.numRows - 2 && b.all (fun c => c.length == cfg.numCols - 2)))

def getState (cfg : Cfg) (j : Json) : Except String State := do
  let g ← fNatGrid j "grid"
  let blocks ← getList (getList (getList getNat)) (← field j "blocks")
  let m ← getMask (← field j "action_mask")
  let placed ← fBools j "placed_blocks"
  if !(Jx.Grid.shaped g cfg.numRows cfg.numCols) then throw "grid has the wrong shape"
  if blocks.length != cfg.numBlocks || !(blocks.all (fun b => Jx.Grid.shaped b 3 3)) then throw "blocks have the wrong shape"
  if placed.length != cfg.numBlocks then throw "placed_blocks has the wrong length"
  if !(maskShaped cfg m) then throw "action_mask has the wrong shape"
  pure { grid := g, numBlocks := ← fNat j "num_blocks", blocks := blocks, actionMask := m, placed := placed,
         stepCount := ← fNat j "step_count" }

def jState (s : State) : Json :=
  jObj [("grid", jNatGrid s.grid), ("num_blocks", jNat s.numBlocks), ("blocks", jList jNatGrid s.blocks),
        ("action_mask", jMask s.actionMask), ("placed_blocks", jBools s.placed), ("step_count", jNat s.stepCount)]

def jObs (o : Obs) : Json :=
  jObj [("grid", jNatGrid o.grid), ("blocks", jList jNatGrid o.blocks), ("action_mask", jMask o.actionMask)]

def getObs (j : Json) : Except String Obs := do
  pure { grid := ← fNatGrid j "grid", blocks := ← getList (getList (getList getNat)) (← field j "blocks"),
         actionMask := ← getMask (← field j "action_mask") }

def getAction (j : Json) : Except String Action := do
  match ← fInts j "action" with
  | [b, k, r, c] => pure { block := b, rot := k, row := r, col := c }
  | _ => throw "action must be [block, rotation, row, column]"

def legalAct (cfg : Cfg) (s : State) (a : Action) : Bool :=
  decide (0 ≤ a.block) && decide (0 ≤ a.rot) && decide (0 ≤ a.row) && decide (0 ≤ a.col) &&
  legalB cfg s a.block.toNat a.rot.toNat a.row.toNat a.col.toNat

def flat (m : Mask) : List Bool := (m.flatten).flatten.flatten

/-- {"cfg", "state", "action": [block, rot, row, col]} → {"state", "ts", "valid"} -/
def opStep : Op := fun j => do
  let bc ← getCfg (← field j "cfg")
  let s ← getState bc.cfg (← field j "state")
  let a ← getAction j
  let rnd : Rat → Rat := if bc.f32 then Jx.roundF32 else id
  let (s', ts) := step rnd bc.cfg s a
  -- the rules (L2 `stepL2`) run next to the transliteration: `Props.C09.flatpack_step_eq_spec` says they agree on every
  -- state satisfying the episode invariant `Inv` (feasible, cached mask = legal moves) with no more blocks placed than
  -- steps taken, and every action of the action space; a difference is reported, never hidden.  The guard tests the cheap
  -- consequences of those hypotheses that the comparison needs (shapes are checked by `getState`; the only entry of the
  -- cached mask that `step` reads is the one at the action), so that the check runs on every implementation state.
  if decide (0 ≤ a.block) && decide (0 ≤ a.rot) && decide (0 ≤ a.row) && decide (0 ≤ a.col) &&
      inSpec bc.cfg a.block.toNat a.rot.toNat a.row.toNat a.col.toNat &&
      decide (Jx.countTrue s.placed ≤ s.stepCount) && s.numBlocks == bc.cfg.numBlocks &&
      maskAt s.actionMask a == legalB bc.cfg s a.block.toNat a.rot.toNat a.row.toNat a.col.toNat then
    let (m, mts) := stepL2 rnd bc.cfg s a.block.toNat a.rot.toNat a.row.toNat a.col.toNat
    unless decide (m = s') && mts.stepType == ts.stepType && mts.reward == ts.reward &&
        mts.discount == ts.discount && decide (mts.obs = ts.obs) do
      throw "flat_pack.step: L1 step and L2 stepL2 differ (theorem flatpack_step_eq_spec would be false here)"
  pure (jObj [("state", jState s'), ("ts", jTimeStep jObs ts), ("valid", jBool (legalAct bc.cfg s a))])

/-- {"cfg", "state"} → mask (L1 recomputed), legal (L2), obs, feasible, solution, objective -/
def opState : Op := fun j => do
  let bc ← getCfg (← field j "cfg")
  let cfg := bc.cfg
  let s ← getState cfg (← field j "state")
  pure (jObj [("mask", jBools (flat (makeActionMask cfg s.grid s.blocks s.placed))),
              ("legal", jBools (flat (legalMask cfg s))),
              ("obs", jObs (observe s)),
              ("feasible", jBool (feasibleB cfg s)),
              ("solution", jBool (decide (IsSolution cfg s))),
              ("objective", jRat (objective cfg s))])

/-- {"cfg", "state", "action", "next", "ts"} → {"illegal_ok": bool|null} -/
def opJudge : Op := fun j => do
  let bc ← getCfg (← field j "cfg")
  let s ← getState bc.cfg (← field j "state")
  let a ← getAction j
  let s' ← getState bc.cfg (← field j "next")
  let ts ← getTimeStep getObs (← field j "ts")
  let ill : Json := if legalAct bc.cfg s a then .null else jBool (illegalOk s s' ts)
  pure (jObj [("illegal_ok", ill)])

/-- {"cfg", "state"} → certificates of a generated instance (C10) -/
def opInstance : Op := fun j => do
  let bc ← getCfg (← field j "cfg")
  let s ← getState bc.cfg (← field j "state")
  let base := [("blocks_ok", jBool (blocksOK bc.cfg s)), ("fresh", jBool (freshOK bc.cfg s)),
               ("blocks_tile_grid", jBool (tilesFree bc.cfg s)),
               -- hypothesis of the C01 membership theorems: the blocks are numbered within 1 … num_blocks
               ("blocks_bounded", jBool (decide (BlocksBounded bc.cfg s.blocks)))]
  let extra := if bc.byActions then [("solvable_by_actions", jBool (tilesByActions bc.cfg s))] else []
  pure (jObj (base ++ extra))

/-- C01 bounds op: {"cfg"} → the proved interval of every observation leaf -/
def opBounds : Op := fun j => do
  let bc ← getCfg (← field j "cfg")
  pure (jBoundsTable (obsBounds bc.cfg))

def ops : List (String × Op) :=
  [("flat_pack.step", opStep), ("flat_pack.state", opState), ("flat_pack.judge", opJudge),
   ("flat_pack.instance", opInstance),
   ("flat_pack.bounds", opBounds)]
end Jb.FlatPack
