/- Driver ops for LevelBasedForaging.  Ops: lbf.{step, state, judge, instance, bounds, spec} -/
import JumanjiModel.Bridge.Json
import JumanjiModel.Env.LBF.Model
import JumanjiModel.Env.LBF.Bounds
import JumanjiModel.Env.LBF.SpecValid
import JumanjiModel.Bridge.Spec
open Lean Jb

namespace Jb.LBF
open _root_.LBF Jm

/-- state layout = adapter `ser_state`:
{"agents": [{"id","x","y","level","loading"}], "foods": [{"id","x","y","level","eaten"}], "step_count"} -/
def getAgent (j : Json) : Except String Agent := do
  pure { id := ← fInt j "id", pos := (← fInt j "x", ← fInt j "y"), level := ← fInt j "level",
         loading := ← fBool j "loading" }

def getFood (j : Json) : Except String Food := do
  pure { id := ← fInt j "id", pos := (← fInt j "x", ← fInt j "y"), level := ← fInt j "level",
         eaten := ← fBool j "eaten" }

def getState (j : Json) : Except String State := do
  pure { agents := ← getList getAgent (← field j "agents"), foods := ← getList getFood (← field j "foods"),
         stepCount := ← fInt j "step_count" }

def jAgent (a : Agent) : Json :=
  jObj [("id", jInt a.id), ("x", jInt a.pos.1), ("y", jInt a.pos.2), ("level", jInt a.level),
        ("loading", jBool a.loading)]

def jFood (f : Food) : Json :=
  jObj [("id", jInt f.id), ("x", jInt f.pos.1), ("y", jInt f.pos.2), ("level", jInt f.level),
        ("eaten", jBool f.eaten)]

def jState (s : State) : Json :=
  jObj [("agents", jList jAgent s.agents), ("foods", jList jFood s.foods), ("step_count", jInt s.stepCount)]

def jView : View → Json
  | .vec v => jIntGrid v
  | .grid g => jList (jList jIntGrid) g

def jObs (o : Obs) : Json :=
  jObj [("agents_view", jView o.view), ("action_mask", jBoolGrid o.mask), ("step_count", jInt o.stepCount)]

/-- cfg = {"grid_size","fov","time_limit","grid_obs","normalize","penalty":[n,d],"max_agent_level","force_coop"} -/
def getCfg (j : Json) : Except String Cfg := do
  let cfg ← field j "cfg"
  pure { gridSize := ← fNat cfg "grid_size", fov := ← fNat cfg "fov", timeLimit := ← fInt cfg "time_limit",
         gridObs := ← fBool cfg "grid_obs", normalize := ← fBool cfg "normalize", penalty := ← fRat cfg "penalty" }

def jNValue (v : Sp.NValue) : Json := jList (fun (e : String × Sp.Arr) => jObj [("key", jStr e.1), ("value", SpecOps.jArr e.2)]) v

/-- the generator's arguments the specs depend on: (num_agents, num_food, max_agent_level) -/
def getAFL (j : Json) : Except String (Nat × Nat × Nat) := do
  let c ← field j "cfg"
  pure (← fNat c "num_agents", ← fNat c "num_food", ← fNat c "max_agent_level")

def getActions (j : Json) : Except String (List Int) := getList getInt j

def legalInt (g : Nat) (s : State) (i : Nat) (a : Int) : Bool := decide (0 ≤ a) && decide (legal g s i a.toNat)

def ratsClose (xs ys : List Rat) : Bool := xs == ys

/-- L1 step; `valid` = per-agent L2 legality.  On consistent well-formed states with in-spec actions the
rule-level step (L2) is run as well and must give the same successor, step type, reward and discount, and
the L1 observation must be the documented one. -/
def opStep : Op := fun j => do
  let cfg ← getCfg j
  let s ← getState (← field j "state")
  let as ← getActions (← field j "action")
  if as.length ≠ s.agents.length then throw "action length differs from the number of agents"
  let (s', ts) := step cfg s as
  let valid := (List.range s.agents.length).map (fun i => legalInt cfg.gridSize s i (as.getD i 0))
  if decide (Consistent cfg.gridSize s) && decide (WF s) && as.all (fun a => decide (0 ≤ a ∧ a < 6)) then
    let r := stepL2 cfg s (as.map Int.toNat)
    if r.1 ≠ s' then throw s!"L1 and L2 successor states differ: {repr r.1} vs {repr s'}"
    if r.2.1 ≠ ts.stepType then throw "L1 and L2 step types differ"
    if r.2.2.1 ≠ ts.reward then throw s!"L1 and L2 rewards differ: {repr r.2.2.1} vs {repr ts.reward}"
    if r.2.2.2 ≠ ts.discount then throw "L1 and L2 discounts differ"
    if observeL2 cfg s' ≠ ts.obs then throw "L1 observation differs from the documented observation (L2)"
  pure (jObj [("state", jState s'), ("ts", jTimeStep jObs ts), ("valid", jBools valid)])

/-- {cfg, state[, initial, actions]} → mask (L1, flat A*6), legal (L2, flat), obs (L2), consistent,
    objective (per-agent return of the rules replayed from `initial` along `actions`; the replay must end in `state`) -/
def opState : Op := fun j => do
  let cfg ← getCfg j
  let s ← getState (← field j "state")
  let g := cfg.gridSize
  let base := [("mask", jBools (masks g s).flatten),
               ("legal", jBools (legalMask g s).flatten),
               ("obs", jObs (observeL2 cfg s)),
               ("consistent", jBool (decide (Consistent g s) && decide (WF s)))]
  -- wave 4 (C01), when the configuration carries the generator's arguments: the timestep the model's `reset` builds on top of this
  -- state, the L1 observation as spec-level arrays (`toNValue`), its membership in the model's `obsSpec cfg A F L`, and the invariant
  -- of `lbf_step_obs_valid`
  let base ← match ← fOpt (← field j "cfg") "max_agent_level" getNat with
    | none => pure base
    | some _ => do
      let (A, F, L) ← getAFL j
      pure (base ++ [("reset_ts", jTimeStep jObs (resetTs cfg s)),
                     ("nvalue", jNValue (toNValue (observe cfg s))),
                     ("obs_in_spec", jBool ((obsSpec cfg A F L).valid (toNValue (observe cfg s)))),
                     ("spec_inv", jBool (decide (SpecInv cfg A F L s)))])
  let init ← fOpt j "initial" getState
  let acts ← fOpt j "actions" (getList getActions)
  match init, acts with
  | some s0, some as =>
    if !(as.all (fun a => a.all (fun x => decide (0 ≤ x)))) then throw "negative action"
    let (sf, ret) := playL2 cfg s0 (as.map (fun a => a.map Int.toNat)) (List.replicate s0.agents.length 0)
    if sf ≠ s then throw s!"replaying the actions under the rules does not end in the given final state: {repr sf}"
    let allEaten := s.foods.all (·.eaten)
    if allEaten && cfg.normalize && decide (cfg.penalty = 0) && s0.foods.all (fun f => !f.eaten) &&
        decide (WF s0) && decide (ret.sum ≠ 1) then
      throw s!"all food collected but the shares under the rules add up to {ret.sum}, not 1"
    pure (jObj (base ++ [("objective", jRats ret), ("all_eaten", jBool allEaten), ("total", jRat ret.sum)]))
  | _, _ => pure (jObj base)

/-- Lean-defined predicates on an implementation transition -/
def opJudge : Op := fun j => do
  let cfg ← getCfg j
  let g := cfg.gridSize
  let s ← getState (← field j "state")
  let as ← getActions (← field j "action")
  let s' ← getState (← field j "next")
  let ts ← getTimeStep (fun _ => pure ()) (← field j "ts")
  let n := s.agents.length
  if as.length ≠ n then throw "action length differs from the number of agents"
  let newly (k : Nat) : Bool := !(s.foods.getD k default).eaten && (s'.foods.getD k default).eaten
  let okAgent (i : Nat) : Bool :=
    let a := as.getD i 0
    let o := s.agents.getD i default
    let o' := s'.agents.getD i default
    legalInt g s i a ||
      (decide (o'.pos = o.pos) && decide (o'.level = o.level) && decide (o'.id = o.id) &&
       (List.range s.foods.length).all (fun k =>
          !(newly k) || !(decide (a = 5) && decide (dist o'.pos (s'.foods.getD k default).pos = 1))) &&
       decide (ts.reward.getD i 1 ≤ 0) && (decide (cfg.penalty ≠ 0) || decide (ts.reward.getD i 1 = 0)))
  let allLegal := (List.range n).all (fun i => legalInt g s i (as.getD i 0))
  let otherCause := s'.foods.all (·.eaten) || decide (cfg.timeLimit ≤ s'.stepCount)
  let ill : Json := if allLegal then .null else
    jBool ((List.range n).all okAgent && s'.agents.length == n && (ts.stepType != .last || otherCause))
  -- occupancy bookkeeping conserved: same entities, food never moves / changes level / gets uneaten
  let conserved :=
    s'.agents.length == n && s'.foods.length == s.foods.length &&
    (List.range n).all (fun i =>
      let o := s.agents.getD i default
      let o' := s'.agents.getD i default
      decide (o'.id = o.id) && decide (o'.level = o.level) && decide (dist o'.pos o.pos ≤ 1)) &&
    (List.range s.foods.length).all (fun k =>
      let f := s.foods.getD k default
      let f' := s'.foods.getD k default
      decide (f'.id = f.id) && decide (f'.pos = f.pos) && decide (f'.level = f.level) && (!f.eaten || f'.eaten)) &&
    decide (s'.stepCount = s.stepCount + 1)
  pure (jObj [("illegal_ok", ill), ("conserved", jBool conserved)])

/-- generator certificates on a reset state; cfg additionally has max_agent_level, force_coop -/
def opInstance : Op := fun j => do
  let cfg ← getCfg j
  let c ← field j "cfg"
  let maxLevel ← fInt c "max_agent_level"
  let coop ← fBool c "force_coop"
  let na ← fNat c "num_agents"
  let nf ← fNat c "num_food"
  let s ← getState (← field j "state")
  let g := cfg.gridSize
  let lv := (s.agents.map (·.level)).mergeSort (fun a b => decide (a ≤ b))
  let low3 : Int := (lv.take 3).sum
  -- the transliterated generator (`generate`, theorems `Props.C10.lbf_generate_*`): read the draw off the
  -- implementation's reset state (flat cell = x * g + y, levels as they are); it must lie in the samplers'
  -- support (`validDraw`: current food mask bit set, agents distinct on mask cells, levels in range) and the
  -- model's generator run on that draw must reproduce the state
  let gc : GenCfg := { gridSize := g, numAgents := na, numFood := nf, maxAgentLevel := maxLevel, forceCoop := coop }
  let flat (p : Pos) : Int := p.1 * (g : Int) + p.2
  let draw : GenDraw := { foodFlat := s.foods.map (fun f => flat f.pos), agentFlat := s.agents.map (fun a => flat a.pos),
                          agentLevels := s.agents.map (·.level), foodLevels := s.foods.map (·.level) }
  pure (jObj [
    ("draw_in_support", jBool (validDraw gc draw)),
    ("generator_matches", jBool (decide (generate gc draw = s))),
    ("counts", jBool (s.agents.length == na && s.foods.length == nf)),
    ("entities_on_distinct_free_cells", jBool (decide (Consistent g s))),
    ("ids_and_levels", jBool (decide (WF s) &&
        (List.range s.foods.length).all (fun k => decide ((s.foods.getD k default).id = (k : Int))))),
    ("food_not_on_border", jBool (decide (foodsInterior g s))),
    ("food_not_adjacent", jBool (decide (foodsApart s))),
    ("fresh_start", jBool (decide (freshStart s))),
    ("agent_levels_in_range", jBool (s.agents.all (fun a => decide (1 ≤ a.level ∧ a.level ≤ maxLevel)))),
    ("food_levels_in_range", jBool (s.foods.all (fun f => decide (1 ≤ f.level ∧ f.level ≤ low3) &&
        (!coop || decide (f.level = low3))))),
    ("collectable", jBool (decide (collectable s))),
    -- wave 4 (C01): the invariant behind `lbf_step_obs_valid` and membership of the reset observation in the symbolic
    -- `obsSpec cfg num_agents num_food max_agent_level`, on the implementation's reset state
    ("spec_inv", jBool (decide (SpecInv cfg na nf maxLevel.toNat s))),
    ("reset_obs_in_spec", jBool ((obsSpec cfg na nf maxLevel.toNat).valid (toNValue (resetTs cfg s).obs)))])

/-- C01: the proven value interval of every observation leaf (`obsBounds`; theorems
`Props.C01.lbf_{reset,step}_obs_in_bounds`); cfg additionally has num_agents, max_agent_level -/
def opBounds : Op := fun j => do
  let cfg ← getCfg j
  let c ← field j "cfg"
  let na ← fNat c "num_agents"
  let ml ← fNat c "max_agent_level"
  let jB (o : Option Rat) : Json := match o with | none => .null | some r => jRat r
  pure (jObj ((obsBounds cfg na ml).map (fun b => (b.1, jObj [("lo", jB b.2.1), ("hi", jB b.2.2)]))))

/-- {cfg} → the model's `obsSpec cfg A F L`, `actionSpec A`, reward and discount spec in the `speclib.leaf_json` layout -/
def opSpec : Op := fun j => do
  let cfg ← getCfg j
  let (A, F, L) ← getAFL j
  pure (jObj [("observation_spec", SpecOps.jNested (obsSpec cfg A F L)), ("action_spec", SpecOps.jLeaf (actionSpec A)),
              ("reward_spec", SpecOps.jLeaf (MaS.rewardSpecN A)), ("discount_spec", SpecOps.jLeaf (MaS.discountSpecN A)),
              ("action_spec_wf", jBool (actionSpec A).WF), ("generate_value", SpecOps.jArr (actionSpec A).generate)])

def ops : List (String × Op) :=
  [("lbf.spec", opSpec), ("lbf.step", opStep), ("lbf.state", opState), ("lbf.judge", opJudge), ("lbf.instance", opInstance),
   ("lbf.bounds", opBounds)]
end Jb.LBF
