/- Driver ops for CVRP.  Ops: cvrp.step, cvrp.state, cvrp.judge, cvrp.instance, cvrp.bounds

State JSON (= `envs/cvrp.py: ser_state`): coordinates, demands, position, capacity, visited_mask,
trajectory, num_total_visits, and `dist` = the (num_nodes+1)² matrix of Euclidean distances between
the coordinates (computed by the adapter; `cvrp.instance` checks it against the coordinates).
cfg JSON: {"num_nodes", "max_capacity", "max_demand", "dense", "sqrt2": float32 √2 as [num, den]}. -/
import JumanjiModel.Bridge.Json
import JumanjiModel.Env.CVRP.Model
import JumanjiModel.Env.CVRP.Bounds
import JumanjiModel.Env.CVRP.Spec
open Lean Jb

namespace Jb.CVRP
open _root_.CVRP

def getState (j : Json) : Except String State := do
  pure { coords := ← fRatGrid j "coordinates", demands := ← fInts j "demands",
         position := ← fNat j "position", capacity := ← fInt j "capacity",
         visited := ← fBools j "visited_mask", trajectory := ← fNats j "trajectory",
         numVisits := ← fNat j "num_total_visits" }

def getDist (j : Json) : Except String Dist := fRatGrid j "dist"

def jRatGrid (g : List (List Rat)) : Json := jList jRats g

def jState (s : State) : Json :=
  jObj [("coordinates", jRatGrid s.coords), ("demands", jInts s.demands), ("position", jNat s.position),
        ("capacity", jInt s.capacity), ("visited_mask", jBools s.visited),
        ("trajectory", jNats s.trajectory), ("num_total_visits", jNat s.numVisits)]

def jObs (o : Obs) : Json :=
  jObj [("coordinates", jRatGrid o.coords), ("demands", jRats o.demands),
        ("unvisited_nodes", jBools o.unvisited), ("position", jNat o.position),
        ("trajectory", jNats o.trajectory), ("capacity", jRat o.capacity),
        ("action_mask", jBools o.mask)]

def getObs (j : Json) : Except String Obs := do
  pure { coords := ← fRatGrid j "coordinates", demands := ← fRats j "demands",
         unvisited := ← fBools j "unvisited_nodes", position := ← fNat j "position",
         trajectory := ← fNats j "trajectory", capacity := ← fRat j "capacity",
         mask := ← fBools j "action_mask" }

def absR (x : Rat) : Rat := if x < 0 then -x else x

def getCfg (j : Json) : Except String Cfg := do
  let cfg ← field j "cfg"
  let sqrt2 ← fRat cfg "sqrt2"
  if absR (sqrt2 * sqrt2 - 2) > 1 / 1000000 then throw "cfg.sqrt2 is not √2"
  let maxCap ← fInt cfg "max_capacity"
  if maxCap ≤ 0 then throw "cfg.max_capacity must be positive"
  pure { maxCap := maxCap, dense := ← fBool cfg "dense", sqrt2 := sqrt2 }

/-- {"cfg", "state", "action"} → {"state", "ts", "valid"}: L1 step; `valid` = L2 `legal` -/
def opStep : Op := fun j => do
  let c ← getCfg j
  let sj ← field j "state"
  let s ← getState sj
  let D ← getDist sj
  let a ← fNat j "action"
  let (s', ts) := step c D s a
  pure (jObj [("state", jState s'), ("ts", jTimeStep jObs ts), ("valid", jBool (decide (legal s a))),
              ("l1_valid", jBool (isValid s a))])

/-- {"cfg", "state"} → mask (L1), legal (L2), obs (L2 observe), feasible, solution, objective -/
def opState : Op := fun j => do
  let c ← getCfg j
  let sj ← field j "state"
  let s ← getState sj
  let D ← getDist sj
  pure (jObj [("mask", jBools (maskOf s)),
              ("legal", jBools ((List.range s.visited.length).map (fun a => decide (legal s a)))),
              ("obs", jObs (observe c s)),
              ("feasible", jBool (decide (Feasible c.maxCap s))),
              ("solution", jBool (decide (IsSolution c.maxCap s))),
              ("objective", jRat (-(tourLength D s)))])

/-- Lean-defined predicates on an implementation transition {cfg, state, action, next, ts}:
illegal_ok (null when the action is legal): LAST, the documented penalty
`-2 * num_nodes * sqrt(2)` (within 1e-4, it is a float32), state untouched -/
def opJudge : Op := fun j => do
  let c ← getCfg j
  let n ← fNat (← field j "cfg") "num_nodes"
  let s ← getState (← field j "state")
  let a ← fNat j "action"
  let s' ← getState (← field j "next")
  let ts ← getTimeStep getObs (← field j "ts")
  let pen : Rat := -(2 * (n : Rat) * c.sqrt2)
  let rewardOK := match ts.reward with
    | [r] => decide (absR (r - pen) ≤ 1 / 10000)
    | _ => false
  let ill : Json := if decide (legal s a) then .null else
    jBool (decide (s' = s) && ts.stepType == .last && rewardOK && Jm.allZero ts.discount)
  pure (jObj [("illegal_ok", ill)])

/-- C10 certificates on a reset state -/
def opInstance : Op := fun j => do
  let c ← getCfg j
  let cfg ← field j "cfg"
  let n ← fNat cfg "num_nodes"
  let maxDemand ← fInt cfg "max_demand"
  let sj ← field j "state"
  let s ← getState sj
  let D ← getDist sj
  pure (jObj [("demands_le_capacity", jBool (decide (demandsOK c.maxCap maxDemand s))),
              ("coordinates_in_box", jBool (decide (coordsInBox s))),
              ("initial_state", jBool (decide (IsInitial n c.maxCap s))),
              ("generate_cert", jBool (decide (GenCert n c.maxCap maxDemand s))),
              ("is_generate_of_its_draws", jBool (decide (s = generate n c.maxCap s.coords s.demands))),
              ("feasible", jBool (decide (Feasible c.maxCap s))),
              ("dist_matches_coordinates", jBool (distMatches (1 / 100000) s.coords D)),
              -- wave 3 (C01): the invariant behind `cvrp_step_obs_valid`, and membership of the reset observation in the
              -- symbolic `obsSpec n`, on the implementation's reset state
              ("spec_inv", jBool (decide (SpecInv c n s))),
              ("reset_obs_in_spec", jBool ((obsSpec n).valid (toNValue (stateToObs c s))))])

def jBounds (t : Jm.OB.Table) : Json :=
  jObj (t.map fun e => (e.1, jObj [("lo", match e.2.1 with | some r => jRat r | none => Json.null),
                                   ("hi", match e.2.2 with | some r => jRat r | none => Json.null)]))

/-- {"cfg": {"num_nodes": n, …}} → {leaf path: {"lo": rat|null, "hi": rat|null}}: the proved observation
bounds (C01) -/
def opBounds : Op := fun j => do
  let cfg ← field j "cfg"
  let n ← fNat cfg "num_nodes"
  pure (jBounds (obsBounds n))

def ops : List (String × Op) :=
  [("cvrp.step", opStep), ("cvrp.state", opState), ("cvrp.judge", opJudge),
   ("cvrp.instance", opInstance), ("cvrp.bounds", opBounds)]
end Jb.CVRP
