/- Driver ops for RubiksCube.
   Ops: rubiks_cube.{step, state, judge, instance, play, bounds, spec, run} -/
import JumanjiModel.Bridge.Json
import JumanjiModel.Env.RubiksCube.Model
import JumanjiModel.Env.RubiksCube.Bounds
import JumanjiModel.Bridge.PuzzleBounds
import JumanjiModel.Bridge.Spec
import JumanjiModel.Env.RubiksCube.Episode
open Lean Jb

namespace Jb.RubiksCube
open _root_.RubiksCube

/-- a cube travels as 6 flat faces of `n²` stickers each, row-major (rows of a 2×2×2 cube would otherwise be
    length-2 integer lists, which the harness' JSON comparison cannot tell from exact rationals) -/
def getCube (n : Nat) (j : Json) : Except String (Cube Int) := do
  let faces ← getList (getList getInt) j
  faces.mapM (fun (xs : List Int) =>
    if xs.length = n * n then pure ((List.range n).map (fun r => (xs.drop (r * n)).take n))
    else throw s!"face with {xs.length} stickers, expected {n * n}")
def jCube (c : Cube Int) : Json := jList (fun (g : Jx.Grid Int) => jInts (List.flatten g)) c

/-- state layout = adapter `ser_state`: {"cube": [[int × n²] × 6], "step_count": int} -/
def getState (n : Nat) (j : Json) : Except String State := do
  pure { cube := ← getCube n (← field j "cube"), stepCount := ← fInt j "step_count" }

def jState (s : State) : Json := jObj [("cube", jCube s.cube), ("step_count", jInt s.stepCount)]
def jObs (o : Obs) : Json := jObj [("cube", jCube o.cube), ("step_count", jInt o.stepCount)]
def getObs (n : Nat) (j : Json) : Except String Obs := do
  pure { cube := ← getCube n (← field j "cube"), stepCount := ← fInt j "step_count" }

/-- cfg = {"n": nat, "time_limit": int} -/
def getCfg (j : Json) : Except String Cfg := do
  let cfg ← field j "cfg"
  let n ← fNat cfg "n"
  if n < 2 then throw s!"cube size {n} < 2"
  pure { n := n, timeLimit := ← fInt cfg "time_limit" }

/-- action = [face, depth, amount] -/
def getAction (j : Json) : Except String (Int × Int × Int) := do
  match ← getList getInt j with
  | [f, d, a] => pure (f, d, a)
  | _ => throw s!"action must be [face, depth, amount]: {j.compress.take 80}"

def toMove (a : Int × Int × Int) : Option Move :=
  if 0 ≤ a.1 ∧ 0 ≤ a.2.1 ∧ 0 ≤ a.2.2 then some ⟨a.1.toNat, a.2.1.toNat, a.2.2.toNat⟩ else none

def legalAct (n : Nat) (a : Int × Int × Int) : Bool :=
  match toMove a with | some m => decide (legal n m) | none => false

def needShape (cfg : Cfg) (c : Cube Int) : Except String Unit :=
  if shapedB cfg.n c then pure () else throw s!"cube is not of shape (6, {cfg.n}, {cfg.n})"

def jNValue (v : Sp.NValue) : Json := jList (fun (e : String × Sp.Arr) => jObj [("key", jStr e.1), ("value", SpecOps.jArr e.2)]) v
def jNested (s : Sp.Nested) : Json := jList (fun (e : String × Sp.Leaf) => jObj [("key", jStr e.1), ("spec", SpecOps.jLeaf e.2)]) s

/-- L1 step; `valid` = the action lies in the action space (every such action is legal) -/
def opStep : Op := fun j => do
  let cfg ← getCfg j
  let s ← getState cfg.n (← field j "state")
  needShape cfg s.cube
  let a ← getAction (← field j "action")
  let (s', ts) := step cfg s a
  pure (jObj [("state", jState s'), ("ts", jTimeStep jObs ts), ("valid", jBool (legalAct cfg.n a))])

/-- {cfg, state} → obs (L2: copy of cube and step count), consistent (shape and colour counts), solved
    (every face of one colour), objective (sparse return: 1 iff the final cube is solved) -/
def opState : Op := fun j => do
  let cfg ← getCfg j
  let s ← getState cfg.n (← field j "state")
  let solved := decide (Monochrome cfg.n s.cube)
  pure (jObj [("obs", jObs { cube := s.cube, stepCount := s.stepCount }),
              -- wave 2: the timestep `reset` builds for this state, the observation as spec-level arrays, and whether the
              -- model's `obsSpec cfg` accepts it
              ("reset_ts", jTimeStep jObs (Jm.restart (observe s))),
              ("nvalue", jNValue (toNValue (observe s))),
              ("obs_in_spec", jBool ((obsSpec cfg).valid (toNValue (observe s)))),
              ("consistent", jBool (shapedB cfg.n s.cube && colourCountsOK cfg.n s.cube)),
              ("solved", jBool solved),
              ("solved_l1", jBool (isSolved s.cube)),
              ("objective", jRat (if solved then 1 else 0))])

/-- predicates on an implementation transition {cfg, state, action, next, ts}:
  conserved: same multiset of stickers;  move_ok: next cube = the physical move (L2) of the cube;
  rules_ok: whole transition = `stepL2`;  solved_ok: LAST exactly when every face of the next cube is of one
  colour or the time limit is reached, and the reward is 1 exactly when solved -/
def opJudge : Op := fun j => do
  let cfg ← getCfg j
  let s ← getState cfg.n (← field j "state")
  needShape cfg s.cube
  let a ← getAction (← field j "action")
  let s' ← getState cfg.n (← field j "next")
  let ts ← getTimeStep (getObs cfg.n) (← field j "ts")
  match toMove a with
  | none => throw "judge: negative action component"
  | some m =>
    if ¬ legal cfg.n m then throw "judge: action outside the action space"
    let (x, xts) := stepL2 cfg s m
    let rules := decide (x = s') && xts.stepType == ts.stepType && xts.reward == ts.reward &&
                 xts.discount == ts.discount && decide (xts.obs = ts.obs)
    let mono := decide (Monochrome cfg.n s'.cube)
    let timeUp := decide (cfg.timeLimit ≤ s'.stepCount)
    pure (jObj [("conserved", jBool (sameStickers s.cube s'.cube)),
                ("move_ok", jBool (decide (s'.cube = move cfg.n s.cube m))),
                ("rules_ok", jBool rules),
                ("solved_ok", jBool (((ts.stepType == .last) == (mono || timeUp)) &&
                                     (ts.reward == [if mono then 1 else 0])))])

/-- the three stickers of the corner cubie `k` (k = bits of the signs of x, y, z) and of the goal -/
def cornerTriple (n : Nat) (c : Cube Int) (k : Nat) : List Int :=
  let s (b : Nat) : Int := if (k / b) % 2 = 1 then 1 else -1
  let m : Int := (n : Int) - 1
  let x := s 1; let y := s 2; let z := s 4
  [getP 0 c (unemb n ⟨x * n, y * m, z * m⟩), getP 0 c (unemb n ⟨x * m, y * n, z * m⟩),
   getP 0 c (unemb n ⟨x * m, y * m, z * n⟩)]

/-- cyclic rotations of a triple -/
def rotations (t : List Int) : List (List Int) :=
  match t with | [a, b, c] => [[a, b, c], [b, c, a], [c, a, b]] | _ => [t]

/-- every corner cubie of the cube carries the three colours of one corner cubie of the goal, in the same
    cyclic order up to the mirror rule (a corner keeps its chirality when it moves to a corner of the same
    parity of signs and mirrors it otherwise), and every goal corner is used once -/
def cornersOK (n : Nat) (c : Cube Int) : Bool :=
  let par (k : Nat) : Nat := (k % 2 + (k / 2) % 2 + (k / 4) % 2) % 2
  let found := (List.range 8).map (fun k =>
    (List.range 8).filter (fun g =>
      let t := cornerTriple n c k
      let gt := cornerTriple n (goal n) g
      let gt' := if par k = par g then gt else gt.reverse
      (rotations gt').contains t))
  found.all (fun l => l.length == 1) && ((found.flatten).eraseDups.length == 8)

/-- generator certificates on a reset state (necessary conditions of solvability that can be read off the
    state alone; the full replay of the scramble is `rubiks_cube.play`) -/
def opInstance : Op := fun j => do
  let cfg ← getCfg j
  let s ← getState cfg.n (← field j "state")
  let n := cfg.n
  let centres := n % 2 = 0 || (List.range 6).all (fun f => getP 0 s.cube ⟨f, n / 2, n / 2⟩ == (f : Int))
  pure (jObj [("shape_ok", jBool (shapedB n s.cube)),
              ("colour_counts_ok", jBool (colourCountsOK n s.cube)),
              ("centres_fixed", jBool centres),
              ("corners_ok", jBool (cornersOK n s.cube)),
              ("step_count_zero", jBool (decide (s.stepCount = 0)))])

/-- {cfg, cube, actions: [[face, depth, amount]]} → the cube after the actions by the L1 model
    (`flatten_action` + `rotate_cube`) and by the L2 physical model, and whether the inverse move sequence
    brings the result back (L2) -/
def opPlay : Op := fun j => do
  let cfg ← getCfg j
  let c ← getCube cfg.n (← field j "cube")
  needShape cfg c
  let acts ← getList getAction (← field j "actions")
  let ms ← acts.mapM (fun a => match toMove a with
    | some m => if legal cfg.n m then pure m else throw "play: action outside the action space"
    | none => throw "play: negative action component")
  let l1 := acts.foldl (fun cb a => rotateCube cb (flattenAction cfg.n a)) c
  let l2 := playMoves cfg.n c ms
  pure (jObj [("l1", jCube l1), ("l2", jCube l2),
              ("flat", jInts (acts.map (flattenAction cfg.n))),
              ("unflat_ok", jBool (acts.all (fun a => unflattenAction cfg.n (flattenAction cfg.n a) == a))),
              ("undo_ok", jBool (decide (playMoves cfg.n l2 (invMoves ms) = c))),
              ("goal", jCube (goal cfg.n)), ("solved_cube", jCube (solvedCube cfg.n)),
              ("l1_solved", jBool (isSolved l1)), ("l2_solved", jBool (decide (Monochrome cfg.n l2)))])

/-- C01 bounds op: {"cfg"} → the proved interval of every observation leaf -/
def opBounds : Op := fun j => do
  let cfg ← getCfg j
  pure (jBoundsTable (obsBounds cfg))

/-- {cfg} → the specs of the model (`obsSpec`, `actionSpec`, reward and discount spec) in the `speclib.leaf_json` layout, and
    `generate_value()` of the action spec with its legality -/
def opSpec : Op := fun j => do
  let cfg ← getCfg j
  let g := (actionSpec cfg).generate
  pure (jObj [("observation_spec", jNested (obsSpec cfg)), ("action_spec", SpecOps.jLeaf (actionSpec cfg)),
              ("reward_spec", SpecOps.jLeaf PzS.rewardSpec), ("discount_spec", SpecOps.jLeaf PzS.discountSpec),
              ("action_spec_wf", jBool (actionSpec cfg).WF),
              ("generate_value", SpecOps.jArr g),
              ("generate_value_legal", jBool (decide (legal cfg.n ⟨0, 0, 0⟩) && g == actionArr (Move.act ⟨0, 0, 0⟩)))])

/-- {cfg, state, actions} → the L1 episode `run cfg state actions` (every successor state and timestep, through LAST) and the
    index of the first LAST -/
def opRun : Op := fun j => do
  let cfg ← getCfg j
  let s ← getState cfg.n (← field j "state")
  needShape cfg s.cube
  let acts ← getList getAction (← field j "actions")
  let rs := run cfg s acts
  let firstLast := (rs.map (fun r => r.2.stepType == Jm.StepType.last)).idxOf true
  pure (jObj [("steps", jList (fun (r : State × Jm.TimeStep Obs) => jObj [("state", jState r.1), ("ts", jTimeStep jObs r.2)]) rs),
              ("first_last", if firstLast < rs.length then jNat (firstLast + 1) else .null)])

def ops : List (String × Op) :=
  [("rubiks_cube.spec", opSpec), ("rubiks_cube.run", opRun), ("rubiks_cube.step", opStep), ("rubiks_cube.state", opState), ("rubiks_cube.judge", opJudge),
   ("rubiks_cube.instance", opInstance), ("rubiks_cube.play", opPlay),
   ("rubiks_cube.bounds", opBounds)]
end Jb.RubiksCube
