/- Driver ops for TSP.  Ops: tsp.{step,state,judge,instance,bounds};
   cfg = {"n": num_cities, "dense": bool, "penalty": rat (float32 value of -n*sqrt 2), "tol": rat};
   the state JSON carries the float32 distance matrix "D" next to the implementation's fields. -/
import JumanjiModel.Bridge.Json
import JumanjiModel.Env.TSP.Model
import JumanjiModel.Env.TSP.Bounds
import JumanjiModel.Env.TSP.Spec
open Lean Jb

namespace Jb.TSP
open _root_.TSP

def getState (j : Json) : Except String State := do
  pure { coords := ← fRatGrid j "coordinates", position := ← fInt j "position",
         visited := ← fBools j "visited_mask", trajectory := ← fInts j "trajectory",
         numVisited := ← fInt j "num_visited" }

def jRatGrid (g : List (List Rat)) : Json := jList jRats g

def jState (s : State) : Json :=
  jObj [("coordinates", jRatGrid s.coords), ("position", jInt s.position),
        ("visited_mask", jBools s.visited), ("trajectory", jInts s.trajectory),
        ("num_visited", jInt s.numVisited)]

def jObs (o : Obs) : Json :=
  jObj [("coordinates", jRatGrid o.coords), ("position", jInt o.position),
        ("trajectory", jInts o.trajectory), ("action_mask", jBools o.mask)]

def getObs (j : Json) : Except String Obs := do
  pure { coords := ← fRatGrid j "coordinates", position := ← fInt j "position",
         trajectory := ← fInts j "trajectory", mask := ← fBools j "action_mask" }

def checkShape (n : Nat) (s : State) : Except String Unit := do
  if s.visited.length != n then throw s!"visited_mask has length {s.visited.length}, expected {n}"
  if s.trajectory.length != n then throw s!"trajectory has length {s.trajectory.length}, expected {n}"
  if s.coords.length != n then throw s!"coordinates has {s.coords.length} rows, expected {n}"

def getD (n : Nat) (j : Json) : Except String Dist := do
  let D ← fRatGrid j "D"
  if D.length != n || D.any (fun r => r.length != n) then throw s!"D is not {n}x{n}"
  pure D

/-- {cfg, state (with D), action} → {state, ts, valid} -/
def opStep : Op := fun j => do
  let cfg ← field j "cfg"
  let n ← fNat cfg "n"
  let dense ← fBool cfg "dense"
  let pen ← fRat cfg "penalty"
  let sj ← field j "state"
  let s ← getState sj
  checkShape n s
  let D ← getD n sj
  let a ← fInt j "action"
  let (s', ts) := step n D pen dense s a
  let valid := decide (0 ≤ a) && decide (legal s a.toNat)
  pure (jObj [("state", jState s'), ("ts", jTimeStep jObs ts), ("valid", jBool valid)])

/-- {cfg, state (with D)} → {mask, legal, obs, feasible, solution, objective} -/
def opState : Op := fun j => do
  let cfg ← field j "cfg"
  let n ← fNat cfg "n"
  let sj ← field j "state"
  let s ← getState sj
  checkShape n s
  let D ← getD n sj
  pure (jObj [("mask", jBools (obsOf s).mask),
              ("legal", jBools ((List.range n).map (fun a => decide (legal s a)))),
              ("obs", jObs (observe s)),
              ("feasible", jBool (decide (Feasible n s))),
              ("solution", jBool (decide (IsSolution n s))),
              ("objective", jRat (objective D s))])

/-- {cfg, state, action, next, ts} → {illegal_ok: null when the action is legal} -/
def opJudge : Op := fun j => do
  let cfg ← field j "cfg"
  let pen ← fRat cfg "penalty"
  let tol ← fRat cfg "tol"
  let s ← getState (← field j "state")
  let a ← fInt j "action"
  let s' ← getState (← field j "next")
  let ts ← getTimeStep getObs (← field j "ts")
  let isLegal := decide (0 ≤ a) && decide (legal s a.toNat)
  let ill : Json := if isLegal then .null else jBool (illegalOk pen tol s s' ts)
  pure (jObj [("illegal_ok", ill)])

/-- {cfg, state (with D)} → generator certificates on a reset state -/
def opInstance : Op := fun j => do
  let cfg ← field j "cfg"
  let n ← fNat cfg "n"
  let sj ← field j "state"
  let s ← getState sj
  let D ← getD n sj
  pure (jObj [("coordinates_in_unit_square_fresh_state", jBool (decide (InstanceOK n s))),
              ("generate_cert", jBool (decide (GenCert n s))),
              ("is_generate_of_its_draw", jBool (decide (s = generate n s.coords))),
              ("reset_feasible", jBool (decide (Feasible n s))),
              ("distances_ok", jBool (decide (DistOK n D))),
              -- wave 3 (C01): the invariant behind `tsp_step_obs_valid`; the reset observation is a member of the spec with the
              -- position leaf widened to [−1, n−1] and (finding F5) NOT of the declared one
              ("spec_inv", jBool (decide (SpecInv n s))),
              ("reset_obs_in_wide_spec", jBool ((obsSpecWide n).valid (toNValue (obsOf s)))),
              ("reset_obs_rejected_as_F5", jBool (!(obsSpec n).valid (toNValue (obsOf s))))])

def jBounds (t : Jm.OB.Table) : Json :=
  jObj (t.map fun e => (e.1, jObj [("lo", match e.2.1 with | some r => jRat r | none => Json.null),
                                   ("hi", match e.2.2 with | some r => jRat r | none => Json.null)]))

/-- {"cfg": {"n": num_cities, …}} → {leaf path: {"lo": rat|null, "hi": rat|null}}: the proved observation bounds
(C01); `position` is not listed (known finding F5: the reset observation has −1, outside the declared spec) -/
def opBounds : Op := fun j => do
  let cfg ← field j "cfg"
  let n ← fNat cfg "n"
  pure (jBounds (obsBounds n))

def ops : List (String × Op) :=
  [("tsp.step", opStep), ("tsp.state", opState), ("tsp.judge", opJudge), ("tsp.instance", opInstance),
   ("tsp.bounds", opBounds)]
end Jb.TSP
