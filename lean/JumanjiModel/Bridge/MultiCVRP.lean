/- Driver ops for MultiCVRP.  Ops: multi_cvrp.step, multi_cvrp.state, multi_cvrp.judge,
multi_cvrp.instance, multi_cvrp.bounds, multi_cvrp.spec

State JSON (= `envs/multi_cvrp.py: ser_state`): coordinates, demands, win_start, win_end, coef_early,
coef_late, local_times, positions, capacities, distances, time_penalties, order, step_count,
action_mask, plus two things the adapter adds: `dist` = the (num_customers+1)² matrix of Euclidean
distances between the coordinates (`multi_cvrp.instance` checks it against the coordinates) and
`demands0` = the demands of the instance at reset (the state itself forgets a demand once served).
cfg JSON: {"num_customers", "num_vehicles", "max_capacity", "dense", "f32", "map_max", "demand_max",
"max_start_window", "window_length", "full_load", "coef_early_max", "coef_late_max", "dist_max"}
(the last three are read by `multi_cvrp.bounds` only: upper ends of the coefficient ranges and an upper
bound on the distance between two nodes of the map). -/
import JumanjiModel.Bridge.Json
import JumanjiModel.Env.MultiCVRP.Model
import JumanjiModel.Env.MultiCVRP.Bounds
import JumanjiModel.Env.MultiCVRP.Generator
import JumanjiModel.Prim.Float
import JumanjiModel.Env.MultiCVRP.Spec
import JumanjiModel.Bridge.Spec
open Lean Jb

namespace Jb.MultiCVRP
open _root_.MultiCVRP

def getState (j : Json) : Except String State := do
  pure { coords := ← fRatGrid j "coordinates", demands := ← fInts j "demands",
         winStart := ← fRats j "win_start", winEnd := ← fRats j "win_end",
         coefEarly := ← fRats j "coef_early", coefLate := ← fRats j "coef_late",
         localTimes := ← fRats j "local_times", positions := ← fNats j "positions",
         capacities := ← fInts j "capacities", distances := ← fRats j "distances",
         timePenalties := ← fRats j "time_penalties", order := ← fNatGrid j "order",
         stepCount := ← fNat j "step_count", mask := ← fBoolGrid j "action_mask" }

def jRatGrid (g : List (List Rat)) : Json := jList jRats g

def jState (s : State) : Json :=
  jObj [("coordinates", jRatGrid s.coords), ("demands", jInts s.demands),
        ("win_start", jRats s.winStart), ("win_end", jRats s.winEnd),
        ("coef_early", jRats s.coefEarly), ("coef_late", jRats s.coefLate),
        ("local_times", jRats s.localTimes), ("positions", jNats s.positions),
        ("capacities", jInts s.capacities), ("distances", jRats s.distances),
        ("time_penalties", jRats s.timePenalties), ("order", jNatGrid s.order),
        ("step_count", jNat s.stepCount), ("action_mask", jBoolGrid s.mask)]

def jObs (o : Obs) : Json :=
  jObj [("coordinates", jRatGrid o.coords), ("demands", jInts o.demands),
        ("win_start", jRats o.winStart), ("win_end", jRats o.winEnd),
        ("coef_early", jRats o.coefEarly), ("coef_late", jRats o.coefLate),
        ("vehicle_coordinates", jRatGrid o.vehCoords), ("local_times", jRats o.localTimes),
        ("capacities", jInts o.capacities), ("action_mask", jBoolGrid o.mask)]

def getObs (j : Json) : Except String Obs := do
  pure { coords := ← fRatGrid j "coordinates", demands := ← fInts j "demands",
         winStart := ← fRats j "win_start", winEnd := ← fRats j "win_end",
         coefEarly := ← fRats j "coef_early", coefLate := ← fRats j "coef_late",
         vehCoords := ← fRatGrid j "vehicle_coordinates", localTimes := ← fRats j "local_times",
         capacities := ← fInts j "capacities", mask := ← fBoolGrid j "action_mask" }

def getCfg (j : Json) : Except String Cfg := do
  let cfg ← field j "cfg"
  let maxCap ← fInt cfg "max_capacity"
  if maxCap ≤ 0 then throw "cfg.max_capacity must be positive"
  pure { numCustomers := ← fNat cfg "num_customers", maxCap := maxCap, dense := ← fBool cfg "dense" }

def getRnd (j : Json) : Except String (Rat → Rat) := do
  let f32 ← fBool (← field j "cfg") "f32"
  pure (if f32 then Jx.roundF32 else id)

/-- the state together with the adapter's extras; shapes are checked here (never defaulted) -/
def getFull (j : Json) : Except String (State × Dist × List Int) := do
  let sj ← field j "state"
  let s ← getState sj
  let D ← fRatGrid sj "dist"
  let d0 ← fInts sj "demands0"
  let nV ← fNat (← field j "cfg") "num_vehicles"
  let n := s.demands.length
  if s.capacities.length ≠ nV ∨ s.positions.length ≠ nV ∨ s.localTimes.length ≠ nV ∨
     s.distances.length ≠ nV ∨ s.timePenalties.length ≠ nV ∨ s.order.length ≠ nV ∨
     s.mask.length ≠ nV then throw "a per-vehicle array has the wrong length"
  if s.coords.length ≠ n ∨ s.winStart.length ≠ n ∨ s.winEnd.length ≠ n ∨ s.coefEarly.length ≠ n ∨
     s.coefLate.length ≠ n ∨ D.length ≠ n ∨ d0.length ≠ n then throw "a per-node array has the wrong length"
  pure (s, D, d0)

def getAction (j : Json) (nV : Nat) : Except String (List Nat) := do
  let a ← fNats j "action"
  if a.length ≠ nV then throw "action must have one entry per vehicle"
  pure a

/-- {"cfg", "state", "action"} → {"state", "ts", "valid", "legal"}: L1 step; `valid[v]` = is vehicle
`v`'s choice honoured by the rules (legal and not taken by a vehicle with a smaller index),
`legal[v]` = is it legal on its own -/
def opStep : Op := fun j => do
  let c ← getCfg j
  let rnd ← getRnd j
  let (s, D, _) ← getFull j
  let a ← getAction j s.capacities.length
  let (s', ts) := step rnd c D s a
  pure (jObj [("state", jState s'), ("ts", jTimeStep jObs ts),
              ("valid", jBools ((List.range a.length).map (fun v => honoured s a v))),
              ("legal", jBools ((List.range a.length).map (fun v => decide (legal s v (a.getD v 0))))),
              ("dests", jNats (dests s a))])

def getLim (cfg : Json) : Except String Lim := do
  pure { mapMax := ← fRat cfg "map_max", demandMax := ← fInt cfg "demand_max",
         maxStart := ← fRat cfg "max_start_window", windowLen := ← fRat cfg "window_length",
         coefEarlyMax := ← fRat cfg "coef_early_max", coefLateMax := ← fRat cfg "coef_late_max",
         dmax := ← fRat cfg "dist_max" }

def jNValue (v : Sp.NValue) : Json := jList (fun (e : String × Sp.Arr) => jObj [("key", jStr e.1), ("value", SpecOps.jArr e.2)]) v

/-- {"cfg", "state"} → mask (L1, recomputed from demands and capacities), legal (L2), obs (L2 observe),
feasible (`Feasible`, and on float states: accumulators ≈ recorded routes), solution, objective -/
def opState : Op := fun j => do
  let c ← getCfg j
  let (s, D, d0) ← getFull j
  let tol : Rat := 1 / 10000
  let accOK := !(decide (recorded c s)) || accumulatorsMatch tol D s
  -- wave 4 (C01 membership), when the configuration carries `max_local_time`: the timestep `reset` builds on this state
  -- (`restart(_state_to_observation(state))`), the observation as spec-level arrays (`toNValue`), its membership in the
  -- model's `obsSpec`, and the invariant `SpecInv` (with `dmax` = cfg.dist_max) behind `multicvrp_step_obs_valid`
  let cj ← field j "cfg"
  let w4 : List (String × Json) ← match ← fOpt cj "max_local_time" getRat with
    | some maxLocal => do
      let L ← getLim cj
      let nV ← fNat cj "num_vehicles"
      pure [("reset_ts", jTimeStep jObs (Jm.restart (stateToObs s))),
            ("nvalue", jNValue (toNValue (stateToObs s))),
            ("obs_in_spec", jBool ((obsSpec c nV L maxLocal).valid (toNValue (stateToObs s)))),
            ("spec_inv", jBool (decide (SpecInv c nV L s)))]
    | none => pure []
  pure (jObj ([("mask", jBools (createActionMask s.demands s.capacities).flatten),
              ("cached_mask", jBools s.mask.flatten),
              ("legal", jBools ((List.range s.capacities.length).map (fun v =>
                  (List.range s.demands.length).map (fun a => decide (legal s v a)))).flatten),
              ("obs", jObs (observe s)),
              ("feasible", jBool (decide (Feasible c d0 s) && accOK)),
              ("basic_feasible", jBool (decide (BasicFeasible c d0 s))),
              ("history_feasible", jBool (decide (recorded c s → HistoryFeasible c d0 s))),
              ("accumulators_match", jBool accOK),
              ("solution", jBool (decide (IsSolution c d0 s) && accOK)),
              ("objective", jRat (objective D s)),
              ("accumulated", jRat (accumulated s))] ++ w4))

/-- Lean-defined predicates on an implementation transition {cfg, state, action, next, ts}:
illegal_ok (null when every vehicle's choice is honoured): every vehicle whose choice is not
honoured stands at the depot with a full vehicle, and exactly the honoured customers were served -/
def opJudge : Op := fun j => do
  let c ← getCfg j
  let (s, _, _) ← getFull j
  let a ← getAction j s.capacities.length
  let s' ← getState (← field j "next")
  let allHon := (List.range a.length).all (fun v => honoured s a v)
  let ill : Json := if allHon then .null else jBool (decide (IllegalIgnored c s a s'))
  pure (jObj [("illegal_ok", ill)])

/-- the raw draw JSON {"u_coords", "raw_demands", "u_win", "u_early", "u_late"} (what the adapter recomputes from
the reset key: `jax.random.uniform(k, shape)` / `jax.random.randint(k, shape, 0, demand_max)` with the generator's
own sub-keys) -/
def getRaw (j : Json) : Except String RawDraw := do
  pure { uCoords := ← fRatGrid j "u_coords", rawDemands := ← fInts j "raw_demands", uWin := ← fRats j "u_win",
         uEarly := ← fRats j "u_early", uLate := ← fRats j "u_late" }

def getGenCfg (cfg : Json) : Except String GenCfg := do
  pure { mapMax := ← fRat cfg "map_max", demandMax := ← fInt cfg "demand_max",
         maxStart := ← fRat cfg "max_start_window", windowLen := ← fRat cfg "window_length",
         earlyLo := ← fRat cfg "coef_early_min", earlyHi := ← fRat cfg "coef_early_max",
         lateLo := ← fRat cfg "coef_late_min", lateHi := ← fRat cfg "coef_late_max" }

/-- which field of the reset state differs from the replayed generator (for the failure message) -/
def replayDiff (s t : State) : List String :=
  (if s.coords = t.coords then [] else ["coordinates"]) ++ (if s.demands = t.demands then [] else ["demands"]) ++
  (if s.winStart = t.winStart then [] else ["win_start"]) ++ (if s.winEnd = t.winEnd then [] else ["win_end"]) ++
  (if s.coefEarly = t.coefEarly then [] else ["coef_early"]) ++ (if s.coefLate = t.coefLate then [] else ["coef_late"]) ++
  (if s = { t with coords := s.coords, demands := s.demands, winStart := s.winStart, winEnd := s.winEnd,
                   coefEarly := s.coefEarly, coefLate := s.coefLate, mask := s.mask } then [] else ["vehicles/order/step_count"]) ++
  (if s.mask = t.mask then [] else ["action_mask"])

/-- C10 certificates on a reset state.  With the optional request field "raw" (the raw random numbers behind that
reset state) two more: `raw_valid` = `validRaw` ∧ `GenOK`, and `generator_replay` = the implementation's reset
state IS `generateRaw rnd c nV g raw` (all fields, exact equality of the float32 values) -/
def opInstance : Op := fun j => do
  let c ← getCfg j
  let cfg ← field j "cfg"
  let nV ← fNat cfg "num_vehicles"
  let demandMax ← fInt cfg "demand_max"
  let mapMax ← fRat cfg "map_max"
  let maxStart ← fRat cfg "max_start_window"
  let winLen ← fRat cfg "window_length"
  let fullLoad ← fBool cfg "full_load"
  let (s, D, d0) ← getFull j
  -- the adapter's "full load" test generator deliberately exceeds the fleet capacity
  let fleet : Json := if fullLoad then .null else jBool (decide (s.demands.sum ≤ c.maxCap * nV))
  let rawj ← fOpt j "raw" pure
  let extra ← match rawj with
    | none => pure []
    | some rj => do
      let raw ← getRaw rj
      let g ← getGenCfg cfg
      let rnd ← getRnd j
      let t := generateRaw rnd c nV g raw
      pure [("raw_valid", jBool (decide (validRaw c g raw) && decide (GenOK c nV g))),
            ("generator_replay", jBool (decide (s = t))),
            ("generator_replay_diff", jList jStr (replayDiff s t))]
  pure (jObj (extra ++ [("demands_le_capacity", jBool (decide (demandsOK c demandMax s))),
              ("total_demand_le_fleet_capacity", fleet),
              ("coordinates_in_box", jBool (decide (coordsInBox mapMax s))),
              ("windows_ok", jBool (decide (windowsOK maxStart winLen (1 / 100000) s))),
              ("initial_state", jBool (decide (IsInitial c nV s))),
              ("demands0_is_demands", jBool (decide (d0 = s.demands))),
              ("feasible", jBool (decide (Feasible c s.demands s))),
              ("dist_matches_coordinates", jBool (distMatches (1 / 100000) s.coords D))]))

def jBounds (t : Jm.OB.Table) : Json :=
  jObj (t.map fun e => (e.1, jObj [("lo", match e.2.1 with | some r => jRat r | none => Json.null),
                                   ("hi", match e.2.2 with | some r => jRat r | none => Json.null)]))

/-- {"cfg": {...}} → {leaf path: {"lo": rat|null, "hi": rat|null}}: the proved observation bounds (C01),
`obsBounds c L` with `c`, `L` read from the cfg -/
def opBounds : Op := fun j => do
  let c ← getCfg j
  let L ← getLim (← field j "cfg")
  pure (jBounds (obsBounds c L))

/-- {cfg (with max_local_time)} → the model's `obsSpec`, `actionSpec`, reward and discount spec in the `speclib.leaf_json`
layout, `generate_value()`, and `decl_ok` = the hypothesis `DeclOK` of the membership theorems on this configuration -/
def opSpec : Op := fun j => do
  let c ← getCfg j
  let cj ← field j "cfg"
  let L ← getLim cj
  let nV ← fNat cj "num_vehicles"
  let maxLocal ← fRat cj "max_local_time"
  pure (jObj [("observation_spec", SpecOps.jNested (obsSpec c nV L maxLocal)), ("action_spec", SpecOps.jLeaf (actionSpec c nV)),
              ("reward_spec", SpecOps.jLeaf PzS.rewardSpec), ("discount_spec", SpecOps.jLeaf PzS.discountSpec),
              ("action_spec_wf", jBool (actionSpec c nV).WF), ("generate_value", SpecOps.jArr (actionSpec c nV).generate),
              ("decl_ok", jBool (decide (DeclOK c L maxLocal)))])

def ops : List (String × Op) :=
  [("multi_cvrp.step", opStep), ("multi_cvrp.state", opState), ("multi_cvrp.judge", opJudge),
   ("multi_cvrp.instance", opInstance), ("multi_cvrp.bounds", opBounds), ("multi_cvrp.spec", opSpec)]
end Jb.MultiCVRP
