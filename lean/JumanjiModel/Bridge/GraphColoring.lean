/- Driver ops for GraphColoring.  Ops: graph_coloring.{step,state,judge,instance,spec}; cfg = {"n": num_nodes} -/
import JumanjiModel.Bridge.Json
import JumanjiModel.Env.GraphColoring.Model
import JumanjiModel.Env.GraphColoring.Bounds
import JumanjiModel.Bridge.PuzzleBounds
import JumanjiModel.Bridge.Spec
import JumanjiModel.Env.GraphColoring.SpecLemmas
open Lean Jb

namespace Jb.GraphColoring
open _root_.GraphColoring

def getState (j : Json) : Except String State := do
  pure { adj := ← fBoolGrid j "adj_matrix", colors := ← fInts j "colors",
         cur := ← fInt j "current_node_index", mask := ← fBools j "action_mask" }

def jState (s : State) : Json :=
  jObj [("adj_matrix", jBoolGrid s.adj), ("colors", jInts s.colors),
        ("current_node_index", jInt s.cur), ("action_mask", jBools s.mask)]

def jObs (o : Obs) : Json :=
  jObj [("adj_matrix", jBoolGrid o.adj), ("colors", jInts o.colors),
        ("action_mask", jBools o.mask), ("current_node_index", jInt o.cur)]

def getObs (j : Json) : Except String Obs := do
  pure { adj := ← fBoolGrid j "adj_matrix", colors := ← fInts j "colors",
         mask := ← fBools j "action_mask", cur := ← fInt j "current_node_index" }

def jNValue (v : Sp.NValue) : Json := jList (fun (e : String × Sp.Arr) => jObj [("key", jStr e.1), ("value", SpecOps.jArr e.2)]) v
def jNested (s : Sp.Nested) : Json := jList (fun (e : String × Sp.Leaf) => jObj [("key", jStr e.1), ("spec", SpecOps.jLeaf e.2)]) s

/-- the state must have the configured size (never defaulted) -/
def checkShape (n : Nat) (s : State) : Except String Unit := do
  if s.colors.length != n then throw s!"colors has length {s.colors.length}, expected {n}"
  if s.mask.length != n then throw s!"action_mask has length {s.mask.length}, expected {n}"
  if s.adj.length != n || s.adj.any (fun r => r.length != n) then throw s!"adj_matrix is not {n}x{n}"

/-- {cfg: {n}, state, action} → {state, ts, valid}; `valid` = L2 legality of the action -/
def opStep : Op := fun j => do
  let cfg ← field j "cfg"
  let n ← fNat cfg "n"
  let s ← getState (← field j "state")
  checkShape n s
  let a ← fInt j "action"
  let (s', ts) := step n s a
  let valid := decide (0 ≤ a) && decide (legal n s a.toNat)
  pure (jObj [("state", jState s'), ("ts", jTimeStep jObs ts), ("valid", jBool valid)])

/-- {cfg, state} → {mask: L1 mask recomputed for the current node, legal: L2, obs: L2 observe,
    feasible, solution, objective} -/
def opState : Op := fun j => do
  let cfg ← field j "cfg"
  let n ← fNat cfg "n"
  let s ← getState (← field j "state")
  checkShape n s
  pure (jObj [("mask", jBools (validActions n s.cur s.adj s.colors)),
              ("legal", jBools ((List.range n).map (fun a => decide (legal n s a)))),
              ("obs", jObs (observe n s)),
              -- wave 3: the L1 observation of the state (`obsOf`: cached mask) as spec-level arrays, whether the model's
              -- `obsSpec n` accepts it, the invariant of the C01 theorems, and the timestep `reset` builds on this graph
              ("nvalue", jNValue (toNValue (obsOf s))),
              ("obs_in_spec", jBool ((obsSpec n).valid (toNValue (obsOf s)))),
              ("spec_inv", jBool (decide (SpecInv n s))),
              ("reset_ts", jTimeStep jObs (reset n s.adj).2),
              ("feasible", jBool (decide (Feasible n s) && decide (WF n s))),
              ("solution", jBool (decide (IsSolution n s))),
              ("cached_mask_ok", jBool (decide (Inv n s))),
              ("objective", jRat (objective s))])

/-- {cfg, state, action, next, ts} → {illegal_ok: null when the action is legal} -/
def opJudge : Op := fun j => do
  let cfg ← field j "cfg"
  let n ← fNat cfg "n"
  let s ← getState (← field j "state")
  let a ← fInt j "action"
  let s' ← getState (← field j "next")
  let ts ← getTimeStep getObs (← field j "ts")
  let isLegal := decide (0 ≤ a) && decide (legal n s a.toNat)
  let ill : Json := if isLegal then .null else jBool (illegalOk n s s' ts)
  pure (jObj [("illegal_ok", ill)])

/-- {cfg, state} → generator certificates on a reset state -/
def opInstance : Op := fun j => do
  let cfg ← field j "cfg"
  let n ← fNat cfg "n"
  let s ← getState (← field j "state")
  pure (jObj [("graph_symmetric_loopless", jBool (decide (GraphOK n s.adj))),
              ("reset_state", jBool (decide (ResetOK n s))),
              ("reset_inv", jBool (decide (Inv n s))),
              ("generate_fixpoint", jBool (decide (generate n s.adj = s.adj)))])

/-- C01 bounds op: {"cfg": {"n"}} → the proved interval of every observation leaf -/
def opBounds : Op := fun j => do
  let cfg ← field j "cfg"
  let n ← fNat cfg "n"
  pure (jBoundsTable (obsBounds n))

/-- {cfg: {n}} → the specs of the model (`obsSpec n`, `actionSpec n`, reward and discount spec) in the `speclib.leaf_json`
    layout, and `generate_value()` of the action spec -/
def opSpec : Op := fun j => do
  let cfg ← field j "cfg"
  let n ← fNat cfg "n"
  pure (jObj [("observation_spec", jNested (obsSpec n)), ("action_spec", SpecOps.jLeaf (actionSpec n)),
              ("reward_spec", SpecOps.jLeaf PzS.rewardSpec), ("discount_spec", SpecOps.jLeaf PzS.discountSpec),
              ("action_spec_wf", jBool (actionSpec n).WF),
              ("generate_value", SpecOps.jArr (actionSpec n).generate),
              ("generate_value_legal", jBool ((actionSpec n).generate == actionArr 0 && decide (0 < n)))])

def ops : List (String × Op) :=
  [("graph_coloring.spec", opSpec), ("graph_coloring.step", opStep), ("graph_coloring.state", opState),
   ("graph_coloring.judge", opJudge), ("graph_coloring.instance", opInstance),
   ("graph_coloring.bounds", opBounds)]
end Jb.GraphColoring
