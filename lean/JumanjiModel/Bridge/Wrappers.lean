/- Driver ops for the wrappers (C13-C15): the model is run on digests of real environment outputs. -/
import JumanjiModel.Bridge.Json
import JumanjiModel.Wrappers
open Lean Jb

namespace Jb.WrapperOps
open Wr

abbrev D := String   -- digest of a pytree

def getTS (j : Json) : Except String (TS D D D) := do
  pure { stepType := ← getStepType (← field j "step_type"), reward := ← fStr j "reward",
         discount := ← fStr j "discount", obs := ← fStr j "obs", extras := ← fStr j "extras", nextObs := none }

def jTS (t : TS D D D) : Json :=
  jObj [("step_type", jStepType t.stepType), ("reward", jStr t.reward), ("discount", jStr t.discount),
        ("obs", jStr t.obs), ("extras", jStr t.extras),
        ("next_obs", match t.nextObs with | some o => jStr o | none => .null)]

structure Elem where
  stepState : D
  stepTS : TS D D D
  resetState : D
  resetTS : TS D D D

def getElem (j : Json) : Except String Elem := do
  let st ← field j "step"
  let rs ← field j "reset"
  pure { stepState := ← fStr st "state", stepTS := ← getTS (← field st "ts"),
         resetState := ← fStr rs "state", resetTS := ← getTS (← field rs "ts") }

/-- environment whose element `i` steps to `elems[i].step` and resets (with the key derived from the
terminal state of element `i`) to `elems[i].reset`; states are indices -/
def envOf (elems : List Elem) (d : Elem) : Env (Nat ⊕ D) Unit D D D :=
  { step := fun s _ => match s with
      | .inl i => (.inr (elems.getD i d).stepState, (elems.getD i d).stepTS)
      | .inr x => (.inr x, d.stepTS),
    reset := fun k => match k with
      | .left (.seed i) => (.inr (elems.getD i d).resetState, (elems.getD i d).resetTS)
      | _ => (.inr d.resetState, d.resetTS),
    key := fun s => match s with
      | .inl i => .seed i
      | .inr x => .seed ((elems.findIdx? (fun e => e.stepState == x)).getD 0) }

def jState : Nat ⊕ D → Json | .inl i => jNat i | .inr x => jStr x

/-- {"flag": bool, "elems": [{step:{state,ts}, reset:{state,ts}}…], "mode": "autoreset"|"vmap_autoreset"|"vmap_of_autoreset"}
    → per element {state, ts} the wrapper must return for `step` -/
def opStep : Op := fun j => do
  let flag ← fBool j "flag"
  let elems ← getList getElem (← field j "elems")
  let mode ← fStr j "mode"
  match elems with
  | [] => throw "no elements"
  | d :: _ =>
    let E := envOf elems d
    let ss : List (Nat ⊕ D) := (List.range elems.length).map Sum.inl
    let as := ss.map (fun _ => ())
    let res := match mode with
      | "vmap_autoreset" => VmapAutoReset.step E flag ss as
      | "vmap_of_autoreset" => Vmap.step (AutoReset.env E flag) ss as
      | _ => ss.map (fun s => AutoReset.step E flag s ())
    pure (jList (fun (p : (Nat ⊕ D) × TS D D D) => jObj [("state", jState p.1), ("ts", jTS p.2)]) res)

def jKey : Key → Json
  | .seed n => jObj [("seed", jNat n)]
  | .left k => jObj [("left", jKey k)]
  | .right k => jObj [("right", jKey k)]

/-- {"seed": n, "ops": ["reset" | "step" | {"seed": m} | {"reset_seed": m}]} → for every reset op the key
term the adapter must pass to env.reset -/
def opGymSchedule : Op := fun j => do
  let n ← fNat j "seed"
  let ops ← getList pure (← field j "ops")
  -- a recording environment: the state is the key it was reset with
  let E : Env Key Unit Key Unit Unit :=
    { reset := fun k => (k, { stepType := .first, reward := (), discount := (), obs := k, extras := () }),
      step := fun s _ => (s, { stepType := .mid, reward := (), discount := (), obs := s, extras := () }),
      key := id }
  let mut st : Gym.St Key := Gym.init n
  let mut out : Array Json := #[]
  for o in ops do
    let op : Gym.Op Unit ← match o with
      | .str "reset" => pure (Gym.Op.reset none)
      | .str "step" => pure (Gym.Op.step ())
      | _ => match o.getObjVal? "seed" with
        | .ok v => do pure (Gym.Op.seed (← getNat v))
        | .error _ => do pure (Gym.Op.reset (some (← fNat o "reset_seed")))
    let (st', r) := Gym.run1 E (fun _ => false) st op
    st := st'
    match r with
    | .obs k _ => out := out.push (jKey k)
    | .error => out := out.push (jStr "error")
    | _ => pure ()
  pure (.arr out)

def ops : List (String × Op) := [("wrappers.step", opStep), ("wrappers.gym_schedule", opGymSchedule)]
end Jb.WrapperOps
