/- Driver ops for the wrappers (C13-C15): the model is run on digests of real environment outputs. -/
import JumanjiModel.Bridge.Json
import JumanjiModel.Wrappers
open Lean Jb

namespace Jb.WrapperOps
open Wr

abbrev D := String   -- digest of a pytree

def getTS (j : Json) : Except String (TS D D D) := do
  pure { stepType := ← getStepType (← field j "step_type"), reward := ← fStr j "reward",
         discount := ← fStr j "discount", obs := ← fStr j "obs", extras := ← fStr j "extras", nextObs := none }

def jTS (t : TS D D D) : Json :=
  jObj [("step_type", jStepType t.stepType), ("reward", jStr t.reward), ("discount", jStr t.discount),
        ("obs", jStr t.obs), ("extras", jStr t.extras),
        ("next_obs", match t.nextObs with | some o => jStr o | none => .null)]

structure Elem where
  stepState : D
  stepTS : TS D D D
  resetState : D
  resetTS : TS D D D

def getElem (j : Json) : Except String Elem := do
  let st ← field j "step"
  let rs ← field j "reset"
  pure { stepState := ← fStr st "state", stepTS := ← getTS (← field st "ts"),
         resetState := ← fStr rs "state", resetTS := ← getTS (← field rs "ts") }

/-- environment whose element `i` steps to `elems[i].step` and resets (with the key derived from the
terminal state of element `i`) to `elems[i].reset`; states are indices -/
def envOf (elems : List Elem) (d : Elem) : Env (Nat ⊕ D) Unit D D D :=
  { step := fun s _ => match s with
      | .inl i => (.inr (elems.getD i d).stepState, (elems.getD i d).stepTS)
      | .inr x => (.inr x, d.stepTS),
    reset := fun k => match k with
      | .left (.seed i) => (.inr (elems.getD i d).resetState, (elems.getD i d).resetTS)
      | _ => (.inr d.resetState, d.resetTS),
    key := fun s => match s with
      | .inl i => .seed i
      | .inr x => .seed ((elems.findIdx? (fun e => e.stepState == x)).getD 0) }

def jState : Nat ⊕ D → Json | .inl i => jNat i | .inr x => jStr x

/-- {"flag": bool, "elems": [{step:{state,ts}, reset:{state,ts}}…], "mode": "autoreset"|"vmap_autoreset"|"vmap_of_autoreset"}
    → per element {state, ts} the wrapper must return for `step` -/
def opStep : Op := fun j => do
  let flag ← fBool j "flag"
  let elems ← getList getElem (← field j "elems")
  let mode ← fStr j "mode"
  match elems with
  | [] => throw "no elements"
  | d :: _ =>
    let E := envOf elems d
    let ss : List (Nat ⊕ D) := (List.range elems.length).map Sum.inl
    let as := ss.map (fun _ => ())
    let res := match mode with
      | "vmap_autoreset" => VmapAutoReset.step E flag ss as
      | "vmap_of_autoreset" => Vmap.step (AutoReset.env E flag) ss as
      | _ => ss.map (fun s => AutoReset.step E flag s ())
    pure (jList (fun (p : (Nat ⊕ D) × TS D D D) => jObj [("state", jState p.1), ("ts", jTS p.2)]) res)

def jKey : Key → Json
  | .seed n => jObj [("seed", jNat n)]
  | .left k => jObj [("left", jKey k)]
  | .right k => jObj [("right", jKey k)]

/-- {"seed": n, "ops": ["reset" | "step" | {"seed": m} | {"reset_seed": m}]} → for every reset op the key
term the adapter must pass to env.reset -/
def opGymSchedule : Op := fun j => do
  let n ← fNat j "seed"
  let ops ← getList pure (← field j "ops")
  -- a recording environment: the state is the key it was reset with
  let E : Env Key Unit Key Unit Unit :=
    { reset := fun k => (k, { stepType := .first, reward := (), discount := (), obs := k, extras := () }),
      step := fun s _ => (s, { stepType := .mid, reward := (), discount := (), obs := s, extras := () }),
      key := id }
  let mut st : Gym.St Key := Gym.init n
  let mut out : Array Json := #[]
  for o in ops do
    let op : Gym.Op Unit ← match o with
      | .str "reset" => pure (Gym.Op.reset none)
      | .str "step" => pure (Gym.Op.step ())
      | _ => match o.getObjVal? "seed" with
        | .ok v => do pure (Gym.Op.seed (← getNat v))
        | .error _ => do pure (Gym.Op.reset (some (← fNat o "reset_seed")))
    let (st', r) := Gym.run1 E (fun _ => false) st op
    st := st'
    match r with
    | .obs k _ => out := out.push (jKey k)
    | .error => out := out.push (jStr "error")
    | _ => pure ()
  pure (.arr out)

/-! ### C15: the adapters on REAL native outcomes.  The "environment" handed to the model replays what the harness
measured on the real environment: `reset k` answers with a token naming the key it was called with, `step _ a`
answers with the native outcome carried by the action `a`.  The model then says what every field of the adapter's
output has to be. -/

structure Native where
  stepType : Jm.StepType
  reward : Json
  discount : Json

def getNative (j : Json) : Except String Native := do
  pure { stepType := ← getStepType (← field j "step_type"), reward := ← field j "reward", discount := ← field j "discount" }

def resetObs (k : Key) : Json := jObj [("reset_obs_of_key", jKey k)]

/-- rewards / discounts stay opaque JSON (the dm_env adapter only relays them) -/
def replayEnvJ : Env Unit Native Json Json Unit :=
  { reset := fun k => ((), { stepType := .first, reward := .null, discount := .null, obs := resetObs k, extras := () }),
    step := fun _ a => ((), { stepType := a.stepType, reward := a.reward, discount := a.discount, obs := jStr "native_obs", extras := () }),
    key := fun _ => .seed 0 }

def jOpt (o : Option Json) : Json := match o with | some j => j | none => .null

/-- {"seed": n, "ops": ["reset" | {"step": {step_type, reward, discount}}]} (adapter constructed with PRNGKey(n)) →
per call {"step_type", "reward"|null, "discount"|null, "obs": {"reset_obs_of_key": key term} | "native_obs"} | "error" -/
def opDmRun : Op := fun j => do
  let n ← fNat j "seed"
  let ops ← getList pure (← field j "ops")
  let mut st : DmEnv.St Unit := DmEnv.init (.seed n)
  let mut out : Array Json := #[]
  for o in ops do
    let op : DmEnv.Op Native ← match o with
      | .str "reset" => pure DmEnv.Op.reset
      | _ => do pure (DmEnv.Op.step (← getNative (← field o "step")))
    let (st', r) := DmEnv.run1 replayEnvJ st op
    st := st'
    match r with
    | .ts t => out := out.push (jObj [("step_type", jStepType t.stepType), ("reward", jOpt t.reward),
                                       ("discount", jOpt t.discount), ("obs", t.obs)])
    | .error => out := out.push (jStr "error")
  pure (.arr out)

structure NativeQ where
  stepType : Jm.StepType
  reward : Rat
  discount : Rat

def getNativeQ (j : Json) : Except String NativeQ := do
  pure { stepType := ← getStepType (← field j "step_type"), reward := ← fRat j "reward", discount := ← fRat j "discount" }

def replayEnvQ : Env Unit NativeQ Json Rat Unit :=
  { reset := fun k => ((), { stepType := .first, reward := 0, discount := 1, obs := resetObs k, extras := () }),
    step := fun _ a => ((), { stepType := a.stepType, reward := a.reward, discount := a.discount, obs := jStr "native_obs", extras := () }),
    key := fun _ => .seed 0 }

/-- the gym adapter with `R := Rat`, `isZero := (· == 0)`:
{"seed": n, "ops": ["reset" | {"step": {step_type, reward, discount}} | {"seed": m} | {"reset_seed": m}]} →
per call null | {"obs": {"reset_obs_of_key": …}} | {"obs": "native_obs", "reward", "terminated", "truncated"} | "error" -/
def opGymRun : Op := fun j => do
  let n ← fNat j "seed"
  let ops ← getList pure (← field j "ops")
  let mut st : Gym.St Unit := Gym.init n
  let mut out : Array Json := #[]
  for o in ops do
    let op : Gym.Op NativeQ ← match o with
      | .str "reset" => pure (Gym.Op.reset none)
      | _ => match o.getObjVal? "seed" with
        | .ok v => do pure (Gym.Op.seed (← getNat v))
        | .error _ => match o.getObjVal? "reset_seed" with
          | .ok v => do pure (Gym.Op.reset (some (← getNat v)))
          | .error _ => do pure (Gym.Op.step (← getNativeQ (← field o "step")))
    let (st', r) := Gym.run1 replayEnvQ (fun d => d == 0) st op
    st := st'
    match r with
    | .none => out := out.push .null
    | .obs ob _ => out := out.push (jObj [("obs", ob)])
    | .stepped ob rw term trunc _ =>
      out := out.push (jObj [("obs", ob), ("reward", jRat rw), ("terminated", jBool term), ("truncated", jBool trunc)])
    | .error => out := out.push (jStr "error")
  pure (.arr out)

structure NativeL where
  stepType : Jm.StepType
  reward : List Rat
  discount : List Rat

def aggOf (name : String) : Except String (List Rat → Rat) :=
  match name with
  | "sum" => pure MultiToSingle.sumAgg | "max" => pure MultiToSingle.maxAgg
  | "min" => pure MultiToSingle.minAgg | "mean" => pure MultiToSingle.meanAgg
  | a => throw s!"unknown aggregator {a}"

/-- {"agg_r": name, "agg_d": name, "mode": "reset"|"step", "native": {step_type, reward: [q…], discount: [q…]}} →
what `MultiToSingleWrapper.reset/step` returns: {"state": "native_state", step_type, reward, discount, "obs": "native_obs",
"extras": "native_extras"} -/
def opMultiToSingle : Op := fun j => do
  let aggR ← aggOf (← fStr j "agg_r")
  let aggD ← aggOf (← fStr j "agg_d")
  let nj ← field j "native"
  let nat : NativeL := { stepType := ← getStepType (← field nj "step_type"), reward := ← fRats nj "reward", discount := ← fRats nj "discount" }
  let ts : TS String (List Rat) String :=
    { stepType := nat.stepType, reward := nat.reward, discount := nat.discount, obs := "native_obs", extras := "native_extras" }
  let E : Env String Unit String (List Rat) String :=
    { reset := fun _ => ("native_state", ts), step := fun _ _ => ("native_state", ts), key := fun _ => .seed 0 }
  let r := match ← fStr j "mode" with
    | "reset" => MultiToSingle.reset E aggR aggD (.seed 0)
    | _ => MultiToSingle.step E aggR aggD "previous_state" ()
  pure (jObj [("state", jStr r.1), ("step_type", jStepType r.2.stepType), ("reward", jRat r.2.reward),
              ("discount", jRat r.2.discount), ("obs", jStr r.2.obs), ("extras", jStr r.2.extras)])

def ops : List (String × Op) := [("wrappers.step", opStep), ("wrappers.gym_schedule", opGymSchedule),
  ("wrappers.dm_run", opDmRun), ("wrappers.gym_run", opGymRun), ("wrappers.multi_to_single", opMultiToSingle)]
end Jb.WrapperOps
