/- Driver ops for Maze.  Ops: maze.step, maze.state, maze.judge, maze.instance, maze.bounds, maze.spec -/
import JumanjiModel.Bridge.Json
import JumanjiModel.Env.Maze.Model
import JumanjiModel.Env.Maze.MazeGen
import JumanjiModel.Env.Maze.Bounds
import JumanjiModel.Env.Maze.Generator
import JumanjiModel.Bridge.Spec
import JumanjiModel.Env.Maze.SpecValid
open Lean Jb

namespace Jb.Maze
open _root_.Maze

def getCfg (j : Json) : Except String Cfg := do
  pure { numRows := ← fNat j "num_rows", numCols := ← fNat j "num_cols", timeLimit := ← fInt j "time_limit" }

def getPos (j : Json) (k : String) : Except String Pos := do
  match ← fInts j k with
  | [r, c] => pure (r, c)
  | _ => throw s!"position {k} must be [row, col]"

def jPos (p : Pos) : Json := jInts [p.1, p.2]

def getState (j : Json) : Except String State := do
  pure { agent := ← getPos j "agent_position", target := ← getPos j "target_position",
         walls := ← fBoolGrid j "walls", actionMask := ← fBools j "action_mask",
         stepCount := ← fInt j "step_count" }

def jState (s : State) : Json :=
  jObj [("agent_position", jPos s.agent), ("target_position", jPos s.target),
        ("walls", jBoolGrid s.walls), ("action_mask", jBools s.actionMask), ("step_count", jInt s.stepCount)]

def jObs (o : Obs) : Json :=
  jObj [("agent_position", jPos o.agent), ("target_position", jPos o.target),
        ("walls", jBoolGrid o.walls), ("action_mask", jBools o.actionMask), ("step_count", jInt o.stepCount)]

def jNValue (v : Sp.NValue) : Json := jList (fun (e : String × Sp.Arr) => jObj [("key", jStr e.1), ("value", SpecOps.jArr e.2)]) v

def getObs (j : Json) : Except String Obs := do
  pure { agent := ← getPos j "agent_position", target := ← getPos j "target_position",
         walls := ← fBoolGrid j "walls", actionMask := ← fBools j "action_mask",
         stepCount := ← fInt j "step_count" }

/-- {cfg, state, action:int} → {state, ts, valid, spec_agrees} -/
def opStep : Op := fun j => do
  let cfg ← getCfg (← field j "cfg")
  let s ← getState (← field j "state")
  let a ← fInt j "action"
  let (s', ts) := step cfg s a
  let valid := decide (0 ≤ a) && decide (legal cfg s a.toNat)
  pure (jObj [("state", jState s'), ("ts", jTimeStep jObs ts), ("valid", jBool valid)])

/-- {cfg, state} → {mask, legal, obs, consistent, objective} -/
def opState : Op := fun j => do
  let cfg ← getCfg (← field j "cfg")
  let s ← getState (← field j "state")
  pure (jObj [("mask", jBools (computeMask cfg s.walls s.agent)),
              ("legal", jBools (legalMask cfg s)),
              ("obs", jObs (observe cfg s)),
              ("consistent", jBool (decide (Consistent cfg s))),
              ("objective", jRat (objective s)),
              -- wave 4 (C01 membership): the timestep the model's `reset` builds on top of this state, the L1 observation
              -- (`_observation_from_state`: the CACHED mask) as spec-level arrays, `(obsSpec cfg).valid` of it, the invariant
              ("reset_ts", jTimeStep jObs (reset cfg s).2),
              ("nvalue", jNValue (toNValue (obsOf s))),
              ("obs_in_spec", jBool ((obsSpec cfg).valid (toNValue (obsOf s)))),
              ("spec_inv", jBool (decide (SpecInv cfg s)))])

/-- {cfg, state, action, next, ts} → {illegal_ok: bool|null, conserved: bool} -/
def opJudge : Op := fun j => do
  let cfg ← getCfg (← field j "cfg")
  let s ← getState (← field j "state")
  let a ← fNat j "action"
  let s' ← getState (← field j "next")
  let ts ← getTimeStep getObs (← field j "ts")
  let ill : Json := if decide (legal cfg s a) then .null else jBool (illegalIgnored cfg s s' ts)
  pure (jObj [("illegal_ok", ill), ("conserved", jBool (conserved s s'))])

/-- {cfg, state} → generator certificates on the reset state (C10) -/
def opInstance : Op := fun j => do
  let cfg ← getCfg (← field j "cfg")
  let rg ← fBool (← field j "cfg") "random_gen"
  let s ← getState (← field j "state")
  let m := s.walls
  let (nr, nc) := (cfg.numRows, cfg.numCols)
  pure (jObj ([("shaped", jBool (Jx.Grid.shaped m nr nc)),
              ("agent_free", jBool (decide (free cfg m s.agent))),
              ("target_free", jBool (decide (free cfg m s.target))),
              ("agent_ne_target", jBool (decide (s.agent ≠ s.target))),
              ("connected", jBool (MazeGen.connected m nr nc)),
              ("step_count_zero", jBool (decide (s.stepCount = 0))),
              ("mask_fresh", jBool (decide (s.actionMask = legalMask cfg s))),
              -- wave 4: the invariant of the C01 membership theorems and membership of the reset observation
              ("spec_inv", jBool (decide (SpecInv cfg s))),
              ("reset_obs_in_spec", jBool ((obsSpec cfg).valid (toNValue (reset cfg s).2.obs)))] ++
             (if rg then
               [("origin_free", jBool (!MazeGen.wall m 0 0)),
                ("even_cells_free", jBool (MazeGen.evenCellsFree m nr nc)),
                ("recursive_division", jBool (MazeGen.isRecursiveDivisionMaze m nr nc)),
                -- the state IS the model's `reset ∘ generate` of admissible draws (Props.C10.maze_generatedBy_sound)
                ("generated_by_model", jBool (generatedBy cfg s))]
              else
               [("toy_generated", jBool (toyGenerated cfg s))])))

/-- {cfg} → {leaf path: {"lo": rat|null, "hi": rat|null}}: the proved value bounds `obsBounds cfg` (C01) -/
def opBounds : Op := fun j => do
  let cfg ← getCfg (← field j "cfg")
  let jo : Option Rat → Json := fun o => match o with | none => .null | some r => jRat r
  pure (jObj ((obsBounds cfg).map (fun (k, lo, hi) => (k, jObj [("lo", jo lo), ("hi", jo hi)]))))

/-- {cfg} → the model's `obsSpec cfg`, `actionSpec`, reward and discount spec in the `speclib.leaf_json` layout, and
    `generate_value()` of the action spec -/
def opSpec : Op := fun j => do
  let cfg ← getCfg (← field j "cfg")
  pure (jObj [("observation_spec", SpecOps.jNested (obsSpec cfg)), ("action_spec", SpecOps.jLeaf actionSpec),
              ("reward_spec", SpecOps.jLeaf PzS.rewardSpec), ("discount_spec", SpecOps.jLeaf PzS.discountSpec),
              ("action_spec_wf", jBool actionSpec.WF), ("generate_value", SpecOps.jArr actionSpec.generate)])

def ops : List (String × Op) :=
  [("maze.spec", opSpec), ("maze.bounds", opBounds), ("maze.step", opStep), ("maze.state", opState), ("maze.judge", opJudge), ("maze.instance", opInstance)]
end Jb.Maze
