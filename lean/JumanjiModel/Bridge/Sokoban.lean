/- Driver ops for Sokoban.  Ops: sokoban.state, sokoban.step, sokoban.judge, sokoban.instance, sokoban.bounds, sokoban.spec -/
import JumanjiModel.Bridge.Json
import JumanjiModel.Env.Sokoban.Model
import JumanjiModel.Env.Sokoban.Bounds
import JumanjiModel.Env.Sokoban.Generator
import JumanjiModel.Prim.Float
import JumanjiModel.Bridge.Spec
import JumanjiModel.Env.Sokoban.SpecLemmas
open Lean Jb

namespace Jb.Sokoban
open _root_.Sokoban

def getCfg (j : Json) : Except String (Cfg × (Rat → Rat)) := do
  let cfg ← field j "cfg"
  let f32 ← fBool cfg "f32"
  pure ({ n := ← fNat cfg "n", timeLimit := ← fInt cfg "time_limit", dense := ← fBool cfg "dense" },
        if f32 then Jx.roundF32 else id)

def getState (cfg : Cfg) (j : Json) : Except String State := do
  -- {"row": r, "col": c}: a two-element integer list would be ambiguous with the [num, den] rationals
  let lj ← field j "agent_location"
  let loc : Loc := (← fInt lj "row", ← fInt lj "col")
  let s : State := { fgrid := ← fIntGrid j "fixed_grid", vgrid := ← fIntGrid j "variable_grid",
                     agent := loc, stepCount := ← fInt j "step_count" }
  if !(Jx.Grid.shaped s.fgrid cfg.n cfg.n && Jx.Grid.shaped s.vgrid cfg.n cfg.n) then
    throw "sokoban: grid shape differs from n x n"
  pure s

def jState (s : State) : Json :=
  jObj [("fixed_grid", jIntGrid s.fgrid), ("variable_grid", jIntGrid s.vgrid),
        ("agent_location", jObj [("row", jInt s.agent.1), ("col", jInt s.agent.2)]), ("step_count", jInt s.stepCount)]

def jObs (o : Obs) : Json :=
  jObj [("variable_grid", jIntGrid o.vgrid), ("fixed_grid", jIntGrid o.fgrid), ("step_count", jInt o.stepCount)]

def jNValue (v : Sp.NValue) : Json := jList (fun (e : String × Sp.Arr) => jObj [("key", jStr e.1), ("value", SpecOps.jArr e.2)]) v

/-- {cfg, state} → legal (L2, 4 directions), obs (L2), consistent, objective (boxes on targets) -/
def opState : Op := fun j => do
  let (cfg, _) ← getCfg j
  let s ← getState cfg (← field j "state")
  pure (jObj [("legal", jBools ((List.range 4).map (fun a => decide (legal cfg.n s a)))),
              ("obs", jObs (observe s)),
              ("consistent", jBool (decide (Consistent cfg.n s))),
              ("objective", jNat (boxesOnTarget cfg.n s)),
              -- wave 3: C06 `IsSolution` (consistent and every box on a target, cell by cell); C01 / C12: the timestep the
              -- model's `reset` builds on this state, the model observation as spec-level arrays (`grid` stacked on the
              -- last axis) and its membership in the model's `obsSpec cfg`
              ("solution", jBool (decide (Consistent cfg.n s) &&
                 (Jx.Grid.coords cfg.n cfg.n).all (fun p => Jx.Grid.get s.vgrid 0 p.1 p.2 != BOX || Jx.Grid.get s.fgrid 0 p.1 p.2 == TARGET))),
              ("reset_ts", jTimeStep jObs (reset s).2),
              ("nvalue", jNValue (toNValue cfg (stateToObs s))),
              ("obs_in_spec", jBool ((obsSpec cfg).valid (toNValue cfg (stateToObs s))))])

/-- {cfg, state, action} → L1 step; valid = L2 legality; spec = L2 successor, reward, done -/
def opStep : Op := fun j => do
  let (cfg, rnd) ← getCfg j
  let s ← getState cfg (← field j "state")
  let a ← fNat j "action"
  let (s', ts) := step rnd cfg s a
  let t := stepSpec cfg.n s a
  pure (jObj [("state", jState s'), ("ts", jTimeStep jObs ts),
              ("valid", jBool (decide (legal cfg.n s a))),
              ("spec", jObj [("state", jState t), ("reward", jRats [rewardSpec rnd cfg s t]),
                             ("step_type", jNat (if doneSpec cfg t then 2 else 1))])])

/-- predicates on an implementation transition: illegal_ok (null when legal): nothing moved, the step
    counter advanced, LAST only for the time limit / an already complete level; conserved: walls, targets
    and the number of boxes unchanged -/
def opJudge : Op := fun j => do
  let (cfg, _) ← getCfg j
  let s ← getState cfg (← field j "state")
  let a ← fNat j "action"
  let s' ← getState cfg (← field j "next")
  let ts ← getTimeStep (fun _ => pure ()) (← field j "ts")
  let ill : Json := if decide (legal cfg.n s a) then .null else
    jBool (decide (s'.vgrid = s.vgrid) && decide (s'.agent = s.agent) && decide (s'.fgrid = s.fgrid) &&
           decide (s'.stepCount = s.stepCount + 1) &&
           (ts.stepType != .last || doneSpec cfg s'))
  pure (jObj [("illegal_ok", ill), ("conserved", jBool (conserved cfg.n s s'))])

/-- certificates of a generated level (C10): `level_cert` = the decidable certificate `LevelCert` of which
    `sokoban_cert_consistent` etc. are proved; `matches_generator` (only when `cfg.gen` names a transliterated
    generator, "toy" / "simple"): the reset state is one of the levels the Lean transliteration of that generator
    produces (grids, agent location and step count), which ties `toyGenerate` / `simpleGenerate` to the code -/
def opInstance : Op := fun j => do
  let (cfg, _) ← getCfg j
  let s ← getState cfg (← field j "state")
  let gen ← fOpt (← field j "cfg") "gen" getStr
  let m : List (String × Json) := match gen.bind (fun g => matchesGenerator g s) with
    | some b => [("matches_generator", jBool b)]
    | none => []
  pure (jObj ([("consistent", jBool (decide (Consistent cfg.n s))),
              ("four_targets", jBool (countCells cfg.n s.fgrid TARGET == nBoxes)),
              ("not_solved", jBool (boxesOnTarget cfg.n s != nBoxes)),
              ("step_zero", jBool (s.stepCount == 0)),
              ("level_cert", jBool (decide (LevelCert cfg.n s)))] ++ m))

/-- {cfg} → {leaf path: {"lo": rat|null, "hi": rat|null}}: the proved value bounds `obsBounds cfg` (C01) -/
def opBounds : Op := fun j => do
  let (cfg, _) ← getCfg j
  let jo : Option Rat → Json := fun o => match o with | none => .null | some r => jRat r
  pure (jObj ((obsBounds cfg).map (fun (k, lo, hi) => (k, jObj [("lo", jo lo), ("hi", jo hi)]))))

/-- {cfg} → the model's `obsSpec cfg`, `actionSpec`, reward and discount spec in the `speclib.leaf_json` layout -/
def opSpec : Op := fun j => do
  let (cfg, _) ← getCfg j
  pure (jObj [("observation_spec", SpecOps.jNested (obsSpec cfg)), ("action_spec", SpecOps.jLeaf actionSpec),
              ("reward_spec", SpecOps.jLeaf PzS.rewardSpec), ("discount_spec", SpecOps.jLeaf PzS.discountSpec),
              ("action_spec_wf", jBool actionSpec.WF), ("generate_value", SpecOps.jArr actionSpec.generate)])

def ops : List (String × Op) :=
  [("sokoban.spec", opSpec), ("sokoban.bounds", opBounds), ("sokoban.state", opState), ("sokoban.step", opStep), ("sokoban.judge", opJudge), ("sokoban.instance", opInstance)]
end Jb.Sokoban
