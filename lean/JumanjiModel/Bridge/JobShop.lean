/- Driver ops for JobShop.  Ops: job_shop.state, job_shop.step, job_shop.judge, job_shop.instance, job_shop.bounds, job_shop.toy -/
import JumanjiModel.Bridge.Json
import JumanjiModel.Env.JobShop.Model
import JumanjiModel.Env.JobShop.Bounds
open Lean Jb

namespace Jb.JobShop
open _root_.JobShop

def getCfg (j : Json) : Except String Cfg := do
  pure { J := ← fNat j "J", M := ← fNat j "M", O := ← fNat j "O", D := ← fNat j "D" }

def checkGrid {α} (what : String) (g : List (List α)) (r c : Nat) : Except String Unit :=
  if g.length == r && g.all (fun row => row.length == c) then pure ()
  else throw s!"job_shop: {what} does not have shape ({r}, {c})"

def checkVec {α} (what : String) (v : List α) (n : Nat) : Except String Unit :=
  if v.length == n then pure () else throw s!"job_shop: {what} does not have length {n}"

def getState (cfg : Cfg) (j : Json) : Except String State := do
  let s : State :=
    { mid := ← fIntGrid j "ops_machine_ids", dur := ← fIntGrid j "ops_durations",
      opsMask := ← fBoolGrid j "ops_mask", mjob := ← fInts j "machines_job_ids",
      mrem := ← fInts j "machines_remaining_times", amask := ← fBoolGrid j "action_mask",
      stepCount := ← fInt j "step_count", sched := ← fIntGrid j "scheduled_times" }
  checkGrid "ops_machine_ids" s.mid cfg.J cfg.O
  checkGrid "ops_durations" s.dur cfg.J cfg.O
  checkGrid "ops_mask" s.opsMask cfg.J cfg.O
  checkGrid "scheduled_times" s.sched cfg.J cfg.O
  checkGrid "action_mask" s.amask cfg.M (cfg.J + 1)
  checkVec "machines_job_ids" s.mjob cfg.M
  checkVec "machines_remaining_times" s.mrem cfg.M
  pure s

def jState (s : State) : Json :=
  jObj [("ops_machine_ids", jIntGrid s.mid), ("ops_durations", jIntGrid s.dur),
        ("ops_mask", jBoolGrid s.opsMask), ("machines_job_ids", jInts s.mjob),
        ("machines_remaining_times", jInts s.mrem), ("action_mask", jBoolGrid s.amask),
        ("step_count", jInt s.stepCount), ("scheduled_times", jIntGrid s.sched)]

def jObs (o : Obs) : Json :=
  jObj [("ops_machine_ids", jIntGrid o.mid), ("ops_durations", jIntGrid o.dur),
        ("ops_mask", jBoolGrid o.opsMask), ("machines_job_ids", jInts o.mjob),
        ("machines_remaining_times", jInts o.mrem), ("action_mask", jBoolGrid o.amask)]

def getObs (j : Json) : Except String Obs := do
  pure { mid := ← fIntGrid j "ops_machine_ids", dur := ← fIntGrid j "ops_durations",
         opsMask := ← fBoolGrid j "ops_mask", mjob := ← fInts j "machines_job_ids",
         mrem := ← fInts j "machines_remaining_times", amask := ← fBoolGrid j "action_mask" }

def getAction (cfg : Cfg) (j : Json) : Except String (List Int) := do
  let a ← fInts j "action"
  checkVec "action" a cfg.M
  pure a

/-- {"cfg", "state", "action": [job or J per machine]} → {"state", "ts", "valid"} -/
def opStep : Op := fun j => do
  let cfg ← getCfg (← field j "cfg")
  let s ← getState cfg (← field j "state")
  let a ← getAction cfg j
  let (s', ts) := step cfg s a
  pure (jObj [("state", jState s'), ("ts", jTimeStep jObs ts),
              ("valid", jBool (decide (legalAction cfg s a)))])

/-- {"cfg", "state"} → mask (L1, recomputed from the fields), legal (L2, from the schedule), obs,
feasible (the whole invariant), solution, objective (−makespan) and the parts of the invariant -/
def opState : Op := fun j => do
  let cfg ← getCfg (← field j "cfg")
  let s ← getState cfg (← field j "state")
  pure (jObj [("mask", jBools (maskOf cfg s).flatten),
              ("legal", jBools (legalTable cfg s).flatten),
              ("obs", jObs (observe cfg s)),
              ("feasible", jBool (decide (Inv cfg s))),
              ("schedule_feasible", jBool (decide (Feasible cfg s))),
              ("bookkeeping", jBool (decide (Bookkeeping cfg s))),
              ("cached_mask", jBool (s.amask == maskOf cfg s)),
              ("solution", jBool (decide (IsSolution cfg s))),
              ("objective", jRat (objective cfg s)),
              ("work_left", jInt (workLeft cfg s))])

/-- illegal_ok: null when the action is legal by the rules; otherwise the documented effect:
the step is LAST and the reward is the penalty −J·O·D -/
def opJudge : Op := fun j => do
  let cfg ← getCfg (← field j "cfg")
  let s ← getState cfg (← field j "state")
  let a ← getAction cfg j
  let _s' ← getState cfg (← field j "next")
  let ts ← getTimeStep getObs (← field j "ts")
  let ill : Json := if decide (legalAction cfg s a) then .null else
    jBool (ts.stepType == .last && ts.reward == [penalty cfg])
  pure (jObj [("illegal_ok", ill)])

/-- certificates of a generated instance (the reset state) -/
def opInstance : Op := fun j => do
  let cfg ← getCfg (← field j "cfg")
  let s ← getState cfg (← field j "state")
  pure (jObj [("machine_ids_valid", jBool (decide (MachinesOK cfg s))),
              ("durations_in_range", jBool (decide (DurationsOK cfg s))),
              ("padding_consistent", jBool (decide (PaddingOK cfg s))),
              ("initial_state", jBool (decide (s = initState cfg s.mid s.dur))),
              ("invariant", jBool (decide (Inv cfg s))),
              ("generate_cert", jBool (decide (GenCert cfg s)))])

/-- {"cfg"} → the toy instance as the Lean model has it (`toyState`), the documented optimal action sequence
(`toyActions`), and the model's replay of it: final state, return, makespan, is it a complete solution.  The adapter
compares `state` with the implementation's `ToyGenerator` reset state and plays `actions` on the implementation
(ties `Props.C10.jobshop_toy_ok` / `jobshop_toy_makespan_achieved` to the code). -/
def opToy : Op := fun _ => do
  let p := play toyCfg toyState toyActions
  pure (jObj [("state", jState toyState), ("actions", jList jInts toyActions), ("final", jState p.1),
              ("return", jRat p.2), ("makespan", jInt (makespan toyCfg p.1)),
              ("solution", jBool (decide (IsSolution toyCfg p.1)))])

def jBounds (t : Jm.OB.Table) : Json :=
  jObj (t.map fun e => (e.1, jObj [("lo", match e.2.1 with | some r => jRat r | none => Json.null),
                                   ("hi", match e.2.2 with | some r => jRat r | none => Json.null)]))

/-- {"cfg": {J, M, O, D}} → {leaf path: {"lo": rat|null, "hi": rat|null}}: the proved observation bounds (C01) -/
def opBounds : Op := fun j => do
  let cfg ← getCfg (← field j "cfg")
  pure (jBounds (obsBounds cfg))

def ops : List (String × Op) :=
  [("job_shop.step", opStep), ("job_shop.state", opState), ("job_shop.judge", opJudge),
   ("job_shop.instance", opInstance), ("job_shop.bounds", opBounds), ("job_shop.toy", opToy)]
end Jb.JobShop
