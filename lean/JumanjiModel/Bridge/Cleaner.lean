/- Driver ops for Cleaner.  Ops: cleaner.step, cleaner.state, cleaner.judge, cleaner.instance, cleaner.bounds, cleaner.spec -/
import JumanjiModel.Bridge.Json
import JumanjiModel.Env.Cleaner.Model
import JumanjiModel.Env.Cleaner.Bounds
import JumanjiModel.Env.Maze.MazeGen
import JumanjiModel.Env.Cleaner.Gen
import JumanjiModel.Bridge.Spec
import JumanjiModel.Env.Cleaner.SpecLemmas
open Lean Jb

namespace Jb.Cleaner
open _root_.Cleaner

def getCfg (j : Json) : Except String Cfg := do
  pure { numRows := ← fNat j "num_rows", numCols := ← fNat j "num_cols", numAgents := ← fNat j "num_agents",
         timeLimit := ← fInt j "time_limit", penalty := ← fRat j "penalty" }

def getLocs (j : Json) (k : String) : Except String (List Pos) := do
  let g ← fIntGrid j k
  g.mapM (fun row => match row with
    | [r, c] => pure (r, c)
    | _ => throw s!"{k}: each location must be [row, col]")

def jLocs (ps : List Pos) : Json := jIntGrid (ps.map (fun p => [p.1, p.2]))

def getState (j : Json) : Except String State := do
  pure { grid := ← fIntGrid j "grid", agents := ← getLocs j "agents_locations",
         actionMask := ← fBoolGrid j "action_mask", stepCount := ← fInt j "step_count" }

def jState (s : State) : Json :=
  jObj [("grid", jIntGrid s.grid), ("agents_locations", jLocs s.agents),
        ("action_mask", jBoolGrid s.actionMask), ("step_count", jInt s.stepCount)]

def jObs (o : Obs) : Json :=
  jObj [("grid", jIntGrid o.grid), ("agents_locations", jLocs o.agents),
        ("action_mask", jBoolGrid o.actionMask), ("step_count", jInt o.stepCount)]

def getObs (j : Json) : Except String Obs := do
  pure { grid := ← fIntGrid j "grid", agents := ← getLocs j "agents_locations",
         actionMask := ← fBoolGrid j "action_mask", stepCount := ← fInt j "step_count" }

def jNValue (v : Sp.NValue) : Json := jList (fun (e : String × Sp.Arr) => jObj [("key", jStr e.1), ("value", SpecOps.jArr e.2)]) v

/-- {cfg, state, action:[int]} → {state, ts, valid:[bool per agent]} -/
def opStep : Op := fun j => do
  let cfg ← getCfg (← field j "cfg")
  let s ← getState (← field j "state")
  let a ← fInts j "action"
  if a.length ≠ s.agents.length then throw "action length ≠ number of agents"
  let (s', ts) := step cfg s a
  let valid := List.zipWith (fun loc (x : Int) => decide (0 ≤ x) && decide (legalAt cfg s.grid loc x.toNat)) s.agents a
  pure (jObj [("state", jState s'), ("ts", jTimeStep jObs ts), ("valid", jBools valid)])

/-- {cfg, state} → {mask, legal (both flattened (num_agents, 4)), obs, consistent, objective} -/
def opState : Op := fun j => do
  let cfg ← getCfg (← field j "cfg")
  let s ← getState (← field j "state")
  pure (jObj [("mask", jBools (computeMask cfg s.grid s.agents).flatten),
              ("legal", jBools (legalMask cfg s.grid s.agents).flatten),
              ("obs", jObs (observe cfg s)),
              ("consistent", jBool (decide (Consistent cfg s))),
              ("objective", jRat (objective cfg s)),
              -- wave 3 (C01 / C12): the timestep the model's `reset` builds on top of this (generated) state, the model
              -- observation as spec-level arrays, and its membership in the model's `obsSpec cfg`
              ("reset_ts", jTimeStep jObs (reset cfg s).2),
              ("nvalue", jNValue (toNValue cfg (obsOf s))),
              ("obs_in_spec", jBool ((obsSpec cfg).valid (toNValue cfg (obsOf s))))])

/-- {cfg, state, action, next, ts} → {illegal_ok: bool|null, conserved: bool} -/
def opJudge : Op := fun j => do
  let cfg ← getCfg (← field j "cfg")
  let s ← getState (← field j "state")
  let a ← fNats j "action"
  if a.length ≠ s.agents.length then throw "action length ≠ number of agents"
  let s' ← getState (← field j "next")
  let ts ← getTimeStep getObs (← field j "ts")
  let ill : Json := if (legalJoint cfg s a).all id then .null else jBool (illegalTerminates cfg (1 / 100000) s a s' ts)
  pure (jObj [("illegal_ok", ill), ("conserved", jBool (conserved s s'))])

/-- {cfg, state} → generator certificates on the reset state (C10) -/
def opInstance : Op := fun j => do
  let cfg ← getCfg (← field j "cfg")
  let s ← getState (← field j "state")
  let (nr, nc) := (cfg.numRows, cfg.numCols)
  let m : Jx.Grid Bool := Jx.Grid.map (fun v => decide (v = WALL)) s.grid
  pure (jObj [("shaped", jBool (Jx.Grid.shaped s.grid nr nc)),
              ("tile_values", jBool (Jx.Grid.all (fun v => v == DIRTY || v == CLEAN || v == WALL) s.grid)),
              ("origin_clean", jBool (decide (tile s.grid (0, 0) = CLEAN))),
              ("one_clean_tile", jBool (decide (countTiles CLEAN s.grid = 1))),
              ("agents_at_origin", jBool (decide (s.agents = List.replicate cfg.numAgents (0, 0)))),
              ("connected", jBool (MazeGen.connected m nr nc)),
              ("even_cells_free", jBool (MazeGen.evenCellsFree m nr nc)),
              ("recursive_division", jBool (MazeGen.isRecursiveDivisionMaze m nr nc)),
              ("step_count_zero", jBool (decide (s.stepCount = 0))),
              ("consistent", jBool (decide (Consistent cfg s))),
              -- the certificate of `cleaner_reset_cert` / `cleaner_all_cleanable` (Env/Cleaner/Gen.lean)
              ("reset_cert", jBool (resetCert cfg s)),
              -- the reset state IS the transliterated generator applied to its own wall map
              ("generate_matches", jBool (generateMatches cfg s))])

/-- {cfg} → {leaf path: {"lo": rat|null, "hi": rat|null}}: the proved value bounds `obsBounds cfg` (C01) -/
def opBounds : Op := fun j => do
  let cfg ← getCfg (← field j "cfg")
  let jo : Option Rat → Json := fun o => match o with | none => .null | some r => jRat r
  pure (jObj ((obsBounds cfg).map (fun (k, lo, hi) => (k, jObj [("lo", jo lo), ("hi", jo hi)]))))

/-- {cfg} → the model's `obsSpec cfg`, `actionSpec cfg`, reward and discount spec in the `speclib.leaf_json` layout -/
def opSpec : Op := fun j => do
  let cfg ← getCfg (← field j "cfg")
  pure (jObj [("observation_spec", SpecOps.jNested (obsSpec cfg)), ("action_spec", SpecOps.jLeaf (actionSpec cfg)),
              ("reward_spec", SpecOps.jLeaf PzS.rewardSpec), ("discount_spec", SpecOps.jLeaf PzS.discountSpec),
              ("action_spec_wf", jBool (actionSpec cfg).WF), ("generate_value", SpecOps.jArr (actionSpec cfg).generate)])

def ops : List (String × Op) :=
  [("cleaner.spec", opSpec), ("cleaner.bounds", opBounds), ("cleaner.step", opStep), ("cleaner.state", opState), ("cleaner.judge", opJudge),
   ("cleaner.instance", opInstance)]
end Jb.Cleaner
