/- Driver ops for the spec algebra (C16, C01). -/
import JumanjiModel.Bridge.Json
import JumanjiModel.Spec.Spec
open Lean Jb

namespace Jb.SpecOps
open Sp

def getDType (j : Json) : Except String DType := do
  match ← getStr j with
  | "bool" => pure .bool | "int8" => pure .int8 | "int16" => pure .int16 | "int32" => pure .int32
  | "uint8" => pure .uint8 | "uint16" => pure .uint16 | "uint32" => pure .uint32
  | "float16" => pure .float16 | "float32" => pure .float32
  | s => throw s!"unsupported dtype {s}"

def dtypeStr : DType → String
  | .bool => "bool" | .int8 => "int8" | .int16 => "int16" | .int32 => "int32" | .uint8 => "uint8"
  | .uint16 => "uint16" | .uint32 => "uint32" | .float16 => "float16" | .float32 => "float32"

def getLeaf (j : Json) : Except String Leaf := do
  let kind ← fStr j "kind"
  let d ← getDType (← field j "dtype")
  let n ← fStr j "name"
  match kind with
  | "array" => pure (.array (← fNats j "shape") d n)
  | "bounded" => pure (.bounded (← fNats j "shape") d n (← fNats j "min_shape") (← fRats j "min")
                        (← fNats j "max_shape") (← fRats j "max"))
  | "discrete" => pure (.discrete (← fNat j "num_values") d n)
  | "multi" => pure (.multiDiscrete (← fNats j "nv_shape") (← fNats j "num_values") d n)
  | k => throw s!"unknown spec kind {k}"

def jLeaf : Leaf → Json
  | .array s d n => jObj [("kind", jStr "array"), ("shape", jNats s), ("dtype", jStr (dtypeStr d)), ("name", jStr n)]
  | .bounded s d n ms m xs x => jObj [("kind", jStr "bounded"), ("shape", jNats s), ("dtype", jStr (dtypeStr d)),
      ("name", jStr n), ("min_shape", jNats ms), ("min", jRats m), ("max_shape", jNats xs), ("max", jRats x)]
  | .discrete k d n => jObj [("kind", jStr "discrete"), ("num_values", jNat k), ("dtype", jStr (dtypeStr d)), ("name", jStr n)]
  | .multiDiscrete s nv d n => jObj [("kind", jStr "multi"), ("nv_shape", jNats s), ("num_values", jNats nv),
      ("dtype", jStr (dtypeStr d)), ("name", jStr n)]

def getArr (j : Json) : Except String Arr := do
  pure { shape := ← fNats j "shape", dtype := ← getDType (← field j "dtype"), data := ← fRats j "data" }
def jArr (a : Arr) : Json := jObj [("shape", jNats a.shape), ("dtype", jStr (dtypeStr a.dtype)), ("data", jRats a.data)]

def getKw (j : Json) : Except String Leaf.Kw := do
  match ← fStr j "k" with
  | "shape" => pure (.shape (← fNats j "v"))
  | "dtype" => pure (.dtype (← getDType (← field j "v")))
  | "name" => pure (.name (← fStr j "v"))
  | "minimum" => pure (.minimum (← fNats j "shape") (← fRats j "v"))
  | "maximum" => pure (.maximum (← fNats j "shape") (← fRats j "v"))
  | "num_values" => pure (.numValues (← fNat j "v"))
  | "num_values_arr" => pure (.numValuesArr (← fNats j "shape") (← fNats j "v"))
  | k => throw s!"unknown kw {k}"

def getNested (j : Json) : Except String Nested := do
  (← getList pure j).mapM (fun p => do pure (← fStr p "key", ← getLeaf (← field p "spec")))
def getNValue (j : Json) : Except String NValue := do
  (← getList pure j).mapM (fun p => do pure (← fStr p "key", ← getArr (← field p "value")))

def kindStr : Leaf.Kind → String
  | .array => "Array" | .bounded => "BoundedArray" | .discrete => "DiscreteArray" | .multi => "MultiDiscreteArray"

def jAttrVal : Leaf.AttrVal → Json
  | .shape s => jObj [("shape", jNats s)]
  | .dtype d => jObj [("dtype", jStr (dtypeStr d))]
  | .name n => jObj [("name", jStr n)]
  | .arr sh m => jObj [("arr", jObj [("shape", jNats sh), ("data", jRats m)])]
  | .nat n => jObj [("nat", jNat n)]
  | .natArr sh nv => jObj [("nat_arr", jObj [("shape", jNats sh), ("data", jNats nv)])]
  | .absent => .null

def jNested (n : Nested) : Json := jList (fun (p : String × Leaf) => jObj [("key", jStr p.1), ("spec", jLeaf p.2)]) n
def getChildren (j : Json) : Except String (List (String × Nested)) := do
  (← getList pure j).mapM (fun p => do pure (← fStr p "key", ← getNested (← field p "spec")))

def ops : List (String × Op) := [
  -- what the constructor does with these arguments: accepted?, within contract (well-formed)?, the stored maxima
  ("spec.ctor", fun j => do
      let l ← getLeaf (← field j "spec")
      let stored : List Int := match l with
        | .discrete n d _ => [Leaf.storedMax d n]
        | .multiDiscrete _ nv d _ => nv.map (Leaf.storedMax d)
        | _ => []
      pure (jObj [("accepts", jBool l.ctorAccepts), ("wf", jBool l.WF), ("stored_max", jInts stored)])),
  ("spec.py_eq", fun j => do pure (jBool ((← getLeaf (← field j "a")).pyEq (← getLeaf (← field j "b"))))),
  ("spec.reduce", fun j => do
      let l ← getLeaf (← field j "spec")
      pure (jObj [("cls", jStr (kindStr l.reduce.1)), ("args", jList jAttrVal l.reduce.2),
                  ("unreduce", match l.unreduce with | some l' => jLeaf l' | none => .null)])),
  ("spec.attrs", fun j => do
      let l ← getLeaf (← field j "spec")
      pure (jObj [("shape", jAttrVal (l.get .shape)), ("dtype", jAttrVal (l.get .dtype)), ("name", jAttrVal (l.get .name)),
                  ("minimum", jAttrVal (l.get .minimum)), ("maximum", jAttrVal (l.get .maximum)),
                  ("num_values", jAttrVal (l.get .numValues))])),
  ("spec.node_replace", fun j => do
      let n : Node := { name := ← fStr j "name", children := ← getChildren (← field j "children") }
      let r := n.replace (← getChildren (← field j "kws"))
      pure (jObj [("name", jStr r.name),
                  ("children", jList (fun (c : String × Nested) => jObj [("key", jStr c.1), ("spec", jNested c.2)]) r.children),
                  ("flat", jNested r.flatten)])),

  ("spec.wf", fun j => do pure (jBool (← getLeaf (← field j "spec")).WF)),
  ("spec.valid", fun j => do pure (jBool ((← getLeaf (← field j "spec")).valid (← getArr (← field j "value"))))),
  ("spec.generate", fun j => do pure (jArr (← getLeaf (← field j "spec")).generate)),
  ("spec.eq", fun j => do pure (jBool ((← getLeaf (← field j "a")).beq (← getLeaf (← field j "b"))))),
  ("spec.replace", fun j => do
      let l ← getLeaf (← field j "spec")
      let kws ← getList getKw (← field j "kws")
      pure (match l.replace kws with | some l' => jLeaf l' | none => .null)),
  ("spec.gym_contains", fun j => do
      pure (jBool ((toGym (← getLeaf (← field j "spec"))).contains (← getArr (← field j "value"))))),
  ("spec.nested_valid", fun j => do
      pure (jBool ((← getNested (← field j "spec")).valid (← getNValue (← field j "value"))))),
  ("spec.nested_eq", fun j => do
      pure (jBool ((← getNested (← field j "a")).beq (← getNested (← field j "b")))))
]
end Jb.SpecOps
