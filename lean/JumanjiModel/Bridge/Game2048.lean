/- Driver ops for Game2048.  Ops: game2048.state, game2048.step, game2048.judge, game2048.row, game2048.instance, game2048.spec -/
import JumanjiModel.Bridge.Json
import JumanjiModel.Env.Game2048.Model
import JumanjiModel.Env.Game2048.Bounds
import JumanjiModel.Bridge.PuzzleBounds
import JumanjiModel.Bridge.Spec
import JumanjiModel.Env.Game2048.SpecLemmas
open Lean Jb

namespace Jb.Game2048
open _root_.Game2048

def getState (n : Nat) (j : Json) : Except String State := do
  let b ← fNatGrid j "board"
  let m ← fBools j "action_mask"
  if !decide (Shaped b n) then throw s!"board is not {n} x {n}"
  if m.length != 4 then throw "action_mask must have 4 entries"
  pure { board := b, stepCount := ← fNat j "step_count", actionMask := m, score := ← fRat j "score" }

def jState (s : State) : Json :=
  jObj [("board", jNatGrid s.board), ("step_count", jNat s.stepCount),
        ("action_mask", jBools s.actionMask), ("score", jRat s.score)]

def jObs (o : Obs) : Json := jObj [("board", jNatGrid o.board), ("action_mask", jBools o.actionMask)]

def getObs (j : Json) : Except String Obs := do
  pure { board := ← fNatGrid j "board", actionMask := ← fBools j "action_mask" }

def jNValue (v : Sp.NValue) : Json := jList (fun (e : String × Sp.Arr) => jObj [("key", jStr e.1), ("value", SpecOps.jArr e.2)]) v
def jNested (s : Sp.Nested) : Json := jList (fun (e : String × Sp.Leaf) => jObj [("key", jStr e.1), ("spec", SpecOps.jLeaf e.2)]) s

def getDraw (j : Json) : Except String Draw := do
  pure { idx := ← fNat j "idx", val := ← fNat j "val" }

/-- {"cfg": {"n": board_size}, "state", "action", "draw"?: {"idx", "val"}} →
    {"state", "ts", "valid"}.  L1 step; `valid` = L2 legality.  Throws when the step spawns a tile and the
    draw is missing or outside the support, and when the L2 slide of the board differs from L1 `move`. -/
def opStep : Op := fun j => do
  let cfg ← field j "cfg"
  let n ← fNat cfg "n"
  let s ← getState n (← field j "state")
  let a ← fInt j "action"
  let spawn := Jx.getWC s.actionMask false a
  let m := move s.board a
  let d ← match ← fOpt j "draw" getDraw with
    | some d => pure d
    | none => if spawn then throw "the model spawns a tile here but no tile appeared (draw missing)"
              else pure { idx := 0, val := 0 }
  if spawn && !decide (validDraw m.1 d) then
    throw s!"draw (cell {d.idx}, value {d.val}) is not an empty cell of the moved board with value 1 or 2"
  -- L2 against L1 on this very input
  if 0 ≤ a ∧ a < 4 then
    let dir := Dir.ofAction a.toNat
    if slideBoard s.board dir != m.1 then throw "L2 slideBoard differs from L1 move on this board"
    if boardReward s.board dir != m.2 then throw "L2 boardReward differs from L1 move reward on this board"
  let (s', ts) := step s a d
  -- wave 3: the whole-step rules `stepL2` (theorem game2048_step_eq_rules) against L1 on this very input
  if 0 ≤ a ∧ a < 4 ∧ s.actionMask = legalMask s.board then
    let (r', rts) := stepL2 s a.toNat d
    if r' != s' || rts.stepType != ts.stepType || rts.reward != ts.reward || rts.discount != ts.discount || rts.obs != ts.obs then
      throw "L2 stepL2 (whole-step rules) differs from L1 step on this input"
  pure (jObj [("state", jState s'), ("ts", jTimeStep jObs ts),
              ("valid", jBool (if a < 0 then false else decide (legal s.board a.toNat)))])

/-- {"cfg": {"n"}, "state"[, "fours": number of 4-tiles spawned in the episode so far]} →
    mask (L1), legal (L2), obs (L2), consistent, objective -/
def opState : Op := fun j => do
  let cfg ← field j "cfg"
  let n ← fNat cfg "n"
  let s ← getState n (← field j "state")
  let fours ← fOpt j "fours" getNat
  let obj : Rat := match fours with
    | some k => (boardPot s.board : Rat) - 4 * (k : Rat)
    | none => s.score
  pure (jObj [("mask", jBools (actionMask s.board)),
              ("legal", jBools (legalMask s.board)),
              ("obs", jObs (observe s)),
              -- wave 3: the observation as spec-level arrays (shape, dtype, data) and whether the model's `obsSpec n` accepts it
              ("nvalue", jNValue (toNValue (observe s))),
              ("obs_in_spec", jBool ((obsSpec n).valid (toNValue (observe s)))),
              ("consistent", jBool (decide (Consistent n s))),
              ("objective", jRat obj)])

/-- {"cfg", "state", "action", "next", "ts"} → {"illegal_ok": bool|null, "conserved": bool} -/
def opJudge : Op := fun j => do
  let cfg ← field j "cfg"
  let n ← fNat cfg "n"
  let s ← getState n (← field j "state")
  let a ← fNat j "action"
  let s' ← getState n (← field j "next")
  let ts ← getTimeStep getObs (← field j "ts")
  let ill : Json := if decide (legal s.board a) then .null else jBool (illegalOk s s' ts)
  pure (jObj [("illegal_ok", ill), ("conserved", jBool (conservedStep s.board a s'.board))])

/-- {"cfg": {"n"}, "state": a reset state} → generator certificates (C10): the advertised invariant, and the
    transliterated `reset` replayed on the draw read off the state (cell and exponent of its one tile) -/
def opInstance : Op := fun j => do
  let cfg ← field j "cfg"
  let n ← fNat cfg "n"
  let s ← getState n (← field j "state")
  let d := drawOf s.board
  pure (jObj [("instance_ok", jBool (decide (InstanceOK n s))),
              ("one_tile", jBool (tileCount s.board == 1)),
              ("tile_is_2_or_4", jBool (boardSum s.board == 2 || boardSum s.board == 4)),
              ("mask_is_legality", jBool (s.actionMask == legalMask s.board)),
              ("consistent", jBool (decide (Consistent n s))),
              ("draw_valid", jBool (decide (validDraw (tab n (fun _ _ => 0)) d))),
              ("reset_matches_model", jBool (decide ((reset n d).1 = s)))])

/-- {"row": [exponents]} → L1 loops and L2 spec on one row of any length -/
def opRow : Op := fun j => do
  let r ← fNats j "row"
  let m := moveLeftRow r
  pure (jObj [("l1", jObj [("row", jNats m.1), ("reward", jNat m.2), ("can_move", jBool (canMoveLeftRow r))]),
              ("l2", jObj [("row", jNats (slideSpec r)), ("reward", jNat (rowReward r)),
                           ("can_move", jBool (decide (slideSpec r ≠ r)))]),
              ("tile_sum", jNats [tileSum r, tileSum (slideSpec r)])])

/-- {"cfg": {"n"}} → the proved interval of every observation leaf (C01) -/
def opBounds : Op := fun j => do
  let cfg ← field j "cfg"
  let n ← fNat cfg "n"
  pure (jBoundsTable (obsBounds n))

/-- {"cfg": {"n"}} → the specs of the model (`obsSpec n`, `actionSpec`, reward and discount spec) in the `speclib.leaf_json`
    layout, and `generate_value()` of the action spec -/
def opSpec : Op := fun j => do
  let cfg ← field j "cfg"
  let n ← fNat cfg "n"
  pure (jObj [("observation_spec", jNested (obsSpec n)), ("action_spec", SpecOps.jLeaf actionSpec),
              ("reward_spec", SpecOps.jLeaf PzS.rewardSpec), ("discount_spec", SpecOps.jLeaf PzS.discountSpec),
              ("action_spec_wf", jBool actionSpec.WF),
              ("generate_value", SpecOps.jArr actionSpec.generate),
              ("generate_value_legal", jBool (actionSpec.generate == actionArr 0))])

def ops : List (String × Op) :=
  [("game2048.spec", opSpec), ("game2048.step", opStep), ("game2048.state", opState), ("game2048.judge", opJudge),
   ("game2048.row", opRow), ("game2048.bounds", opBounds), ("game2048.instance", opInstance)]
end Jb.Game2048
