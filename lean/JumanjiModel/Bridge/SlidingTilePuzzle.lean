/- Driver ops for SlidingTilePuzzle.
   Ops: sliding_tile_puzzle.{step, state, judge, instance, walk, bounds, spec, run} -/
import JumanjiModel.Bridge.Json
import JumanjiModel.Env.SlidingTilePuzzle.Model
import JumanjiModel.Env.SlidingTilePuzzle.Bounds
import JumanjiModel.Bridge.PuzzleBounds
import JumanjiModel.Bridge.Spec
import JumanjiModel.Env.SlidingTilePuzzle.Episode
open Lean Jb

namespace Jb.SlidingTilePuzzle
open _root_.SlidingTilePuzzle

def getPos (j : Json) : Except String Pos := do
  pure (← fInt j "r", ← fInt j "c")

def jPos (p : Pos) : Json := jObj [("r", jInt p.1), ("c", jInt p.2)]

/-- state layout = adapter `ser_state`: {"puzzle": [[int]], "empty": {"r","c"}, "step_count": int} -/
def getState (j : Json) : Except String State := do
  pure { puzzle := ← fIntGrid j "puzzle", empty := ← getPos (← field j "empty"),
         stepCount := ← fInt j "step_count" }

def jState (s : State) : Json :=
  jObj [("puzzle", jIntGrid s.puzzle), ("empty", jPos s.empty), ("step_count", jInt s.stepCount)]

def jObs (o : Obs) : Json :=
  jObj [("puzzle", jIntGrid o.puzzle), ("empty", jPos o.empty), ("action_mask", jBools o.mask),
        ("step_count", jInt o.stepCount)]

def getObs (j : Json) : Except String Obs := do
  pure { puzzle := ← fIntGrid j "puzzle", empty := ← getPos (← field j "empty"),
         mask := ← fBools j "action_mask", stepCount := ← fInt j "step_count" }

/-- cfg = {"n": nat, "dense": bool, "time_limit": int} -/
def getCfg (j : Json) : Except String Cfg := do
  let cfg ← field j "cfg"
  pure { n := ← fNat cfg "n", dense := ← fBool cfg "dense", timeLimit := ← fInt cfg "time_limit" }

def legalInt (n : Nat) (s : State) (a : Int) : Bool :=
  decide (0 ≤ a) && decide (legal n s a.toNat)

/-- L1 step; `valid` = L2 legality of the action -/
def opStep : Op := fun j => do
  let cfg ← getCfg j
  let s ← getState (← field j "state")
  let a ← fInt j "action"
  let (s', ts) := step cfg s a
  pure (jObj [("state", jState s'), ("ts", jTimeStep jObs ts), ("valid", jBool (legalInt cfg.n s a))])

def jNValue (v : Sp.NValue) : Json := jList (fun (e : String × Sp.Arr) => jObj [("key", jStr e.1), ("value", SpecOps.jArr e.2)]) v
def jNested (s : Sp.Nested) : Json := jList (fun (e : String × Sp.Leaf) => jObj [("key", jStr e.1), ("spec", SpecOps.jLeaf e.2)]) s

def flatCount (g : Jx.Grid Int) (x : Int) : Nat := (Jx.Grid.flatten g).count x

/-- same multiset of tiles -/
def sameTiles (g h : Jx.Grid Int) : Bool :=
  (Jx.Grid.flatten g).length == (Jx.Grid.flatten h).length &&
  (Jx.Grid.flatten g).all (fun x => flatCount g x == flatCount h x)

/-- {cfg, state[, initial]} → mask (L1), legal (L2), obs (L2), consistent, solved, objective
    (dense: correct(state) − correct(initial), needs "initial"; sparse: 1 iff solved) -/
def opState : Op := fun j => do
  let cfg ← getCfg j
  let s ← getState (← field j "state")
  let init ← fOpt j "initial" getState
  let solved := decide (s.puzzle = goal cfg.n)
  let obj : Rat :=
    if cfg.dense then
      match init with
      | some s0 => ((correct cfg.n s.puzzle - correct cfg.n s0.puzzle : Int) : Rat)
      | none => ((correct cfg.n s.puzzle : Int) : Rat)
    else (if solved then 1 else 0)
  pure (jObj [("mask", jBools (validActions cfg.n s.empty)),
              ("legal", jBools ((List.range 4).map (fun a => decide (legal cfg.n s a)))),
              ("obs", jObs (observeL2 cfg.n s)),
              -- wave 2: the timestep `reset` builds for this state (L1), the L1 observation as spec-level arrays, and whether
              -- the model's `obsSpec cfg` accepts it
              ("reset_ts", jTimeStep jObs (resetTimeStep cfg.n s)),
              ("nvalue", jNValue (toNValue (observe cfg.n s))),
              ("obs_in_spec", jBool ((obsSpec cfg).valid (toNValue (observe cfg.n s)))),
              ("consistent", jBool (decide (Inv cfg.n s.board) && isPermutationB cfg.n s.puzzle)),
              ("solved", jBool solved),
              ("objective", jRat obj)])

/-- predicates on an implementation transition {cfg, state, action, next, ts}:
  illegal_ok (null when legal): board untouched, step counted, and LAST only for another cause
     (board already the goal, or time limit);
  conserved: same multiset of tiles;  slide_ok: next board = L2 `slideB` (the move is the swap of the
  blank with that neighbour / ignored);  rules_ok: whole transition = L2 `stepL2`;
  solved_ok: the step is LAST exactly when the next board is the goal or the time limit is reached -/
def opJudge : Op := fun j => do
  let cfg ← getCfg j
  let s ← getState (← field j "state")
  let a ← fNat j "action"
  let s' ← getState (← field j "next")
  let ts ← getTimeStep getObs (← field j "ts")
  let isGoal := decide (s'.puzzle = goal cfg.n)
  let timeUp := decide (cfg.timeLimit ≤ s'.stepCount)
  let ill : Json := if decide (legal cfg.n s a) then .null else
    jBool (decide (s'.puzzle = s.puzzle) && decide (s'.empty = s.empty) &&
           decide (s'.stepCount = s.stepCount + 1) &&
           (ts.stepType != .last || isGoal || timeUp) && ts.stepType != .first)
  let (m, mts) := stepL2 cfg s a
  let rules := decide (m = s') && mts.stepType == ts.stepType && mts.reward == ts.reward &&
               mts.discount == ts.discount && decide (mts.obs = ts.obs)
  pure (jObj [("illegal_ok", ill),
              ("conserved", jBool (sameTiles s.puzzle s'.puzzle)),
              ("slide_ok", jBool (decide (s'.board = slideB cfg.n s.board a))),
              ("rules_ok", jBool rules),
              ("solved_ok", jBool ((ts.stepType == .last) == (isGoal || timeUp)))])

/-- generator certificates on a reset state -/
def opInstance : Op := fun j => do
  let cfg ← getCfg j
  let s ← getState (← field j "state")
  pure (jObj [("shape_ok", jBool (Jx.Grid.shaped s.puzzle cfg.n cfg.n)),
              ("is_permutation", jBool (isPermutationB cfg.n s.puzzle)),
              ("blank_consistent", jBool (decide (Inv cfg.n s.board))),
              ("step_count_zero", jBool (decide (s.stepCount = 0))),
              ("parity_solvable", jBool (parityOK cfg.n s.board))])

/-- L1 generator replayed on a draw tape: {cfg, draws: [nat]} → {state, valid_draws} -/
def opWalk : Op := fun j => do
  let cfg ← getCfg j
  let ds ← fNats j "draws"
  pure (jObj [("state", jState (genState cfg.n ds)),
              ("valid_draws", jBool (validDraws cfg.n (startBoard cfg.n) ds)),
              ("goal", jIntGrid (goal cfg.n)), ("solved_puzzle", jIntGrid (solvedPuzzle cfg.n))])

/-- C01 bounds op: {"cfg"} → the proved interval of every observation leaf -/
def opBounds : Op := fun j => do
  let cfg ← getCfg j
  pure (jBoundsTable (obsBounds cfg))

/-- {cfg} → the specs of the model (`obsSpec`, `actionSpec`, reward and discount spec) in the `speclib.leaf_json` layout, and
    `generate_value()` of the action spec -/
def opSpec : Op := fun j => do
  let cfg ← getCfg j
  pure (jObj [("observation_spec", jNested (obsSpec cfg)), ("action_spec", SpecOps.jLeaf actionSpec),
              ("reward_spec", SpecOps.jLeaf PzS.rewardSpec), ("discount_spec", SpecOps.jLeaf PzS.discountSpec),
              ("action_spec_wf", jBool actionSpec.WF),
              ("generate_value", SpecOps.jArr actionSpec.generate),
              ("generate_value_legal", jBool (actionSpec.generate == actionArr 0))])

/-- {cfg, state, actions} → the L1 episode `run cfg state actions` (every successor state and timestep, through LAST), the
    index of the first LAST and the return (sum of the rewards up to and including the first LAST) -/
def opRun : Op := fun j => do
  let cfg ← getCfg j
  let s ← getState (← field j "state")
  let acts ← fInts j "actions"
  let rs := run cfg s acts
  let firstLast := (rs.map (fun r => r.2.stepType == Jm.StepType.last)).idxOf true
  pure (jObj [("steps", jList (fun (r : State × Jm.TimeStep Obs) => jObj [("state", jState r.1), ("ts", jTimeStep jObs r.2)]) rs),
              ("first_last", if firstLast < rs.length then jNat (firstLast + 1) else .null),
              ("episode_return", jRat (returnOf (rs.take (firstLast + 1))))])

def ops : List (String × Op) :=
  [("sliding_tile_puzzle.spec", opSpec), ("sliding_tile_puzzle.run", opRun), ("sliding_tile_puzzle.step", opStep), ("sliding_tile_puzzle.state", opState),
   ("sliding_tile_puzzle.judge", opJudge), ("sliding_tile_puzzle.instance", opInstance),
   ("sliding_tile_puzzle.walk", opWalk),
   ("sliding_tile_puzzle.bounds", opBounds)]
end Jb.SlidingTilePuzzle
