/- Driver ops for the registry (C18).  A character is sent as [codepoint, isWord, isDigit, decimalValue]
   with the classes decided by Python's own `re` / `unicodedata`. -/
import JumanjiModel.Bridge.Json
import JumanjiModel.Registry
open Lean Jb

namespace Jb.RegistryOps
open Reg

structure AC where
  code : Nat
  w : Bool
  d : Bool
  val : Nat
  deriving DecidableEq, Repr

def mkAC (c : Char) : AC :=
  { code := c.toNat, w := c.isAlphanum || c == '_', d := c.isDigit, val := if c.isDigit then c.toNat - 48 else 0 }
def cls : Cls AC :=
  { W := (·.w), D := (·.d), val := (·.val), dash := mkAC '-', vee := mkAC 'v', colon := mkAC ':', dot := mkAC '.' }
def dig (k : Nat) : AC := mkAC (Char.ofNat (48 + k))

def getAC (j : Json) : Except String AC := do
  match ← getList pure j with
  | [c, w, d, v] => pure { code := ← getNat c, w := ← getBool w, d := ← getBool d, val := ← getNat v }
  | _ => throw "annotated char must be [code, w, d, val]"

def jCodes (l : List AC) : Json := jNats (l.map (·.code))

def jErr : ParseError → Json
  | .malformed => jStr "malformed" | .versionMissing => jStr "version_missing"

/-- {"chars": [[code,w,d,val]…]} → {"ok": [name codes, version]} | {"error": kind}; plus the id formatted back -/
def opParse : Op := fun j => do
  let s ← getList getAC (← field j "chars")
  match parse cls s with
  | .ok (n, v) => pure (jObj [("ok", .arr #[jCodes n, jNat v]), ("formatted", jCodes (format cls dig n v))])
  | .error e => pure (jObj [("error", jErr e)])

def getKw (j : Json) : Except String (List (String × String)) := do
  (← getList pure j).mapM (fun p => do
    match ← getList getStr p with
    | [k, v] => pure (k, v)
    | _ => throw "kwarg must be [key, value]")

/-- run a sequence of register / make / registered calls on an initially empty registry:
{"calls": [{"f": "register", "chars": …, "ep": str, "kw": [[k,v]…]} | {"f":"make","chars":…,"kw":…} | {"f":"registered"}]}
→ list of results -/
def opRun : Op := fun j => do
  let calls ← getList pure (← field j "calls")
  let mut r : Registry AC String String := []
  let mut out : Array Json := #[]
  for c in calls do
    match ← fStr c "f" with
    | "register" =>
      let s ← getList getAC (← field c "chars")
      match register cls dig r s (← fStr c "ep") (← getKw (← field c "kw")) with
      | .ok r' => r := r'; out := out.push (jStr "ok")
      | .error (.parse e) => out := out.push (jObj [("error", jErr e)])
      | .error (.alreadyRegistered i) => out := out.push (jObj [("error", jStr "already_registered"), ("id", jCodes i)])
      | .error (.unregistered ..) => out := out.push (jObj [("error", jStr "unregistered")])
    | "make" =>
      let s ← getList getAC (← field c "chars")
      match make cls dig r s (← getKw (← field c "kw")) with
      | .ok (ep, kw) =>
        out := out.push (jObj [("ep", jStr ep), ("kw", jList (fun (p : String × String) => Json.arr #[jStr p.1, jStr p.2]) kw)])
      | .error (.parse e) => out := out.push (jObj [("error", jErr e)])
      | .error (.alreadyRegistered _) => out := out.push (jObj [("error", jStr "already_registered")])
      | .error (.unregistered i regs) =>
        out := out.push (jObj [("error", jStr "unregistered"), ("id", jCodes i), ("registered", jList jCodes regs)])
    | "registered" => out := out.push (jList jCodes (registered r))
    | f => throw s!"unknown call {f}"
  pure (.arr out)

def ops : List (String × Op) := [("registry.parse", opParse), ("registry.run", opRun)]
end Jb.RegistryOps
