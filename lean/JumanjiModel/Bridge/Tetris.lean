/- Driver ops for Tetris.  Ops: tetris.state, tetris.step, tetris.judge, tetris.reset, tetris.table, tetris.instance, tetris.episode -/
import JumanjiModel.Bridge.Json
import JumanjiModel.Env.Tetris.Model
import JumanjiModel.Env.Tetris.Bounds
import JumanjiModel.Bridge.PuzzleBounds
open Lean Jb

namespace Jb.Tetris
open _root_.Tetris

def getCfg (j : Json) : Except String Cfg := do
  let c : Cfg := { numRows := ← fNat j "num_rows", numCols := ← fNat j "num_cols", timeLimit := ← fNat j "time_limit" }
  if c.numRows < 4 || c.numCols < 4 then throw "num_rows and num_cols must be >= 4"
  pure c

def getState (cfg : Cfg) (j : Json) : Except String State := do
  let gp ← fNatGrid j "grid_padded"
  let gpo ← fNatGrid j "grid_padded_old"
  let m ← fBoolGrid j "action_mask"
  let fl ← fBools j "full_lines"
  let ot ← fNatGrid j "old_tetromino_rotated"
  let nt ← fNatGrid j "new_tetromino"
  if !(Jx.Grid.shaped gp (cfg.numRows + 3) (cfg.numCols + 3)) then throw "grid_padded has the wrong shape"
  if !(Jx.Grid.shaped gpo (cfg.numRows + 3) (cfg.numCols + 3)) then throw "grid_padded_old has the wrong shape"
  if !(Jx.Grid.shaped m 4 cfg.numCols) then throw "action_mask has the wrong shape"
  if !(Jx.Grid.shaped ot 4 4) || !(Jx.Grid.shaped nt 4 4) then throw "tetromino is not 4 x 4"
  if fl.length != cfg.numRows + 3 then throw "full_lines has the wrong length"
  pure { gridPadded := gp, gridPaddedOld := gpo, tetrominoIndex := ← fNat j "tetromino_index",
         oldTetrominoRotated := ot, newTetromino := nt, xPosition := ← fInt j "x_position",
         yPosition := ← fInt j "y_position", actionMask := m, fullLines := fl,
         score := ← fRat j "score", reward := ← fRat j "reward", isReset := ← fBool j "is_reset",
         stepCount := ← fNat j "step_count" }

def jState (s : State) : Json :=
  jObj [("grid_padded", jNatGrid s.gridPadded), ("grid_padded_old", jNatGrid s.gridPaddedOld),
        ("tetromino_index", jNat s.tetrominoIndex), ("old_tetromino_rotated", jNatGrid s.oldTetrominoRotated),
        ("new_tetromino", jNatGrid s.newTetromino), ("x_position", jInt s.xPosition),
        ("y_position", jInt s.yPosition), ("action_mask", jBoolGrid s.actionMask),
        ("full_lines", jBools s.fullLines), ("score", jRat s.score), ("reward", jRat s.reward),
        ("is_reset", jBool s.isReset), ("step_count", jNat s.stepCount)]

def jObs (o : Obs) : Json :=
  jObj [("grid", jNatGrid o.grid), ("tetromino", jNatGrid o.tetromino),
        ("action_mask", jBoolGrid o.actionMask), ("step_count", jNat o.stepCount)]

def getObs (j : Json) : Except String Obs := do
  pure { grid := ← fNatGrid j "grid", tetromino := ← fNatGrid j "tetromino",
         actionMask := ← fBoolGrid j "action_mask", stepCount := ← fNat j "step_count" }

def getAction (j : Json) : Except String (Int × Int) := do
  match ← fInts j "action" with
  | [r, x] => pure (r, x)
  | _ => throw "action must be [rotation, column]"

/-- {"cfg", "state", "action": [rot, x], "draw": next piece index} → {"state", "ts", "valid"}.
L1 step; `valid` = L2 legality.  For a legal action the L2 rules (`dropSpec`: fall, land, clear) are run
as well and the request is rejected when they disagree with L1 on the visible field or the number of
cleared lines. -/
def opStep : Op := fun j => do
  let cfg ← getCfg (← field j "cfg")
  let s ← getState cfg (← field j "state")
  let (rot, x) ← getAction j
  let d ← fNat j "draw"
  if !decide (validDraw d) then throw s!"draw {d} is not a piece index"
  if s.tetrominoIndex ≥ 7 then throw "tetromino_index out of range"
  let (s', ts) := step cfg s rot x d
  let valid := decide (0 ≤ rot) && decide (0 ≤ x) && decide (legal cfg s rot.toNat x.toNat)
  if valid then
    let (f, k) := dropSpec cfg s.gridPadded s.tetrominoIndex rot.toNat x.toNat
    if f != Tetris.field cfg s'.gridPadded then throw "L2 dropSpec (fall, land, clear) differs from L1 on the visible field"
    if k != Jx.countTrue s'.fullLines then throw "L2 number of cleared lines differs from L1"
    -- `y_position` itself is -1 when a flat I piece falls to the floor (argmin of an all-true list is 0);
    -- `dynamic_update_slice` then wraps and clamps it to the floor row, which is what is compared here
    if dropY cfg s.gridPadded (pieceAt s.tetrominoIndex rot.toNat) x.toNat != dsStart (cfg.numRows + 3) 4 s'.yPosition then
      throw "L2 resting row differs from the row L1 paints the piece at"
  pure (jObj [("state", jState s'), ("ts", jTimeStep jObs ts), ("valid", jBool valid)])

/-- {"cfg", "state"} → mask (L1, recomputed from the grid), legal (L2), obs (L2), consistent -/
def opState : Op := fun j => do
  let cfg ← getCfg (← field j "cfg")
  let s ← getState cfg (← field j "state")
  pure (jObj [("mask", jBools (calcActionMask (clip1 s.gridPadded) (s.tetrominoIndex : Int)).flatten),
              ("legal", jBools (legalMask cfg s).flatten),
              ("obs", jObs (observe cfg s)),
              ("consistent", jBool (decide (Consistent cfg s))),
              ("cells", jNat (cells cfg s.gridPadded))])

/-- {"cfg", "state", "action", "next", "ts"} → {"illegal_ok": bool|null, "conserved": bool} -/
def opJudge : Op := fun j => do
  let cfg ← getCfg (← field j "cfg")
  let s ← getState cfg (← field j "state")
  let (rot, x) ← getAction j
  let s' ← getState cfg (← field j "next")
  let ts ← getTimeStep getObs (← field j "ts")
  let isLegal := decide (0 ≤ rot) && decide (0 ≤ x) && decide (legal cfg s rot.toNat x.toNat)
  let ill : Json := if isLegal then .null else jBool (illegalOk ts)
  let r := match ts.reward with | [r] => r | _ => -1
  pure (jObj [("illegal_ok", ill), ("conserved", jBool (conservedStep cfg s s' r))])

/-- {"cfg", "draw"} → {"state", "ts"} of the L1 reset -/
def opReset : Op := fun j => do
  let cfg ← getCfg (← field j "cfg")
  let d ← fNat j "draw"
  if !decide (validDraw d) then throw s!"draw {d} is not a piece index"
  let (s, ts) := reset cfg d
  pure (jObj [("state", jState s), ("ts", jTimeStep jObs ts), ("consistent", jBool (decide (Consistent cfg s)))])

/-- {"cfg", "state": a reset state} → generator certificates (C10): the advertised invariant `InstanceOK` and the
    transliterated `reset` replayed on the draw read off the state (its piece index) -/
def opInstance : Op := fun j => do
  let cfg ← getCfg (← field j "cfg")
  let s ← getState cfg (← field j "state")
  let d := s.tetrominoIndex
  pure (jObj [("instance_ok", jBool (decide (InstanceOK cfg s))),
              ("empty_grid", jBool (s.gridPadded == Jx.Grid.mk (cfg.numRows + 3) (cfg.numCols + 3) 0)),
              ("piece_is_table_entry", jBool (decide (d < 7) && s.newTetromino == pieceAt d 0)),
              ("mask_is_legality", jBool (s.actionMask == legalMask cfg s)),
              ("mask_nonempty", jBool (s.actionMask.any (fun r => r.any id))),
              ("consistent", jBool (decide (Consistent cfg s))),
              ("draw_valid", jBool (decide (validDraw d))),
              ("reset_matches_model", jBool (decide ((reset cfg d).1 = s)))])

/-- {"cfg", "state": initial state, "actions": [[rot, x, next-piece draw], …] (in-spec)} → the model's whole-episode
    runner `play` (theorems `tetris_episode_return`, `tetris_cells_accounting`): state after the last legal step, return,
    lines cleared by each placed piece, how it ended, and the cell counts -/
def opEpisode : Op := fun j => do
  let cfg ← getCfg (← field j "cfg")
  let s ← getState cfg (← field j "state")
  let acts ← getList (fun a => do
    match ← getList getNat a with
    | [r, x, d] =>
      if r < 4 ∧ x < cfg.numCols ∧ d < 7 then pure (r, x, d) else throw "episode: action or draw out of range"
    | _ => throw "episode: action must be [rotation, column, draw]") (← field j "actions")
  let o := play cfg s acts
  let e := match o.ending with | .running => "running" | .last => "last" | .illegal => "illegal"
  pure (jObj [("final", jState o.final), ("return", jRat o.ret), ("lines", jNats o.lines), ("ending", jStr e),
              ("cells_initial", jNat (cells cfg s.gridPadded)), ("cells_final", jNat (cells cfg o.final.gridPadded)),
              ("line_rewards", jRats (o.lines.map lineReward)),
              ("start_consistent", jBool (decide (Consistent cfg s)))])

/-- {} → the constant tables of the model -/
def opTable : Op := fun _ => do
  pure (jObj [("tetrominoes", jList (jList jNatGrid) tetrominoes), ("reward_list", jRats rewardList)])

/-- C01 bounds op: {"cfg"} → the proved interval of every observation leaf -/
def opBounds : Op := fun j => do
  let cfg ← getCfg (← field j "cfg")
  pure (jBoundsTable (obsBounds cfg))

def ops : List (String × Op) :=
  [("tetris.step", opStep), ("tetris.state", opState), ("tetris.judge", opJudge),
   ("tetris.reset", opReset), ("tetris.table", opTable),
   ("tetris.bounds", opBounds), ("tetris.instance", opInstance), ("tetris.episode", opEpisode)]
end Jb.Tetris
