/- Driver ops for Snake.  Ops: snake.state, snake.step, snake.judge, snake.instance, snake.bounds, snake.spec -/
import JumanjiModel.Bridge.Json
import JumanjiModel.Env.Snake.Model
import JumanjiModel.Env.Snake.Bounds
import JumanjiModel.Prim.Float
import JumanjiModel.Bridge.Spec
import JumanjiModel.Env.Snake.SpecValid
open Lean Jb

namespace Jb.Snake
open _root_.Snake

/-- positions travel as {"row": r, "col": c} (a two-element list of integers would be ambiguous with the
    [num, den] encoding of rationals in the harness' comparison) -/
def getPos (j : Json) (k : String) : Except String Pos := do
  let p ← field j k
  pure ⟨← fInt p "row", ← fInt p "col"⟩

def getCfg (j : Json) : Except String (Cfg × (Rat → Rat)) := do
  let cfg ← field j "cfg"
  let f32 ← fBool cfg "f32"
  pure ({ rows := ← fNat cfg "rows", cols := ← fNat cfg "cols", timeLimit := ← fInt cfg "time_limit" },
        if f32 then Jx.roundF32 else id)

def getState (cfg : Cfg) (j : Json) : Except String State := do
  let s : State :=
    { body := ← fBoolGrid j "body", bodyState := ← fIntGrid j "body_state",
      head := ← getPos j "head_position", tail := ← fBoolGrid j "tail",
      fruit := ← getPos j "fruit_position", length := ← fInt j "length",
      stepCount := ← fInt j "step_count", actionMask := ← fBools j "action_mask" }
  if !(Jx.Grid.shaped s.body cfg.rows cfg.cols && Jx.Grid.shaped s.bodyState cfg.rows cfg.cols &&
       Jx.Grid.shaped s.tail cfg.rows cfg.cols) then throw "snake: grid shape differs from cfg rows x cols"
  if s.actionMask.length != 4 then throw "snake: action_mask must have 4 entries"
  pure s

def jPos (p : Pos) : Json := jObj [("row", jInt p.row), ("col", jInt p.col)]

def jState (s : State) : Json :=
  jObj [("body", jBoolGrid s.body), ("body_state", jIntGrid s.bodyState), ("head_position", jPos s.head),
        ("tail", jBoolGrid s.tail), ("fruit_position", jPos s.fruit), ("length", jInt s.length),
        ("step_count", jInt s.stepCount), ("action_mask", jBools s.actionMask)]

def jRatGrid (g : List (List Rat)) : Json := jList jRats g

/-- `withHead = false` omits the head plane (documented function undefined for a head outside the grid) -/
def jObs (o : Obs) (withHead : Bool := true) : Json :=
  jObj ([("body", jRatGrid o.body)] ++ (if withHead then [("head", jRatGrid o.head)] else []) ++
        [("tail", jRatGrid o.tail), ("fruit", jRatGrid o.fruit), ("norm", jRatGrid o.norm),
         ("step_count", jInt o.stepCount), ("action_mask", jBools o.actionMask)])

def jNValue (v : Sp.NValue) : Json := jList (fun (e : String × Sp.Arr) => jObj [("key", jStr e.1), ("value", SpecOps.jArr e.2)]) v

/-- the flat fruit index read off a state (the draw of `_sample_fruit_coord`) -/
def fruitDraw (cfg : Cfg) (s : State) : Nat := s.fruit.row.toNat * cfg.cols + s.fruit.col.toNat

def getObs (j : Json) : Except String Obs := do
  pure { body := ← fRatGrid j "body", head := ← fRatGrid j "head", tail := ← fRatGrid j "tail",
         fruit := ← fRatGrid j "fruit", norm := ← fRatGrid j "norm", stepCount := ← fInt j "step_count",
         actionMask := ← fBools j "action_mask" }

/-- {cfg, state} → mask (L1 `_get_action_mask` recomputed from head and body_state), legal (L2), obs (L2),
    consistent, objective -/
def opState : Op := fun j => do
  let (cfg, rnd) ← getCfg j
  let s ← getState cfg (← field j "state")
  -- the documented head plane is all-zero for a head outside the board (terminal state after an invalid
  -- move); the implementation's scatter wraps a negative index (Up/Left off the board puts the 1 at the
  -- opposite border).  By default that plane is not compared on such states; cfg "strict_head": true compares it.
  let strict := (← fOpt (← field j "cfg") "strict_head" getBool).getD false
  let headIn := strict || decide (inGrid cfg s.head.row s.head.col)
  pure (jObj [("mask", jBools (getActionMask cfg s.head s.bodyState)),
              ("legal", jBools (legalMask cfg s)),
              ("obs", jObs (observe rnd cfg s) headIn),
              ("consistent", jBool (consistentB cfg s)),
              ("objective", jInt (objective s)),
              -- wave 4 (C01 membership): the timestep the model's `reset` builds from the draws read off this state (head cell,
              -- fruit cell), the L1 observation of the state (`_state_to_observation`: cached planes and mask, scatters wrap)
              -- as spec-level arrays (the five planes stacked on the last axis), `(obsSpec cfg).valid` of it, the invariant
              ("reset_ts", jTimeStep (fun o => jObs o) (reset rnd cfg s.head.row.toNat s.head.col.toNat (fruitDraw cfg s)).2),
              ("nvalue", jNValue (toNValue (stateToObs rnd s))),
              ("obs_in_spec", jBool ((obsSpec cfg).valid (toNValue (stateToObs rnd s)))),
              ("spec_inv", jBool (decide (SpecInv cfg s)))])

/-- {cfg, state, action, draw} → L1 step; valid = L2 legality; spec = L2 successor (null if illegal /
    inconsistent); draw_valid = the fruit draw is admissible (null when no fruit is eaten) -/
def opStep : Op := fun j => do
  let (cfg, rnd) ← getCfg j
  let s ← getState cfg (← field j "state")
  let a ← fNat j "action"
  let d ← fNat j "draw"
  let (s', ts) := step rnd cfg s a d
  let spec : Json := match stepSpec cfg s a d with
    | some t => jState t
    | none => .null
  let dv : Json := if s'.length == s.length then .null else jBool (decide (validDraw cfg s'.body d))
  pure (jObj [("state", jState s'), ("ts", jTimeStep (fun o => jObs o) ts),
              ("valid", jBool (decide (legal cfg s a))), ("spec", spec), ("draw_valid", dv)])

/-- predicates on an implementation transition: illegal_ok (null when legal): LAST with reward 0;
    conserved: the successor's chain is the grown chain -/
def opJudge : Op := fun j => do
  let (cfg, _) ← getCfg j
  let s ← getState cfg (← field j "state")
  let a ← fNat j "action"
  let s' ← getState cfg (← field j "next")
  let ts ← getTimeStep (fun _ => pure ()) (← field j "ts")
  let ill : Json := if decide (legal cfg s a) then .null else
    jBool (ts.stepType == .last && ts.reward == [0] && ts.discount == [0])
  pure (jObj [("illegal_ok", ill), ("conserved", jBool (growsFrom cfg s s'))])

/-- certificates of a reset state (C10): consistent (head and fruit on distinct free cells of the grid,
    masks and planes agree), length 1, step count 0 -/
def opInstance : Op := fun j => do
  let (cfg, rnd) ← getCfg j
  let s ← getState cfg (← field j "state")
  -- the L1 `reset` replayed with the draws read off the state (head cell, fruit cell)
  let d := s.fruit.row.toNat * cfg.cols + s.fruit.col.toNat
  let r := (reset rnd cfg s.head.row.toNat s.head.col.toNat d).1
  pure (jObj [("consistent", jBool (consistentB cfg s)),
              ("reset_matches_model", jBool (decide (r = s))),
              ("draws_valid", jBool (decide (inGrid cfg s.head.row s.head.col) && decide (validDraw cfg s.body d))),
              ("length_one", jBool (s.length == 1 && s.stepCount == 0)),
              ("fruit_not_head", jBool (decide (s.fruit ≠ s.head) && decide (inGrid cfg s.fruit.row s.fruit.col)
                                        && decide (inGrid cfg s.head.row s.head.col))),
              -- wave 4: the invariant of the C01 membership theorems and membership of the reset observation
              ("spec_inv", jBool (decide (SpecInv cfg s))),
              ("reset_obs_in_spec", jBool ((obsSpec cfg).valid
                 (toNValue (reset rnd cfg s.head.row.toNat s.head.col.toNat d).2.obs)))])

/-- {cfg} → {leaf path: {"lo": rat|null, "hi": rat|null}}: the proved value bounds `obsBounds cfg` (C01) -/
def opBounds : Op := fun j => do
  let (cfg, _) ← getCfg j
  let jo : Option Rat → Json := fun o => match o with | none => .null | some r => jRat r
  pure (jObj ((obsBounds cfg).map (fun (k, lo, hi) => (k, jObj [("lo", jo lo), ("hi", jo hi)]))))

/-- {cfg} → the model's `obsSpec cfg`, `actionSpec`, reward and discount spec in the `speclib.leaf_json` layout, and
    `generate_value()` of the action spec -/
def opSpec : Op := fun j => do
  let (cfg, _) ← getCfg j
  pure (jObj [("observation_spec", SpecOps.jNested (obsSpec cfg)), ("action_spec", SpecOps.jLeaf actionSpec),
              ("reward_spec", SpecOps.jLeaf PzS.rewardSpec), ("discount_spec", SpecOps.jLeaf PzS.discountSpec),
              ("action_spec_wf", jBool actionSpec.WF), ("generate_value", SpecOps.jArr actionSpec.generate)])

def ops : List (String × Op) :=
  [("snake.spec", opSpec), ("snake.bounds", opBounds), ("snake.state", opState), ("snake.step", opStep), ("snake.judge", opJudge), ("snake.instance", opInstance)]
end Jb.Snake
