/- Driver ops for Knapsack.  Ops: knapsack.step, knapsack.state, knapsack.judge, knapsack.bounds, knapsack.instance -/
import JumanjiModel.Bridge.Json
import JumanjiModel.Env.Knapsack.Model
import JumanjiModel.Env.Knapsack.Bounds
import JumanjiModel.Env.Knapsack.Spec
import JumanjiModel.Prim.Float
open Lean Jb

namespace Jb.Knapsack
open _root_.Knapsack

def getState (j : Json) : Except String State := do
  pure { weights := ← fRats j "weights", values := ← fRats j "values",
         packed := ← fBools j "packed_items", remaining := ← fRat j "remaining_budget" }

def jState (s : State) : Json :=
  jObj [("weights", jRats s.weights), ("values", jRats s.values),
        ("packed_items", jBools s.packed), ("remaining_budget", jRat s.remaining)]

def jObs (o : Obs) : Json :=
  jObj [("weights", jRats o.weights), ("values", jRats o.values),
        ("packed_items", jBools o.packed), ("action_mask", jBools o.mask)]

/-- {"cfg": {"dense": bool, "f32": bool}, "state": {...}, "action": int}
    → {"state": ..., "ts": ..., "valid": bool} -/
def opStep : Op := fun j => do
  let cfg ← field j "cfg"
  let dense ← fBool cfg "dense"
  let f32 ← fBool cfg "f32"
  let s ← getState (← field j "state")
  let a ← fInt j "action"
  let rnd : Rat → Rat := if f32 then Jx.roundF32 else id
  let (s', ts) := step rnd dense s a
  -- the rules (L2 `stepL2`) run next to the transliteration; `Props.C09.knapsack_step_eq_spec` says they agree
  -- on every well-shaped state and in-range action, so a difference here is reported, never hidden
  if decide (WellShaped s) && decide (0 ≤ a) && decide (a.toNat < s.weights.length) then
    let (m, mts) := stepL2 rnd dense s a.toNat
    unless decide (m = s') && mts.stepType == ts.stepType && mts.reward == ts.reward &&
        mts.discount == ts.discount && decide (mts.obs = ts.obs) do
      throw "knapsack.step: L1 step and L2 stepL2 differ (theorem knapsack_step_eq_spec would be false here)"
  pure (jObj [("state", jState s'), ("ts", jTimeStep jObs ts), ("valid", jBool (isValid s a))])

/-- {"cfg": {"budget": rat, "tol": rat}, "state": {...}} →
    {"mask": L1 mask, "legal": L2 legality per action, "obs": observe, "feasible": bool,
     "objective": packed value} -/
def opState : Op := fun j => do
  let cfg ← field j "cfg"
  let b ← fRat cfg "budget"
  let tol ← fRat cfg "tol"
  let s ← getState (← field j "state")
  let n := s.weights.length
  pure (jObj [("mask", jBools (maskOf s)),
              ("legal", jBools ((List.range n).map (fun a => decide (legal s a)))),
              ("obs", jObs (observe s)),
              ("feasible", jBool (feasibleApprox b tol s)),
              ("solution", jBool (solutionApprox b tol s)),
              ("objective", jRat (packedValue s))])

def getObs (j : Json) : Except String Obs := do
  pure { weights := ← fRats j "weights", values := ← fRats j "values",
         packed := ← fBools j "packed_items", mask := ← fBools j "action_mask" }

/-- Lean-defined predicates on an implementation transition {cfg, state, action, next, ts}:
    illegal_ok (null when the action is legal): LAST, reward 0, state untouched -/
def opJudge : Op := fun j => do
  let s ← getState (← field j "state")
  let a ← fNat j "action"
  let s' ← getState (← field j "next")
  let ts ← getTimeStep getObs (← field j "ts")
  let ill : Json := if decide (legal s a) then .null else
    jBool (decide (s' = s) && ts.stepType == .last && ts.reward == [0])
  pure (jObj [("illegal_ok", ill)])

def jBounds (t : Jm.OB.Table) : Json :=
  jObj (t.map fun e => (e.1, jObj [("lo", match e.2.1 with | some r => jRat r | none => Json.null),
                                   ("hi", match e.2.2 with | some r => jRat r | none => Json.null)]))

/-- {"cfg": {...}} → {leaf path: {"lo": rat|null, "hi": rat|null}}: the proved observation bounds (C01) -/
def opBounds : Op := fun _ => pure (jBounds obsBounds)

/-- {"cfg": {"num_items": n, "budget": rat, "f32": bool}, "state": reset state} → the generator certificate of
`Props.C10` (`instanceOK`), conjunct by conjunct.  The implementation stores `total_budget` as float32. -/
def opInstance : Op := fun j => do
  let cfg ← field j "cfg"
  let n ← fNat cfg "num_items"
  let b ← fRat cfg "budget"
  let f32 ← fBool cfg "f32"
  let b' := if f32 then Jx.roundF32 b else b
  let s ← getState (← field j "state")
  pure (jObj [("num_items_ok", jBool (decide (s.weights.length = n) && decide (s.values.length = n) &&
                                      decide (s.packed.length = n))),
              ("weights_in_unit", jBool (inUnit s.weights)),
              ("values_in_unit", jBool (inUnit s.values)),
              ("nothing_packed", jBool (decide (s.packed = List.replicate n false))),
              ("budget_is_total", jBool (decide (s.remaining = b'))),
              ("instance_ok", jBool (instanceOK n b' s)),
              -- wave 3 (C01): the invariant behind `knapsack_step_obs_valid`, and membership of the reset observation in the
              -- symbolic `obsSpec n` (shapes as functions of the configuration), on the implementation's reset state
              ("spec_inv", jBool (decide (SpecInv n s))),
              ("reset_obs_in_spec", jBool ((obsSpec n).valid (toNValue (observe s))))])

def ops : List (String × Op) :=
  [("knapsack.step", opStep), ("knapsack.state", opState), ("knapsack.judge", opJudge),
   ("knapsack.bounds", opBounds), ("knapsack.instance", opInstance)]
end Jb.Knapsack
