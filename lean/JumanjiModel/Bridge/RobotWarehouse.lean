/- Driver ops for RobotWarehouse: robot_warehouse.{state,step,judge,instance,bounds,spec} -/
import JumanjiModel.Bridge.Json
import JumanjiModel.Env.RobotWarehouse.Model
import JumanjiModel.Env.RobotWarehouse.Bounds
import JumanjiModel.Env.RobotWarehouse.SpecValid
import JumanjiModel.Bridge.Spec
open Lean Jb

namespace Jb.RobotWarehouse
open _root_.RobotWarehouse

def getCarry (j : Json) : Except String Bool := do
  let i ← getInt j
  if i = 0 then pure false else if i = 1 then pure true else throw s!"is_carrying must be 0 or 1, got {i}"

def zipAgents : List Int → List Int → List Int → List Bool → Except String (List Agent)
  | [], [], [], [] => pure []
  | x :: xs, y :: ys, d :: ds, c :: cs => do pure (⟨x, y, d, c⟩ :: (← zipAgents xs ys ds cs))
  | _, _, _, _ => throw "agents: leaves of different lengths"

def zipShelves : List Int → List Int → List Int → Except String (List Shelf)
  | [], [], [] => pure []
  | x :: xs, y :: ys, r :: rs => do pure (⟨x, y, r⟩ :: (← zipShelves xs ys rs))
  | _, _, _ => throw "shelves: leaves of different lengths"

def getState (j : Json) : Except String State := do
  let g ← getList (getList (getList getInt)) (← field j "grid")
  let (sg, agr) ← match g with
    | [a, b] => pure (a, b)
    | _ => throw "grid must have two channels"
  let ja ← field j "agents"
  let agents ← zipAgents (← fInts ja "x") (← fInts ja "y") (← fInts ja "direction")
    (← getList getCarry (← field ja "is_carrying"))
  let js ← field j "shelves"
  let shelves ← zipShelves (← fInts js "x") (← fInts js "y") (← fInts js "is_requested")
  pure { shelfGrid := sg, agentGrid := agr, agents := agents, shelves := shelves,
         queue := ← fInts j "request_queue", stepCount := ← fInt j "step_count",
         mask := ← fBoolGrid j "action_mask" }

def jState (s : State) : Json :=
  jObj [("grid", jList jIntGrid [s.shelfGrid, s.agentGrid]),
        ("agents", jObj [("x", jInts (s.agents.map (·.x))), ("y", jInts (s.agents.map (·.y))),
                         ("direction", jInts (s.agents.map (·.dir))),
                         ("is_carrying", jInts (s.agents.map (fun a => if a.carrying then 1 else 0)))]),
        ("shelves", jObj [("x", jInts (s.shelves.map (·.x))), ("y", jInts (s.shelves.map (·.y))),
                          ("is_requested", jInts (s.shelves.map (·.requested)))]),
        ("request_queue", jInts s.queue), ("step_count", jInt s.stepCount),
        ("action_mask", jBoolGrid s.mask)]

def getPair (j : Json) : Except String (Int × Int) := do
  match ← getList getInt j with
  | [a, b] => pure (a, b)
  | _ => throw "pair expected"

def getCfg (j : Json) : Except String Cfg := do
  pure { timeLimit := ← fInt j "time_limit", sensorRange := ← fNat j "sensor_range",
         highways := ← fBoolGrid j "highways", goals := ← getList getPair (← field j "goals") }

def jObs (o : Obs) : Json :=
  jObj [("agents_view", jIntGrid o.view), ("action_mask", jBoolGrid o.mask), ("step_count", jInt o.stepCount)]

def getObs (j : Json) : Except String Obs := do
  pure { view := ← fIntGrid j "agents_view", mask := ← fBoolGrid j "action_mask",
         stepCount := ← fInt j "step_count" }

def jNValue (v : Sp.NValue) : Json := jList (fun (e : String × Sp.Arr) => jObj [("key", jStr e.1), ("value", SpecOps.jArr e.2)]) v

/-- shape requirements without which the model would silently default -/
def checkShape (cfg : Cfg) (s : State) : Except String Unit := do
  let rows := gRows s.shelfGrid
  let cols := gCols s.shelfGrid
  if !(Jx.Grid.shaped s.shelfGrid rows cols && Jx.Grid.shaped s.agentGrid rows cols
       && Jx.Grid.shaped cfg.highways rows cols) || rows = 0 || cols = 0 then
    throw "grid channels / highways of different or empty shapes"
  if s.mask.length ≠ s.agents.length || !(s.mask.all (fun r => r.length == 5)) then
    throw "action_mask must be (num_agents, 5)"

def opState : Op := fun j => do
  let cfg ← getCfg (← field j "cfg")
  let s ← getState (← field j "state")
  checkShape cfg s
  let cons := decide (Consistent cfg s)
  -- wave 4 (C01), when the configuration carries the generator's `num_agents`: the timestep the model's `reset` builds on top of
  -- this state, the model observation as spec-level arrays (`toNValue`), its membership in the model's `obsSpec cfg A`, and the
  -- invariant of `robot_warehouse_step_obs_valid`
  let w4 ← match ← fOpt (← field j "cfg") "num_agents" getNat with
    | none => pure []
    | some A => pure [("reset_ts", jTimeStep jObs (resetTs cfg s)),
                      ("nvalue", jNValue (toNValue (resetObs cfg s))),
                      ("obs_in_spec", jBool ((obsSpec cfg A).valid (toNValue (resetObs cfg s)))),
                      ("spec_inv", jBool (decide (SpecInv A s)))]
  pure (jObj ([("mask", jBools (computeMask s.shelfGrid s.agents).flatten),
              ("cached_mask", jBools s.mask.flatten),
              ("legal", jBools (legalMask s).flatten),
              ("obs", jObs (observe cfg s)),
              ("obs_l1", jObs (resetObs cfg s)),
              ("consistent", jBool cons),
              ("sig", jObj [("obs", jObj [("state", jStr (if cons then "consistent"
                  else if (collisions s.world).any id then "collision" else "inconsistent"))]),
                            ("consistent", jObj [])])] ++ w4))

def opStep : Op := fun j => do
  let cfg ← getCfg (← field j "cfg")
  let s ← getState (← field j "state")
  checkShape cfg s
  let a ← fInts j "action"
  if a.length ≠ s.agents.length then throw "action must have one entry per agent"
  let d ← match ← fOpt j "draw" (getList getInt) with
    | some d => pure d
    | none => pure []
  -- the draw must lie in the support (whenever a goal fires)
  let acts := validActions s.mask a
  let w := scanAgents cfg.highways s.world acts 0
  if !(validDraws w.shelfGrid ⟨s.queue, w.shelves, 0⟩ cfg.goals d) then
    throw s!"draw {d} outside the support: a delivered shelf must be replaced by a shelf id not in the request queue"
  let (s', ts) := step cfg s a d
  let valid := (List.range s.agents.length).map (fun (i : Nat) =>
    decide (legal s i (a.getD i 0).toNat) && decide (0 ≤ a.getD i 0))
  pure (jObj [("state", jState s'), ("ts", jTimeStep jObs ts), ("valid", jBools valid)])

/-- Lean-defined predicates on an implementation transition -/
def opJudge : Op := fun j => do
  let cfg ← getCfg (← field j "cfg")
  let s ← getState (← field j "state")
  checkShape cfg s
  let a ← fInts j "action"
  let s' ← getState (← field j "next")
  let illegalAgents := (List.range s.agents.length).filter (fun (i : Nat) =>
    !(decide (legal s i (a.getD i 0).toNat)))
  let fr := illegalAgents.all (fun i => frozen s s' i)
  let hk := illegalAgents.all (fun i => holdingsKept s s' i)
  let ill : Json := if illegalAgents.isEmpty then .null else jBool (fr && hk)
  let why := if fr && !hk then "holdings_dropped_only" else if !fr then "moved" else "ok"
  pure (jObj [("illegal_ok", ill),
              ("illegal_frozen", if illegalAgents.isEmpty then .null else jBool fr),
              ("holdings_kept", if illegalAgents.isEmpty then .null else jBool hk),
              ("conserved", jBool (decide (Conserved s s'))),
              ("sig", jObj [("illegal_ok", jObj [("why", jStr why)]), ("conserved", jObj [])])])

/-- C10 certificates on a reset state; cfg additionally has num_agents, request_queue_size, shelf_rows,
shelf_columns, column_height (the generator's arguments) -/
def opInstance : Op := fun j => do
  let cfg ← getCfg (← field j "cfg")
  let s ← getState (← field j "state")
  checkShape cfg s
  let rows := gRows s.shelfGrid
  let cols := gCols s.shelfGrid
  let c ← field j "cfg"
  let na ← fNat c "num_agents"
  let q ← fNat c "request_queue_size"
  let l : Layout := ⟨← fNat c "shelf_rows", ← fNat c "shelf_columns", ← fNat c "column_height"⟩
  let d : SpawnDraw := ⟨s.agents.map (fun ag => ag.x * (cols : Int) + ag.y), s.agents.map (·.dir), s.queue⟩
  pure (jObj [("spawn_ok", jBool (decide (SpawnOK cfg s))),
              ("agents_distinct_inside", jBool (distinctPos (fun a : Agent => (a.x, a.y)) s.agents &&
                  s.agents.all (fun ag => decide (inGrid rows cols ag.x ag.y)))),
              ("shelves_on_shelf_cells", jBool (s.shelves.all (fun sh =>
                  decide (inGrid rows cols sh.x sh.y) && !(Jx.Grid.getWC cfg.highways true sh.x sh.y)))),
              ("queue_distinct_requested", jBool (decide s.queue.Nodup &&
                  (List.range s.shelves.length).all (fun (k : Nat) =>
                    decide ((s.shelves.getD k default).requested = 1) == s.queue.contains (k : Int)))),
              ("reset_obs_ok", jBool (decide (resetObs cfg s = observe cfg s))),
              -- the generator transliteration: the sampled values read off the reset state must lie in the
              -- support of `spawn_random_entities` (agent cells pairwise different: sampling without replacement),
              -- `generate cfg draw` must rebuild the implementation's state exactly, and the floor layout must be
              -- the one `_make_warehouse` computes from the generator's arguments
              ("draw_in_support", jBool (validSpawn na q cfg.highways d)),
              ("generator_matches", jBool (decide (generate cfg d = s))),
              ("layout_matches", jBool (decide (cfg.highways = l.highways) && decide (cfg.goals = l.goals) &&
                  decide (rows = l.rows) && decide (cols = l.cols))),
              -- wave 4 (C01): the invariant behind `robot_warehouse_step_obs_valid` and membership of the reset observation in the
              -- symbolic `obsSpec cfg num_agents`, on the implementation's reset state
              ("spec_inv", jBool (decide (SpecInv na s))),
              ("reset_obs_in_spec", jBool ((obsSpec cfg na).valid (toNValue (resetTs cfg s).obs)))])

/-- {cfg (with num_agents)} → the model's `obsSpec cfg A`, `actionSpec A`, reward and discount spec in the `speclib.leaf_json`
layout -/
def opSpec : Op := fun j => do
  let c ← field j "cfg"
  let cfg ← getCfg c
  let A ← fNat c "num_agents"
  pure (jObj [("observation_spec", SpecOps.jNested (obsSpec cfg A)), ("action_spec", SpecOps.jLeaf (actionSpec A)),
              ("reward_spec", SpecOps.jLeaf PzS.rewardSpec), ("discount_spec", SpecOps.jLeaf PzS.discountSpec),
              ("action_spec_wf", jBool (actionSpec A).WF), ("generate_value", SpecOps.jArr (actionSpec A).generate)])

/-- C01: {cfg} → {leaf path: {"lo": rat|null, "hi": rat|null}} = `obsBounds cfg` (the intervals of
`Props.C01.robot_warehouse_step_obs_in_bounds`) -/
def jBounds (bs : List (String × Option Rat × Option Rat)) : Json :=
  jObj (bs.map (fun b => (b.1, jObj [("lo", match b.2.1 with | some r => jRat r | none => .null),
                                      ("hi", match b.2.2 with | some r => jRat r | none => .null)])))

def opBounds : Op := fun j => do
  let cfg ← getCfg (← field j "cfg")
  pure (jBounds (obsBounds cfg))

def ops : List (String × Op) :=
  [("robot_warehouse.state", opState), ("robot_warehouse.step", opStep),
   ("robot_warehouse.judge", opJudge), ("robot_warehouse.instance", opInstance),
   ("robot_warehouse.bounds", opBounds), ("robot_warehouse.spec", opSpec)]
end Jb.RobotWarehouse
