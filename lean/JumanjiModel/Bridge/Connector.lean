/- Driver ops for Connector.  Ops: connector.state, connector.step, connector.judge, connector.instance, connector.bounds,
connector.solve, connector.spec -/
import JumanjiModel.Bridge.Json
import JumanjiModel.Env.Connector.Model
import JumanjiModel.Env.Connector.Bounds
import JumanjiModel.Env.Connector.EpisodeLemmas
import JumanjiModel.Env.Connector.SpecValid
import JumanjiModel.Bridge.Spec
open Lean Jb

namespace Jb.Connector
open _root_.Connector Jx

def getPos (j : Json) : Except String Pos := do pure (← fInt j "r", ← fInt j "c")
def jPos (p : Pos) : Json := jObj [("r", jInt p.1), ("c", jInt p.2)]

def getAgent (j : Json) : Except String Agent := do
  pure { id := ← fInt j "id", start := ← getPos (← field j "start"), target := ← getPos (← field j "target"),
         position := ← getPos (← field j "position") }

def jAgent (a : Agent) : Json :=
  jObj [("id", jInt a.id), ("start", jPos a.start), ("target", jPos a.target), ("position", jPos a.position)]

def getCfg (j : Json) : Except String Cfg := do
  pure { n := ← fNat j "grid_size", k := ← fNat j "num_agents", timeLimit := ← fInt j "time_limit",
         connectedReward := ← fRat j "connected_reward", timestepReward := ← fRat j "timestep_reward" }

/-- the state must have the static shape of the configuration (anything else would not trace) -/
def getState (cfg : Cfg) (j : Json) : Except String State := do
  let g ← fIntGrid j "grid"
  let ags ← getList getAgent (← field j "agents")
  if ags.length ≠ cfg.k then throw s!"expected {cfg.k} agents, got {ags.length}"
  if cfg.k = 0 then throw "num_agents = 0"
  if !(Grid.shaped g cfg.n cfg.n) then throw s!"grid is not {cfg.n} x {cfg.n}"
  pure { grid := g, stepCount := ← fInt j "step_count", agents := ags }

def jState (s : State) : Json :=
  jObj [("grid", jIntGrid s.grid), ("step_count", jInt s.stepCount), ("agents", jList jAgent s.agents)]

def jObs (o : Obs) : Json :=
  jObj [("grid", jIntGrid o.grid), ("action_mask", jBoolGrid o.actionMask), ("step_count", jInt o.stepCount)]

def getObs (j : Json) : Except String Obs := do
  pure { grid := ← fIntGrid j "grid", actionMask := ← fBoolGrid j "action_mask", stepCount := ← fInt j "step_count" }

def jNValue (v : Sp.NValue) : Json := jList (fun (e : String × Sp.Arr) => jObj [("key", jStr e.1), ("value", SpecOps.jArr e.2)]) v

def getActs (cfg : Cfg) (j : Json) : Except String (List Int) := do
  let a ← fInts j "action"
  if a.length ≠ cfg.k then throw s!"expected {cfg.k} actions, got {a.length}"
  pure a

/-- {cfg, state, action} → {"state", "ts" (L1), "valid": per agent, is the action legal by the rules (L2),
    "l2": {"state", "ts"} the rule-level step, "l2_agrees": L1 = L2 on this input} -/
def opStep : Op := fun j => do
  let cfg ← getCfg (← field j "cfg")
  let s ← getState cfg (← field j "state")
  let acts ← getActs cfg j
  let (s', ts) := step cfg s acts
  let (r', rts) := stepL2 cfg s acts
  let agrees := decide (s' = r') && ts.stepType == rts.stepType && ts.reward == rts.reward &&
    ts.discount == rts.discount && decide (ts.obs = rts.obs)
  pure (jObj [("state", jState s'), ("ts", jTimeStep jObs ts),
              ("valid", jBools ((List.zipIdx acts).map (fun x => legalInt cfg.n s x.2 x.1))),
              ("l2", jObj [("state", jState r'), ("ts", jTimeStep jObs rts)]),
              ("l2_agrees", jBool agrees)])

/-- {cfg, state[, initial, actions]} → mask (L1), legal (L2), obs (L2 observe), feasible, solution,
    consistent, objective (when `initial` and `actions` are given: the documented return of the episode
    replayed by the rules; `replay_ok` = the replay ends in `state`) -/
def opState : Op := fun j => do
  let cfg ← getCfg (← field j "cfg")
  let s ← getState cfg (← field j "state")
  let base := [("mask", jBools (actionMask s.grid s.agents).flatten),
               ("legal", jBools (observe cfg.n s).actionMask.flatten),
               ("obs", jObs (observe cfg.n s)),
               ("feasible", jBool (feasibleB cfg.n cfg.k s)),
               ("solution", jBool (solutionB cfg.n cfg.k s)),
               ("consistent", jBool (consistentB cfg.n cfg.k s)),
               -- wave 4 (C01): the timestep the model's `reset` builds on top of this state, the model observation as spec-level
               -- arrays (`toNValue`), its membership in the model's `obsSpec cfg`, and the invariant of `connector_step_obs_valid`
               ("reset_ts", jTimeStep jObs (resetTs cfg s)),
               ("nvalue", jNValue (toNValue (observeL1 s))),
               ("obs_in_spec", jBool ((obsSpec cfg).valid (toNValue (observeL1 s)))),
               ("spec_inv", jBool (decide (SpecInv cfg s)))]
  match ← fOpt j "initial" pure with
  | none => pure (jObj base)
  | some ij =>
    let s0 ← getState cfg ij
    let acts ← getList (getList getInt) (← field j "actions")
    if acts.any (fun a => a.length ≠ cfg.k) then throw "bad action length"
    let tr := traceL2 cfg s0 acts
    let ok := match tr.getLast? with | some sT => decide (sT = s) | none => false
    if !ok then throw "objective: the episode replayed by the rules does not end in the given final state"
    pure (jObj (base ++ [("objective", jRats (objective cfg s0 acts))]))

/-- Lean-defined predicates on an implementation transition -/
def opJudge : Op := fun j => do
  let cfg ← getCfg (← field j "cfg")
  let s ← getState cfg (← field j "state")
  let acts ← getActs cfg j
  let s' ← getState cfg (← field j "next")
  let allLegal := (List.zipIdx acts).all (fun x => legalInt cfg.n s x.2 x.1)
  let ill : Json := if allLegal then .null else jBool (illegalOk cfg s acts s')
  pure (jObj [("illegal_ok", ill), ("conserved", jBool (conservedB s s'))])

/-- C10 certificates of a reset state ("solved": the board recorded by RandomWalkGenerator, optional).
When `cfg.generator = "uniform"`: the draw of `UniformRandomGenerator` is read off the state
(`uniformDrawOf`), must be a possible result of `choice(replace=False)` (`uniform_draw_valid`) and the
transliterated generator applied to it must reproduce the state (`uniform_transliteration`).
When the state carries `walk` = {"init": [[start cell, first cell] per agent], "tape": [[cell per agent] per
iteration], "solved": the solved grid returned by `generate_board`} (the draws of `RandomWalkGenerator` replayed by
the adapter with the generator's own functions on the same key): the draws must be possible results of
`jax.random.choice` and end exactly when the loop stops (`walk_draw_valid`) and the transliterated
`generate_board` applied to them must reproduce both the solved grid and the state (`walk_transliteration`). -/
def opInstance : Op := fun j => do
  let cj ← field j "cfg"
  let cfg ← getCfg cj
  let sj ← field j "state"
  let s ← getState cfg sj
  let base := [("fresh_distinct_cells", jBool (freshB cfg.n cfg.k s)),
               ("feasible", jBool (feasibleB cfg.n cfg.k s)),
               -- wave 4 (C01): the invariant behind `connector_step_obs_valid` and membership of the reset observation in the
               -- symbolic `obsSpec cfg`, on the implementation's reset state
               ("spec_inv", jBool (decide (SpecInv cfg s))),
               ("reset_obs_in_spec", jBool ((obsSpec cfg).valid (toNValue (resetTs cfg s).obs)))]
  let base := match ← fOpt cj "generator" getStr with
    | some "uniform" =>
      let cells := uniformDrawOf cfg.n s
      base ++ [("uniform_draw_valid", jBool (validUniformDraw cfg.n cfg.k cells)),
               ("uniform_transliteration", jBool (decide (uniformGenerate cfg.n cfg.k cells = s)))]
    | _ => base
  let base ← match ← fOpt sj "walk" pure with
    | none => pure base
    | some wj =>
      let init ← getList (fun x => do
        let l ← getList getInt x
        match l with
        | [a, b] => pure (a, b)
        | _ => throw "walk.init: expected pairs") (← field wj "init")
      let tape ← getList (getList getInt) (← field wj "tape")
      let solved ← getList (getList getInt) (← field wj "solved")
      let r := walkGenerate cfg.n cfg.k init tape
      pure (base ++ [("walk_draw_valid", jBool (validWalkDraw cfg.n cfg.k init tape)),
                     ("walk_transliteration", jBool (decide (r.1 = solved) && decide (r.2 = s)))])
  match ← fOpt sj "solved" (getList (getList getInt)) with
  | none => pure (jObj base)
  | some solved => pure (jObj (base ++ [("walk_board_solvable", jBool (solvedBoardB cfg.n cfg.k s solved))]))

/-- C01: {cfg} → {leaf path: {"lo": rat|null, "hi": rat|null}} = `obsBounds cfg` (the intervals of
`Props.C01.connector_step_obs_in_bounds`) -/
def jBounds (bs : List (String × Option Rat × Option Rat)) : Json :=
  jObj (bs.map (fun b => (b.1, jObj [("lo", match b.2.1 with | some r => jRat r | none => .null),
                                      ("hi", match b.2.2 with | some r => jRat r | none => .null)])))

def opBounds : Op := fun j => do
  let cfg ← getCfg (← field j "cfg")
  pure (jBounds (obsBounds cfg))

/-- C10 operational solvability: {cfg, state (reset state with "solved")} → the explicit solving episode of
`Props.C10.connector_walk_board_operationally_solvable` (`solveActs`), whether the certificate accepts the board,
whether the episode replayed by the rules ends in a complete solution, and the per-agent returns of the episode
under the L1 model (`returnL1`, `Props.C08.connector_solving_episode_return_explicit`) -/
def opSolve : Op := fun j => do
  let cfg ← getCfg (← field j "cfg")
  let sj ← field j "state"
  let s ← getState cfg sj
  let solved ← getList (getList getInt) (← field sj "solved")
  let acts := solveActs cfg.n cfg.k s solved
  let sT := finalL2 cfg s acts
  pure (jObj [("accepted", jBool (freshB cfg.n cfg.k s && solvedBoardB cfg.n cfg.k s solved)),
              ("actions", jList jInts acts),
              ("final", jState sT),
              ("solution", jBool (solutionB cfg.n cfg.k sT)),
              ("returns", jRats ((List.range cfg.k).map (returnL1 cfg s acts)))])

/-- {cfg} → the model's `obsSpec cfg`, `actionSpec cfg`, reward and discount spec in the `speclib.leaf_json` layout -/
def opSpec : Op := fun j => do
  let cfg ← getCfg (← field j "cfg")
  pure (jObj [("observation_spec", SpecOps.jNested (obsSpec cfg)), ("action_spec", SpecOps.jLeaf (actionSpec cfg)),
              ("reward_spec", SpecOps.jLeaf (rewardSpec cfg)), ("discount_spec", SpecOps.jLeaf (discountSpec cfg)),
              ("action_spec_wf", jBool (actionSpec cfg).WF), ("generate_value", SpecOps.jArr (actionSpec cfg).generate)])

def ops : List (String × Op) :=
  [("connector.spec", opSpec), ("connector.step", opStep), ("connector.state", opState), ("connector.judge", opJudge),
   ("connector.instance", opInstance), ("connector.bounds", opBounds), ("connector.solve", opSolve)]
end Jb.Connector
