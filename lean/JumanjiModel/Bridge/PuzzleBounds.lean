/- JSON rendering of a C01 bounds table (`Env/PuzzleBounds.lean`): {leaf path: {"lo": rat|null, "hi": rat|null}}.
   Used by the `<name>.bounds` ops of Game2048, GraphColoring, Minesweeper, Sudoku, SlidingTilePuzzle, RubiksCube,
   FlatPack and Tetris. -/
import JumanjiModel.Bridge.Json
import JumanjiModel.Env.PuzzleBounds
open Lean

namespace Jb
def jOptRat : Option Rat → Json
  | some r => jRat r
  | none => .null

def jBoundsTable (t : PzB.Table) : Json :=
  jObj (t.map (fun e => (e.1, jObj [("lo", jOptRat e.2.1), ("hi", jOptRat e.2.2)])))
end Jb
