/- Driver ops for PacMan: pac_man.{state,step,judge,instance,bounds,spec} -/
import JumanjiModel.Bridge.Json
import JumanjiModel.Env.PacMan.Model
import JumanjiModel.Env.PacMan.Bounds
import JumanjiModel.Env.PacMan.Maze
import JumanjiModel.Gen.PacManMaze
import JumanjiModel.Bridge.Spec
import JumanjiModel.Env.PacMan.SpecLemmas
open Lean Jb

namespace Jb.PacMan
open _root_.PacMan

def getPair (j : Json) : Except String (Int × Int) := do
  match ← getList getInt j with
  | [a, b] => pure (a, b)
  | _ => throw "pair expected"

def fPairs (j : Json) (k : String) : Except String (List (Int × Int)) := do
  getList getPair (← field j k)

def jPair (p : Int × Int) : Json := jInts [p.1, p.2]
def jPairs (ps : List (Int × Int)) : Json := jList jPair ps

def getState (j : Json) : Except String State := do
  let pl ← field j "player_locations"
  pure { grid := ← fIntGrid j "grid", pellets := ← fInt j "pellets",
         frightened := ← fInt j "frightened_state_time",
         pelletLocs := ← fPairs j "pellet_locations", powerUps := ← fPairs j "power_up_locations",
         player := (← fInt pl "x", ← fInt pl "y"),
         ghosts := ← fPairs j "ghost_locations", initGhosts := ← fPairs j "initial_ghost_positions",
         oldGhosts := ← fPairs j "old_ghost_locations", ghostInitSteps := ← fInts j "ghost_init_steps",
         ghostActions := ← fInts j "ghost_actions", lastDirection := ← fInt j "last_direction",
         dead := ← fBool j "dead", ghostStarts := ← fInts j "ghost_starts",
         stepCount := ← fInt j "step_count", ghostEaten := ← fBools j "ghost_eaten",
         score := ← fInt j "score" }

def jState (s : State) : Json :=
  jObj [("grid", jIntGrid s.grid), ("pellets", jInt s.pellets), ("frightened_state_time", jInt s.frightened),
        ("pellet_locations", jPairs s.pelletLocs), ("power_up_locations", jPairs s.powerUps),
        ("player_locations", jObj [("x", jInt s.player.1), ("y", jInt s.player.2)]),
        ("ghost_locations", jPairs s.ghosts), ("initial_ghost_positions", jPairs s.initGhosts),
        ("old_ghost_locations", jPairs s.oldGhosts), ("ghost_init_steps", jInts s.ghostInitSteps),
        ("ghost_actions", jInts s.ghostActions), ("last_direction", jInt s.lastDirection),
        ("dead", jBool s.dead), ("ghost_starts", jInts s.ghostStarts), ("step_count", jInt s.stepCount),
        ("ghost_eaten", jBools s.ghostEaten), ("score", jInt s.score)]

def jObs (o : Obs) : Json :=
  jObj [("grid", jIntGrid o.grid), ("player_locations", jObj [("x", jInt o.player.1), ("y", jInt o.player.2)]),
        ("ghost_locations", jPairs o.ghosts), ("power_up_locations", jPairs o.powerUps),
        ("frightened_state_time", jInt o.frightened), ("pellet_locations", jPairs o.pelletLocs),
        ("action_mask", jBools o.mask), ("score", jInt o.score)]

def checkShape (s : State) : Except String Unit := do
  if !(Jx.Grid.shaped s.grid (xSize s.grid) (ySize s.grid)) || xSize s.grid = 0 || ySize s.grid = 0 then
    throw "maze grid is empty or not rectangular"
  let n := s.ghosts.length
  if s.initGhosts.length ≠ n || s.oldGhosts.length ≠ n || s.ghostEaten.length ≠ n ||
     s.ghostStarts.length ≠ n || s.ghostActions.length ≠ n then
    throw "per-ghost arrays of different lengths"

def jNValue (v : Sp.NValue) : Json := jList (fun (e : String × Sp.Arr) => jObj [("key", jStr e.1), ("value", SpecOps.jArr e.2)]) v

/-- the configuration of the declared spec, read off the ASCII maze: rows, columns, number of non-wall cells (= rows of
`pellet_spaces`) -/
def getSpecCfg (cfg : Json) : Except String (BCfg × Nat) := do
  let maze := (← getList getStr (← field cfg "maze")).map String.toList
  pure ({ xSize := maze.length, ySize := (maze.headD []).length, timeLimit := ← fInt cfg "time_limit" },
        (parse maze).cookies.length)

def opState : Op := fun j => do
  let s ← getState (← field j "state")
  checkShape s
  -- wave 3 (C01 / C12), only when the request carries the configuration: the timestep the model's `reset` builds on
  -- this state, the model observation as spec-level arrays, its membership in the model's `obsSpec`, and the
  -- invariant `SpecInv` behind `pacman_step_obs_valid`
  let w3 : List (String × Json) ← match j.getObjVal? "cfg" with
    | .ok cfg => do
      let (bc, nP) ← getSpecCfg cfg
      pure [("reset_ts", jTimeStep jObs (reset s).2),
            ("nvalue", jNValue (toNValue bc (observe s))),
            ("obs_in_spec", jBool ((obsSpec bc nP).valid (toNValue bc (observe s)))),
            ("spec_inv", jBool (decide (SpecInv bc nP s)))]
    | .error _ => pure []
  pure (jObj ([("mask", jBools (maskOf s)),
              ("legal", jBools ((List.range 5).map (fun (a : Nat) => decide (legal s a)))),
              ("obs", jObs (observe s)),
              ("consistent", jBool (decide (Consistent s))),
              ("border_symmetric", jBool (decide (BorderSymmetric s.grid)))] ++ w3))

def getDraw (j : Json) : Except String Draw := do
  pure { paths := ← fPairs j "paths", actions := ← fInts j "actions" }

def opStep : Op := fun j => do
  let cfg ← field j "cfg"
  let tl ← fInt cfg "time_limit"
  let s ← getState (← field j "state")
  checkShape s
  let a ← fInt j "action"
  if a < 0 ∨ a > 4 then throw "action out of the action spec"
  let d ← getDraw (← field j "draw")
  if d.paths.length ≠ s.ghosts.length || d.actions.length ≠ s.ghosts.length then
    throw "draw must have one path and one action per ghost"
  let (s', ts) := step tl s a d
  pure (jObj [("state", jState s'), ("ts", jTimeStep jObs ts),
              ("valid", jBool (decide (legal s a.toNat))),
              ("draw_valid", jBool (validGhostDraw s d))])

def opJudge : Op := fun j => do
  let s ← getState (← field j "state")
  checkShape s
  let a ← fNat j "action"
  let s' ← getState (← field j "next")
  let ill : Json := if decide (legal s a) then .null else jBool (decide (IllegalIgnored s s'))
  pure (jObj [("illegal_ok", ill),
              ("conserved", jBool (decide (Conserved s s') && ghostsRelOK s s')),
              ("ghosts_rel", jBool (ghostsRelOK s s'))])

/-- C10: the reset state is exactly what the ASCII diagram says, and the diagram is well formed.
`table_check`: the table read off the implementation's reset state (grid, player / ghost starts, pellets, power-ups,
scatter targets) passes the proved checker `tableCheck` (Props.C10.pacman_table_check_sound; the distance certificate
is computed here by `bfsDist`).  `reset_is_table_state`: the reset state is `MazeTable.toState` of that table (the
state Props.C10.pacman_reset_consistent / Props.C07.pacman_run_consistent start from).  `ascii_table`: the model's
parser yields that table from the configured diagram.  For the default environment (`cfg.generated_default`):
`generated_table_matches` / `generated_ascii_matches`: the table and the diagram in Gen/PacManMaze.lean, about which
Props.C10.pacman_default_maze_ok is stated, are the ones of the tree under test. -/
def opInstance : Op := fun j => do
  let cfg ← field j "cfg"
  let mazeStr ← getList getStr (← field cfg "maze")
  let maze := mazeStr.map String.toList
  let sj ← field j "state"
  let s ← getState sj
  let sc ← fPairs sj "scatter_targets"
  let st := resetState maze
  let t := MazeTable.ofState s sc
  let base : List (String × Json) :=
    [("maze_ok", jBool (decide (MazeOK maze))),
     ("reset_matches_ascii", jBool (decide (st = some s))),
     ("consistent", jBool (decide (Consistent s))),
     ("border_symmetric", jBool (decide (BorderSymmetric s.grid))),
     ("table_check", jBool (tableCheck t (bfsDist t.grid t.player))),
     ("reset_is_table_state", jBool (decide (t.toState = s))),
     ("ascii_table", jBool (decide (MazeTable.ofAscii maze = some t)))]
  let gen ← fOpt cfg "generated_default" getBool
  let extra : List (String × Json) :=
    if gen = some true then
      [("generated_table_matches", jBool (decide (t = Gen.PacManMaze.table))),
       ("generated_ascii_matches", jBool (decide (mazeStr = Gen.PacManMaze.ascii)))]
    else []
  pure (jObj (base ++ extra))

/-- {cfg: {time_limit, maze}} → {leaf path: {"lo": rat|null, "hi": rat|null}}: the proved value bounds `obsBounds`
(C01; `x_size` / `y_size` = rows / columns of the ASCII maze) -/
def opBounds : Op := fun j => do
  let cfg ← field j "cfg"
  let maze := (← getList getStr (← field cfg "maze")).map String.toList
  let bc : BCfg := { xSize := maze.length, ySize := (maze.headD []).length, timeLimit := ← fInt cfg "time_limit" }
  let jo : Option Rat → Json := fun o => match o with | none => .null | some r => jRat r
  pure (jObj ((obsBounds bc).map (fun (k, lo, hi) => (k, jObj [("lo", jo lo), ("hi", jo hi)]))))

/-- {cfg} → the model's `obsSpec`, `actionSpec`, reward and discount spec in the `speclib.leaf_json` layout -/
def opSpec : Op := fun j => do
  let (bc, nP) ← getSpecCfg (← field j "cfg")
  pure (jObj [("observation_spec", SpecOps.jNested (obsSpec bc nP)), ("action_spec", SpecOps.jLeaf actionSpec),
              ("reward_spec", SpecOps.jLeaf PzS.rewardSpec), ("discount_spec", SpecOps.jLeaf PzS.discountSpec),
              ("action_spec_wf", jBool actionSpec.WF), ("generate_value", SpecOps.jArr actionSpec.generate)])

def ops : List (String × Op) :=
  [("pac_man.spec", opSpec), ("pac_man.bounds", opBounds), ("pac_man.state", opState), ("pac_man.step", opStep), ("pac_man.judge", opJudge),
   ("pac_man.instance", opInstance)]
end Jb.PacMan
