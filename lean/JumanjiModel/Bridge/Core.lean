/- Bridge ops for the generic core: protocol predicates (C03). -/
import JumanjiModel.Bridge.Json
open Lean Jb

namespace Jb.Core

def getShape (j : Json) : Except String Jm.RShape :=
  match j with
  | .null => pure none
  | _ => do pure (some (← getNat j))

/-- `{"shape": null|n, "trunc_ok": bool, "ts": {...}}` → bool -/
def opStepOK : Op := fun j => do
  let sh ← getShape ((j.getObjVal? "shape").toOption.getD .null)
  let tr ← fBool j "trunc_ok"
  let ts ← getTimeStep (fun _ => pure ()) (← field j "ts")
  pure (jBool (Jm.StepOK sh tr ts))

def opResetOK : Op := fun j => do
  let sh ← getShape ((j.getObjVal? "shape").toOption.getD .null)
  let ts ← getTimeStep (fun _ => pure ()) (← field j "ts")
  pure (jBool (Jm.ResetOK sh ts))

def opEcho : Op := fun j => pure j

def ops : List (String × Op) :=
  [("core.stepOK", opStepOK), ("core.resetOK", opResetOK), ("core.echo", opEcho)]

end Jb.Core
