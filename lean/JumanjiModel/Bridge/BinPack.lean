/- Driver ops for BinPack.  Ops: bin_pack.{state,step,judge,instance,bounds,boundscheck,spec}.
   cfg = {"obs_num_ems": nat, "normalize": bool, "dense": bool, "f32": bool, "tol": rat,
          "container_dims": [x, y, z], "max_num_items": nat (wave 4: needed by `spec` and the membership keys of `state`)} -/
import JumanjiModel.Bridge.Json
import JumanjiModel.Env.BinPack.Model
import JumanjiModel.Env.BinPack.Bounds
import JumanjiModel.Prim.Float
import JumanjiModel.Env.BinPack.Spec
import JumanjiModel.Bridge.Spec
open Lean Jb

namespace Jb.BinPack
open _root_.BinPack

structure Conf where
  cfg : Cfg
  rnd : Rat → Rat
  tol : Rat
  dims : List Int

def getConf (j : Json) : Except String Conf := do
  let c ← field j "cfg"
  let f32 ← fBool c "f32"
  pure { cfg := { obsNum := ← fNat c "obs_num_ems", normalize := ← fBool c "normalize", dense := ← fBool c "dense" }
         rnd := if f32 then Jx.roundF32 else id
         tol := ← fRat c "tol"
         dims := ← fInts c "container_dims" }

def getDims (c : Conf) : Except String Dims :=
  match c.dims with
  | [x, y, z] => pure ⟨x, y, z⟩
  | _ => throw "container_dims must be [x, y, z]"

def jNValue (v : Sp.NValue) : Json := jList (fun (e : String × Sp.Arr) => jObj [("key", jStr e.1), ("value", SpecOps.jArr e.2)]) v

/-- struct of arrays → list of structs; all arrays must have the same length -/
def zip6 (what : String) (a b c d e f : List Int) : Except String (List Space) := do
  let n := a.length
  if b.length != n || c.length != n || d.length != n || e.length != n || f.length != n then
    throw s!"{what}: coordinate arrays of different lengths"
  pure ((List.range n).map (fun k => ⟨a.getD k 0, b.getD k 0, c.getD k 0, d.getD k 0, e.getD k 0, f.getD k 0⟩))

def getSpaces (what : String) (j : Json) : Except String (List Space) := do
  zip6 what (← fInts j "x1") (← fInts j "x2") (← fInts j "y1") (← fInts j "y2") (← fInts j "z1") (← fInts j "z2")

def getSpace (j : Json) : Except String Space := do
  pure ⟨← fInt j "x1", ← fInt j "x2", ← fInt j "y1", ← fInt j "y2", ← fInt j "z1", ← fInt j "z2"⟩

def getItems (j : Json) : Except String (List Item) := do
  let a ← fInts j "x_len"; let b ← fInts j "y_len"; let c ← fInts j "z_len"
  if b.length != a.length || c.length != a.length then throw "items: arrays of different lengths"
  pure ((List.range a.length).map (fun k => ⟨a.getD k 0, b.getD k 0, c.getD k 0⟩))

def getLocs (j : Json) : Except String (List Loc) := do
  let a ← fInts j "x"; let b ← fInts j "y"; let c ← fInts j "z"
  if b.length != a.length || c.length != a.length then throw "items_location: arrays of different lengths"
  pure ((List.range a.length).map (fun k => ⟨a.getD k 0, b.getD k 0, c.getD k 0⟩))

def getState (j : Json) : Except String State := do
  let s : State :=
    { container := ← getSpace (← field j "container"), ems := ← getSpaces "ems" (← field j "ems")
      emsMask := ← fBools j "ems_mask", items := ← getItems (← field j "items")
      itemsMask := ← fBools j "items_mask", itemsPlaced := ← fBools j "items_placed"
      itemsLoc := ← getLocs (← field j "items_location"), actionMask := ← fBoolGrid j "action_mask"
      sortedIdx := ← fInts j "sorted_ems_indexes" }
  if !decide (WF s) then throw "state arrays have inconsistent lengths"
  pure s

def jSpaces (es : List Space) : Json :=
  jObj [("x1", jInts (es.map (·.x1))), ("x2", jInts (es.map (·.x2))), ("y1", jInts (es.map (·.y1))),
        ("y2", jInts (es.map (·.y2))), ("z1", jInts (es.map (·.z1))), ("z2", jInts (es.map (·.z2)))]

def jState (s : State) : Json :=
  jObj [("container", jObj [("x1", jInt s.container.x1), ("x2", jInt s.container.x2), ("y1", jInt s.container.y1),
                            ("y2", jInt s.container.y2), ("z1", jInt s.container.z1), ("z2", jInt s.container.z2)]),
        ("ems", jSpaces s.ems), ("ems_mask", jBools s.emsMask),
        ("items", jObj [("x_len", jInts (s.items.map (·.xl))), ("y_len", jInts (s.items.map (·.yl))),
                        ("z_len", jInts (s.items.map (·.zl)))]),
        ("items_mask", jBools s.itemsMask), ("items_placed", jBools s.itemsPlaced),
        ("items_location", jObj [("x", jInts (s.itemsLoc.map (·.x))), ("y", jInts (s.itemsLoc.map (·.y))),
                                 ("z", jInts (s.itemsLoc.map (·.z)))]),
        ("action_mask", jBoolGrid s.actionMask), ("sorted_ems_indexes", jInts s.sortedIdx)]

/-- integers when the observation is not normalised (int32 arrays), exact rationals otherwise -/
def jNums (norm : Bool) (xs : List Rat) : Json := if norm then jRats xs else jInts (xs.map (·.num))

def jObs (norm : Bool) (o : Obs) : Json :=
  jObj [("ems", jObj [("x1", jNums norm (o.ems.map (·.x1))), ("x2", jNums norm (o.ems.map (·.x2))),
                      ("y1", jNums norm (o.ems.map (·.y1))), ("y2", jNums norm (o.ems.map (·.y2))),
                      ("z1", jNums norm (o.ems.map (·.z1))), ("z2", jNums norm (o.ems.map (·.z2)))]),
        ("ems_mask", jBools o.emsMask),
        ("items", jObj [("x_len", jNums norm (o.items.map (·.xl))), ("y_len", jNums norm (o.items.map (·.yl))),
                        ("z_len", jNums norm (o.items.map (·.zl)))]),
        ("items_mask", jBools o.itemsMask), ("items_placed", jBools o.itemsPlaced),
        ("action_mask", jBoolGrid o.actionMask)]

def getDraw (j : Json) : Except String EmsDraw := do
  pure { ems := ← getSpaces "draw.ems" (← field j "ems"), mask := ← fBools j "ems_mask" }

def getAction (j : Json) : Except String (Int × Int) := do
  match ← fInts j "action" with
  | [e, i] => pure (e, i)
  | _ => throw "action must be [ems_id, item_id]"

def legalInt (c : Conf) (s : State) (e i : Int) : Bool :=
  if e < 0 ∨ i < 0 then false else decide (legal c.cfg c.rnd s e.toNat i.toNat)

/-- the active EMSs of a buffer, in slot order -/
def activeEms (d : EmsDraw) : List Space := ((d.ems.zip d.mask).filter (·.2)).map (·.1)

/-- two buffers hold the same active EMSs (as multisets: slots behind `ems_mask = False` and the slot order are
    ignored, DESIGN 4.1) -/
def sameActive (a b : EmsDraw) : Bool :=
  a.ems.length == b.ems.length && a.mask.length == b.mask.length && (activeEms a).isPerm (activeEms b)

/-- slot-by-slot equality of two buffers: same masks, same EMS in every active slot -/
def sameSlots (a b : EmsDraw) : Bool :=
  a.mask == b.mask && a.ems.length == b.ems.length &&
  (List.range a.ems.length).all fun k => !a.mask.getD k false || a.ems.getD k default == b.ems.getD k default

/-- {"cfg", "state", "action": [ems_id, item_id], "draw"?: {"ems", "ems_mask"}} → {"state", "ts", "valid", "ems_slots_equal"}.
    L1 step `step₁`: when the step packs the item, the successor EMS buffer is computed by `updateEms` (the
    transliteration of `_update_ems`).  When the implementation's successor buffer is supplied as `draw`, it must
    (i) be in the relation `EmsRel` and (ii) hold the same set of active EMSs as `updateEms`; otherwise the op
    throws.  `ems_slots_equal` (null without a draw) says whether the two buffers also agree slot by slot.
    `valid` = L2 legality. -/
def opStep : Op := fun j => do
  let c ← getConf j
  let s ← getState (← field j "state")
  let (e, i) ← getAction j
  let valid := stepValid s e i
  -- the successor EMS buffer computed by the transliterated `_update_ems` (only needed when the step packs an item)
  let dm : EmsDraw := if valid then updateEms s e i else { ems := [], mask := [] }
  let mut slots : Json := .null
  if valid then
    match ← fOpt j "draw" getDraw with
    | some d =>
      if !decide (validDraw s e i d) then
        throw "EMS update outside the relation: a new active EMS is neither an old active EMS clear of the new item nor hyperplane(item, axis, dir) ∩ old active EMS"
      if !sameActive dm d then
        throw "the set of active EMSs after _update_ems differs from the one computed by the L1 transliteration updateEms"
      slots := jBool (sameSlots dm d)
    | none => pure ()
  -- this is `step₁ c.cfg c.rnd s e i` = `step … (updateEms s e i)`: `step` ignores the draw when the action is invalid
  let (s', ts) := step c.cfg c.rnd s e i dm
  pure (jObj [("state", jState s'), ("ts", jTimeStep (jObs c.cfg.normalize) ts), ("valid", jBool (legalInt c s e i)),
              ("ems_slots_equal", slots)])

/-- {"cfg", "state"} → mask (L1, flat), legal (L2, flat), obs (L2 observe), feasible, items_feasible, fresh,
    solution (feasible and nothing more can be added), objective (volume utilisation) -/
def opState : Op := fun j => do
  let c ← getConf j
  let s ← getState (← field j "state")
  let feas := decide (Feasible s)
  -- wave 4 (C01 membership), when the configuration carries `max_num_items`: the timestep `reset` builds on this state
  -- (`restart(_make_observation_and_extras(state))`), the L1 observation as spec-level arrays (`toNValue`), its membership
  -- in the model's `obsSpec`, and the invariant `SpecInv` behind `binpack_step_obs_valid`
  let w4 : List (String × Json) ← match ← fOpt (← field j "cfg") "max_num_items" getNat with
    | some n => do
      let dm ← getDims c
      let o := (makeObs c.cfg c.rnd s).2
      pure [("reset_ts", jTimeStep (jObs c.cfg.normalize) (Jm.restart o)),
            ("nvalue", jNValue (toNValue c.cfg.normalize o)),
            ("obs_in_spec", jBool ((obsSpec c.cfg n dm).valid (toNValue c.cfg.normalize o))),
            ("spec_inv", jBool (decide (SpecInv c.cfg n dm s)))]
    | none => pure []
  pure (jObj ([("mask", jBools (maskOf c.cfg c.rnd s).flatten),
              ("legal", jBools (legalMask c.cfg c.rnd s).flatten),
              ("obs", jObs c.cfg.normalize (observe c.cfg c.rnd s)),
              ("feasible", jBool feas),
              ("items_feasible", jBool (decide (ItemsFeasible s))),
              ("fresh", jBool (decide (Fresh c.cfg c.rnd s))),
              ("solution", jBool (feas && completeB c.cfg c.rnd s)),
              ("objective", jRat (utilisation s))] ++ w4))

def getObsLoose (_ : Json) : Except String Unit := pure ()

def ratAbs (x : Rat) : Rat := if x < 0 then -x else x

/-- {"cfg", "state", "action", "next", "ts"} →
    illegal_ok (null when the action is legal): LAST with zero discount, reward 0 (dense) / current utilisation
      (sparse), every field of the state untouched except the two caches, which are freshly recomputed;
    ems_ok (null when the action is illegal): the successor EMS buffer is in the relation `EmsRel`, the item is
      where `_pack_item` puts it and nothing else moved -/
def opJudge : Op := fun j => do
  let c ← getConf j
  let s ← getState (← field j "state")
  let (e, i) ← getAction j
  let s' ← getState (← field j "next")
  let ts ← getTimeStep getObsLoose (← field j "ts")
  let isLegal := legalInt c s e i
  let fresh' := decide (Fresh c.cfg c.rnd s')
  if !isLegal then
    let expected : Rat := if c.cfg.dense then 0 else utilisation s
    let rOk := match ts.reward with
      | [r] => decide (ratAbs (r - expected) ≤ c.tol)
      | _ => false
    pure (jObj [("illegal_ok", jBool (decide (problemPart s' = problemPart s) && fresh' && ts.stepType == .last &&
                                       rOk && ts.discount == [0])),
                ("ems_ok", .null), ("ems_update_ok", .null)])
  else
    let d : EmsDraw := { ems := s'.ems, mask := s'.emsMask }
    let expect := packItem s (Jx.getWC s.sortedIdx 0 e) i d
    pure (jObj [("illegal_ok", .null),
                ("ems_ok", jBool (decide (validDraw s e i d) && decide (problemPart s' = problemPart expect) && fresh')),
                ("ems_update_ok", jBool (sameActive (updateEms s e i) d))])

/-- {"cfg", "state" (a reset state, optionally with "solution": the state returned by `generate_solution`
    for the same key)} → certificates of C10 -/
def opInstance : Op := fun j => do
  let c ← getConf j
  let sj ← field j "state"
  let s ← getState sj
  let dimsOk := c.dims == [s.container.x2, s.container.y2, s.container.z2]
  let base := [("reset_shape", jBool (decide (ResetShape s))),
               ("container_dims", jBool dimsOk),
               ("items_positive", jBool (decide (ItemsPositive s))),
               ("volumes_add_up", jBool (decide (presentVolume s = s.container.volume))),
               ("reset_feasible", jBool (decide (Feasible s))),
               ("reset_fresh", jBool (decide (Fresh c.cfg c.rnd s)))] ++
    -- wave 4: the model's `reset` (Env/BinPack/Bounds.lean) replayed on the draws read off the state (items, item mask,
    -- buffer size) gives this very state, and the draws satisfy `validReset` (hypotheses of `binpack_reset_obs_valid`)
    (match c.dims with
     | [x, y, z] =>
       [("reset_replay", jBool (decide ((reset c.cfg c.rnd ⟨x, y, z⟩ s.ems.length s.items s.itemsMask).1 = s))),
        ("reset_draw_valid", jBool (decide (validReset ⟨x, y, z⟩ s.items.length s.items s.itemsMask)))]
     | _ => [])
  match sj.getObjVal? "solution" with
  | .ok solj =>
    let sol ← getState solj
    let same := decide (sol.container = s.container ∧ sol.items = s.items ∧ sol.itemsMask = s.itemsMask)
    pure (jObj (base ++ [("solution_same_instance", jBool same),
                         ("solution_perfect_packing", jBool (decide (PerfectPacking sol))),
                         ("solution_feasible", jBool (decide (Feasible sol)))]))
  | .error _ => pure (jObj base)

def jBounds (t : Jm.OB.Table) : Json :=
  jObj (t.map fun e => (e.1, jObj [("lo", match e.2.1 with | some r => jRat r | none => Json.null),
                                   ("hi", match e.2.2 with | some r => jRat r | none => Json.null)]))

/-- {"cfg": {...}} → {leaf path: {"lo": rat|null, "hi": rat|null}}: the proved observation bounds (C01) -/
def opBounds : Op := fun j => do
  let c ← getConf j
  pure (jBounds (obsBounds c.cfg (← getDims c)))

/-- {"cfg", "state", "action"?, "draw"?} → the hypotheses of `Props.C01.binpack_step_obs_in_bounds` evaluated on an
    implementation state / transition: {"inv": BoundsInv, "draw_all": validDrawAll | null (no action or draw given)} -/
def opBoundsCheck : Op := fun j => do
  let c ← getConf j
  let dm ← getDims c
  let s ← getState (← field j "state")
  let dr ← match ← fOpt j "draw" getDraw with
    | some d => do
      let (e, i) ← getAction j
      pure (jBool (decide (validDrawAll s e i d)))
    | none => pure Json.null
  pure (jObj [("inv", jBool (decide (BoundsInv dm s))), ("draw_all", dr)])

/-- {cfg (with max_num_items)} → the model's `obsSpec`, `actionSpec`, reward and discount spec in the `speclib.leaf_json` layout -/
def opSpec : Op := fun j => do
  let c ← getConf j
  let n ← fNat (← field j "cfg") "max_num_items"
  let dm ← getDims c
  pure (jObj [("observation_spec", SpecOps.jNested (obsSpec c.cfg n dm)), ("action_spec", SpecOps.jLeaf (actionSpec c.cfg n)),
              ("reward_spec", SpecOps.jLeaf PzS.rewardSpec), ("discount_spec", SpecOps.jLeaf PzS.discountSpec),
              ("action_spec_wf", jBool (actionSpec c.cfg n).WF),
              ("generate_value", SpecOps.jArr (actionSpec c.cfg n).generate)])

def ops : List (String × Op) :=
  [("bin_pack.step", opStep), ("bin_pack.state", opState), ("bin_pack.judge", opJudge),
   ("bin_pack.instance", opInstance), ("bin_pack.bounds", opBounds), ("bin_pack.boundscheck", opBoundsCheck),
   ("bin_pack.spec", opSpec)]
end Jb.BinPack
