/- Driver ops for MMST.  Ops: mmst.state, mmst.step, mmst.judge, mmst.instance, mmst.bounds, mmst.spec -/
import JumanjiModel.Bridge.Json
import JumanjiModel.Env.MMST.Model
import JumanjiModel.Env.MMST.Bounds
import JumanjiModel.Env.MMST.FeasibleLemmas
import JumanjiModel.Env.MMST.GenModel
import JumanjiModel.Env.MMST.Spec
import JumanjiModel.Bridge.Spec
open Lean Jb

namespace Jb.MMST
open _root_.MMST

def getCfg (j : Json) : Except String Cfg := do
  let fm ← fOpt j "fresh_mask" getBool
  let gv ← fOpt j "guard_visited" getBool
  pure { numAgents := ← fNat j "num_agents", numNodes := ← fNat j "num_nodes",
         numNodesPerAgent := ← fNat j "num_nodes_per_agent", timeLimit := ← fNat j "time_limit",
         rConn := ← fRat j "r_conn", rStep := ← fRat j "r_step", rNoop := ← fRat j "r_noop",
         freshMask := fm.getD false, guardVisited := gv.getD false }

def fIntCube (j : Json) (k : String) : Except String (List (List (List Int))) := do
  getList (getList (getList getInt)) (← field j k)

def getState (cfg : Cfg) (j : Json) : Except String State := do
  let s : State :=
    { nodeTypes := ← fInts j "node_types", adj := ← fIntGrid j "adj_matrix",
      connectedNodes := ← fIntGrid j "connected_nodes", connectedIndex := ← fIntGrid j "connected_nodes_index",
      nodesToConnect := ← fIntGrid j "nodes_to_connect", nodeEdges := ← fIntCube j "node_edges",
      positions := ← fInts j "positions", positionIndex := ← fInts j "position_index",
      actionMask := ← fBoolGrid j "action_mask", finished := ← fBools j "finished_agents",
      stepCount := ← fInt j "step_count" }
  if !decide (Shaped cfg s) then throw "mmst: state arrays do not have the configured shapes / positions out of range"
  if s.actionMask.length != cfg.numAgents || s.actionMask.any (fun r => r.length != cfg.numNodes) then
    throw "mmst: action_mask shape"
  pure s

def jIntCube (c : List (List (List Int))) : Json := jList jIntGrid c

def jState (s : State) : Json :=
  jObj [("node_types", jInts s.nodeTypes), ("adj_matrix", jIntGrid s.adj),
        ("connected_nodes", jIntGrid s.connectedNodes), ("connected_nodes_index", jIntGrid s.connectedIndex),
        ("nodes_to_connect", jIntGrid s.nodesToConnect), ("node_edges", jIntCube s.nodeEdges),
        ("positions", jInts s.positions), ("position_index", jInts s.positionIndex),
        ("action_mask", jBoolGrid s.actionMask), ("finished_agents", jBools s.finished),
        ("step_count", jInt s.stepCount)]

def jObs (o : Obs) : Json :=
  jObj [("node_types", jInts o.nodeTypes), ("adj_matrix", jIntGrid o.adj), ("positions", jInts o.positions),
        ("step_count", jInt o.stepCount), ("action_mask", jBoolGrid o.actionMask)]

def getObs (j : Json) : Except String Obs := do
  pure { nodeTypes := ← fInts j "node_types", adj := ← fIntGrid j "adj_matrix", positions := ← fInts j "positions",
         stepCount := ← fInt j "step_count", actionMask := ← fBoolGrid j "action_mask" }

def getAction (cfg : Cfg) (j : Json) : Except String (List Nat) := do
  let a ← fNats j "action"
  if a.length != cfg.numAgents then throw s!"mmst: action has length {a.length}, expected {cfg.numAgents}"
  if a.any (fun x => x ≥ cfg.numNodes) then throw "mmst: action component out of the action space"
  pure a

/-- {cfg, state, action, draw: {perm}} → {state, ts, valid: per-agent L2 legality} -/
def opStep : Op := fun j => do
  let cfg ← getCfg (← field j "cfg")
  let s ← getState cfg (← field j "state")
  let a ← getAction cfg j
  let perm ← fNats (← field j "draw") "perm"
  if !decide (validDraw cfg.numAgents perm) then throw "mmst: draw is not a permutation of the agents"
  let (s', ts) := step cfg s (a.map Int.ofNat) perm
  pure (jObj [("state", jState s'), ("ts", jTimeStep jObs ts),
              ("valid", jBools ((List.range cfg.numAgents).map fun i => decide (legal cfg s i (a.getD i 0))))])

def jNValue (v : Sp.NValue) : Json := jList (fun (e : String × Sp.Arr) => jObj [("key", jStr e.1), ("value", SpecOps.jArr e.2)]) v

/-- {cfg} → the model's `obsSpec`, `actionSpec`, reward and discount spec in the `speclib.leaf_json` layout -/
def opSpec : Op := fun j => do
  let cfg ← getCfg (← field j "cfg")
  pure (jObj [("observation_spec", SpecOps.jNested (obsSpec cfg)), ("action_spec", SpecOps.jLeaf (actionSpec cfg)),
              ("reward_spec", SpecOps.jLeaf PzS.rewardSpec), ("discount_spec", SpecOps.jLeaf PzS.discountSpec),
              ("action_spec_wf", jBool (actionSpec cfg).WF), ("generate_value", SpecOps.jArr (actionSpec cfg).generate)])

/-- {cfg, state} → {mask (L1 mask function on the current arrays and flags), legal (L2), obs (L2 observe),
    feasible, solution, node_exclusive (information only), flags_fresh, objective} -/
def opState : Op := fun j => do
  let cfg ← getCfg (← field j "cfg")
  let s ← getState cfg (← field j "state")
  pure (jObj [("mask", jBools (makeMask cfg.numAgents s.nodeEdges s.positions s.finished).flatten),
              ("legal", jBools (legalMask cfg s).flatten),
              ("obs", jObs (observe cfg s)),
              ("feasible", jBool (decide (Feasible' cfg s))),      -- incl. `RouteWalk` (audit r1, entry 1)
              ("solution", jBool (decide (IsSolution' cfg s))),
              ("info_feasible_bookkeeping", jStr (if decide (Feasible cfg s) then "yes" else "no")),
              ("info_route_walk", jStr (if decide (RouteWalk cfg s) then "yes" else "no")),
              ("info_node_exclusive", jStr (if decide (NodeExclusive cfg s) then "yes" else "no")),
              ("info_flags_fresh", jStr (if decide (FlagsFresh cfg s) then "yes" else "no")),
              -- wave 4 (C01 membership): the timestep the model's `reset` builds on this state, the L1 observation as
              -- spec-level arrays (`toNValue`), its membership in the model's `obsSpec`, the invariant `SpecInv`
              ("reset_ts", jTimeStep jObs (reset cfg s).2),
              ("nvalue", jNValue (toNValue (observeL1 cfg s))),
              ("obs_in_spec", jBool ((obsSpec cfg).valid (toNValue (observeL1 cfg s)))),
              ("spec_inv", jBool (decide (SpecInv cfg s)))])

/-- {cfg, state, action, next, ts} → {illegal_ok: null when every agent's action is legal} -/
def opJudge : Op := fun j => do
  let cfg ← getCfg (← field j "cfg")
  let s ← getState cfg (← field j "state")
  let a ← getAction cfg j
  let s' ← getState cfg (← field j "next")
  let ts ← getTimeStep getObs (← field j "ts")
  let allLegal := (List.range cfg.numAgents).all fun i => decide (legal cfg s i (a.getD i 0))
  let ill : Json := if allLegal then .null else jBool (illegalIgnored cfg s a s' ts)
  pure (jObj [("illegal_ok", ill)])

/-- {cfg (+ max_degree, num_edges), state} → certificates of `SplitRandomGenerator` on the reset state -/
def opInstance : Op := fun j => do
  let cj ← field j "cfg"
  let cfg ← getCfg cj
  let maxDeg ← fNat cj "max_degree"
  let numEdges ← fNat cj "num_edges"
  let s ← getState cfg (← field j "state")
  pure (jObj [("adj_symmetric", jBool (certSymmetric cfg s)),
              ("adj_loopless", jBool (certLoopless cfg s)),
              ("adj_binary", jBool (certBinary s)),
              ("degree_le_max_degree", jBool (certDegree cfg s maxDeg)),
              ("edge_count_le_num_edges", jBool (decide (edgeCount cfg s ≤ (numEdges : Int)))),
              ("agents_nodes_disjoint", jBool (certAgentsDisjoint cfg s)),
              ("node_types_match", jBool (certTypes cfg s)),
              ("agent_nodes_in_own_block", jBool (certOwnBlock cfg s)),
              ("blocks_connected", jBool (certBlocksConnected cfg s)),
              ("graph_connected", jBool (certGraphConnected cfg s)),
              ("start_ok", jBool (certStart cfg s)),
              ("edges_adjacency", jBool (certEdgesAdj cfg s)),
              ("reset_feasible", jBool (decide (Feasible' cfg s))),
              ("route_len_time_limit", jBool ((List.range cfg.numAgents).all fun i =>
                  (s.connectedNodes.getD i []).length == cfg.timeLimit)),
              -- audit r1, entry 7: fresh finished flags at reset (only claimed for K ≥ 2)
              (if cfg.numNodesPerAgent ≥ 2 then ("flags_fresh", jBool (decide (FlagsFresh cfg s)))
               else ("info_flags_fresh", jStr (if decide (FlagsFresh cfg s) then "yes" else "no"))),
              -- C10 (b): the reset state is `SplitRandomGenerator.__call__` replayed on the draws read off it
              ("generator_draw_valid", jBool (decide (validGenDraw cfg (drawOf s)) && decide (graphOK cfg (drawOf s)))),
              ("generator_replay", jBool (decide (generate cfg (drawOf s) = s))),
              ("info_degree_le_max_degree_plus_1", jStr (if certDegree cfg s (maxDeg + 1) then "yes" else "no")),
              ("info_edge_count", jInt (edgeCount cfg s))])

/-- C01: {cfg} → {leaf path: {"lo": rat|null, "hi": rat|null}} = `obsBounds cfg` (the intervals of
`Props.C01.mmst_step_obs_in_bounds`) -/
def jBounds (bs : List (String × Option Rat × Option Rat)) : Json :=
  jObj (bs.map (fun b => (b.1, jObj [("lo", match b.2.1 with | some r => jRat r | none => .null),
                                      ("hi", match b.2.2 with | some r => jRat r | none => .null)])))

def opBounds : Op := fun j => do
  let cfg ← getCfg (← field j "cfg")
  pure (jBounds (obsBounds cfg))

def ops : List (String × Op) :=
  [("mmst.step", opStep), ("mmst.state", opState), ("mmst.judge", opJudge), ("mmst.instance", opInstance),
   ("mmst.bounds", opBounds), ("mmst.spec", opSpec)]
end Jb.MMST
