/- Driver ops for the pytree helpers (C19).  Leaves are opaque JSON values (element slices). -/
import JumanjiModel.Bridge.Json
import JumanjiModel.Pytree
import JumanjiModel.Prim.Float
open Lean Jb

namespace Jb.PytreeOps
open Pytree

def getJsonList (j : Json) : Except String (List Json) :=
  match j with | .arr a => pure a.toList | _ => throw "array expected"

def jTree (t : PTree String Json) : Json := jObj [("td", jStr t.td), ("leaves", .arr t.leaves.toArray)]
def jBTree (t : PTree String (List Json)) : Json :=
  jObj [("td", jStr t.td), ("leaves", .arr (t.leaves.map (fun l => Json.arr l.toArray)).toArray)]

def getTree (j : Json) : Except String (PTree String Json) := do
  pure { td := ← fStr j "td", leaves := ← getJsonList (← field j "leaves") }
def getBTree (j : Json) : Except String (PTree String (List Json)) := do
  pure { td := ← fStr j "td", leaves := ← (← getJsonList (← field j "leaves")).mapM getJsonList }

/-- {"trees": [tree…], "i": int} → {"stacked": batched tree, "slice": tree|null} -/
def opTransposeSlice : Op := fun j => do
  let ts ← (← getJsonList (← field j "trees")).mapM getTree
  let i ← fInt j "i"
  match ts with
  | [] => throw "empty list of trees"
  | t0 :: _ =>
    let st := transpose t0.td t0.leaves.length ts
    pure (jObj [("stacked", jBTree st), ("slice", match slice st i with | some t => jTree t | none => .null),
                ("same_structure", jBool (ts.all (fun t => t.td == t0.td && t.leaves.length == t0.leaves.length)))])

/-- {"tree": batched tree, "i": int} → tree|null -/
def opSlice : Op := fun j => do
  let t ← getBTree (← field j "tree")
  let i ← fInt j "i"
  pure (match slice t i with | some t => jTree t | none => .null)

/-- {"tree": batched tree, "i": int, "element": tree} → batched tree|null -/
def opAddElement : Op := fun j => do
  let t ← getBTree (← field j "tree")
  let i ← fInt j "i"
  let e ← getTree (← field j "element")
  pure (match addElement t i e with | some t => jBTree t | none => .null)

def getLeaf (j : Json) : Except String (Leaf String) := do
  pure { shape := ← fNats j "shape", data := ← getList getStr (← field j "data") }
def getLTree (j : Json) : Except String (PTree String (Leaf String)) := do
  pure { td := ← fStr j "td", leaves := ← (← getJsonList (← field j "leaves")).mapM getLeaf }

/-- {"t1": …, "t2": …} with leaves {"shape": [..], "data": [canonical strings]} → bool|null -/
def opIsEqual : Op := fun j => do
  let t1 ← getLTree (← field j "t1")
  let t2 ← getLTree (← field j "t2")
  pure (match isEqual t1 t2 with | some b => jBool b | none => .null)

def errStr : Except AssertErr Unit → String
  | .ok () => "ok" | .error .sameValues => "same_values" | .error .differ => "differ" | .error .structureMismatch => "structure"

/-- {"t1": …, "t2": …} → what the two assertion helpers do: {"different": ok|same_values|structure, "equal": ok|differ|structure} -/
def opAssert : Op := fun j => do
  let t1 ← getLTree (← field j "t1")
  let t2 ← getLTree (← field j "t2")
  pure (jObj [("different", jStr (errStr (assertDifferent t1 t2))), ("equal", jStr (errStr (assertEqual t1 t2)))])

/-- `x.astype(to)` on one number, for the value classes the correspondence check uses: integer targets truncate
toward zero and wrap around, bool is "non-zero", float32 rounds integers to the nearest binary32 value (other float
conversions keep the value: the check only sends values that are representable in the target float type) -/
def castNum (to : String) (x : JsonNumber) : JsonNumber :=
  let t : Int := x.mantissa.tdiv ((10 : Int) ^ x.exponent)
  let wrap (lo hi : Int) : JsonNumber := ⟨(t - lo) % (hi - lo + 1) + lo, 0⟩
  match to with
  | "bool" => ⟨if x.mantissa == 0 then 0 else 1, 0⟩
  | "int8" => wrap (-128) 127 | "int16" => wrap (-32768) 32767 | "int32" => wrap (-2147483648) 2147483647
  | "uint8" => wrap 0 255 | "uint16" => wrap 0 65535 | "uint32" => wrap 0 4294967295
  | "float32" =>
    if x.mantissa % ((10 : Int) ^ x.exponent) == 0 then
      let r := Jx.roundF32 (t : Rat)
      if r.den == 1 then ⟨r.num, 0⟩ else x
    else x
  | _ => x

/-- `jnp.promote_types` on the dtypes of the check (x64 disabled) -/
def promoteStr (a b : String) : String :=
  let kindBits (d : String) : Char × Nat :=
    match d with
    | "bool" => ('b', 1) | "int8" => ('i', 8) | "int16" => ('i', 16) | "int32" => ('i', 32)
    | "uint8" => ('u', 8) | "uint16" => ('u', 16) | "uint32" => ('u', 32)
    | "float16" => ('f', 16) | _ => ('f', 32)
  let name (k : Char) (n : Nat) : String :=
    match k with
    | 'b' => "bool" | 'f' => if n ≤ 16 then "float16" else "float32"
    | 'u' => s!"uint{n}" | _ => s!"int{min n 32}"
  if a == b then a else
  let (ka, na) := kindBits a
  let (kb, nb) := kindBits b
  if ka == 'b' then b else if kb == 'b' then a
  else if ka == 'f' && kb == 'f' then name 'f' (max na nb)
  else if ka == 'f' then a else if kb == 'f' then b
  else if ka == kb then name ka (max na nb)
  else
    let (ni, nu) := if ka == 'i' then (na, nb) else (nb, na)
    if nu < ni then name 'i' ni else name 'i' (2 * nu)

/-- nested lists of numbers up to depth `fuel` (arrays here have rank ≤ 4) -/
def mapNums (f : JsonNumber → JsonNumber) : Nat → Json → Json
  | _, .num n => .num (f n)
  | fuel + 1, .arr a => .arr (a.map (mapNums f fuel))
  | _, j => j

/-- a slice / element value is {"shape": […], "v": nested numbers} -/
def castVal (frm to : String) (v : Json) : Json :=
  if frm == to then v else
  match v.getObjVal? "v", v.getObjVal? "shape" with
  | .ok x, .ok sh => jObj [("shape", sh), ("v", mapNums (castNum to) 16 x)]
  | _, _ => v

def getTArr (j : Json) : Except String (TArr String Json) := do
  pure { dtype := ← fStr j "dtype", slices := ← getJsonList (← field j "slices") }
def getTVal (j : Json) : Except String (TVal String Json) := do
  pure { dtype := ← fStr j "dtype", val := ← field j "val" }
def jTArr (a : TArr String Json) : Json := jObj [("dtype", jStr a.dtype), ("slices", .arr a.slices.toArray)]
def jTVal (a : TVal String Json) : Json := jObj [("dtype", jStr a.dtype), ("val", a.val)]

/-- {"tree": {td, leaves: [{dtype, slices}]}, "i": int, "element": {td, leaves: [{dtype, val}]}} →
{"tree": batched typed tree | null, "slice": typed tree | null (the new tree sliced at i)} -/
def opAddElementTyped : Op := fun j => do
  let tj ← field j "tree"
  let ej ← field j "element"
  let t : PTree String (TArr String Json) :=
    { td := ← fStr tj "td", leaves := ← (← getJsonList (← field tj "leaves")).mapM getTArr }
  let e : PTree String (TVal String Json) :=
    { td := ← fStr ej "td", leaves := ← (← getJsonList (← field ej "leaves")).mapM getTVal }
  let i ← fInt j "i"
  let r := addElementT promoteStr castVal t i e
  let jt (x : PTree String (TArr String Json)) : Json := jObj [("td", jStr x.td), ("leaves", jList jTArr x.leaves)]
  let jv (x : PTree String (TVal String Json)) : Json := jObj [("td", jStr x.td), ("leaves", jList jTVal x.leaves)]
  pure (jObj [("tree", match r with | some x => jt x | none => .null),
              ("slice", match r.bind (fun x => sliceT x i) with | some x => jv x | none => .null)])

def ops : List (String × Op) :=
  [("pytree.transpose_slice", opTransposeSlice), ("pytree.slice", opSlice),
   ("pytree.add_element", opAddElement), ("pytree.is_equal", opIsEqual), ("pytree.assert", opAssert),
   ("pytree.add_element_typed", opAddElementTyped)]
end Jb.PytreeOps
