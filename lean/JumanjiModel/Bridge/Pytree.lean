/- Driver ops for the pytree helpers (C19).  Leaves are opaque JSON values (element slices). -/
import JumanjiModel.Bridge.Json
import JumanjiModel.Pytree
open Lean Jb

namespace Jb.PytreeOps
open Pytree

def getJsonList (j : Json) : Except String (List Json) :=
  match j with | .arr a => pure a.toList | _ => throw "array expected"

def jTree (t : PTree String Json) : Json := jObj [("td", jStr t.td), ("leaves", .arr t.leaves.toArray)]
def jBTree (t : PTree String (List Json)) : Json :=
  jObj [("td", jStr t.td), ("leaves", .arr (t.leaves.map (fun l => Json.arr l.toArray)).toArray)]

def getTree (j : Json) : Except String (PTree String Json) := do
  pure { td := ← fStr j "td", leaves := ← getJsonList (← field j "leaves") }
def getBTree (j : Json) : Except String (PTree String (List Json)) := do
  pure { td := ← fStr j "td", leaves := ← (← getJsonList (← field j "leaves")).mapM getJsonList }

/-- {"trees": [tree…], "i": int} → {"stacked": batched tree, "slice": tree|null} -/
def opTransposeSlice : Op := fun j => do
  let ts ← (← getJsonList (← field j "trees")).mapM getTree
  let i ← fInt j "i"
  match ts with
  | [] => throw "empty list of trees"
  | t0 :: _ =>
    let st := transpose t0.td t0.leaves.length ts
    pure (jObj [("stacked", jBTree st), ("slice", match slice st i with | some t => jTree t | none => .null),
                ("same_structure", jBool (ts.all (fun t => t.td == t0.td && t.leaves.length == t0.leaves.length)))])

/-- {"tree": batched tree, "i": int} → tree|null -/
def opSlice : Op := fun j => do
  let t ← getBTree (← field j "tree")
  let i ← fInt j "i"
  pure (match slice t i with | some t => jTree t | none => .null)

/-- {"tree": batched tree, "i": int, "element": tree} → batched tree|null -/
def opAddElement : Op := fun j => do
  let t ← getBTree (← field j "tree")
  let i ← fInt j "i"
  let e ← getTree (← field j "element")
  pure (match addElement t i e with | some t => jBTree t | none => .null)

def getLeaf (j : Json) : Except String (Leaf String) := do
  pure { shape := ← fNats j "shape", data := ← getList getStr (← field j "data") }
def getLTree (j : Json) : Except String (PTree String (Leaf String)) := do
  pure { td := ← fStr j "td", leaves := ← (← getJsonList (← field j "leaves")).mapM getLeaf }

/-- {"t1": …, "t2": …} with leaves {"shape": [..], "data": [canonical strings]} → bool|null -/
def opIsEqual : Op := fun j => do
  let t1 ← getLTree (← field j "t1")
  let t2 ← getLTree (← field j "t2")
  pure (match isEqual t1 t2 with | some b => jBool b | none => .null)

def ops : List (String × Op) :=
  [("pytree.transpose_slice", opTransposeSlice), ("pytree.slice", opSlice),
   ("pytree.add_element", opAddElement), ("pytree.is_equal", opIsEqual)]
end Jb.PytreeOps
