/- Driver ops for Minesweeper.  Ops: minesweeper.step, minesweeper.state, minesweeper.judge,
   minesweeper.instance, minesweeper.episode, minesweeper.spec -/
import JumanjiModel.Bridge.Json
import JumanjiModel.Env.Minesweeper.Model
import JumanjiModel.Env.Minesweeper.Bounds
import JumanjiModel.Bridge.PuzzleBounds
import JumanjiModel.Bridge.Spec
import JumanjiModel.Env.Minesweeper.SpecLemmas
open Lean Jb

namespace Jb.Minesweeper
open _root_.Minesweeper

def getCfg (j : Json) : Except String Cfg := do
  pure { numRows := ← fNat j "num_rows", numCols := ← fNat j "num_cols", numMines := ← fNat j "num_mines",
         rEmpty := ← fRat j "r_empty", rMine := ← fRat j "r_mine", rInvalid := ← fRat j "r_invalid" }

def getState (j : Json) : Except String State := do
  pure { board := ← fIntGrid j "board", stepCount := ← fInt j "step_count",
         mines := ← fInts j "flat_mine_locations" }

def jState (s : State) : Json :=
  jObj [("board", jIntGrid s.board), ("step_count", jInt s.stepCount),
        ("flat_mine_locations", jInts s.mines)]

def jObs (o : Obs) : Json :=
  jObj [("board", jIntGrid o.board), ("action_mask", jBoolGrid o.mask),
        ("num_mines", jInt o.numMines), ("step_count", jInt o.stepCount)]

def getObs (j : Json) : Except String Obs := do
  pure { board := ← fIntGrid j "board", mask := ← fBoolGrid j "action_mask",
         numMines := ← fInt j "num_mines", stepCount := ← fInt j "step_count" }

def jNValue (v : Sp.NValue) : Json := jList (fun (e : String × Sp.Arr) => jObj [("key", jStr e.1), ("value", SpecOps.jArr e.2)]) v
def jNested (s : Sp.Nested) : Json := jList (fun (e : String × Sp.Leaf) => jObj [("key", jStr e.1), ("spec", SpecOps.jLeaf e.2)]) s

def getAction (j : Json) : Except String (Int × Int) := do
  match ← getList getInt j with
  | [r, c] => pure (r, c)
  | _ => throw "action must be [row, col]"

/-- is the (in-spec) action legal by the rules (L2) -/
def legalZ (s : State) (r c : Int) : Bool :=
  decide (0 ≤ r) && decide (0 ≤ c) && decide (legal s r.toNat c.toNat)

/-- {cfg, state, action:[r,c]} → {state, ts, valid} -/
def opStep : Op := fun j => do
  let cfg ← getCfg (← field j "cfg")
  let s ← getState (← field j "state")
  let (r, c) ← getAction (← field j "action")
  let (s', ts) := step cfg s r c
  pure (jObj [("state", jState s'), ("ts", jTimeStep jObs ts), ("valid", jBool (legalZ s r c))])

/-- {cfg, state} → {mask, legal, obs, consistent, objective} -/
def opState : Op := fun j => do
  let cfg ← getCfg (← field j "cfg")
  let s ← getState (← field j "state")
  let co := Jx.Grid.coords (nrows s) (ncols s)
  pure (jObj [("mask", jBools (List.flatten (observeL1 cfg s).mask)),
              ("legal", jBools (co.map (fun p => decide (legal s p.1 p.2)))),
              ("obs", jObs (observe s)),
              -- wave 3: the timestep the model's reset builds for this state (L1 observation), the L1 observation as spec-level
              -- arrays (shape, dtype, data) and whether the model's `obsSpec cfg` accepts it
              ("reset_ts", jTimeStep jObs (resetTimeStep cfg s)),
              ("nvalue", jNValue (toNValue (observeL1 cfg s))),
              ("obs_in_spec", jBool ((obsSpec cfg).valid (toNValue (observeL1 cfg s)))),
              ("consistent", jBool (decide (Consistent cfg s))),
              ("objective", jRat (objective cfg s))])

/-- {cfg, state, action, next, ts} → {illegal_ok, conserved} -/
def opJudge : Op := fun j => do
  let cfg ← getCfg (← field j "cfg")
  let s ← getState (← field j "state")
  let (r, c) ← getAction (← field j "action")
  let s' ← getState (← field j "next")
  let ts ← getTimeStep getObs (← field j "ts")
  -- documented effect of selecting an already revealed square: the episode terminates with the
  -- invalid-action reward; nothing is revealed and no mine moves
  let ill : Json := if legalZ s r c then .null else
    jBool (ts.stepType == .last && ts.reward == [cfg.rInvalid] && decide (s'.board = s.board) &&
           decide (s'.mines = s.mines))
  pure (jObj [("illegal_ok", ill),
              ("conserved", jBool (decide (Conserved s s') && decide (MinesOK cfg s')))])

/-- {cfg, state} → generator certificates (C10) -/
def opInstance : Op := fun j => do
  let cfg ← getCfg (← field j "cfg")
  let s ← getState (← field j "state")
  pure (jObj [("num_mines", jBool (s.mines.length == cfg.numMines)),
              ("mines_distinct", jBool (decide s.mines.Nodup)),
              ("mines_on_board", jBool (decide (∀ m ∈ s.mines, 0 ≤ m ∧ m < ((cfg.numRows * cfg.numCols : Nat) : Int)))),
              ("fresh_board", jBool (decide (InstanceOK cfg s))),
              -- the transliterated generator replayed on the draw read off the state (its mine table)
              ("draw_valid", jBool (decide (validDraw cfg (drawOf s)))),
              ("generate_matches_model", jBool (decide (generate cfg (drawOf s) = s))),
              ("consistent", jBool (decide (Consistent cfg s)))])

/-- {cfg, state: initial state, actions: [[r,c], …] (in-spec)} → the model's whole-episode runner `play` (C08 theorems
    `minesweeper_play_return` / `minesweeper_episode_return` are about it): final state, return, how it ended, the
    counters and both sides of the proved return formula -/
def opEpisode : Op := fun j => do
  let cfg ← getCfg (← field j "cfg")
  let s ← getState (← field j "state")
  let acts ← getList (fun a => do
    match ← getList getNat a with
    | [r, c] => if r < cfg.numRows ∧ c < cfg.numCols then pure (r, c) else throw "episode: action outside the board"
    | _ => throw "episode: action must be [row, col]") (← field j "actions")
  let o := play cfg s acts
  let e := match o.ending with
    | .running => "running" | .cleared => "cleared" | .mine => "mine" | .invalid => "invalid"
  pure (jObj [("final", jState o.final), ("return", jRat o.ret), ("ending", jStr e),
              ("safe_revealed", jNat (safeRevealed o.final)), ("mines_revealed", jNat (minesRevealed o.final)),
              ("formula", jRat (cfg.rEmpty * (safeRevealed o.final : Rat) + terminalTerm cfg o.ending
                               - cfg.rEmpty * (safeRevealed s : Rat))),
              ("objective", jRat (objective cfg o.final)),
              ("start_consistent", jBool (decide (Consistent cfg s)))])

/-- C01 bounds op: {"cfg"} → the proved interval of every observation leaf -/
def opBounds : Op := fun j => do
  let cfg ← getCfg (← field j "cfg")
  pure (jBoundsTable (obsBounds cfg))

/-- {cfg} → the specs of the model (`obsSpec cfg`, `actionSpec cfg`, reward and discount spec) in the `speclib.leaf_json`
    layout, and `generate_value()` of the action spec -/
def opSpec : Op := fun j => do
  let cfg ← getCfg (← field j "cfg")
  pure (jObj [("observation_spec", jNested (obsSpec cfg)), ("action_spec", SpecOps.jLeaf (actionSpec cfg)),
              ("reward_spec", SpecOps.jLeaf PzS.rewardSpec), ("discount_spec", SpecOps.jLeaf PzS.discountSpec),
              ("action_spec_wf", jBool (actionSpec cfg).WF),
              ("generate_value", SpecOps.jArr (actionSpec cfg).generate),
              ("generate_value_legal", jBool ((actionSpec cfg).generate == actionArr 0 0 &&
                                               decide (0 < cfg.numRows ∧ 0 < cfg.numCols)))])

def ops : List (String × Op) :=
  [("minesweeper.spec", opSpec), ("minesweeper.step", opStep), ("minesweeper.state", opState), ("minesweeper.judge", opJudge),
   ("minesweeper.instance", opInstance), ("minesweeper.episode", opEpisode),
   ("minesweeper.bounds", opBounds)]
end Jb.Minesweeper
