/-
JSON helpers for the line-protocol driver.  Only Bridge files and `Driver.lean` import
`Lean.Data.Json`; model files stay import-free.

Conventions (shared with `harness/serialize.py`):
* ints and bools as JSON numbers / booleans; arrays as nested JSON arrays;
* a float is sent as an exact dyadic rational `[num, den]` (two JSON integers, possibly large);
* malformed requests are answered with `Except.error`, never defaulted.
-/
import Lean.Data.Json
import JumanjiModel.Core.TimeStep
open Lean

namespace Jb

abbrev Op := Json → Except String Json

def field (j : Json) (k : String) : Except String Json := j.getObjVal? k

def getInt (j : Json) : Except String Int :=
  match j with
  | .num n => if n.exponent == 0 then pure n.mantissa else
      -- accept numbers such as 3.0 only when integral
      let p := (10 : Int) ^ n.exponent
      if n.mantissa % p == 0 then pure (n.mantissa / p) else throw s!"not an integer: {j}"
  | .bool b => pure (if b then 1 else 0)
  | _ => throw s!"not an integer: {j.compress.take 80}"

def getNat (j : Json) : Except String Nat := do
  let i ← getInt j
  if i < 0 then throw s!"negative where Nat expected: {i}" else pure i.toNat

def getBool (j : Json) : Except String Bool :=
  match j with
  | .bool b => pure b
  | .num n => if n.mantissa == 0 then pure false else pure true
  | _ => throw s!"not a bool: {j.compress.take 80}"

def getStr (j : Json) : Except String String := j.getStr?

def getList {α} (f : Json → Except String α) (j : Json) : Except String (List α) :=
  match j with
  | .arr a => a.toList.mapM f
  | _ => throw s!"not an array: {j.compress.take 80}"

def getRat (j : Json) : Except String Rat :=
  match j with
  | .arr a =>
    if a.size == 2 then do
      let n ← getInt a[0]!
      let d ← getInt a[1]!
      if d == 0 then throw "zero denominator" else pure (mkRat n d.toNat)
    else throw s!"rational must be [num, den]: {j.compress.take 80}"
  | .num _ => do let i ← getInt j; pure (i : Rat)
  | _ => throw s!"not a rational: {j.compress.take 80}"

def fInt (j : Json) (k : String) : Except String Int := do getInt (← field j k)
def fNat (j : Json) (k : String) : Except String Nat := do getNat (← field j k)
def fBool (j : Json) (k : String) : Except String Bool := do getBool (← field j k)
def fStr (j : Json) (k : String) : Except String String := do getStr (← field j k)
def fRat (j : Json) (k : String) : Except String Rat := do getRat (← field j k)
def fInts (j : Json) (k : String) : Except String (List Int) := do getList getInt (← field j k)
def fNats (j : Json) (k : String) : Except String (List Nat) := do getList getNat (← field j k)
def fBools (j : Json) (k : String) : Except String (List Bool) := do getList getBool (← field j k)
def fRats (j : Json) (k : String) : Except String (List Rat) := do getList getRat (← field j k)
def fIntGrid (j : Json) (k : String) : Except String (List (List Int)) := do
  getList (getList getInt) (← field j k)
def fNatGrid (j : Json) (k : String) : Except String (List (List Nat)) := do
  getList (getList getNat) (← field j k)
def fBoolGrid (j : Json) (k : String) : Except String (List (List Bool)) := do
  getList (getList getBool) (← field j k)
def fRatGrid (j : Json) (k : String) : Except String (List (List Rat)) := do
  getList (getList getRat) (← field j k)
/-- optional field -/
def fOpt {α} (j : Json) (k : String) (f : Json → Except String α) : Except String (Option α) :=
  match j.getObjVal? k with
  | .ok .null => pure none
  | .ok v => do pure (some (← f v))
  | .error _ => pure none

def jInt (i : Int) : Json := .num ⟨i, 0⟩
def jNat (n : Nat) : Json := .num ⟨n, 0⟩
def jBool (b : Bool) : Json := .bool b
def jStr (s : String) : Json := .str s
def jRat (r : Rat) : Json := .arr #[jInt r.num, jNat r.den]
def jList {α} (f : α → Json) (xs : List α) : Json := .arr (xs.map f).toArray
def jInts (xs : List Int) : Json := jList jInt xs
def jNats (xs : List Nat) : Json := jList jNat xs
def jBools (xs : List Bool) : Json := jList jBool xs
def jRats (xs : List Rat) : Json := jList jRat xs
def jIntGrid (g : List (List Int)) : Json := jList jInts g
def jNatGrid (g : List (List Nat)) : Json := jList jNats g
def jBoolGrid (g : List (List Bool)) : Json := jList jBools g
def jObj (kvs : List (String × Json)) : Json := Json.mkObj kvs

def jStepType (s : Jm.StepType) : Json := jNat s.toNat

def getStepType (j : Json) : Except String Jm.StepType := do
  match ← getNat j with
  | 0 => pure .first | 1 => pure .mid | 2 => pure .last
  | n => throw s!"bad step type {n}"

/-- timestep → JSON, with an observation encoder -/
def jTimeStep {O} (fo : O → Json) (ts : Jm.TimeStep O) : Json :=
  jObj [("step_type", jStepType ts.stepType), ("reward", jRats ts.reward),
        ("discount", jRats ts.discount), ("obs", fo ts.obs)]

/-- JSON → timestep (reward/discount may be a scalar rational or a list) -/
def getRatsOrScalar (j : Json) : Except String (List Rat) :=
  match j with
  | .arr a =>
    -- a scalar rational is [num, den] of two integers; a vector is a list of such pairs
    if a.size == 2 && (match a[0]! with | .num _ => true | _ => false) then do
      pure [← getRat j]
    else getList getRat j
  | _ => do pure [← getRat j]

def getTimeStep {O} (fo : Json → Except String O) (j : Json) : Except String (Jm.TimeStep O) := do
  let st ← getStepType (← field j "step_type")
  let r ← getRatsOrScalar (← field j "reward")
  let d ← getRatsOrScalar (← field j "discount")
  let o ← fo (← field j "obs")
  pure { stepType := st, reward := r, discount := d, obs := o }

end Jb
