/- Driver ops for Sudoku.  Ops: sudoku.step, sudoku.state, sudoku.judge, sudoku.instance, sudoku.bounds, sudoku.spec -/
import JumanjiModel.Bridge.Json
import JumanjiModel.Env.Sudoku.Model
import JumanjiModel.Env.Sudoku.Bounds
import JumanjiModel.Bridge.PuzzleBounds
import JumanjiModel.Bridge.Spec
import JumanjiModel.Env.Sudoku.SpecValid
open Lean Jb

namespace Jb.Sudoku
open _root_.Sudoku

def getMask (j : Json) : Except String Mask := getList (getList (getList getBool)) j
def jMask (m : Mask) : Json := jList jBoolGrid m

def getState (j : Json) : Except String State := do
  pure { board := ← fIntGrid j "board", mask := ← getMask (← field j "action_mask") }

def jState (s : State) : Json := jObj [("board", jIntGrid s.board), ("action_mask", jMask s.mask)]
def jObs (o : Obs) : Json := jObj [("board", jIntGrid o.board), ("action_mask", jMask o.mask)]
def getObs (j : Json) : Except String Obs := do
  pure { board := ← fIntGrid j "board", mask := ← getMask (← field j "action_mask") }

def jNValue (v : Sp.NValue) : Json := jList (fun (e : String × Sp.Arr) => jObj [("key", jStr e.1), ("value", SpecOps.jArr e.2)]) v

def getAction (j : Json) : Except String (Int × Int × Int) := do
  match ← getList getInt j with
  | [r, c, d] => pure (r, c, d)
  | _ => throw "action must be [row, col, digit]"

def legalZ (b : Jx.Grid Int) (r c d : Int) : Bool :=
  decide (0 ≤ r) && decide (0 ≤ c) && decide (0 ≤ d) && decide (legal b r.toNat c.toNat d.toNat)

def flat3 (m : Mask) : List Bool := List.flatten (List.flatten m)

/-- {cfg, state, action:[r,c,d]} → {state, ts, valid} -/
def opStep : Op := fun j => do
  let s ← getState (← field j "state")
  let (r, c, d) ← getAction (← field j "action")
  let (s', ts) := step s r c d
  pure (jObj [("state", jState s'), ("ts", jTimeStep jObs ts), ("valid", jBool (legalZ s.board r c d))])

/-- {cfg, state} → {mask (L1, recomputed from the board), legal (L2), obs, feasible, solution,
    cached (state.action_mask = L2 table), solved_agrees (L1 is_puzzle_solved = L2 IsSolution)} -/
def opState : Op := fun j => do
  let s ← getState (← field j "state")
  pure (jObj [("mask", jBools (flat3 (maskOf s.board))),
              ("legal", jBools (flat3 (legalTable s.board))),
              ("obs", jObs (observe s)),
              ("feasible", jBool (decide (Feasible s.board))),
              ("solution", jBool (decide (IsSolution s.board) && isSolved s.board)),
              ("cached", jBool (decide (CachedOK s))),
              ("empty_cells", jNat (emptyCells s.board)),
              -- wave 4 (C01 membership): the timestep the model's `reset` builds for this board, the L1 observation of the
              -- state (`Observation(board, action_mask)` copies both fields) as spec-level arrays, `obsSpec.valid` of it, the
              -- invariant of the membership theorems
              ("reset_ts", jTimeStep jObs (reset s.board).2),
              ("nvalue", jNValue (toNValue { board := s.board, mask := s.mask })),
              ("obs_in_spec", jBool (obsSpec.valid (toNValue { board := s.board, mask := s.mask }))),
              ("spec_inv", jBool (decide (SpecInv s)))])

/-- {cfg, state, action, next, ts} → {illegal_ok}: an illegal move ends the episode with reward 0
    (null when the move is legal, or when the state has no legal move left = the episode is over) -/
def opJudge : Op := fun j => do
  let s ← getState (← field j "state")
  let (r, c, d) ← getAction (← field j "action")
  let _s' ← getState (← field j "next")
  let ts ← getTimeStep getObs (← field j "ts")
  let over := !(anyMask (legalTable s.board))
  let ill : Json := if legalZ s.board r c d || over then .null else
    jBool (ts.stepType == .last && ts.reward == [0])
  pure (jObj [("illegal_ok", ill)])

/-- {cfg, state} → generator certificates (C10) -/
def opInstance : Op := fun j => do
  let s ← getState (← field j "state")
  pure (jObj [("shape_9x9", jBool (Jx.Grid.shaped s.board 9 9)),
              ("digits_in_range", jBool (decide (InRange s.board))),
              ("conflict_free", jBool (decide (ConflictFree s.board))),
              ("mask_is_legal_table", jBool (decide (CachedOK s))),
              ("has_empty_cell", jBool (emptyCells s.board > 0)),
              -- the state is the model's transliterated `reset` of its board (Props.C12.sudoku_reset_obs_faithful)
              ("reset_matches_model", jBool (decide ((reset s.board).1 = s))),
              -- wave 4: the invariant of the C01 membership theorems and membership of the reset observation
              ("spec_inv", jBool (decide (SpecInv s))),
              ("reset_obs_in_spec", jBool (obsSpec.valid (toNValue (reset s.board).2.obs)))])

/-- C01 bounds op: {"cfg": {}} → the proved interval of every observation leaf -/
def opBounds : Op := fun _ => do
  pure (jBoundsTable obsBounds)

/-- {cfg} → the model's `obsSpec` (both leaves, incl. the 729-entry `action_mask` leaf; both are also in Gen/Specs.lean since leaves are cut by the size of their bounds),
    `actionSpec`, reward and discount spec in the `speclib.leaf_json` layout, and `generate_value()` of the action spec -/
def opSpec : Op := fun _ => do
  pure (jObj [("observation_spec", SpecOps.jNested obsSpec), ("action_spec", SpecOps.jLeaf actionSpec),
              ("reward_spec", SpecOps.jLeaf PzS.rewardSpec), ("discount_spec", SpecOps.jLeaf PzS.discountSpec),
              ("action_spec_wf", jBool actionSpec.WF), ("generate_value", SpecOps.jArr actionSpec.generate)])

def ops : List (String × Op) :=
  [("sudoku.spec", opSpec), ("sudoku.step", opStep), ("sudoku.state", opState), ("sudoku.judge", opJudge),
   ("sudoku.instance", opInstance),
   ("sudoku.bounds", opBounds)]
end Jb.Sudoku
