/-
`jumanji/wrappers.py`: AutoResetWrapper, VmapWrapper, VmapAutoResetWrapper, MultiToSingleWrapper,
JumanjiToGymWrapper, JumanjiToDMEnvWrapper — over an ARBITRARY environment and the free algebra of
PRNG keys.  Import-free.  States, observations, rewards, extras are opaque types.
-/
import JumanjiModel.Core.TimeStep
namespace Wr
open Jm (StepType)

/-- free splittable keys: distinct terms are distinct keys (idealisation of threefry) -/
inductive Key
  | seed (n : Nat)
  | left (k : Key)    -- jax.random.split(k)[0]
  | right (k : Key)   -- jax.random.split(k)[1]
  deriving DecidableEq, Repr

def Key.depth : Key → Nat
  | .seed _ => 0 | .left k => k.depth + 1 | .right k => k.depth + 1

/-- `k'` is derived from `k` by zero or more splits -/
inductive Key.Desc : Key → Key → Prop
  | refl (k) : Desc k k
  | left {k k'} : Desc k k' → Desc k (.left k')
  | right {k k'} : Desc k k' → Desc k (.right k')

/-- timestep with opaque payloads; `nextObs` is `extras["next_obs"]` when present -/
structure TS (O R X : Type) where
  stepType : StepType
  reward : R
  discount : R
  obs : O
  extras : X
  nextObs : Option O := none
  deriving DecidableEq, Repr

structure Env (S A O R X : Type) where
  reset : Key → S × TS O R X
  step : S → A → S × TS O R X
  key : S → Key

variable {S A O R X : Type}

def TS.last (t : TS O R X) : Bool := t.stepType == .last

/-- `add_obs_to_extras` / the no-op, selected by `next_obs_in_extras` -/
def maybeAddObs (flag : Bool) (t : TS O R X) : TS O R X :=
  if flag then { t with nextObs := some t.obs } else t

/-! ### AutoResetWrapper -/
namespace AutoReset

def autoReset (E : Env S A O R X) (flag : Bool) (s : S) (t : TS O R X) : S × TS O R X :=
  ((E.reset (.left (E.key s))).1, { maybeAddObs flag t with obs := (E.reset (.left (E.key s))).2.obs })

def reset (E : Env S A O R X) (flag : Bool) (k : Key) : S × TS O R X :=
  ((E.reset k).1, maybeAddObs flag (E.reset k).2)

def step (E : Env S A O R X) (flag : Bool) (s : S) (a : A) : S × TS O R X :=
  if (E.step s a).2.last then autoReset E flag (E.step s a).1 (E.step s a).2
  else ((E.step s a).1, maybeAddObs flag (E.step s a).2)

/-- the wrapped environment (the wrapper is itself an environment) -/
def env (E : Env S A O R X) (flag : Bool) : Env S A O R X :=
  { reset := reset E flag, step := step E flag, key := E.key }

/-- keys passed to `env.reset` by the automatic resets along an action sequence -/
def resetKeys (E : Env S A O R X) (flag : Bool) : S → List A → List Key
  | _, [] => []
  | s, a :: as =>
    if (E.step s a).2.last then .left (E.key (E.step s a).1) :: resetKeys E flag (step E flag s a).1 as
    else resetKeys E flag (step E flag s a).1 as

end AutoReset


/-! ### `Wrapper` base class and stacks of wrappers.  `Wrapper(env)` forwards `reset`/`step` to `_env`; a subclass
overrides either by post-processing what `_env` returns and/or pre-processing the key.  `unwrapped` is the innermost
environment.  A wrapper placed ON TOP of such a wrapper must go through the wrapper it was given, not the innermost one. -/
namespace Stack

/-- a user wrapper around `E`: `pre` is applied to the key given to `reset`, `fr` / `fs` to what `_env.reset` / `_env.step`
return (`pre = id`, `fr = fs = id` is the `Wrapper` base class itself) -/
def wrap (E : Env S A O R X) (pre : Key → Key) (fr fs : S × TS O R X → S × TS O R X) : Env S A O R X :=
  { reset := fun k => fr (E.reset (pre k)), step := fun s a => fs (E.step s a), key := E.key }

/-- the (wrong) auto-reset that resets through `unwrapped` instead of the wrapped environment -/
def autoResetUnwrapped (inner outer : Env S A O R X) (flag : Bool) (s : S) (t : TS O R X) : S × TS O R X :=
  ((inner.reset (.left (outer.key s))).1, { maybeAddObs flag t with obs := (inner.reset (.left (outer.key s))).2.obs })

end Stack

/-! ### batched wrappers: `jax.vmap` = map over the batch, `lax.map` = map -/
namespace Vmap

def reset (E : Env S A O R X) (ks : List Key) : List (S × TS O R X) := ks.map E.reset
def step (E : Env S A O R X) (ss : List S) (as : List A) : List (S × TS O R X) := List.zipWith E.step ss as

end Vmap

namespace VmapAutoReset

def maybeReset (E : Env S A O R X) (flag : Bool) (p : S × TS O R X) : S × TS O R X :=
  if p.2.last then AutoReset.autoReset E flag p.1 p.2 else (p.1, maybeAddObs flag p.2)

def reset (E : Env S A O R X) (flag : Bool) (ks : List Key) : List (S × TS O R X) :=
  (ks.map E.reset).map (fun p => (p.1, maybeAddObs flag p.2))

def step (E : Env S A O R X) (flag : Bool) (ss : List S) (as : List A) : List (S × TS O R X) :=
  (List.zipWith E.step ss as).map (maybeReset E flag)

end VmapAutoReset

/-! ### MultiToSingleWrapper -/

/-- `_aggregate_timestep`: a new `TimeStep` with the same step type, observation and extras and the
aggregated reward and discount (the aggregators may change the type: per-agent vector → scalar) -/
def aggregate {R R' : Type} (aggR aggD : R → R') (t : TS O R X) : TS O R' X :=
  { stepType := t.stepType, reward := aggR t.reward, discount := aggD t.discount, obs := t.obs,
    extras := t.extras, nextObs := t.nextObs }

namespace MultiToSingle
variable {R' : Type}

/-- `MultiToSingleWrapper.reset` (line by line) -/
def reset (E : Env S A O R X) (aggR aggD : R → R') (key : Key) : S × TS O R' X :=
  let (state, timestep) := E.reset key
  let timestep := aggregate aggR aggD timestep
  (state, timestep)

/-- `MultiToSingleWrapper.step` (line by line) -/
def step (E : Env S A O R X) (aggR aggD : R → R') (state : S) (action : A) : S × TS O R' X :=
  let (state, timestep) := E.step state action
  let timestep := aggregate aggR aggD timestep
  (state, timestep)

/-- the wrapper is itself an environment (with scalar reward and discount) -/
def env (E : Env S A O R X) (aggR aggD : R → R') : Env S A O R' X :=
  { reset := reset E aggR aggD, step := step E aggR aggD, key := E.key }

/-- default `reward_aggregator = jnp.sum` over the per-agent vector (exact arithmetic) -/
def sumAgg (rs : List Rat) : Rat := rs.foldl (· + ·) 0
/-- default `discount_aggregator = jnp.max` (of a non-empty vector; `jnp.max` of an empty one raises) -/
def maxAgg : List Rat → Rat
  | [] => 0
  | r :: rs => rs.foldl (fun a b => if a ≤ b then b else a) r
/-- the other aggregators exercised by the correspondence check -/
def minAgg : List Rat → Rat
  | [] => 0
  | r :: rs => rs.foldl (fun a b => if b ≤ a then b else a) r
def meanAgg (rs : List Rat) : Rat := sumAgg rs / (rs.length : Rat)

end MultiToSingle

/-! ### Gym and dm_env adapters: state = (key, current env state) -/
namespace Gym

structure St (S : Type) where
  key : Key
  state : Option S

inductive Op (A : Type) | seed (n : Nat) | reset (seed : Option Nat) | step (a : A)

/-- what the adapter returns to the caller -/
inductive Out (O R X : Type)
  | none
  | obs (o : O) (extras : X)
  | stepped (o : O) (r : R) (terminated truncated : Bool) (extras : X)
  | error

/-- `isZero` decides `discount == 0` (scalar discount after aggregation) -/
def run1 (E : Env S A O R X) (isZero : R → Bool) (st : St S) : Op A → St S × Out O R X
  | .seed n => ({ st with key := .seed n }, .none)
  | .reset sd =>
    let k := match sd with | some n => Key.seed n | none => st.key
    ({ key := .right k, state := some (E.reset (.left k)).1 }, .obs (E.reset (.left k)).2.obs (E.reset (.left k)).2.extras)
  | .step a =>
    match st.state with
    | none => (st, .error)
    | some s =>
      ({ st with state := some (E.step s a).1 },
       .stepped (E.step s a).2.obs (E.step s a).2.reward (isZero (E.step s a).2.discount) (E.step s a).2.last
         (E.step s a).2.extras)

def init (seed : Nat) : St S := { key := .seed seed, state := none }

/-- key of the `i`-th reset after seeding with `n` (documented schedule: seed, then one split per
reset): left child of the `i`-fold right spine -/
def rightN : Nat → Key → Key
  | 0, k => k
  | i+1, k => rightN i (.right k)
def resetKey (n i : Nat) : Key := .left (rightN i (.seed n))

end Gym


/-! ### JumanjiToDMEnvWrapper: state = (key, current env state).  There is no `seed` method: the key is
the constructor argument (default `PRNGKey(0)`).  `_state` is only annotated in `__init__`, so `step`
before the first `reset` raises (AttributeError). -/
namespace DmEnv

structure St (S : Type) where
  key : Key
  state : Option S

inductive Op (A : Type) | reset | step (a : A)

/-- `dm_env.TimeStep`: reward and discount are `None` on the first timestep -/
structure DmTS (O R : Type) where
  stepType : StepType
  reward : Option R
  discount : Option R
  obs : O
  deriving DecidableEq, Repr

inductive Out (O R : Type)
  | ts (t : DmTS O R)
  | error
  deriving DecidableEq, Repr

/-- `dm_env.restart(observation)` -/
def restart {O R : Type} (o : O) : DmTS O R := { stepType := .first, reward := none, discount := none, obs := o }

/-- `JumanjiToDMEnvWrapper.reset` / `.step` (line by line) -/
def run1 (E : Env S A O R X) (st : St S) : Op A → St S × Out O R
  | .reset =>
    -- reset_key, self._key = jax.random.split(self._key)
    let resetKey := Key.left st.key
    let key' := Key.right st.key
    -- self._state, timestep = self._jitted_reset(reset_key)
    let (state, timestep) := E.reset resetKey
    ({ key := key', state := some state }, .ts (restart timestep.obs))
  | .step a =>
    match st.state with
    | none => (st, .error)
    | some s =>
      let (state, timestep) := E.step s a
      ({ st with state := some state },
       .ts { stepType := timestep.stepType, reward := some timestep.reward, discount := some timestep.discount,
             obs := timestep.obs })

/-- `JumanjiToDMEnvWrapper(env, key)` -/
def init (k : Key) : St S := { key := k, state := none }

/-- the outputs of a whole call sequence -/
def trace (E : Env S A O R X) : St S → List (Op A) → List (Out O R)
  | _, [] => []
  | st, op :: ops => (run1 E st op).2 :: trace E (run1 E st op).1 ops

def runAll (E : Env S A O R X) : St S → List (Op A) → St S
  | st, [] => st
  | st, op :: ops => runAll E (run1 E st op).1 ops

/-- key of the `i`-th reset of an adapter constructed with key `k` -/
def resetKey (k : Key) (i : Nat) : Key := .left (Gym.rightN i k)

end DmEnv

/-- the native rollout: states and timesteps of `env.step` along an action sequence -/
def rollout (E : Env S A O R X) : S → List A → List (S × TS O R X)
  | _, [] => []
  | s, a :: as => E.step s a :: rollout E (E.step s a).1 as

end Wr
