/-
RobotWarehouse — C07: `step` keeps the floor physically consistent.

The per-agent scan passes through intermediate worlds that are NOT consistent (two agents may
stand on one cell until the later one moves away, and a collision overwrites the agents channel).
The invariant threaded through the scan is therefore a disjunction:
* `Clash w i`  — two already processed agents (ids `< i`) share a cell; processed agents never move
  again, so this persists to the end of the scan, where `is_collision` reports it (step is LAST);
* `Strong s0 w i` — the shelf channel is still the exact picture of the shelf table, every non-empty
  cell of the agents channel is backed by an agent standing there, agents `≥ i` are untouched,
  carrying agents stand on a shelf, no two carrying agents share a cell, and every shelf cell that
  was empty in the start state `s0` holds a processed agent.
At the end `no collision` upgrades `Backed` to the full picture of the agents channel.
-/
import JumanjiModel.Env.RobotWarehouse.MaskLemmas
namespace RobotWarehouse
open Jm

/-! ### small list facts -/

theorem set_getElem?_cases {α} {xs : List α} {i j : Nat} {a b : α} (h : (xs.set i a)[j]? = some b) :
    (j = i ∧ b = a) ∨ (j ≠ i ∧ xs[j]? = some b) := by
  rw [List.getElem?_set] at h
  by_cases hij : i = j
  · subst hij
    simp only [if_true] at h
    split at h
    · exact Or.inl ⟨rfl, (Option.some.inj h).symm⟩
    · cases h
  · simp only [hij, if_false] at h
    exact Or.inr ⟨fun e => hij e.symm, h⟩

theorem set_getElem?_self {α} {xs : List α} {i : Nat} (a : α) (h : i < xs.length) :
    (xs.set i a)[i]? = some a := by
  rw [List.getElem?_set]; simp [h]

theorem set_getElem?_ne {α} {xs : List α} {i j : Nat} (a : α) (h : j ≠ i) :
    (xs.set i a)[j]? = xs[j]? := by
  rw [List.getElem?_set]; simp [Ne.symm h]

theorem setWD_getElem?_ne {α} (xs : List α) {i j : Nat} (a : α) (h : j ≠ i) :
    (Jx.setWD xs (i : Int) a)[j]? = xs[j]? := by
  by_cases hi : i < xs.length
  · rw [Jx.setWD_nat xs a hi]; exact set_getElem?_ne a h
  · unfold Jx.setWD Jx.wrapIdx
    simp only []
    have h1 : ¬ ((i : Int) < 0) := by omega
    have h2 : ((i : Int) ≥ (xs.length : Int)) := by omega
    simp [h1, h2]

/-! ### the cell in front -/

theorem newPos_inGrid {R C : Nat} {x y : Int} (h : inGrid R C x y) (dir : Int) :
    inGrid R C (newPos R C x y dir).1 (newPos R C x y dir).2 := by
  obtain ⟨h1, h2, h3, h4⟩ := h
  unfold newPos inGrid
  simp only []
  repeat' split
  all_goals simp only []
  all_goals omega

/-! ### the scan invariant -/

/-- two processed agents share a cell -/
def Clash (w : World) (i : Nat) : Prop :=
  ∃ (j k : Nat) (a b : Agent), j < k ∧ k < i ∧ w.agents[j]? = some a ∧ w.agents[k]? = some b ∧ apos a = apos b

structure Strong (R C : Nat) (s0 : State) (w : World) (i : Nat) : Prop where
  shS : Jx.Grid.shaped w.shelfGrid R C = true
  shA : Jx.Grid.shaped w.agentGrid R C = true
  alen : w.agents.length = s0.agents.length
  slen : w.shelves.length = s0.shelves.length
  rest : ∀ k, i ≤ k → w.agents[k]? = s0.agents[k]?
  ain : ∀ (k : Nat) (ag : Agent), w.agents[k]? = some ag → inGrid R C ag.x ag.y ∧ 0 ≤ ag.dir ∧ ag.dir < 4
  agBacked : Backed apos R C w.agentGrid w.agents
  shShown : Shown spos R C w.shelfGrid w.shelves
  shBacked : Backed spos R C w.shelfGrid w.shelves
  sreq : ∀ (k : Nat), (w.shelves[k]?).map (·.requested) = (s0.shelves[k]?).map (·.requested)
  carry : ∀ (k : Nat) (ag : Agent), w.agents[k]? = some ag → ag.carrying = true →
    Jx.Grid.getWC w.shelfGrid 0 ag.x ag.y ≠ 0
  carry2 : ∀ (j k : Nat) (a b : Agent), w.agents[j]? = some a → w.agents[k]? = some b →
    a.carrying = true → b.carrying = true → apos a = apos b → j = k
  fresh : ∀ x y, inGrid R C x y → Jx.Grid.getWC w.shelfGrid 0 x y ≠ 0 →
    Jx.Grid.getWC s0.shelfGrid 0 x y ≠ 0 ∨
      ∃ (j : Nat) (a : Agent), j < i ∧ w.agents[j]? = some a ∧ apos a = (x, y)

/-- the start world of a consistent state satisfies the invariant -/
theorem strong_init {cfg : Cfg} {R C : Nat} {s : State} (h : Good cfg R C s) : Strong R C s s.world 0 := by
  refine ⟨h.shS, h.shA, rfl, rfl, fun _ _ => rfl, ?_, h.agBacked, h.shShown, h.shBacked, fun _ => rfl, ?_, ?_, ?_⟩
  · intro k ag hk
    exact ⟨(h.agShown k ag hk).1, h.dirs ag (List.mem_of_getElem? hk)⟩
  · intro k ag hk hc
    have := h.carry ag (List.mem_of_getElem? hk) hc
    exact (shelf_cell_ne_zero_iff h.shShown h.shBacked (h.agShown k ag hk).1).2 this
  · intro j k a b hj hk _ _ hab
    exact h.agShown.distinct hj hk hab
  · intro x y _ hne
    exact Or.inl hne

theorem strong_mono {R C : Nat} {s0 : State} {w : World} {i : Nat} (h : Strong R C s0 w i) :
    Strong R C s0 w (i + 1) := by
  refine ⟨h.shS, h.shA, h.alen, h.slen, fun k hk => h.rest k (by omega), h.ain, h.agBacked, h.shShown,
    h.shBacked, h.sreq, h.carry, h.carry2, ?_⟩
  intro x y hxy hne
  rcases h.fresh x y hxy hne with h1 | ⟨j, a, hj, ha, hp⟩
  · exact Or.inl h1
  · exact Or.inr ⟨j, a, by omega, ha, hp⟩


theorem apos_eq {a b : Agent} (h : apos a = apos b) : a.x = b.x ∧ a.y = b.y := by
  unfold apos at h
  exact ⟨congrArg Prod.fst h, congrArg Prod.snd h⟩

/-- agent `i` is replaced by an agent on the same cell (turn, load, offload) -/
theorem strong_set_same {R C : Nat} {s0 : State} {w : World} {i : Nat} {ag ag' : Agent}
    (h : Strong R C s0 w i) (hi : w.agents[i]? = some ag)
    (hp : apos ag' = apos ag) (hd : 0 ≤ ag'.dir ∧ ag'.dir < 4)
    (hc : ag'.carrying = true → Jx.Grid.getWC w.shelfGrid 0 ag.x ag.y ≠ 0 ∧
       ∀ (k : Nat) (b : Agent), k ≠ i → w.agents[k]? = some b → b.carrying = true → apos b ≠ apos ag) :
    Strong R C s0 { w with agents := w.agents.set i ag' } (i + 1) := by
  have hlt := getElem?_lt hi
  obtain ⟨hx, hy⟩ := apos_eq hp
  refine ⟨h.shS, h.shA, by simp [h.alen], h.slen, ?_, ?_, ?_, h.shShown, h.shBacked, h.sreq, ?_, ?_, ?_⟩
  · intro k hk
    simp only []
    rw [set_getElem?_ne ag' (by omega)]
    exact h.rest k (by omega)
  · intro k a hk
    rcases set_getElem?_cases hk with ⟨rfl, rfl⟩ | ⟨hne, hk'⟩
    · have := (h.ain _ ag hi).1
      rw [hx, hy]; exact ⟨this, hd⟩
    · exact h.ain k a hk'
  · intro x y hxy hne
    obtain ⟨k, e, he, hv, hpe⟩ := h.agBacked x y hxy hne
    by_cases hki : k = i
    · subst hki
      rw [hi] at he
      cases he
      exact ⟨k, ag', set_getElem?_self ag' hlt, hv, hp.trans hpe⟩
    · exact ⟨k, e, by simp only []; rw [set_getElem?_ne ag' hki]; exact he, hv, hpe⟩
  · intro k a hk hca
    rcases set_getElem?_cases hk with ⟨rfl, rfl⟩ | ⟨hne, hk'⟩
    · rw [hx, hy]; exact (hc hca).1
    · exact h.carry k a hk' hca
  · intro j k a b hj hk hca hcb hab
    rcases set_getElem?_cases hj with ⟨rfl, rfl⟩ | ⟨hnej, hj'⟩
    · rcases set_getElem?_cases hk with ⟨rfl, rfl⟩ | ⟨hnek, hk'⟩
      · rfl
      · exact absurd (hab.symm.trans hp) ((hc hca).2 k b hnek hk' hcb)
    · rcases set_getElem?_cases hk with ⟨rfl, rfl⟩ | ⟨hnek, hk'⟩
      · exact absurd (hab.trans hp) ((hc hcb).2 j a hnej hj' hca)
      · exact h.carry2 j k a b hj' hk' hca hcb hab
  · intro x y hxy hne
    rcases h.fresh x y hxy hne with h1 | ⟨j, a, hj, ha, hpa⟩
    · exact Or.inl h1
    · exact Or.inr ⟨j, a, by omega, by simp only []; rw [set_getElem?_ne ag' (by omega)]; exact ha, hpa⟩


theorem turnDir_range (a d : Int) : 0 ≤ turnDir a d ∧ turnDir a d < 4 := by
  unfold turnDir
  generalize Jx.getWC [0, 0, -1, 1, 0] 0 a = δ
  omega

/-- turn / load / offload / nothing -/
theorem turnOrToggle_inv {cfg : Cfg} {R C : Nat} {s0 : State} {w : World} {i : Nat} {ag : Agent}
    (h0 : Good cfg R C s0) (h : Strong R C s0 w i) (hi : w.agents[i]? = some ag) (a : Int) (hwb : Bool) :
    Clash (turnOrToggle w a i hwb) (i + 1) ∨ Strong R C s0 (turnOrToggle w a i hwb) (i + 1) := by
  have hlt := getElem?_lt hi
  have hcar : ag.carrying = true → Jx.Grid.getWC w.shelfGrid 0 ag.x ag.y ≠ 0 ∧
       ∀ (k : Nat) (b : Agent), k ≠ i → w.agents[k]? = some b → b.carrying = true → apos b ≠ apos ag := by
    intro hc
    refine ⟨h.carry i ag hi hc, ?_⟩
    intro k b hk hb hcb hab
    exact hk (h.carry2 k i b ag hb hi hcb hc hab)
  unfold turnOrToggle
  simp only [getWC_idx w.agents default hi, setWD_idx w.agents _ hlt]
  split
  · exact Or.inr (strong_set_same h hi rfl (turnDir_range a ag.dir) hcar)
  · split
    · split
      · rename_i hcell
        by_cases hcl : Clash { w with agents := w.agents.set i { ag with carrying := true } } (i + 1)
        · exact Or.inl hcl
        · refine Or.inr (strong_set_same h hi rfl (h.ain i ag hi).2 ?_)
          intro _
          refine ⟨by omega, ?_⟩
          intro k b hk hb hcb hab
          rcases Nat.lt_or_ge k i with hki | hki
          · apply hcl
            refine ⟨k, i, b, { ag with carrying := true }, hki, by omega, ?_, set_getElem?_self _ hlt, hab⟩
            simp only []
            rw [set_getElem?_ne _ hk]; exact hb
          · have e1 := h.rest k hki
            have e2 := h.rest i (Nat.le_refl i)
            rw [hb] at e1; rw [hi] at e2
            exact hk (h0.agShown.distinct e1.symm e2.symm hab)
      · exact Or.inr (strong_mono h)
    · split
      · refine Or.inr (strong_set_same h hi rfl (h.ain i ag hi).2 ?_)
        intro hc; cases hc
      · exact Or.inr (strong_mono h)


/-- agent `i` steps onto the cell `t`; the shelf side (`sg'`, `shelves'`) is given abstractly -/
theorem strong_move {R C : Nat} {s0 : State} {w : World} {i : Nat} {ag : Agent}
    (h : Strong R C s0 w i) (hi : w.agents[i]? = some ag) (t : Int × Int) (ht : inGrid R C t.1 t.2)
    (sg' A' : IGrid) (shelves' : List Shelf)
    (hA' : Jx.Grid.shaped A' R C = true)
    (hAcell : ∀ x y, inGrid R C x y → Jx.Grid.getWC A' 0 x y =
      if x = t.1 ∧ y = t.2 then (i : Int) + 1 else if x = ag.x ∧ y = ag.y then 0
      else Jx.Grid.getWC w.agentGrid 0 x y)
    (hS' : Jx.Grid.shaped sg' R C = true) (shShown' : Shown spos R C sg' shelves')
    (shBacked' : Backed spos R C sg' shelves') (slen' : shelves'.length = s0.shelves.length)
    (sreq' : ∀ (k : Nat), (shelves'[k]?).map (·.requested) = (s0.shelves[k]?).map (·.requested))
    (carry' : ∀ (k : Nat) (b : Agent), k ≠ i → w.agents[k]? = some b → b.carrying = true →
      Jx.Grid.getWC sg' 0 b.x b.y ≠ 0)
    (carryi : ag.carrying = true → Jx.Grid.getWC sg' 0 t.1 t.2 ≠ 0)
    (carry2i : ag.carrying = true → ∀ (k : Nat) (b : Agent), k ≠ i → w.agents[k]? = some b →
      b.carrying = true → apos b ≠ t)
    (fresh' : ∀ x y, inGrid R C x y → Jx.Grid.getWC sg' 0 x y ≠ 0 →
      (x, y) = t ∨ Jx.Grid.getWC w.shelfGrid 0 x y ≠ 0) :
    Strong R C s0 ⟨sg', A', w.agents.set i { ag with x := t.1, y := t.2 }, shelves'⟩ (i + 1) := by
  have hlt := getElem?_lt hi
  refine ⟨hS', hA', by simp [h.alen], slen', ?_, ?_, ?_, shShown', shBacked', sreq', ?_, ?_, ?_⟩
  · intro k hk
    simp only []
    rw [set_getElem?_ne _ (by omega)]
    exact h.rest k (by omega)
  · intro k a hk
    rcases set_getElem?_cases hk with ⟨rfl, rfl⟩ | ⟨hne, hk'⟩
    · exact ⟨ht, (h.ain _ ag hi).2⟩
    · exact h.ain k a hk'
  · intro x y hxy hne
    rw [hAcell x y hxy] at hne ⊢
    by_cases h1 : x = t.1 ∧ y = t.2
    · simp only [h1, and_self, if_true]
      refine ⟨i, _, set_getElem?_self _ hlt, rfl, ?_⟩
      simp [apos]
    · simp only [h1, if_false] at hne ⊢
      by_cases h2 : x = ag.x ∧ y = ag.y
      · simp [h2] at hne
      · simp only [h2, if_false] at hne ⊢
        obtain ⟨k, e, he, hv, hpe⟩ := h.agBacked x y hxy hne
        have hki : k ≠ i := by
          rintro rfl
          rw [hi] at he; cases he
          have := apos_eq (b := ⟨x, y, 0, false⟩) hpe
          exact h2 ⟨this.1.symm, this.2.symm⟩
        exact ⟨k, e, by rw [set_getElem?_ne _ hki]; exact he, hv, hpe⟩
  · intro k a hk hca
    rcases set_getElem?_cases hk with ⟨rfl, rfl⟩ | ⟨hne, hk'⟩
    · exact carryi hca
    · exact carry' k a hne hk' hca
  · intro j k a b hj hk hca hcb hab
    rcases set_getElem?_cases hj with ⟨rfl, rfl⟩ | ⟨hnej, hj'⟩
    · rcases set_getElem?_cases hk with ⟨rfl, rfl⟩ | ⟨hnek, hk'⟩
      · rfl
      · exact absurd hab.symm (carry2i hca k b hnek hk' hcb)
    · rcases set_getElem?_cases hk with ⟨rfl, rfl⟩ | ⟨hnek, hk'⟩
      · exact absurd hab (carry2i hcb j a hnej hj' hca)
      · exact h.carry2 j k a b hj' hk' hca hcb hab
  · intro x y hxy hne
    rcases fresh' x y hxy hne with h1 | h1
    · exact Or.inr ⟨i, _, by omega, set_getElem?_self _ hlt, by simp [apos, h1]⟩
    · rcases h.fresh x y hxy h1 with h2 | ⟨j, a, hj, ha, hpa⟩
      · exact Or.inl h2
      · exact Or.inr ⟨j, a, by omega, by simp only []; rw [set_getElem?_ne _ (by omega)]; exact ha, hpa⟩


theorem spos_eq {a : Shelf} {x y : Int} (h : spos a = (x, y)) : a.x = x ∧ a.y = y := by
  unfold spos at h
  exact ⟨congrArg Prod.fst h, congrArg Prod.snd h⟩

/-- `forward`, written out on an in-range agent -/
theorem forward_eq {R C : Nat} {w : World} {i : Nat} {ag : Agent} (hi : w.agents[i]? = some ag)
    (hS : Jx.Grid.shaped w.shelfGrid R C = true) (hR : 0 < R) :
    forward w i =
      (if ag.carrying = true then
        ⟨Jx.Grid.setWD (Jx.Grid.setWD w.shelfGrid ag.x ag.y 0) (newPos R C ag.x ag.y ag.dir).1
            (newPos R C ag.x ag.y ag.dir).2 (Jx.Grid.getWC w.shelfGrid 0 ag.x ag.y),
         Jx.Grid.setWD (Jx.Grid.setWD w.agentGrid ag.x ag.y 0) (newPos R C ag.x ag.y ag.dir).1
            (newPos R C ag.x ag.y ag.dir).2 ((i : Int) + 1),
         w.agents.set i { ag with x := (newPos R C ag.x ag.y ag.dir).1, y := (newPos R C ag.x ag.y ag.dir).2 },
         Jx.setWD w.shelves (Jx.Grid.getWC w.shelfGrid 0 ag.x ag.y - 1)
           { Jx.getWC w.shelves default (Jx.Grid.getWC w.shelfGrid 0 ag.x ag.y - 1) with
             x := (newPos R C ag.x ag.y ag.dir).1, y := (newPos R C ag.x ag.y ag.dir).2 }⟩
      else
        ⟨w.shelfGrid,
         Jx.Grid.setWD (Jx.Grid.setWD w.agentGrid ag.x ag.y 0) (newPos R C ag.x ag.y ag.dir).1
            (newPos R C ag.x ag.y ag.dir).2 ((i : Int) + 1),
         w.agents.set i { ag with x := (newPos R C ag.x ag.y ag.dir).1, y := (newPos R C ag.x ag.y ag.dir).2 },
         w.shelves⟩) := by
  have hlt := getElem?_lt hi
  have hd := shaped_dims hS hR
  have eR : gRows w.shelfGrid = R := hd.1
  have eC : gCols w.shelfGrid = C := hd.2
  unfold forward
  simp only [getWC_idx w.agents default hi, setWD_idx w.agents _ hlt, eR, eC]

theorem forward_inv {cfg : Cfg} {R C : Nat} {s0 : State} {w : World} {i : Nat} {ag : Agent}
    (h0 : Good cfg R C s0) (h : Strong R C s0 w i) (hi : w.agents[i]? = some ag)
    (hallow : isValidAction s0.shelfGrid ag 1 = true) :
    Clash (forward w i) (i + 1) ∨ Strong R C s0 (forward w i) (i + 1) := by
  have hlt := getElem?_lt hi
  have hpin := (h.ain i ag hi).1
  have ht := newPos_inGrid hpin ag.dir
  by_cases hcl : Clash (forward w i) (i + 1)
  · exact Or.inl hcl
  refine Or.inr ?_
  rw [forward_eq hi h.shS h0.hR] at hcl ⊢
  generalize htdef : newPos R C ag.x ag.y ag.dir = t at hcl ht ⊢
  have hA' : Jx.Grid.shaped (Jx.Grid.setWD (Jx.Grid.setWD w.agentGrid ag.x ag.y 0) t.1 t.2 ((i : Int) + 1)) R C = true :=
    shaped_setWD (shaped_setWD h.shA _ _ _) _ _ _
  have hAcell : ∀ x y, inGrid R C x y →
      Jx.Grid.getWC (Jx.Grid.setWD (Jx.Grid.setWD w.agentGrid ag.x ag.y 0) t.1 t.2 ((i : Int) + 1)) 0 x y =
      if x = t.1 ∧ y = t.2 then (i : Int) + 1 else if x = ag.x ∧ y = ag.y then 0
      else Jx.Grid.getWC w.agentGrid 0 x y := by
    intro x y hxy
    rw [cell_setWD (shaped_setWD h.shA _ _ _) ht hxy, cell_setWD h.shA hpin hxy]
  split
  · rename_i hc
    split at hcl
    case isFalse hn => exact absurd hc hn
    -- the carried shelf
    have hsid := h.carry i ag hi hc
    obtain ⟨k, e, he, hv, hpe⟩ := h.shBacked ag.x ag.y hpin hsid
    have hklt := getElem?_lt he
    obtain ⟨hex, hey⟩ := spos_eq hpe
    have e1 : Jx.Grid.getWC w.shelfGrid 0 ag.x ag.y - 1 = (k : Int) := by omega
    rw [e1, getWC_idx w.shelves default he, setWD_idx w.shelves _ hklt] at hcl ⊢
    rw [hv] at hcl ⊢
    have hS' : Jx.Grid.shaped (Jx.Grid.setWD (Jx.Grid.setWD w.shelfGrid ag.x ag.y 0) t.1 t.2 ((k : Int) + 1)) R C = true :=
      shaped_setWD (shaped_setWD h.shS _ _ _) _ _ _
    have hScell : ∀ x y, inGrid R C x y →
        Jx.Grid.getWC (Jx.Grid.setWD (Jx.Grid.setWD w.shelfGrid ag.x ag.y 0) t.1 t.2 ((k : Int) + 1)) 0 x y =
        if x = t.1 ∧ y = t.2 then (k : Int) + 1 else if x = ag.x ∧ y = ag.y then 0
        else Jx.Grid.getWC w.shelfGrid 0 x y := by
      intro x y hxy
      rw [cell_setWD (shaped_setWD h.shS _ _ _) ht hxy, cell_setWD h.shS hpin hxy]
    -- the target cell is the agent's own cell (border) or free of shelves
    have tfree : (t.1 = ag.x ∧ t.2 = ag.y) ∨ Jx.Grid.getWC w.shelfGrid 0 t.1 t.2 = 0 := by
      by_cases h1 : t.1 = ag.x ∧ t.2 = ag.y
      · exact Or.inl h1
      refine Or.inr ?_
      by_cases h2 : Jx.Grid.getWC w.shelfGrid 0 t.1 t.2 = 0
      · exact h2
      exfalso
      rcases h.fresh t.1 t.2 ht h2 with h3 | ⟨j, a, hj, ha, hpa⟩
      · have hd0 := shaped_dims h0.shS h0.hR
        have eR : gRows s0.shelfGrid = R := hd0.1
        have eC : gCols s0.shelfGrid = C := hd0.2
        unfold isValidAction at hallow
        simp only [eR, eC, htdef] at hallow
        have h1' : ¬ (ag.x = t.1 ∧ ag.y = t.2) := fun hh => h1 ⟨hh.1.symm, hh.2.symm⟩
        have : (decide (ag.x = t.1) && decide (ag.y = t.2)) = false := by
          simp only [Bool.and_eq_false_iff, decide_eq_false_iff_not]
          by_cases hx : ag.x = t.1
          · exact Or.inr (fun hy => h1' ⟨hx, hy⟩)
          · exact Or.inl hx
        simp [hc, this, h3] at hallow
      · apply hcl
        refine ⟨j, i, a, _, hj, by omega, ?_, set_getElem?_self _ hlt, ?_⟩
        · simp only []
          rw [set_getElem?_ne _ (by omega)]; exact ha
        · rw [hpa]; simp [apos]
    apply strong_move h hi t ht _ _ _ hA' hAcell hS'
    · -- Shown
      intro m sh hm
      rcases set_getElem?_cases hm with ⟨rfl, rfl⟩ | ⟨hne, hm'⟩
      · refine ⟨ht, ?_⟩
        simp only [spos]
        rw [hScell _ _ ht]; simp
      · obtain ⟨hin, hval⟩ := h.shShown m sh hm'
        refine ⟨hin, ?_⟩
        rw [hScell _ _ hin]
        have hnp : ¬ ((spos sh).1 = ag.x ∧ (spos sh).2 = ag.y) := by
          intro hh
          have : spos sh = spos e := by rw [hpe]; exact Prod.ext hh.1 hh.2
          exact hne (h.shShown.distinct hm' he this)
        have hnt : ¬ ((spos sh).1 = t.1 ∧ (spos sh).2 = t.2) := by
          intro hh
          rw [hh.1, hh.2] at hval
          rcases tfree with h1 | h1
          · exact hnp ⟨hh.1.trans h1.1, hh.2.trans h1.2⟩
          · omega
        simp only [hnp, hnt, if_false]
        exact hval
    · -- Backed
      intro x y hxy hne
      rw [hScell x y hxy] at hne ⊢
      by_cases h1 : x = t.1 ∧ y = t.2
      · simp only [h1, and_self, if_true]
        exact ⟨k, _, set_getElem?_self _ hklt, rfl, by simp [spos]⟩
      · simp only [h1, if_false] at hne ⊢
        by_cases h2 : x = ag.x ∧ y = ag.y
        · simp [h2] at hne
        · simp only [h2, if_false] at hne ⊢
          obtain ⟨m, sh, hm, hv', hps⟩ := h.shBacked x y hxy hne
          have hmk : m ≠ k := by
            rintro rfl
            rw [he] at hm; cases hm
            obtain ⟨q1, q2⟩ := spos_eq hps
            exact h2 ⟨q1.symm.trans hex, q2.symm.trans hey⟩
          exact ⟨m, sh, by rw [set_getElem?_ne _ hmk]; exact hm, hv', hps⟩
    · simp [h.slen]
    · intro m
      by_cases hmk : m = k
      · subst hmk
        rw [set_getElem?_self _ hklt, ← h.sreq m, he]; rfl
      · rw [set_getElem?_ne _ hmk]; exact h.sreq m
    · -- other carrying agents still stand on a shelf
      intro k' b hk' hb hcb
      have hbin := (h.ain k' b hb).1
      have hold := h.carry k' b hb hcb
      rw [hScell _ _ hbin]
      by_cases h1 : b.x = t.1 ∧ b.y = t.2
      · simp only [h1, and_self, if_true]; omega
      · simp only [h1, if_false]
        by_cases h2 : b.x = ag.x ∧ b.y = ag.y
        · exfalso
          apply hk'
          exact h.carry2 k' i b ag hb hi hcb hc (by simp [apos, h2])
        · simp only [h2, if_false]; exact hold
    · intro _
      rw [hScell _ _ ht]; simp only [and_self, if_true]; omega
    · intro _ k' b hk' hb hcb hab
      have hbx := apos_eq (b := ⟨t.1, t.2, 0, false⟩) hab
      simp only [] at hbx
      rcases tfree with h1 | h1
      · apply hk'
        exact h.carry2 k' i b ag hb hi hcb hc (by simp [apos, hbx.1, hbx.2, h1])
      · have := h.carry k' b hb hcb
        rw [hbx.1, hbx.2] at this
        exact this h1
    · intro x y hxy hne
      rw [hScell x y hxy] at hne
      by_cases h1 : x = t.1 ∧ y = t.2
      · exact Or.inl (Prod.ext h1.1 h1.2)
      · simp only [h1, if_false] at hne
        by_cases h2 : x = ag.x ∧ y = ag.y
        · simp [h2] at hne
        · simp only [h2, if_false] at hne
          exact Or.inr hne
  · rename_i hc
    apply strong_move h hi t ht _ _ _ hA' hAcell h.shS h.shShown h.shBacked h.slen h.sreq
    · exact fun k b _ hb hcb => h.carry k b hb hcb
    · exact fun hh => absurd hh hc
    · exact fun hh => absurd hh hc
    · exact fun x y _ hne => Or.inr hne


/-! ### the scan -/

/-- processing agent `i` touches no other row of the agent table -/
theorem updateAgent_agents_ne (hw : List (List Bool)) (w : World) (a : Int) {i j : Nat} (h : j ≠ i) :
    (updateAgent hw w a i).agents[j]? = w.agents[j]? := by
  unfold updateAgent forward turnOrToggle
  simp only []
  repeat' split
  all_goals first | rfl | exact setWD_getElem?_ne _ _ h

theorem clash_step (hw : List (List Bool)) {w : World} (a : Int) {i : Nat} (h : Clash w i) :
    Clash (updateAgent hw w a i) (i + 1) := by
  obtain ⟨j, k, x, y, hjk, hki, hj, hk, hxy⟩ := h
  refine ⟨j, k, x, y, hjk, by omega, ?_, ?_, hxy⟩
  · rw [updateAgent_agents_ne hw w a (by omega)]; exact hj
  · rw [updateAgent_agents_ne hw w a (by omega)]; exact hk

theorem updateAgent_inv {cfg : Cfg} {R C : Nat} {s0 : State} {w : World} {i : Nat} {ag : Agent}
    (h0 : Good cfg R C s0) (h : Clash w i ∨ Strong R C s0 w i) (hi : s0.agents[i]? = some ag) (a : Int)
    (hallow : a = 1 → isValidAction s0.shelfGrid ag 1 = true) (hw : List (List Bool)) :
    Clash (updateAgent hw w a i) (i + 1) ∨ Strong R C s0 (updateAgent hw w a i) (i + 1) := by
  rcases h with h | h
  · exact Or.inl (clash_step hw a h)
  · have hi' : w.agents[i]? = some ag := by rw [h.rest i (Nat.le_refl i)]; exact hi
    unfold updateAgent
    simp only []
    split
    · rename_i h1
      exact forward_inv h0 h hi' (hallow h1)
    · exact turnOrToggle_inv h0 h hi' a _

theorem scan_inv {cfg : Cfg} {R C : Nat} {s0 : State} (h0 : Good cfg R C s0) (hw : List (List Bool)) :
    ∀ (as : List Int) (w : World) (i : Nat), (Clash w i ∨ Strong R C s0 w i) →
      i + as.length ≤ s0.agents.length →
      (∀ (m : Nat) (ag : Agent), as[m]? = some 1 → s0.agents[i + m]? = some ag →
        isValidAction s0.shelfGrid ag 1 = true) →
      Clash (scanAgents hw w as i) (i + as.length) ∨ Strong R C s0 (scanAgents hw w as i) (i + as.length) := by
  intro as
  induction as with
  | nil => intro w i h _ _; simpa [scanAgents] using h
  | cons a as ih =>
    intro w i h hlen hall
    simp only [List.length_cons] at hlen
    have hi : i < s0.agents.length := by omega
    have h1 := updateAgent_inv h0 h (List.getElem?_eq_getElem hi) a
      (fun ha => hall 0 _ (by simp [ha]) (by simp)) hw
    have h2 := ih (updateAgent hw w a i) (i + 1) h1 (by omega)
      (fun m ag hm hag => hall (m + 1) ag (by simpa using hm) (by rw [← hag]; congr 1; omega))
    simp only [scanAgents, List.length_cons]
    have e : i + (as.length + 1) = i + 1 + as.length := by omega
    rw [e]; exact h2

/-- what `get_valid_actions` lets through as FORWARD was valid in the start state -/
theorem validActions_allowed (sg : IGrid) (agents : List Agent) (actions : List Int) {m : Nat} {ag : Agent}
    (hm : (validActions (computeMask sg agents) actions)[m]? = some 1) (hag : agents[m]? = some ag) :
    isValidAction sg ag 1 = true := by
  unfold validActions at hm
  rw [List.getElem?_zipWith_eq_some] at hm
  obtain ⟨row, act, hrow, _, hf⟩ := hm
  unfold computeMask at hrow
  rw [List.getElem?_map, hag] at hrow
  simp only [Option.map_some] at hrow
  cases hrow
  split at hf
  · rename_i hb
    subst hf
    have : Jx.getWC (List.map (fun (a : Nat) => isValidAction sg ag (a : Int)) (List.range 5)) false 1 =
        isValidAction sg ag 1 := by
      have := Jx.getWC_nat (List.map (fun (a : Nat) => isValidAction sg ag (a : Int)) (List.range 5)) false
        (a := 1) (by simp)
      simpa [List.getD_eq_getElem?_getD] using this
    rw [← this]; exact hb
  · omega

theorem validActions_length_le (mask : List (List Bool)) (actions : List Int) :
    (validActions mask actions).length ≤ mask.length := by
  unfold validActions; simp [List.length_zipWith]; omega

/-- C07, the scan: from a consistent state the world after the per-agent scan either holds two
agents on one cell or satisfies the strong invariant -/
theorem scan_from_good {cfg : Cfg} {R C : Nat} {s : State} (h : Good cfg R C s) (actions : List Int) :
    let acts := validActions s.mask actions
    Clash (scanAgents cfg.highways s.world acts 0) acts.length ∨
      Strong R C s (scanAgents cfg.highways s.world acts 0) acts.length := by
  intro acts
  have hl : acts.length ≤ s.agents.length := by
    have h1 := validActions_length_le s.mask actions
    have h2 : s.mask.length = s.agents.length := by rw [h.mask]; simp [computeMask]
    show (validActions s.mask actions).length ≤ s.agents.length
    omega
  have := scan_inv h cfg.highways acts s.world 0 (Or.inr (strong_init h)) (by omega)
    (fun m ag hm hag => by
      rw [Nat.zero_add] at hag
      have hm' : (validActions (computeMask s.shelfGrid s.agents) actions)[m]? = some 1 := by
        rw [← h.mask]; exact hm
      exact validActions_allowed _ _ _ hm' hag)
  simpa using this

end RobotWarehouse
