/-
RobotWarehouse — C04 (`mask_iff_legal`: the L1 mask bit is the L2 legality read from the entity
tables) and C05 (exactly when the no-op clears `is_carrying`).
-/
import JumanjiModel.Env.RobotWarehouse.PictureLemmas
namespace RobotWarehouse
open Jm

/-- a cell of the shelf channel is non-empty iff the shelf table has a shelf there -/
theorem shelf_cell_ne_zero_iff {R C : Nat} {g : IGrid} {shelves : List Shelf}
    (h1 : Shown spos R C g shelves) (h2 : Backed spos R C g shelves) {x y : Int} (hxy : inGrid R C x y) :
    Jx.Grid.getWC g 0 x y ≠ 0 ↔ (shelfAt shelves (x, y)).isSome = true := by
  rw [shelfAt_isSome]
  constructor
  · intro hne
    obtain ⟨k, e, he, _, hp⟩ := h2 x y hxy hne
    exact ⟨e, List.mem_of_getElem? he, hp⟩
  · rintro ⟨sh, hm, hp⟩
    obtain ⟨k, hk, rfl⟩ := List.getElem_of_mem hm
    have := (h1 k shelves[k] (List.getElem?_eq_getElem hk)).2
    rw [hp] at this
    simp only [] at this
    omega

/-- the L1 "would push the carried shelf into a shelf" test is the L2 `blocked ahead` test -/
theorem blocked_iff {R C : Nat} {g : IGrid} {shelves : List Shelf}
    (h1 : Shown spos R C g shelves) (h2 : Backed spos R C g shelves) (hR : g.length = R)
    (hC : (g.headD []).length = C) {ag : Agent} (hin : inGrid R C ag.x ag.y) (hd : 0 ≤ ag.dir ∧ ag.dir < 4) :
    ((!(decide (ag.x = (newPos (gRows g) (gCols g) ag.x ag.y ag.dir).1) &&
        decide (ag.y = (newPos (gRows g) (gCols g) ag.x ag.y ag.dir).2))) &&
      decide (Jx.Grid.getWC g 0 (newPos (gRows g) (gCols g) ag.x ag.y ag.dir).1
        (newPos (gRows g) (gCols g) ag.x ag.y ag.dir).2 ≠ 0)) =
    (match ahead (gRows g) (gCols g) ag with
      | some c => (shelfAt shelves c).isSome
      | none => false) := by
  have eR : gRows g = R := hR
  have eC : gCols g = C := hC
  rw [eR, eC]
  obtain ⟨x, y, dir, cr⟩ := ag
  simp only [] at hin hd ⊢
  obtain ⟨i1, i2, i3, i4⟩ := hin
  have key : ∀ (tx ty : Int), inGrid R C tx ty → ¬ (x = tx ∧ y = ty) →
      ((!(decide (x = tx) && decide (y = ty))) && decide (Jx.Grid.getWC g 0 tx ty ≠ 0)) =
        (shelfAt shelves (tx, ty)).isSome := by
    intro tx ty ht hne
    have e := shelf_cell_ne_zero_iff h1 h2 ht
    have : (decide (x = tx) && decide (y = ty)) = false := by
      simp only [Bool.and_eq_false_iff, decide_eq_false_iff_not]
      by_cases hx : x = tx
      · exact Or.inr (fun hy => hne ⟨hx, hy⟩)
      · exact Or.inl hx
    rw [this]
    simp only [Bool.not_false, Bool.true_and]
    by_cases hz : Jx.Grid.getWC g 0 tx ty = 0
    · have : ¬ ((shelfAt shelves (tx, ty)).isSome = true) := fun hs => (e.2 hs) hz
      simp [hz, this]
    · have := e.1 hz
      simp [hz, this]
  have self : ∀ (b : Bool), ((!(decide (x = x) && decide (y = y))) && b) = false := by simp
  have hdir : dir = 0 ∨ dir = 1 ∨ dir = 2 ∨ dir = 3 := by omega
  have n0 : newPos R C x y 0 = (max 0 (x - 1), y) := by simp [newPos]
  have n1 : newPos R C x y 1 = (x, min ((C : Int) - 1) (y + 1)) := by simp [newPos]
  have n2 : newPos R C x y 2 = (min ((R : Int) - 1) (x + 1), y) := by simp [newPos]
  have n3 : newPos R C x y 3 = (x, max 0 (y - 1)) := by simp [newPos]
  have a0 : ahead R C ⟨x, y, 0, cr⟩ = if inGrid R C (x - 1) y then some (x - 1, y) else none := by
    simp [ahead]
  have a1 : ahead R C ⟨x, y, 1, cr⟩ = if inGrid R C x (y + 1) then some (x, y + 1) else none := by
    simp [ahead]
  have a2 : ahead R C ⟨x, y, 2, cr⟩ = if inGrid R C (x + 1) y then some (x + 1, y) else none := by
    simp [ahead]
  have a3 : ahead R C ⟨x, y, 3, cr⟩ = if inGrid R C x (y - 1) then some (x, y - 1) else none := by
    simp [ahead]
  rcases hdir with rfl | rfl | rfl | rfl
  · rw [n0, a0]
    by_cases hb : 0 ≤ x - 1
    · have e1 : max 0 (x - 1) = x - 1 := by omega
      have hg : inGrid R C (x - 1) y := ⟨hb, by omega, i3, i4⟩
      rw [if_pos hg]; simp only [e1]
      simpa using key (x - 1) y hg (by omega)
    · have e1 : max 0 (x - 1) = x := by omega
      have hg : ¬ inGrid R C (x - 1) y := fun h => hb h.1
      rw [if_neg hg]; simp only [e1]
      simp
  · rw [n1, a1]
    by_cases hb : y + 1 < C
    · have e1 : min ((C : Int) - 1) (y + 1) = y + 1 := by omega
      have hg : inGrid R C x (y + 1) := ⟨i1, i2, by omega, hb⟩
      rw [if_pos hg]; simp only [e1]
      simpa using key x (y + 1) hg (by omega)
    · have e1 : min ((C : Int) - 1) (y + 1) = y := by omega
      have hg : ¬ inGrid R C x (y + 1) := fun h => hb h.2.2.2
      rw [if_neg hg]; simp only [e1]
      simp
  · rw [n2, a2]
    by_cases hb : x + 1 < R
    · have e1 : min ((R : Int) - 1) (x + 1) = x + 1 := by omega
      have hg : inGrid R C (x + 1) y := ⟨by omega, hb, i3, i4⟩
      rw [if_pos hg]; simp only [e1]
      simpa using key (x + 1) y hg (by omega)
    · have e1 : min ((R : Int) - 1) (x + 1) = x := by omega
      have hg : ¬ inGrid R C (x + 1) y := fun h => hb h.2.1
      rw [if_neg hg]; simp only [e1]
      simp
  · rw [n3, a3]
    by_cases hb : 0 ≤ y - 1
    · have e1 : max 0 (y - 1) = y - 1 := by omega
      have hg : inGrid R C x (y - 1) := ⟨i1, i2, hb, by omega⟩
      rw [if_pos hg]; simp only [e1]
      simpa using key x (y - 1) hg (by omega)
    · have e1 : max 0 (y - 1) = y := by omega
      have hg : ¬ inGrid R C x (y - 1) := fun h => hb h.2.2.1
      rw [if_neg hg]; simp only [e1]
      simp


theorem getD_of_getElem? {α} {xs : List α} {i : Nat} {e d : α} (h : xs[i]? = some e) : xs.getD i d = e := by
  simp [List.getD_eq_getElem?_getD, h]

/-- per agent and action: the L1 validity test equals L2 legality -/
theorem isValidAction_eq_legal {cfg : Cfg} {R C : Nat} {s : State} (h : Good cfg R C s) {i : Nat} {ag : Agent}
    (hi : s.agents[i]? = some ag) (a : Nat) :
    isValidAction s.shelfGrid ag (a : Int) = decide (legal s i a) := by
  have hm := List.mem_of_getElem? hi
  have hd := shaped_dims h.shS h.hR
  have hb := blocked_iff h.shShown h.shBacked hd.1 hd.2 (h.agShown i ag hi).1 (h.dirs ag hm)
  have hb' := hb.trans (show _ = blockedAhead s i by
    unfold blockedAhead; rw [getD_of_getElem? hi]
    cases ahead (gRows s.shelfGrid) (gCols s.shelfGrid) ag <;> rfl)
  unfold isValidAction legal
  simp only [getD_of_getElem? hi]
  rw [← hb']
  simp only [Bool.and_assoc]
  have e : ((a : Int) = 1) ↔ (a = 1) := by omega
  simp only [e]
  by_cases h1 : a = 1 <;> by_cases h2 : ag.carrying = true <;> simp [h1, h2]

/-- C04: under `Consistent` the L1 mask is the L2 legality table -/
theorem mask_eq_legalMask {cfg : Cfg} {s : State} (hc : Consistent cfg s) :
    computeMask s.shelfGrid s.agents = legalMask s := by
  have h := (consistent_iff_good cfg s).1 hc
  unfold computeMask legalMask
  apply List.ext_getElem
  · simp
  · intro i h1 h2
    simp only [List.length_map] at h1
    simp only [List.getElem_map, List.getElem_range]
    apply List.map_congr_left
    intro a _
    exact isValidAction_eq_legal h (List.getElem?_eq_getElem h1) a

theorem mask_iff_legal {cfg : Cfg} {s : State} (hc : Consistent cfg s) {i a : Nat}
    (hi : i < s.agents.length) (ha : a < 5) :
    ((computeMask s.shelfGrid s.agents).getD i []).getD a false = true ↔ legal s i a := by
  have h := (consistent_iff_good cfg s).1 hc
  have e := isValidAction_eq_legal h (List.getElem?_eq_getElem hi) a
  unfold computeMask
  simp only [List.getD_eq_getElem?_getD, List.getElem?_map, List.getElem?_eq_getElem hi, Option.map_some,
    Option.getD_some, List.getElem?_range ha, e, decide_eq_true_eq]

end RobotWarehouse
