/-
RobotWarehouse — C05: the exact effect of a masked-out action.  It is replaced by the no-op, and the
no-op runs `offload_shelf_if_position_is_open`: the agent keeps cell and direction, nothing else in the
world changes, and `is_carrying` becomes `is_carrying && on_highway(cell)`.  So the holdings are lost
exactly when the agent was carrying and does NOT stand on a highway cell (known finding RW1), and kept
in every other case.
-/
import JumanjiModel.Env.RobotWarehouse.StepLemmas
namespace RobotWarehouse
open Jm

/-- the no-op, written out -/
theorem noop_exact (hw : List (List Bool)) (w : World) {i : Nat} {ag : Agent} (hi : w.agents[i]? = some ag) :
    updateAgent hw w 0 i =
      { w with agents := (w.agents.set i
          ({ ag with carrying := ag.carrying && Jx.Grid.getWC hw false ag.x ag.y } : Agent)) } := by
  have hlt := getElem?_lt hi
  have hag : w.agents[i] = ag := by
    rw [List.getElem?_eq_getElem hlt] at hi; exact Option.some.inj hi
  unfold updateAgent turnOrToggle
  simp only [getWC_idx w.agents default hi, setWD_idx w.agents _ hlt]
  have h1 : ¬ ((0 : Int) = 1) := by decide
  have h2 : ¬ ((0 : Int) = 2 ∨ (0 : Int) = 3) := by decide
  have h3 : ¬ ((0 : Int) = 4 ∧ ag.carrying = false) := by intro h; exact absurd h.1 (by decide)
  simp only [h1, h2, h3, if_false]
  by_cases hh : Jx.Grid.getWC hw false ag.x ag.y = true
  · simp only [hh, Bool.not_true, Bool.and_true]
    have : ({ ag with carrying := ag.carrying } : Agent) = ag := rfl
    rw [this, ← hag, List.set_getElem_self]
    simp
  · have hh' : Jx.Grid.getWC hw false ag.x ag.y = false := by simpa using hh
    simp [hh']

/-- the no-op on agent `i`: floor channels, shelf table and every other agent untouched; agent `i` keeps
cell and direction and its flag becomes `carrying && on_highway` -/
theorem noop_agent (hw : List (List Bool)) (w : World) {i : Nat} {ag : Agent} (hi : w.agents[i]? = some ag) :
    (updateAgent hw w 0 i).shelfGrid = w.shelfGrid ∧ (updateAgent hw w 0 i).agentGrid = w.agentGrid ∧
    (updateAgent hw w 0 i).shelves = w.shelves ∧
    (∀ (j : Nat), j ≠ i → (updateAgent hw w 0 i).agents[j]? = w.agents[j]?) ∧
    (updateAgent hw w 0 i).agents[i]? =
      some { ag with carrying := ag.carrying && Jx.Grid.getWC hw false ag.x ag.y } := by
  rw [noop_exact hw w hi]
  refine ⟨rfl, rfl, rfl, fun j hj => set_getElem?_ne _ hj, set_getElem?_self _ (getElem?_lt hi)⟩

/-- RW1 characterised: the no-op clears `is_carrying` iff the agent carries and is off the highways -/
theorem noop_drops_iff (hw : List (List Bool)) (w : World) {i : Nat} {ag : Agent} (hi : w.agents[i]? = some ag) :
    (((updateAgent hw w 0 i).agents.getD i default).carrying ≠ ag.carrying) ↔
      (ag.carrying = true ∧ Jx.Grid.getWC hw false ag.x ag.y = false) := by
  rw [getD_of_getElem? (noop_agent hw w hi).2.2.2.2]
  cases ag.carrying <;> cases Jx.Grid.getWC hw false ag.x ag.y <;> simp

/-- in all other cases the holdings are kept -/
theorem noop_keeps (hw : List (List Bool)) (w : World) {i : Nat} {ag : Agent} (hi : w.agents[i]? = some ag)
    (h : ag.carrying = false ∨ Jx.Grid.getWC hw false ag.x ag.y = true) :
    (updateAgent hw w 0 i).agents = w.agents := by
  rw [noop_exact hw w hi]
  have hlt := getElem?_lt hi
  have hag : w.agents[i] = ag := by
    rw [List.getElem?_eq_getElem hlt] at hi; exact Option.some.inj hi
  have : ({ ag with carrying := ag.carrying && Jx.Grid.getWC hw false ag.x ag.y } : Agent) = ag := by
    obtain ⟨x, y, d, c⟩ := ag
    rcases h with h | h <;> simp only [] at h <;> simp [h]
  simp only [this]
  rw [← hag, List.set_getElem_self]

/-! ### the same at the level of `step` -/

theorem scan_agents_lt (hw : List (List Bool)) : ∀ (as : List Int) (w : World) (i0 k : Nat), k < i0 →
    (scanAgents hw w as i0).agents[k]? = w.agents[k]? := by
  intro as
  induction as with
  | nil => intro w i0 k _; rfl
  | cons a as ih =>
    intro w i0 k hk
    simp only [scanAgents]
    rw [ih _ (i0 + 1) k (by omega), updateAgent_agents_ne hw w a (by omega)]

theorem scan_noop_agent (hw : List (List Bool)) : ∀ (as : List Int) (w : World) (i0 k : Nat) (ag : Agent),
    i0 ≤ k → as[k - i0]? = some 0 → w.agents[k]? = some ag →
    (scanAgents hw w as i0).agents[k]? =
      some { ag with carrying := ag.carrying && Jx.Grid.getWC hw false ag.x ag.y } := by
  intro as
  induction as with
  | nil => intro w i0 k ag _ h; simp at h
  | cons a as ih =>
    intro w i0 k ag hk ha hag
    simp only [scanAgents]
    by_cases hki : k = i0
    · subst hki
      simp only [Nat.sub_self, List.getElem?_cons_zero, Option.some.injEq] at ha
      subst ha
      rw [scan_agents_lt hw as _ (k + 1) k (by omega)]
      exact (noop_agent hw w hag).2.2.2.2
    · have e : k - i0 = (k - (i0 + 1)) + 1 := by omega
      rw [e, List.getElem?_cons_succ] at ha
      exact ih _ (i0 + 1) k ag (by omega) ha (by rw [updateAgent_agents_ne hw w a hki]; exact hag)

/-- C05 at the level of `step`, for ALL states: an agent whose action is masked out (by the cached mask)
keeps cell and direction, and its flag becomes `carrying && on_highway(cell)` -/
theorem step_masked_agent (cfg : Cfg) (s : State) (actions draws : List Int) {i : Nat} {ag : Agent} {a : Int}
    {row : List Bool} (hi : s.agents[i]? = some ag) (ha : actions[i]? = some a) (hrow : s.mask[i]? = some row)
    (hm : Jx.getWC row false a = false) :
    (step cfg s actions draws).1.agents[i]? =
      some { ag with carrying := ag.carrying && Jx.Grid.getWC cfg.highways false ag.x ag.y } := by
  have hact : (validActions s.mask actions)[i - 0]? = some 0 := by
    unfold validActions
    rw [Nat.sub_zero, List.getElem?_zipWith_eq_some]
    exact ⟨row, a, hrow, ha, by simp [hm]⟩
  have := scan_noop_agent cfg.highways (validActions s.mask actions) s.world 0 i ag (Nat.zero_le i) hact hi
  simpa [step] using this

/-- … and under `Consistent`, "masked out" is "illegal by the rules": an illegal action (necessarily a
FORWARD of a carrying agent into a shelf) leaves the agent where it is, facing the same way, and it
still carries iff its cell is a highway cell -/
theorem step_illegal_agent {cfg : Cfg} {s : State} (hc : Consistent cfg s) (actions draws : List Int)
    {i a : Nat} {ag : Agent} (hi : s.agents[i]? = some ag) (ha : actions[i]? = some (a : Int)) (ha5 : a < 5)
    (hill : ¬ legal s i a) :
    ag.carrying = true ∧ a = 1 ∧
    (step cfg s actions draws).1.agents[i]? =
      some { ag with carrying := Jx.Grid.getWC cfg.highways false ag.x ag.y } := by
  have hg := (consistent_iff_good cfg s).1 hc
  have hcar : ag.carrying = true ∧ a = 1 := by
    unfold legal at hill
    rw [getD_of_getElem? hi] at hill
    have := Classical.not_not.1 hill
    exact ⟨this.2.1, this.1⟩
  have hrow : s.mask[i]? = some ((List.range 5).map (fun (a : Nat) => isValidAction s.shelfGrid ag (a : Int))) := by
    rw [hg.mask]; unfold computeMask
    rw [List.getElem?_map, hi]; rfl
  have hbit : Jx.getWC ((List.range 5).map (fun (a : Nat) => isValidAction s.shelfGrid ag (a : Int))) false (a : Int)
      = false := by
    rw [Jx.getWC_nat _ false (by simpa using ha5)]
    simp only [List.getD_eq_getElem?_getD, List.getElem?_map, List.getElem?_range ha5, Option.map_some,
      Option.getD_some]
    rw [isValidAction_eq_legal hg hi a]
    simpa using hill
  have := step_masked_agent cfg s actions draws hi ha hrow hbit
  rw [hcar.1] at this
  exact ⟨hcar.1, hcar.2, by simpa using this⟩

end RobotWarehouse
