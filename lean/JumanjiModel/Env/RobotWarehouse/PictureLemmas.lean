/-
RobotWarehouse — basic facts used by all the proof files: gather/scatter on in-range integer
coordinates, and the pointwise reading of `Consistent` ("every entity's own cell shows its id" +
"every non-empty cell is backed by an entity standing there") which is what the step proof threads
through the per-agent scan.
-/
import JumanjiModel.Env.RobotWarehouse.Lemmas
import JumanjiModel.Env.Minesweeper.GridLemmas
namespace RobotWarehouse
open Jm

/-! ### integer coordinates inside the floor -/

theorem inGrid_nat {R C : Nat} {x y : Int} (h : inGrid R C x y) :
    ∃ a b : Nat, a < R ∧ b < C ∧ x = (a : Int) ∧ y = (b : Int) := by
  obtain ⟨h1, h2, h3, h4⟩ := h
  exact ⟨x.toNat, y.toNat, by omega, by omega, by omega, by omega⟩

theorem shaped_setWD {α} {g : Jx.Grid α} {nr nc : Nat} (h : Jx.Grid.shaped g nr nc = true) (r c : Int) (v : α) :
    Jx.Grid.shaped (Jx.Grid.setWD g r c v) nr nc = true := by
  unfold Jx.Grid.setWD
  simp only []
  repeat' split
  all_goals try exact h
  rename_i row hrow _ _
  unfold Jx.Grid.shaped at h ⊢
  simp only [Bool.and_eq_true, beq_iff_eq, List.all_eq_true, List.length_set] at h ⊢
  refine ⟨h.1, ?_⟩
  intro x hx
  rcases List.mem_or_eq_of_mem_set hx with hx | hx
  · exact h.2 x hx
  · subst hx
    rw [List.length_set]
    exact h.2 row (List.mem_of_getElem? hrow)

theorem shaped_dims {α} {g : Jx.Grid α} {R C : Nat} (h : Jx.Grid.shaped g R C = true) (hR : 0 < R) :
    g.length = R ∧ (g.headD []).length = C := by
  rw [Jx.Grid.shaped_iff] at h
  refine ⟨h.1, ?_⟩
  have := h.2 0 hR
  unfold Jx.Grid.rowLen at this
  cases g with
  | nil => simp at h; omega
  | cons r rs => simpa using this

/-- gather from a scattered grid, both at in-range coordinates -/
theorem cell_setWD {α} {g : Jx.Grid α} {R C : Nat} (h : Jx.Grid.shaped g R C = true) {x y x' y' : Int}
    (hp : inGrid R C x y) (hq : inGrid R C x' y') (d v : α) :
    Jx.Grid.getWC (Jx.Grid.setWD g x y v) d x' y' =
      if x' = x ∧ y' = y then v else Jx.Grid.getWC g d x' y' := by
  obtain ⟨a, b, ha, hb, rfl, rfl⟩ := inGrid_nat hp
  obtain ⟨a', b', ha', hb', rfl, rfl⟩ := inGrid_nat hq
  have hs := (Jx.Grid.shaped_iff g R C).1 h
  have hl : a < g.length := by omega
  have hl' : a' < g.length := by omega
  have hc : b < Jx.Grid.rowLen g a := by rw [hs.2 a ha]; exact hb
  have hc' : b' < Jx.Grid.rowLen g a' := by rw [hs.2 a' ha']; exact hb'
  rw [Jx.Grid.setWD_nat g a b v hl hc]
  rw [Jx.Grid.getWC_nat _ d a' b' (by rw [Jx.Grid.set_length]; exact hl')
    (by rw [Jx.Grid.rowLen_set]; exact hc')]
  rw [Jx.Grid.get_set g d a b v a' b' hl hc, Jx.Grid.getWC_nat g d a' b' hl' hc']
  have e : ((a' : Int) = (a : Int) ∧ (b' : Int) = (b : Int)) ↔ (a' = a ∧ b' = b) := by omega
  simp only [e]

/-- gather = plain lookup at in-range coordinates -/
theorem cell_get {α} {g : Jx.Grid α} {R C : Nat} (h : Jx.Grid.shaped g R C = true) {a b : Nat}
    (ha : a < R) (hb : b < C) (d : α) :
    Jx.Grid.getWC g d (a : Int) (b : Int) = Jx.Grid.get g d a b := by
  have hs := (Jx.Grid.shaped_iff g R C).1 h
  exact Jx.Grid.getWC_nat g d a b (by omega) (by rw [hs.2 a ha]; exact hb)

theorem mem_allCells {R C : Nat} {c : Int × Int} : c ∈ allCells R C ↔ inGrid R C c.1 c.2 := by
  unfold allCells inGrid
  simp only [List.mem_flatMap, List.mem_range, List.mem_map]
  constructor
  · rintro ⟨r, hr, k, hk, rfl⟩
    simp only []
    omega
  · rintro ⟨h1, h2, h3, h4⟩
    refine ⟨c.1.toNat, by omega, c.2.toNat, by omega, ?_⟩
    apply Prod.ext <;> simp <;> omega

/-! ### entity tables: in-range gather/scatter -/

theorem getElem?_lt {α} {xs : List α} {i : Nat} {e : α} (h : xs[i]? = some e) : i < xs.length := by
  rcases Nat.lt_or_ge i xs.length with h' | h'
  · exact h'
  · rw [List.getElem?_eq_none h'] at h; cases h


theorem getWC_idx {α} (xs : List α) (d : α) {i : Nat} {e : α} (h : xs[i]? = some e) :
    Jx.getWC xs d (i : Int) = e := by
  have hi : i < xs.length := by
    rcases Nat.lt_or_ge i xs.length with h' | h'
    · exact h'
    · rw [List.getElem?_eq_none h'] at h; cases h
  rw [Jx.getWC_nat xs d hi]
  simp [List.getD_eq_getElem?_getD, h]

theorem getWC_int {α} (xs : List α) (d : α) {i : Nat} {v : Int} {e : α} (h : xs[i]? = some e)
    (hv : v = (i : Int) + 1) : Jx.getWC xs d (v - 1) = e := by
  have : v - 1 = (i : Int) := by omega
  rw [this]; exact getWC_idx xs d h

theorem setWD_idx {α} (xs : List α) (v : α) {i : Nat} (h : i < xs.length) :
    Jx.setWD xs (i : Int) v = xs.set i v := Jx.setWD_nat xs v h

/-! ### the picture of an entity table on a grid channel, pointwise -/

/-- every entity is inside the floor and its own cell shows its id -/
def Shown {α} (pos : α → Int × Int) (R C : Nat) (g : IGrid) (es : List α) : Prop :=
  ∀ (k : Nat) (e : α), es[k]? = some e →
    inGrid R C (pos e).1 (pos e).2 ∧ Jx.Grid.getWC g 0 (pos e).1 (pos e).2 = (k : Int) + 1

/-- every non-empty cell shows the id of an entity that stands on it -/
def Backed {α} (pos : α → Int × Int) (R C : Nat) (g : IGrid) (es : List α) : Prop :=
  ∀ x y, inGrid R C x y → Jx.Grid.getWC g 0 x y ≠ 0 →
    ∃ (k : Nat) (e : α), es[k]? = some e ∧ Jx.Grid.getWC g 0 x y = (k : Int) + 1 ∧ pos e = (x, y)

/-- the table form of the picture, as in `Consistent` -/
def Picture {α} (pos : α → Int × Int) (R C : Nat) (g : IGrid) (es : List α) : Prop :=
  (∀ e ∈ es, inGrid R C (pos e).1 (pos e).2) ∧ distinctPos pos es = true ∧
  ∀ c ∈ allCells R C, Jx.Grid.getWC g 0 c.1 c.2 = tableAt pos es c

theorem Shown.distinct {α} {pos : α → Int × Int} {R C : Nat} {g : IGrid} {es : List α}
    (h : Shown pos R C g es) {i j : Nat} {a b : α} (hi : es[i]? = some a) (hj : es[j]? = some b)
    (hab : pos a = pos b) : i = j := by
  have h1 := (h i a hi).2
  have h2 := (h j b hj).2
  rw [hab] at h1
  omega

theorem picture_of_shown_backed {α} {pos : α → Int × Int} {R C : Nat} {g : IGrid} {es : List α}
    (h1 : Shown pos R C g es) (h2 : Backed pos R C g es) : Picture pos R C g es := by
  refine ⟨?_, ?_, ?_⟩
  · intro e he
    obtain ⟨k, hk, rfl⟩ := List.getElem_of_mem he
    exact (h1 k es[k] (List.getElem?_eq_getElem hk)).1
  · unfold distinctPos
    rw [decide_eq_true_iff]
    unfold List.Nodup
    rw [List.pairwise_iff_getElem]
    intro i j hi hj hij heq
    simp only [List.length_map] at hi hj
    simp only [List.getElem_map] at heq
    have := h1.distinct (List.getElem?_eq_getElem hi) (List.getElem?_eq_getElem hj) heq
    omega
  · intro c hc
    have hin := mem_allCells.1 hc
    unfold tableAt
    split
    · rename_i k hk
      obtain ⟨hlt, hp, _⟩ := List.findIdx?_eq_some_iff_getElem.1 hk
      have hp' : pos es[k] = c := by simpa using hp
      have := (h1 k es[k] (List.getElem?_eq_getElem hlt)).2
      rw [hp'] at this
      exact this
    · rename_i hk
      rw [List.findIdx?_eq_none_iff] at hk
      by_cases h0 : Jx.Grid.getWC g 0 c.1 c.2 = 0
      · exact h0
      · obtain ⟨k, e, he, _, hpe⟩ := h2 c.1 c.2 hin h0
        have := hk e (List.mem_of_getElem? he)
        simp [hpe] at this

theorem shown_backed_of_picture {α} {pos : α → Int × Int} {R C : Nat} {g : IGrid} {es : List α}
    (h : Picture pos R C g es) : Shown pos R C g es ∧ Backed pos R C g es := by
  obtain ⟨hin, hd, hp⟩ := h
  unfold distinctPos at hd
  rw [decide_eq_true_iff] at hd
  constructor
  · intro k e he
    have hmem := List.mem_of_getElem? he
    have hi := hin e hmem
    refine ⟨hi, ?_⟩
    have := hp (pos e) (mem_allCells.2 hi)
    rw [this]
    unfold tableAt
    have hk : k < es.length := by
      rcases Nat.lt_or_ge k es.length with h' | h'
      · exact h'
      · rw [List.getElem?_eq_none h'] at he; cases he
    have hek : es[k] = e := by
      rw [List.getElem?_eq_getElem hk] at he; exact Option.some.inj he
    split
    · rename_i k' hk'
      obtain ⟨hlt, hp', _⟩ := List.findIdx?_eq_some_iff_getElem.1 hk'
      have hp'' : pos es[k'] = pos e := by simpa using hp'
      have h1 : k' < (es.map pos).length := by simpa using hlt
      have h2 : k < (es.map pos).length := by simpa using hk
      have : (es.map pos)[k'] = (es.map pos)[k] := by simp [hp'', hek]
      have := (List.getElem_inj (h₀ := h1) (h₁ := h2) hd).1 this
      omega
    · rename_i hk'
      rw [List.findIdx?_eq_none_iff] at hk'
      have := hk' e hmem
      simp at this
  · intro x y hxy hne
    have := hp (x, y) (mem_allCells.2 hxy)
    simp only [] at this
    rw [this] at hne ⊢
    unfold tableAt at hne ⊢
    split
    · rename_i k hk
      obtain ⟨hlt, hp', _⟩ := List.findIdx?_eq_some_iff_getElem.1 hk
      exact ⟨k, es[k], List.getElem?_eq_getElem hlt, rfl, by simpa using hp'⟩
    · rename_i hk
      rw [hk] at hne
      exact absurd rfl hne

theorem picture_iff {α} {pos : α → Int × Int} {R C : Nat} {g : IGrid} {es : List α} :
    Picture pos R C g es ↔ Shown pos R C g es ∧ Backed pos R C g es :=
  ⟨shown_backed_of_picture, fun h => picture_of_shown_backed h.1 h.2⟩


/-- `shelfAt` finds a shelf iff some shelf stands on the cell -/
theorem shelfAt_isSome {shelves : List Shelf} {c : Int × Int} :
    (shelfAt shelves c).isSome = true ↔ ∃ sh ∈ shelves, spos sh = c := by
  unfold shelfAt spos
  rw [List.find?_isSome]
  constructor
  · rintro ⟨sh, hm, hp⟩
    simp only [Bool.and_eq_true, decide_eq_true_eq] at hp
    exact ⟨sh, hm, Prod.ext hp.1 hp.2⟩
  · rintro ⟨sh, hm, rfl⟩
    exact ⟨sh, hm, by simp⟩

/-! ### `Consistent`, unpacked -/

structure Good (cfg : Cfg) (R C : Nat) (s : State) : Prop where
  shS : Jx.Grid.shaped s.shelfGrid R C = true
  shA : Jx.Grid.shaped s.agentGrid R C = true
  shH : Jx.Grid.shaped cfg.highways R C = true
  hR : 0 < R
  hC : 0 < C
  dirs : ∀ ag ∈ s.agents, 0 ≤ ag.dir ∧ ag.dir < 4
  req : ∀ sh ∈ s.shelves, sh.requested = 0 ∨ sh.requested = 1
  agShown : Shown apos R C s.agentGrid s.agents
  agBacked : Backed apos R C s.agentGrid s.agents
  shShown : Shown spos R C s.shelfGrid s.shelves
  shBacked : Backed spos R C s.shelfGrid s.shelves
  carry : ∀ ag ∈ s.agents, ag.carrying = true → (shelfAt s.shelves (ag.x, ag.y)).isSome = true
  qnd : s.queue.Nodup
  qrange : ∀ q ∈ s.queue, 0 ≤ q ∧ q < (s.shelves.length : Int)
  qreq : ∀ k, k < s.shelves.length →
    ((s.shelves.getD k default).requested = 1 ↔ s.queue.contains (k : Int) = true)
  mask : s.mask = computeMask s.shelfGrid s.agents

theorem Good.rows {cfg : Cfg} {R C : Nat} {s : State} (h : Good cfg R C s) :
    gRows s.shelfGrid = R ∧ gCols s.shelfGrid = C := shaped_dims h.shS h.hR

theorem consistent_iff_good (cfg : Cfg) (s : State) :
    Consistent cfg s ↔ Good cfg (gRows s.shelfGrid) (gCols s.shelfGrid) s := by
  unfold Consistent
  simp only []
  constructor
  · rintro ⟨h1, h2, h3, h4, h5, h6, h7, h8, h9, h10, h11, h12, h13, h14, h15⟩
    have pa : Picture apos (gRows s.shelfGrid) (gCols s.shelfGrid) s.agentGrid s.agents :=
      ⟨fun e he => (h6 e he).1, h8, fun c hc => (h10 c hc).1⟩
    have ps : Picture spos (gRows s.shelfGrid) (gCols s.shelfGrid) s.shelfGrid s.shelves :=
      ⟨fun e he => (h7 e he).1, h9, fun c hc => (h10 c hc).2⟩
    have pa' := shown_backed_of_picture pa
    have ps' := shown_backed_of_picture ps
    exact ⟨h1, h2, h3, h4, h5, fun a ha => (h6 a ha).2, fun a ha => (h7 a ha).2, pa'.1, pa'.2,
      ps'.1, ps'.2, h11, h12, h13, h14, h15⟩
  · intro h
    have pa := picture_of_shown_backed h.agShown h.agBacked
    have ps := picture_of_shown_backed h.shShown h.shBacked
    exact ⟨h.shS, h.shA, h.shH, h.hR, h.hC, fun a ha => ⟨pa.1 a ha, h.dirs a ha⟩,
      fun a ha => ⟨ps.1 a ha, h.req a ha⟩, pa.2.1, ps.2.1,
      fun c hc => ⟨pa.2.2 c hc, ps.2.2 c hc⟩, h.carry, h.qnd, h.qrange, h.qreq, h.mask⟩

theorem good_of_good {cfg : Cfg} {R C : Nat} {s : State} (h : Good cfg R C s) : Consistent cfg s := by
  rw [consistent_iff_good]
  obtain ⟨h1, h2⟩ := h.rows
  rw [h1, h2]; exact h

end RobotWarehouse
