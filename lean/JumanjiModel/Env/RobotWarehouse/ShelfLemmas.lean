/-
RobotWarehouse — C05 / C07, the shelf side of a step.

`StepLemmas` threads `Clash ∨ Strong` through the per-agent scan; `Strong` is lost as soon as two agents
share a cell.  The facts proved here do NOT depend on the absence of a collision: they hold for EVERY step
(LAST or not), every joint action and every draw (valid or not) from a `Consistent` state.

The invariant `Track` follows every shelf of the start state `s0` through the scan:
* a cell that showed a shelf in `s0` still shows the same id, unless the agent that carried that shelf in
  `s0` has already been processed;
* a shelf that some agent `j` carried in `s0` (agent `j` stood on its cell with `is_carrying`) is on the
  cell of agent `j`;
* a shelf that nobody carried in `s0` is on its `s0` cell.
The goal scan afterwards rewrites `is_requested` only.
-/
import JumanjiModel.Env.RobotWarehouse.ConsistentLemmas
import JumanjiModel.Env.RobotWarehouse.NoopLemmas
namespace RobotWarehouse
open Jm

/-- in the start state agent `j` carries a shelf and stands on cell `c` -/
def CarrierAt (s0 : State) (j : Nat) (c : Int × Int) : Prop :=
  ∃ a, s0.agents[j]? = some a ∧ a.carrying = true ∧ apos a = c

structure Track (R C : Nat) (s0 : State) (w : World) (i : Nat) : Prop where
  shS : Jx.Grid.shaped w.shelfGrid R C = true
  alen : w.agents.length = s0.agents.length
  slen : w.shelves.length = s0.shelves.length
  rest : ∀ k, i ≤ k → w.agents[k]? = s0.agents[k]?
  keep : ∀ x y, inGrid R C x y → Jx.Grid.getWC s0.shelfGrid 0 x y ≠ 0 →
    Jx.Grid.getWC w.shelfGrid 0 x y = Jx.Grid.getWC s0.shelfGrid 0 x y ∨ ∃ j, j < i ∧ CarrierAt s0 j (x, y)
  carried : ∀ (k j : Nat) (sh0 : Shelf), s0.shelves[k]? = some sh0 → CarrierAt s0 j (spos sh0) →
    ∃ sh a', w.shelves[k]? = some sh ∧ w.agents[j]? = some a' ∧ spos sh = apos a'
  free : ∀ (k : Nat) (sh0 : Shelf), s0.shelves[k]? = some sh0 → (∀ j, ¬ CarrierAt s0 j (spos sh0)) →
    (w.shelves[k]?).map spos = some (spos sh0)
  sreq : ∀ (k : Nat), (w.shelves[k]?).map (·.requested) = (s0.shelves[k]?).map (·.requested)

theorem track_init {cfg : Cfg} {R C : Nat} {s : State} (h : Good cfg R C s) : Track R C s s.world 0 := by
  refine ⟨h.shS, rfl, rfl, fun _ _ => rfl, fun x y _ _ => Or.inl rfl, ?_, ?_, fun _ => rfl⟩
  · rintro k j sh0 hk ⟨a, ha, _, hp⟩
    exact ⟨sh0, a, hk, ha, hp.symm⟩
  · intro k sh0 hk _
    show (s.shelves[k]?).map spos = _
    rw [hk]; rfl

theorem track_mono {R C : Nat} {s0 : State} {w : World} {i : Nat} (h : Track R C s0 w i) :
    Track R C s0 w (i + 1) := by
  refine ⟨h.shS, h.alen, h.slen, fun k hk => h.rest k (by omega), ?_, h.carried, h.free, h.sreq⟩
  intro x y hxy hne
  rcases h.keep x y hxy hne with h1 | ⟨j, hj, hc⟩
  · exact Or.inl h1
  · exact Or.inr ⟨j, by omega, hc⟩

/-- agent `i` is replaced by an agent on the same cell (turn, load, offload) -/
theorem track_set_same {R C : Nat} {s0 : State} {w : World} {i : Nat} {ag ag' : Agent}
    (h : Track R C s0 w i) (hi : w.agents[i]? = some ag) (hp : apos ag' = apos ag) :
    Track R C s0 { w with agents := w.agents.set i ag' } (i + 1) := by
  have hlt := getElem?_lt hi
  refine ⟨h.shS, by simp [h.alen], h.slen, ?_, ?_, ?_, h.free, h.sreq⟩
  · intro k hk
    simp only []
    rw [set_getElem?_ne ag' (by omega)]
    exact h.rest k (by omega)
  · intro x y hxy hne
    rcases h.keep x y hxy hne with h1 | ⟨j, hj, hc⟩
    · exact Or.inl h1
    · exact Or.inr ⟨j, by omega, hc⟩
  · intro k j sh0 hk hc
    obtain ⟨sh, a', h1, h2, h3⟩ := h.carried k j sh0 hk hc
    by_cases hji : j = i
    · subst hji
      rw [hi] at h2; cases h2
      exact ⟨sh, ag', h1, set_getElem?_self ag' hlt, h3.trans hp.symm⟩
    · exact ⟨sh, a', h1, by simp only []; rw [set_getElem?_ne ag' hji]; exact h2, h3⟩

theorem turnOrToggle_track {R C : Nat} {s0 : State} {w : World} {i : Nat} {ag : Agent}
    (h : Track R C s0 w i) (hi : w.agents[i]? = some ag) (a : Int) (hwb : Bool) :
    Track R C s0 (turnOrToggle w a i hwb) (i + 1) := by
  have hlt := getElem?_lt hi
  unfold turnOrToggle
  simp only [getWC_idx w.agents default hi, setWD_idx w.agents _ hlt]
  split
  · exact track_set_same h hi rfl
  · split
    · split
      · exact track_set_same h hi rfl
      · exact track_mono h
    · split
      · exact track_set_same h hi rfl
      · exact track_mono h

theorem forward_track {cfg : Cfg} {R C : Nat} {s0 : State} {w : World} {i : Nat} {ag : Agent}
    (h0 : Good cfg R C s0) (h : Track R C s0 w i) (hi0 : s0.agents[i]? = some ag)
    (hallow : isValidAction s0.shelfGrid ag 1 = true) : Track R C s0 (forward w i) (i + 1) := by
  have hi : w.agents[i]? = some ag := by rw [h.rest i (Nat.le_refl i)]; exact hi0
  have hlt := getElem?_lt hi
  have hpin : inGrid R C ag.x ag.y := (h0.agShown i ag hi0).1
  have ht := newPos_inGrid hpin ag.dir
  have hrest : ∀ (a' : Agent) (k : Nat), i + 1 ≤ k → (w.agents.set i a')[k]? = s0.agents[k]? := by
    intro a' k hk
    rw [set_getElem?_ne _ (by omega)]
    exact h.rest k (by omega)
  rw [forward_eq hi h.shS h0.hR]
  generalize htdef : newPos R C ag.x ag.y ag.dir = t at ht ⊢
  split
  · rename_i hc
    -- the shelf under the agent in the start state
    have hne0 : Jx.Grid.getWC s0.shelfGrid 0 ag.x ag.y ≠ 0 :=
      (shelf_cell_ne_zero_iff h0.shShown h0.shBacked hpin).2 (h0.carry ag (List.mem_of_getElem? hi0) hc)
    obtain ⟨k, e, he, hv, hpe⟩ := h0.shBacked ag.x ag.y hpin hne0
    have hcar_i : CarrierAt s0 i (spos e) := ⟨ag, hi0, hc, by rw [hpe]; rfl⟩
    have uniq : ∀ (j : Nat), CarrierAt s0 j (ag.x, ag.y) → j = i := by
      rintro j ⟨a, ha, _, hp⟩
      exact h0.agShown.distinct ha hi0 hp
    have hcell : Jx.Grid.getWC w.shelfGrid 0 ag.x ag.y = (k : Int) + 1 := by
      rcases h.keep ag.x ag.y hpin hne0 with h1 | ⟨j, hj, hcj⟩
      · rw [h1]; exact hv
      · have := uniq j hcj; omega
    have hklt0 : k < s0.shelves.length := getElem?_lt he
    have hklt : k < w.shelves.length := by rw [h.slen]; exact hklt0
    have e1 : Jx.Grid.getWC w.shelfGrid 0 ag.x ag.y - 1 = (k : Int) := by omega
    rw [e1, setWD_idx w.shelves _ hklt, hcell]
    -- the target cell is the agent's own cell (border) or was free of shelves in the start state
    have tfree : (t.1 = ag.x ∧ t.2 = ag.y) ∨ Jx.Grid.getWC s0.shelfGrid 0 t.1 t.2 = 0 := by
      by_cases h1 : t.1 = ag.x ∧ t.2 = ag.y
      · exact Or.inl h1
      refine Or.inr ?_
      by_cases h3 : Jx.Grid.getWC s0.shelfGrid 0 t.1 t.2 = 0
      · exact h3
      exfalso
      have hd0 := shaped_dims h0.shS h0.hR
      have eR : gRows s0.shelfGrid = R := hd0.1
      have eC : gCols s0.shelfGrid = C := hd0.2
      unfold isValidAction at hallow
      simp only [eR, eC, htdef] at hallow
      have h1' : ¬ (ag.x = t.1 ∧ ag.y = t.2) := fun hh => h1 ⟨hh.1.symm, hh.2.symm⟩
      have : (decide (ag.x = t.1) && decide (ag.y = t.2)) = false := by
        simp only [Bool.and_eq_false_iff, decide_eq_false_iff_not]
        by_cases hx : ag.x = t.1
        · exact Or.inr (fun hy => h1' ⟨hx, hy⟩)
        · exact Or.inl hx
      simp [hc, this, h3] at hallow
    have hScell : ∀ x y, inGrid R C x y →
        Jx.Grid.getWC (Jx.Grid.setWD (Jx.Grid.setWD w.shelfGrid ag.x ag.y 0) t.1 t.2 ((k : Int) + 1)) 0 x y =
        if x = t.1 ∧ y = t.2 then (k : Int) + 1 else if x = ag.x ∧ y = ag.y then 0
        else Jx.Grid.getWC w.shelfGrid 0 x y := by
      intro x y hxy
      rw [cell_setWD (shaped_setWD h.shS _ _ _) ht hxy, cell_setWD h.shS hpin hxy]
    refine ⟨shaped_setWD (shaped_setWD h.shS _ _ _) _ _ _, by simp [h.alen], by simp [h.slen], hrest _, ?_, ?_, ?_, ?_⟩
    · intro x y hxy hne
      by_cases h2 : x = ag.x ∧ y = ag.y
      · exact Or.inr ⟨i, by omega, by rw [h2.1, h2.2]; exact ⟨ag, hi0, hc, rfl⟩⟩
      · have h1 : ¬ (x = t.1 ∧ y = t.2) := by
          intro hh
          rcases tfree with h3 | h3
          · exact h2 ⟨hh.1.trans h3.1, hh.2.trans h3.2⟩
          · rw [hh.1, hh.2] at hne; exact hne h3
        simp only []
        rw [hScell x y hxy]
        simp only [h1, h2, if_false]
        rcases h.keep x y hxy hne with h4 | ⟨j, hj, hcj⟩
        · exact Or.inl h4
        · exact Or.inr ⟨j, by omega, hcj⟩
    · intro k' j sh0 hk' hcj
      simp only []
      by_cases hkk : k' = k
      · subst hkk
        rw [he] at hk'; cases hk'
        have hji : j = i := uniq j (by rw [← hpe]; exact hcj)
        subst hji
        exact ⟨_, _, set_getElem?_self _ hklt, set_getElem?_self _ hlt, rfl⟩
      · have hji : j ≠ i := by
          intro hji; subst hji
          obtain ⟨a, ha, _, hp⟩ := hcj
          rw [hi0] at ha; cases ha
          exact hkk (h0.shShown.distinct hk' he (hp.symm.trans hpe.symm))
        obtain ⟨sh, a', h1, h2, h3⟩ := h.carried k' j sh0 hk' hcj
        exact ⟨sh, a', by rw [set_getElem?_ne _ hkk]; exact h1, by rw [set_getElem?_ne _ hji]; exact h2, h3⟩
    · intro k' sh0 hk' hfree
      have hkk : k' ≠ k := by
        rintro rfl
        rw [he] at hk'; cases hk'
        exact hfree i hcar_i
      simp only []
      rw [set_getElem?_ne _ hkk]; exact h.free k' sh0 hk' hfree
    · intro m
      simp only []
      by_cases hmk : m = k
      · subst hmk
        rw [set_getElem?_self _ hklt, ← h.sreq m]
        have := getWC_idx w.shelves default (List.getElem?_eq_getElem hklt)
        rw [this, List.getElem?_eq_getElem hklt]; rfl
      · rw [set_getElem?_ne _ hmk]; exact h.sreq m
  · rename_i hc
    refine ⟨h.shS, by simp [h.alen], h.slen, hrest _, ?_, ?_, h.free, h.sreq⟩
    · intro x y hxy hne
      rcases h.keep x y hxy hne with h1 | ⟨j, hj, hcj⟩
      · exact Or.inl h1
      · exact Or.inr ⟨j, by omega, hcj⟩
    · intro k' j sh0 hk' hcj
      have hji : j ≠ i := by
        intro hji; subst hji
        obtain ⟨a, ha, hca, _⟩ := hcj
        rw [hi0] at ha; cases ha
        exact hc hca
      obtain ⟨sh, a', h1, h2, h3⟩ := h.carried k' j sh0 hk' hcj
      exact ⟨sh, a', h1, by simp only []; rw [set_getElem?_ne _ hji]; exact h2, h3⟩

theorem updateAgent_track {cfg : Cfg} {R C : Nat} {s0 : State} {w : World} {i : Nat} {ag : Agent}
    (h0 : Good cfg R C s0) (h : Track R C s0 w i) (hi : s0.agents[i]? = some ag) (a : Int)
    (hallow : a = 1 → isValidAction s0.shelfGrid ag 1 = true) (hw : List (List Bool)) :
    Track R C s0 (updateAgent hw w a i) (i + 1) := by
  have hi' : w.agents[i]? = some ag := by rw [h.rest i (Nat.le_refl i)]; exact hi
  unfold updateAgent
  simp only []
  split
  · rename_i h1
    exact forward_track h0 h hi (hallow h1)
  · exact turnOrToggle_track h hi' a _

theorem scan_track {cfg : Cfg} {R C : Nat} {s0 : State} (h0 : Good cfg R C s0) (hw : List (List Bool)) :
    ∀ (as : List Int) (w : World) (i : Nat), Track R C s0 w i →
      i + as.length ≤ s0.agents.length →
      (∀ (m : Nat) (ag : Agent), as[m]? = some 1 → s0.agents[i + m]? = some ag →
        isValidAction s0.shelfGrid ag 1 = true) →
      Track R C s0 (scanAgents hw w as i) (i + as.length) := by
  intro as
  induction as with
  | nil => intro w i h _ _; simpa [scanAgents] using h
  | cons a as ih =>
    intro w i h hlen hall
    simp only [List.length_cons] at hlen
    have hi : i < s0.agents.length := by omega
    have h1 := updateAgent_track h0 h (List.getElem?_eq_getElem hi) a
      (fun ha => hall 0 _ (by simp [ha]) (by simp)) hw
    have h2 := ih (updateAgent hw w a i) (i + 1) h1 (by omega)
      (fun m ag hm hag => hall (m + 1) ag (by simpa using hm) (by rw [← hag]; congr 1; omega))
    simp only [scanAgents, List.length_cons]
    have e : i + (as.length + 1) = i + 1 + as.length := by omega
    rw [e]; exact h2

/-- the world after the per-agent scan, for ANY joint action (collision or not) -/
theorem scan_track_from_good {cfg : Cfg} {R C : Nat} {s : State} (h : Good cfg R C s) (actions : List Int) :
    Track R C s (scanAgents cfg.highways s.world (validActions s.mask actions) 0)
      (validActions s.mask actions).length := by
  have hl : (validActions s.mask actions).length ≤ s.agents.length := by
    have h1 := validActions_length_le s.mask actions
    have h2 : s.mask.length = s.agents.length := by rw [h.mask]; simp [computeMask]
    omega
  have := scan_track h cfg.highways (validActions s.mask actions) s.world 0 (track_init h) (by omega)
    (fun m ag hm hag => by
      rw [Nat.zero_add] at hag
      have hm' : (validActions (computeMask s.shelfGrid s.agents) actions)[m]? = some 1 := by
        rw [← h.mask]; exact hm
      exact validActions_allowed _ _ _ hm' hag)
  simpa using this

/-! ### the goal scan moves no shelf, whatever the draws -/

theorem setWD_getWC_spos (xs : List Shelf) (i : Int) (r : Int) (k : Nat) :
    ((Jx.setWD xs i { Jx.getWC xs default i with requested := r })[k]?).map spos = (xs[k]?).map spos := by
  unfold Jx.setWD
  simp only []
  split
  · rfl
  · split
    · rfl
    · rename_i h1 h2
      have e : Jx.getWC xs default i = xs.getD (Jx.wrapIdx xs.length i).toNat default := by
        unfold Jx.getWC Jx.clampIdx
        simp only [h1, h2, if_false]
      rw [e]
      exact set_requested_spos xs _ r k

theorem processGoal_spos (sg : IGrid) (dv : Deliv) (g : Int × Int) (d : Int) (k : Nat) :
    ((processGoal sg dv g d).shelves[k]?).map spos = (dv.shelves[k]?).map spos := by
  unfold processGoal
  split
  · simp only []
    exact (setWD_getWC_spos _ d 1 k).trans (setWD_getWC_spos _ _ 0 k)
  · rfl

theorem scanGoals_spos (sg : IGrid) : ∀ (gs : List (Int × Int)) (dv : Deliv) (ds : List Int) (k : Nat),
    ((scanGoals sg dv gs ds).shelves[k]?).map spos = (dv.shelves[k]?).map spos := by
  intro gs
  induction gs with
  | nil => intro dv ds k; rfl
  | cons g gs ih =>
    intro dv ds k
    simp only [scanGoals]
    exact (ih _ _ k).trans (processGoal_spos sg dv g _ k)

/-! ### the step -/

theorem step_shelves_spos (cfg : Cfg) (s : State) (actions draws : List Int) (k : Nat) :
    ((step cfg s actions draws).1.shelves[k]?).map spos =
      ((scanAgents cfg.highways s.world (validActions s.mask actions) 0).shelves[k]?).map spos := by
  simp only [step]
  exact scanGoals_spos _ cfg.goals _ draws k

theorem step_agents_eq (cfg : Cfg) (s : State) (actions draws : List Int) :
    (step cfg s actions draws).1.agents =
      (scanAgents cfg.highways s.world (validActions s.mask actions) 0).agents := rfl

/-- C07 (shelf side, every step): a shelf that no agent carries keeps its cell -/
theorem step_shelf_free {cfg : Cfg} {s : State} (hc : Consistent cfg s) (actions draws : List Int)
    {k : Nat} {sh : Shelf} (hk : s.shelves[k]? = some sh)
    (hfree : ∀ ag ∈ s.agents, ag.carrying = true → apos ag ≠ spos sh) :
    ((step cfg s actions draws).1.shelves[k]?).map spos = some (spos sh) := by
  have h := (consistent_iff_good cfg s).1 hc
  have ht := scan_track_from_good h actions
  rw [step_shelves_spos]
  refine ht.free k sh hk ?_
  rintro j ⟨a, ha, hca, hp⟩
  exact hfree a (List.mem_of_getElem? ha) hca hp

/-- C07 (shelf side, every step): a carried shelf ends the step on the cell of its carrier -/
theorem step_shelf_carried {cfg : Cfg} {s : State} (hc : Consistent cfg s) (actions draws : List Int)
    {k j : Nat} {sh : Shelf} {ag : Agent} (hk : s.shelves[k]? = some sh) (hj : s.agents[j]? = some ag)
    (hcar : ag.carrying = true) (hp : apos ag = spos sh) :
    ∃ sh' ag', (step cfg s actions draws).1.shelves[k]? = some sh' ∧
      (step cfg s actions draws).1.agents[j]? = some ag' ∧ spos sh' = apos ag' := by
  have h := (consistent_iff_good cfg s).1 hc
  have ht := scan_track_from_good h actions
  obtain ⟨sh1, a', h1, h2, h3⟩ := ht.carried k j sh hk ⟨ag, hj, hcar, hp⟩
  have h4 := step_shelves_spos cfg s actions draws k
  rw [h1] at h4
  obtain ⟨sh', hs', hp'⟩ := Option.map_eq_some_iff.1 h4
  exact ⟨sh', a', hs', h2, hp'.trans h3⟩

/-- the shelf standing under an agent whose cell is not changed by the step is still there -/
theorem step_shelf_under_agent {cfg : Cfg} {s : State} (hc : Consistent cfg s) (actions draws : List Int)
    {i k : Nat} {ag ag' : Agent} {sh : Shelf} (hi : s.agents[i]? = some ag)
    (hi' : (step cfg s actions draws).1.agents[i]? = some ag') (hpos : apos ag' = apos ag)
    (hk : s.shelves[k]? = some sh) (hsh : spos sh = apos ag) :
    ((step cfg s actions draws).1.shelves[k]?).map spos = some (spos sh) := by
  have h := (consistent_iff_good cfg s).1 hc
  by_cases hcar : ag.carrying = true
  · obtain ⟨sh', a', h1, h2, h3⟩ := step_shelf_carried hc actions draws hk hi hcar hsh.symm
    rw [hi'] at h2; cases h2
    rw [h1]
    simp only [Option.map_some]
    rw [h3, hpos, hsh]
  · apply step_shelf_free hc actions draws hk
    intro a ha hca hp
    obtain ⟨j, hj, rfl⟩ := List.getElem_of_mem ha
    have hj' := List.getElem?_eq_getElem hj
    have := h.agShown.distinct hj' hi (hp.trans hsh)
    subst this
    rw [hj'] at hi; cases hi
    exact hcar hca

theorem shelfIdxAt_some {shelves : List Shelf} {c : Int × Int} {k : Nat} (h : shelfIdxAt shelves c = some k) :
    ∃ sh, shelves[k]? = some sh ∧ spos sh = c := by
  unfold shelfIdxAt at h
  obtain ⟨hlt, hp, _⟩ := List.findIdx?_eq_some_iff_getElem.1 h
  simp only [Bool.and_eq_true, decide_eq_true_eq] at hp
  exact ⟨shelves[k], List.getElem?_eq_getElem hlt, Prod.ext hp.1 hp.2⟩

/-- C05 (the predicate `frozen` evaluated by the driver), from the agent side: if agent `i` ends the step
on its cell facing the same way, it is `frozen` — the shelf it stands on (if any) is still on that cell -/
theorem step_frozen_of_agent {cfg : Cfg} {s : State} (hc : Consistent cfg s) (actions draws : List Int)
    {i : Nat} {ag ag' : Agent} (hi : s.agents[i]? = some ag)
    (hi' : (step cfg s actions draws).1.agents[i]? = some ag') (hx : ag'.x = ag.x) (hy : ag'.y = ag.y)
    (hd : ag'.dir = ag.dir) :
    frozen s (step cfg s actions draws).1 i = true := by
  unfold frozen
  simp only [getD_of_getElem? hi, getD_of_getElem? hi', hx, hy, hd, decide_true, Bool.true_and]
  split
  · rename_i k hk
    obtain ⟨sh, hsk, hps⟩ := shelfIdxAt_some hk
    have hpos : apos ag' = apos ag := by unfold apos; rw [hx, hy]
    have := step_shelf_under_agent hc actions draws hi hi' hpos hsk hps
    obtain ⟨sh', hs', hp'⟩ := Option.map_eq_some_iff.1 this
    rw [getD_of_getElem? hs']
    have e := spos_eq (hp'.trans hps)
    simp [e.1, e.2]
  · rfl

/-- C05: an agent whose action is masked out by the cached mask is `frozen` -/
theorem step_masked_frozen {cfg : Cfg} {s : State} (hc : Consistent cfg s) (actions draws : List Int)
    {i : Nat} {ag : Agent} {a : Int} {row : List Bool} (hi : s.agents[i]? = some ag)
    (ha : actions[i]? = some a) (hrow : s.mask[i]? = some row) (hm : Jx.getWC row false a = false) :
    frozen s (step cfg s actions draws).1 i = true :=
  step_frozen_of_agent hc actions draws hi (step_masked_agent cfg s actions draws hi ha hrow hm) rfl rfl rfl

/-- C05: an agent whose action is illegal by the rules is `frozen` -/
theorem step_illegal_frozen {cfg : Cfg} {s : State} (hc : Consistent cfg s) (actions draws : List Int)
    {i a : Nat} {ag : Agent} (hi : s.agents[i]? = some ag) (ha : actions[i]? = some (a : Int)) (ha5 : a < 5)
    (hill : ¬ legal s i a) :
    frozen s (step cfg s actions draws).1 i = true :=
  step_frozen_of_agent hc actions draws hi (step_illegal_agent hc actions draws hi ha ha5 hill).2.2 rfl rfl rfl

end RobotWarehouse
