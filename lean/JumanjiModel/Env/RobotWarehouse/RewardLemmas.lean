/-
RobotWarehouse — C08: the reward of a step is the number of deliveries, read from the entity tables, and
the return of a whole run is the total number of deliveries (telescoping over any action / draw sequence).
Also C07 with the weaker hypothesis "no collision" (a step that is LAST only because the time limit is
reached still ends in a `Consistent` state), which is what lets the run theorem continue over any play.

L2 (`deliveries`): go through the goal cells in order; if the shelf standing on the goal cell (by the shelf
TABLE) is in the request queue, it is delivered and its queue slot is refilled with the drawn id.
L1 (`scanGoals`) reads the shelf id off the floor CHANNEL, looks it up in `queue + 1`, and replaces the slot
found by `argwhere`.
-/
import JumanjiModel.Env.RobotWarehouse.ShelfLemmas
namespace RobotWarehouse
open Jm

/-- the world after all agents have moved (the per-agent scan of `step`) -/
def afterMoves (cfg : Cfg) (s : State) (a : List Int) : World :=
  scanAgents cfg.highways s.world (validActions s.mask a) 0

/-- `is_collision` reports nothing after the joint action `a` -/
def NoCollision (cfg : Cfg) (s : State) (a : List Int) : Prop :=
  (collisions (afterMoves cfg s a)).any id = false

instance (cfg : Cfg) (s : State) (a : List Int) : Decidable (NoCollision cfg s a) := by
  unfold NoCollision; infer_instance

/-- the draw lies in the support (same test as the driver's `step` op and `Props.C07.rwareValidDraw`) -/
def ValidDraw (cfg : Cfg) (s : State) (a d : List Int) : Prop :=
  validDraws (afterMoves cfg s a).shelfGrid ⟨s.queue, (afterMoves cfg s a).shelves, 0⟩ cfg.goals d = true

instance (cfg : Cfg) (s : State) (a d : List Int) : Decidable (ValidDraw cfg s a d) := by
  unfold ValidDraw; infer_instance

/-- every goal `(y, x)` is a cell of the floor (the floor has the shape of `highways`) -/
def GoalsInside (cfg : Cfg) : Prop :=
  ∀ g ∈ cfg.goals, inGrid cfg.highways.length (cfg.highways.headD []).length g.2 g.1

instance (cfg : Cfg) : Decidable (GoalsInside cfg) := by unfold GoalsInside; infer_instance

theorem noCollision_of_not_last {cfg : Cfg} {s : State} {a d : List Int}
    (hn : (step cfg s a d).2.stepType ≠ .last) : NoCollision cfg s a := by
  unfold NoCollision afterMoves
  by_cases hcc : (collisions (scanAgents cfg.highways s.world (validActions s.mask a) 0)).any id = true
  · exfalso; apply hn
    simp [step, condLast, hcc, termination]
  · simpa using hcc

/-- without a collision the world after the moves satisfies the strong scan invariant, and the request
queue still fits the shelf table -/
theorem afterMoves_strong {cfg : Cfg} {R C : Nat} {s : State} (h : Good cfg R C s) (a : List Int)
    (hcol : NoCollision cfg s a) :
    Strong R C s (afterMoves cfg s a) (validActions s.mask a).length ∧
      QInv s.queue (afterMoves cfg s a).shelves := by
  have hscan := scan_from_good h a
  simp only [] at hscan
  unfold NoCollision at hcol
  unfold afterMoves at hcol ⊢
  generalize scanAgents cfg.highways s.world (validActions s.mask a) 0 = w at hscan hcol
  rcases hscan with hcl | hst
  · rw [clash_collision hcl] at hcol; cases hcol
  refine ⟨hst, h.qnd, ?_, ?_, ?_⟩
  · rw [hst.slen]; exact h.qrange
  · intro k hk
    have hk' : k < s.shelves.length := by rw [← hst.slen]; exact hk
    have := hst.sreq k
    rw [List.getElem?_eq_getElem hk, List.getElem?_eq_getElem hk'] at this
    simp only [Option.map_some, Option.some.injEq] at this
    rw [← h.qreq k hk']
    simp only [List.getD_eq_getElem?_getD, List.getElem?_eq_getElem hk, List.getElem?_eq_getElem hk',
      Option.getD_some, this]
  · intro sh hsh
    obtain ⟨k, hk, rfl⟩ := List.getElem_of_mem hsh
    have hk' : k < s.shelves.length := by rw [← hst.slen]; exact hk
    have := hst.sreq k
    rw [List.getElem?_eq_getElem hk, List.getElem?_eq_getElem hk'] at this
    simp only [Option.map_some, Option.some.injEq] at this
    rw [this]
    exact h.req _ (List.getElem_mem hk')

/-- C07 with "no collision" instead of "not LAST": the step that reaches the time limit included -/
theorem step_consistent_nocoll {cfg : Cfg} {s : State} (hc : Consistent cfg s) (actions draws : List Int)
    (hv : ValidDraw cfg s actions draws) (hcol : NoCollision cfg s actions) :
    Consistent cfg (step cfg s actions draws).1 := by
  have h := (consistent_iff_good cfg s).1 hc
  generalize hR : gRows s.shelfGrid = R at h
  generalize hC : gCols s.shelfGrid = C at h
  obtain ⟨hst, hq0⟩ := afterMoves_strong h actions hcol
  unfold ValidDraw at hv
  unfold NoCollision at hcol
  unfold afterMoves at hst hq0 hv hcol
  generalize hw : scanAgents cfg.highways s.world (validActions s.mask actions) 0 = w at hst hq0 hv hcol
  obtain ⟨hq, hpos⟩ := scanGoals_inv w.shelfGrid cfg.goals ⟨s.queue, w.shelves, 0⟩ draws hq0 hv
  simp only [] at hpos
  have hShown := shown_of_pos_eq hpos hst.shShown
  have hBacked := backed_of_pos_eq hpos hst.shBacked
  apply good_of_good (R := R) (C := C)
  simp only [step, hw]
  refine ⟨hst.shS, hst.shA, h.shH, h.hR, h.hC, ?_, hq.req01, ?_, hst.agBacked, hShown, hBacked, ?_,
    hq.nd, hq.range, hq.qreq, rfl⟩
  · intro ag hag
    obtain ⟨k, hk, rfl⟩ := List.getElem_of_mem hag
    exact (hst.ain k _ (List.getElem?_eq_getElem hk)).2
  · intro k ag hk
    exact ⟨(hst.ain k ag hk).1, collisions_false hcol hk⟩
  · intro ag hag hcar
    obtain ⟨k, hk, rfl⟩ := List.getElem_of_mem hag
    have hk' := List.getElem?_eq_getElem hk
    exact (shelf_cell_ne_zero_iff hShown hBacked (hst.ain k _ hk').1).1 (hst.carry k _ hk' hcar)

/-! ### L2 deliveries -/

/-- L2: the shelves delivered while going through the goal cells in order (ids, in order of delivery), and
the request queue afterwards.  `shelves` gives the positions, `q` the queue before, `ds` the drawn
replacement ids (one per goal). -/
def deliveries (shelves : List Shelf) : List Int → List (Int × Int) → List Int → List Nat × List Int
  | q, [], _ => ([], q)
  | q, g :: gs, ds =>
    match shelfIdxAt shelves (g.2, g.1) with
    | some k =>
      if (k : Int) ∈ q then
        let r := deliveries shelves (q.map (fun v => if v = (k : Int) then ds.headD 0 else v)) gs ds.tail
        (k :: r.1, r.2)
      else deliveries shelves q gs ds.tail
    | none => deliveries shelves q gs ds.tail

/-- each goal cell delivers at most once per step -/
theorem deliveries_length_le (P : List Shelf) : ∀ (gs : List (Int × Int)) (q ds : List Int),
    (deliveries P q gs ds).1.length ≤ gs.length := by
  intro gs
  induction gs with
  | nil => intro q ds; simp [deliveries]
  | cons g gs ih =>
    intro q ds
    simp only [deliveries]
    split
    · split
      · simp only [List.length_cons]
        exact Nat.succ_le_succ (ih _ _)
      · have := ih q ds.tail
        simp only [List.length_cons]; omega
    · have := ih q ds.tail
      simp only [List.length_cons]; omega

/-- every delivered shelf stands on a goal cell, and was requested: its id was in the queue at the
beginning of the step or is one of the ids drawn during the step (one draw per goal) -/
theorem deliveries_sound (P : List Shelf) : ∀ (gs : List (Int × Int)) (q ds : List Int) (k : Nat),
    gs.length ≤ ds.length → k ∈ (deliveries P q gs ds).1 →
      (∃ g ∈ gs, shelfIdxAt P (g.2, g.1) = some k) ∧ ((k : Int) ∈ q ∨ (k : Int) ∈ ds) := by
  intro gs
  induction gs with
  | nil => intro q ds k _ hk; simp [deliveries] at hk
  | cons g gs ih =>
    intro q ds k hlen hk
    cases ds with
    | nil => simp at hlen
    | cons d0 ds' =>
    simp only [List.length_cons] at hlen
    have hlen' : gs.length ≤ ds'.length := by omega
    simp only [deliveries, List.headD_cons, List.tail_cons] at hk
    split at hk
    · rename_i k0 hk0
      split at hk
      · rename_i hq
        simp only [List.mem_cons] at hk
        rcases hk with rfl | hk
        · exact ⟨⟨g, List.mem_cons_self .., hk0⟩, Or.inl hq⟩
        · obtain ⟨⟨g', hg', h1⟩, h2⟩ := ih _ _ k hlen' hk
          refine ⟨⟨g', List.mem_cons_of_mem _ hg', h1⟩, ?_⟩
          rcases h2 with h2 | h2
          · simp only [List.mem_map] at h2
            obtain ⟨v, hv, hvk⟩ := h2
            split at hvk
            · right; rw [← hvk]; exact List.mem_cons_self ..
            · left; rw [← hvk]; exact hv
          · exact Or.inr (List.mem_cons_of_mem _ h2)
      · obtain ⟨⟨g', hg', h1⟩, h2⟩ := ih _ _ k hlen' hk
        exact ⟨⟨g', List.mem_cons_of_mem _ hg', h1⟩, h2.imp id (List.mem_cons_of_mem _)⟩
    · obtain ⟨⟨g', hg', h1⟩, h2⟩ := ih _ _ k hlen' hk
      exact ⟨⟨g', List.mem_cons_of_mem _ hg', h1⟩, h2.imp id (List.mem_cons_of_mem _)⟩

/-! ### L1 = L2 on the goal scan -/

/-- the floor channel shows, at every cell, the id of the shelf the table has there -/
theorem cell_eq_shelfIdx {R C : Nat} {sg : IGrid} {P : List Shelf} (h1 : Shown spos R C sg P)
    (h2 : Backed spos R C sg P) {x y : Int} (hxy : inGrid R C x y) :
    Jx.Grid.getWC sg 0 x y = match shelfIdxAt P (x, y) with | some k => (k : Int) + 1 | none => 0 := by
  split
  · rename_i k hk
    obtain ⟨sh, hsk, hps⟩ := shelfIdxAt_some hk
    have := (h1 k sh hsk).2
    rw [hps] at this; exact this
  · rename_i hk
    unfold shelfIdxAt at hk
    rw [List.findIdx?_eq_none_iff] at hk
    by_cases h0 : Jx.Grid.getWC sg 0 x y = 0
    · exact h0
    · obtain ⟨k, e, he, _, hpe⟩ := h2 x y hxy h0
      have := hk e (List.mem_of_getElem? he)
      obtain ⟨q1, q2⟩ := spos_eq hpe
      simp [q1, q2] at this

theorem goalFires_eq {R C : Nat} {sg : IGrid} {P : List Shelf} (h1 : Shown spos R C sg P)
    (h2 : Backed spos R C sg P) {g : Int × Int} (hg : inGrid R C g.2 g.1) (q : List Int) :
    goalFires sg q g = match shelfIdxAt P (g.2, g.1) with | some k => decide ((k : Int) ∈ q) | none => false := by
  unfold goalFires
  simp only []
  rw [cell_eq_shelfIdx h1 h2 hg]
  split
  · rename_i k hk
    have hne : ((k : Int) + 1 ≠ 0) := by omega
    simp only [hne, ne_eq, not_false_eq_true, decide_true, Bool.true_and]
    by_cases hkq : (k : Int) ∈ q
    · simp only [hkq, decide_true, List.contains_iff_mem, List.mem_map]
      exact ⟨k, hkq, rfl⟩
    · simp only [hkq, decide_false]
      rw [Bool.eq_false_iff]
      intro hh
      simp only [List.contains_iff_mem, List.mem_map] at hh
      obtain ⟨v, hv, hvk⟩ := hh
      have hvk' : v + 1 = (k : Int) + 1 := hvk
      have : v = (k : Int) := by omega
      exact hkq (this ▸ hv)
  · simp

theorem set_idxOf_eq_map {q : List Int} (hnd : q.Nodup) {k : Int} (hk : k ∈ q) (d : Int) :
    q.set (q.idxOf k) d = q.map (fun v => if v = k then d else v) := by
  induction q with
  | nil => simp at hk
  | cons c l ih =>
    simp only [List.nodup_cons] at hnd
    by_cases hck : c = k
    · subst hck
      have : l.map (fun v => if v = c then d else v) = l := by
        conv => rhs; rw [← List.map_id l]
        apply List.map_congr_left
        intro v hv
        have : v ≠ c := fun e => hnd.1 (e ▸ hv)
        simp [this]
      simp [this]
    · have hk' : k ∈ l := by
        rcases List.mem_cons.1 hk with h | h
        · exact absurd h.symm hck
        · exact h
      have hb : (c == k) = false := by simp [hck]
      rw [List.idxOf_cons, hb]
      simp [ih hnd.2 hk', hck]

theorem processGoal_of_fires {sg : IGrid} {dv : Deliv} {g : Int × Int} {d : Int}
    (hf : goalFires sg dv.queue g = true) :
    (processGoal sg dv g d).queue =
      Jx.setWD dv.queue (firstIdx dv.queue (Jx.Grid.getWC sg 0 g.2 g.1 - 1) : Nat) d ∧
    (processGoal sg dv g d).reward = dv.reward + 1 := by
  unfold processGoal; simp [hf]

theorem processGoal_of_not {sg : IGrid} {dv : Deliv} {g : Int × Int} {d : Int}
    (hf : goalFires sg dv.queue g = false) : processGoal sg dv g d = dv := by
  unfold processGoal; simp [hf]

theorem natCast_succ_rat (r : Rat) (n : Nat) : r + 1 + ((n : Nat) : Rat) = r + ((n + 1 : Nat) : Rat) := by
  rw [Rat.natCast_add, Rat.add_assoc, Rat.add_comm 1]
  rfl

/-- the goal scan, L1 = L2: reward gained = number of deliveries, final queue = the L2 queue -/
theorem scanGoals_deliveries {R C : Nat} {sg : IGrid} {P : List Shelf} (h1 : Shown spos R C sg P)
    (h2 : Backed spos R C sg P) :
    ∀ (gs : List (Int × Int)) (dv : Deliv) (ds : List Int), QInv dv.queue dv.shelves →
      validDraws sg dv gs ds = true → (∀ g ∈ gs, inGrid R C g.2 g.1) →
      (scanGoals sg dv gs ds).reward = dv.reward + (((deliveries P dv.queue gs ds).1.length : Nat) : Rat) ∧
      (scanGoals sg dv gs ds).queue = (deliveries P dv.queue gs ds).2 := by
  intro gs
  induction gs with
  | nil =>
    intro dv ds _ _ _
    simp only [scanGoals, deliveries, List.length_nil]
    exact ⟨(Rat.add_zero _).symm, trivial⟩
  | cons g gs ih =>
    intro dv ds hq hv hin
    simp only [validDraws, Bool.and_eq_true, Bool.or_eq_true, Bool.not_eq_true', decide_eq_true_eq] at hv
    obtain ⟨hv1, hv2⟩ := hv
    have hgin := hin g (List.mem_cons_self ..)
    have hq' := (processGoal_inv sg dv g (ds.headD 0) hq (by
      intro hf
      rcases hv1 with hv1 | hv1
      · rw [hf] at hv1; cases hv1
      · exact ⟨hv1.1.1, hv1.1.2, hv1.2⟩)).1
    have ih' := ih (processGoal sg dv g (ds.headD 0)) ds.tail hq' hv2
      (fun g' hg' => hin g' (List.mem_cons_of_mem _ hg'))
    have hfe := goalFires_eq h1 h2 hgin dv.queue
    have hce := cell_eq_shelfIdx h1 h2 hgin
    simp only [scanGoals, deliveries]
    cases hidx : shelfIdxAt P (g.2, g.1) with
    | none =>
      rw [hidx] at hfe
      simp only [] at hfe
      rw [processGoal_of_not hfe] at ih' ⊢
      exact ih'
    | some k =>
      rw [hidx] at hfe hce
      simp only [] at hfe hce
      by_cases hkq : (k : Int) ∈ dv.queue
      · have hf : goalFires sg dv.queue g = true := by rw [hfe]; simpa using hkq
        obtain ⟨e1, e2⟩ := processGoal_of_fires (d := ds.headD 0) hf
        have e3 : (processGoal sg dv g (ds.headD 0)).queue =
            dv.queue.map (fun v => if v = (k : Int) then ds.headD 0 else v) := by
          rw [e1, hce]
          have : (k : Int) + 1 - 1 = k := by omega
          rw [this]
          have hcon : dv.queue.contains (k : Int) = true := by simpa using hkq
          simp only [firstIdx, hcon, if_true]
          rw [Jx.setWD_nat dv.queue _ (List.idxOf_lt_length_of_mem hkq)]
          exact set_idxOf_eq_map hq.nd hkq _
        rw [e2, e3] at ih'
        simp only [hkq, if_true, List.length_cons]
        exact ⟨ih'.1.trans (natCast_succ_rat _ _), ih'.2⟩
      · have hf : goalFires sg dv.queue g = false := by rw [hfe]; simpa using hkq
        rw [processGoal_of_not hf] at ih' ⊢
        simp only [hkq, if_false]
        exact ih'

theorem condLast_reward {O} (b : Bool) (r : List Rat) (o : O) : (condLast b r o).reward = r := by
  cases b <;> rfl

/-- the deliveries of one step: shelf ids, from the successor's shelf table and the predecessor's queue -/
def stepDeliveries (cfg : Cfg) (s : State) (a d : List Int) : List Nat :=
  (deliveries (step cfg s a d).1.shelves s.queue cfg.goals d).1

/-- C08, one step: from a `Consistent` state, for any joint action without collision and any draw in the
support, the reward is the number of deliveries and the new request queue is the L2 queue -/
theorem step_reward_deliveries {cfg : Cfg} {s : State} (hc : Consistent cfg s) (hg : GoalsInside cfg)
    (a d : List Int) (hv : ValidDraw cfg s a d) (hcol : NoCollision cfg s a) :
    (step cfg s a d).2.reward = [(((stepDeliveries cfg s a d).length : Nat) : Rat)] ∧
    (step cfg s a d).1.queue = (deliveries (step cfg s a d).1.shelves s.queue cfg.goals d).2 := by
  have h := (consistent_iff_good cfg s).1 hc
  generalize hR : gRows s.shelfGrid = R at h
  generalize hC : gCols s.shelfGrid = C at h
  obtain ⟨hst, hq0⟩ := afterMoves_strong h a hcol
  have hdims := shaped_dims h.shH h.hR
  have hgin : ∀ g ∈ cfg.goals, inGrid R C g.2 g.1 := by
    intro g hgm
    have := hg g hgm
    rw [hdims.1, hdims.2] at this
    exact this
  unfold stepDeliveries
  unfold ValidDraw at hv
  have hpos : ∀ (k : Nat), ((step cfg s a d).1.shelves[k]?).map spos =
      ((afterMoves cfg s a).shelves[k]?).map spos := step_shelves_spos cfg s a d
  have hShown := shown_of_pos_eq hpos hst.shShown
  have hBacked := backed_of_pos_eq hpos hst.shBacked
  have key := scanGoals_deliveries hShown hBacked cfg.goals ⟨s.queue, (afterMoves cfg s a).shelves, 0⟩ d
    hq0 hv hgin
  simp only [Rat.zero_add] at key
  have e1 : (step cfg s a d).2.reward =
      [(scanGoals (afterMoves cfg s a).shelfGrid ⟨s.queue, (afterMoves cfg s a).shelves, 0⟩ cfg.goals d).reward] := by
    simp only [step, condLast_reward]; rfl
  have e2 : (step cfg s a d).1.queue =
      (scanGoals (afterMoves cfg s a).shelfGrid ⟨s.queue, (afterMoves cfg s a).shelves, 0⟩ cfg.goals d).queue := rfl
  rw [e1, e2, key.1, key.2]
  exact ⟨rfl, rfl⟩


/-! ### unconditional: the reward is the number of goals that fire in the L1 scan -/

/-- L1: how many goals fire along the goal scan (floor channel + queue, as the code reads them) -/
def firedCount (sg : IGrid) : Deliv → List (Int × Int) → List Int → Nat
  | _, [], _ => 0
  | dv, g :: gs, ds => (if goalFires sg dv.queue g then 1 else 0) +
      firedCount sg (processGoal sg dv g (ds.headD 0)) gs ds.tail

theorem firedCount_le (sg : IGrid) : ∀ (gs : List (Int × Int)) (dv : Deliv) (ds : List Int),
    firedCount sg dv gs ds ≤ gs.length := by
  intro gs
  induction gs with
  | nil => intro dv ds; simp [firedCount]
  | cons g gs ih =>
    intro dv ds
    simp only [firedCount, List.length_cons]
    have := ih (processGoal sg dv g (ds.headD 0)) ds.tail
    split <;> omega

theorem scanGoals_reward (sg : IGrid) : ∀ (gs : List (Int × Int)) (dv : Deliv) (ds : List Int),
    (scanGoals sg dv gs ds).reward = dv.reward + ((firedCount sg dv gs ds : Nat) : Rat) := by
  intro gs
  induction gs with
  | nil => intro dv ds; simp only [scanGoals, firedCount]; exact (Rat.add_zero _).symm
  | cons g gs ih =>
    intro dv ds
    simp only [scanGoals, firedCount]
    rw [ih]
    by_cases hf : goalFires sg dv.queue g = true
    · rw [(processGoal_of_fires hf).2]
      simp only [hf, if_true]
      rw [Nat.add_comm 1]
      exact natCast_succ_rat _ _
    · have hf' : goalFires sg dv.queue g = false := by simpa using hf
      rw [processGoal_of_not hf']
      simp [hf']

/-- C08, one step, ALL states / joint actions / draws (the step ended by a collision included): the reward
is one number, the count of goals that fired, at most the number of goals -/
theorem step_reward_fired (cfg : Cfg) (s : State) (a d : List Int) :
    (step cfg s a d).2.reward = [((firedCount (afterMoves cfg s a).shelfGrid
      ⟨s.queue, (afterMoves cfg s a).shelves, 0⟩ cfg.goals d : Nat) : Rat)] ∧
    firedCount (afterMoves cfg s a).shelfGrid ⟨s.queue, (afterMoves cfg s a).shelves, 0⟩ cfg.goals d
      ≤ cfg.goals.length := by
  refine ⟨?_, firedCount_le _ _ _ _⟩
  have e1 : (step cfg s a d).2.reward =
      [(scanGoals (afterMoves cfg s a).shelfGrid ⟨s.queue, (afterMoves cfg s a).shelves, 0⟩ cfg.goals d).reward] := by
    simp only [step, condLast_reward]; rfl
  rw [e1, scanGoals_reward]
  simp only [Rat.zero_add]

/-! ### whole runs -/

/-- a play: one (joint action, draw) pair per step -/
abbrev Play := List (List Int × List Int)

def runState (cfg : Cfg) (s : State) : Play → State
  | [] => s
  | p :: ps => runState cfg (step cfg s p.1 p.2).1 ps

/-- sum of the rewards of playing `ps` from `s` -/
def runReturn (cfg : Cfg) (s : State) : Play → Rat
  | [] => 0
  | p :: ps => (step cfg s p.1 p.2).2.reward.sum + runReturn cfg (step cfg s p.1 p.2).1 ps

/-- L2: all deliveries of the play, in order: (step index, shelf id) -/
def runDeliveries (cfg : Cfg) (s : State) : Play → Nat → List (Nat × Nat)
  | [], _ => []
  | p :: ps, t => (stepDeliveries cfg s p.1 p.2).map (fun k => (t, k)) ++
      runDeliveries cfg (step cfg s p.1 p.2).1 ps (t + 1)

/-- every draw in the support and no step with a collision (the play may run past the time limit) -/
def ValidRun (cfg : Cfg) (s : State) : Play → Prop
  | [] => True
  | p :: ps => ValidDraw cfg s p.1 p.2 ∧ NoCollision cfg s p.1 ∧ ValidRun cfg (step cfg s p.1 p.2).1 ps

instance (cfg : Cfg) : ∀ (s : State) (ps : Play), Decidable (ValidRun cfg s ps)
  | _, [] => by unfold ValidRun; infer_instance
  | s, p :: ps => by
    unfold ValidRun
    have := instDecidableValidRun cfg (step cfg s p.1 p.2).1 ps
    infer_instance

theorem run_consistent {cfg : Cfg} : ∀ (ps : Play) (s : State), Consistent cfg s → ValidRun cfg s ps →
    Consistent cfg (runState cfg s ps) := by
  intro ps
  induction ps with
  | nil => intro s hc _; exact hc
  | cons p ps ih =>
    intro s hc hv
    obtain ⟨h1, h2, h3⟩ := hv
    exact ih _ (step_consistent_nocoll hc p.1 p.2 h1 h2) h3

/-- C08, whole run (telescoping): the return is the number of deliveries -/
theorem run_return {cfg : Cfg} (hg : GoalsInside cfg) : ∀ (ps : Play) (s : State) (t : Nat),
    Consistent cfg s → ValidRun cfg s ps →
    runReturn cfg s ps = (((runDeliveries cfg s ps t).length : Nat) : Rat) := by
  intro ps
  induction ps with
  | nil => intro s t _ _; rfl
  | cons p ps ih =>
    intro s t hc hv
    obtain ⟨h1, h2, h3⟩ := hv
    have hs := step_reward_deliveries hc hg p.1 p.2 h1 h2
    have hc' := step_consistent_nocoll hc p.1 p.2 h1 h2
    simp only [runReturn, runDeliveries, List.length_append, List.length_map]
    rw [hs.1, ih _ (t + 1) hc' h3, Rat.natCast_add]
    simp [Rat.add_zero]

end RobotWarehouse
