/- Proofs for RobotWarehouse (helper lemmas + the statements re-exported by Props/Env/RobotWarehouse.lean). -/
import JumanjiModel.Env.RobotWarehouse.Model
import JumanjiModel.Prim.Lemmas
namespace RobotWarehouse
open Jm

/-! ### the environment's reaction to a masked-out action -/

theorem validActions_cons (row : List Bool) (rows : List (List Bool)) (a : Int) (as : List Int) :
    validActions (row :: rows) (a :: as) =
      (if Jx.getWC row false a then a else 0) :: validActions rows as := rfl

/-! ### lengths of the entity tables are invariant -/

theorem forward_lengths (w : World) (i : Nat) :
    (forward w i).agents.length = w.agents.length ∧ (forward w i).shelves.length = w.shelves.length := by
  unfold forward; simp only []
  split <;> simp [Jx.setWD_length]

theorem turnOrToggle_lengths (w : World) (a : Int) (i : Nat) (hw : Bool) :
    (turnOrToggle w a i hw).agents.length = w.agents.length ∧
    (turnOrToggle w a i hw).shelves.length = w.shelves.length := by
  unfold turnOrToggle; simp only []
  repeat' split
  all_goals simp [Jx.setWD_length]

theorem updateAgent_lengths (hw : List (List Bool)) (w : World) (a : Int) (i : Nat) :
    (updateAgent hw w a i).agents.length = w.agents.length ∧
    (updateAgent hw w a i).shelves.length = w.shelves.length := by
  unfold updateAgent; simp only []
  split
  · exact forward_lengths w i
  · exact turnOrToggle_lengths w a i _

theorem scanAgents_lengths (hw : List (List Bool)) (w : World) (as : List Int) (i : Nat) :
    (scanAgents hw w as i).agents.length = w.agents.length ∧
    (scanAgents hw w as i).shelves.length = w.shelves.length := by
  induction as generalizing w i with
  | nil => exact ⟨rfl, rfl⟩
  | cons a as ih =>
    have h1 := updateAgent_lengths hw w a i
    have h2 := ih (updateAgent hw w a i) (i + 1)
    simp only [scanAgents]
    exact ⟨h2.1.trans h1.1, h2.2.trans h1.2⟩

theorem processGoal_lengths (sg : IGrid) (dv : Deliv) (g : Int × Int) (d : Int) :
    (processGoal sg dv g d).queue.length = dv.queue.length ∧
    (processGoal sg dv g d).shelves.length = dv.shelves.length := by
  unfold processGoal; simp only []
  split <;> simp [Jx.setWD_length]

theorem scanGoals_lengths (sg : IGrid) (dv : Deliv) (gs : List (Int × Int)) (ds : List Int) :
    (scanGoals sg dv gs ds).queue.length = dv.queue.length ∧
    (scanGoals sg dv gs ds).shelves.length = dv.shelves.length := by
  induction gs generalizing dv ds with
  | nil => exact ⟨rfl, rfl⟩
  | cons g gs ih =>
    have h1 := processGoal_lengths sg dv g (ds.headD 0)
    have h2 := ih (processGoal sg dv g (ds.headD 0)) ds.tail
    simp only [scanGoals]
    exact ⟨h2.1.trans h1.1, h2.2.trans h1.2⟩

/-- C07 (conserved): no shelf, agent or queue slot is ever created or destroyed by `step` -/
theorem step_lengths (cfg : Cfg) (s : State) (a d : List Int) :
    (step cfg s a d).1.shelves.length = s.shelves.length ∧
    (step cfg s a d).1.agents.length = s.agents.length ∧
    (step cfg s a d).1.queue.length = s.queue.length := by
  have h1 := scanAgents_lengths cfg.highways s.world (validActions s.mask a) 0
  have h2 := scanGoals_lengths (scanAgents cfg.highways s.world (validActions s.mask a) 0).shelfGrid
    ⟨s.queue, (scanAgents cfg.highways s.world (validActions s.mask a) 0).shelves, 0⟩ cfg.goals d
  simp only [step]
  exact ⟨h2.2.trans h1.2, h1.1, h2.1⟩

/-- C11: the counter advances by one and the step is LAST once it reaches the limit -/
theorem time_limit (cfg : Cfg) (s : State) (a d : List Int) :
    (step cfg s a d).1.stepCount = s.stepCount + 1 ∧
    (s.stepCount + 1 ≥ cfg.timeLimit → (step cfg s a d).2.stepType = .last) := by
  refine ⟨rfl, fun h => ?_⟩
  simp [step, condLast, h, termination]

theorem condLast_obs {O} (b : Bool) (r : List Rat) (o : O) : (condLast b r o).obs = o := by
  cases b <;> rfl

/-- C12 (copied fields + cached mask): the observation's mask and step count are those of the
successor state, and the successor's cached mask is the mask of its own grid and agents -/
theorem obs_copied (cfg : Cfg) (s : State) (a d : List Int) :
    (step cfg s a d).2.obs.mask = (step cfg s a d).1.mask ∧
    (step cfg s a d).2.obs.stepCount = (step cfg s a d).1.stepCount ∧
    (step cfg s a d).1.mask = computeMask (step cfg s a d).1.shelfGrid (step cfg s a d).1.agents ∧
    (step cfg s a d).2.obs.view = makeObservations cfg (step cfg s a d).1.world := by
  simp [step, condLast_obs, State.world]

/-- the no-op (and hence every masked-out action) never moves or turns the agent and never touches
the floor or the shelf table; it can only clear `is_carrying` -/
theorem noop_effect (hw : List (List Bool)) (w : World) (i : Nat) :
    (updateAgent hw w 0 i).shelfGrid = w.shelfGrid ∧ (updateAgent hw w 0 i).agentGrid = w.agentGrid ∧
    (updateAgent hw w 0 i).shelves = w.shelves ∧
    ((updateAgent hw w 0 i).agents = w.agents ∨
     (updateAgent hw w 0 i).agents =
       Jx.setWD w.agents (i : Int) { Jx.getWC w.agents default (i : Int) with carrying := false }) := by
  unfold updateAgent turnOrToggle; simp only []
  split
  · next h => exact absurd h (by decide)
  · split
    · next h => exact absurd h (by decide)
    · split
      · next h => exact absurd h.1 (by decide)
      · split
        · exact ⟨rfl, rfl, rfl, Or.inr rfl⟩
        · exact ⟨rfl, rfl, rfl, Or.inl rfl⟩

end RobotWarehouse
