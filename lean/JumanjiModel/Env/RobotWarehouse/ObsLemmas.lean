/-
RobotWarehouse — C12: under `Consistent` the L1 sensor vector (`make_agent_observation`: a zero
vector filled by `lax.dynamic_update_slice` at a running index, the sensor windows cut out of the
zero-padded channels) equals the L2 table-based `observe`.

The running index never leaves the vector (so the clamping of `dynamic_update_slice` is never
active) because exactly ONE window cell — the centre — shows the observing agent itself; this is
where `Consistent` (no two agents on a cell) is used, and what fails after a collision (RW2).
-/
import JumanjiModel.Env.RobotWarehouse.MaskLemmas
namespace RobotWarehouse
open Jm

/-! ### `dynamic_update_slice` inside the vector -/

theorem dynUpdate_mid (pre mid post data : List Int) (idx : Int) (hidx : idx = (pre.length : Int))
    (hlen : mid.length = data.length) :
    dynUpdate (pre ++ mid ++ post) idx data = pre ++ data ++ post := by
  subst hidx
  unfold dynUpdate
  have h1 : ¬ (data.length > (pre ++ mid ++ post).length) := by simp; omega
  rw [if_neg h1]
  simp only []
  have h2 : ¬ ((pre.length : Int) < 0) := by omega
  have h3 : ¬ ((pre.length : Int) > ((pre ++ mid ++ post).length : Int) - (data.length : Int)) := by
    simp only [List.length_append]; omega
  rw [if_neg h2, if_neg h3]
  simp only [Int.toNat_natCast]
  have e1 : List.take pre.length (pre ++ mid ++ post) = pre := by
    rw [List.append_assoc, List.take_left']; rfl
  have e2 : List.drop (pre.length + data.length) (pre ++ mid ++ post) = post := by
    rw [← hlen]
    have : pre.length + mid.length = (pre ++ mid).length := by simp
    rw [this, List.drop_left']; rfl
  rw [e1, e2]

theorem oneHot4_length (d : Int) : (oneHot4 d).length = 4 := by simp [oneHot4]

theorem replicate_split (k n : Nat) (h : n ≤ k) :
    List.replicate k (0 : Int) = List.replicate n 0 ++ List.replicate (k - n) 0 := by
  rw [List.replicate_append_replicate]; congr 1; omega

/-! ### the two sensor scans -/

/-- what one cell of the agents window contributes -/
def agentContent (agents : List Agent) (me : Nat) (v : Int) : List Int :=
  if v = 0 then [0, 0, 0, 0, 0] else if v = (me : Int) + 1 then []
  else 1 :: oneHot4 (Jx.getWC agents default (v - 1)).dir

/-- what one cell of the shelves window contributes -/
def shelfContent (shelves : List Shelf) (v : Int) : List Int :=
  if v = 0 then [0, 0] else [1, (Jx.getWC shelves default (v - 1)).requested]

theorem agentScan_spec (agents : List Agent) (me : Nat) : ∀ (vs : List Int) (pre : List Int) (k : Nat) (idx : Int),
    idx = (pre.length : Int) → (vs.flatMap (agentContent agents me)).length ≤ k →
    agentSensorScan agents me (pre ++ List.replicate k 0, idx) vs =
      (pre ++ vs.flatMap (agentContent agents me) ++
        List.replicate (k - (vs.flatMap (agentContent agents me)).length) 0,
       idx + ((vs.flatMap (agentContent agents me)).length : Int)) := by
  intro vs
  induction vs with
  | nil => intro pre k idx _ _; simp [agentSensorScan]
  | cons v vs ih =>
    intro pre k idx hidx hk
    simp only [List.flatMap_cons, List.length_append] at hk ⊢
    unfold agentSensorScan
    simp only [decide_eq_true_eq]
    by_cases h0 : v = 0
    · have hc : agentContent agents me v = [0, 0, 0, 0, 0] := by simp [agentContent, h0]
      rw [hc] at hk ⊢
      simp only [List.length_cons, List.length_nil] at hk
      have hself : ¬ (v = (me : Int) + 1) := by omega
      simp only [h0, true_or, if_true]
      have hself' : ¬ ((0 : Int) = (me : Int) + 1) := by omega
      simp only [hself', if_false]
      have e := replicate_split k 5 (by omega)
      rw [e, ← List.append_assoc]
      have := ih (pre ++ List.replicate 5 0) (k - 5) (idx + 5) (by simp [hidx]) (by omega)
      rw [this]
      have eL : k - 5 - (vs.flatMap (agentContent agents me)).length =
          k - (0 + 1 + 1 + 1 + 1 + 1 + (vs.flatMap (agentContent agents me)).length) := by omega
      simp only [List.length_cons, List.length_nil, List.replicate, List.append_assoc]
      refine Prod.ext ?_ ?_
      · simp only []
        rw [eL]
      · simp only []; omega
    · by_cases hs : v = (me : Int) + 1
      · have hc : agentContent agents me v = [] := by
          have : ¬ ((me : Int) + 1 = 0) := by omega
          simp [agentContent, hs, this]
        rw [hc] at hk ⊢
        simp only [List.length_nil, Nat.zero_add] at hk
        simp only [hs, or_true, if_true, List.nil_append, List.length_nil, Nat.zero_add]
        exact ih pre k idx hidx hk
      · have hc : agentContent agents me v = 1 :: oneHot4 (Jx.getWC agents default (v - 1)).dir := by
          simp [agentContent, h0, hs]
        rw [hc] at hk ⊢
        simp only [List.length_cons, oneHot4_length] at hk
        have hor : ¬ (v = 0 ∨ v = (me : Int) + 1) := by
          intro h; rcases h with h | h
          · exact h0 h
          · exact hs h
        simp only [hor, if_false]
        generalize hoh : oneHot4 (Jx.getWC agents default (v - 1)).dir = oh at hk ⊢
        have hohl : oh.length = 4 := by rw [← hoh]; exact oneHot4_length _
        have e : List.replicate k (0 : Int) = [0] ++ (List.replicate 4 0 ++ List.replicate (k - 5) 0) := by
          rw [List.replicate_append_replicate]
          have : [(0 : Int)] = List.replicate 1 0 := rfl
          rw [this, List.replicate_append_replicate]; congr 1; omega
        rw [e]
        have d1 := dynUpdate_mid pre [0] (List.replicate 4 0 ++ List.replicate (k - 5) 0) [1] idx hidx rfl
        rw [← List.append_assoc, d1]
        have d2 := dynUpdate_mid (pre ++ [1]) (List.replicate 4 0) (List.replicate (k - 5) 0) oh (idx + 1)
          (by simp [hidx]) (by simp [hohl])
        rw [← List.append_assoc, d2]
        have := ih (pre ++ [1] ++ oh) (k - 5) (idx + 5) (by simp [hidx, hohl]) (by omega)
        rw [this]
        have eL : k - 5 - (vs.flatMap (agentContent agents me)).length =
            k - (4 + 1 + (vs.flatMap (agentContent agents me)).length) := by omega
        refine Prod.ext ?_ ?_
        · simp only [List.length_cons, hohl, List.append_assoc, List.cons_append, List.nil_append]
          rw [eL]
        · simp only [List.length_cons, hohl]; omega

theorem shelfScan_spec (shelves : List Shelf) : ∀ (vs : List Int) (pre : List Int) (k : Nat) (idx : Int),
    idx = (pre.length : Int) → (vs.flatMap (shelfContent shelves)).length ≤ k →
    shelfSensorScan shelves (pre ++ List.replicate k 0, idx) vs =
      (pre ++ vs.flatMap (shelfContent shelves) ++
        List.replicate (k - (vs.flatMap (shelfContent shelves)).length) 0,
       idx + ((vs.flatMap (shelfContent shelves)).length : Int)) := by
  intro vs
  induction vs with
  | nil => intro pre k idx _ _; simp [shelfSensorScan]
  | cons v vs ih =>
    intro pre k idx hidx hk
    simp only [List.flatMap_cons, List.length_append] at hk ⊢
    unfold shelfSensorScan
    by_cases h0 : v = 0
    · have hc : shelfContent shelves v = [0, 0] := by simp [shelfContent, h0]
      rw [hc] at hk ⊢
      simp only [List.length_cons, List.length_nil] at hk
      simp only [h0, if_true]
      have e := replicate_split k 2 (by omega)
      rw [e, ← List.append_assoc]
      have := ih (pre ++ List.replicate 2 0) (k - 2) (idx + 2) (by simp [hidx]) (by omega)
      rw [this]
      have eL : k - 2 - (vs.flatMap (shelfContent shelves)).length =
          k - (0 + 1 + 1 + (vs.flatMap (shelfContent shelves)).length) := by omega
      simp only [List.length_cons, List.length_nil, List.replicate, List.append_assoc]
      refine Prod.ext ?_ ?_
      · simp only []
        rw [eL]
      · simp only []; omega
    · have hc : shelfContent shelves v = [1, (Jx.getWC shelves default (v - 1)).requested] := by
        simp [shelfContent, h0]
      rw [hc] at hk ⊢
      simp only [List.length_cons, List.length_nil] at hk
      simp only [h0, if_false]
      have e := replicate_split k 2 (by omega)
      rw [e, ← List.append_assoc]
      have d1 := dynUpdate_mid pre (List.replicate 2 0) (List.replicate (k - 2) 0)
        [1, (Jx.getWC shelves default (v - 1)).requested] idx hidx rfl
      rw [d1]
      have := ih (pre ++ [1, (Jx.getWC shelves default (v - 1)).requested]) (k - 2) (idx + 2)
        (by simp [hidx]) (by omega)
      rw [this]
      have eL : k - 2 - (vs.flatMap (shelfContent shelves)).length =
          k - (0 + 1 + 1 + (vs.flatMap (shelfContent shelves)).length) := by omega
      refine Prod.ext ?_ ?_
      · simp only [List.length_cons, List.length_nil, List.append_assoc, List.cons_append, List.nil_append]
        rw [eL]
      · simp only [List.length_cons, List.length_nil]; omega


theorem spos_eq' {a : Shelf} {c : Int × Int} (h : spos a = c) : a.x = c.1 ∧ a.y = c.2 := by
  subst h; exact ⟨rfl, rfl⟩

/-! ### list helpers -/

theorem find?_unique {α} {l : List α} {p : α → Bool} {e : α} (he : e ∈ l) (hp : p e = true)
    (hu : ∀ x ∈ l, p x = true → x = e) : l.find? p = some e := by
  induction l with
  | nil => cases he
  | cons x l ih =>
    by_cases hx : p x = true
    · have := hu x (List.mem_cons_self) hx
      subst this
      simp [hx]
    · have hx' : p x = false := by simpa using hx
      have hne : e ≠ x := by rintro rfl; rw [hp] at hx'; cases hx'
      have he' : e ∈ l := by
        rcases List.mem_cons.1 he with h | h
        · exact absurd h hne
        · exact h
      simp only [List.find?_cons, hx']
      exact ih he' (fun y hy hpy => hu y (List.mem_cons_of_mem _ hy) hpy)

theorem flatMap_filter' {α β} (l : List α) (p : α → Bool) (f : α → List β) :
    (l.filter p).flatMap f = l.flatMap (fun a => if p a = true then f a else []) := by
  induction l with
  | nil => rfl
  | cons x l ih =>
    by_cases hx : p x = true
    · simp [hx, ih]
    · simp [hx, ih]

theorem flatMap_congr' {α β} {l : List α} {f g : α → List β} (h : ∀ a ∈ l, f a = g a) :
    l.flatMap f = l.flatMap g := by
  induction l with
  | nil => rfl
  | cons x l ih =>
    simp only [List.flatMap_cons]
    rw [h x List.mem_cons_self, ih (fun a ha => h a (List.mem_cons_of_mem _ ha))]

theorem flatMap_length_const {α β} {l : List α} {f : α → List β} {n : Nat} (h : ∀ a ∈ l, (f a).length = n) :
    (l.flatMap f).length = n * l.length := by
  induction l with
  | nil => simp
  | cons x l ih =>
    simp only [List.flatMap_cons, List.length_append, List.length_cons]
    rw [h x List.mem_cons_self, ih (fun a ha => h a (List.mem_cons_of_mem _ ha)), Nat.mul_succ]
    omega

/-! ### the sensor window -/

theorem windowCells_length (r : Nat) (x y : Int) : (windowCells r x y).length = numSensors r := by
  unfold windowCells numSensors
  have e : 1 + 2 * r = 2 * r + 1 := by omega
  rw [e]
  generalize 2 * r + 1 = n
  have : ∀ m : Nat, ((List.range m).flatMap (fun (i : Nat) => (List.range n).map (fun (j : Nat) =>
      (x + (i : Int) - (r : Int), y + (j : Int) - (r : Int))))).length = m * n := by
    intro m
    induction m with
    | zero => simp
    | succ m ih =>
      rw [List.range_succ, List.flatMap_append, List.length_append, ih]
      simp [Nat.succ_mul]
  exact this n

theorem windowCells_nodup (r : Nat) (x y : Int) : (windowCells r x y).Nodup := by
  unfold windowCells List.Nodup
  rw [List.pairwise_flatMap]
  constructor
  · intro i _
    rw [List.pairwise_map]
    exact (List.nodup_range (n := 2 * r + 1)).imp (fun {a b} hab heq => hab (by
      have := congrArg Prod.snd heq
      simp only [] at this
      omega))
  · exact (List.nodup_range (n := 2 * r + 1)).imp (fun {a b} hab p hp q hq heq => by
      simp only [List.mem_map] at hp hq
      obtain ⟨_, _, rfl⟩ := hp
      obtain ⟨_, _, rfl⟩ := hq
      have := congrArg Prod.fst heq
      simp only [] at this
      omega)

theorem centre_mem_windowCells (r : Nat) (x y : Int) : (x, y) ∈ windowCells r x y := by
  unfold windowCells
  simp only [List.mem_flatMap, List.mem_range, List.mem_map]
  exact ⟨r, by omega, r, by omega, by apply Prod.ext <;> simp⟩

theorem windowCells_others_length (r : Nat) (x y : Int) :
    ((windowCells r x y).filter (fun c => !decide (c = (x, y)))).length = numSensors r - 1 := by
  have h1 := List.length_eq_countP_add_countP (fun c => !decide (c = (x, y))) (l := windowCells r x y)
  have h2 : List.countP (fun c => decide ¬ ((!decide (c = (x, y))) = true)) (windowCells r x y) =
      List.count (x, y) (windowCells r x y) := by
    unfold List.count
    apply List.countP_congr
    intro c _
    simp
  have h3 := (windowCells_nodup r x y).count (a := (x, y))
  rw [if_pos (centre_mem_windowCells r x y)] at h3
  rw [← List.countP_eq_length_filter, ← windowCells_length r x y]
  omega


/-! ### the windows cut out of the padded channels -/

theorem padGet_eq {g : IGrid} {R C : Nat} (hs : Jx.Grid.shaped g R C = true) (hR : 0 < R) (a b : Int) :
    padGet g a b = if inGrid R C a b then Jx.Grid.getWC g 0 a b else 0 := by
  have hd := shaped_dims hs hR
  have eR : gRows g = R := hd.1
  have eC : gCols g = C := hd.2
  unfold padGet
  rw [eR, eC]
  by_cases hin : inGrid R C a b
  · rw [if_pos hin]
    have hin' : 0 ≤ a ∧ a < (R : Int) ∧ 0 ≤ b ∧ b < (C : Int) := hin
    rw [if_pos hin']
    obtain ⟨a', b', ha, hb, rfl, rfl⟩ := inGrid_nat hin
    simp only [Int.toNat_natCast]
    exact (cell_get hs ha hb 0).symm
  · rw [if_neg hin]
    have hin' : ¬ (0 ≤ a ∧ a < (R : Int) ∧ 0 ≤ b ∧ b < (C : Int)) := hin
    rw [if_neg hin']

theorem viewOf_eq {g : IGrid} {R C : Nat} (hs : Jx.Grid.shaped g R C = true) (hR : 0 < R) {x y : Int}
    (hin : inGrid R C x y) (r : Nat) :
    viewOf g r x y = (windowCells r x y).map (fun c => padGet g c.1 c.2) := by
  have hd := shaped_dims hs hR
  have eR : gRows g = R := hd.1
  have eC : gCols g = C := hd.2
  obtain ⟨h1, h2, h3, h4⟩ := hin
  unfold viewOf windowCells sliceStart
  rw [eR, eC]
  have a1 : ¬ (x < 0) := by omega
  have a2 : ¬ (x > (R : Int) - 1) := by omega
  have a3 : ¬ (y < 0) := by omega
  have a4 : ¬ (y > (C : Int) - 1) := by omega
  simp only [a1, a2, a3, a4, if_false, List.map_flatMap, List.map_map, Function.comp_def]

/-! ### one window cell: L1 contribution = L2 contribution -/

/-- L2: the other agent reported on cell `c` -/
def agentCellL2 (agents : List Agent) (me : Nat) (c : Int × Int) : List Int :=
  match otherAgentAt agents me c with
  | some o => (1 : Int) :: oneHot4 o.dir
  | none => [0, 0, 0, 0, 0]

/-- L2: the shelf reported on cell `c` -/
def shelfCellL2 (shelves : List Shelf) (c : Int × Int) : List Int :=
  match shelfAt shelves c with
  | some sh => [1, sh.requested]
  | none => [0, 0]

theorem observeAgent_eq (cfg : Cfg) (s : State) (i : Nat) :
    observeAgent cfg s i =
      [(s.agents.getD i default).x, (s.agents.getD i default).y,
        if (s.agents.getD i default).carrying then 1 else 0] ++ oneHot4 (s.agents.getD i default).dir ++
      [if Jx.Grid.getWC cfg.highways false (s.agents.getD i default).x (s.agents.getD i default).y
        then (1 : Int) else 0] ++
      (((windowCells cfg.sensorRange (s.agents.getD i default).x (s.agents.getD i default).y).filter
        (fun c => !decide (c = ((s.agents.getD i default).x, (s.agents.getD i default).y)))).flatMap
          (agentCellL2 s.agents i)) ++
      ((windowCells cfg.sensorRange (s.agents.getD i default).x (s.agents.getD i default).y).flatMap
        (shelfCellL2 s.shelves)) := rfl

theorem agentCellL2_length (agents : List Agent) (me : Nat) (c : Int × Int) :
    (agentCellL2 agents me c).length = 5 := by
  unfold agentCellL2
  split <;> simp [oneHot4_length]

theorem shelfCellL2_length (shelves : List Shelf) (c : Int × Int) : (shelfCellL2 shelves c).length = 2 := by
  unfold shelfCellL2
  split <;> simp

theorem otherAgentAt_none {agents : List Agent} {me : Nat} {c : Int × Int}
    (h : ∀ (j : Nat) (e : Agent), agents[j]? = some e → j ≠ me → apos e ≠ c) :
    otherAgentAt agents me c = none := by
  unfold otherAgentAt
  rw [Option.map_eq_none_iff, List.find?_eq_none]
  intro j hj
  rw [List.mem_range] at hj
  have hje := List.getElem?_eq_getElem hj
  simp only [Bool.and_eq_true, decide_eq_true_eq, not_and]
  intro hne
  rw [getD_of_getElem? hje]
  exact h j _ hje hne

theorem otherAgentAt_some {R C : Nat} {g : IGrid} {agents : List Agent} (hsh : Shown apos R C g agents)
    {me k : Nat} {e : Agent} {c : Int × Int} (hk : agents[k]? = some e) (hkm : k ≠ me) (hp : apos e = c) :
    otherAgentAt agents me c = some e := by
  unfold otherAgentAt
  have hlt := getElem?_lt hk
  have : (List.range agents.length).find? (fun j => decide (j ≠ me) &&
      decide (((agents.getD j default).x, (agents.getD j default).y) = c)) = some k := by
    apply find?_unique (List.mem_range.2 hlt)
    · rw [getD_of_getElem? hk]
      simp only [Bool.and_eq_true, decide_eq_true_eq]
      exact ⟨hkm, hp⟩
    · intro j hj hq
      rw [List.mem_range] at hj
      have hje := List.getElem?_eq_getElem hj
      rw [getD_of_getElem? hje] at hq
      simp only [Bool.and_eq_true, decide_eq_true_eq] at hq
      exact hsh.distinct hje hk (hq.2.trans hp.symm)
  rw [this]
  simp [hk]

theorem agent_cell {cfg : Cfg} {R C : Nat} {s : State} (h : Good cfg R C s) {i : Nat} {ag : Agent}
    (hi : s.agents[i]? = some ag) (c : Int × Int) :
    agentContent s.agents i (padGet s.agentGrid c.1 c.2) =
      if (!decide (c = (ag.x, ag.y))) = true then agentCellL2 s.agents i c else [] := by
  rw [padGet_eq h.shA h.hR]
  obtain ⟨hagin, hagv⟩ := h.agShown i ag hi
  simp only [apos] at hagin hagv
  by_cases hce : c = (ag.x, ag.y)
  · subst hce
    simp only [decide_true, Bool.not_true, if_neg (Bool.false_ne_true)]
    rw [if_pos hagin, hagv]
    unfold agentContent
    have : ¬ ((i : Int) + 1 = 0) := by omega
    simp [this]
  · simp only [hce, decide_false, Bool.not_false, if_true]
    have hnone : (∀ (j : Nat) (e : Agent), s.agents[j]? = some e → apos e ≠ c) →
        agentContent s.agents i 0 = agentCellL2 s.agents i c := by
      intro hh
      unfold agentCellL2
      rw [otherAgentAt_none (fun j e hj _ => hh j e hj)]
      simp [agentContent]
    by_cases hin : inGrid R C c.1 c.2
    · rw [if_pos hin]
      by_cases hv : Jx.Grid.getWC s.agentGrid 0 c.1 c.2 = 0
      · rw [hv]
        apply hnone
        intro j e hj hpe
        have := (h.agShown j e hj).2
        rw [hpe] at this
        omega
      · obtain ⟨k, e, hk, hkv, hpe⟩ := h.agBacked c.1 c.2 hin hv
        have hki : k ≠ i := by
          rintro rfl
          rw [hi] at hk; cases hk
          exact hce hpe.symm
        unfold agentCellL2
        rw [otherAgentAt_some h.agShown hk hki hpe]
        unfold agentContent
        have h1 : ¬ (Jx.Grid.getWC s.agentGrid 0 c.1 c.2 = (i : Int) + 1) := by omega
        simp only [hv, h1, if_false, getWC_int s.agents default hk hkv]
    · rw [if_neg hin]
      apply hnone
      intro j e hj hpe
      have := (h.agShown j e hj).1
      rw [hpe] at this
      exact hin this

theorem shelf_cell {cfg : Cfg} {R C : Nat} {s : State} (h : Good cfg R C s) (c : Int × Int) :
    shelfContent s.shelves (padGet s.shelfGrid c.1 c.2) = shelfCellL2 s.shelves c := by
  rw [padGet_eq h.shS h.hR]
  have hnone : (∀ (j : Nat) (e : Shelf), s.shelves[j]? = some e → spos e ≠ c) →
      shelfContent s.shelves 0 = shelfCellL2 s.shelves c := by
    intro hh
    unfold shelfCellL2
    have : shelfAt s.shelves c = none := by
      unfold shelfAt
      rw [List.find?_eq_none]
      intro e he
      obtain ⟨j, hj, rfl⟩ := List.getElem_of_mem he
      simp only [Bool.and_eq_true, decide_eq_true_eq]
      intro hq
      exact hh j _ (List.getElem?_eq_getElem hj) (Prod.ext hq.1 hq.2)
    rw [this]
    simp [shelfContent]
  by_cases hin : inGrid R C c.1 c.2
  · rw [if_pos hin]
    by_cases hv : Jx.Grid.getWC s.shelfGrid 0 c.1 c.2 = 0
    · rw [hv]
      apply hnone
      intro j e hj hpe
      have := (h.shShown j e hj).2
      rw [hpe] at this
      omega
    · obtain ⟨k, e, hk, hkv, hpe⟩ := h.shBacked c.1 c.2 hin hv
      have : shelfAt s.shelves c = some e := by
        unfold shelfAt
        apply find?_unique (List.mem_of_getElem? hk)
        · obtain ⟨q1, q2⟩ := spos_eq' hpe
          simp [q1, q2]
        · intro x hx hq
          obtain ⟨j, hj, rfl⟩ := List.getElem_of_mem hx
          simp only [Bool.and_eq_true, decide_eq_true_eq] at hq
          have hje := List.getElem?_eq_getElem hj
          have hpj : spos s.shelves[j] = spos e := by rw [hpe]; exact Prod.ext hq.1 hq.2
          have := h.shShown.distinct hje hk hpj
          subst this
          rw [hje] at hk; exact Option.some.inj hk
      unfold shelfCellL2
      rw [this]
      unfold shelfContent
      simp only [hv, if_false, getWC_int s.shelves default hk hkv]
  · rw [if_neg hin]
    apply hnone
    intro j e hj hpe
    have := (h.shShown j e hj).1
    rw [hpe] at this
    exact hin this


/-! ### the whole sensor vector -/

theorem header_eq (x y c hwv d : Int) (m : Nat) :
    dynUpdate (dynUpdate (dynUpdate (List.replicate (8 + m) 0) 0 [x, y, c]) 3 (oneHot4 d)) 7 [hwv] =
      [x, y, c] ++ oneHot4 d ++ [hwv] ++ List.replicate m 0 := by
  have e : List.replicate (8 + m) (0 : Int) =
      [] ++ [0, 0, 0] ++ ([0, 0, 0, 0] ++ ([0] ++ List.replicate m 0)) := by
    rw [← List.replicate_append_replicate]; rfl
  rw [e, dynUpdate_mid [] [0, 0, 0] _ [x, y, c] 0 rfl rfl]
  rw [List.nil_append, ← List.append_assoc,
    dynUpdate_mid [x, y, c] [0, 0, 0, 0] _ (oneHot4 d) 3 rfl (by simp [oneHot4_length])]
  rw [← List.append_assoc,
    dynUpdate_mid ([x, y, c] ++ oneHot4 d) [0] _ [hwv] 7 (by simp [oneHot4_length]) rfl]

/-- C12: for every agent the L1 sensor vector is the documented table-based one -/
theorem agentObs_eq {cfg : Cfg} {R C : Nat} {s : State} (h : Good cfg R C s) {i : Nat} {ag : Agent}
    (hi : s.agents[i]? = some ag) : agentObs cfg s.world i = observeAgent cfg s i := by
  rw [observeAgent_eq, getD_of_getElem? hi]
  unfold agentObs
  simp only [State.world, getWC_idx s.agents default hi]
  have hin : inGrid R C ag.x ag.y := (h.agShown i ag hi).1
  rw [viewOf_eq h.shA h.hR hin, viewOf_eq h.shS h.hR hin]
  generalize hcells : windowCells cfg.sensorRange ag.x ag.y = cells
  have hclen : cells.length = numSensors cfg.sensorRange := by
    rw [← hcells]; exact windowCells_length _ _ _
  have holen : (cells.filter (fun c => !decide (c = (ag.x, ag.y)))).length = numSensors cfg.sensorRange - 1 := by
    rw [← hcells]; exact windowCells_others_length _ _ _
  have hns : 0 < numSensors cfg.sensorRange := by
    unfold numSensors; exact Nat.mul_pos (by omega) (by omega)
  -- the agents part
  have hA : (cells.map (fun c => padGet s.agentGrid c.1 c.2)).flatMap (agentContent s.agents i) =
      (cells.filter (fun c => !decide (c = (ag.x, ag.y)))).flatMap (agentCellL2 s.agents i) := by
    rw [List.flatMap_map, flatMap_filter']
    exact flatMap_congr' (fun c _ => agent_cell h hi c)
  have hAlen : ((cells.filter (fun c => !decide (c = (ag.x, ag.y)))).flatMap (agentCellL2 s.agents i)).length =
      5 * (numSensors cfg.sensorRange - 1) := by
    rw [flatMap_length_const (n := 5) (fun c _ => agentCellL2_length _ _ c), holen]
  -- the shelves part
  have hS : (cells.map (fun c => padGet s.shelfGrid c.1 c.2)).flatMap (shelfContent s.shelves) =
      cells.flatMap (shelfCellL2 s.shelves) := by
    rw [List.flatMap_map]
    exact flatMap_congr' (fun c _ => shelf_cell h c)
  have hSlen : (cells.flatMap (shelfCellL2 s.shelves)).length = 2 * numSensors cfg.sensorRange := by
    rw [flatMap_length_const (n := 2) (fun c _ => shelfCellL2_length _ c), hclen]
  -- header
  have hnf : numFeatures cfg.sensorRange =
      8 + ((numSensors cfg.sensorRange - 1) * 5 + numSensors cfg.sensorRange * 2) := by
    unfold numFeatures; omega
  rw [hnf, header_eq]
  generalize hhdr : [ag.x, ag.y, if ag.carrying = true then 1 else 0] ++ oneHot4 ag.dir ++
    [if Jx.Grid.getWC cfg.highways false ag.x ag.y = true then (1 : Int) else 0] = hdr
  have hhl : hdr.length = 8 := by rw [← hhdr]; simp [oneHot4_length]
  rw [agentScan_spec s.agents i _ hdr _ 8 (by rw [hhl]; rfl) (by rw [hA, hAlen]; omega)]
  rw [hA, hAlen]
  have e1 : (numSensors cfg.sensorRange - 1) * 5 + numSensors cfg.sensorRange * 2 -
      5 * (numSensors cfg.sensorRange - 1) = 2 * numSensors cfg.sensorRange := by omega
  rw [e1]
  rw [shelfScan_spec s.shelves _ _ _ _ (by simp [hhl, hAlen]) (by rw [hS, hSlen]; omega)]
  rw [hS, hSlen]
  simp

/-- C12: `makeObservations = observe` on every consistent state -/
theorem obs_faithful {cfg : Cfg} {s : State} (hc : Consistent cfg s) :
    makeObservations cfg s.world = (observe cfg s).view := by
  have h := (consistent_iff_good cfg s).1 hc
  unfold makeObservations observe
  simp only [State.world]
  apply List.map_congr_left
  intro i hi
  rw [List.mem_range] at hi
  exact agentObs_eq h (List.getElem?_eq_getElem hi)

end RobotWarehouse
