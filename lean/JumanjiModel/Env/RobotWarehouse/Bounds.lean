/-
C01 for RobotWarehouse: value bounds of the observation leaves.  `agents_view` is declared as an unbounded
`specs.Array` (no minimum / maximum), so it is listed with no bound on either side; `action_mask ∈ [0, 1]`;
`step_count ∈ [0, time_limit]`.
-/
import JumanjiModel.Env.RobotWarehouse.Lemmas
namespace RobotWarehouse
open Jm

/-- interval membership; `none` = unbounded on that side -/
def inIv (lo hi : Option Rat) (v : Rat) : Prop := (∀ l, lo = some l → l ≤ v) ∧ (∀ h, hi = some h → v ≤ h)

/-- the numeric leaves of an observation: dotted path of the leaf in the real `observation_spec` ↦ all its
entries (bool: 0 / 1) -/
def obsLeaves (o : Obs) : List (String × List Rat) :=
  [("agents_view", (List.flatten o.view).map (fun (v : Int) => (v : Rat))),
   ("action_mask", (List.flatten o.mask).map (fun b => if b then (1 : Rat) else 0)),
   ("step_count", [(o.stepCount : Rat)])]

/-- every entry of every leaf listed in `bs` lies within the interval `bs` gives for it -/
def ObsInBounds (bs : List (String × Option Rat × Option Rat)) (o : Obs) : Prop :=
  ∀ p ∈ obsLeaves o, ∀ b ∈ bs, b.1 = p.1 → ∀ v ∈ p.2, inIv b.2.1 b.2.2 v

/-- C01: the intervals in which the model's observation values provably stay -/
def obsBounds (cfg : Cfg) : List (String × Option Rat × Option Rat) :=
  [("agents_view", none, none),
   ("action_mask", some 0, some 1),
   ("step_count", some 0, some (cfg.timeLimit : Rat))]

theorem obsBounds_cover (cfg : Cfg) (o : Obs) : (obsLeaves o).map (·.1) = (obsBounds cfg).map (·.1) := rfl

theorem obsInBounds_of (cfg : Cfg) (o : Obs) (h0 : 0 ≤ o.stepCount) (hT : o.stepCount ≤ cfg.timeLimit) :
    ObsInBounds (obsBounds cfg) o := by
  intro p hp b hb hbp v hv
  simp only [obsLeaves, List.mem_cons, List.not_mem_nil, or_false] at hp
  simp only [obsBounds, List.mem_cons, List.not_mem_nil, or_false] at hb
  rcases hp with rfl | rfl | rfl <;> rcases hb with rfl | rfl | rfl <;> simp at hbp
  · exact ⟨fun l hl => by simp at hl, fun h hh => by simp at hh⟩
  · simp only [List.mem_map] at hv
    obtain ⟨x, _, rfl⟩ := hv
    refine ⟨fun l hl => ?_, fun h hh => ?_⟩
    · simp only [Option.some.injEq] at hl; subst hl; split <;> decide
    · simp only [Option.some.injEq] at hh; subst hh; split <;> decide
  · simp only [List.mem_cons, List.not_mem_nil, or_false] at hv
    subst hv
    refine ⟨fun l hl => ?_, fun h hh => ?_⟩
    · simp only [Option.some.injEq] at hl; subst hl; exact_mod_cast h0
    · simp only [Option.some.injEq] at hh; subst hh; exact_mod_cast hT

/-- reset: the observation built from a generated state (step count 0) -/
theorem reset_obs_in_bounds (cfg : Cfg) (s : State) (hs : s.stepCount = 0) (hT : 0 ≤ cfg.timeLimit) :
    ObsInBounds (obsBounds cfg) (resetObs cfg s) := by
  apply obsInBounds_of
  · show 0 ≤ s.stepCount
    omega
  · show s.stepCount ≤ cfg.timeLimit
    omega

/-- step: every state with step count in `[0, time_limit)`, every joint action, every draw -/
theorem step_obs_in_bounds (cfg : Cfg) (s : State) (a d : List Int) (h0 : 0 ≤ s.stepCount)
    (hT : s.stepCount < cfg.timeLimit) : ObsInBounds (obsBounds cfg) (step cfg s a d).2.obs := by
  have h := (obs_copied cfg s a d).2.1
  have h1 := (time_limit cfg s a d).1
  apply obsInBounds_of
  · rw [h, h1]; omega
  · rw [h, h1]; omega

end RobotWarehouse
