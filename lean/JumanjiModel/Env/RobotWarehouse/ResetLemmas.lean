/-
RobotWarehouse — C07/C10: the state `RandomGenerator.__call__` builds is `Consistent`.

The PRNG is not modelled.  What the generator does DETERMINISTICALLY with the sampled values is
(`generator.py`, `utils_spawn.py`): agents `(cell, direction, is_carrying = 0)`; shelves
`(cell, is_requested)` with `is_requested = zeros.at[queue].set(1)`; both channels of a zero grid filled by
`place_entities_on_grid` (`grid.at[channel, x, y].set(id + 1)` in id order); `action_mask =
compute_action_mask(grid, agents)`; `step_count = 0`.  That construction is `genState`.  The generator
certificate (what sampling WITHOUT replacement guarantees, and what the driver's `instance` op evaluates on
every reset state: `agents_distinct_inside`, `shelves_on_shelf_cells`, `queue_distinct_requested`) is the
hypothesis list of `gen_consistent`.
-/
import JumanjiModel.Env.RobotWarehouse.ConsistentLemmas
namespace RobotWarehouse
open Jm

/-! ### placing entities -/

theorem shaped_mk (R C : Nat) (v : Int) : Jx.Grid.shaped (Jx.Grid.mk R C v) R C = true := by
  unfold Jx.Grid.shaped Jx.Grid.mk
  simp

theorem mk_cell {R C : Nat} {x y : Int} (h : inGrid R C x y) : Jx.Grid.getWC (Jx.Grid.mk R C (0 : Int)) 0 x y = 0 := by
  obtain ⟨a, b, ha, hb, rfl, rfl⟩ := inGrid_nat h
  rw [cell_get (shaped_mk R C 0) ha hb]
  unfold Jx.Grid.get Jx.Grid.mk
  simp [List.getD_eq_getElem?_getD, ha, hb]

theorem placeFrom_shaped {α} (pos : α → Int × Int) {R C : Nat} : ∀ (es : List α) (g : IGrid) (k : Nat),
    Jx.Grid.shaped g R C = true → Jx.Grid.shaped (placeFrom pos g es k) R C = true := by
  intro es
  induction es with
  | nil => intro g k h; exact h
  | cons e es ih => intro g k h; exact ih _ _ (shaped_setWD h _ _ _)

/-- a cell on which none of the placed entities stands keeps its value -/
theorem placeFrom_other {α} (pos : α → Int × Int) {R C : Nat} : ∀ (es : List α) (g : IGrid) (k : Nat),
    Jx.Grid.shaped g R C = true → (∀ e ∈ es, inGrid R C (pos e).1 (pos e).2) →
    ∀ x y, inGrid R C x y → (∀ e ∈ es, pos e ≠ (x, y)) →
      Jx.Grid.getWC (placeFrom pos g es k) 0 x y = Jx.Grid.getWC g 0 x y := by
  intro es
  induction es with
  | nil => intro g k _ _ x y _ _; rfl
  | cons e es ih =>
    intro g k hs hin x y hxy hne
    simp only [placeFrom]
    rw [ih _ _ (shaped_setWD hs _ _ _) (fun e' he' => hin e' (List.mem_cons_of_mem _ he')) x y hxy
      (fun e' he' => hne e' (List.mem_cons_of_mem _ he'))]
    rw [cell_setWD hs (hin e (List.mem_cons_self ..)) hxy]
    have : ¬ (x = (pos e).1 ∧ y = (pos e).2) := by
      intro hh
      exact hne e (List.mem_cons_self ..) (Prod.ext hh.1.symm hh.2.symm)
    simp [this]

/-- the cell of the `m`-th placed entity shows its id -/
theorem placeFrom_self {α} (pos : α → Int × Int) {R C : Nat} : ∀ (es : List α) (g : IGrid) (k : Nat),
    Jx.Grid.shaped g R C = true → (∀ e ∈ es, inGrid R C (pos e).1 (pos e).2) → (es.map pos).Nodup →
    ∀ (m : Nat) (e : α), es[m]? = some e →
      Jx.Grid.getWC (placeFrom pos g es k) 0 (pos e).1 (pos e).2 = ((k + m : Nat) : Int) + 1 := by
  intro es
  induction es with
  | nil => intro g k _ _ _ m e hm; simp at hm
  | cons e0 es ih =>
    intro g k hs hin hnd m e hm
    simp only [List.map_cons, List.nodup_cons] at hnd
    have hin0 := hin e0 (List.mem_cons_self ..)
    have hin' : ∀ e' ∈ es, inGrid R C (pos e').1 (pos e').2 := fun e' he' => hin e' (List.mem_cons_of_mem _ he')
    simp only [placeFrom]
    cases m with
    | zero =>
      simp only [List.getElem?_cons_zero, Option.some.injEq] at hm
      subst hm
      rw [placeFrom_other pos es _ _ (shaped_setWD hs _ _ _) hin' _ _ hin0 (by
        intro e' he' heq
        exact hnd.1 (List.mem_map.2 ⟨e', he', heq⟩))]
      rw [cell_setWD hs hin0 hin0]
      simp
    | succ m =>
      simp only [List.getElem?_cons_succ] at hm
      rw [ih _ (k + 1) (shaped_setWD hs _ _ _) hin' hnd.2 m e hm]
      omega

theorem placeFrom_shown {α} (pos : α → Int × Int) {R C : Nat} (es : List α)
    (hin : ∀ e ∈ es, inGrid R C (pos e).1 (pos e).2) (hnd : (es.map pos).Nodup) :
    Shown pos R C (placeFrom pos (Jx.Grid.mk R C 0) es 0) es := by
  intro m e hm
  refine ⟨hin e (List.mem_of_getElem? hm), ?_⟩
  rw [placeFrom_self pos es _ 0 (shaped_mk R C 0) hin hnd m e hm]
  simp

theorem placeFrom_backed {α} (pos : α → Int × Int) {R C : Nat} (es : List α)
    (hin : ∀ e ∈ es, inGrid R C (pos e).1 (pos e).2) (hnd : (es.map pos).Nodup) :
    Backed pos R C (placeFrom pos (Jx.Grid.mk R C 0) es 0) es := by
  intro x y hxy hne
  by_cases hex : ∃ e ∈ es, pos e = (x, y)
  · obtain ⟨e, he, hp⟩ := hex
    obtain ⟨m, hm, rfl⟩ := List.getElem_of_mem he
    have hm' := List.getElem?_eq_getElem hm
    have := placeFrom_self pos es _ 0 (shaped_mk R C 0) hin hnd m _ hm'
    rw [hp] at this
    simp only [Nat.zero_add] at this
    exact ⟨m, es[m], hm', this, hp⟩
  · exfalso; apply hne
    rw [placeFrom_other pos es _ 0 (shaped_mk R C 0) hin x y hxy (fun e he hp => hex ⟨e, he, hp⟩)]
    exact mk_cell hxy

/-! ### the `is_requested` flags -/

theorem requested_fold (n : Nat) : ∀ (queue : List Int) (acc : List Int), acc.length = n →
    (∀ q ∈ queue, 0 ≤ q ∧ q < (n : Int)) → ∀ (k : Nat), k < n →
    (queue.foldl (fun acc q => Jx.setWD acc q 1) acc).getD k 0 =
      if (k : Int) ∈ queue then 1 else acc.getD k 0 := by
  intro queue
  induction queue with
  | nil => intro acc _ _ k _; simp
  | cons q qs ih =>
    intro acc hl hr k hk
    obtain ⟨h0, h1⟩ := hr q (List.mem_cons_self ..)
    obtain ⟨a, rfl⟩ : ∃ a : Nat, q = (a : Int) := ⟨q.toNat, by omega⟩
    have ha : a < acc.length := by omega
    simp only [List.foldl_cons]
    rw [Jx.setWD_nat acc 1 ha]
    rw [ih (acc.set a 1) (by simp [hl]) (fun q' hq' => hr q' (List.mem_cons_of_mem _ hq')) k hk]
    simp only [List.mem_cons, getD_set]
    by_cases hka : a = k
    · subst hka; simp [ha]
    · have : ¬ ((k : Int) = (a : Int)) := by omega
      simp [hka, this]

theorem requestedFlags_length (n : Nat) (queue : List Int) : (requestedFlags n queue).length = n := by
  unfold requestedFlags
  suffices h : ∀ (acc : List Int), (queue.foldl (fun acc q => Jx.setWD acc q 1) acc).length = acc.length by
    rw [h]; simp
  induction queue with
  | nil => intro acc; rfl
  | cons q qs ih => intro acc; simp only [List.foldl_cons]; rw [ih, Jx.setWD_length]

theorem requestedFlags_getD {n : Nat} {queue : List Int} (hr : ∀ q ∈ queue, 0 ≤ q ∧ q < (n : Int)) {k : Nat}
    (hk : k < n) : (requestedFlags n queue).getD k 0 = if (k : Int) ∈ queue then 1 else 0 := by
  unfold requestedFlags
  rw [requested_fold n queue _ (by simp) hr k hk]
  simp [List.getD_eq_getElem?_getD, hk]

/-! ### the generated state is consistent -/

theorem zipWith_map_fst {α β γ} (f : α → β → γ) (g : γ → α) (hfg : ∀ a b, g (f a b) = a) :
    ∀ (as : List α) (bs : List β), as.length ≤ bs.length → (List.zipWith f as bs).map g = as := by
  intro as
  induction as with
  | nil => intro bs _; simp
  | cons a as ih =>
    intro bs hl
    cases bs with
    | nil => simp at hl
    | cons b bs =>
      simp only [List.length_cons] at hl
      simp [hfg, ih bs (by omega)]

/-- C07/C10: the generator's construction from sampled values satisfying the certificate — agent cells
inside the floor and pairwise different, directions in `0..3`, shelf cells inside the floor and pairwise
different, request queue of pairwise different shelf ids — is `Consistent` (any floor size, any number of
agents and shelves, any queue length) -/
theorem gen_consistent (cfg : Cfg) {R C : Nat} (hR : 0 < R) (hC : 0 < C)
    (hH : Jx.Grid.shaped cfg.highways R C = true)
    (agentCells : List (Int × Int)) (dirs : List Int) (shelfCells : List (Int × Int)) (queue : List Int)
    (hlen : agentCells.length ≤ dirs.length)
    (haIn : ∀ c ∈ agentCells, inGrid R C c.1 c.2) (haNd : agentCells.Nodup)
    (hdir : ∀ d ∈ dirs, 0 ≤ d ∧ d < 4)
    (hsIn : ∀ c ∈ shelfCells, inGrid R C c.1 c.2) (hsNd : shelfCells.Nodup)
    (hqNd : queue.Nodup) (hqR : ∀ q ∈ queue, 0 ≤ q ∧ q < (shelfCells.length : Int)) :
    Consistent cfg (genState R C agentCells dirs shelfCells queue) := by
  have hfl := requestedFlags_length shelfCells.length queue
  generalize hag : List.zipWith (fun c d => (⟨c.1, c.2, d, false⟩ : Agent)) agentCells dirs = agents
  generalize hsh : List.zipWith (fun c r => (⟨c.1, c.2, r⟩ : Shelf)) shelfCells
    (requestedFlags shelfCells.length queue) = shelves
  have hapos : agents.map apos = agentCells := by
    rw [← hag]
    exact zipWith_map_fst _ apos (fun a b => rfl) agentCells dirs hlen
  have hspos : shelves.map spos = shelfCells := by
    rw [← hsh]
    exact zipWith_map_fst _ spos (fun a b => rfl) shelfCells _ (by omega)
  have haIn' : ∀ e ∈ agents, inGrid R C (apos e).1 (apos e).2 := by
    intro e he
    exact haIn (apos e) (by rw [← hapos]; exact List.mem_map.2 ⟨e, he, rfl⟩)
  have hsIn' : ∀ e ∈ shelves, inGrid R C (spos e).1 (spos e).2 := by
    intro e he
    exact hsIn (spos e) (by rw [← hspos]; exact List.mem_map.2 ⟨e, he, rfl⟩)
  have hslen : shelves.length = shelfCells.length := by rw [← hspos]; simp
  have hflag : ∀ (k : Nat), k < shelfCells.length →
      (shelves.getD k default).requested = (requestedFlags shelfCells.length queue).getD k 0 := by
    intro k hk
    rw [← hsh]
    simp only [List.getD_eq_getElem?_getD, List.getElem?_zipWith]
    have h1 : k < (requestedFlags shelfCells.length queue).length := by omega
    simp [List.getElem?_eq_getElem hk, List.getElem?_eq_getElem h1]
  apply good_of_good (R := R) (C := C)
  unfold genState
  simp only [hag, hsh]
  refine ⟨placeFrom_shaped spos _ _ _ (shaped_mk R C 0), placeFrom_shaped apos _ _ _ (shaped_mk R C 0), hH, hR, hC,
    ?_, ?_, placeFrom_shown apos agents haIn' (by rw [hapos]; exact haNd),
    placeFrom_backed apos agents haIn' (by rw [hapos]; exact haNd),
    placeFrom_shown spos shelves hsIn' (by rw [hspos]; exact hsNd),
    placeFrom_backed spos shelves hsIn' (by rw [hspos]; exact hsNd), ?_, hqNd, ?_, ?_, rfl⟩
  · intro ag hag'
    rw [← hag] at hag'
    obtain ⟨m, hm, rfl⟩ := List.getElem_of_mem hag'
    simp only [List.getElem_zipWith]
    simp only [List.length_zipWith] at hm
    exact hdir _ (List.getElem_mem _)
  · intro sh hsh'
    simp only [] at hsh'
    obtain ⟨k, hk, rfl⟩ := List.getElem_of_mem hsh'
    have hk' : k < shelfCells.length := by omega
    have := hflag k hk'
    rw [List.getD_eq_getElem?_getD, List.getElem?_eq_getElem hk, Option.getD_some] at this
    rw [this, requestedFlags_getD hqR hk']
    split
    · exact Or.inr rfl
    · exact Or.inl rfl
  · intro ag hag' hcar
    exfalso
    rw [← hag] at hag'
    obtain ⟨m, hm, rfl⟩ := List.getElem_of_mem hag'
    simp at hcar
  · intro q hq
    simp only []
    rw [hslen]; exact hqR q hq
  · intro k hk
    simp only [] at hk ⊢
    rw [hslen] at hk
    rw [hflag k hk, requestedFlags_getD hqR hk]
    simp only [List.contains_iff_mem]
    split
    · rename_i h; simp [h]
    · rename_i h; simp [h]

/-- … and it passes the spawn certificate `SpawnOK` when the shelf cells are off the highways -/
theorem gen_spawnOK (cfg : Cfg) {R C : Nat} (hR : 0 < R) (hC : 0 < C)
    (hH : Jx.Grid.shaped cfg.highways R C = true)
    (agentCells : List (Int × Int)) (dirs : List Int) (shelfCells : List (Int × Int)) (queue : List Int)
    (hlen : agentCells.length ≤ dirs.length)
    (haIn : ∀ c ∈ agentCells, inGrid R C c.1 c.2) (haNd : agentCells.Nodup)
    (hdir : ∀ d ∈ dirs, 0 ≤ d ∧ d < 4)
    (hsIn : ∀ c ∈ shelfCells, inGrid R C c.1 c.2) (hsNd : shelfCells.Nodup)
    (hqNd : queue.Nodup) (hqR : ∀ q ∈ queue, 0 ≤ q ∧ q < (shelfCells.length : Int))
    (hoff : ∀ c ∈ shelfCells, Jx.Grid.getWC cfg.highways true c.1 c.2 = false) :
    SpawnOK cfg (genState R C agentCells dirs shelfCells queue) := by
  refine ⟨gen_consistent cfg hR hC hH agentCells dirs shelfCells queue hlen haIn haNd hdir hsIn hsNd hqNd hqR,
    rfl, ?_, ?_⟩
  · intro ag hag
    unfold genState at hag
    simp only [] at hag
    obtain ⟨m, hm, rfl⟩ := List.getElem_of_mem hag
    simp
  · intro sh hsh
    unfold genState at hsh
    simp only [] at hsh
    obtain ⟨m, hm, rfl⟩ := List.getElem_of_mem hsh
    simp only [List.getElem_zipWith]
    exact hoff _ (List.getElem_mem _)

/-! ### C10: the draw of `spawn_random_entities` (sampling WITHOUT replacement = pairwise different values) -/

theorem unravel_inGrid {R C : Nat} {k : Int} (h0 : 0 ≤ k) (h1 : k < ((R * C : Nat) : Int)) :
    inGrid R C (unravel C k).1 (unravel C k).2 := by
  have hC : 0 < C := by
    rcases Nat.eq_zero_or_pos C with h | h
    · subst h; simp at h1; omega
    · exact h
  have hC' : (0 : Int) < (C : Int) := by omega
  unfold unravel inGrid
  refine ⟨Int.ediv_nonneg h0 (by omega), ?_, Int.emod_nonneg _ (by omega), Int.emod_lt_of_pos _ hC'⟩
  apply Int.ediv_lt_of_lt_mul hC'
  rw [← Int.natCast_mul]
  exact h1

/-- `unravel_index` is injective: different flat indices are different cells -/
theorem unravel_inj {C : Nat} {a b : Int} (h : unravel C a = unravel C b) : a = b := by
  unfold unravel at h
  have h1 := congrArg Prod.fst h
  have h2 := congrArg Prod.snd h
  simp only [] at h1 h2
  have ea := Int.emod_add_mul_ediv a C
  have eb := Int.emod_add_mul_ediv b C
  rw [← ea, ← eb, h1, h2]

/-- `argwhere(non_highways)`: pairwise different cells of the floor, none of them a highway cell -/
theorem shelfCells_props {hw : List (List Bool)} {R C : Nat} (hH : Jx.Grid.shaped hw R C = true) (hR : 0 < R) :
    (∀ c ∈ shelfCells hw, inGrid R C c.1 c.2 ∧ Jx.Grid.getWC hw true c.1 c.2 = false) ∧ (shelfCells hw).Nodup := by
  have hd := shaped_dims hH hR
  unfold shelfCells
  rw [hd.1, hd.2]
  have e : cellsOf R C = allCells R C := rfl
  rw [e]
  refine ⟨?_, (allCells_nodup R C).filter _⟩
  intro c hc
  rw [List.mem_filter] at hc
  exact ⟨mem_allCells.1 hc.1, by simpa using hc.2⟩

/-- C10: for EVERY draw in the support of `spawn_random_entities` (agent cells sampled without replacement from
the `R * C` flat indices, directions from `0..3`, request queue sampled without replacement from the shelf ids)
the state `RandomGenerator.__call__` builds passes the spawn certificate; it has the requested number of agents,
the drawn queue, and one shelf per non-highway cell -/
theorem generate_spawnOK (cfg : Cfg) {R C : Nat} (hR : 0 < R) (hC : 0 < C)
    (hH : Jx.Grid.shaped cfg.highways R C = true) (numAgents queueSize : Nat) (d : SpawnDraw)
    (hv : validSpawn numAgents queueSize cfg.highways d = true) :
    SpawnOK cfg (generate cfg d) ∧ (generate cfg d).agents.length = numAgents ∧
    (generate cfg d).queue.length = queueSize ∧
    (generate cfg d).shelves.length = (shelfCells cfg.highways).length := by
  have hd := shaped_dims hH hR
  obtain ⟨hsc, hsnd⟩ := shelfCells_props hH hR
  simp only [validSpawn, Bool.and_eq_true, decide_eq_true_eq, List.all_eq_true] at hv
  obtain ⟨⟨⟨⟨⟨⟨⟨hl1, hl2⟩, hl3⟩, hflat⟩, hnd⟩, hdirs⟩, hq⟩, hqnd⟩ := hv
  rw [hd.1, hd.2] at hflat
  have hlen : (d.agentFlat.map (unravel C)).length ≤ d.dirs.length := by simp; omega
  have haIn : ∀ c ∈ d.agentFlat.map (unravel C), inGrid R C c.1 c.2 := by
    intro c hc
    obtain ⟨k, hk, rfl⟩ := List.mem_map.1 hc
    exact unravel_inGrid (hflat k hk).1 (hflat k hk).2
  have haNd : (d.agentFlat.map (unravel C)).Nodup :=
    List.Pairwise.map _ (fun a b hab h => hab (unravel_inj h)) hnd
  have hso := gen_spawnOK cfg hR hC hH (d.agentFlat.map (unravel C)) d.dirs (shelfCells cfg.highways) d.queue hlen
    haIn haNd (fun k hk => hdirs k hk) (fun c hc => (hsc c hc).1) hsnd hqnd (fun q hq' => hq q hq')
    (fun c hc => (hsc c hc).2)
  unfold generate
  rw [hd.1, hd.2]
  refine ⟨hso, ?_, hl3, ?_⟩
  · simp [genState]; omega
  · simp [genState, requestedFlags_length]

end RobotWarehouse
