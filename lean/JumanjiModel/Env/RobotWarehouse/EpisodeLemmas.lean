/-
RobotWarehouse — statements asked for by the statement audit (reviews/r2.md, entries 2, 3, 9 and the C11 gap):
* C04 `validActions_legal`: what `get_valid_actions` plays for agent `i`, in terms of the RULES (`legal`);
* C05/C11 `last_iff`: a step is LAST exactly when a collision is reported or the time limit is reached; an action
  masked out by the cached mask is played exactly as the no-op (`step_masked_eq_noop`: the WHOLE step is the same),
  so an illegal action alone never ends the episode;
* C12 `step_obs_faithful_nocoll`: the emitted observation is the documented one after every step without a
  collision (the time-limit terminal step included);
* C11 episode level: `run` iterates `step`; from a state with step count 0 the first LAST timestep of a play
  without collisions is exactly step number `time_limit`, and in any case there is a LAST at or before it.
-/
import JumanjiModel.Env.RobotWarehouse.RewardLemmas
import JumanjiModel.Env.RobotWarehouse.NoopLemmas
import JumanjiModel.Env.RobotWarehouse.ObsLemmas
import JumanjiModel.Env.RobotWarehouse.ResetLemmas
namespace RobotWarehouse
open Jm

/-! ### C04: the environment's reaction, by the rules -/

/-- the row of the cached mask of a consistent state, bit `a`, is L2 legality -/
theorem cached_row {cfg : Cfg} {s : State} (hc : Consistent cfg s) {i : Nat} {ag : Agent}
    (hag : s.agents[i]? = some ag) :
    s.mask[i]? = some ((List.range 5).map (fun (a : Nat) => isValidAction s.shelfGrid ag (a : Int))) ∧
    ∀ a : Nat, a < 5 → Jx.getWC ((List.range 5).map (fun (a : Nat) => isValidAction s.shelfGrid ag (a : Int)))
      false (a : Int) = decide (legal s i a) := by
  have hg := (consistent_iff_good cfg s).1 hc
  refine ⟨?_, ?_⟩
  · rw [hg.mask]; unfold computeMask
    rw [List.getElem?_map, hag]; rfl
  · intro a ha5
    rw [Jx.getWC_nat _ false (by simpa using ha5)]
    simp only [List.getD_eq_getElem?_getD, List.getElem?_map, List.getElem?_range ha5, Option.map_some,
      Option.getD_some]
    exact isValidAction_eq_legal hg hag a

/-- C04 (`step_agrees`): on a consistent state, for every agent `i` playing the in-spec action `a`, the action
`step` actually executes for it (`get_valid_actions` on the cached mask) is `a` if the RULES allow it and the
no-op otherwise -/
theorem validActions_legal {cfg : Cfg} {s : State} (hc : Consistent cfg s) (actions : List Int) {i a : Nat}
    (hi : i < s.agents.length) (ha : actions[i]? = some (a : Int)) (ha5 : a < 5) :
    (validActions s.mask actions)[i]? = some (if legal s i a then (a : Int) else 0) := by
  have hag : s.agents[i]? = some s.agents[i] := List.getElem?_eq_getElem hi
  obtain ⟨hrow, hbit⟩ := cached_row hc hag
  unfold validActions
  rw [List.getElem?_zipWith_eq_some]
  refine ⟨_, _, hrow, ha, ?_⟩
  rw [hbit a ha5]
  by_cases h : legal s i a <;> simp [h]

/-- an entry masked out by the cached mask is played exactly as the no-op -/
theorem validActions_set_noop (mask : List (List Bool)) (actions : List Int) {i : Nat} {row : List Bool} {a : Int}
    (hrow : mask[i]? = some row) (ha : actions[i]? = some a) (hm : Jx.getWC row false a = false) :
    validActions mask (actions.set i 0) = validActions mask actions := by
  unfold validActions
  apply List.ext_getElem?
  intro j
  simp only [List.getElem?_zipWith]
  by_cases hj : j = i
  · subst hj
    have hlt : j < actions.length := by
      rcases Nat.lt_or_ge j actions.length with h | h
      · exact h
      · rw [List.getElem?_eq_none h] at ha; cases ha
    rw [hrow, ha, List.getElem?_set_self hlt]
    simp [hm]
  · rw [List.getElem?_set_ne (Ne.symm hj)]

/-- C05: the WHOLE step (successor state and timestep) in which agent `i` plays an action masked out by the
cached mask equals the step in which it plays the no-op instead -/
theorem step_masked_eq_noop (cfg : Cfg) (s : State) (actions draws : List Int) {i : Nat} {row : List Bool} {a : Int}
    (hrow : s.mask[i]? = some row) (ha : actions[i]? = some a) (hm : Jx.getWC row false a = false) :
    step cfg s actions draws = step cfg s (actions.set i 0) draws := by
  unfold step
  rw [validActions_set_noop s.mask actions hrow ha hm]

/-- … and under `Consistent`, for an action that is illegal by the rules -/
theorem step_illegal_eq_noop {cfg : Cfg} {s : State} (hc : Consistent cfg s) (actions draws : List Int) {i a : Nat}
    (hi : i < s.agents.length) (ha : actions[i]? = some (a : Int)) (ha5 : a < 5) (hill : ¬ legal s i a) :
    step cfg s actions draws = step cfg s (actions.set i 0) draws := by
  have hag : s.agents[i]? = some s.agents[i] := List.getElem?_eq_getElem hi
  obtain ⟨hrow, hbit⟩ := cached_row hc hag
  exact step_masked_eq_noop cfg s actions draws hrow ha (by rw [hbit a ha5]; simpa using hill)

/-! ### C05 / C11: LAST exactly when … -/

theorem last_iff (cfg : Cfg) (s : State) (a d : List Int) :
    (step cfg s a d).2.stepType = .last ↔ (¬ NoCollision cfg s a ∨ s.stepCount + 1 ≥ cfg.timeLimit) := by
  unfold NoCollision afterMoves
  simp only [step]
  cases hcc : (collisions (scanAgents cfg.highways s.world (validActions s.mask a) 0)).any id <;>
    by_cases ht : s.stepCount + 1 ≥ cfg.timeLimit <;>
    simp [condLast, termination, transition, ht]

theorem mid_iff (cfg : Cfg) (s : State) (a d : List Int) :
    (step cfg s a d).2.stepType = .mid ↔ (NoCollision cfg s a ∧ s.stepCount + 1 < cfg.timeLimit) := by
  unfold NoCollision afterMoves
  simp only [step]
  cases hcc : (collisions (scanAgents cfg.highways s.world (validActions s.mask a) 0)).any id <;>
    by_cases ht : s.stepCount + 1 ≥ cfg.timeLimit <;>
    simp [condLast, termination, transition, ht] <;> omega

/-! ### C12: the observation of every step without a collision -/

theorem step_obs_faithful_nocoll {cfg : Cfg} {s : State} (hc : Consistent cfg s) (a d : List Int)
    (hv : ValidDraw cfg s a d) (hcol : NoCollision cfg s a) :
    (step cfg s a d).2.obs = observe cfg (step cfg s a d).1 := by
  have hc' := step_consistent_nocoll hc a d hv hcol
  have h := obs_copied cfg s a d
  have h1 := obs_faithful hc'
  have h2 := mask_eq_legalMask hc'
  generalize (step cfg s a d).2.obs = o at h
  generalize (step cfg s a d).1 = s' at h h1 h2
  obtain ⟨v, m, c⟩ := o
  obtain ⟨e1, e2, e3, e4⟩ := h
  simp only [] at e1 e2 e4
  unfold observe
  rw [e1, e2, e4, e3, h1, h2]
  rfl

/-! ### C11, episode level -/

theorem run_length (cfg : Cfg) : ∀ (ps : Play) (s : State), (run cfg s ps).length = ps.length := by
  intro ps
  induction ps with
  | nil => intro s; rfl
  | cons p ps ih => intro s; simp [run, ih]

/-- element `k` of the run is the step taken in `stateAt … k` with the `k`-th (action, draw) pair -/
theorem run_getElem? (cfg : Cfg) : ∀ (ps : Play) (s : State) (k : Nat) (p : List Int × List Int),
    ps[k]? = some p → (run cfg s ps)[k]? = some (step cfg (stateAt cfg s ps k) p.1 p.2) := by
  intro ps
  induction ps with
  | nil => intro s k p h; simp at h
  | cons q ps ih =>
    intro s k p h
    cases k with
    | zero =>
      simp only [List.getElem?_cons_zero, Option.some.injEq] at h
      subst h
      simp [run, stateAt]
    | succ k =>
      simp only [List.getElem?_cons_succ] at h
      simp only [run, stateAt, List.getElem?_cons_succ]
      exact ih _ k p h

theorem stateAt_stepCount (cfg : Cfg) : ∀ (ps : Play) (s : State) (k : Nat), k ≤ ps.length →
    (stateAt cfg s ps k).stepCount = s.stepCount + (k : Int) := by
  intro ps
  induction ps with
  | nil => intro s k h; simp only [List.length_nil, Nat.le_zero_eq] at h; subst h; simp [stateAt]
  | cons q ps ih =>
    intro s k h
    cases k with
    | zero => simp [stateAt]
    | succ k =>
      simp only [List.length_cons, Nat.add_le_add_iff_right] at h
      simp only [stateAt]
      rw [ih _ k h]
      have : (step cfg s q.1 q.2).1.stepCount = s.stepCount + 1 := rfl
      rw [this]; omega

/-- every state a valid run (draws in the support, no collisions) passes through is `Consistent` -/
theorem stateAt_consistent {cfg : Cfg} : ∀ (ps : Play) (s : State) (k : Nat), Consistent cfg s → ValidRun cfg s ps →
    Consistent cfg (stateAt cfg s ps k) := by
  intro ps
  induction ps with
  | nil => intro s k hc _; cases k <;> exact hc
  | cons q ps ih =>
    intro s k hc hv
    cases k with
    | zero => exact hc
    | succ k =>
      obtain ⟨h1, h2, h3⟩ := hv
      exact ih _ k (step_consistent_nocoll hc q.1 q.2 h1 h2) h3

/-- C11 (any start state): step number `k + 1` of a play advances the counter to `step_count + k + 1` and is LAST
exactly when a collision is reported in it or that count reaches the time limit -/
theorem run_step (cfg : Cfg) (s : State) (ps : Play) (k : Nat) (p : List Int × List Int)
    (r : State × TimeStep Obs) (hp : ps[k]? = some p) (hr : (run cfg s ps)[k]? = some r) :
    r.1.stepCount = s.stepCount + (k : Int) + 1 ∧
    (r.2.stepType = .last ↔
      (¬ NoCollision cfg (stateAt cfg s ps k) p.1 ∨ s.stepCount + (k : Int) + 1 ≥ cfg.timeLimit)) := by
  rw [run_getElem? cfg ps s k p hp] at hr
  simp only [Option.some.injEq] at hr
  subst hr
  have hk : k ≤ ps.length := by
    rcases Nat.lt_or_ge k ps.length with h | h
    · omega
    · rw [List.getElem?_eq_none h] at hp; cases hp
  have hsc := stateAt_stepCount cfg ps s k hk
  refine ⟨?_, ?_⟩
  · have : (step cfg (stateAt cfg s ps k) p.1 p.2).1.stepCount = (stateAt cfg s ps k).stepCount + 1 := rfl
    rw [this, hsc]
  · rw [last_iff, hsc]

/-- index of the first LAST timestep of a run -/
def firstLast (l : List (State × TimeStep Obs)) : Option Nat :=
  l.findIdx? (fun r => decide (r.2.stepType = .last))

/-- C11, "in any case there is a LAST at or before step `time_limit`": from a state with step count 0, if the
play is at least `time_limit` steps long, its first LAST timestep exists and has step number `≤ time_limit` -/
theorem episode_last_by_limit (cfg : Cfg) (s : State) (ps : Play) (h0 : s.stepCount = 0) (T : Nat)
    (hT : cfg.timeLimit = (T : Int)) (hpos : 0 < T) (hlen : T ≤ ps.length) :
    ∃ k, firstLast (run cfg s ps) = some k ∧ k + 1 ≤ T := by
  have hlt : T - 1 < ps.length := by omega
  have hp : ps[T - 1]? = some ps[T - 1] := List.getElem?_eq_getElem hlt
  have hr := run_getElem? cfg ps s (T - 1) _ hp
  have hlast := (run_step cfg s ps (T - 1) _ _ hp hr).2.2 (Or.inr (by rw [h0, hT]; omega))
  have hltr : T - 1 < (run cfg s ps).length := by rw [run_length]; exact hlt
  have hex : ∃ x ∈ run cfg s ps, decide (x.2.stepType = .last) = true := by
    refine ⟨_, List.mem_of_getElem? hr, by simpa using hlast⟩
  unfold firstLast
  cases hf : (run cfg s ps).findIdx? (fun r => decide (r.2.stepType = .last)) with
  | none =>
    rw [List.findIdx?_eq_none_iff] at hf
    obtain ⟨x, hx, hx'⟩ := hex
    have := hf x hx
    rw [hx'] at this; cases this
  | some k =>
    refine ⟨k, rfl, ?_⟩
    rw [List.findIdx?_eq_some_iff_getElem] at hf
    obtain ⟨hk, _, hmin⟩ := hf
    rcases Nat.lt_or_ge (T - 1) k with hlt' | hge
    · exfalso
      have := hmin (T - 1) hlt'
      rw [List.getElem?_eq_getElem hltr, Option.some.injEq] at hr
      rw [hr] at this
      exact this (by simpa using hlast)
    · omega

/-- C11, "if no other cause of termination occurs, the first LAST timestep is exactly at step `time_limit`": from a
state with step count 0, in a play without collisions, step number `k + 1` is LAST iff `time_limit ≤ k + 1`; so
(for a play at least `time_limit ≥ 1` steps long) the first LAST is step number `time_limit` exactly -/
theorem episode_first_last (cfg : Cfg) (s : State) (ps : Play) (h0 : s.stepCount = 0)
    (hcol : ∀ k p, ps[k]? = some p → NoCollision cfg (stateAt cfg s ps k) p.1) :
    (∀ (k : Nat) (r : State × TimeStep Obs), (run cfg s ps)[k]? = some r →
      (r.2.stepType = .last ↔ cfg.timeLimit ≤ (k : Int) + 1)) ∧
    (∀ T : Nat, cfg.timeLimit = (T : Int) → 0 < T → T ≤ ps.length → firstLast (run cfg s ps) = some (T - 1)) := by
  have key : ∀ (k : Nat) (r : State × TimeStep Obs), (run cfg s ps)[k]? = some r →
      (r.2.stepType = .last ↔ cfg.timeLimit ≤ (k : Int) + 1) := by
    intro k r hr
    have hk : k < ps.length := by
      rcases Nat.lt_or_ge k ps.length with h | h
      · exact h
      · rw [List.getElem?_eq_none (by rw [run_length]; exact h)] at hr; cases hr
    have hp : ps[k]? = some ps[k] := List.getElem?_eq_getElem hk
    have := (run_step cfg s ps k _ r hp hr).2
    rw [this, h0]
    constructor
    · rintro (h | h)
      · exact absurd (hcol k _ hp) h
      · omega
    · intro h; exact Or.inr (by omega)
  refine ⟨key, ?_⟩
  intro T hT hpos hlen
  have hltr : T - 1 < (run cfg s ps).length := by rw [run_length]; omega
  unfold firstLast
  rw [List.findIdx?_eq_some_iff_getElem]
  refine ⟨hltr, ?_, ?_⟩
  · have := (key (T - 1) _ (List.getElem?_eq_getElem hltr)).2 (by rw [hT]; omega)
    simpa using this
  · intro j hj
    have hjl : j < (run cfg s ps).length := by omega
    have := (key j _ (List.getElem?_eq_getElem hjl))
    intro hcon
    have h1 := this.1 (by simpa using hcon)
    rw [hT] at h1; omega

/-! ### C10: the floor layout `_make_warehouse` builds -/

theorem layout_shaped (l : Layout) : Jx.Grid.shaped l.highways l.rows l.cols = true := by
  unfold Jx.Grid.shaped Layout.highways
  simp

theorem layout_pos (l : Layout) : 0 < l.rows ∧ 0 < l.cols := by
  unfold Layout.rows Layout.cols; omega

/-- both goal cells of the generated layout are cells of the floor (`shelf_columns ≥ 1`; the generator insists on
an odd number) -/
theorem layout_goals_inside (l : Layout) (h : 1 ≤ l.shelfColumns) (tl : Int) (sr : Nat) :
    GoalsInside ⟨tl, sr, l.highways, l.goals⟩ := by
  have hd := shaped_dims (layout_shaped l) (layout_pos l).1
  unfold GoalsInside
  simp only [hd.1, hd.2]
  have hr := (layout_pos l).1
  have hc : 4 ≤ l.cols := by unfold Layout.cols; omega
  intro g hg
  unfold Layout.goals at hg
  simp only [List.mem_cons, List.not_mem_nil, or_false] at hg
  unfold inGrid
  rcases hg with rfl | rfl <;> simp only [] <;> omega

/-- the goal cells are highway cells (the delivery row), so no shelf is spawned on a goal -/
theorem layout_goals_on_highway (l : Layout) (h : 1 ≤ l.shelfColumns) :
    ∀ g ∈ l.goals, Jx.Grid.getWC l.highways false g.2 g.1 = true := by
  have hr := (layout_pos l).1
  have hc : 4 ≤ l.cols := by unfold Layout.cols; omega
  intro g hg
  unfold Layout.goals at hg
  simp only [List.mem_cons, List.not_mem_nil, or_false] at hg
  have key : ∀ y : Nat, y < l.cols → Jx.Grid.getWC l.highways false ((l.rows : Int) - 1) (y : Int) = true := by
    intro y hy
    have e : (l.rows : Int) - 1 = ((l.rows - 1 : Nat) : Int) := by omega
    rw [e, cell_get (layout_shaped l) (by omega) hy]
    unfold Jx.Grid.get Layout.highways
    simp only [List.getD_eq_getElem?_getD, List.getElem?_map]
    rw [List.getElem?_range (by omega), Option.map_some, Option.getD_some, List.getElem?_map,
      List.getElem?_range hy, Option.map_some, Option.getD_some]
    unfold Layout.isHighway
    simp [e]
  rcases hg with rfl | rfl
  · have e : ((l.cols / 2 : Nat) : Int) - 1 = ((l.cols / 2 - 1 : Nat) : Int) := by omega
    simp only [e]
    exact key _ (by omega)
  · exact key _ (by omega)

/-! ### C11 from a generated state -/

/-- the episode-level statements apply to every generated reset state: its step count is 0 -/
theorem generate_stepCount (cfg : Cfg) (d : SpawnDraw) : (generate cfg d).stepCount = 0 := rfl

/-! ### audit r6 #1: what `is_collision` reports and what it does not -/

theorem collisions_false_get {w : World} (h : (collisions w).any id = false) {i : Nat} (hi : i < w.agents.length) :
    Jx.Grid.getWC w.agentGrid 0 (w.agents.getD i default).x (w.agents.getD i default).y = (i : Int) + 1 := by
  unfold collisions at h
  rw [List.any_eq_false] at h
  have h1 := h _ (List.mem_map.2 ⟨i, List.mem_range.2 hi, rfl⟩)
  simp only [id] at h1
  rw [Jx.getWC_nat _ _ hi] at h1
  simpa using h1

/-- the sound direction of the collision test: two different agents on one cell after the moves ARE reported
(any state, any joint action; only the agent channel having ONE value per cell is used) -/
theorem phys_collision_reported (cfg : Cfg) (s : State) (a : List Int) (i j : Nat)
    (hij : i < j) (hj : j < s.agents.length)
    (h : apos ((afterMoves cfg s a).agents.getD i default) = apos ((afterMoves cfg s a).agents.getD j default)) :
    ¬ NoCollision cfg s a := by
  intro hn
  unfold NoCollision at hn
  have hlen : (afterMoves cfg s a).agents.length = s.agents.length :=
    (scanAgents_lengths cfg.highways s.world _ 0).1
  have h1 := collisions_false_get hn (i := i) (by omega)
  have h2 := collisions_false_get hn (i := j) (by omega)
  unfold apos at h
  injection h with hx hy
  rw [hx, hy, h2] at h1
  omega

/-! ### audit r6 #6: a legal FORWARD is executed by `step` -/

theorem grid_setWD_dims (g : IGrid) (r c v : Int) :
    gRows (Jx.Grid.setWD g r c v) = gRows g ∧ gCols (Jx.Grid.setWD g r c v) = gCols g := by
  unfold Jx.Grid.setWD gRows gCols
  simp only []
  split
  · exact ⟨rfl, rfl⟩
  split
  · exact ⟨rfl, rfl⟩
  split
  · exact ⟨rfl, rfl⟩
  · rename_i row hrow
    split
    · exact ⟨rfl, rfl⟩
    split
    · exact ⟨rfl, rfl⟩
    · refine ⟨by simp, ?_⟩
      cases g with
      | nil => simp at hrow
      | cons h t =>
        cases hk : (Jx.wrapIdx (h :: t).length r).toNat with
        | zero =>
          rw [hk] at hrow
          simp at hrow; subst hrow
          simp
        | succ k => simp

theorem updateAgent_dims (hw : List (List Bool)) (w : World) (a : Int) (i : Nat) :
    gRows (updateAgent hw w a i).shelfGrid = gRows w.shelfGrid ∧
    gCols (updateAgent hw w a i).shelfGrid = gCols w.shelfGrid := by
  unfold updateAgent
  simp only []
  split
  · unfold forward
    simp only []
    split
    · have h1 := grid_setWD_dims w.shelfGrid (Jx.getWC w.agents default (i : Int)).x (Jx.getWC w.agents default (i : Int)).y 0
      have h2 := grid_setWD_dims (Jx.Grid.setWD w.shelfGrid (Jx.getWC w.agents default (i : Int)).x (Jx.getWC w.agents default (i : Int)).y 0)
      exact ⟨(h2 _ _ _).1.trans h1.1, (h2 _ _ _).2.trans h1.2⟩
    · exact ⟨rfl, rfl⟩
  · unfold turnOrToggle
    simp only []
    repeat' split
    all_goals exact ⟨rfl, rfl⟩

theorem forward_agent (w : World) {i : Nat} {ag : Agent} (hi : w.agents[i]? = some ag) :
    (forward w i).agents[i]? =
      some { ag with x := (newPos (gRows w.shelfGrid) (gCols w.shelfGrid) ag.x ag.y ag.dir).1,
                     y := (newPos (gRows w.shelfGrid) (gCols w.shelfGrid) ag.x ag.y ag.dir).2 } := by
  have hlt := getElem?_lt hi
  unfold forward
  simp only [getWC_idx w.agents default hi, setWD_idx w.agents _ hlt]
  split <;> simp [hlt]

theorem scan_forward_agent (hw : List (List Bool)) : ∀ (as : List Int) (w : World) (i0 k : Nat) (ag : Agent),
    i0 ≤ k → as[k - i0]? = some 1 → w.agents[k]? = some ag →
    (scanAgents hw w as i0).agents[k]? =
      some { ag with x := (newPos (gRows w.shelfGrid) (gCols w.shelfGrid) ag.x ag.y ag.dir).1,
                     y := (newPos (gRows w.shelfGrid) (gCols w.shelfGrid) ag.x ag.y ag.dir).2 } := by
  intro as
  induction as with
  | nil => intro w i0 k ag _ h; simp at h
  | cons a as ih =>
    intro w i0 k ag hk ha hag
    simp only [scanAgents]
    by_cases hki : k = i0
    · subst hki
      simp only [Nat.sub_self, List.getElem?_cons_zero, Option.some.injEq] at ha
      subst ha
      rw [scan_agents_lt hw as _ (k + 1) k (by omega)]
      unfold updateAgent
      simp only [if_true]
      exact forward_agent w hag
    · have e : k - i0 = (k - (i0 + 1)) + 1 := by omega
      rw [e, List.getElem?_cons_succ] at ha
      have hd := updateAgent_dims hw w a i0
      have := ih (updateAgent hw w a i0) (i0 + 1) k ag (by omega) ha (by rw [updateAgent_agents_ne hw w a hki]; exact hag)
      rw [hd.1, hd.2] at this
      exact this

theorem legal_forward_executes (cfg : Cfg) (s : State) (hc : Consistent cfg s) (actions draws : List Int)
    (i : Nat) (ag : Agent) (hi : s.agents[i]? = some ag) (ha : actions[i]? = some 1) (hl : legal s i 1) :
    (step cfg s actions draws).1.agents[i]? =
      some { ag with x := (newPos (gRows s.shelfGrid) (gCols s.shelfGrid) ag.x ag.y ag.dir).1,
                     y := (newPos (gRows s.shelfGrid) (gCols s.shelfGrid) ag.x ag.y ag.dir).2 } := by
  have hlt := getElem?_lt hi
  have hv := validActions_legal (cfg := cfg) hc actions (i := i) (a := 1) hlt (by simpa using ha) (by omega)
  simp only [hl, if_true] at hv
  have := scan_forward_agent cfg.highways (validActions s.mask actions) s.world 0 i ag (Nat.zero_le i)
    (by simpa using hv) hi
  simpa [step, State.world] using this

end RobotWarehouse
