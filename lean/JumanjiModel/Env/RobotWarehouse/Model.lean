/-
RobotWarehouse (jumanji/environments/routing/robot_warehouse/{env,utils,utils_agent,utils_shelf,
utils_spawn,generator}.py).  Import-free.  R model: agent motion, shelf carrying, collision
detection, the cached action mask and the sensor vectors are functions (L1 transliteration); the
resampling of the request queue is a draw (`List Int`, one candidate shelf id per goal) with the
decidable support predicate `validDraws`.

Coordinates as in the source: `x` is the row index (axis 1 of `grid`), `y` the column index
(axis 2); `grid[_SHELVES]` = `shelfGrid`, `grid[_AGENTS]` = `agentGrid`; an entity with id `i`
is written on the grid as `i + 1`, `0` = nothing.  Directions 0..3 = up, right, down, left.
Actions 0..4 = noop, forward, left, right, toggle_load.

`is_carrying` (int32 0/1 in the source) is a `Bool` here; the bridge rejects other values.
`is_requested` (float32 0.0/1.0 in the source) is an `Int`.
-/
import JumanjiModel.Prim.Idx
import JumanjiModel.Prim.Grid
import JumanjiModel.Core.TimeStep
namespace RobotWarehouse
open Jm

structure Agent where
  x : Int
  y : Int
  dir : Int
  carrying : Bool
  deriving Repr, DecidableEq, Inhabited

structure Shelf where
  x : Int
  y : Int
  requested : Int
  deriving Repr, DecidableEq, Inhabited

abbrev IGrid := List (List Int)

structure State where
  shelfGrid : IGrid
  agentGrid : IGrid
  agents : List Agent
  shelves : List Shelf
  queue : List Int
  stepCount : Int
  mask : List (List Bool)      -- cached `action_mask`, (num_agents, 5)
  deriving Repr, DecidableEq

structure Cfg where
  timeLimit : Int
  sensorRange : Nat
  highways : List (List Bool)
  goals : List (Int × Int)     -- `(y, x)` pairs exactly as `generator.goals`
  deriving Repr

structure Obs where
  view : List (List Int)       -- agents_view, (num_agents, num_obs_features)
  mask : List (List Bool)
  stepCount : Int
  deriving Repr, DecidableEq

/-! ## L1 -/

def gRows (g : IGrid) : Nat := g.length
def gCols (g : IGrid) : Nat := (g.headD []).length

/-- `get_new_position_after_forward` (`lax.switch` clamps the branch index) -/
def newPos (rows cols : Nat) (x y dir : Int) : Int × Int :=
  let d : Int := if dir < 0 then 0 else if dir > 3 then 3 else dir
  if d = 0 then (max 0 (x - 1), y)
  else if d = 1 then (x, min ((cols : Int) - 1) (y + 1))
  else if d = 2 then (min ((rows : Int) - 1) (x + 1), y)
  else (x, max 0 (y - 1))

/-- `is_valid_action` -/
def isValidAction (sg : IGrid) (ag : Agent) (action : Int) : Bool :=
  let t := newPos (gRows sg) (gCols sg) ag.x ag.y ag.dir
  let cond := decide (action = 1) && ag.carrying && !(decide (ag.x = t.1) && decide (ag.y = t.2))
    && decide (Jx.Grid.getWC sg 0 t.1 t.2 ≠ 0)
  !cond

/-- `compute_action_mask` -/
def computeMask (sg : IGrid) (agents : List Agent) : List (List Bool) :=
  agents.map (fun ag => (List.range 5).map (fun (a : Nat) => isValidAction sg ag (a : Int)))

/-- `get_valid_actions`: a masked-out action becomes a no-op -/
def validActions (mask : List (List Bool)) (actions : List Int) : List Int :=
  List.zipWith (fun row a => if Jx.getWC row false a then a else 0) mask actions

/-- the mutable part threaded through the per-agent scan -/
structure World where
  shelfGrid : IGrid
  agentGrid : IGrid
  agents : List Agent
  shelves : List Shelf
  deriving Repr, DecidableEq

def State.world (s : State) : World := ⟨s.shelfGrid, s.agentGrid, s.agents, s.shelves⟩

/-- `get_new_direction_after_turn` -/
def turnDir (action dir : Int) : Int := (dir + Jx.getWC [0, 0, -1, 1, 0] 0 action) % 4

/-- `set_new_position_after_forward` (+ `set_new_shelf_position_if_carrying`) -/
def forward (w : World) (i : Nat) : World :=
  let ag := Jx.getWC w.agents default (i : Int)
  let t := newPos (gRows w.shelfGrid) (gCols w.shelfGrid) ag.x ag.y ag.dir
  let agents := Jx.setWD w.agents (i : Int) { ag with x := t.1, y := t.2 }
  let agr := Jx.Grid.setWD (Jx.Grid.setWD w.agentGrid ag.x ag.y 0) t.1 t.2 ((i : Int) + 1)
  if ag.carrying then
    let sid := Jx.Grid.getWC w.shelfGrid 0 ag.x ag.y
    let sh := Jx.getWC w.shelves default (sid - 1)
    let shelves := Jx.setWD w.shelves (sid - 1) { sh with x := t.1, y := t.2 }
    let sgr := Jx.Grid.setWD (Jx.Grid.setWD w.shelfGrid ag.x ag.y 0) t.1 t.2 sid
    ⟨sgr, agr, agents, shelves⟩
  else ⟨w.shelfGrid, agr, agents, w.shelves⟩

/-- `set_new_direction_after_turn`: rotate for left/right; otherwise
`set_carrying_shelf_if_load_toggled_and_not_carrying`, whose `else` branch
(`offload_shelf_if_position_is_open`) is taken for EVERY other action, the no-op included. -/
def turnOrToggle (w : World) (action : Int) (i : Nat) (isHighway : Bool) : World :=
  let ag := Jx.getWC w.agents default (i : Int)
  if action = 2 ∨ action = 3 then
    { w with agents := Jx.setWD w.agents (i : Int) { ag with dir := turnDir action ag.dir } }
  else if action = 4 ∧ ag.carrying = false then
    if Jx.Grid.getWC w.shelfGrid 0 ag.x ag.y > 0 then
      { w with agents := Jx.setWD w.agents (i : Int) { ag with carrying := true } }
    else w
  else if !isHighway then
    { w with agents := Jx.setWD w.agents (i : Int) { ag with carrying := false } }
  else w

/-- `_update_state` for agent `i` -/
def updateAgent (hw : List (List Bool)) (w : World) (action : Int) (i : Nat) : World :=
  let ag := Jx.getWC w.agents default (i : Int)
  let isHighway := Jx.Grid.getWC hw false ag.x ag.y
  if action = 1 then forward w i else turnOrToggle w action i isHighway

/-- the `lax.scan` over the agents, in id order -/
def scanAgents (hw : List (List Bool)) : World → List Int → Nat → World
  | w, [], _ => w
  | w, a :: as, i => scanAgents hw (updateAgent hw w a i) as (i + 1)

/-- `is_collision` for every agent -/
def collisions (w : World) : List Bool :=
  (List.range w.agents.length).map (fun (i : Nat) =>
    let ag := Jx.getWC w.agents default (i : Int)
    decide (Jx.Grid.getWC w.agentGrid 0 ag.x ag.y ≠ (i : Int) + 1))

/-- first index of `v` in `q` (`argwhere(..., size=1)`, 0 when absent) -/
def firstIdx (q : List Int) (v : Int) : Nat := if q.contains v then q.idxOf v else 0

structure Deliv where
  queue : List Int
  shelves : List Shelf
  reward : Rat
  deriving Repr

/-- does the goal `(y, x)` fire: a shelf stands on it and that shelf is requested -/
def goalFires (sg : IGrid) (queue : List Int) (goal : Int × Int) : Bool :=
  let sid := Jx.Grid.getWC sg 0 goal.2 goal.1
  decide (sid ≠ 0) && (queue.map (· + 1)).contains sid

/-- `_update_reward_and_request_queue` for one goal; `d` is the freshly requested shelf id -/
def processGoal (sg : IGrid) (dv : Deliv) (goal : Int × Int) (d : Int) : Deliv :=
  if goalFires sg dv.queue goal then
    let sid := Jx.Grid.getWC sg 0 goal.2 goal.1
    let queue := Jx.setWD dv.queue (firstIdx dv.queue (sid - 1) : Nat) d
    let sh0 := Jx.getWC dv.shelves default (sid - 1)
    let shelves := Jx.setWD dv.shelves (sid - 1) { sh0 with requested := 0 }
    let sh1 := Jx.getWC shelves default d
    let shelves := Jx.setWD shelves d { sh1 with requested := 1 }
    ⟨queue, shelves, dv.reward + 1⟩
  else dv

def scanGoals (sg : IGrid) : Deliv → List (Int × Int) → List Int → Deliv
  | dv, [], _ => dv
  | dv, g :: gs, ds => scanGoals sg (processGoal sg dv g (ds.headD 0)) gs ds.tail

/-- support of the draw: whenever a goal fires, the new id is a shelf id not in the queue -/
def validDraws (sg : IGrid) : Deliv → List (Int × Int) → List Int → Bool
  | _, [], _ => true
  | dv, g :: gs, ds =>
    let d := ds.headD 0
    (!(goalFires sg dv.queue g) ||
      (decide (0 ≤ d) && decide (d < (dv.shelves.length : Int)) && !(dv.queue.contains d)))
    && validDraws sg (processGoal sg dv g d) gs ds.tail

/-! ### the sensor vectors (`make_agent_observation`) -/

def numSensors (r : Nat) : Nat := (1 + 2 * r) * (1 + 2 * r)
/-- `calculate_num_observation_features` -/
def numFeatures (r : Nat) : Nat := 8 + (numSensors r - 1) * 5 + numSensors r * 2

/-- `jax.nn.one_hot(d, 4)` (an out-of-range class gives zeros) -/
def oneHot4 (d : Int) : List Int := (List.range 4).map (fun (k : Nat) => if (k : Int) = d then 1 else 0)

/-- `lax.dynamic_update_slice(obs, data, (idx,))`: the start is clamped so that `data` fits -/
def dynUpdate (obs : List Int) (idx : Int) (data : List Int) : List Int :=
  if data.length > obs.length then obs else
  let hi : Int := (obs.length : Int) - data.length
  let st : Nat := (if idx < 0 then 0 else if idx > hi then hi else idx).toNat
  obs.take st ++ data ++ obs.drop (st + data.length)

/-- zero-padded lookup (`jnp.pad(layer, r)`) -/
def padGet (g : IGrid) (a b : Int) : Int :=
  if 0 ≤ a ∧ a < (gRows g : Int) ∧ 0 ≤ b ∧ b < (gCols g : Int) then
    Jx.Grid.get g 0 a.toNat b.toNat else 0

/-- `lax.dynamic_slice` start index: clamped so that the window fits into the padded layer -/
def sliceStart (n : Nat) (i : Int) : Int := if i < 0 then 0 else if i > (n : Int) - 1 then (n : Int) - 1 else i

/-- `get_agent_view` of one layer: the `(2r+1)²` window around `(x, y)`, row-major -/
def viewOf (g : IGrid) (r : Nat) (x y : Int) : List Int :=
  let x0 := sliceStart (gRows g) x
  let y0 := sliceStart (gCols g) y
  (List.range (2 * r + 1)).flatMap (fun (i : Nat) => (List.range (2 * r + 1)).map (fun (j : Nat) =>
    padGet g (x0 + i - r) (y0 + j - r)))

def agentSensorScan (agents : List Agent) (me : Nat) : List Int × Int → List Int → List Int × Int
  | acc, [] => acc
  | (obs, idx), v :: vs =>
    let self := decide (v = (me : Int) + 1)
    if v = 0 ∨ self then agentSensorScan agents me (obs, if self then idx else idx + 5) vs
    else
      let obs := dynUpdate obs idx [1]
      let obs := dynUpdate obs (idx + 1) (oneHot4 (Jx.getWC agents default (v - 1)).dir)
      agentSensorScan agents me (obs, idx + 5) vs

def shelfSensorScan (shelves : List Shelf) : List Int × Int → List Int → List Int × Int
  | acc, [] => acc
  | (obs, idx), v :: vs =>
    if v = 0 then shelfSensorScan shelves (obs, idx + 2) vs
    else shelfSensorScan shelves
      (dynUpdate obs idx [1, (Jx.getWC shelves default (v - 1)).requested], idx + 2) vs

/-- `make_agent_observation` -/
def agentObs (cfg : Cfg) (w : World) (i : Nat) : List Int :=
  let ag := Jx.getWC w.agents default (i : Int)
  let obs := List.replicate (numFeatures cfg.sensorRange) (0 : Int)
  let obs := dynUpdate obs 0 [ag.x, ag.y, if ag.carrying then 1 else 0]
  let obs := dynUpdate obs 3 (oneHot4 ag.dir)
  let obs := dynUpdate obs 7 [if Jx.Grid.getWC cfg.highways false ag.x ag.y then 1 else 0]
  let r1 := agentSensorScan w.agents i (obs, 8) (viewOf w.agentGrid cfg.sensorRange ag.x ag.y)
  (shelfSensorScan w.shelves r1 (viewOf w.shelfGrid cfg.sensorRange ag.x ag.y)).1

def makeObservations (cfg : Cfg) (w : World) : List (List Int) :=
  (List.range w.agents.length).map (agentObs cfg w)

/-- `step` -/
def step (cfg : Cfg) (s : State) (actions : List Int) (draws : List Int) : State × TimeStep Obs :=
  let acts := validActions s.mask actions
  let w := scanAgents cfg.highways s.world acts 0
  let collision := (collisions w).any id
  let dv := scanGoals w.shelfGrid ⟨s.queue, w.shelves, 0⟩ cfg.goals draws
  let w := { w with shelves := dv.shelves }
  let steps := s.stepCount + 1
  let done := collision || decide (steps ≥ cfg.timeLimit)
  let mask := computeMask w.shelfGrid w.agents
  let o : Obs := ⟨makeObservations cfg w, mask, steps⟩
  (⟨w.shelfGrid, w.agentGrid, w.agents, w.shelves, dv.queue, steps, mask⟩, condLast done [dv.reward] o)

/-- the observation `reset` builds from a generated state -/
def resetObs (cfg : Cfg) (s : State) : Obs := ⟨makeObservations cfg s.world, s.mask, s.stepCount⟩

/-! ### L1: the generator (`generator.py`, `utils_spawn.py`); the sampled values are a draw -/

/-- positions of the two kinds of entity -/
def apos (a : Agent) : Int × Int := (a.x, a.y)
def spos (a : Shelf) : Int × Int := (a.x, a.y)

/-- `place_entities_on_grid` for one channel: `grid.at[x, y].set(id + 1)` for the ids `k, k + 1, …` -/
def placeFrom {α} (pos : α → Int × Int) : IGrid → List α → Nat → IGrid
  | g, [], _ => g
  | g, e :: es, k => placeFrom pos (Jx.Grid.setWD g (pos e).1 (pos e).2 ((k : Int) + 1)) es (k + 1)

/-- `requested_ids = jnp.zeros(n).at[queue].set(1)` -/
def requestedFlags (n : Nat) (queue : List Int) : List Int :=
  queue.foldl (fun acc q => Jx.setWD acc q 1) (List.replicate n 0)

/-- the state `RandomGenerator.__call__` builds from the sampled agent cells, directions and request queue -/
def genState (R C : Nat) (agentCells : List (Int × Int)) (dirs : List Int) (shelfCells : List (Int × Int))
    (queue : List Int) : State :=
  let agents := List.zipWith (fun c d => (⟨c.1, c.2, d, false⟩ : Agent)) agentCells dirs
  let shelves := List.zipWith (fun c r => (⟨c.1, c.2, r⟩ : Shelf)) shelfCells
    (requestedFlags shelfCells.length queue)
  let sg := placeFrom spos (Jx.Grid.mk R C 0) shelves 0
  { shelfGrid := sg, agentGrid := placeFrom apos (Jx.Grid.mk R C 0) agents 0, agents := agents,
    shelves := shelves, queue := queue, stepCount := 0, mask := computeMask sg agents }

/-- what `spawn_random_entities` samples: `choice(arange(R * C), (num_agents,), replace=False)` (flat cell
indices), `choice(_POSSIBLE_DIRECTIONS, (num_agents,))`, `choice(shelf_ids, (queue_size,), replace=False)` -/
structure SpawnDraw where
  agentFlat : List Int
  dirs : List Int
  queue : List Int
  deriving Repr, DecidableEq

/-- `jnp.unravel_index(k, (R, C))` -/
def unravel (C : Nat) (k : Int) : Int × Int := (k / (C : Int), k % (C : Int))

def cellsOf (rows cols : Nat) : List (Int × Int) :=
  (List.range rows).flatMap (fun (r : Nat) => (List.range cols).map (fun (c : Nat) => ((r : Int), (c : Int))))

/-- `_shelf_positions = jnp.argwhere(non_highways)`: the non-highway cells, row-major -/
def shelfCells (hw : List (List Bool)) : List (Int × Int) :=
  (cellsOf hw.length (hw.headD []).length).filter (fun c => !(Jx.Grid.getWC hw true c.1 c.2))

/-- support of the draw: `num_agents` pairwise different cells of the floor (sampling WITHOUT replacement),
one direction `0..3` per agent, `queue_size` pairwise different shelf ids -/
def validSpawn (numAgents queueSize : Nat) (hw : List (List Bool)) (d : SpawnDraw) : Bool :=
  decide (d.agentFlat.length = numAgents) && decide (d.dirs.length = numAgents) &&
  decide (d.queue.length = queueSize) &&
  d.agentFlat.all (fun k => decide (0 ≤ k) && decide (k < ((hw.length * (hw.headD []).length : Nat) : Int))) &&
  decide d.agentFlat.Nodup &&
  d.dirs.all (fun k => decide (0 ≤ k) && decide (k < 4)) &&
  d.queue.all (fun q => decide (0 ≤ q) && decide (q < ((shelfCells hw).length : Int))) &&
  decide d.queue.Nodup

/-- `RandomGenerator.__call__` with the sampled values `d` (the floor has the shape of `highways`) -/
def generate (cfg : Cfg) (d : SpawnDraw) : State :=
  genState cfg.highways.length (cfg.highways.headD []).length
    (d.agentFlat.map (unravel (cfg.highways.headD []).length)) d.dirs (shelfCells cfg.highways) d.queue

/-- `GeneratorBase._make_warehouse`: the floor layout from the generator's arguments -/
structure Layout where
  shelfRows : Nat
  shelfColumns : Nat
  columnHeight : Nat
  deriving Repr, DecidableEq

def Layout.rows (l : Layout) : Nat := (l.columnHeight + 1) * l.shelfRows + 2
def Layout.cols (l : Layout) : Nat := (2 + 1) * l.shelfColumns + 1

/-- `highway_func(x, y)` -/
def Layout.isHighway (l : Layout) (x y : Nat) : Bool :=
  decide (y % 3 = 0) || decide (x % (l.columnHeight + 1) = 0) || decide ((x : Int) = (l.rows : Int) - 1) ||
  (decide ((x : Int) > (l.rows : Int) - ((l.columnHeight : Int) + 3)) &&
    (decide ((y : Int) = ((l.cols / 2 : Nat) : Int) - 1) || decide (y = l.cols / 2)))

def Layout.highways (l : Layout) : List (List Bool) :=
  (List.range l.rows).map (fun x => (List.range l.cols).map (fun y => l.isHighway x y))

/-- `_goals`, as `(y, x)` pairs -/
def Layout.goals (l : Layout) : List (Int × Int) :=
  [(((l.cols / 2 : Nat) : Int) - 1, (l.rows : Int) - 1), (((l.cols / 2 : Nat) : Int), (l.rows : Int) - 1)]

/-! ### whole plays: iterating `step` -/

/-- the (successor state, timestep) pairs of playing the (joint action, draw) pairs `ps` from `s`; the model
`step` is total, so the list goes on past a LAST timestep -/
def run (cfg : Cfg) : State → List (List Int × List Int) → List (State × TimeStep Obs)
  | _, [] => []
  | s, p :: ps => step cfg s p.1 p.2 :: run cfg (step cfg s p.1 p.2).1 ps

/-- the state in which step number `k + 1` of the play is taken -/
def stateAt (cfg : Cfg) : State → List (List Int × List Int) → Nat → State
  | s, _, 0 => s
  | s, [], _ + 1 => s
  | s, p :: ps, k + 1 => stateAt cfg (step cfg s p.1 p.2).1 ps k

/-! ## L2: the rules, from the entity tables -/

def inGrid (rows cols : Nat) (x y : Int) : Prop := 0 ≤ x ∧ x < rows ∧ 0 ≤ y ∧ y < cols
instance (r c : Nat) (x y : Int) : Decidable (inGrid r c x y) := by unfold inGrid; infer_instance

/-- the cell in front of an agent, `none` when the agent faces the border of the floor -/
def ahead (rows cols : Nat) (ag : Agent) : Option (Int × Int) :=
  let t : Int × Int :=
    if ag.dir = 0 then (ag.x - 1, ag.y) else if ag.dir = 1 then (ag.x, ag.y + 1)
    else if ag.dir = 2 then (ag.x + 1, ag.y) else (ag.x, ag.y - 1)
  if inGrid rows cols t.1 t.2 then some t else none

def shelfAt (shelves : List Shelf) (c : Int × Int) : Option Shelf :=
  shelves.find? (fun sh => decide (sh.x = c.1) && decide (sh.y = c.2))

/-- is there a shelf on the cell in front of agent `i` (never, when it faces the border) -/
def blockedAhead (s : State) (i : Nat) : Bool :=
  match ahead (gRows s.shelfGrid) (gCols s.shelfGrid) (s.agents.getD i default) with
  | some c => (shelfAt s.shelves c).isSome
  | none => false

/-- agent `i` may play `a` unless it would push the shelf it carries into another shelf -/
def legal (s : State) (i : Nat) (a : Nat) : Prop :=
  ¬ (a = 1 ∧ (s.agents.getD i default).carrying = true ∧ blockedAhead s i = true)

instance (s : State) (i a : Nat) : Decidable (legal s i a) := by unfold legal; infer_instance

def legalMask (s : State) : List (List Bool) :=
  (List.range s.agents.length).map (fun i => (List.range 5).map (fun a => decide (legal s i a)))

/-- grid value expected at a cell from an entity table: `k + 1` for the first entity there -/
def tableAt {α} (pos : α → Int × Int) (es : List α) (c : Int × Int) : Int :=
  match es.findIdx? (fun e => decide (pos e = c)) with
  | some k => (k : Int) + 1
  | none => 0

def allCells (rows cols : Nat) : List (Int × Int) :=
  (List.range rows).flatMap (fun (r : Nat) => (List.range cols).map (fun (c : Nat) => ((r : Int), (c : Int))))

def distinctPos {α} (pos : α → Int × Int) (es : List α) : Bool :=
  (es.map pos).Nodup

/-- physical consistency: both channels well shaped; agents (shelves) inside the floor, on pairwise
different cells; each channel is exactly the picture of its table; a carrying agent stands on a
shelf; directions are in range; the request queue holds distinct shelf ids and `is_requested`
marks exactly the queued shelves; the cached mask is the mask of this state. -/
def Consistent (cfg : Cfg) (s : State) : Prop :=
  let rows := gRows s.shelfGrid
  let cols := gCols s.shelfGrid
  Jx.Grid.shaped s.shelfGrid rows cols = true ∧ Jx.Grid.shaped s.agentGrid rows cols = true ∧
  Jx.Grid.shaped cfg.highways rows cols = true ∧ 0 < rows ∧ 0 < cols ∧
  (∀ ag ∈ s.agents, inGrid rows cols ag.x ag.y ∧ 0 ≤ ag.dir ∧ ag.dir < 4) ∧
  (∀ sh ∈ s.shelves, inGrid rows cols sh.x sh.y ∧ (sh.requested = 0 ∨ sh.requested = 1)) ∧
  distinctPos (fun a : Agent => (a.x, a.y)) s.agents = true ∧
  distinctPos (fun a : Shelf => (a.x, a.y)) s.shelves = true ∧
  (∀ c ∈ allCells rows cols,
    Jx.Grid.getWC s.agentGrid 0 c.1 c.2 = tableAt (fun a : Agent => (a.x, a.y)) s.agents c ∧
    Jx.Grid.getWC s.shelfGrid 0 c.1 c.2 = tableAt (fun a : Shelf => (a.x, a.y)) s.shelves c) ∧
  (∀ ag ∈ s.agents, ag.carrying = true → (shelfAt s.shelves (ag.x, ag.y)).isSome = true) ∧
  s.queue.Nodup ∧ (∀ q ∈ s.queue, 0 ≤ q ∧ q < (s.shelves.length : Int)) ∧
  (∀ k, k < s.shelves.length → ((s.shelves.getD k default).requested = 1 ↔ s.queue.contains (k : Int) = true)) ∧
  s.mask = computeMask s.shelfGrid s.agents

instance (cfg : Cfg) (s : State) : Decidable (Consistent cfg s) := by
  unfold Consistent; simp only []
  have : Decidable (∀ k, k < s.shelves.length →
      ((s.shelves.getD k default).requested = 1 ↔ s.queue.contains (k : Int) = true)) :=
    decidable_of_iff (∀ k ∈ List.range s.shelves.length,
      ((s.shelves.getD k default).requested = 1 ↔ s.queue.contains (k : Int) = true))
      (by simp [List.mem_range])
  infer_instance

/-- number of shelves present on the floor picture -/
def shelfCount (g : IGrid) : Nat := Jx.Grid.count (fun v => decide (v ≠ 0)) g

/-- conserved across a transition: the number of shelves (table and picture), the number of
agents and the length of the request queue -/
def Conserved (s s' : State) : Prop :=
  s'.shelves.length = s.shelves.length ∧ shelfCount s'.shelfGrid = shelfCount s.shelfGrid ∧
  s'.agents.length = s.agents.length ∧ s'.queue.length = s.queue.length

instance (s s' : State) : Decidable (Conserved s s') := by unfold Conserved; infer_instance

/-! ### L2 observation: what each agent's sensors must report, from the entity tables -/

def otherAgentAt (agents : List Agent) (me : Nat) (c : Int × Int) : Option Agent :=
  ((List.range agents.length).find? (fun j => decide (j ≠ me) &&
    decide (((agents.getD j default).x, (agents.getD j default).y) = c))).map (fun j => agents.getD j default)

/-- the cells of the sensor window of an agent at `(x, y)`, row-major -/
def windowCells (r : Nat) (x y : Int) : List (Int × Int) :=
  (List.range (2 * r + 1)).flatMap (fun (i : Nat) => (List.range (2 * r + 1)).map (fun (j : Nat) =>
    (x + i - r, y + j - r)))

/-- the documented sensor vector: own position, carrying flag, one-hot direction, highway flag;
then, for every window cell except the centre, `[1] ++ onehot(direction)` of the OTHER agent
standing there (zeros if none); then, for every window cell, `[1, requested]` of the shelf
standing there (zeros if none). -/
def observeAgent (cfg : Cfg) (s : State) (i : Nat) : List Int :=
  let ag := s.agents.getD i default
  let cells := windowCells cfg.sensorRange ag.x ag.y
  [ag.x, ag.y, if ag.carrying then 1 else 0] ++ oneHot4 ag.dir ++
  [if Jx.Grid.getWC cfg.highways false ag.x ag.y then (1 : Int) else 0] ++
  ((cells.filter (fun c => !decide (c = (ag.x, ag.y)))).flatMap (fun c =>
    match otherAgentAt s.agents i c with
    | some o => (1 : Int) :: oneHot4 o.dir
    | none => [0, 0, 0, 0, 0])) ++
  (cells.flatMap (fun c =>
    match shelfAt s.shelves c with
    | some sh => [1, sh.requested]
    | none => [0, 0]))

def observe (cfg : Cfg) (s : State) : Obs :=
  ⟨(List.range s.agents.length).map (observeAgent cfg s), legalMask s, s.stepCount⟩

/-! ### C05: what must hold for an agent whose action was illegal -/

def shelfIdxAt (shelves : List Shelf) (c : Int × Int) : Option Nat :=
  shelves.findIdx? (fun sh => decide (sh.x = c.1) && decide (sh.y = c.2))

/-- agent `i` is frozen: same cell, same direction, and the shelf it stands on (if any) is still
on that cell -/
def frozen (s s' : State) (i : Nat) : Bool :=
  let a := s.agents.getD i default
  let a' := s'.agents.getD i default
  decide (a'.x = a.x) && decide (a'.y = a.y) && decide (a'.dir = a.dir) &&
  (match shelfIdxAt s.shelves (a.x, a.y) with
   | some k => decide ((s'.shelves.getD k default).x = a.x) && decide ((s'.shelves.getD k default).y = a.y)
   | none => true)

def holdingsKept (s s' : State) (i : Nat) : Bool :=
  (s'.agents.getD i default).carrying == (s.agents.getD i default).carrying

/-! ### C10: the spawn certificate on a reset state -/

def SpawnOK (cfg : Cfg) (s : State) : Prop :=
  Consistent cfg s ∧ s.stepCount = 0 ∧ (∀ ag ∈ s.agents, ag.carrying = false) ∧
  (∀ sh ∈ s.shelves, Jx.Grid.getWC cfg.highways true sh.x sh.y = false)

instance (cfg : Cfg) (s : State) : Decidable (SpawnOK cfg s) := by unfold SpawnOK; infer_instance

end RobotWarehouse
