/-
RobotWarehouse — C07 assembled: `step` from a consistent state, with any joint action and any
draw from the support, reaches a consistent state unless the step is LAST; and the floor picture
of a consistent state shows exactly as many shelves / agents as the tables hold.
-/
import JumanjiModel.Env.RobotWarehouse.StepLemmas
import JumanjiModel.Env.RobotWarehouse.QueueLemmas
namespace RobotWarehouse
open Jm

/-! ### the end of the scan: `is_collision` -/

theorem collisions_false {w : World} (hc : (collisions w).any id = false) {k : Nat} {ag : Agent}
    (hk : w.agents[k]? = some ag) : Jx.Grid.getWC w.agentGrid 0 ag.x ag.y = (k : Int) + 1 := by
  have hlt := getElem?_lt hk
  rw [List.any_eq_false] at hc
  have := hc (decide (Jx.Grid.getWC w.agentGrid 0 ag.x ag.y ≠ (k : Int) + 1)) (by
    unfold collisions
    simp only [List.mem_map, List.mem_range]
    exact ⟨k, hlt, by simp only [getWC_idx w.agents default hk]⟩)
  simpa using this

theorem clash_collision {w : World} {m : Nat} (h : Clash w m) : (collisions w).any id = true := by
  obtain ⟨j, k, a, b, hjk, _, hj, hk, hab⟩ := h
  obtain ⟨hx, hy⟩ := apos_eq hab
  by_cases hc : (collisions w).any id = true
  · exact hc
  · have hc' : (collisions w).any id = false := by simpa using hc
    have h1 := collisions_false hc' hj
    have h2 := collisions_false hc' hk
    rw [hx, hy] at h1
    omega

/-! ### entity tables with the same positions have the same picture -/

theorem shown_of_pos_eq {α} {pos : α → Int × Int} {R C : Nat} {g : IGrid} {es es' : List α}
    (he : ∀ (k : Nat), (es'[k]?).map pos = (es[k]?).map pos) (h : Shown pos R C g es) : Shown pos R C g es' := by
  intro k e' hk
  have h1 := he k
  rw [hk] at h1
  simp only [Option.map_some] at h1
  obtain ⟨e, hek, hp⟩ := Option.map_eq_some_iff.1 h1.symm
  have := h k e hek
  rw [hp] at this
  exact this

theorem backed_of_pos_eq {α} {pos : α → Int × Int} {R C : Nat} {g : IGrid} {es es' : List α}
    (he : ∀ (k : Nat), (es'[k]?).map pos = (es[k]?).map pos) (h : Backed pos R C g es) : Backed pos R C g es' := by
  intro x y hxy hne
  obtain ⟨k, e, hek, hv, hp⟩ := h x y hxy hne
  have h1 := he k
  rw [hek] at h1
  simp only [Option.map_some] at h1
  obtain ⟨e', hek', hp'⟩ := Option.map_eq_some_iff.1 h1
  exact ⟨k, e', hek', hv, hp'.trans hp⟩

/-! ### C07: step keeps the floor consistent -/

theorem step_consistent {cfg : Cfg} {s : State} (hc : Consistent cfg s) (actions draws : List Int)
    (hv : validDraws (scanAgents cfg.highways s.world (validActions s.mask actions) 0).shelfGrid
      ⟨s.queue, (scanAgents cfg.highways s.world (validActions s.mask actions) 0).shelves, 0⟩
      cfg.goals draws = true)
    (hn : (step cfg s actions draws).2.stepType ≠ .last) :
    Consistent cfg (step cfg s actions draws).1 := by
  have h := (consistent_iff_good cfg s).1 hc
  generalize hR : gRows s.shelfGrid = R at h
  generalize hC : gCols s.shelfGrid = C at h
  have hscan := scan_from_good h actions
  simp only [] at hscan
  -- the step is not LAST: no collision
  have hcol : (collisions (scanAgents cfg.highways s.world (validActions s.mask actions) 0)).any id = false := by
    by_cases hcc : (collisions (scanAgents cfg.highways s.world (validActions s.mask actions) 0)).any id = true
    · exfalso; apply hn
      simp [step, condLast, hcc, termination]
    · simpa using hcc
  generalize hw : scanAgents cfg.highways s.world (validActions s.mask actions) 0 = w at hscan hcol hv
  rcases hscan with hcl | hst
  · rw [clash_collision hcl] at hcol; cases hcol
  -- the request queue
  have hq0 : QInv s.queue w.shelves := by
    refine ⟨h.qnd, ?_, ?_, ?_⟩
    · rw [hst.slen]; exact h.qrange
    · intro k hk
      have hk' : k < s.shelves.length := by rw [← hst.slen]; exact hk
      have := hst.sreq k
      rw [List.getElem?_eq_getElem hk, List.getElem?_eq_getElem hk'] at this
      simp only [Option.map_some, Option.some.injEq] at this
      rw [← h.qreq k hk']
      simp only [List.getD_eq_getElem?_getD, List.getElem?_eq_getElem hk, List.getElem?_eq_getElem hk',
        Option.getD_some, this]
    · intro sh hsh
      obtain ⟨k, hk, rfl⟩ := List.getElem_of_mem hsh
      have hk' : k < s.shelves.length := by rw [← hst.slen]; exact hk
      have := hst.sreq k
      rw [List.getElem?_eq_getElem hk, List.getElem?_eq_getElem hk'] at this
      simp only [Option.map_some, Option.some.injEq] at this
      rw [this]
      exact h.req _ (List.getElem_mem hk')
  obtain ⟨hq, hpos⟩ := scanGoals_inv w.shelfGrid cfg.goals ⟨s.queue, w.shelves, 0⟩ draws hq0 hv
  simp only [] at hpos
  have hShown := shown_of_pos_eq hpos hst.shShown
  have hBacked := backed_of_pos_eq hpos hst.shBacked
  apply good_of_good (R := R) (C := C)
  simp only [step, hw]
  refine ⟨hst.shS, hst.shA, h.shH, h.hR, h.hC, ?_, hq.req01, ?_, hst.agBacked, hShown, hBacked, ?_,
    hq.nd, hq.range, hq.qreq, rfl⟩
  · intro ag hag
    obtain ⟨k, hk, rfl⟩ := List.getElem_of_mem hag
    exact (hst.ain k _ (List.getElem?_eq_getElem hk)).2
  · intro k ag hk
    exact ⟨(hst.ain k ag hk).1, collisions_false hcol hk⟩
  · intro ag hag hcar
    obtain ⟨k, hk, rfl⟩ := List.getElem_of_mem hag
    have hk' := List.getElem?_eq_getElem hk
    exact (shelf_cell_ne_zero_iff hShown hBacked (hst.ain k _ hk').1).1 (hst.carry k _ hk' hcar)


/-! ### C07 (conserved): the floor picture shows as many entities as the table holds -/

theorem allCells_nodup (R C : Nat) : (allCells R C).Nodup := by
  unfold allCells List.Nodup
  rw [List.pairwise_flatMap]
  constructor
  · intro r _
    rw [List.pairwise_map]
    exact (List.nodup_range (n := C)).imp (fun {a b} hab heq => hab (by
      have := congrArg Prod.snd heq
      simp only [] at this
      omega))
  · exact (List.nodup_range (n := R)).imp (fun {a b} hab x hx y hy heq => by
      simp only [List.mem_map] at hx hy
      obtain ⟨_, _, rfl⟩ := hx
      obtain ⟨_, _, rfl⟩ := hy
      have := congrArg Prod.fst heq
      simp only [] at this
      omega)

theorem shaped_eq_tab {g : IGrid} {R C : Nat} (h : Jx.Grid.shaped g R C = true) :
    g = (List.range R).map (fun r => (List.range C).map (fun c => Jx.Grid.get g 0 r c)) := by
  rw [Jx.Grid.shaped_iff] at h
  apply List.ext_getElem
  · simp [h.1]
  · intro i h1 h2
    have hi : i < R := by omega
    have hrl := h.2 i hi
    unfold Jx.Grid.rowLen at hrl
    simp only [List.getD_eq_getElem?_getD, List.getElem?_eq_getElem h1, Option.getD_some] at hrl
    simp only [List.getElem_map, List.getElem_range]
    apply List.ext_getElem
    · simp [hrl]
    · intro j hj1 hj2
      simp [Jx.Grid.get, List.getD_eq_getElem?_getD, h1, hj1]

theorem flatten_eq_cells {g : IGrid} {R C : Nat} (h : Jx.Grid.shaped g R C = true) :
    List.flatten g = (allCells R C).map (fun c => Jx.Grid.getWC g 0 c.1 c.2) := by
  conv => lhs; rw [shaped_eq_tab h]
  unfold allCells
  rw [List.map_flatMap, List.flatMap_def]
  congr 1
  apply List.map_congr_left
  intro r hr
  rw [List.map_map]
  apply List.map_congr_left
  intro c hc
  simp only [Function.comp, List.mem_range] at hr hc ⊢
  exact (cell_get h hr hc 0).symm

/-- a channel that is the exact picture of a table has exactly `table.length` non-empty cells -/
theorem picture_count {α} {pos : α → Int × Int} {R C : Nat} {g : IGrid} {es : List α}
    (hs : Jx.Grid.shaped g R C = true) (h1 : Shown pos R C g es) (h2 : Backed pos R C g es) :
    Jx.Grid.count (fun v => decide (v ≠ 0)) g = es.length := by
  unfold Jx.Grid.count
  rw [flatten_eq_cells hs, List.filter_map, List.length_map]
  have hd : (es.map pos).Nodup := by
    have := (picture_of_shown_backed h1 h2).2.1
    unfold distinctPos at this
    exact of_decide_eq_true this
  have hperm : ((allCells R C).filter ((fun v => decide (v ≠ 0)) ∘ fun c => Jx.Grid.getWC g 0 c.1 c.2)).Perm
      (es.map pos) := by
    rw [List.perm_ext_iff_of_nodup ((allCells_nodup R C).filter _) hd]
    intro c
    simp only [List.mem_filter, mem_allCells, Function.comp, decide_eq_true_eq, List.mem_map]
    constructor
    · rintro ⟨hin, hne⟩
      obtain ⟨k, e, he, _, hp⟩ := h2 c.1 c.2 hin hne
      exact ⟨e, List.mem_of_getElem? he, hp⟩
    · rintro ⟨e, he, rfl⟩
      obtain ⟨k, hk, rfl⟩ := List.getElem_of_mem he
      have := h1 k es[k] (List.getElem?_eq_getElem hk)
      exact ⟨this.1, by rw [this.2]; omega⟩
  rw [hperm.length_eq, List.length_map]

theorem consistent_counts {cfg : Cfg} {s : State} (hc : Consistent cfg s) :
    shelfCount s.shelfGrid = s.shelves.length ∧
    Jx.Grid.count (fun v => decide (v ≠ 0)) s.agentGrid = s.agents.length := by
  have h := (consistent_iff_good cfg s).1 hc
  exact ⟨picture_count h.shS h.shShown h.shBacked, picture_count h.shA h.agShown h.agBacked⟩

/-- C07 (conserved), floor-picture level: across a non-LAST step from a consistent state the number of
shelves on the floor picture, of agents on the floor picture, and all table lengths are unchanged -/
theorem step_conserved {cfg : Cfg} {s : State} (hc : Consistent cfg s) (actions draws : List Int)
    (hv : validDraws (scanAgents cfg.highways s.world (validActions s.mask actions) 0).shelfGrid
      ⟨s.queue, (scanAgents cfg.highways s.world (validActions s.mask actions) 0).shelves, 0⟩
      cfg.goals draws = true)
    (hn : (step cfg s actions draws).2.stepType ≠ .last) :
    Conserved s (step cfg s actions draws).1 ∧
    Jx.Grid.count (fun v => decide (v ≠ 0)) (step cfg s actions draws).1.agentGrid =
      Jx.Grid.count (fun v => decide (v ≠ 0)) s.agentGrid := by
  have hc' := step_consistent hc actions draws hv hn
  have h1 := consistent_counts hc
  have h2 := consistent_counts hc'
  have hl := step_lengths cfg s actions draws
  refine ⟨⟨hl.1, ?_, hl.2.1, hl.2.2⟩, ?_⟩
  · rw [h2.1, h1.1]; exact hl.1
  · rw [h2.2, h1.2]; exact hl.2.1

end RobotWarehouse
