/-
RobotWarehouse — C01 spec membership (wave 4): the declared specs as `Sp` values (the number of agents `A` is the generator's
argument, not part of `Cfg`), the invariant `SpecInv` (`A` agents, a cached `(A, 5)` mask, a non-negative counter) established
by the generator for every draw and preserved by EVERY step (any list of integers as joint action, any list of integers as
draw, MID or LAST — a step ended by a collision included), the length of every sensor vector (`num_obs_features`), membership
of the observations of `reset` and of every `step`, whole plays, the converse, reward / discount / action spec.
`agents_view` is declared as an UNBOUNDED `specs.Array`: membership is shape and dtype only.
-/
import JumanjiModel.Env.RobotWarehouse.Lemmas
import JumanjiModel.Env.RobotWarehouse.EpisodeLemmas
import JumanjiModel.Env.MultiAgentSpecValid
namespace RobotWarehouse
open Jm Sp PzS PkS MaS

/-! ### the declared specs (env.py `observation_spec`, `action_spec`; reward / discount: the defaults of `Environment`) -/

/-- `observation_spec`: `agents_view` Array((A, num_obs_features), int32), `action_mask` BoundedArray((A, 5), bool, False, True),
`step_count` BoundedArray((), int32, 0, time_limit) -/
def obsSpec (cfg : Cfg) (A : Nat) : Sp.Nested :=
  [("agents_view", .array [A, numFeatures cfg.sensorRange] .int32 "agents_view"),
   ("action_mask", .bounded [A, 5] .bool "action_mask" [] [0] [] [1]),
   ("step_count", .bounded [] .int32 "step_count" [] [0] [] [(cfg.timeLimit : Rat)])]

/-- `action_spec`: MultiDiscreteArray([5] * A, int32) -/
def actionSpec (A : Nat) : Leaf := actionSpecN A 5

/-- a model observation as the arrays the implementation emits; the shapes are READ OFF the values -/
def toNValue (o : Obs) : NValue :=
  [("agents_view", ⟨shape2 o.view, .int32, ofInts o.view.flatten⟩),
   ("action_mask", ⟨shape2 o.mask, .bool, ofBools o.mask.flatten⟩),
   ("step_count", ⟨[], .int32, [(o.stepCount : Rat)]⟩)]

/-- the timestep `reset` builds on a generated state -/
def resetTs (cfg : Cfg) (s : State) : TimeStep Obs := restart (resetObs cfg s)

/-- what membership amounts to -/
def ObsOK (cfg : Cfg) (A : Nat) (o : Obs) : Prop :=
  Rect2 o.view A (numFeatures cfg.sensorRange) ∧ Rect2 o.mask A 5 ∧ 0 ≤ o.stepCount ∧ o.stepCount ≤ cfg.timeLimit

theorem obs_valid (cfg : Cfg) (A : Nat) (hA : 0 < A) (o : Obs) (h : ObsOK cfg A o) :
    (obsSpec cfg A).valid (toNValue o) = true := by
  obtain ⟨h1, h2, h3, h4⟩ := h
  obtain ⟨hs, hl⟩ := shape2_of_rect h1 hA
  have v1 : (Leaf.array [A, numFeatures cfg.sensorRange] .int32 "agents_view").valid
      ⟨shape2 o.view, .int32, ofInts o.view.flatten⟩ = true := by
    rw [hs]; exact valid_array _ _ _ _ (by rw [ofInts_length, hl, prod_two])
  have v2 := valid_mask A 5 "action_mask" o.mask h2 hA
  have v3 := valid_counter "step_count" cfg.timeLimit o.stepCount h3 h4
  simp only [Nested.valid, obsSpec, toNValue, List.map_cons, List.map_nil, List.zipWith_cons_cons, List.zipWith_nil_right,
    List.all_cons, List.all_nil, v1, v2, v3]
  decide

/-- … and conversely `validate` accepts nothing else: `A` sensor vectors with `A · num_obs_features` entries, an `(A, 5)` mask,
the counter in `[0, time_limit]` (no condition on the sensor VALUES: the leaf is an unbounded `Array`) -/
theorem obs_valid_only (cfg : Cfg) (A : Nat) (o : Obs) (h : (obsSpec cfg A).valid (toNValue o) = true) :
    shape2 o.view = [A, numFeatures cfg.sensorRange] ∧ o.view.flatten.length = A * numFeatures cfg.sensorRange ∧
    shape2 o.mask = [A, 5] ∧ o.mask.flatten.length = A * 5 ∧ 0 ≤ o.stepCount ∧ o.stepCount ≤ cfg.timeLimit := by
  simp only [Nested.valid, obsSpec, toNValue, List.map_cons, List.map_nil, List.zipWith_cons_cons, List.zipWith_nil_right,
    List.all_cons, List.all_nil, id, Bool.and_true, Bool.and_eq_true, beq_self_eq_true, true_and] at h
  obtain ⟨h1, h2, h3⟩ := h
  have m := valid_mask_only _ _ _ _ h2
  have c := valid_counter_only _ _ _ h3
  rw [Leaf.valid_iff] at h1
  refine ⟨h1.1, by simpa [ofInts_length, prod_two, Leaf.shape] using h1.2.2.1, m.1, m.2, c.1, c.2⟩

/-! ### every sensor vector has `num_obs_features` entries -/

theorem dynUpdate_length (obs : List Int) (idx : Int) (data : List Int) : (dynUpdate obs idx data).length = obs.length := by
  unfold dynUpdate
  split
  · rfl
  · rename_i hle
    simp only []
    generalize hst : (if idx < 0 then (0 : Int) else if idx > (obs.length : Int) - data.length then (obs.length : Int) - data.length
      else idx).toNat = st
    have hb : st + data.length ≤ obs.length := by
      rw [← hst]
      split
      · simp; omega
      · split <;> omega
    simp only [List.length_append, List.length_take, List.length_drop]
    omega

theorem agentSensorScan_length (agents : List Agent) (me : Nat) : ∀ (vs : List Int) (acc : List Int × Int),
    (agentSensorScan agents me acc vs).1.length = acc.1.length := by
  intro vs
  induction vs with
  | nil => intro acc; rfl
  | cons v vs ih =>
    intro acc
    obtain ⟨obs, idx⟩ := acc
    simp only [agentSensorScan]
    split
    · rw [ih]
    · rw [ih]; simp only [dynUpdate_length]

theorem shelfSensorScan_length (shelves : List Shelf) : ∀ (vs : List Int) (acc : List Int × Int),
    (shelfSensorScan shelves acc vs).1.length = acc.1.length := by
  intro vs
  induction vs with
  | nil => intro acc; rfl
  | cons v vs ih =>
    intro acc
    obtain ⟨obs, idx⟩ := acc
    simp only [shelfSensorScan]
    split
    · rw [ih]
    · rw [ih]; simp only [dynUpdate_length]

/-- `make_agent_observation` returns `num_obs_features` numbers for EVERY world and agent index -/
theorem agentObs_length (cfg : Cfg) (w : World) (i : Nat) : (agentObs cfg w i).length = numFeatures cfg.sensorRange := by
  unfold agentObs
  simp only [shelfSensorScan_length, agentSensorScan_length, dynUpdate_length, List.length_replicate]

theorem makeObservations_rect (cfg : Cfg) (w : World) :
    Rect2 (makeObservations cfg w) w.agents.length (numFeatures cfg.sensorRange) := by
  refine ⟨by simp [makeObservations], ?_⟩
  intro r hr
  simp only [makeObservations, List.mem_map] at hr
  obtain ⟨i, _, rfl⟩ := hr
  exact agentObs_length cfg w i

theorem computeMask_rect (sg : IGrid) (agents : List Agent) : Rect2 (computeMask sg agents) agents.length 5 := by
  refine ⟨by simp [computeMask], ?_⟩
  intro r hr
  simp only [computeMask, List.mem_map] at hr
  obtain ⟨ag, _, rfl⟩ := hr
  simp

/-! ### the invariant -/

/-- `A` agents, a cached mask of shape `(A, 5)`, a non-negative counter — nothing about the floor -/
def SpecInv (A : Nat) (s : State) : Prop := s.agents.length = A ∧ Rect2 s.mask A 5 ∧ 0 ≤ s.stepCount

instance (A : Nat) (s : State) : Decidable (SpecInv A s) := by unfold SpecInv Rect2; infer_instance

/-- EVERY step — any integers as joint action (any length), any integers as draw, MID or LAST — keeps the invariant -/
theorem step_specInv (cfg : Cfg) (A : Nat) (s : State) (h : SpecInv A s) (a d : List Int) :
    SpecInv A (step cfg s a d).1 := by
  obtain ⟨h1, _, h3⟩ := h
  have hl := (step_lengths cfg s a d).2.1
  refine ⟨by rw [hl, h1], ?_, by rw [(time_limit cfg s a d).1]; omega⟩
  rw [(obs_copied cfg s a d).2.2.1, ← h1, ← hl]
  exact computeMask_rect _ _

/-- the generator establishes it for every draw in the support of `spawn_random_entities` -/
theorem generate_specInv (cfg : Cfg) (numAgents queueSize : Nat) (d : SpawnDraw)
    (hd : validSpawn numAgents queueSize cfg.highways d = true) : SpecInv numAgents (generate cfg d) := by
  unfold validSpawn at hd
  simp only [Bool.and_eq_true, decide_eq_true_eq] at hd
  obtain ⟨⟨⟨⟨⟨⟨⟨h1, h2⟩, _⟩, _⟩, _⟩, _⟩, _⟩, _⟩ := hd
  have hl : (generate cfg d).agents.length = numAgents := by simp [generate, genState, h1, h2]
  refine ⟨hl, ?_, by show (0 : Int) ≤ 0; omega⟩
  rw [← hl]
  exact computeMask_rect _ _

/-! ### the observations -/

theorem resetObs_ok (cfg : Cfg) (A : Nat) (s : State) (h : SpecInv A s) (hT : s.stepCount ≤ cfg.timeLimit) :
    ObsOK cfg A (resetObs cfg s) := by
  obtain ⟨h1, h2, h3⟩ := h
  refine ⟨?_, h2, h3, hT⟩
  have := makeObservations_rect cfg s.world
  rw [show s.world.agents.length = A from h1] at this
  exact this

/-- C01: the `reset` observation built on ANY state with the invariant and counter 0 -/
theorem reset_obs_valid (cfg : Cfg) (A : Nat) (hA : 0 < A) (hT : 0 ≤ cfg.timeLimit) (s : State) (h : SpecInv A s)
    (h0 : s.stepCount = 0) : (obsSpec cfg A).valid (toNValue (resetTs cfg s).obs) = true :=
  obs_valid cfg A hA _ (resetObs_ok cfg A s h (by omega))

theorem step_obs_ok (cfg : Cfg) (A : Nat) (s : State) (h : SpecInv A s) (hlim : s.stepCount < cfg.timeLimit)
    (a d : List Int) : ObsOK cfg A (step cfg s a d).2.obs := by
  have hi := step_specInv cfg A s h a d
  obtain ⟨c1, c2, c3, c4⟩ := obs_copied cfg s a d
  have hc := (time_limit cfg s a d).1
  refine ⟨?_, by rw [c1]; exact hi.2.1, by rw [c2, hc]; have := h.2.2; omega, by rw [c2, hc]; omega⟩
  rw [c4]
  have := makeObservations_rect cfg (step cfg s a d).1.world
  rw [show (step cfg s a d).1.world.agents.length = A from hi.1] at this
  exact this

/-- C01: the observation of EVERY step (any integers as joint action — in the action space or not, masked or not —, any
integers as draw, MID or LAST, collision or not) from a state with the invariant whose counter has not reached the limit -/
theorem step_obs_valid (cfg : Cfg) (A : Nat) (hA : 0 < A) (s : State) (h : SpecInv A s)
    (hlim : s.stepCount < cfg.timeLimit) (a d : List Int) :
    (obsSpec cfg A).valid (toNValue (step cfg s a d).2.obs) = true :=
  obs_valid cfg A hA _ (step_obs_ok cfg A s h hlim a d)

/-- whole plays: along `run` (the L1 step iterated over (joint action, draw) pairs) from a state with the invariant and
counter 0, every observation emitted by one of the first `time_limit` steps is a member of the spec (step `time_limit` is
LAST: `Props.C11.rware_episode_last_by_limit` / `rware_generated_episode_last_by_limit` in Props/Env/RobotWarehouse.lean) -/
theorem run_obs_valid (cfg : Cfg) (A : Nat) (hA : 0 < A) : ∀ (ps : List (List Int × List Int)) (s : State) (n : Nat),
    SpecInv A s → s.stepCount = (n : Int) → ∀ (j : Nat), ((n + j : Nat) : Int) < cfg.timeLimit →
    ∀ e, (run cfg s ps)[j]? = some e → (obsSpec cfg A).valid (toNValue e.2.obs) = true := by
  intro ps
  induction ps with
  | nil => intro s n _ _ j _ e he; simp [run] at he
  | cons p ps ih =>
    intro s n h hn j hj e he
    cases j with
    | zero =>
      simp only [run, List.getElem?_cons_zero, Option.some.injEq] at he
      subst he
      exact step_obs_valid cfg A hA s h (by rw [hn]; simpa using hj) _ _
    | succ j =>
      simp only [run, List.getElem?_cons_succ] at he
      refine ih (step cfg s p.1 p.2).1 (n + 1) (step_specInv cfg A s h _ _)
        (by rw [(time_limit cfg s p.1 p.2).1, hn]; omega) j (by rw [show n + 1 + j = n + (j + 1) by omega]; exact hj) e he

/-! ### reward, discount, action spec -/

theorem step_protocol (cfg : Cfg) (s : State) (a d : List Int) : StepOK none false (step cfg s a d).2 = true := by
  unfold step; exact condLast_stepOK _ _ _

theorem step_reward_discount_valid (cfg : Cfg) (s : State) (a d : List Int) :
    PzS.rewardSpec.valid (scalarArr (step cfg s a d).2.reward) = true ∧
    PzS.discountSpec.valid (scalarArr (step cfg s a d).2.discount) = true :=
  stepOK_reward_discount_valid false _ (step_protocol cfg s a d)

theorem reset_reward_discount_valid (cfg : Cfg) (s : State) :
    PzS.rewardSpec.valid (scalarArr (resetTs cfg s).reward) = true ∧
    PzS.discountSpec.valid (scalarArr (resetTs cfg s).discount) = true := by
  unfold resetTs; simp only [restart]; exact ⟨by decide, by decide⟩

/-- `action_spec.generate_value()` = the all-no-op joint action: well-formed spec, member, and `step` answers it from every
state with the invariant (counter below the limit) with a protocol-conform timestep whose observation is in the spec -/
theorem accepts_generate_value (cfg : Cfg) (A : Nat) (hA : 0 < A) (s : State) (h : SpecInv A s)
    (hlim : s.stepCount < cfg.timeLimit) (d : List Int) :
    (actionSpec A).WF = true ∧ (actionSpec A).valid (actionSpec A).generate = true ∧
    (actionSpec A).generate = actionArr (List.replicate A 0) ∧
    StepOK none false (step cfg s (List.replicate A 0) d).2 = true ∧
    (obsSpec cfg A).valid (toNValue (step cfg s (List.replicate A 0) d).2.obs) = true := by
  obtain ⟨w, v, g⟩ := actionSpecN_accepts_generate A 5 (by omega) (by omega)
  exact ⟨w, v, g, step_protocol cfg s _ d, step_obs_valid cfg A hA s h hlim _ d⟩

end RobotWarehouse
