/-
RobotWarehouse — the request queue: every delivery with a draw from the support keeps the queue
duplicate-free, inside the shelf table, and in agreement with the `is_requested` flags; shelf
positions are never touched by the goal scan.
-/
import JumanjiModel.Env.RobotWarehouse.PictureLemmas
namespace RobotWarehouse
open Jm

theorem nodup_set_fresh {l : List Int} (h : l.Nodup) (j : Nat) {b : Int} (hb : b ∉ l) : (l.set j b).Nodup := by
  induction l generalizing j with
  | nil => simp
  | cons c l ih =>
    cases j with
    | zero => simp_all
    | succ j =>
      simp only [List.set_cons_succ, List.nodup_cons] at h ⊢
      refine ⟨?_, ih h.2 j (fun hh => hb (List.mem_cons_of_mem _ hh))⟩
      intro hc
      rcases List.mem_or_eq_of_mem_set hc with h1 | h1
      · exact h.1 h1
      · exact hb (by simp [h1])

theorem mem_set_nodup {l : List Int} (h : l.Nodup) {j : Nat} {a b x : Int} (hj : l[j]? = some a) :
    x ∈ l.set j b ↔ x = b ∨ (x ∈ l ∧ x ≠ a) := by
  induction l generalizing j with
  | nil => simp at hj
  | cons c l ih =>
    cases j with
    | zero =>
      simp at hj; subst hj
      simp only [List.set_cons_zero, List.mem_cons, List.nodup_cons] at h ⊢
      grind
    | succ j =>
      simp only [List.getElem?_cons_succ] at hj
      simp only [List.set_cons_succ, List.mem_cons, List.nodup_cons] at h ⊢
      rw [ih h.2 hj]
      have : a ∈ l := List.mem_of_getElem? hj
      grind

/-- the request-queue part of `Consistent` -/
structure QInv (queue : List Int) (shelves : List Shelf) : Prop where
  nd : queue.Nodup
  range : ∀ q ∈ queue, 0 ≤ q ∧ q < (shelves.length : Int)
  qreq : ∀ k, k < shelves.length →
    ((shelves.getD k default).requested = 1 ↔ queue.contains (k : Int) = true)
  req01 : ∀ sh ∈ shelves, sh.requested = 0 ∨ sh.requested = 1

theorem getD_set {α} (xs : List α) (i k : Nat) (v d : α) :
    (xs.set i v).getD k d = if i = k ∧ i < xs.length then v else xs.getD k d := by
  simp only [List.getD_eq_getElem?_getD, List.getElem?_set]
  by_cases h1 : i = k
  · subst h1
    by_cases h2 : i < xs.length
    · simp [h2]
    · simp [h2]
  · simp [h1]

/-- rewriting the `requested` flag of one shelf moves no shelf -/
theorem set_requested_spos (xs : List Shelf) (i : Nat) (r : Int) (k : Nat) :
    ((xs.set i { xs.getD i default with requested := r })[k]?).map spos = (xs[k]?).map spos := by
  rw [List.getElem?_set]
  by_cases h1 : i = k
  · subst h1
    by_cases h2 : i < xs.length
    · simp [h2, List.getD_eq_getElem?_getD, spos]
    · simp [h2]
  · simp [h1]

theorem processGoal_inv (sg : IGrid) (dv : Deliv) (g : Int × Int) (d : Int)
    (h : QInv dv.queue dv.shelves)
    (hd : goalFires sg dv.queue g = true →
      0 ≤ d ∧ d < (dv.shelves.length : Int) ∧ dv.queue.contains d = false) :
    QInv (processGoal sg dv g d).queue (processGoal sg dv g d).shelves ∧
    ∀ (k : Nat), ((processGoal sg dv g d).shelves[k]?).map spos = (dv.shelves[k]?).map spos := by
  unfold processGoal
  split
  case isFalse => exact ⟨h, fun _ => rfl⟩
  rename_i hf
  obtain ⟨hd0, hd1, hdq⟩ := hd hf
  unfold goalFires at hf
  simp only [Bool.and_eq_true, decide_eq_true_eq, List.contains_iff_mem, List.mem_map] at hf
  obtain ⟨_, v, hv, hvs⟩ := hf
  generalize Jx.Grid.getWC sg 0 g.2 g.1 = sid at hvs ⊢
  have e1 : sid - 1 = v := by omega
  obtain ⟨hv0, hv1⟩ := h.range v hv
  -- natural indices
  obtain ⟨a, rfl⟩ : ∃ a : Nat, v = (a : Int) := ⟨v.toNat, by omega⟩
  obtain ⟨b, rfl⟩ : ∃ b : Nat, d = (b : Int) := ⟨d.toNat, by omega⟩
  have ha : a < dv.shelves.length := by omega
  have hb : b < dv.shelves.length := by omega
  have hbq : (b : Int) ∉ dv.queue := by
    intro hh
    have : dv.queue.contains (b : Int) = true := by simpa using hh
    rw [this] at hdq; cases hdq
  have hab : a ≠ b := by
    rintro rfl; exact hbq hv
  have hcon : dv.queue.contains (a : Int) = true := by simpa using hv
  have hj : dv.queue.idxOf (a : Int) < dv.queue.length := List.idxOf_lt_length_of_mem hv
  have hjv : dv.queue[dv.queue.idxOf (a : Int)]? = some (a : Int) := by
    rw [List.getElem?_eq_getElem hj, List.getElem_idxOf]
  simp only [e1, firstIdx, hcon, if_true]
  rw [Jx.setWD_nat dv.queue _ hj, Jx.getWC_nat dv.shelves default ha, Jx.setWD_nat dv.shelves _ ha]
  rw [Jx.getWC_nat _ default (by simpa using hb), Jx.setWD_nat _ _ (by simpa using hb)]
  refine ⟨⟨nodup_set_fresh h.nd _ hbq, ?_, ?_, ?_⟩, ?_⟩
  · intro q hq
    simp only [List.length_set]
    rcases List.mem_or_eq_of_mem_set hq with h1 | h1
    · exact h.range q h1
    · subst h1; exact ⟨hd0, hd1⟩
  · intro k hk
    simp only [List.length_set] at hk
    have hmem := mem_set_nodup (b := (b : Int)) (x := (k : Int)) h.nd hjv
    have hold := h.qreq k hk
    simp only [List.contains_iff_mem] at hold ⊢
    rw [hmem]
    simp only [getD_set, List.length_set]
    by_cases hkb : b = k
    · subst hkb
      simp [hb]
    · by_cases hka : a = k
      · subst hka
        simp [hkb, ha]
        omega
      · simp only [hkb, hka, false_and, if_false]
        rw [hold]
        constructor
        · intro hh; exact Or.inr ⟨hh, by omega⟩
        · rintro (hh | hh)
          · omega
          · exact hh.1
  · intro sh hsh
    rcases List.mem_or_eq_of_mem_set hsh with h1 | h1
    · rcases List.mem_or_eq_of_mem_set h1 with h2 | h2
      · exact h.req01 sh h2
      · subst h2; exact Or.inl rfl
    · subst h1; exact Or.inr rfl
  · intro k
    exact (set_requested_spos _ b 1 k).trans (set_requested_spos _ a 0 k)

theorem scanGoals_inv (sg : IGrid) : ∀ (gs : List (Int × Int)) (dv : Deliv) (ds : List Int),
    QInv dv.queue dv.shelves → validDraws sg dv gs ds = true →
    QInv (scanGoals sg dv gs ds).queue (scanGoals sg dv gs ds).shelves ∧
    ∀ (k : Nat), ((scanGoals sg dv gs ds).shelves[k]?).map spos = (dv.shelves[k]?).map spos := by
  intro gs
  induction gs with
  | nil => intro dv ds h _; exact ⟨h, fun _ => rfl⟩
  | cons g gs ih =>
    intro dv ds h hv
    simp only [validDraws, Bool.and_eq_true, Bool.or_eq_true, Bool.not_eq_true', decide_eq_true_eq] at hv
    obtain ⟨hv1, hv2⟩ := hv
    have h1 := processGoal_inv sg dv g (ds.headD 0) h (by
      intro hf
      rcases hv1 with hv1 | hv1
      · rw [hf] at hv1; cases hv1
      · exact ⟨hv1.1.1, hv1.1.2, hv1.2⟩)
    have h2 := ih (processGoal sg dv g (ds.headD 0)) ds.tail h1.1 hv2
    simp only [scanGoals]
    exact ⟨h2.1, fun k => (h2.2 k).trans (h1.2 k)⟩

end RobotWarehouse
