/- Proofs of the C01 value bounds of Cleaner. -/
import JumanjiModel.Env.Cleaner.Bounds
import JumanjiModel.Env.Cleaner.Lemmas
namespace Cleaner
open Jm

theorem inIv_int {lo hi x : Int} (h1 : lo ≤ x) (h2 : x ≤ hi) : inIv (ivInt lo hi) (x : Rat) := by
  refine ⟨fun l hl => ?_, fun h hh => ?_⟩
  · simp only [ivInt, Option.some.injEq] at hl; subst hl; exact Rat.intCast_le_intCast.mpr h1
  · simp only [ivInt, Option.some.injEq] at hh; subst hh; exact Rat.intCast_le_intCast.mpr h2

theorem inIv_b2r (b : Bool) : inIv (ivInt 0 1) (b2r b) := by
  cases b
  · exact inIv_int (x := 0) (by omega) (by omega)
  · exact inIv_int (x := 1) (by omega) (by omega)

theorem inIv_bools (bs : List Bool) : ∀ v ∈ bs.map b2r, inIv (ivInt 0 1) v := by
  intro v hv
  obtain ⟨b, _, rfl⟩ := List.mem_map.mp hv
  exact inIv_b2r b

theorem inIv_ints {lo hi : Int} (xs : List Int) (h : ∀ x ∈ xs, lo ≤ x ∧ x ≤ hi) :
    ∀ v ∈ xs.map (fun (v : Int) => (v : Rat)), inIv (ivInt lo hi) v := by
  intro v hv
  obtain ⟨x, hx, rfl⟩ := List.mem_map.mp hv
  exact inIv_int (h x hx).1 (h x hx).2

theorem tiles_range {g : Jx.Grid Int}
    (h : Jx.Grid.all (fun v => v == DIRTY || v == CLEAN || v == WALL) g = true) :
    ∀ x ∈ List.flatten g, (0 : Int) ≤ x ∧ x ≤ 2 := by
  intro x hx
  obtain ⟨row, hrow, hxr⟩ := List.mem_flatten.mp hx
  unfold Jx.Grid.all at h
  have h1 := List.all_eq_true.mp h row hrow
  have h2 := List.all_eq_true.mp h1 x hxr
  simp only [DIRTY, CLEAN, WALL, Bool.or_eq_true, beq_iff_eq] at h2
  omega

theorem locs_range {cfg : Cfg} {ps : List Pos} (h : ∀ p ∈ ps, inGrid cfg p) :
    ∀ x ∈ ps.flatMap (fun p => [p.1, p.2]),
      (0 : Int) ≤ x ∧ x ≤ max (cfg.numRows : Int) (cfg.numCols : Int) - 1 := by
  intro x hx
  obtain ⟨p, hp, hxp⟩ := List.mem_flatMap.mp hx
  obtain ⟨a1, a2, a3, a4⟩ := h p hp
  simp only [List.mem_cons, List.not_mem_nil, or_false] at hxp
  rcases hxp with rfl | rfl <;> omega

/-- the observation of a state with tiles 0/1/2, agents on cells of the grid and a counter in `[0, time_limit]`
is within bounds -/
theorem obsOf_in_bounds (cfg : Cfg) (s : State) (hk : TilesAndAgentsOK cfg s)
    (h0 : 0 ≤ s.stepCount) (h1 : s.stepCount ≤ cfg.timeLimit) : ObsInBounds cfg (obsOf s) := by
  intro k iv hk' vs hvs v hv
  simp only [obsBounds, List.mem_cons, Prod.mk.injEq, List.not_mem_nil, or_false] at hk'
  simp only [obsLeaves, obsOf, List.mem_cons, Prod.mk.injEq, List.not_mem_nil, or_false] at hvs
  rcases hk' with ⟨rfl, rfl⟩ | ⟨rfl, rfl⟩ | ⟨rfl, rfl⟩ | ⟨rfl, rfl⟩ <;>
    rcases hvs with ⟨hk', rfl⟩ | ⟨hk', rfl⟩ | ⟨hk', rfl⟩ | ⟨hk', rfl⟩ <;>
    first
    | (exfalso; revert hk'; decide)
    | (simp only [List.mem_singleton] at hv; subst hv; apply inIv_int <;> omega)
    | exact inIv_bools _ v hv
    | exact inIv_ints _ (tiles_range hk.1) v hv
    | exact inIv_ints _ (locs_range hk.2) v hv

theorem ok_of_consistent {cfg : Cfg} {s : State} (hC : Consistent cfg s) : TilesAndAgentsOK cfg s :=
  ⟨hC.2.1, fun p hp => (hC.2.2 p hp).1⟩

theorem reset_obs_in_bounds (cfg : Cfg) (g : State) (hk : TilesAndAgentsOK cfg g)
    (h0 : g.stepCount = 0) (htl : 0 ≤ cfg.timeLimit) : ObsInBounds cfg (reset cfg g).2.obs := by
  show ObsInBounds cfg (obsOf _)
  apply obsOf_in_bounds
  · exact hk
  · show 0 ≤ g.stepCount
    omega
  · show g.stepCount ≤ cfg.timeLimit
    omega

theorem step_obs_in_bounds (cfg : Cfg) (s : State) (hC : Consistent cfg s) (h0 : 0 ≤ s.stepCount)
    (h1 : s.stepCount < cfg.timeLimit) (action : List Nat) (hl : action.length = s.agents.length)
    (ha : ∀ a ∈ action, a < 4) : ObsInBounds cfg (step cfg s (action.map Int.ofNat)).2.obs := by
  rw [step_obs]
  apply obsOf_in_bounds cfg _ (ok_of_consistent (step_consistent hC action hl ha))
  · rw [step_count]; omega
  · rw [step_count]; omega

/-- the reset state is consistent when the generator's state has a well-shaped grid of tiles 0/1/2 whose
origin is clean and `num_agents` agents at the origin -/
theorem reset_consistent (cfg : Cfg) (g : State)
    (hs : Jx.Grid.shaped g.grid cfg.numRows cfg.numCols = true)
    (ht : Jx.Grid.all (fun v => v == DIRTY || v == CLEAN || v == WALL) g.grid = true)
    (hag : g.agents = List.replicate cfg.numAgents (0, 0))
    (hp : ∀ p ∈ g.agents, inGrid cfg p ∧ tile g.grid p = CLEAN) : Consistent cfg (reset cfg g).1 := by
  refine ⟨⟨hs, ?_, ?_⟩, ht, hp⟩
  · show g.agents.length = cfg.numAgents
    rw [hag, List.length_replicate]
  · show computeMask cfg g.grid (List.replicate cfg.numAgents (0, 0)) = legalMask cfg g.grid g.agents
    rw [← hag]; exact computeMask_eq hs _

end Cleaner
