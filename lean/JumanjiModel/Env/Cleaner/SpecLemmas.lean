/-
Cleaner — wave 3: the declared `observation_spec` as an `Sp` value and membership of everything `reset` / `step` emit
(C01); the reset observation (C12); the reaction of `step` to each component of the joint action (C04); whole-run
conservation and consistency from `reset` (C07).  Helper lemmas and proofs; the thin statements are in
Props/Env/Cleaner.lean.
-/
import JumanjiModel.Env.Cleaner.BoundsLemmas
import JumanjiModel.Env.Cleaner.EpisodeLemmas
import JumanjiModel.Env.Cleaner.GenLemmas
import JumanjiModel.Env.PuzzleSpecValid
namespace Cleaner
open Jm Sp PzS

/-! ### the declared spec (env.py `observation_spec`) -/

/-- `observation_spec`: `grid` BoundedArray((num_rows, num_cols), int8, 0, 2); `agents_locations`
BoundedArray((num_agents, 2), int32, [0, 0], (num_rows, num_cols)) — the declared maxima are the EXTENTS (one more than
the largest index); `action_mask` BoundedArray((num_agents, 4), bool, False, True); `step_count`
BoundedArray((), int32, 0, time_limit) -/
def obsSpec (cfg : Cfg) : Sp.Nested :=
  [("grid", .bounded [cfg.numRows, cfg.numCols] .int8 "grid" [] [0] [] [2]),
   ("agents_locations", .bounded [cfg.numAgents, 2] .int32 "agents_locations" [2] [0, 0] [2]
      [((cfg.numRows : Int) : Rat), ((cfg.numCols : Int) : Rat)]),
   ("action_mask", .bounded [cfg.numAgents, 4] .bool "action_mask" [] [0] [] [1]),
   ("step_count", .bounded [] .int32 "step_count" [] [0] [] [(cfg.timeLimit : Rat)])]

/-- `action_spec`: MultiDiscreteArray(full(num_agents, 4), int32) -/
def actionSpec (cfg : Cfg) : Leaf := .multiDiscrete [cfg.numAgents] (List.replicate cfg.numAgents 4) .int32 "action_spec"

/-- second dimension of a nested list read off its first row (`d` when there is no row to read it off) -/
def innerDim {α : Type} (d : Nat) : List (List α) → Nat
  | [] => d
  | r :: _ => r.length

def flatLocs (ps : List Pos) : List Int := ps.flatMap (fun p => [p.1, p.2])

/-- a model observation as the arrays the implementation emits (grid int8, locations int32, mask bool, count int32);
the shapes are read off the value -/
def toNValue (cfg : Cfg) (o : Obs) : NValue :=
  [("grid", ⟨[List.length o.grid, innerDim cfg.numCols o.grid], .int8, ofInts (List.flatten o.grid)⟩),
   ("agents_locations", ⟨[o.agents.length, 2], .int32, ofInts (flatLocs o.agents)⟩),
   ("action_mask", ⟨[o.actionMask.length, innerDim 4 o.actionMask], .bool, ofBools o.actionMask.flatten⟩),
   ("step_count", ⟨[], .int32, [(o.stepCount : Rat)]⟩)]

theorem innerDim_of_rows {α : Type} (d m : Nat) (g : List (List α)) (h : ∀ r ∈ g, r.length = m) (h0 : g = [] → d = m) :
    innerDim d g = m := by
  cases g with
  | nil => exact h0 rfl
  | cons r t => exact h r (by simp)

theorem shaped_rows {α : Type} {g : Jx.Grid α} {nr nc : Nat} (h : Jx.Grid.shaped g nr nc = true) :
    g.length = nr ∧ ∀ r ∈ g, r.length = nc := by
  unfold Jx.Grid.shaped at h
  simp only [Bool.and_eq_true, beq_iff_eq, List.all_eq_true] at h
  exact h

/-- broadcasting a per-column bound `[a, b]` over the rows of an `(n, 2)` array -/
theorem broadcast_pair (a b : Rat) (n : Nat) :
    broadcastTo [2] [a, b] [n, 2] = some ((List.range (prod [n, 2])).map (fun k => [a, b].getD (k % 2) 0)) := by
  unfold broadcastTo
  have hb : broadcastable [2] [n, 2] = true := by simp [broadcastable]
  rw [if_pos hb]
  congr 1
  apply List.map_congr_left
  intro k _
  simp [unravel, srcIndex, ravel, prod]

theorem flatLocs_length (ps : List Pos) : (flatLocs ps).length = ps.length * 2 := by
  induction ps with
  | nil => rfl
  | cons p t ih =>
    simp only [flatLocs, List.flatMap_cons, List.length_append, List.length_cons, List.length_nil] at ih ⊢; omega

/-- element `k` of the flattened locations lies between the `k % 2`-th entries of the per-column bounds -/
theorem flatLocs_bounds (ps : List Pos) (l1 l2 h1 h2 : Rat)
    (h : ∀ p ∈ ps, l1 ≤ (p.1 : Rat) ∧ (p.1 : Rat) ≤ h1 ∧ l2 ≤ (p.2 : Rat) ∧ (p.2 : Rat) ≤ h2) :
    ∀ k (hk : k < (ofInts (flatLocs ps)).length),
      [l1, l2].getD (k % 2) 0 ≤ (ofInts (flatLocs ps))[k] ∧ (ofInts (flatLocs ps))[k] ≤ [h1, h2].getD (k % 2) 0 := by
  induction ps with
  | nil => intro k hk; simp [flatLocs, ofInts] at hk
  | cons p t ih =>
    intro k hk
    have hp := h p (by simp)
    have e : ofInts (flatLocs (p :: t)) = (p.1 : Rat) :: (p.2 : Rat) :: ofInts (flatLocs t) := by
      simp [flatLocs, ofInts]
    match k with
    | 0 => simp only [e]; simpa using ⟨hp.1, hp.2.1⟩
    | 1 => simp only [e]; simpa using ⟨hp.2.2.1, hp.2.2.2⟩
    | k + 2 =>
      have hk' : k < (ofInts (flatLocs t)).length := by
        rw [e] at hk; simpa using hk
      have := ih (fun q hq => h q (by simp [hq])) k hk'
      simp only [e, List.getElem_cons_succ]
      have e2 : (k + 2) % 2 = k % 2 := by omega
      rw [e2]; exact this

/-- `BoundedArray((n, 2), d, [l1, l2], [h1, h2])` accepts the flattened `(row, col)` pairs whose first components lie in
`[l1, h1]` and second components in `[l2, h2]` -/
theorem valid_pairs (n : Nat) (d : DType) (nm : String) (l1 l2 h1 h2 : Rat) (ps : List Pos) (hn : ps.length = n)
    (h : ∀ p ∈ ps, l1 ≤ (p.1 : Rat) ∧ (p.1 : Rat) ≤ h1 ∧ l2 ≤ (p.2 : Rat) ∧ (p.2 : Rat) ≤ h2) :
    (Leaf.bounded [n, 2] d nm [2] [l1, l2] [2] [h1, h2]).valid ⟨[n, 2], d, ofInts (flatLocs ps)⟩ = true := by
  rw [Leaf.valid_iff]
  refine ⟨rfl, rfl, ?_, Or.inr ⟨_, _, broadcast_pair l1 l2 n, broadcast_pair h1 h2 n, ?_⟩⟩
  · simp [ofInts, flatLocs_length, hn, prod, Leaf.shape]
  · intro k hk1 hk2
    have := flatLocs_bounds ps l1 l2 h1 h2 h k hk1
    simpa [List.getElem_zip] using this

/-- C01: an observation with a well-shaped grid of tiles 0/1/2, `num_agents` agents on cells of the grid, a
`(num_agents, 4)` mask and a counter in `[0, time_limit]` is a member of `observation_spec`: same fields, each of the
declared shape and dtype, every element within the declared bounds -/
theorem obs_valid (cfg : Cfg) (o : Obs) (hs : Jx.Grid.shaped o.grid cfg.numRows cfg.numCols = true)
    (ht : Jx.Grid.all (fun v => v == DIRTY || v == CLEAN || v == WALL) o.grid = true)
    (hal : o.agents.length = cfg.numAgents) (hag : ∀ p ∈ o.agents, inGrid cfg p)
    (hml : o.actionMask.length = cfg.numAgents) (hmr : ∀ r ∈ o.actionMask, r.length = 4)
    (h0 : 0 ≤ o.stepCount) (h1 : o.stepCount ≤ cfg.timeLimit) : (obsSpec cfg).valid (toNValue cfg o) = true := by
  obtain ⟨hgl, hgr⟩ := shaped_rows hs
  have k1 : (Leaf.bounded [cfg.numRows, cfg.numCols] .int8 "grid" [] [0] [] [2]).valid
      ⟨[List.length o.grid, innerDim cfg.numCols o.grid], .int8, ofInts (List.flatten o.grid)⟩ = true := by
    rw [hgl, innerDim_of_rows cfg.numCols cfg.numCols o.grid hgr (fun _ => rfl)]
    refine valid_scalar_bounded _ _ _ _ _ _ ?_ ?_
    · rw [ofInts, List.length_map, length_flatten_const o.grid cfg.numCols hgr, hgl, prod_two]
    · have := ofInts_bounds (List.flatten o.grid) 0 2 (tiles_range ht)
      simpa using this
  have k2 : (Leaf.bounded [cfg.numAgents, 2] .int32 "agents_locations" [2] [0, 0] [2]
      [((cfg.numRows : Int) : Rat), ((cfg.numCols : Int) : Rat)]).valid ⟨[o.agents.length, 2], .int32, ofInts (flatLocs o.agents)⟩ = true := by
    rw [hal]
    refine valid_pairs _ _ _ _ _ _ _ _ hal ?_
    intro p hp
    obtain ⟨a1, a2, a3, a4⟩ := hag p hp
    have c1 : ((0 : Int) : Rat) ≤ (p.1 : Rat) := Rat.intCast_le_intCast.mpr a1
    have c2 : (p.1 : Rat) ≤ ((cfg.numRows : Int) : Rat) := Rat.intCast_le_intCast.mpr (by omega)
    have c3 : ((0 : Int) : Rat) ≤ (p.2 : Rat) := Rat.intCast_le_intCast.mpr a3
    have c4 : (p.2 : Rat) ≤ ((cfg.numCols : Int) : Rat) := Rat.intCast_le_intCast.mpr (by omega)
    exact ⟨by simpa using c1, by simpa using c2, by simpa using c3, by simpa using c4⟩
  have k3 : (Leaf.bounded [cfg.numAgents, 4] .bool "action_mask" [] [0] [] [1]).valid
      ⟨[o.actionMask.length, innerDim 4 o.actionMask], .bool, ofBools o.actionMask.flatten⟩ = true := by
    rw [hml, innerDim_of_rows 4 4 o.actionMask hmr (fun _ => rfl)]
    refine valid_scalar_bounded _ _ _ _ _ _ ?_ (ofBools_bounds _)
    rw [ofBools, List.length_map, length_flatten_const o.actionMask 4 hmr, hml, prod_two]
  have k4 : (Leaf.bounded [] .int32 "step_count" [] [0] [] [(cfg.timeLimit : Rat)]).valid
      ⟨[], .int32, [(o.stepCount : Rat)]⟩ = true := by
    refine valid_scalar_bounded _ _ _ _ _ _ (by simp [prod]) ?_
    intro x hx
    simp only [List.mem_cons, List.not_mem_nil, or_false] at hx
    subst hx
    exact ⟨by simpa using Rat.intCast_le_intCast.mpr h0, Rat.intCast_le_intCast.mpr h1⟩
  simp [Nested.valid, obsSpec, toNValue, k1, k2, k3, k4]

/-- … and what `validate` accepts (so membership is not hollow): a member has a grid of `num_rows · num_cols` tiles
0..2 in `num_rows` rows, `num_agents` agents, `num_agents` mask rows and a counter in `[0, time_limit]` -/
theorem obs_valid_only (cfg : Cfg) (o : Obs) (h : (obsSpec cfg).valid (toNValue cfg o) = true) :
    List.length o.grid = cfg.numRows ∧ (List.flatten o.grid).length = cfg.numRows * cfg.numCols ∧
    (∀ v ∈ List.flatten o.grid, 0 ≤ v ∧ v ≤ 2) ∧ o.agents.length = cfg.numAgents ∧
    o.actionMask.length = cfg.numAgents ∧ 0 ≤ o.stepCount ∧ o.stepCount ≤ cfg.timeLimit := by
  simp only [Nested.valid, obsSpec, toNValue, List.map_cons, List.map_nil, List.zipWith_cons_cons, List.zipWith_nil_right,
    List.all_cons, List.all_nil, id, Bool.and_true, Bool.and_eq_true, beq_self_eq_true, true_and] at h
  obtain ⟨h1, h2, h3, h4⟩ := h
  rw [valid_scalar_bounded_iff] at h1 h3 h4
  rw [Leaf.valid_iff] at h2
  obtain ⟨s1, _, l1, b1⟩ := h1
  simp only [List.cons.injEq, and_true] at s1
  refine ⟨s1.1, by rw [ofInts, List.length_map] at l1; simpa [prod] using l1, ?_, ?_, ?_, ?_, ?_⟩
  · intro v hv
    have := b1 (v : Rat) (by simp only [ofInts, List.mem_map]; exact ⟨v, hv, rfl⟩)
    exact ⟨by simpa using (Rat.intCast_le_intCast (a := 0) (b := v)).mp (by simpa using this.1),
           by simpa using (Rat.intCast_le_intCast (a := v) (b := 2)).mp (by simpa using this.2)⟩
  · have := h2.1; simpa [Leaf.shape] using this
  · have := h3.1; simp only [List.cons.injEq, and_true] at this; exact this.1
  · have := h4.2.2.2 (o.stepCount : Rat) (by simp)
    exact (Rat.intCast_le_intCast (a := 0)).mp (by simpa using this.1)
  · have := h4.2.2.2 (o.stepCount : Rat) (by simp)
    exact Rat.intCast_le_intCast.mp this.2

theorem legalMask_rows (cfg : Cfg) (g : Jx.Grid Int) (agents : List Pos) :
    (legalMask cfg g agents).length = agents.length ∧ ∀ r ∈ legalMask cfg g agents, r.length = 4 := by
  refine ⟨by simp [legalMask], ?_⟩
  intro r hr
  simp only [legalMask, List.mem_map] at hr
  obtain ⟨_, _, rfl⟩ := hr
  simp

/-- the observation `obsOf s` of a consistent state whose counter is in `[0, time_limit]` is a member -/
theorem obsOf_valid (cfg : Cfg) (s : State) (hC : Consistent cfg s) (h0 : 0 ≤ s.stepCount)
    (h1 : s.stepCount ≤ cfg.timeLimit) : (obsSpec cfg).valid (toNValue cfg (obsOf s)) = true := by
  obtain ⟨⟨hs, hal, hm⟩, ht, hp⟩ := hC
  have hr := legalMask_rows cfg s.grid s.agents
  refine obs_valid cfg (obsOf s) hs ht hal (fun p hp' => (hp p hp').1) ?_ ?_ h0 h1
  · show s.actionMask.length = cfg.numAgents
    rw [hm, hr.1, hal]
  · show ∀ r ∈ s.actionMask, r.length = 4
    rw [hm]; exact hr.2

/-- C01 at `reset`, for EVERY draw of the generator (any recursive-division maze of the configured size) -/
theorem reset_obs_valid (cfg : Cfg) (maze : Jx.Grid Bool) (hr : 0 < cfg.numRows) (hc : 0 < cfg.numCols)
    (hm : MazeGen.isRecursiveDivisionMaze maze cfg.numRows cfg.numCols = true) (htl : 0 ≤ cfg.timeLimit) :
    (obsSpec cfg).valid (toNValue cfg (reset cfg (generate cfg maze)).2.obs) = true := by
  have hcert := (generate_cert cfg maze hr hc hm).1
  have hC := (cert_consistent hcert).1
  have h0 : (reset cfg (generate cfg maze)).1.stepCount = 0 := rfl
  show (obsSpec cfg).valid (toNValue cfg (obsOf (reset cfg (generate cfg maze)).1)) = true
  exact obsOf_valid cfg _ hC (by omega) (by omega)

/-- C01 at `step`: every observation emitted from a consistent state of a running episode, for every in-spec joint
action (legal or not), including the terminal step -/
theorem step_obs_valid (cfg : Cfg) (s : State) (hC : Consistent cfg s) (h0 : 0 ≤ s.stepCount)
    (h1 : s.stepCount < cfg.timeLimit) (action : List Nat) (hl : action.length = s.agents.length)
    (ha : ∀ a ∈ action, a < 4) :
    (obsSpec cfg).valid (toNValue cfg (step cfg s (action.map Int.ofNat)).2.obs) = true := by
  rw [step_obs]
  refine obsOf_valid cfg _ (step_consistent hC action hl ha) ?_ ?_
  · rw [step_count]; omega
  · rw [step_count]; omega

/-! ### `action_spec.generate_value()` -/

theorem actionSpec_WF (cfg : Cfg) : (actionSpec cfg).WF = true := by
  simp [actionSpec, Leaf.WF, Leaf.WF0, Leaf.fitsDType, prod, DType.isInt, DType.fits, DType.intRange]
  right
  decide +kernel

/-- `generate_value()` of the action spec is the all-zero joint action (everybody "up"), a member of the spec, and
`step` answers it in EVERY state with a protocol-conform timestep -/
theorem accepts_generate_value (cfg : Cfg) (s : State) :
    (actionSpec cfg).WF = true ∧ (actionSpec cfg).valid (actionSpec cfg).generate = true ∧
    (actionSpec cfg).generate = ⟨[cfg.numAgents], .int32, List.replicate cfg.numAgents 0⟩ ∧
    StepOK none false (step cfg s (List.replicate cfg.numAgents 0)).2 = true := by
  refine ⟨actionSpec_WF cfg, Leaf.generate_valid _ (actionSpec_WF cfg), ?_, ?_⟩
  · simp [actionSpec, Leaf.generate, Leaf.lower, Leaf.shape, Leaf.dtype]
  · unfold step condLast
    simp only
    split <;> rfl

/-! ### C12: the reset observation -/

/-- the reset observation is the documented function of the reset state when the generator delivers a well-shaped grid
and all agents on the origin (which every generated state does): in particular the mask shown is the mask of the moves
possible in the reset state -/
theorem reset_obs_faithful (cfg : Cfg) (g : State) (hs : Jx.Grid.shaped g.grid cfg.numRows cfg.numCols = true)
    (hag : g.agents = List.replicate cfg.numAgents (0, 0)) :
    (reset cfg g).2.obs = observe cfg (reset cfg g).1 ∧ (reset cfg g).2.stepType = .first := by
  refine ⟨?_, rfl⟩
  show obsOf _ = observe cfg _
  simp only [obsOf, observe, Obs.mk.injEq]
  refine ⟨rfl, rfl, ?_, rfl⟩
  show computeMask cfg g.grid (List.replicate cfg.numAgents (0, 0)) = legalMask cfg g.grid g.agents
  rw [← hag]; exact computeMask_eq hs _

/-! ### C04: the reaction of `step` to each component -/

theorem dest_ne {p : Pos} {a : Nat} (ha : a < 4) : dest p a ≠ p := by
  intro h
  have h1 : (dest p a).1 = p.1 := congrArg Prod.fst h
  have h2 : (dest p a).2 = p.2 := congrArg Prod.snd h
  match a, ha with
  | 0, _ => simp only [dest, dir] at h1; omega
  | 1, _ => simp only [dest, dir] at h2; omega
  | 2, _ => simp only [dest, dir] at h1; omega
  | 3, _ => simp only [dest, dir] at h2; omega

theorem moveSpec_getElem? (cfg : Cfg) (g : Jx.Grid Int) (agents : List Pos) (action : List Nat) (i : Nat) (loc : Pos)
    (a : Nat) (h1 : agents[i]? = some loc) (h2 : action[i]? = some a) :
    (moveSpec cfg g agents action)[i]? = some (if legalAt cfg g loc a then dest loc a else loc) := by
  unfold moveSpec
  rw [List.getElem?_zipWith, h1, h2]

/-- the step function itself treats component `i` as the rules say: agent `i` is moved by `step` exactly when its
action is legal, and frozen where it stands exactly when it is not -/
theorem step_moves_iff_legal {cfg : Cfg} {s : State} (hI : Inv cfg s) (action : List Nat) (ha : ∀ a ∈ action, a < 4)
    (i : Nat) (loc : Pos) (a : Nat) (h1 : s.agents[i]? = some loc) (h2 : action[i]? = some a) :
    ((step cfg s (action.map Int.ofNat)).1.agents[i]? = some (dest loc a) ↔ legal cfg s i a) ∧
    ((step cfg s (action.map Int.ofNat)).1.agents[i]? = some loc ↔ ¬ legal cfg s i a) := by
  have ha4 : a < 4 := ha a (List.mem_of_getElem? h2)
  rw [step_agents hI action ha, moveSpec_getElem? cfg s.grid s.agents action i loc a h1 h2]
  have hl : legal cfg s i a ↔ legalAt cfg s.grid loc a := by unfold legal; rw [h1]
  rw [hl]
  by_cases h : legalAt cfg s.grid loc a
  · rw [if_pos h]
    exact ⟨⟨fun _ => h, fun _ => rfl⟩, ⟨fun e => absurd (Option.some.inj e) (dest_ne ha4), fun hn => absurd h hn⟩⟩
  · rw [if_neg h]
    exact ⟨⟨fun e => absurd (Option.some.inj e).symm (dest_ne ha4), fun hh => absurd hh h⟩, ⟨fun _ => h, fun _ => rfl⟩⟩

/-! ### C07 / C10: whole runs from `reset` -/

/-- whole runs conserve: walls never change, clean tiles stay clean, the number of agents is constant — between the
first and the last state of ANY in-spec run from a consistent state -/
theorem run_conserved {cfg : Cfg} {s : State} (hC : Consistent cfg s) (as : List (List Nat)) (hA : InSpec cfg as) :
    conserved s (runState cfg s (toInt as)) = true := by
  have hrel := run_dirtyRel hC as hA
  have hC' := run_consistent hC as hA
  unfold conserved
  simp only [Bool.and_eq_true, decide_eq_true_eq]
  refine ⟨⟨?_, ?_⟩, ?_⟩
  · rw [hC'.1.2.1, hC.1.2.1]
  · apply map_of_rel (R := DirtyC) ?_ hrel
    intro x y hxy
    rcases hxy with rfl | ⟨hx, hy⟩
    · rfl
    · subst hx; subst hy; decide
  · refine zip_all_of_rel ?_ hrel
    intro x y hxy
    rcases hxy with hxy | ⟨_, hy⟩
    · subst hxy; by_cases hc : y = CLEAN <;> simp [hc]
    · simp [hy]

/-- every state of every in-spec run from the reset state of ANY generator draw is consistent, and the walls are still
the drawn maze -/
theorem consistent_along (cfg : Cfg) (maze : Jx.Grid Bool) (hr : 0 < cfg.numRows) (hc : 0 < cfg.numCols)
    (hm : MazeGen.isRecursiveDivisionMaze maze cfg.numRows cfg.numCols = true) (as : List (List Nat))
    (hA : InSpec cfg as) :
    Consistent cfg (runState cfg (reset cfg (generate cfg maze)).1 (toInt as)) ∧
    conserved (reset cfg (generate cfg maze)).1 (runState cfg (reset cfg (generate cfg maze)).1 (toInt as)) = true ∧
    wallMap (runState cfg (reset cfg (generate cfg maze)).1 (toInt as)).grid = maze := by
  obtain ⟨hcert, hw⟩ := generate_cert cfg maze hr hc hm
  have hC := (cert_consistent hcert).1
  have hcons := run_conserved hC as hA
  refine ⟨run_consistent hC as hA, hcons, ?_⟩
  unfold conserved at hcons
  simp only [Bool.and_eq_true, decide_eq_true_eq] at hcons
  conv => rhs; rw [← hw]
  exact hcons.1.2

/-! ### C08: the generated reset state has exactly one clean tile, so return = objective along whole episodes -/

theorem generate_one_clean (cfg : Cfg) (maze : Jx.Grid Bool) (hr : 0 < cfg.numRows) (hc : 0 < cfg.numCols)
    (hm : MazeGen.isRecursiveDivisionMaze maze cfg.numRows cfg.numCols = true) :
    countTiles CLEAN (reset cfg (generate cfg maze)).1.grid = 1 ∧ (reset cfg (generate cfg maze)).1.stepCount = 0 := by
  refine ⟨?_, rfl⟩
  have hsh : Jx.Grid.shaped maze cfg.numRows cfg.numCols = true := by
    unfold MazeGen.isRecursiveDivisionMaze at hm
    simp only [Bool.and_eq_true] at hm; exact hm.1
  have hlen := Jx.Grid.shaped_length hsh
  have hrow0 := Jx.Grid.shaped_row hsh hr
  show countTiles CLEAN (generate cfg maze).grid = 1
  match maze, hlen, hrow0 with
  | [], hlen, _ => simp at hlen; omega
  | [] :: _, _, hrow0 => simp at hrow0; omega
  | (w00 :: r0) :: rest, _, _ =>
    let f : Bool → Int := fun w => if w then WALL else DIRTY
    have hG : (generate cfg ((w00 :: r0) :: rest)).grid = (CLEAN :: r0.map f) :: rest.map (List.map f) := by
      simp [generate, adaptValues, Jx.Grid.set, Jx.Grid.map, f]
    have hrow : ∀ l : List Bool, (l.map f).filter (fun x => x == CLEAN) = [] := by
      intro l
      rw [List.filter_eq_nil_iff]
      intro x hx
      obtain ⟨w, _, rfl⟩ := List.mem_map.mp hx
      cases w <;> simp [f, WALL, DIRTY, CLEAN]
    have hrest : (List.flatten (rest.map (List.map f))).filter (fun x => x == CLEAN) = [] := by
      rw [List.filter_eq_nil_iff]
      intro x hx
      obtain ⟨row, hrow', hxr⟩ := List.mem_flatten.mp hx
      obtain ⟨l, _, rfl⟩ := List.mem_map.mp hrow'
      obtain ⟨w, _, rfl⟩ := List.mem_map.mp hxr
      cases w <;> simp [f, WALL, DIRTY, CLEAN]
    rw [hG]
    unfold countTiles Jx.Grid.count
    simp only [List.flatten_cons, List.cons_append, List.filter_cons, beq_self_eq_true, if_true, List.filter_append,
      hrow, hrest, List.append_nil, List.length_cons, List.length_nil]

/-- whole episodes from `reset`, any generator draw: the return of ANY list of joint actions is the objective
recomputed from the final state (clean tiles − 1 − penalty · steps) -/
theorem return_from_generated (cfg : Cfg) (maze : Jx.Grid Bool) (hr : 0 < cfg.numRows) (hc : 0 < cfg.numCols)
    (hm : MazeGen.isRecursiveDivisionMaze maze cfg.numRows cfg.numCols = true) (as : List (List Int)) :
    runReturn cfg (reset cfg (generate cfg maze)).1 as
      = objective cfg (runState cfg (reset cfg (generate cfg maze)).1 as) :=
  run_return_from_reset cfg _ as (generate_one_clean cfg maze hr hc hm).2 (generate_one_clean cfg maze hr hc hm).1

/-- every observation of every in-spec run from `reset` (any generator draw) up to the time limit is a member of the
declared spec: the state after `as` (`as.length < time_limit`) emits a member for every further in-spec joint action -/
theorem obs_valid_along (cfg : Cfg) (maze : Jx.Grid Bool) (hr : 0 < cfg.numRows) (hc : 0 < cfg.numCols)
    (hm : MazeGen.isRecursiveDivisionMaze maze cfg.numRows cfg.numCols = true) (as : List (List Nat))
    (hA : InSpec cfg as) (hlen : (as.length : Int) < cfg.timeLimit) (action : List Nat)
    (hl : action.length = cfg.numAgents) (ha : ∀ a ∈ action, a < 4) :
    (obsSpec cfg).valid (toNValue cfg
      (step cfg (runState cfg (reset cfg (generate cfg maze)).1 (toInt as)) (action.map Int.ofNat)).2.obs) = true := by
  have hC := (consistent_along cfg maze hr hc hm as hA).1
  have hcnt := run_stepCount cfg (reset cfg (generate cfg maze)).1 (toInt as)
  have h0 : (reset cfg (generate cfg maze)).1.stepCount = 0 := rfl
  have hlen' : (toInt as).length = as.length := by simp [toInt]
  refine step_obs_valid cfg _ hC ?_ ?_ action (by rw [hl, hC.1.2.1]) ha
  · rw [hcnt, h0, hlen']; omega
  · rw [hcnt, h0, hlen']; omega

end Cleaner
