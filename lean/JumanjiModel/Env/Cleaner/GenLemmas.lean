/-
Cleaner, property C10: what the certificate `resetCert` implies (consistency, connectivity of the free tiles
from the start tile `(0, 0)`, existence of a cleaning walk for the L1 `step`), and that the transliterated
generator `generate` always produces a state that passes the certificate.
-/
import JumanjiModel.Env.Cleaner.Gen
import JumanjiModel.Env.Cleaner.Lemmas
import JumanjiModel.Env.Cleaner.EpisodeLemmas
import JumanjiModel.Env.Cleaner.BoundsLemmas
import JumanjiModel.Env.Maze.FloodLemmas
namespace Cleaner
open Jm

/-! ### the certificate unpacked -/

theorem resetCert_parts {cfg : Cfg} {s : State} (h : resetCert cfg s = true) :
    Jx.Grid.shaped s.grid cfg.numRows cfg.numCols = true ∧
    Jx.Grid.all (fun v => v == DIRTY || v == CLEAN || v == WALL) s.grid = true ∧
    MazeGen.isRecursiveDivisionMaze (wallMap s.grid) cfg.numRows cfg.numCols = true ∧
    s.agents = List.replicate cfg.numAgents (0, 0) ∧
    tile s.grid (0, 0) = CLEAN ∧
    othersDirty cfg s.grid = true ∧
    s.stepCount = 0 ∧
    s.actionMask = legalMask cfg s.grid s.agents := by
  unfold resetCert at h
  simp only [Bool.and_eq_true, decide_eq_true_eq] at h
  obtain ⟨⟨⟨⟨⟨⟨⟨h1, h2⟩, h3⟩, h4⟩, h5⟩, h6⟩, h7⟩, h8⟩ := h
  exact ⟨h1, h2, h3, h4, h5, h6, h7, h8⟩

theorem inGrid_nat {cfg : Cfg} {p : Pos} (hp : inGrid cfg p) :
    ∃ r c : Nat, p = ((r : Int), (c : Int)) ∧ r < cfg.numRows ∧ c < cfg.numCols := by
  obtain ⟨h1, h2, h3, h4⟩ := hp
  exact ⟨p.1.toNat, p.2.toNat, Prod.ext (Int.toNat_of_nonneg h1).symm (Int.toNat_of_nonneg h3).symm,
    by omega, by omega⟩

/-- a cell with non-negative coordinates that does not read as a wall lies inside a well-shaped grid -/
theorem inGrid_of_tile {cfg : Cfg} {g : Jx.Grid Int} (hs : Jx.Grid.shaped g cfg.numRows cfg.numCols = true)
    {p : Pos} (h1 : 0 ≤ p.1) (h2 : 0 ≤ p.2) (ht : tile g p ≠ WALL) : inGrid cfg p := by
  unfold tile Jx.Grid.get at ht
  have hl := Jx.Grid.shaped_length hs
  by_cases hr : p.1.toNat < cfg.numRows
  · have hrow := Jx.Grid.shaped_row hs hr
    by_cases hc : p.2.toNat < cfg.numCols
    · exact ⟨h1, by omega, h2, by omega⟩
    · exfalso; apply ht
      rw [List.getD_eq_getElem?_getD (l := List.getD g p.1.toNat []), List.getElem?_eq_none (by omega)]; rfl
  · exfalso; apply ht
    have : List.getD g p.1.toNat [] = [] := by
      rw [List.getD_eq_getElem?_getD, List.getElem?_eq_none (by omega)]; rfl
    rw [this]; rfl

theorem othersDirty_spec {cfg : Cfg} {g : Jx.Grid Int} (h : othersDirty cfg g = true) {p : Pos}
    (hp : inGrid cfg p) (hne : p ≠ (0, 0)) : tile g p = DIRTY ∨ tile g p = WALL := by
  obtain ⟨r, c, rfl, hr, hc⟩ := inGrid_nat hp
  unfold othersDirty at h
  rw [List.all_eq_true] at h
  have := h (r, c) ((MazeGen.mem_coords _ _ r c).2 ⟨hr, hc⟩)
  simp only [Bool.or_eq_true, Bool.and_eq_true, beq_iff_eq] at this
  rcases this with (⟨h1, h2⟩ | h1) | h1
  · exact absurd (by rw [h1, h2]; rfl) hne
  · exact Or.inl h1
  · exact Or.inr h1

/-- the certificate implies the state is consistent (in particular the stored mask is the rules' mask) and the
grid has at least one row and one column -/
theorem cert_consistent {cfg : Cfg} {s : State} (h : resetCert cfg s = true) :
    Consistent cfg s ∧ inGrid cfg (0, 0) := by
  obtain ⟨h1, h2, _, h4, h5, _, _, h8⟩ := resetCert_parts h
  have h00 : inGrid cfg (0, 0) :=
    inGrid_of_tile h1 (Int.le_refl _) (Int.le_refl _) (by rw [h5]; decide)
  refine ⟨⟨⟨h1, by rw [h4, List.length_replicate], h8⟩, h2, ?_⟩, h00⟩
  intro p hp
  rw [h4] at hp
  have := (List.mem_replicate.1 hp).2
  subst this
  exact ⟨h00, h5⟩

/-! ### free tiles of the Cleaner grid = free cells of its wall map -/

theorem wall_wallMap (g : Jx.Grid Int) (x y : Nat) :
    MazeGen.wall (wallMap g) x y = decide (tile g ((y : Int), (x : Int)) = WALL) := by
  unfold MazeGen.wall wallMap tile Jx.Grid.get Jx.Grid.map
  simp only [Int.toNat_natCast, List.getD_eq_getElem?_getD, List.getElem?_map]
  cases g[y]? with
  | none => simp
  | some row =>
    simp only [Option.map_some, Option.getD_some, List.getElem?_map]
    have aux : ∀ o : Option Int, (Option.map (fun v => decide (v = WALL)) o).getD true
        = decide (o.getD WALL = WALL) := by
      intro o; cases o <;> simp
    exact aux _

/-- a cell `(x, y)` = (column, row) of `MazeGen` as a Cleaner position `(row, col)` -/
def ofCell (c : MazeGen.Cell) : Pos := ((c.2 : Int), (c.1 : Int))

theorem ok_iff_free (cfg : Cfg) (g : Jx.Grid Int) (c : MazeGen.Cell) :
    MazeGen.Ok (wallMap g) 0 0 cfg.numCols cfg.numRows c ↔ free cfg g (ofCell c) := by
  unfold MazeGen.Ok MazeGen.InCh free inGrid ofCell
  rw [wall_wallMap]
  simp only [decide_eq_false_iff_not]
  constructor
  · rintro ⟨⟨_, h2, _, h4⟩, h5⟩
    exact ⟨⟨by omega, by omega, by omega, by omega⟩, h5⟩
  · rintro ⟨⟨_, h2, _, h4⟩, h5⟩
    exact ⟨⟨by omega, by omega, by omega, by omega⟩, h5⟩

/-- `q` can be reached from `p` by moves up/right/down/left through positions satisfying `ok` -/
inductive Reach (ok : Pos → Prop) : Pos → Pos → Prop
  | refl (p : Pos) : Reach ok p p
  | tail {p q : Pos} (a : Nat) : Reach ok p q → a < 4 → ok (dest q a) → Reach ok p (dest q a)

theorem Reach.ok_end {ok : Pos → Prop} {p q : Pos} (hp : ok p) (h : Reach ok p q) : ok q := by
  cases h with
  | refl => exact hp
  | tail _ _ _ ho => exact ho

theorem adj_dest {p q : MazeGen.Cell} (h : MazeGen.Adj p q) : ∃ a, a < 4 ∧ ofCell q = dest (ofCell p) a := by
  obtain ⟨px, py⟩ := p
  obtain ⟨qx, qy⟩ := q
  unfold MazeGen.Adj at h
  simp only [] at h
  unfold ofCell dest
  rcases h with ⟨h1, h2 | h2⟩ | ⟨h1, h2 | h2⟩
  · exact ⟨2, by omega, Prod.ext (by simp [dir]; omega) (by simp [dir]; omega)⟩
  · exact ⟨0, by omega, Prod.ext (by simp [dir]; omega) (by simp [dir]; omega)⟩
  · exact ⟨1, by omega, Prod.ext (by simp [dir]; omega) (by simp [dir]; omega)⟩
  · exact ⟨3, by omega, Prod.ext (by simp [dir]; omega) (by simp [dir]; omega)⟩

theorem reach_of_maze {cfg : Cfg} {g : Jx.Grid Int} {p q : MazeGen.Cell}
    (h : MazeGen.Reach (MazeGen.Ok (wallMap g) 0 0 cfg.numCols cfg.numRows) p q) :
    Reach (free cfg g) (ofCell p) (ofCell q) := by
  induction h with
  | refl => exact Reach.refl _
  | tail _ ha ho ih =>
    obtain ⟨a, ha4, he⟩ := adj_dest ha
    have hf := (ok_iff_free cfg g _).1 ho
    rw [he] at hf ⊢
    exact Reach.tail a ih ha4 hf

/-- the free tiles of a certified reset state are mutually reachable -/
theorem conn_of_cert {cfg : Cfg} {s : State} (h : resetCert cfg s = true) :
    ∀ x y, free cfg s.grid x → free cfg s.grid y → Reach (free cfg s.grid) x y := by
  obtain ⟨_, _, h3, _⟩ := resetCert_parts h
  have hc := (MazeGen.connected_of_cert _ _ _ h3).1
  intro x y hx hy
  obtain ⟨rx, cx, rfl, _, _⟩ := inGrid_nat hx.1
  obtain ⟨ry, cy, rfl, _, _⟩ := inGrid_nat hy.1
  exact reach_of_maze (p := (cx, rx)) (q := (cy, ry))
    (hc (cx, rx) (cy, ry) ((ok_iff_free cfg s.grid (cx, rx)).2 hx) ((ok_iff_free cfg s.grid (cy, ry)).2 hy))

theorem origin_free_of_cert {cfg : Cfg} {s : State} (h : resetCert cfg s = true) : free cfg s.grid (0, 0) := by
  obtain ⟨_, _, _, _, h5, _⟩ := resetCert_parts h
  exact ⟨(cert_consistent h).2, by rw [h5]; decide⟩

/-- C10: every free tile (in particular every dirty tile) is 4-connected to the start tile `(0, 0)` -/
theorem connected_of_cert {cfg : Cfg} {s : State} (h : resetCert cfg s = true) :
    ∀ q, free cfg s.grid q → Reach (free cfg s.grid) (0, 0) q :=
  fun q hq => conn_of_cert h (0, 0) q (origin_free_of_cert h) hq

/-! ### walking: one step of the pack of agents along an edge of the free-cell graph -/

/-- all agents stand on `p` in a consistent state -/
def Pack (cfg : Cfg) (s : State) (p : Pos) : Prop := Consistent cfg s ∧ s.agents = List.replicate cfg.numAgents p

/-- tile by tile, `g'` is `g` with some non-wall tiles cleaned -/
def TileExt (cfg : Cfg) (g g' : Jx.Grid Int) : Prop :=
  ∀ x, inGrid cfg x → tile g' x = tile g x ∨ (tile g x ≠ WALL ∧ tile g' x = CLEAN)

theorem TileExt.refl (cfg : Cfg) (g : Jx.Grid Int) : TileExt cfg g g := fun _ _ => Or.inl rfl

theorem TileExt.trans {cfg : Cfg} {g1 g2 g3 : Jx.Grid Int} (h1 : TileExt cfg g1 g2) (h2 : TileExt cfg g2 g3) :
    TileExt cfg g1 g3 := by
  intro x hx
  rcases h1 x hx with a | ⟨a1, a2⟩ <;> rcases h2 x hx with b | ⟨b1, b2⟩
  · left; rw [b, a]
  · right; exact ⟨by rw [← a]; exact b1, b2⟩
  · right; exact ⟨a1, by rw [b, a2]⟩
  · right; exact ⟨a1, b2⟩

theorem TileExt.free {cfg : Cfg} {g g' : Jx.Grid Int} (h : TileExt cfg g g') {x : Pos} (hx : free cfg g x) :
    free cfg g' x := by
  refine ⟨hx.1, ?_⟩
  rcases h x hx.1 with a | ⟨_, a⟩
  · rw [a]; exact hx.2
  · rw [a]; decide

theorem TileExt.clean {cfg : Cfg} {g g' : Jx.Grid Int} (h : TileExt cfg g g') {x : Pos} (hx : inGrid cfg x)
    (hc : tile g x = CLEAN) : tile g' x = CLEAN := by
  rcases h x hx with a | ⟨_, a⟩
  · rw [a]; exact hc
  · exact a

theorem TileExt.wall {cfg : Cfg} {g g' : Jx.Grid Int} (h : TileExt cfg g g') {x : Pos} (hx : inGrid cfg x)
    (hc : tile g x = WALL) : tile g' x = WALL := by
  rcases h x hx with a | ⟨a, _⟩
  · rw [a]; exact hc
  · exact absurd hc a

theorem pack_clean {cfg : Cfg} {s : State} {p : Pos} (hP : Pack cfg s p) (hn : 0 < cfg.numAgents) :
    inGrid cfg p ∧ tile s.grid p = CLEAN :=
  hP.1.2.2 p (by rw [hP.2]; exact List.mem_replicate.2 ⟨by omega, rfl⟩)

/-- the whole pack plays `a` (legal at `p`): nobody is invalid, the pack arrives on `dest p a`, the destination
is cleaned and nothing else changes -/
theorem pack_step {cfg : Cfg} {s : State} {p : Pos} (hP : Pack cfg s p) {a : Nat}
    (hl : legalAt cfg s.grid p a) :
    (∀ b ∈ legalJoint cfg s (List.replicate cfg.numAgents a), b = true) ∧
    Pack cfg (step cfg s ((List.replicate cfg.numAgents a).map Int.ofNat)).1 (dest p a) ∧
    TileExt cfg s.grid (step cfg s ((List.replicate cfg.numAgents a).map Int.ofNat)).1.grid := by
  obtain ⟨hC, hag⟩ := hP
  have ha : ∀ x ∈ List.replicate cfg.numAgents a, x < 4 := by
    intro x hx; rw [(List.mem_replicate.1 hx).2]; exact hl.1
  have hlen : (List.replicate cfg.numAgents a).length = s.agents.length := by
    rw [hag]; simp
  have hmv : moveSpec cfg s.grid s.agents (List.replicate cfg.numAgents a)
      = List.replicate cfg.numAgents (dest p a) := by
    unfold moveSpec
    rw [hag, List.zipWith_replicate]
    simp [hl]
  refine ⟨?_, ⟨step_consistent hC _ hlen ha, ?_⟩, ?_⟩
  · intro b hb
    unfold legalJoint at hb
    rw [hag, List.zipWith_replicate] at hb
    rw [(List.mem_replicate.1 hb).2]
    simp [hl]
  · rw [step_agents hC.1 _ ha, hmv]
  · intro x hx
    rw [step_grid_spec hC _ ha, tile_cleanSpec hC.1.1 _ hx, hmv]
    by_cases hm : x ∈ List.replicate cfg.numAgents (dest p a)
    · right
      rw [if_pos hm, (List.mem_replicate.1 hm).2]
      exact ⟨hl.2.2, rfl⟩
    · left; rw [if_neg hm]

/-! ### runs -/

theorem runState_append (cfg : Cfg) (s : State) (xs ys : List (List Int)) :
    runState cfg s (xs ++ ys) = runState cfg (runState cfg s xs) ys := by
  induction xs generalizing s with
  | nil => rfl
  | cons x xs ih => simp only [List.cons_append, runState]; exact ih _

theorem toInt_append (as bs : List (List Nat)) : toInt (as ++ bs) = toInt as ++ toInt bs := by
  unfold toInt; exact List.map_append

theorem allLegal_append (cfg : Cfg) (s : State) (as bs : List (List Nat)) (h1 : AllLegal cfg s as)
    (h2 : AllLegal cfg (runState cfg s (toInt as)) bs) : AllLegal cfg s (as ++ bs) := by
  induction as generalizing s with
  | nil => exact h2
  | cons a as ih =>
    simp only [List.cons_append, AllLegal]
    exact ⟨h1.1, ih _ h1.2 h2⟩

theorem inSpec_append {cfg : Cfg} {as bs : List (List Nat)} (h1 : InSpec cfg as) (h2 : InSpec cfg bs) :
    InSpec cfg (as ++ bs) := by
  intro a ha
  rcases List.mem_append.1 ha with h | h
  · exact h1 a h
  · exact h2 a h

/-- the pack can walk along any path of the free-cell graph: all moves legal, every visited tile cleaned,
nothing else touched -/
theorem walk {cfg : Cfg} {ok : Pos → Prop} {p q : Pos} (s : State) (hP : Pack cfg s p)
    (hok : ∀ x, ok x → free cfg s.grid x) (hr : Reach ok p q) :
    ∃ as : List (List Nat), InSpec cfg as ∧ AllLegal cfg s as ∧ Pack cfg (runState cfg s (toInt as)) q ∧
      TileExt cfg s.grid (runState cfg s (toInt as)).grid := by
  induction hr with
  | refl => exact ⟨[], fun _ h => absurd h (by simp), trivial, hP, TileExt.refl _ _⟩
  | @tail q a _ ha ho ih =>
    obtain ⟨as, h1, h2, h3, h4⟩ := ih
    have hl : legalAt cfg (runState cfg s (toInt as)).grid q a := ⟨ha, h4.free (hok _ ho)⟩
    obtain ⟨k1, k2, k3⟩ := pack_step h3 hl
    refine ⟨as ++ [List.replicate cfg.numAgents a], inSpec_append h1 ?_, allLegal_append cfg s as _ h2 ⟨k1, trivial⟩,
      ?_, ?_⟩
    · intro b hb
      rw [List.mem_singleton.1 hb]
      exact ⟨by simp, fun x hx => by rw [(List.mem_replicate.1 hx).2]; exact ha⟩
    · rw [toInt_append, runState_append]; exact k2
    · rw [toInt_append, runState_append]; exact h4.trans k3

/-- in a connected free-cell graph the pack can clean any list of tiles -/
theorem clean_list {cfg : Cfg} (hn : 0 < cfg.numAgents) {ok : Pos → Prop}
    (hconn : ∀ x y, ok x → ok y → Reach ok x y) (L : List Pos) (s : State) (p : Pos) (hP : Pack cfg s p)
    (hp : ok p) (hok : ∀ x, ok x → free cfg s.grid x) :
    ∃ (as : List (List Nat)) (p' : Pos), InSpec cfg as ∧ AllLegal cfg s as ∧
      Pack cfg (runState cfg s (toInt as)) p' ∧ ok p' ∧ TileExt cfg s.grid (runState cfg s (toInt as)).grid ∧
      ∀ x ∈ L, ok x → tile (runState cfg s (toInt as)).grid x = CLEAN := by
  induction L with
  | nil => exact ⟨[], p, fun _ h => absurd h (by simp), trivial, hP, hp, TileExt.refl _ _, fun _ h => absurd h (by simp)⟩
  | cons x L ih =>
    obtain ⟨as1, p1, a1, a2, a3, a4, a5, a6⟩ := ih
    by_cases hx : ok x
    · obtain ⟨as2, b1, b2, b3, b4⟩ := walk (runState cfg s (toInt as1)) a3 (fun y hy => a5.free (hok y hy))
        (hconn p1 x a4 hx)
      refine ⟨as1 ++ as2, x, inSpec_append a1 b1, allLegal_append cfg s as1 as2 a2 b2, ?_, hx, ?_, ?_⟩
      · rw [toInt_append, runState_append]; exact b3
      · rw [toInt_append, runState_append]; exact a5.trans b4
      · intro y hy hoy
        rw [toInt_append, runState_append]
        rcases List.mem_cons.1 hy with rfl | hy
        · exact (pack_clean b3 hn).2
        · exact b4.clean (hok y hoy).1 (a6 y hy hoy)
    · refine ⟨as1, p1, a1, a2, a3, a4, a5, ?_⟩
      intro y hy hoy
      rcases List.mem_cons.1 hy with rfl | hy
      · exact absurd hoy hx
      · exact a6 y hy hoy

/-- no cell of a well-shaped grid reads DIRTY: the DIRTY count is zero -/
theorem countTiles_dirty_zero {cfg : Cfg} {g : Jx.Grid Int} (hs : Jx.Grid.shaped g cfg.numRows cfg.numCols = true)
    (h : ∀ x, inGrid cfg x → tile g x ≠ DIRTY) : countTiles DIRTY g = 0 := by
  unfold countTiles Jx.Grid.count
  rw [List.length_eq_zero_iff, List.filter_eq_nil_iff]
  intro v hv
  obtain ⟨row, hrow, hvr⟩ := List.mem_flatten.1 hv
  obtain ⟨r, hr⟩ := List.getElem?_of_mem hrow
  obtain ⟨c, hc⟩ := List.getElem?_of_mem hvr
  have ht := tile_of_cell hr hc
  have hl := Jx.Grid.shaped_length hs
  have hrl : r < g.length := (List.getElem?_eq_some_iff.1 hr).1
  have hcl : c < row.length := (List.getElem?_eq_some_iff.1 hc).1
  have hrow' := Jx.Grid.shaped_row hs (r := r) (by omega)
  rw [List.getD_eq_getElem?_getD, hr] at hrow'
  simp only [Option.getD_some] at hrow'
  have hin : inGrid cfg ((r : Int), (c : Int)) := ⟨by omega, by omega, by omega, by omega⟩
  have := h _ hin
  rw [ht] at this
  simpa using this

/-- C10: from a certified reset state there is a sequence of joint actions (the agents moving together; for
one agent: a plain action sequence), every component legal where it is played, after which no dirty tile is
left -/
theorem all_cleanable {cfg : Cfg} {s : State} (h : resetCert cfg s = true) (hn : 0 < cfg.numAgents) :
    ∃ as : List (List Nat), InSpec cfg as ∧ AllLegal cfg s as ∧
      countTiles DIRTY (runState cfg s (toInt as)).grid = 0 := by
  obtain ⟨hC, h00⟩ := cert_consistent h
  obtain ⟨_, _, _, h4, _⟩ := resetCert_parts h
  let L : List Pos := (Jx.Grid.coords cfg.numRows cfg.numCols).map (fun p => ((p.1 : Int), (p.2 : Int)))
  obtain ⟨as, p', a1, a2, a3, _, a5, a6⟩ :=
    clean_list hn (ok := free cfg s.grid) (conn_of_cert h) L s (0, 0) ⟨hC, h4⟩ (origin_free_of_cert h)
      (fun _ hx => hx)
  refine ⟨as, a1, a2, countTiles_dirty_zero a3.1.1.1 ?_⟩
  intro x hx
  obtain ⟨r, c, rfl, hr, hc⟩ := inGrid_nat hx
  by_cases hf : tile s.grid ((r : Int), (c : Int)) = WALL
  · rw [a5.wall hx hf]; decide
  · have hmem : ((r : Int), (c : Int)) ∈ L :=
      List.mem_map.2 ⟨(r, c), (MazeGen.mem_coords _ _ r c).2 ⟨hr, hc⟩, rfl⟩
    rw [a6 _ hmem ⟨hx, hf⟩]; decide


/-! ### the transliterated generator always passes the certificate -/

theorem adapt_getD (l : List Bool) (i : Nat) :
    (l.map (fun w => if w then WALL else DIRTY)).getD i WALL = DIRTY ∨
    (l.map (fun w => if w then WALL else DIRTY)).getD i WALL = WALL := by
  rw [List.getD_eq_getElem?_getD, List.getElem?_map]
  cases l[i]? with
  | none => right; rfl
  | some w => cases w <;> simp

/-- C10: for EVERY maze the shared generator can draw (any wall map that is a recursive-division maze of the
configured size, at least one row and one column), the reset state built by `generate` and `reset` passes the
certificate; and its wall map is the maze that was drawn -/
theorem generate_cert (cfg : Cfg) (maze : Jx.Grid Bool) (hr : 0 < cfg.numRows) (hc : 0 < cfg.numCols)
    (hm : MazeGen.isRecursiveDivisionMaze maze cfg.numRows cfg.numCols = true) :
    resetCert cfg (reset cfg (generate cfg maze)).1 = true ∧
    wallMap (reset cfg (generate cfg maze)).1.grid = maze := by
  have h00 := (MazeGen.connected_of_cert maze _ _ hm).2 0 0 hc hr rfl rfl
  have hsh : Jx.Grid.shaped maze cfg.numRows cfg.numCols = true := by
    unfold MazeGen.isRecursiveDivisionMaze at hm
    simp only [Bool.and_eq_true] at hm; exact hm.1
  have hlen := Jx.Grid.shaped_length hsh
  have hrow0 := Jx.Grid.shaped_row hsh hr
  match maze, hm, h00, hsh, hlen, hrow0 with
  | [], _, _, _, hlen, _ => simp at hlen; omega
  | [] :: _, _, _, _, _, hrow0 => simp at hrow0; omega
  | (w00 :: r0) :: rest, hm, h00, hsh, _, _ =>
    have hw : w00 = false := by simpa [MazeGen.wall, Jx.Grid.get] using h00
    subst hw
    let f : Bool → Int := fun w => if w then WALL else DIRTY
    have hG : (generate cfg ((false :: r0) :: rest)).grid = (CLEAN :: r0.map f) :: rest.map (List.map f) := by
      simp [generate, adaptValues, Jx.Grid.set, Jx.Grid.map, f]
    have hdf : (fun v => decide (v = WALL)) ∘ f = id := by
      funext w; cases w <;> simp [f, WALL, DIRTY]
    have hW : wallMap ((CLEAN :: r0.map f) :: rest.map (List.map f)) = (false :: r0) :: rest := by
      have hrowmap : ∀ row : List Bool, List.map (fun v => decide (v = WALL)) (List.map f row) = row := by
        intro row; rw [List.map_map, hdf, List.map_id]
      have hcomp : (List.map (fun v => decide (v = WALL)) ∘ List.map f) = id := by
        funext row; exact hrowmap row
      unfold wallMap Jx.Grid.map
      rw [List.map_cons, List.map_cons, hrowmap, List.map_map, hcomp, List.map_id]
      simp [CLEAN, WALL]
    have hshG : Jx.Grid.shaped ((CLEAN :: r0.map f) :: rest.map (List.map f)) cfg.numRows cfg.numCols = true := by
      unfold Jx.Grid.shaped at hsh ⊢
      simpa using hsh
    have hgrid : (reset cfg (generate cfg ((false :: r0) :: rest))).1.grid
        = (CLEAN :: r0.map f) :: rest.map (List.map f) := hG
    have hag : (reset cfg (generate cfg ((false :: r0) :: rest))).1.agents = List.replicate cfg.numAgents (0, 0) := rfl
    have hmask : (reset cfg (generate cfg ((false :: r0) :: rest))).1.actionMask
        = computeMask cfg (generate cfg ((false :: r0) :: rest)).grid (List.replicate cfg.numAgents (0, 0)) := rfl
    refine ⟨?_, by rw [hgrid, hW]⟩
    unfold resetCert
    rw [hmask, hag, hgrid, hG, hW, hm, hshG, computeMask_eq hshG]
    simp only [Bool.true_and, Bool.and_true, decide_true, Bool.and_eq_true, decide_eq_true_eq]
    refine ⟨⟨⟨?_, ?_⟩, ?_⟩, rfl⟩
    · -- tile values
      simp only [Jx.Grid.all, List.all_cons, List.all_map, Bool.and_eq_true, List.all_eq_true]
      refine ⟨⟨by decide, ?_⟩, ?_⟩
      · intro w _; cases w <;> decide
      · intro row _
        simp only [Function.comp, List.all_map, List.all_eq_true]
        intro w _; cases w <;> decide
    · -- origin clean
      simp [tile, Jx.Grid.get]
    · -- the other cells
      unfold othersDirty
      rw [List.all_eq_true]
      rintro ⟨r, c⟩ _
      simp only [Bool.or_eq_true, Bool.and_eq_true, beq_iff_eq]
      unfold tile Jx.Grid.get
      simp only [Int.toNat_natCast]
      cases r with
      | zero =>
        cases c with
        | zero => left; left; exact ⟨rfl, rfl⟩
        | succ c =>
          rcases adapt_getD r0 c with h | h
          · left; right; simpa using h
          · right; simpa using h
      | succ r =>
        simp only [List.getD_cons_succ]
        rw [List.getD_eq_getElem?_getD (l := rest.map (List.map f)), List.getElem?_map]
        cases rest[r]? with
        | none => right; rfl
        | some row =>
          rcases adapt_getD row c with h | h
          · left; right; simpa using h
          · right; simpa using h

end Cleaner
