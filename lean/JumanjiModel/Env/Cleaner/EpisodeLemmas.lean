/-
Whole-episode statements for Cleaner (C08): the return of ANY sequence of joint actions played from ANY state
is (tiles cleaned along the run) − penalty · (number of steps).  Helper lemmas + the real proofs; the thin
property theorems are in Props/Env/Cleaner.lean.
-/
import JumanjiModel.Env.Cleaner.Lemmas
namespace Cleaner
open Jm

/-- state after playing the joint actions `as` from `s` (the run is NOT cut at LAST: the statements below hold
for every action list, hence also for every prefix that is one episode) -/
def runState (cfg : Cfg) (s : State) : List (List Int) → State
  | [] => s
  | a :: as => runState cfg (step cfg s a).1 as

/-- sum of the rewards of playing `as` from `s` -/
def runReturn (cfg : Cfg) (s : State) : List (List Int) → Rat
  | [] => 0
  | a :: as => (step cfg s a).2.reward.sum + runReturn cfg (step cfg s a).1 as

/-- return = potential(final) − potential(initial); any state, any list of joint actions -/
theorem run_return_potential (cfg : Cfg) (s : State) (as : List (List Int)) :
    runReturn cfg s as = potential cfg (runState cfg s as) - potential cfg s := by
  induction as generalizing s with
  | nil => simp only [runReturn, runState]; grind
  | cons a as ih =>
    simp only [runReturn, runState]
    rw [ih (step cfg s a).1, reward_telescopes cfg s a]
    grind

/-- return = objective(final) − objective(initial) -/
theorem run_return_objective (cfg : Cfg) (s : State) (as : List (List Int)) :
    runReturn cfg s as = objective cfg (runState cfg s as) - objective cfg s := by
  rw [run_return_potential]
  unfold objective potential; grind

theorem run_stepCount (cfg : Cfg) (s : State) (as : List (List Int)) :
    (runState cfg s as).stepCount = s.stepCount + (as.length : Int) := by
  induction as generalizing s with
  | nil => simp [runState]
  | cons a as ih =>
    simp only [runState, List.length_cons]
    rw [ih (step cfg s a).1, step_count]
    omega

/-- "tiles cleaned − penalty · steps": clean tiles at the end − clean tiles at the start − penalty · steps -/
theorem run_return_explicit (cfg : Cfg) (s : State) (as : List (List Int)) :
    runReturn cfg s as
      = ((countTiles CLEAN (runState cfg s as).grid : Nat) : Rat) - ((countTiles CLEAN s.grid : Nat) : Rat)
          - cfg.penalty * (as.length : Rat) := by
  rw [run_return_potential]
  unfold potential
  rw [run_stepCount, Rat.intCast_add]
  have : (((as.length : Nat) : Int) : Rat) = ((as.length : Nat) : Rat) := rfl
  rw [this]
  generalize ((countTiles CLEAN (runState cfg s as).grid : Nat) : Rat) = A
  generalize ((countTiles CLEAN s.grid : Nat) : Rat) = B
  generalize ((s.stepCount : Int) : Rat) = C
  generalize ((as.length : Nat) : Rat) = L
  generalize cfg.penalty = P
  grind

/-- along any run every cell is unchanged or turned from non-CLEAN to CLEAN -/
theorem run_mono (cfg : Cfg) (s : State) (as : List (List Int)) : Mono s.grid (runState cfg s as).grid := by
  induction as generalizing s with
  | nil => exact Mono.refl _
  | cons a as ih =>
    simp only [runState]
    exact Mono.trans (mono_cleanTiles s.grid _) (ih (step cfg s a).1)

/-- clean tiles at the end = clean tiles at the start + number of cells that changed -/
theorem run_clean_count (cfg : Cfg) (s : State) (as : List (List Int)) :
    countTiles CLEAN (runState cfg s as).grid
      = countTiles CLEAN s.grid + countDiff s.grid (runState cfg s as).grid :=
  count_mono (run_mono cfg s as)

/-- clean tiles never decrease along a run -/
theorem run_clean_le (cfg : Cfg) (s : State) (as : List (List Int)) :
    countTiles CLEAN s.grid ≤ countTiles CLEAN (runState cfg s as).grid := by
  rw [run_clean_count]; omega

/-- return = (number of cells whose value differs between the first and the last grid) − penalty · steps; by
`run_mono` these are exactly the cells that were not CLEAN at the start and are CLEAN at the end -/
theorem run_return_cleaned (cfg : Cfg) (s : State) (as : List (List Int)) :
    runReturn cfg s as
      = ((countDiff s.grid (runState cfg s as).grid : Nat) : Rat) - cfg.penalty * (as.length : Rat) := by
  rw [run_return_explicit, run_clean_count, Rat.natCast_add]
  generalize ((countTiles CLEAN s.grid : Nat) : Rat) = B
  generalize ((countDiff s.grid (runState cfg s as).grid : Nat) : Rat) = D
  grind

/-- from a freshly generated state (step counter 0, only the start tile clean) the return of any run is the
objective recomputed from the final state -/
theorem run_return_from_reset (cfg : Cfg) (s : State) (as : List (List Int)) (h0 : s.stepCount = 0)
    (h1 : countTiles CLEAN s.grid = 1) : runReturn cfg s as = objective cfg (runState cfg s as) := by
  rw [run_return_objective]
  have : objective cfg s = 0 := by
    unfold objective; rw [h0, h1]
    have e1 : ((1 : Nat) : Rat) = 1 := rfl
    have e2 : ((0 : Int) : Rat) = 0 := rfl
    rw [e1, e2]; grind
  rw [this]; grind

/-! ### the cleaned tiles as the decrease of the DIRTY count (in-spec runs from a consistent state) -/

theorem DirtyC.refl (x : Int) : DirtyC x x := Or.inl rfl
theorem DirtyC.trans (x y z : Int) (h1 : DirtyC x y) (h2 : DirtyC y z) : DirtyC x z := by
  unfold DirtyC at *
  rcases h1 with h1 | h1 <;> rcases h2 with h2 | h2
  · left; rw [h2, h1]
  · right; rw [← h1]; exact h2
  · right; rw [h2]; exact h1
  · right; exact ⟨h1.1, h2.2⟩

/-- in-spec joint actions: one component in `0..3` per agent -/
def InSpec (cfg : Cfg) (as : List (List Nat)) : Prop :=
  ∀ a ∈ as, a.length = cfg.numAgents ∧ ∀ x ∈ a, x < 4
instance (cfg : Cfg) (as : List (List Nat)) : Decidable (InSpec cfg as) := by unfold InSpec; infer_instance

/-- the actions as the implementation receives them -/
def toInt (as : List (List Nat)) : List (List Int) := as.map (fun a => a.map Int.ofNat)

theorem run_consistent {cfg : Cfg} {s : State} (hC : Consistent cfg s) (as : List (List Nat))
    (hA : InSpec cfg as) : Consistent cfg (runState cfg s (toInt as)) := by
  induction as generalizing s with
  | nil => exact hC
  | cons a as ih =>
    simp only [toInt, List.map_cons, runState]
    have ha := hA a (by simp)
    exact ih (step_consistent hC a (by rw [ha.1, hC.1.2.1]) ha.2) (fun b hb => hA b (by simp [hb]))

theorem run_dirtyRel {cfg : Cfg} {s : State} (hC : Consistent cfg s) (as : List (List Nat))
    (hA : InSpec cfg as) : Rel2 (Rel2 DirtyC) s.grid (runState cfg s (toInt as)).grid := by
  induction as generalizing s with
  | nil => exact Rel2.refl (Rel2.refl DirtyC.refl) _
  | cons a as ih =>
    simp only [toInt, List.map_cons, runState]
    have ha := hA a (by simp)
    have h1 := step_dirtyRel hC a ha.2
    have h2 := ih (step_consistent hC a (by rw [ha.1, hC.1.2.1]) ha.2) (fun b hb => hA b (by simp [hb]))
    exact Rel2.trans (R := Rel2 DirtyC) (fun _ _ _ p q => Rel2.trans DirtyC.trans p q) h1 h2

/-- dirty tiles at the start = dirty tiles at the end + cells that changed -/
theorem run_dirty_count {cfg : Cfg} {s : State} (hC : Consistent cfg s) (as : List (List Nat))
    (hA : InSpec cfg as) :
    countTiles DIRTY s.grid
      = countTiles DIRTY (runState cfg s (toInt as)).grid + countDiff s.grid (runState cfg s (toInt as)).grid :=
  count_dirty (run_dirtyRel hC as hA)

/-- return = (dirty tiles at the start − dirty tiles at the end) − penalty · steps, the subtraction being a
genuine one (`countTiles DIRTY final ≤ countTiles DIRTY initial`) -/
theorem run_return_dirty {cfg : Cfg} {s : State} (hC : Consistent cfg s) (as : List (List Nat))
    (hA : InSpec cfg as) :
    countTiles DIRTY (runState cfg s (toInt as)).grid ≤ countTiles DIRTY s.grid ∧
    runReturn cfg s (toInt as)
      = ((countTiles DIRTY s.grid - countTiles DIRTY (runState cfg s (toInt as)).grid : Nat) : Rat)
          - cfg.penalty * (as.length : Rat) := by
  have h := run_dirty_count hC as hA
  refine ⟨by omega, ?_⟩
  rw [run_return_cleaned]
  have e : countTiles DIRTY s.grid - countTiles DIRTY (runState cfg s (toInt as)).grid
      = countDiff s.grid (runState cfg s (toInt as)).grid := by omega
  rw [e]
  simp [toInt]

end Cleaner
