/-
Proofs about the Cleaner model (helper lemmas + the real proofs; the thin property theorems are in
Props/Env/Cleaner.lean).
-/
import JumanjiModel.Env.Cleaner.Model
import JumanjiModel.Prim.Lemmas
import JumanjiModel.Env.Maze.GridLemmas
namespace Cleaner
open Jm

/-! ### lookups -/

theorem getD_irrel {α} (xs : List α) (d d' : α) {c : Nat} (h : c < xs.length) : xs.getD c d = xs.getD c d' := by
  simp [List.getD_eq_getElem?_getD, List.getElem?_eq_getElem h]

/-- on a cell of a well-shaped grid the traced gather is the plain `tile` lookup -/
theorem getWC_eq_tile {cfg : Cfg} {g : Jx.Grid Int} (h : Jx.Grid.shaped g cfg.numRows cfg.numCols = true)
    {y x : Int} (hy0 : 0 ≤ y) (hy : y < (cfg.numRows : Int)) (hx0 : 0 ≤ x) (hx : x < (cfg.numCols : Int)) :
    Jx.Grid.getWC g 0 y x = tile g (y, x) := by
  rw [Jx.Grid.getWC_eq_get h 0 hy0 hy hx0 hx]
  unfold tile Jx.Grid.get
  have hrow := Jx.Grid.shaped_row h (r := y.toNat) (by omega)
  exact getD_irrel _ _ _ (by omega)

theorem isMoveValid_eq {cfg : Cfg} {g : Jx.Grid Int} (h : Jx.Grid.shaped g cfg.numRows cfg.numCols = true)
    (loc mv : Pos) : isMoveValid cfg g loc mv = decide (free cfg g (loc.1 + mv.1, loc.2 + mv.2)) := by
  unfold isMoveValid free
  by_cases hin : inGrid cfg (loc.1 + mv.1, loc.2 + mv.2)
  · have hin' := hin
    obtain ⟨h1, h2, h3, h4⟩ := hin'
    simp only [] at h1 h2 h3 h4
    have e := getWC_eq_tile h h1 h2 h3 h4
    simp only [e]
    by_cases ht : tile g (loc.1 + mv.1, loc.2 + mv.2) = WALL <;> simp [hin, h1, h2, h3, h4, ht]
  · simp only [hin, false_and, decide_false]
    unfold inGrid at hin
    simp only [] at hin
    rw [Bool.and_eq_false_iff]
    left
    simp
    omega

/-- item 1: the L1 mask is the rules' mask -/
theorem computeMask_eq {cfg : Cfg} {g : Jx.Grid Int} (h : Jx.Grid.shaped g cfg.numRows cfg.numCols = true)
    (agents : List Pos) : computeMask cfg g agents = legalMask cfg g agents := by
  unfold computeMask legalMask
  apply List.map_congr_left
  intro loc _
  simp [moves, List.range, List.range.loop, isMoveValid_eq h, legalAt, dest, dir]

theorem mask_iff_legal {cfg : Cfg} {s : State} (h : Jx.Grid.shaped s.grid cfg.numRows cfg.numCols = true)
    (i a : Nat) : ((computeMask cfg s.grid s.agents).getD i []).getD a false = true ↔ legal cfg s i a := by
  rw [computeMask_eq h]
  unfold legalMask legal
  simp only [List.getD_eq_getElem?_getD, List.getElem?_map]
  cases s.agents[i]? with
  | none => simp
  | some loc =>
    simp only [Option.map_some, Option.getD_some]
    by_cases ha : a < 4
    · simp [List.getElem?_range ha]
    · have : ¬ legalAt cfg s.grid loc a := fun hl => ha hl.1
      have hn : (List.range 4)[a]? = none := List.getElem?_eq_none (by simp; omega)
      simp [this, hn]

/-! ### item 2 -/

theorem getWC_legalRow (cfg : Cfg) (g : Jx.Grid Int) (loc : Pos) {a : Nat} (ha : a < 4) :
    Jx.getWC ((List.range 4).map (fun a => decide (legalAt cfg g loc a))) false (a : Int)
      = decide (legalAt cfg g loc a) := by
  rw [Jx.getWC_nat _ _ (by simpa using ha)]
  simp [List.getD_eq_getElem?_getD, List.getElem?_map, List.getElem?_range ha]

theorem isActionValid_legalMask (cfg : Cfg) (g : Jx.Grid Int) (agents : List Pos) (action : List Nat)
    (ha : ∀ a ∈ action, a < 4) :
    isActionValid (action.map Int.ofNat) (legalMask cfg g agents)
      = List.zipWith (fun loc a => decide (legalAt cfg g loc a)) agents action := by
  unfold isActionValid legalMask
  induction agents generalizing action with
  | nil => simp
  | cons p ps ih =>
    cases action with
    | nil => simp
    | cons a as =>
      have h0 : a < 4 := ha a (by simp)
      have := ih as (fun x hx => ha x (by simp [hx]))
      simp only [List.map_cons, List.zipWith_cons_cons, this]
      congr 1
      exact getWC_legalRow cfg g p h0

theorem step_agrees {cfg : Cfg} {s : State} (hI : Inv cfg s) (action : List Nat) (ha : ∀ a ∈ action, a < 4) :
    isActionValid (action.map Int.ofNat) s.actionMask = legalJoint cfg s action := by
  rw [hI.2.2]; exact isActionValid_legalMask cfg s.grid s.agents action ha

/-! ### shapes are preserved -/

theorem shaped_setWD {g : Jx.Grid Int} {nr nc : Nat} (h : Jx.Grid.shaped g nr nc = true) (r c v : Int) :
    Jx.Grid.shaped (Jx.Grid.setWD g r c v) nr nc = true := by
  unfold Jx.Grid.setWD
  simp only []
  repeat' split
  all_goals try exact h
  rename_i row hrow _ _
  unfold Jx.Grid.shaped at h ⊢
  simp only [Bool.and_eq_true, beq_iff_eq, List.all_eq_true, List.length_set] at h ⊢
  refine ⟨h.1, ?_⟩
  intro x hx
  rcases List.mem_or_eq_of_mem_set hx with hx | hx
  · exact h.2 x hx
  · subst hx
    rw [List.length_set]
    exact h.2 row (List.mem_of_getElem? hrow)

theorem shaped_cleanTiles {g : Jx.Grid Int} {nr nc : Nat} (h : Jx.Grid.shaped g nr nc = true) (locs : List Pos) :
    Jx.Grid.shaped (cleanTiles g locs) nr nc = true := by
  unfold cleanTiles
  induction locs generalizing g with
  | nil => exact h
  | cons p ps ih => exact ih (shaped_setWD h p.1 p.2 CLEAN)

/-! ### item 3, 4 -/

theorem step_fst (cfg : Cfg) (s : State) (a : List Int) :
    (step cfg s a).1 =
      { agents := updateLocs s.agents a (isActionValid a s.actionMask),
        grid := cleanTiles s.grid (updateLocs s.agents a (isActionValid a s.actionMask)),
        actionMask := computeMask cfg (cleanTiles s.grid (updateLocs s.agents a (isActionValid a s.actionMask)))
          (updateLocs s.agents a (isActionValid a s.actionMask)),
        stepCount := s.stepCount + 1 } := rfl

theorem step_obs (cfg : Cfg) (s : State) (a : List Int) : (step cfg s a).2.obs = obsOf (step cfg s a).1 := by
  unfold step condLast termination transition
  simp only []
  split <;> rfl

theorem step_reward (cfg : Cfg) (s : State) (a : List Int) :
    (step cfg s a).2.reward = [reward cfg s.grid (step cfg s a).1.grid] := by
  unfold step condLast termination transition
  simp only []
  split <;> rfl

theorem step_shaped {cfg : Cfg} {s : State} (h : Jx.Grid.shaped s.grid cfg.numRows cfg.numCols = true)
    (a : List Int) : Jx.Grid.shaped (step cfg s a).1.grid cfg.numRows cfg.numCols = true := by
  rw [step_fst]; exact shaped_cleanTiles h _

theorem obs_faithful {cfg : Cfg} {s : State} (h : Jx.Grid.shaped s.grid cfg.numRows cfg.numCols = true)
    (a : List Int) : (step cfg s a).2.obs = observe cfg (step cfg s a).1 := by
  rw [step_obs]
  have hs := step_shaped h a
  have hm : (step cfg s a).1.actionMask = computeMask cfg (step cfg s a).1.grid (step cfg s a).1.agents := rfl
  unfold obsOf observe
  rw [hm, computeMask_eq hs]

theorem step_count (cfg : Cfg) (s : State) (a : List Int) : (step cfg s a).1.stepCount = s.stepCount + 1 := rfl

theorem step_last_iff (cfg : Cfg) (s : State) (a : List Int) :
    (step cfg s a).2.stepType = .last ↔
      ((isActionValid a s.actionMask).all id = false ∨ anyDirty (step cfg s a).1.grid = false ∨
        s.stepCount + 1 ≥ cfg.timeLimit) := by
  unfold step condLast termination transition shouldTerminate
  simp only []
  split
  · rename_i hd
    simp only [true_iff]
    simpa [or_assoc] using hd
  · rename_i hd
    simp only [reduceCtorEq, false_iff]
    simpa [and_assoc] using hd

theorem time_limit (cfg : Cfg) (s : State) (a : List Int) (h : s.stepCount + 1 ≥ cfg.timeLimit) :
    (step cfg s a).2.stepType = .last := (step_last_iff cfg s a).2 (Or.inr (Or.inr h))

/-! ### item 5: moves -/

theorem getWC_moves {a : Nat} (ha : a < 4) : Jx.getWC moves (0, 0) (a : Int) = dir a := by
  rw [Jx.getWC_nat _ _ (by simpa [moves] using ha)]
  match a, ha with
  | 0, _ => rfl
  | 1, _ => rfl
  | 2, _ => rfl
  | 3, _ => rfl

theorem updateLocs_eq (cfg : Cfg) (g : Jx.Grid Int) (agents : List Pos) (action : List Nat) :
    updateLocs agents (action.map Int.ofNat)
      (List.zipWith (fun loc a => decide (legalAt cfg g loc a)) agents action) = moveSpec cfg g agents action := by
  unfold updateLocs moveSpec
  induction agents generalizing action with
  | nil => cases action <;> simp [zip3With]
  | cons p ps ih =>
    cases action with
    | nil => simp [zip3With]
    | cons a as =>
      simp only [List.map_cons, List.zipWith_cons_cons, zip3With, ih]
      congr 1
      unfold moveAgent dest
      by_cases hl : legalAt cfg g p a
      · simp [hl, getWC_moves hl.1]
      · simp [hl]

theorem step_agents {cfg : Cfg} {s : State} (hI : Inv cfg s) (action : List Nat) (ha : ∀ a ∈ action, a < 4) :
    (step cfg s (action.map Int.ofNat)).1.agents = moveSpec cfg s.grid s.agents action := by
  have : (step cfg s (action.map Int.ofNat)).1.agents =
      updateLocs s.agents (action.map Int.ofNat) (isActionValid (action.map Int.ofNat) s.actionMask) := rfl
  rw [this, step_agrees hI action ha]
  exact updateLocs_eq cfg s.grid s.agents action

theorem step_last_discount (cfg : Cfg) (s : State) (a : List Int) (h : (step cfg s a).2.stepType = .last) :
    (step cfg s a).2.discount = [0] := by
  revert h
  unfold step condLast termination transition
  simp only []
  split
  · intro _; rfl
  · intro h; cases h

theorem any_not_iff_all (l : List Bool) : l.any (fun b => !b) = true ↔ l.all id = false := by
  induction l with
  | nil => simp
  | cons b bs ih => cases b <;> simp_all

theorem illegal_terminates {cfg : Cfg} {s : State} (hI : Inv cfg s) (action : List Nat) (ha : ∀ a ∈ action, a < 4)
    (hill : (legalJoint cfg s action).any (fun b => !b) = true) :
    (step cfg s (action.map Int.ofNat)).2.stepType = .last ∧
    (step cfg s (action.map Int.ofNat)).2.discount = [0] ∧
    (step cfg s (action.map Int.ofNat)).1.agents = moveSpec cfg s.grid s.agents action := by
  have hl : (step cfg s (action.map Int.ofNat)).2.stepType = .last := by
    rw [step_last_iff]; left
    rw [step_agrees hI action ha]
    exact (any_not_iff_all _).1 hill
  exact ⟨hl, step_last_discount cfg s _ hl, step_agents hI action ha⟩

/-! ### pointwise relations between grids -/

inductive Rel2 {α β : Type} (R : α → β → Prop) : List α → List β → Prop
  | nil : Rel2 R [] []
  | cons {a b as bs} : R a b → Rel2 R as bs → Rel2 R (a :: as) (b :: bs)

theorem Rel2.refl {α : Type} {R : α → α → Prop} (h : ∀ x, R x x) : ∀ xs, Rel2 R xs xs
  | [] => .nil
  | x :: xs => .cons (h x) (Rel2.refl h xs)

theorem Rel2.trans {α : Type} {R : α → α → Prop} (h : ∀ x y z, R x y → R y z → R x z) :
    ∀ {xs ys zs}, Rel2 R xs ys → Rel2 R ys zs → Rel2 R xs zs
  | _, _, _, .nil, .nil => .nil
  | _, _, _, .cons a as, .cons b bs => .cons (h _ _ _ a b) (Rel2.trans h as bs)

theorem Rel2.set {α : Type} {R : α → α → Prop} (hrefl : ∀ x, R x x) (xs : List α) (i : Nat) (y : α)
    (hR : ∀ x, xs[i]? = some x → R x y) : Rel2 R xs (xs.set i y) := by
  induction xs generalizing i with
  | nil => exact .nil
  | cons x xs ih =>
    cases i with
    | zero => exact .cons (hR x (by simp)) (Rel2.refl hrefl xs)
    | succ i => exact .cons (hrefl x) (ih i (fun x hx => hR x (by simpa using hx)))

/-- cell relation of cleaning: a cell is unchanged or turns from non-CLEAN to CLEAN -/
def MonoC (x y : Int) : Prop := y = x ∨ (x ≠ CLEAN ∧ y = CLEAN)

abbrev Mono (g g' : Jx.Grid Int) : Prop := Rel2 (Rel2 MonoC) g g'

theorem MonoC.refl (x : Int) : MonoC x x := Or.inl rfl
theorem MonoC.trans (x y z : Int) (h1 : MonoC x y) (h2 : MonoC y z) : MonoC x z := by
  unfold MonoC at *
  rcases h1 with h1 | h1 <;> rcases h2 with h2 | h2
  · left; rw [h2, h1]
  · right; rw [← h1]; exact h2
  · right; rw [h2]; exact h1
  · right; exact ⟨h1.1, h2.2⟩

theorem Mono.refl (g : Jx.Grid Int) : Mono g g := Rel2.refl (Rel2.refl MonoC.refl) g
theorem Mono.trans {g1 g2 g3 : Jx.Grid Int} (h1 : Mono g1 g2) (h2 : Mono g2 g3) : Mono g1 g3 :=
  Rel2.trans (R := Rel2 MonoC) (fun _ _ _ a b => Rel2.trans MonoC.trans a b) h1 h2

theorem mono_setWD (g : Jx.Grid Int) (r c : Int) : Mono g (Jx.Grid.setWD g r c CLEAN) := by
  unfold Jx.Grid.setWD
  simp only []
  repeat' split
  all_goals try exact Mono.refl g
  rename_i row hrow _ _
  apply Rel2.set (Rel2.refl MonoC.refl)
  intro row' hrow'
  rw [hrow] at hrow'
  cases hrow'
  apply Rel2.set MonoC.refl
  intro x _
  by_cases hx : x = CLEAN
  · left; exact hx.symm
  · right; exact ⟨hx, rfl⟩

theorem mono_cleanTiles (g : Jx.Grid Int) (locs : List Pos) : Mono g (cleanTiles g locs) := by
  unfold cleanTiles
  induction locs generalizing g with
  | nil => exact Mono.refl g
  | cons p ps ih => exact Mono.trans (mono_setWD g p.1 p.2) (ih _)

/-! ### counting -/

theorem foldl_add_nat (xs : List Nat) (a : Nat) : xs.foldl (· + ·) a = a + xs.foldl (· + ·) 0 := by
  induction xs generalizing a with
  | nil => simp
  | cons x xs ih => simp only [List.foldl_cons]; rw [ih (a + x), ih (0 + x)]; omega

theorem sumNat_cons (x : Nat) (xs : List Nat) : Jx.sumNat (x :: xs) = x + Jx.sumNat xs := by
  unfold Jx.sumNat; simp only [List.foldl_cons]; rw [foldl_add_nat]; omega

theorem countDiff_cons (r r' : List Int) (g g' : Jx.Grid Int) :
    countDiff (r :: g) (r' :: g') = Jx.countTrue (List.zipWith (fun x y => x != y) r r') + countDiff g g' := by
  unfold countDiff; simp only [List.zipWith_cons_cons, sumNat_cons]

theorem countTiles_cons (v : Int) (r : List Int) (g : Jx.Grid Int) :
    countTiles v (r :: g) = (r.filter (fun x => x == v)).length + countTiles v g := by
  unfold countTiles Jx.Grid.count; simp

theorem countDiff_nil : countDiff [] [] = 0 := rfl
theorem countTiles_nil (v : Int) : countTiles v [] = 0 := rfl

theorem row_count_mono {r r' : List Int} (h : Rel2 MonoC r r') :
    (r'.filter (fun x => x == CLEAN)).length
      = (r.filter (fun x => x == CLEAN)).length + Jx.countTrue (List.zipWith (fun x y => x != y) r r') := by
  induction h with
  | nil => rfl
  | @cons x y xs ys hxy _ ih =>
    unfold Jx.countTrue at ih ⊢
    rcases hxy with hxy | ⟨hx, hy⟩
    · subst hxy
      by_cases hc : y = CLEAN <;> simp [hc, ih] <;> omega
    · subst hy
      have hne : (x != CLEAN) = true := by simpa using hx
      simp [hx, hne, ih]; omega

theorem count_mono {g g' : Jx.Grid Int} (h : Mono g g') :
    countTiles CLEAN g' = countTiles CLEAN g + countDiff g g' := by
  induction h with
  | nil => rfl
  | cons hr _ ih =>
    rw [countTiles_cons, countTiles_cons, countDiff_cons, ih, row_count_mono hr]; omega

/-! ### item 9 -/

theorem reward_telescopes (cfg : Cfg) (s : State) (a : List Int) :
    potential cfg (step cfg s a).1 = potential cfg s + ((step cfg s a).2.reward).sum := by
  rw [step_reward]
  have hm : Mono s.grid (step cfg s a).1.grid := mono_cleanTiles s.grid _
  have hc := count_mono hm
  unfold potential reward
  rw [hc, step_count, Rat.natCast_add, Rat.intCast_add]
  simp only [List.sum_cons, List.sum_nil]
  generalize ((countTiles CLEAN s.grid : Nat) : Rat) = A
  generalize ((countDiff s.grid (step cfg s a).1.grid : Nat) : Rat) = B
  generalize ((s.stepCount : Int) : Rat) = C
  generalize cfg.penalty = P
  have : ((1 : Int) : Rat) = 1 := rfl
  rw [this]
  grind

/-! ### index-wise maps; `cleanTiles = cleanSpec` -/

theorem Rel2.mono {α β : Type} {R S : α → β → Prop} (h : ∀ x y, R x y → S x y) :
    ∀ {xs ys}, Rel2 R xs ys → Rel2 S xs ys
  | _, _, .nil => .nil
  | _, _, .cons a as => .cons (h _ _ a) (Rel2.mono h as)

theorem Rel2.eq {α : Type} : ∀ {xs ys : List α}, Rel2 (fun x y => y = x) xs ys → ys = xs
  | _, _, .nil => rfl
  | _, _, .cons a as => by rw [a, Rel2.eq as]

theorem Rel2.mapIdx {α β : Type} {R : α → β → Prop} (xs : List α) (f : Nat → α → β)
    (h : ∀ i x, xs[i]? = some x → R x (f i x)) : Rel2 R xs (xs.mapIdx f) := by
  induction xs generalizing f with
  | nil => exact .nil
  | cons x xs ih =>
    rw [List.mapIdx_cons]
    exact .cons (h 0 x (by simp)) (ih _ (fun i y hy => h (i + 1) y (by simpa using hy)))

def mapIdx2 (F : Nat → Nat → Int → Int) (g : Jx.Grid Int) : Jx.Grid Int :=
  List.mapIdx (fun r row => List.mapIdx (fun c v => F r c v) row) g

theorem cleanSpec_eq (g : Jx.Grid Int) (locs : List Pos) :
    cleanSpec g locs = mapIdx2 (fun r c v => if ((r : Int), (c : Int)) ∈ locs then CLEAN else v) g := rfl

theorem rel_mapIdx2 {R : Int → Int → Prop} (g : Jx.Grid Int) (F : Nat → Nat → Int → Int)
    (h : ∀ r row, g[r]? = some row → ∀ c x, row[c]? = some x → R x (F r c x)) :
    Rel2 (Rel2 R) g (mapIdx2 F g) :=
  Rel2.mapIdx g _ (fun r row hrow => Rel2.mapIdx row _ (h r row hrow))

theorem mapIdx2_comp (F G : Nat → Nat → Int → Int) (g : Jx.Grid Int) :
    mapIdx2 F (mapIdx2 G g) = mapIdx2 (fun r c x => F r c (G r c x)) g := by
  unfold mapIdx2
  rw [List.mapIdx_mapIdx]
  congr 1
  funext r row
  simp only [Function.comp]
  rw [List.mapIdx_mapIdx]
  rfl

theorem set_eq_mapIdx {α : Type} (xs : List α) (i : Nat) (v : α) :
    xs.set i v = xs.mapIdx (fun j x => if j = i then v else x) := by
  apply List.ext_getElem?; intro j
  rw [List.getElem?_set, List.getElem?_mapIdx]
  by_cases h : i = j
  · subst h
    by_cases hl : i < xs.length
    · simp [hl]
    · simp [hl]
  · have h' : ¬ j = i := fun e => h e.symm
    simp only [h, h', if_false]
    cases xs[j]? <;> rfl

theorem mapIdx_self {α : Type} (xs : List α) : xs.mapIdx (fun _ x => x) = xs := by
  apply List.ext_getElem?; intro j
  rw [List.getElem?_mapIdx]; cases xs[j]? <;> rfl

theorem setWD_nat_mapIdx2 (g : Jx.Grid Int) (r0 c0 : Nat) (v : Int) :
    Jx.Grid.setWD g (r0 : Int) (c0 : Int) v = mapIdx2 (fun r c x => if r = r0 ∧ c = c0 then v else x) g := by
  apply List.ext_getElem?; intro r
  unfold mapIdx2
  rw [List.getElem?_mapIdx]
  unfold Jx.Grid.setWD Jx.wrapIdx
  simp only []
  have h0 : ¬ ((r0 : Int) < 0) := by omega
  have h0' : ¬ ((c0 : Int) < 0) := by omega
  simp only [h0, h0', if_false, Int.toNat_natCast]
  by_cases hr : r = r0
  · subst hr
    simp only [true_and, ← set_eq_mapIdx]
    cases hg : g[r]? with
    | none =>
      have : ¬ r < List.length g := by
        intro hlt; rw [List.getElem?_eq_getElem hlt] at hg; cases hg
      repeat' split
      all_goals first | (simp [hg]; done) | omega
    | some row =>
      have hlt : r < List.length g := by
        apply Classical.byContradiction; intro hn
        rw [List.getElem?_eq_none (Nat.le_of_not_lt hn)] at hg; cases hg
      have hge : ¬ ((r : Int) ≥ (List.length g : Int)) := by omega
      simp only [hge, if_false]
      by_cases hc : (c0 : Int) ≥ (row.length : Int)
      · simp only [hc, if_true, hg, Option.map_some]
        have : row.set c0 v = row := by
          apply List.set_eq_of_length_le; omega
        rw [this]
      · simp only [hc, if_false, List.getElem?_set, hlt, if_true, Option.map_some]
  · have e : (fun (c : Nat) (x : Int) => if r = r0 ∧ c = c0 then v else x) = (fun _ x => x) := by
      funext c x; simp [hr]
    rw [e]
    have e2 : Option.map (fun row : List Int => List.mapIdx (fun _ x => x) row) g[r]? = g[r]? := by
      cases g[r]? with
      | none => rfl
      | some row => simp [mapIdx_self]
    rw [e2]
    repeat' split
    all_goals try rfl
    rw [List.getElem?_set]
    have : ¬ r0 = r := fun e => hr e.symm
    simp [this]

theorem mapIdx2_self (g : Jx.Grid Int) : mapIdx2 (fun _ _ x => x) g = g :=
  Rel2.eq (Rel2.mono (fun _ _ h => Rel2.eq h) (rel_mapIdx2 (R := fun x y => y = x) g _ (fun _ _ _ _ _ _ => rfl)))

/-- with non-negative coordinates the scatter of `CLEAN` is the index-wise description of the rules -/
theorem cleanTiles_eq_cleanSpec (g : Jx.Grid Int) (locs : List Pos) (h : ∀ p ∈ locs, 0 ≤ p.1 ∧ 0 ≤ p.2) :
    cleanTiles g locs = cleanSpec g locs := by
  induction locs generalizing g with
  | nil =>
    rw [cleanSpec_eq]
    simp only [List.not_mem_nil, if_false]
    exact (mapIdx2_self g).symm
  | cons p ps ih =>
    have hp := h p (by simp)
    obtain ⟨r0, hr0⟩ := Int.eq_ofNat_of_zero_le hp.1
    obtain ⟨c0, hc0⟩ := Int.eq_ofNat_of_zero_le hp.2
    have e : cleanTiles g (p :: ps) = cleanTiles (Jx.Grid.setWD g p.1 p.2 CLEAN) ps := rfl
    rw [e, ih _ (fun q hq => h q (by simp [hq])), hr0, hc0, setWD_nat_mapIdx2, cleanSpec_eq, cleanSpec_eq,
      mapIdx2_comp]
    congr 1
    funext r c x
    have hpe : p = ((r0 : Int), (c0 : Int)) := Prod.ext hr0 hc0
    rw [hpe]
    by_cases hm : ((r : Int), (c : Int)) ∈ ps
    · simp [hm]
    · by_cases hrc : r = r0 ∧ c = c0
      · simp [hrc]
      · have : ¬ (((r : Int), (c : Int)) = ((r0 : Int), (c0 : Int))) := by
          intro he; apply hrc
          have h1 := congrArg Prod.fst he
          have h2 := congrArg Prod.snd he
          simp only [] at h1 h2
          omega
        simp [hm, hrc, this]

/-! ### cells of a well-shaped grid -/

theorem tile_of_cell {g : Jx.Grid Int} {r c : Nat} {row : List Int} {x : Int} (h1 : g[r]? = some row)
    (h2 : row[c]? = some x) : tile g ((r : Int), (c : Int)) = x := by
  unfold tile Jx.Grid.get
  simp [List.getD_eq_getElem?_getD, h1, h2]

theorem cell_exists {cfg : Cfg} {g : Jx.Grid Int} (h : Jx.Grid.shaped g cfg.numRows cfg.numCols = true)
    {p : Pos} (hp : inGrid cfg p) :
    ∃ (r c : Nat) (row : List Int) (x : Int), p = ((r : Int), (c : Int)) ∧ g[r]? = some row ∧ row[c]? = some x := by
  obtain ⟨h1, h2, h3, h4⟩ := hp
  obtain ⟨r, hr⟩ := Int.eq_ofNat_of_zero_le h1
  obtain ⟨c, hc⟩ := Int.eq_ofNat_of_zero_le h3
  have hl := Jx.Grid.shaped_length h
  have hrl : r < List.length g := by omega
  have hrow := Jx.Grid.shaped_row h (r := r) (by omega)
  rw [List.getD_eq_getElem?_getD, List.getElem?_eq_getElem hrl] at hrow
  simp only [Option.getD_some] at hrow
  have hcl : c < (g[r]).length := by omega
  exact ⟨r, c, g[r], (g[r])[c], Prod.ext hr hc, List.getElem?_eq_getElem hrl, List.getElem?_eq_getElem hcl⟩

theorem tile_cleanSpec {cfg : Cfg} {g : Jx.Grid Int} (h : Jx.Grid.shaped g cfg.numRows cfg.numCols = true)
    (locs : List Pos) {p : Pos} (hp : inGrid cfg p) :
    tile (cleanSpec g locs) p = if p ∈ locs then CLEAN else tile g p := by
  obtain ⟨r, c, row, x, rfl, h1, h2⟩ := cell_exists h hp
  rw [tile_of_cell h1 h2]
  apply tile_of_cell (row := row.mapIdx (fun c v => if ((r : Int), (c : Int)) ∈ locs then CLEAN else v))
  · unfold cleanSpec; rw [List.getElem?_mapIdx, h1]; rfl
  · rw [List.getElem?_mapIdx, h2]; rfl

/-! ### the moved agents -/

theorem moveSpec_forall (cfg : Cfg) (g : Jx.Grid Int) (P : Pos → Prop) (agents : List Pos) (action : List Nat)
    (h1 : ∀ loc ∈ agents, P loc) (h2 : ∀ loc a, legalAt cfg g loc a → P (dest loc a)) :
    ∀ p ∈ moveSpec cfg g agents action, P p := by
  unfold moveSpec
  induction agents generalizing action with
  | nil => simp
  | cons q qs ih =>
    cases action with
    | nil => simp
    | cons a as =>
      intro p hp
      simp only [List.zipWith_cons_cons, List.mem_cons] at hp
      rcases hp with hp | hp
      · subst hp
        split
        · rename_i hl; exact h2 q a hl
        · exact h1 q (by simp)
      · exact ih as (fun loc hl => h1 loc (by simp [hl])) p hp

theorem moveSpec_length (cfg : Cfg) (g : Jx.Grid Int) (agents : List Pos) (action : List Nat)
    (hl : action.length = agents.length) : (moveSpec cfg g agents action).length = agents.length := by
  unfold moveSpec; simp [hl]

/-- under `Consistent` every agent of the successor stands on a cell of the grid that is not a wall -/
theorem moveSpec_free {cfg : Cfg} {s : State} (hC : Consistent cfg s) (action : List Nat) :
    ∀ p ∈ moveSpec cfg s.grid s.agents action, inGrid cfg p ∧ tile s.grid p ≠ WALL := by
  apply moveSpec_forall
  · intro loc hloc
    have := hC.2.2 loc hloc
    refine ⟨this.1, ?_⟩
    rw [this.2]; decide
  · intro loc a hl
    exact hl.2

/-! ### relations carried to `Jx.Grid.all`, `map`, `zipWith` -/

theorem all_of_rel {R : Int → Int → Prop} {P : Int → Bool} (hRP : ∀ x y, R x y → P x = true → P y = true)
    {g g' : Jx.Grid Int} (h : Rel2 (Rel2 R) g g') (hg : Jx.Grid.all P g = true) : Jx.Grid.all P g' = true := by
  unfold Jx.Grid.all at *
  induction h with
  | nil => rfl
  | cons hr _ ih =>
    simp only [List.all_cons, Bool.and_eq_true] at hg ⊢
    refine ⟨?_, ih hg.2⟩
    have hg1 := hg.1
    clear ih hg
    induction hr with
    | nil => rfl
    | cons hxy _ ih2 =>
      simp only [List.all_cons, Bool.and_eq_true] at hg1 ⊢
      exact ⟨hRP _ _ hxy hg1.1, ih2 hg1.2⟩

theorem map_of_rel {β : Type} {R : Int → Int → Prop} {f : Int → β} (hR : ∀ x y, R x y → f y = f x)
    {g g' : Jx.Grid Int} (h : Rel2 (Rel2 R) g g') : Jx.Grid.map f g' = Jx.Grid.map f g := by
  unfold Jx.Grid.map
  induction h with
  | nil => rfl
  | cons hr _ ih =>
    simp only [List.map_cons, ih]
    congr 1
    induction hr with
    | nil => rfl
    | cons hxy _ ih2 => simp only [List.map_cons, ih2, hR _ _ hxy]

theorem zip_all_of_rel {R : Int → Int → Prop} {f : Int → Int → Bool} (hR : ∀ x y, R x y → f x y = true)
    {g g' : Jx.Grid Int} (h : Rel2 (Rel2 R) g g') : Jx.Grid.all id (Jx.Grid.zipWith f g g') = true := by
  unfold Jx.Grid.all Jx.Grid.zipWith
  induction h with
  | nil => rfl
  | cons hr _ ih =>
    simp only [List.zipWith_cons_cons, List.all_cons, Bool.and_eq_true]
    refine ⟨?_, ih⟩
    induction hr with
    | nil => rfl
    | cons hxy _ ih2 =>
      simp only [List.zipWith_cons_cons, List.all_cons, Bool.and_eq_true]
      exact ⟨hR _ _ hxy, ih2⟩

theorem cell_of_all {P : Int → Bool} {g : Jx.Grid Int} (h : Jx.Grid.all P g = true) {r c : Nat} {row : List Int}
    {x : Int} (h1 : g[r]? = some row) (h2 : row[c]? = some x) : P x = true := by
  unfold Jx.Grid.all at h
  simp only [List.all_eq_true] at h
  exact h row (List.mem_of_getElem? h1) x (List.mem_of_getElem? h2)

/-! ### item 7 -/

theorem step_grid_spec {cfg : Cfg} {s : State} (hC : Consistent cfg s) (action : List Nat)
    (ha : ∀ a ∈ action, a < 4) :
    (step cfg s (action.map Int.ofNat)).1.grid = cleanSpec s.grid (moveSpec cfg s.grid s.agents action) := by
  have e : (step cfg s (action.map Int.ofNat)).1.grid
      = cleanTiles s.grid (step cfg s (action.map Int.ofNat)).1.agents := rfl
  rw [e, step_agents hC.1 action ha]
  apply cleanTiles_eq_cleanSpec
  intro p hp
  have := (moveSpec_free hC action p hp).1
  exact ⟨this.1, this.2.2.1⟩

theorem step_mask {cfg : Cfg} {s : State} (h : Jx.Grid.shaped s.grid cfg.numRows cfg.numCols = true)
    (a : List Int) :
    (step cfg s a).1.actionMask = legalMask cfg (step cfg s a).1.grid (step cfg s a).1.agents := by
  have hm : (step cfg s a).1.actionMask = computeMask cfg (step cfg s a).1.grid (step cfg s a).1.agents := rfl
  rw [hm, computeMask_eq (step_shaped h a)]

theorem step_consistent {cfg : Cfg} {s : State} (hC : Consistent cfg s) (action : List Nat)
    (hl : action.length = s.agents.length) (ha : ∀ a ∈ action, a < 4) :
    Consistent cfg (step cfg s (action.map Int.ofNat)).1 := by
  have hsh := hC.1.1
  refine ⟨⟨step_shaped hsh _, ?_, step_mask hsh _⟩, ?_, ?_⟩
  · rw [step_agents hC.1 action ha, moveSpec_length _ _ _ _ hl]; exact hC.1.2.1
  · have hm : Mono s.grid (step cfg s (action.map Int.ofNat)).1.grid := mono_cleanTiles s.grid _
    refine all_of_rel ?_ hm hC.2.1
    intro x y hxy hx
    rcases hxy with hxy | ⟨_, hy⟩
    · rw [hxy]; exact hx
    · rw [hy]; decide
  · intro p hp
    rw [step_agents hC.1 action ha] at hp
    have hin := (moveSpec_free hC action p hp).1
    refine ⟨hin, ?_⟩
    rw [step_grid_spec hC action ha, tile_cleanSpec hsh _ hin]
    simp [hp]

/-! ### item 6 -/

theorem moveSpec_all_illegal (cfg : Cfg) (g : Jx.Grid Int) (agents : List Pos) (action : List Nat)
    (hl : action.length = agents.length)
    (hill : ∀ b ∈ List.zipWith (fun loc a => decide (legalAt cfg g loc a)) agents action, b = false) :
    moveSpec cfg g agents action = agents := by
  unfold moveSpec
  induction agents generalizing action with
  | nil => simp
  | cons q qs ih =>
    cases action with
    | nil => simp at hl
    | cons a as =>
      simp only [List.zipWith_cons_cons, List.mem_cons, forall_eq_or_imp, decide_eq_false_iff_not] at hill
      simp only [List.zipWith_cons_cons, hill.1, if_false]
      rw [ih as (by simpa using hl) hill.2]

theorem cleanSpec_self {g : Jx.Grid Int} (locs : List Pos)
    (h : ∀ p ∈ locs, tile g p = CLEAN) : cleanSpec g locs = g := by
  rw [cleanSpec_eq]
  refine Rel2.eq (Rel2.mono (fun _ _ h => Rel2.eq h) (rel_mapIdx2 (R := fun x y => y = x) g _ ?_))
  intro r row hrow c x hx
  split
  · rename_i hm
    have := h _ hm
    rw [tile_of_cell hrow hx] at this
    exact this.symm
  · rfl

theorem illegal_untouched {cfg : Cfg} {s : State} (hC : Consistent cfg s) (action : List Nat)
    (hl : action.length = s.agents.length) (ha : ∀ a ∈ action, a < 4)
    (hill : ∀ b ∈ legalJoint cfg s action, b = false) :
    (step cfg s (action.map Int.ofNat)).1.grid = s.grid ∧ (step cfg s (action.map Int.ofNat)).1.agents = s.agents := by
  have hag : moveSpec cfg s.grid s.agents action = s.agents := moveSpec_all_illegal cfg s.grid s.agents action hl hill
  refine ⟨?_, ?_⟩
  · rw [step_grid_spec hC action ha, hag]
    exact cleanSpec_self s.agents (fun p hp => (hC.2.2 p hp).2)
  · rw [step_agents hC.1 action ha, hag]

/-! ### item 8 -/

theorem conserved_step {cfg : Cfg} {s : State} (hC : Consistent cfg s) (action : List Nat)
    (hl : action.length = s.agents.length) (ha : ∀ a ∈ action, a < 4) :
    conserved s (step cfg s (action.map Int.ofNat)).1 = true := by
  unfold conserved
  simp only [Bool.and_eq_true, decide_eq_true_eq]
  refine ⟨⟨?_, ?_⟩, ?_⟩
  · rw [step_agents hC.1 action ha, moveSpec_length _ _ _ _ hl]
  · rw [step_grid_spec hC action ha, cleanSpec_eq]
    apply map_of_rel (R := fun x y => (y = WALL ↔ x = WALL)) (fun x y h => by simp [h])
    apply rel_mapIdx2
    intro r row hrow c x hx
    split
    · rename_i hm
      have := (moveSpec_free hC action _ hm).2
      rw [tile_of_cell hrow hx] at this
      simp [this]; decide
    · exact Iff.rfl
  · have hm : Mono s.grid (step cfg s (action.map Int.ofNat)).1.grid := mono_cleanTiles s.grid _
    refine zip_all_of_rel ?_ hm
    intro x y hxy
    rcases hxy with hxy | ⟨_, hy⟩
    · subst hxy; by_cases hc : y = CLEAN <;> simp [hc]
    · simp [hy]

/-- the part of `conserved` that holds for ANY action list: clean tiles stay clean -/
theorem clean_stays_clean (cfg : Cfg) (s : State) (a : List Int) :
    Jx.Grid.all id (Jx.Grid.zipWith (fun v v' => v != CLEAN || v' == CLEAN) s.grid (step cfg s a).1.grid) = true := by
  have hm : Mono s.grid (step cfg s a).1.grid := mono_cleanTiles s.grid _
  refine zip_all_of_rel ?_ hm
  intro x y hxy
  rcases hxy with hxy | ⟨_, hy⟩
  · subst hxy; by_cases hc : y = CLEAN <;> simp [hc]
  · simp [hy]

/-! ### item 10: L1 = L2 -/

/-- cell relation of cleaning when agents never stand on walls: unchanged or DIRTY → CLEAN -/
def DirtyC (x y : Int) : Prop := y = x ∨ (x = DIRTY ∧ y = CLEAN)

theorem row_count_dirty {r r' : List Int} (h : Rel2 DirtyC r r') :
    (r.filter (fun x => x == DIRTY)).length
      = (r'.filter (fun x => x == DIRTY)).length + Jx.countTrue (List.zipWith (fun x y => x != y) r r') := by
  induction h with
  | nil => rfl
  | @cons x y xs ys hxy _ ih =>
    unfold Jx.countTrue at ih ⊢
    rcases hxy with hxy | ⟨hx, hy⟩
    · subst hxy
      by_cases hc : y = DIRTY <;> simp [hc, ih] <;> omega
    · subst hx; subst hy
      have h1 : (CLEAN == DIRTY) = false := by decide
      have h2 : (DIRTY != CLEAN) = true := by decide
      simp [h1, h2, ih]; omega

theorem count_dirty {g g' : Jx.Grid Int} (h : Rel2 (Rel2 DirtyC) g g') :
    countTiles DIRTY g = countTiles DIRTY g' + countDiff g g' := by
  induction h with
  | nil => rfl
  | cons hr _ ih =>
    rw [countTiles_cons, countTiles_cons, countDiff_cons, ih, row_count_dirty hr]; omega

theorem step_dirtyRel {cfg : Cfg} {s : State} (hC : Consistent cfg s) (action : List Nat)
    (ha : ∀ a ∈ action, a < 4) : Rel2 (Rel2 DirtyC) s.grid (step cfg s (action.map Int.ofNat)).1.grid := by
  rw [step_grid_spec hC action ha, cleanSpec_eq]
  apply rel_mapIdx2
  intro r row hrow c x hx
  split
  · rename_i hm
    have hw := (moveSpec_free hC action _ hm).2
    rw [tile_of_cell hrow hx] at hw
    have hv := cell_of_all hC.2.1 hrow hx
    simp only [Bool.or_eq_true, beq_iff_eq] at hv
    rcases hv with (hv | hv) | hv
    · right; exact ⟨hv, rfl⟩
    · left; exact hv.symm
    · exact absurd hv hw
  · left; rfl

theorem step_countDiff {cfg : Cfg} {s : State} (hC : Consistent cfg s) (action : List Nat)
    (ha : ∀ a ∈ action, a < 4) :
    countDiff s.grid (step cfg s (action.map Int.ofNat)).1.grid
      = countTiles DIRTY s.grid - countTiles DIRTY (step cfg s (action.map Int.ofNat)).1.grid := by
  have := count_dirty (step_dirtyRel hC action ha)
  omega

theorem anyDirty_iff (g : Jx.Grid Int) : anyDirty g = true ↔ countTiles DIRTY g ≠ 0 := by
  unfold anyDirty countTiles Jx.Grid.any Jx.Grid.count
  rw [← List.any_flatten]
  generalize List.flatten g = l
  induction l with
  | nil => simp
  | cons x xs ih =>
    by_cases hx : x = DIRTY
    · simp [hx]
    · simp only [List.any_cons, Bool.or_eq_true, ih, List.filter_cons]
      simp [hx]

theorem step_next_refines {cfg : Cfg} {s : State} (hC : Consistent cfg s) (action : List Nat)
    (ha : ∀ a ∈ action, a < 4) : (step cfg s (action.map Int.ofNat)).1 = nextSpec cfg s action := by
  have h1 := step_agents hC.1 action ha
  have h2 := step_grid_spec hC action ha
  have h3 := step_mask hC.1.1 (action.map Int.ofNat)
  have h4 := step_count cfg s (action.map Int.ofNat)
  rw [h2, h1] at h3
  unfold nextSpec
  simp only []
  generalize step cfg s (action.map Int.ofNat) = st at *
  obtain ⟨⟨g, ag, m, sc⟩, ts⟩ := st
  simp only [] at h1 h2 h3 h4
  rw [h1, h2, h3, h4]

theorem step_done_refines {cfg : Cfg} {s : State} (hC : Consistent cfg s) (action : List Nat)
    (ha : ∀ a ∈ action, a < 4) :
    shouldTerminate cfg (step cfg s (action.map Int.ofNat)).1 (isActionValid (action.map Int.ofNat) s.actionMask)
      = decide (endsSpec cfg s action (nextSpec cfg s action)) := by
  rw [← step_next_refines hC action ha, step_agrees hC.1 action ha]
  unfold shouldTerminate endsSpec
  rw [Bool.eq_iff_iff]
  simp only [Bool.or_eq_true, Bool.not_eq_true', decide_eq_true_eq, any_not_iff_all]
  have := anyDirty_iff (step cfg s (action.map Int.ofNat)).1.grid
  constructor
  · rintro ((h | h) | h)
    · exact Or.inl h
    · right; left
      apply Classical.byContradiction; intro hn
      rw [this.2 hn] at h; cases h
    · exact Or.inr (Or.inr h)
  · rintro (h | h | h)
    · exact Or.inl (Or.inl h)
    · left; right
      cases hd : anyDirty (step cfg s (action.map Int.ofNat)).1.grid
      · rfl
      · exact absurd h (this.1 hd)
    · exact Or.inr h

theorem step_refines {cfg : Cfg} {s : State} (hC : Consistent cfg s) (action : List Nat)
    (ha : ∀ a ∈ action, a < 4) : step cfg s (action.map Int.ofNat) = stepSpec cfg s action := by
  have hstep : step cfg s (action.map Int.ofNat) = ((step cfg s (action.map Int.ofNat)).1,
      condLast (shouldTerminate cfg (step cfg s (action.map Int.ofNat)).1
          (isActionValid (action.map Int.ofNat) s.actionMask))
        [reward cfg s.grid (step cfg s (action.map Int.ofNat)).1.grid]
        (obsOf (step cfg s (action.map Int.ofNat)).1)) := rfl
  have hobs : obsOf (step cfg s (action.map Int.ofNat)).1 = observe cfg (step cfg s (action.map Int.ofNat)).1 := by
    rw [← step_obs]; exact obs_faithful hC.1.1 _
  have hrew : reward cfg s.grid (step cfg s (action.map Int.ofNat)).1.grid
      = rewardSpec cfg s (step cfg s (action.map Int.ofNat)).1 := by
    unfold reward rewardSpec
    rw [step_countDiff hC action ha]
  rw [hstep, step_done_refines hC action ha, hobs, hrew, step_next_refines hC action ha]
  rfl

/-! ### corollaries -/

theorem objective_telescopes (cfg : Cfg) (s : State) (a : List Int) :
    objective cfg (step cfg s a).1 = objective cfg s + ((step cfg s a).2.reward).sum := by
  have h := reward_telescopes cfg s a
  have e : ∀ t : State, objective cfg t = potential cfg t - 1 := by
    intro t; unfold objective potential; grind
  rw [e, e, h]; grind

/-- the decidable C05 predicate of the model holds (with exact reward) on every implementation transition
whose joint action has an illegal component -/
theorem illegal_terminates_pred {cfg : Cfg} {s : State} (hC : Consistent cfg s) (action : List Nat)
    (ha : ∀ a ∈ action, a < 4) (hill : (legalJoint cfg s action).any (fun b => !b) = true)
    (tol : Rat) (htol : 0 ≤ tol) :
    illegalTerminates cfg tol s action (step cfg s (action.map Int.ofNat)).1 (step cfg s (action.map Int.ofNat)).2
      = true := by
  obtain ⟨h1, h2, h3⟩ := illegal_terminates hC.1 action ha hill
  have h4 : (step cfg s (action.map Int.ofNat)).1.grid
      = cleanSpec s.grid (step cfg s (action.map Int.ofNat)).1.agents := by
    rw [h3]; exact step_grid_spec hC action ha
  have h5 : (step cfg s (action.map Int.ofNat)).2.reward
      = [rewardSpec cfg s (step cfg s (action.map Int.ofNat)).1] := by
    rw [step_reward]; unfold reward rewardSpec; rw [step_countDiff hC action ha]
  unfold illegalTerminates
  rw [h5]
  simp only [Bool.and_eq_true, decide_eq_true_eq, beq_iff_eq, Rat.sub_self]
  exact ⟨⟨⟨⟨⟨h1, h3⟩, h4⟩, step_count cfg s _⟩, htol, htol⟩, h2⟩

end Cleaner
