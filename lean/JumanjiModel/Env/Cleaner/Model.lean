/-
Cleaner (jumanji/environments/routing/cleaner/{env,types,constants}.py).  Import-free.

L1 = transliteration of `step` and its helpers `_is_action_valid`, `_update_agents_locations`,
`_clean_tiles_containing_agents`, `_compute_reward`, `_compute_action_mask`, `_should_terminate`,
`_observation_from_state`:
  * validity of the joint action is read from the CACHED `state.action_mask[arange(n), action]`;
  * `MOVES[action]` and `grid[y, x]` are traced gathers (wrap, clamp), `grid.at[rows, cols].set(CLEAN)` is a
    scatter (wrap, drop), the wall test `grid[y, x] != WALL` is evaluated even when the bounds test fails;
  * the bounds test is the one of the current tree: `x` (column) against `num_cols`, `y` (row) against `num_rows`.
L2 = the rules as documented (docs/environments/cleaner.md, class docstring): every agent moves one cell
up/right/down/left; a move that leaves the grid or enters a wall is invalid: the agent stays and the episode
ends; tiles under agents become clean; reward = tiles cleaned in the step − penalty; the episode also ends when
no dirty tile is left or at the time limit.
-/
import JumanjiModel.Prim.Idx
import JumanjiModel.Prim.Grid
import JumanjiModel.Core.TimeStep
namespace Cleaner
open Jm

structure Cfg where
  numRows : Nat
  numCols : Nat
  numAgents : Nat
  timeLimit : Int
  penalty : Rat
  deriving Repr, DecidableEq

/-- `(row, col)` = `(y, x)` -/
abbrev Pos := Int × Int

def DIRTY : Int := 0
def CLEAN : Int := 1
def WALL : Int := 2

structure State where
  grid : Jx.Grid Int
  agents : List Pos
  actionMask : List (List Bool)
  stepCount : Int
  deriving Repr, DecidableEq

structure Obs where
  grid : Jx.Grid Int
  agents : List Pos
  actionMask : List (List Bool)
  stepCount : Int
  deriving Repr, DecidableEq

/-! ### L1 -/

/-- `constants.MOVES`: Up, right, down, left -/
def moves : List Pos := [(-1, 0), (0, 1), (1, 0), (0, -1)]

/-- `is_move_valid` inside `_compute_action_mask` -/
def isMoveValid (cfg : Cfg) (grid : Jx.Grid Int) (loc : Pos) (mv : Pos) : Bool :=
  let y := loc.1 + mv.1
  let x := loc.2 + mv.2
  decide (x ≥ 0) && decide (x < (cfg.numCols : Int)) && decide (y ≥ 0) && decide (y < (cfg.numRows : Int)) &&
    (Jx.Grid.getWC grid 0 y x != WALL)

/-- `_compute_action_mask`: vmap over agents and moves -/
def computeMask (cfg : Cfg) (grid : Jx.Grid Int) (agents : List Pos) : List (List Bool) :=
  agents.map (fun loc => moves.map (isMoveValid cfg grid loc))

/-- `_is_action_valid`: `action_mask[jnp.arange(num_agents), action]` -/
def isActionValid (action : List Int) (mask : List (List Bool)) : List Bool :=
  List.zipWith (fun row a => Jx.getWC row false a) mask action

/-- one agent of `_update_agents_locations`: `prev + where(valid, MOVES[action], 0)` -/
def moveAgent (p : Pos) (a : Int) (valid : Bool) : Pos :=
  let mv : Pos := if valid then Jx.getWC moves (0, 0) a else (0, 0)
  (p.1 + mv.1, p.2 + mv.2)

def zip3With {α β γ δ} (f : α → β → γ → δ) : List α → List β → List γ → List δ
  | a :: as, b :: bs, c :: cs => f a b c :: zip3With f as bs cs
  | _, _, _ => []

/-- `_update_agents_locations` -/
def updateLocs (prev : List Pos) (action : List Int) (valid : List Bool) : List Pos :=
  zip3With moveAgent prev action valid

/-- `_clean_tiles_containing_agents`: `grid.at[locs[:, 0], locs[:, 1]].set(CLEAN)` -/
def cleanTiles (grid : Jx.Grid Int) (locs : List Pos) : Jx.Grid Int :=
  locs.foldl (fun g p => Jx.Grid.setWD g p.1 p.2 CLEAN) grid

/-- number of cells where two grids of the same shape differ -/
def countDiff (g g' : Jx.Grid Int) : Nat :=
  Jx.sumNat (List.zipWith (fun r r' => Jx.countTrue (List.zipWith (fun x y => x != y) r r')) g g')

/-- `_compute_reward` -/
def reward (cfg : Cfg) (prev next : Jx.Grid Int) : Rat := (countDiff prev next : Rat) - cfg.penalty

def anyDirty (g : Jx.Grid Int) : Bool := Jx.Grid.any (fun x => x == DIRTY) g

/-- `_should_terminate` -/
def shouldTerminate (cfg : Cfg) (s' : State) (valid : List Bool) : Bool :=
  !(valid.all id) || !(anyDirty s'.grid) || decide (s'.stepCount ≥ cfg.timeLimit)

/-- `_observation_from_state`: copies the state fields (including the cached mask) -/
def obsOf (s : State) : Obs :=
  { grid := s.grid, agents := s.agents, actionMask := s.actionMask, stepCount := s.stepCount }

def step (cfg : Cfg) (s : State) (action : List Int) : State × TimeStep Obs :=
  let valid := isActionValid action s.actionMask
  let locs := updateLocs s.agents action valid
  let grid := cleanTiles s.grid locs
  let s' : State := { agents := locs, grid := grid, actionMask := computeMask cfg grid locs,
                      stepCount := s.stepCount + 1 }
  let r := reward cfg s.grid s'.grid
  let o := obsOf s'
  let done := shouldTerminate cfg s' valid
  (s', condLast done [r] o)

/-! ### L2: the rules -/

/-- direction of action `a`: 0 up, 1 right, 2 down, 3 left (row grows downwards) -/
def dir : Nat → Pos
  | 0 => (-1, 0)
  | 1 => (0, 1)
  | 2 => (1, 0)
  | 3 => (0, -1)
  | _ => (0, 0)

def dest (p : Pos) (a : Nat) : Pos := (p.1 + (dir a).1, p.2 + (dir a).2)

/-- `p` is a cell of the `numRows × numCols` grid -/
def inGrid (cfg : Cfg) (p : Pos) : Prop :=
  0 ≤ p.1 ∧ p.1 < (cfg.numRows : Int) ∧ 0 ≤ p.2 ∧ p.2 < (cfg.numCols : Int)
instance (cfg : Cfg) (p : Pos) : Decidable (inGrid cfg p) := by unfold inGrid; infer_instance

/-- plain lookup (no wrapping); cells that do not exist count as walls -/
def tile (g : Jx.Grid Int) (p : Pos) : Int := Jx.Grid.get g WALL p.1.toNat p.2.toNat

/-- `p` is a cell of the grid that is not a wall -/
def free (cfg : Cfg) (g : Jx.Grid Int) (p : Pos) : Prop := inGrid cfg p ∧ tile g p ≠ WALL
instance (cfg : Cfg) (g : Jx.Grid Int) (p : Pos) : Decidable (free cfg g p) := by unfold free; infer_instance

/-- an agent standing at `loc` may play `a` iff `a` is one of the four directions and leads to a free cell -/
def legalAt (cfg : Cfg) (g : Jx.Grid Int) (loc : Pos) (a : Nat) : Prop := a < 4 ∧ free cfg g (dest loc a)
instance (cfg : Cfg) (g : Jx.Grid Int) (loc : Pos) (a : Nat) : Decidable (legalAt cfg g loc a) := by
  unfold legalAt; infer_instance

/-- legality of action `a` for agent `i` (an agent that does not exist has no legal action) -/
def legal (cfg : Cfg) (s : State) (i a : Nat) : Prop :=
  match s.agents[i]? with
  | some loc => legalAt cfg s.grid loc a
  | none => False
instance (cfg : Cfg) (s : State) (i a : Nat) : Decidable (legal cfg s i a) := by
  unfold legal; split <;> infer_instance

/-- the mask the rules prescribe, shape `(num_agents, 4)` -/
def legalMask (cfg : Cfg) (g : Jx.Grid Int) (agents : List Pos) : List (List Bool) :=
  agents.map (fun loc => (List.range 4).map (fun a => decide (legalAt cfg g loc a)))

/-- per-agent legality of a joint action -/
def legalJoint (cfg : Cfg) (s : State) (action : List Nat) : List Bool :=
  List.zipWith (fun loc a => decide (legalAt cfg s.grid loc a)) s.agents action

/-- documented observation: grid, locations, step count, and the mask of the moves possible NOW -/
def observe (cfg : Cfg) (s : State) : Obs :=
  { grid := s.grid, agents := s.agents, actionMask := legalMask cfg s.grid s.agents, stepCount := s.stepCount }

/-- every agent moves if its action is legal and stays otherwise -/
def moveSpec (cfg : Cfg) (g : Jx.Grid Int) (agents : List Pos) (action : List Nat) : List Pos :=
  List.zipWith (fun loc a => if legalAt cfg g loc a then dest loc a else loc) agents action

/-- the tile `(r, c)` after the agents at `locs` have cleaned: clean if an agent stands on it -/
def cleanSpec (g : Jx.Grid Int) (locs : List Pos) : Jx.Grid Int :=
  List.mapIdx (fun r row => List.mapIdx (fun c v => if ((r : Int), (c : Int)) ∈ locs then CLEAN else v) row) g

def countTiles (v : Int) (g : Jx.Grid Int) : Nat := Jx.Grid.count (fun x => x == v) g

/-- the successor prescribed by the rules -/
def nextSpec (cfg : Cfg) (s : State) (action : List Nat) : State :=
  let locs := moveSpec cfg s.grid s.agents action
  let g := cleanSpec s.grid locs
  { grid := g, agents := locs, actionMask := legalMask cfg g locs, stepCount := s.stepCount + 1 }

/-- reward: dirty tiles that became clean in this step, minus the penalty -/
def rewardSpec (cfg : Cfg) (s s' : State) : Rat :=
  ((countTiles DIRTY s.grid - countTiles DIRTY s'.grid : Nat) : Rat) - cfg.penalty

/-- why an episode ends -/
def endsSpec (cfg : Cfg) (s : State) (action : List Nat) (s' : State) : Prop :=
  (legalJoint cfg s action).any (fun b => !b) = true ∨ countTiles DIRTY s'.grid = 0 ∨ s'.stepCount ≥ cfg.timeLimit
instance (cfg : Cfg) (s : State) (a : List Nat) (s' : State) : Decidable (endsSpec cfg s a s') := by
  unfold endsSpec; infer_instance

def stepSpec (cfg : Cfg) (s : State) (action : List Nat) : State × TimeStep Obs :=
  let s' := nextSpec cfg s action
  (s', condLast (decide (endsSpec cfg s action s')) [rewardSpec cfg s s'] (observe cfg s'))

/-- the return of an episode recomputed from its final state: tiles cleaned (every clean tile except the
start tile, which is clean from the beginning) minus the penalties of the steps played -/
def objective (cfg : Cfg) (s : State) : Rat :=
  ((countTiles CLEAN s.grid : Nat) : Rat) - 1 - cfg.penalty * (s.stepCount : Rat)

/-- potential whose increments are the rewards: clean tiles − penalty · steps -/
def potential (cfg : Cfg) (s : State) : Rat :=
  ((countTiles CLEAN s.grid : Nat) : Rat) - cfg.penalty * (s.stepCount : Rat)

/-- shapes, tile values, and freshness of the cached mask -/
def Inv (cfg : Cfg) (s : State) : Prop :=
  Jx.Grid.shaped s.grid cfg.numRows cfg.numCols = true ∧ s.agents.length = cfg.numAgents ∧
  s.actionMask = legalMask cfg s.grid s.agents
instance (cfg : Cfg) (s : State) : Decidable (Inv cfg s) := by unfold Inv; infer_instance

/-- physically possible configuration: well-shaped grid of tiles 0/1/2, the right number of agents, every
agent on a cell of the grid that is not a wall and that is clean, the stored mask agrees with the grid -/
def Consistent (cfg : Cfg) (s : State) : Prop :=
  Inv cfg s ∧ Jx.Grid.all (fun v => v == DIRTY || v == CLEAN || v == WALL) s.grid = true ∧
  ∀ p ∈ s.agents, inGrid cfg p ∧ tile s.grid p = CLEAN
instance (cfg : Cfg) (s : State) : Decidable (Consistent cfg s) := by unfold Consistent; infer_instance

/-- C05 on an implementation transition whose joint action has an illegal component: the episode ends, the
offending agents stay where they are, the others move, and the rest is the ordinary successor
(tiles under agents cleaned, ordinary reward — compared within `tol` because the implementation subtracts the
penalty in float32) -/
def illegalTerminates (cfg : Cfg) (tol : Rat) (s : State) (action : List Nat) (s' : State) (ts : TimeStep Obs) :
    Bool :=
  (ts.stepType == .last) && decide (s'.agents = moveSpec cfg s.grid s.agents action) &&
  decide (s'.grid = cleanSpec s.grid s'.agents) && decide (s'.stepCount = s.stepCount + 1) &&
  (match ts.reward with
   | [r] => decide (r - rewardSpec cfg s s' ≤ tol) && decide (rewardSpec cfg s s' - r ≤ tol)
   | _ => false) && decide (ts.discount = [0])

/-- C07: walls never change, clean tiles stay clean, the number of tiles is constant -/
def conserved (s s' : State) : Bool :=
  decide (s'.agents.length = s.agents.length) &&
  decide (Jx.Grid.map (fun v => decide (v = WALL)) s'.grid = Jx.Grid.map (fun v => decide (v = WALL)) s.grid) &&
  Jx.Grid.all id (Jx.Grid.zipWith (fun v v' => v != CLEAN || v' == CLEAN) s.grid s'.grid)

end Cleaner
