/-
Cleaner, property C10: the instance generator (jumanji/environments/routing/cleaner/generator.py,
`RandomGenerator.__call__`) on top of the shared recursive-division maze generator
(commons/maze_utils/maze_generation.py, certificate in Env/Maze/MazeGen.lean), and the decidable certificate
`resetCert` evaluated by the `cleaner.instance` op on every reset state of the implementation.
Import-free, executable, total.  Proofs: Env/Cleaner/GenLemmas.lean, theorems: Props/Env/Cleaner.lean (C10).
-/
import JumanjiModel.Env.Cleaner.Model
import JumanjiModel.Env.Cleaner.Bounds
import JumanjiModel.Env.Maze.MazeGen
namespace Cleaner
open Jm

/-- `_adapt_values`: `where(maze == EMPTY, DIRTY, maze)` then `where(maze == maze_generation.WALL, WALL, maze)`;
the maze is given as its wall map (`true` = `maze_generation.WALL`) -/
def adaptValues (maze : Jx.Grid Bool) : Jx.Grid Int := Jx.Grid.map (fun w => if w then WALL else DIRTY) maze

/-- `RandomGenerator.__call__` after the maze has been drawn (the maze is the draw parameter): tiles adapted,
`grid.at[0, 0].set(CLEAN)` (static indices), all agents at `(0, 0)`, `action_mask=None`, `step_count = 0` -/
def generate (cfg : Cfg) (maze : Jx.Grid Bool) : State :=
  { grid := Jx.Grid.set (adaptValues maze) 0 0 CLEAN,
    agents := List.replicate cfg.numAgents (0, 0),
    actionMask := [],
    stepCount := 0 }

/-- the wall map of a Cleaner grid (`true` = WALL), in the layout of `MazeGen` -/
def wallMap (g : Jx.Grid Int) : Jx.Grid Bool := Jx.Grid.map (fun v => decide (v = WALL)) g

/-- every cell other than the origin is DIRTY or a WALL -/
def othersDirty (cfg : Cfg) (g : Jx.Grid Int) : Bool :=
  (Jx.Grid.coords cfg.numRows cfg.numCols).all fun p =>
    (p.1 == 0 && p.2 == 0) || tile g ((p.1 : Int), (p.2 : Int)) == DIRTY || tile g ((p.1 : Int), (p.2 : Int)) == WALL

/-- the C10 certificate of a reset state: well-shaped grid of tiles 0/1/2 whose wall map is a recursive-division
maze; all agents on the origin; the origin is CLEAN; every other cell is DIRTY or WALL; the counter is 0; the
stored mask is the mask of the rules -/
def resetCert (cfg : Cfg) (s : State) : Bool :=
  Jx.Grid.shaped s.grid cfg.numRows cfg.numCols &&
  Jx.Grid.all (fun v => v == DIRTY || v == CLEAN || v == WALL) s.grid &&
  MazeGen.isRecursiveDivisionMaze (wallMap s.grid) cfg.numRows cfg.numCols &&
  decide (s.agents = List.replicate cfg.numAgents (0, 0)) &&
  decide (tile s.grid (0, 0) = CLEAN) &&
  othersDirty cfg s.grid &&
  decide (s.stepCount = 0) &&
  decide (s.actionMask = legalMask cfg s.grid s.agents)

/-- the implementation's reset state is the model's `reset ∘ generate` applied to its own wall map -/
def generateMatches (cfg : Cfg) (s : State) : Bool :=
  decide (s = (reset cfg (generate cfg (wallMap s.grid))).1)

/-- every component of every joint action of `as` is legal (by the rules) in the state in which it is played -/
def AllLegal (cfg : Cfg) : State → List (List Nat) → Prop
  | _, [] => True
  | s, a :: as => (∀ b ∈ legalJoint cfg s a, b = true) ∧ AllLegal cfg (step cfg s (a.map Int.ofNat)).1 as

end Cleaner
