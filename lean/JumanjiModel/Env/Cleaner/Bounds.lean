/-
Cleaner, property C01: the interval in which every numeric leaf of the MODEL's observation provably stays
(`obsBounds`, a function of the configuration only), the flattened leaves of an observation (`obsLeaves`, keys =
paths of the leaves of the real `observation_spec`), and the transliteration of `Cleaner.reset` on top of the
generator's output.  Import-free.  Proofs: Env/Cleaner/BoundsLemmas.lean, theorems: Props/Env/Cleaner.lean (C01).
-/
import JumanjiModel.Env.Cleaner.Model
namespace Cleaner
open Jm

/-- `reset`: `state = generator(key)` (the generated state `g` is the draw); the mask is computed for
`agents_locations = zeros((num_agents, 2))` (not read from the generated state); the observation copies the
state; `restart` -/
def reset (cfg : Cfg) (g : State) : State × TimeStep Obs :=
  let s : State := { g with actionMask := computeMask cfg g.grid (List.replicate cfg.numAgents (0, 0)) }
  (s, restart (obsOf s))

/-- closed integer interval as a pair of optional rational ends -/
def ivInt (lo hi : Int) : Option Rat × Option Rat := (some (lo : Rat), some (hi : Rat))

def b2r (b : Bool) : Rat := if b then 1 else 0

/-- value bounds of the observation leaves, from the configuration only: tiles 0..2; locations inside the grid
(one interval for the whole `(num_agents, 2)` leaf: the larger of the two extents, minus one); booleans 0..1;
`step_count` between 0 and `time_limit` (reached on the terminal step) -/
def obsBounds (cfg : Cfg) : List (String × Option Rat × Option Rat) :=
  [("grid", ivInt 0 2),
   ("agents_locations", ivInt 0 (max (cfg.numRows : Int) (cfg.numCols : Int) - 1)),
   ("action_mask", ivInt 0 1),
   ("step_count", ivInt 0 cfg.timeLimit)]

/-- all values of every leaf of an observation -/
def obsLeaves (o : Obs) : List (String × List Rat) :=
  [("grid", (List.flatten o.grid).map (fun (v : Int) => (v : Rat))),
   ("agents_locations", (o.agents.flatMap (fun p => [p.1, p.2])).map (fun (v : Int) => (v : Rat))),
   ("action_mask", (List.flatten o.actionMask).map b2r),
   ("step_count", [(o.stepCount : Rat)])]

/-- `v` lies in the interval (`none` = unbounded on that side) -/
def inIv (iv : Option Rat × Option Rat) (v : Rat) : Prop :=
  (∀ l, iv.1 = some l → l ≤ v) ∧ (∀ h, iv.2 = some h → v ≤ h)

/-- every value of every leaf listed in `obsBounds cfg` lies in its interval -/
def ObsInBounds (cfg : Cfg) (o : Obs) : Prop :=
  ∀ k iv, (k, iv) ∈ obsBounds cfg → ∀ vs, (k, vs) ∈ obsLeaves o → ∀ v ∈ vs, inIv iv v

/-- the part of `Consistent` the bounds need: tile values 0/1/2 and agents on cells of the grid -/
def TilesAndAgentsOK (cfg : Cfg) (s : State) : Prop :=
  Jx.Grid.all (fun v => v == DIRTY || v == CLEAN || v == WALL) s.grid = true ∧ ∀ p ∈ s.agents, inGrid cfg p

end Cleaner
