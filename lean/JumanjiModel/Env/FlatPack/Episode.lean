/-
FlatPack: refinement `step = stepL2` (C09) and whole-episode return theorems (C08).

Episodes are lists of actions `(block, rotation, row, column)` played from a state until the first LAST
timestep (`returnOf`, `endState`).  `InSpecAll` = every action belongs to the action space (legal or not: an
illegal one is ignored by the environment); `LegalEpisode` = every action legal where it is played and LAST
exactly at the last one.
-/
import JumanjiModel.Env.FlatPack.InvLemmas
import JumanjiModel.Env.FlatPack.SpecLemmas
namespace FlatPack
open Jm

theorem state_ext {s t : State} (h1 : s.grid = t.grid) (h2 : s.numBlocks = t.numBlocks)
    (h3 : s.blocks = t.blocks) (h4 : s.actionMask = t.actionMask) (h5 : s.placed = t.placed)
    (h6 : s.stepCount = t.stepCount) : s = t := by
  cases s; cases t; simp_all

/-! ### C09: the grid of a legal placement, the reward of a placement, the termination flag -/

/-- adding the expanded block to the grid (what the code does) = writing the block's cells into the grid (the
rule), as long as the cells of the pose are empty -/
theorem add_eq_writeBlock (cfg : Cfg) (g blk : G) (k r c : Nat)
    (hg : Jx.Grid.shaped g cfg.numRows cfg.numCols = true)
    (hfree : ∀ p ∈ poseCells blk k r c, Jx.Grid.get g 1 p.1 p.2 = 0) :
    tab cfg.numRows cfg.numCols (fun i j => Jx.Grid.get g 0 i j + addAt blk k r c i j) =
      writeBlock cfg g blk k r c := by
  unfold tab writeBlock
  apply List.map_congr_left
  intro i hi
  apply List.map_congr_left
  intro j hj
  rw [List.mem_range] at hi hj
  show Jx.Grid.get g 0 i j + addAt blk k r c i j = _
  unfold addAt
  by_cases hbox : r ≤ i ∧ i < r + 3 ∧ c ≤ j ∧ j < c + 3
  · by_cases hne : Jx.Grid.get (rotateBlock blk (k : Int)) 0 (i - r) (j - c) = 0
    · have : ¬ ((r ≤ i ∧ i < r + 3 ∧ c ≤ j ∧ j < c + 3) ∧
          Jx.Grid.get (rotateBlock blk (k : Int)) 0 (i - r) (j - c) ≠ 0) := fun h => h.2 hne
      rw [if_pos hbox, if_neg this, hne]; rfl
    · have h0 := hfree (i, j) ((mem_poseCells blk k r c (i, j)).2 ⟨hbox, hne⟩)
      rw [get_default hg 1 0 hi hj] at h0
      rw [if_pos hbox, if_pos ⟨hbox, hne⟩, h0, Nat.zero_add]
  · have : ¬ ((r ≤ i ∧ i < r + 3 ∧ c ≤ j ∧ j < c + 3) ∧
        Jx.Grid.get (rotateBlock blk (k : Int)) 0 (i - r) (j - c) ≠ 0) := fun h => hbox h.1
    rw [if_neg hbox, if_neg this]; rfl

/-- the picture of a pose inside the grid has as many non-zero cells as the block -/
theorem countNonzero_addAt (cfg : Cfg) (blk : G) (hs : Jx.Grid.shaped blk 3 3 = true) (k r c : Nat)
    (hr : r + 3 ≤ cfg.numRows) (hc : c + 3 ≤ cfg.numCols) :
    countNonzero (tab cfg.numRows cfg.numCols (fun i j => addAt blk k r c i j)) = countNonzero blk := by
  rw [countNonzero_tab, ← poseCells_length hs k r c]
  apply sameMembers_length ((nodup_coords _ _).filter _) (nodup_poseCells _ _ _ _)
  intro p
  rw [List.mem_filter, mem_coords, mem_poseCells]
  simp only [bne_iff_ne, ne_eq]
  unfold addAt
  constructor
  · rintro ⟨_, h⟩
    split at h
    · rename_i hbox; exact ⟨hbox, h⟩
    · exact absurd rfl h
  · rintro ⟨hbox, h⟩
    exact ⟨⟨by omega, by omega⟩, by rw [if_pos hbox]; exact h⟩

theorem countTrue_all {l : List Bool} (h : l.all id = true) : Jx.countTrue l = l.length := by
  unfold Jx.countTrue
  rw [List.filter_eq_self.2]
  intro a ha
  exact (List.all_eq_true.1 h) a ha

theorem all_of_countTrue {l : List Bool} (h : Jx.countTrue l = l.length) : l.all id = true := by
  unfold Jx.countTrue at h
  rw [List.length_filter_eq_length_iff] at h
  exact List.all_eq_true.2 h

theorem countTrue_le (l : List Bool) : Jx.countTrue l ≤ l.length := by
  unfold Jx.countTrue; exact List.length_filter_le _ _

/-- each step places at most one block -/
theorem step_countTrue_le (rnd : Rat → Rat) (cfg : Cfg) (s : State) (b k r c : Nat)
    (hm : s.actionMask = legalMask cfg s) (hin : inSpec cfg b k r c = true) :
    Jx.countTrue (step rnd cfg s (act b k r c)).1.placed ≤ Jx.countTrue s.placed + 1 := by
  by_cases hl : legal cfg s b k r c
  · obtain ⟨_, hbp, hunp, _⟩ := legal_unfold hl
    have hmask := legal_mask hm hl
    have ep : (step rnd cfg s (act b k r c)).1.placed = s.placed.set b true := by
      simp only [step, hmask, if_true]
      simp only [act]
      exact Jx.setWD_nat _ _ hbp
    rw [ep, countTrue_set hbp hunp]; omega
  · obtain ⟨_, h2, _⟩ := step_illegal_fields rnd cfg s b k r c hm hin hl
    rw [h2]; omega

/-- a legal step places exactly one more block -/
theorem step_countTrue_legal (rnd : Rat → Rat) (cfg : Cfg) (s : State) (b k r c : Nat)
    (hm : s.actionMask = legalMask cfg s) (hl : legal cfg s b k r c) :
    Jx.countTrue (step rnd cfg s (act b k r c)).1.placed = Jx.countTrue s.placed + 1 := by
  obtain ⟨_, hbp, hunp, _⟩ := legal_unfold hl
  have hmask := legal_mask hm hl
  have ep : (step rnd cfg s (act b k r c)).1.placed = s.placed.set b true := by
    simp only [step, hmask, if_true]
    simp only [act]
    exact Jx.setWD_nat _ _ hbp
  rw [ep, countTrue_set hbp hunp]

/-- "all blocks placed or `num_blocks` steps taken" (the documented end) is the code's `step_count >= num_blocks`
in every state in which no more blocks are placed than steps were taken -/
theorem done_eq_doc (cfg : Cfg) (s' : State) (hf : Feasible cfg s')
    (hc : Jx.countTrue s'.placed ≤ s'.stepCount) :
    (s'.placed.all id || decide (s'.numBlocks ≤ s'.stepCount)) = decide (s'.stepCount ≥ s'.numBlocks) := by
  obtain ⟨⟨_, hpl, hnb, _⟩, _⟩ := (feasible_iff cfg s').1 hf
  cases hall : s'.placed.all id
  · simp
  · have := countTrue_all hall
    have h : s'.numBlocks ≤ s'.stepCount := by omega
    simp [h]

theorem step_snd (rnd : Rat → Rat) (cfg : Cfg) (s : State) (a : Action) :
    (step rnd cfg s a).2 =
      condLast (decide ((step rnd cfg s a).1.stepCount ≥ (step rnd cfg s a).1.numBlocks))
        [reward rnd cfg s (expandBlock cfg (rotateBlock (Jx.getWC s.blocks [] a.block) a.rot) a.row a.col)
          (maskAt s.actionMask a)]
        (observeL1 (step rnd cfg s a).1) := rfl

theorem stepL2_snd (rnd : Rat → Rat) (cfg : Cfg) (s : State) (b k r c : Nat) :
    (stepL2 rnd cfg s b k r c).2 =
      (if ((stepL2 rnd cfg s b k r c).1.placed.all id ||
            decide ((stepL2 rnd cfg s b k r c).1.numBlocks ≤ (stepL2 rnd cfg s b k r c).1.stepCount)) = true
       then termination [if legalB cfg s b k r c = true then rewardL2 rnd cfg s b else 0]
              (observe (stepL2 rnd cfg s b k r c).1)
       else transition [if legalB cfg s b k r c = true then rewardL2 rnd cfg s b else 0]
              (observe (stepL2 rnd cfg s b k r c).1)) := rfl

theorem stepL2_fst_legal (rnd : Rat → Rat) (cfg : Cfg) (s : State) (b k r c : Nat)
    (h : legalB cfg s b k r c = true) :
    (stepL2 rnd cfg s b k r c).1.grid = writeBlock cfg s.grid (s.blocks.getD b []) k r c ∧
    (stepL2 rnd cfg s b k r c).1.numBlocks = s.numBlocks ∧
    (stepL2 rnd cfg s b k r c).1.blocks = s.blocks ∧
    (stepL2 rnd cfg s b k r c).1.placed = s.placed.set b true ∧
    (stepL2 rnd cfg s b k r c).1.stepCount = s.stepCount + 1 := by
  simp [stepL2, h]

theorem stepL2_fst_illegal (rnd : Rat → Rat) (cfg : Cfg) (s : State) (b k r c : Nat)
    (h : legalB cfg s b k r c = false) :
    (stepL2 rnd cfg s b k r c).1.grid = s.grid ∧
    (stepL2 rnd cfg s b k r c).1.numBlocks = s.numBlocks ∧
    (stepL2 rnd cfg s b k r c).1.blocks = s.blocks ∧
    (stepL2 rnd cfg s b k r c).1.placed = s.placed ∧
    (stepL2 rnd cfg s b k r c).1.stepCount = s.stepCount + 1 := by
  simp [stepL2, h]

theorem stepL2_mask (rnd : Rat → Rat) (cfg : Cfg) (s : State) (b k r c : Nat) :
    (stepL2 rnd cfg s b k r c).1.actionMask = legalMask cfg (stepL2 rnd cfg s b k r c).1 := by
  simp only [stepL2]
  exact (legalMask_congr cfg rfl rfl rfl).symm

/-- successor states agree -/
theorem step_state_eq (rnd : Rat → Rat) (cfg : Cfg) (s : State) (b k r c : Nat) (hi : Inv cfg s)
    (hin : inSpec cfg b k r c = true) :
    (step rnd cfg s (act b k r c)).1 = (stepL2 rnd cfg s b k r c).1 := by
  have hi' := step_inv rnd cfg s b k r c hi hin
  obtain ⟨hf, hm⟩ := hi
  obtain ⟨⟨hbl, _, _, _, _⟩, hg, _⟩ := (feasible_iff cfg s).1 hf
  by_cases hl : legal cfg s b k r c
  · obtain ⟨eg, ep, eb, en⟩ := step_legal_fields rnd cfg s b k r c hg hbl hm hl
    obtain ⟨_, _, _, hfree⟩ := legal_unfold hl
    obtain ⟨g2, n2, b2, p2, c2⟩ := stepL2_fst_legal rnd cfg s b k r c hl
    have hgrid : (step rnd cfg s (act b k r c)).1.grid = (stepL2 rnd cfg s b k r c).1.grid := by
      rw [eg, g2]; exact add_eq_writeBlock cfg s.grid _ k r c hg hfree
    have hpl : (step rnd cfg s (act b k r c)).1.placed = (stepL2 rnd cfg s b k r c).1.placed := by
      rw [ep, p2]
    have hbk : (step rnd cfg s (act b k r c)).1.blocks = (stepL2 rnd cfg s b k r c).1.blocks := by
      rw [eb, b2]
    refine state_ext hgrid (by rw [en, n2]) hbk ?_ hpl (by rw [step_count, c2])
    rw [hi'.2, stepL2_mask]
    exact (legalMask_congr cfg hgrid.symm hbk.symm hpl.symm).symm
  · have hl' : legalB cfg s b k r c = false := by
      unfold legal at hl; simpa using hl
    obtain ⟨eg, ep, eb, en, _⟩ := step_illegal_fields rnd cfg s b k r c hm hin hl
    obtain ⟨g2, n2, b2, p2, c2⟩ := stepL2_fst_illegal rnd cfg s b k r c hl'
    have hgrid : (step rnd cfg s (act b k r c)).1.grid = (stepL2 rnd cfg s b k r c).1.grid := by
      rw [eg, g2]
    have hpl : (step rnd cfg s (act b k r c)).1.placed = (stepL2 rnd cfg s b k r c).1.placed := by
      rw [ep, p2]
    have hbk : (step rnd cfg s (act b k r c)).1.blocks = (stepL2 rnd cfg s b k r c).1.blocks := by
      rw [eb, b2]
    refine state_ext hgrid (by rw [en, n2]) hbk ?_ hpl (by rw [step_count, c2])
    rw [hi'.2, stepL2_mask]
    exact (legalMask_congr cfg hgrid.symm hbk.symm hpl.symm).symm

/-- rewards agree -/
theorem step_reward_eq (rnd : Rat → Rat) (cfg : Cfg) (s : State) (b k r c : Nat) (hi : Inv cfg s)
    (hin : inSpec cfg b k r c = true) :
    reward rnd cfg s (expandBlock cfg (rotateBlock (Jx.getWC s.blocks [] (act b k r c).block) (act b k r c).rot)
        (act b k r c).row (act b k r c).col) (maskAt s.actionMask (act b k r c)) =
      (if legalB cfg s b k r c = true then rewardL2 rnd cfg s b else 0) := by
  obtain ⟨hf, hm⟩ := hi
  obtain ⟨⟨hbl, _, _, hblk, _⟩, hg, _⟩ := (feasible_iff cfg s).1 hf
  have hin' := hin
  simp only [inSpec, Bool.and_eq_true, decide_eq_true_eq] at hin'
  obtain ⟨⟨⟨hb1, hk⟩, hr⟩, hc⟩ := hin'
  have hb : b < s.blocks.length := by omega
  rw [hm, maskAt_legalMask cfg s hin]
  cases hl : legalB cfg s b k r c
  · simp [reward]
  · have hmem : s.blocks.getD b [] ∈ s.blocks := by
      simp only [List.getD_eq_getElem?_getD, List.getElem?_eq_getElem hb, Option.getD_some]
      exact List.getElem_mem hb
    have hblock : expandBlock cfg (rotateBlock (Jx.getWC s.blocks [] (b : Int)) (k : Int)) (r : Int) (c : Int) =
        tab cfg.numRows cfg.numCols (fun i j => addAt (s.blocks.getD b []) k r c i j) := by
      rw [Jx.getWC_nat _ _ hb, expandBlock_tab cfg _ hr hc]
      rfl
    simp only [act, reward, rewardL2, if_true, hblock,
      countNonzero_addAt cfg _ (hblk _ hmem).1 k r c hr hc]

/-- C09: L1 = L2 on every state satisfying the episode invariant and every action of the action space -/
theorem step_eq_spec (rnd : Rat → Rat) (cfg : Cfg) (s : State) (b k r c : Nat) (hi : Inv cfg s)
    (hc : Jx.countTrue s.placed ≤ s.stepCount) (hin : inSpec cfg b k r c = true) :
    step rnd cfg s (act b k r c) = stepL2 rnd cfg s b k r c := by
  have h1 := step_state_eq rnd cfg s b k r c hi hin
  have hi' := step_inv rnd cfg s b k r c hi hin
  have hc' : Jx.countTrue (step rnd cfg s (act b k r c)).1.placed ≤ (step rnd cfg s (act b k r c)).1.stepCount := by
    have := step_countTrue_le rnd cfg s b k r c hi.2 hin
    rw [step_count]; omega
  apply Prod.ext h1
  rw [step_snd, stepL2_snd, ← h1, step_reward_eq rnd cfg s b k r c hi hin, done_eq_doc cfg _ hi'.1 hc']
  unfold condLast
  rfl

/-! ### episodes -/

abbrev Act4 := Nat × Nat × Nat × Nat

def stepA (rnd : Rat → Rat) (cfg : Cfg) (s : State) (a : Act4) : State × TimeStep Obs :=
  step rnd cfg s (act a.1 a.2.1 a.2.2.1 a.2.2.2)

def inSpecA (cfg : Cfg) (a : Act4) : Bool := inSpec cfg a.1 a.2.1 a.2.2.1 a.2.2.2
def legalA (cfg : Cfg) (s : State) (a : Act4) : Prop := legal cfg s a.1 a.2.1 a.2.2.1 a.2.2.2
instance (cfg : Cfg) (s : State) (a : Act4) : Decidable (legalA cfg s a) := by unfold legalA; infer_instance

/-- sum of the rewards of the episode `as` played from `s` (up to and including the first LAST) -/
def returnOf (rnd : Rat → Rat) (cfg : Cfg) : State → List Act4 → Rat
  | _, [] => 0
  | s, a :: as =>
    (stepA rnd cfg s a).2.reward.sum +
      (if (stepA rnd cfg s a).2.stepType = .last then 0 else returnOf rnd cfg (stepA rnd cfg s a).1 as)

def endState (rnd : Rat → Rat) (cfg : Cfg) : State → List Act4 → State
  | s, [] => s
  | s, a :: as =>
    if (stepA rnd cfg s a).2.stepType = .last then (stepA rnd cfg s a).1
    else endState rnd cfg (stepA rnd cfg s a).1 as

def InSpecAll (cfg : Cfg) (as : List Act4) : Prop := ∀ a ∈ as, inSpecA cfg a = true
instance (cfg : Cfg) (as : List Act4) : Decidable (InSpecAll cfg as) := by unfold InSpecAll; infer_instance

/-- a complete episode of legal actions: LAST exactly at the last action -/
def LegalEpisode (rnd : Rat → Rat) (cfg : Cfg) : State → List Act4 → Prop
  | _, [] => False
  | s, a :: as =>
    legalA cfg s a ∧
      (if (stepA rnd cfg s a).2.stepType = .last then as = []
       else LegalEpisode rnd cfg (stepA rnd cfg s a).1 as)

instance decLegalEpisode (rnd : Rat → Rat) (cfg : Cfg) :
    (s : State) → (as : List Act4) → Decidable (LegalEpisode rnd cfg s as)
  | _, [] => isFalse (fun h => h)
  | s, a :: as =>
    have := decLegalEpisode rnd cfg (stepA rnd cfg s a).1 as
    inferInstanceAs (Decidable (legalA cfg s a ∧
      (if (stepA rnd cfg s a).2.stepType = .last then as = []
       else LegalEpisode rnd cfg (stepA rnd cfg s a).1 as)))

/-- C08: ANY sequence of actions of the action space (legal ones are executed, the others ignored), finished or
not: the rewards add up to the gain of the objective (covered fraction / placed fraction) recomputed from the
grid / the placed flags of the state in which the sequence ends (exact arithmetic) -/
theorem return_any (cfg : Cfg) :
    ∀ (s : State) (as : List Act4), Inv cfg s → InSpecAll cfg as →
      returnOf id cfg s as = objective cfg (endState id cfg s as) - objective cfg s
  | s, [], _, _ => by simp only [returnOf, endState]; grind
  | s, a :: as, hi, hin => by
    have ha : inSpec cfg a.1 a.2.1 a.2.2.1 a.2.2.2 = true := hin a (by simp)
    have ht : objective cfg (stepA id cfg s a).1 = objective cfg s + (stepA id cfg s a).2.reward.sum :=
      objective_step cfg s a.1 a.2.1 a.2.2.1 a.2.2.2 hi ha
    have hi' : Inv cfg (stepA id cfg s a).1 := step_inv id cfg s a.1 a.2.1 a.2.2.1 a.2.2.2 hi ha
    by_cases hlast : (stepA id cfg s a).2.stepType = .last
    · simp only [returnOf, endState, if_pos hlast]
      rw [ht]; grind
    · simp only [returnOf, endState, if_neg hlast]
      rw [return_any cfg _ as hi' (fun x hx => hin x (by simp [hx])), ht]; grind

/-! ### the fresh instance -/

theorem countNonzero_mk (R C : Nat) : countNonzero (Jx.Grid.mk R C 0) = 0 := by
  unfold countNonzero Jx.Grid.count
  rw [List.length_eq_zero_iff, List.filter_eq_nil_iff]
  intro v hv
  simp only [Jx.Grid.mk, List.mem_flatten, List.mem_replicate] at hv
  obtain ⟨l, hl, hv⟩ := hv
  rw [hl.2, List.mem_replicate] at hv
  simp [hv.2]

theorem countTrue_replicate_false (n : Nat) : Jx.countTrue (List.replicate n false) = 0 := by
  unfold Jx.countTrue
  rw [List.length_eq_zero_iff, List.filter_eq_nil_iff]
  intro v hv
  rw [List.mem_replicate] at hv
  simp [hv.2]

theorem freshOK_fields (cfg : Cfg) (s : State) (h : freshOK cfg s = true) :
    s.grid = Jx.Grid.mk cfg.numRows cfg.numCols 0 ∧ s.placed = List.replicate cfg.numBlocks false ∧
    s.stepCount = 0 ∧ s.actionMask = legalMask cfg s ∧
    (s.blocks.map countNonzero).foldl (· + ·) 0 = cfg.numRows * cfg.numCols := by
  simp only [freshOK, Bool.and_eq_true, beq_iff_eq, decide_eq_true_eq] at h
  obtain ⟨⟨⟨⟨h1, h2⟩, h3⟩, h4⟩, h5⟩ := h
  exact ⟨h1, h2, h3, h4, h5⟩

theorem fresh_objective (cfg : Cfg) (s : State) (h : freshOK cfg s = true) : objective cfg s = 0 := by
  obtain ⟨h1, h2, _⟩ := freshOK_fields cfg s h
  unfold objective coveredFraction placedFraction
  rw [h1, h2, countNonzero_mk, countTrue_replicate_false]
  split <;> simp [Rat.div_def, Rat.zero_mul]

theorem fresh_inv' (cfg : Cfg) (s : State) (hb : blocksOK cfg s = true) (h : freshOK cfg s = true) :
    Inv cfg s := by
  obtain ⟨h1, h2, _, h4, _⟩ := freshOK_fields cfg s h
  exact fresh_inv cfg s hb h1 h2 h4

/-- C08 from a generated instance: return = objective of the final state -/
theorem return_fresh (cfg : Cfg) (s : State) (as : List Act4) (hb : blocksOK cfg s = true)
    (h : freshOK cfg s = true) (hin : InSpecAll cfg as) :
    returnOf id cfg s as = objective cfg (endState id cfg s as) := by
  rw [return_any cfg s as (fresh_inv' cfg s hb h) hin, fresh_objective cfg s h]; grind

/-! ### the trajectory does not depend on the reward function -/

theorem step_state_reward_irrel (rnd : Rat → Rat) (cfg : Cfg) (d : Bool) (s : State) (a : Action) :
    (step rnd { cfg with cellDense := d } s a).1 = (step rnd cfg s a).1 := by
  simp only [step, expandBlock, makeActionMask]

theorem step_type_reward_irrel (rnd : Rat → Rat) (cfg : Cfg) (d : Bool) (s : State) (a : Action) :
    (step rnd { cfg with cellDense := d } s a).2.stepType = (step rnd cfg s a).2.stepType := by
  have h1 := (last_iff rnd { cfg with cellDense := d } s a)
  have h2 := (last_iff rnd cfg s a)
  simp only [step, condLast] at h1 h2 ⊢
  split <;> split <;> simp_all [termination, transition]

theorem endState_reward_irrel (rnd : Rat → Rat) (cfg : Cfg) (d : Bool) :
    ∀ (s : State) (as : List Act4), endState rnd { cfg with cellDense := d } s as = endState rnd cfg s as
  | _, [] => rfl
  | s, a :: as => by
    have e1 : (stepA rnd { cfg with cellDense := d } s a).1 = (stepA rnd cfg s a).1 :=
      step_state_reward_irrel rnd cfg d s _
    have e2 : (stepA rnd { cfg with cellDense := d } s a).2.stepType = (stepA rnd cfg s a).2.stepType :=
      step_type_reward_irrel rnd cfg d s _
    simp only [endState, e1, e2]
    split
    · rfl
    · exact endState_reward_irrel rnd cfg d _ as

/-! ### complete episodes: both reward functions return 1 -/

theorem rat_div_self_nat (n : Nat) (h : 0 < n) : ((n : Nat) : Rat) / ((n : Nat) : Rat) = 1 := by
  have : ((n : Nat) : Rat) ≠ 0 := by
    intro h0
    have := Rat.natCast_eq_zero_iff.1 h0
    omega
  rw [Rat.div_def]; exact Rat.mul_inv_cancel _ this

/-- a feasible final state with every block placed, the blocks having as many cells as the grid: the covered
fraction and the placed fraction are both 1 -/
theorem complete_objectives (cfg : Cfg) (s : State) (hf : Feasible cfg s) (hall : s.placed.all id = true)
    (hsum : (s.blocks.map countNonzero).foldl (· + ·) 0 = cfg.numRows * cfg.numCols)
    (hpos : 0 < cfg.numRows * cfg.numCols) (hnb : 0 < cfg.numBlocks) :
    coveredFraction cfg s = 1 ∧ placedFraction s = 1 := by
  obtain ⟨⟨_, hpl, hn, _⟩, _⟩ := (feasible_iff cfg s).1 hf
  have hcnt := feasible_count cfg s hf hall
  rw [List.sum_eq_foldl_nat, hsum] at hcnt
  constructor
  · unfold coveredFraction; rw [hcnt]; exact rat_div_self_nat _ hpos
  · unfold placedFraction; rw [countTrue_all hall, hpl, hn]; exact rat_div_self_nat _ hnb

/-- along legal play from a fresh instance the number of placed blocks is the number of steps -/
theorem legalEpisode_all_placed (rnd : Rat → Rat) (cfg : Cfg) :
    ∀ (s : State) (as : List Act4), Inv cfg s → Jx.countTrue s.placed = s.stepCount →
      LegalEpisode rnd cfg s as → (endState rnd cfg s as).placed.all id = true
  | _, [], _, _, h => h.elim
  | s, a :: as, hi, hc, h => by
    have hl : legal cfg s a.1 a.2.1 a.2.2.1 a.2.2.2 := h.1
    have hin := (legal_unfold hl).1
    have hi' := step_inv rnd cfg s a.1 a.2.1 a.2.2.1 a.2.2.2 hi hin
    have hc' : Jx.countTrue (stepA rnd cfg s a).1.placed = (stepA rnd cfg s a).1.stepCount := by
      unfold stepA
      rw [step_countTrue_legal rnd cfg s _ _ _ _ hi.2 hl, step_count, hc]
    have h2 := h.2
    simp only [endState]
    split
    · next hlast =>
      have hle := (last_iff rnd cfg s _).1 hlast
      obtain ⟨⟨_, hpl, hn, _⟩, _⟩ := (feasible_iff cfg _).1 hi'.1
      apply all_of_countTrue
      have hub := countTrue_le (stepA rnd cfg s a).1.placed
      have hsc : (stepA rnd cfg s a).1.stepCount = s.stepCount + 1 := step_count rnd cfg s _
      have hnn : (stepA rnd cfg s a).1.numBlocks = s.numBlocks := (step_numBlocks rnd cfg s _).1
      unfold stepA at hc' hub hsc hnn ⊢
      omega
    · next hne =>
      rw [if_neg hne] at h2
      exact legalEpisode_all_placed rnd cfg _ as hi' hc' h2

theorem legalEpisode_inSpec (rnd : Rat → Rat) (cfg : Cfg) :
    ∀ (s : State) (as : List Act4), LegalEpisode rnd cfg s as → InSpecAll cfg as
  | _, [], h => h.elim
  | s, a :: as, h => by
    intro x hx
    rcases List.mem_cons.1 hx with rfl | hx
    · exact (legal_unfold h.1).1
    · have h2 := h.2
      by_cases hl : (stepA rnd cfg s a).2.stepType = .last
      · rw [if_pos hl] at h2; subst h2; simp at hx
      · rw [if_neg hl] at h2
        exact legalEpisode_inSpec rnd cfg _ as h2 x hx

theorem endState_inv (rnd : Rat → Rat) (cfg : Cfg) :
    ∀ (s : State) (as : List Act4), Inv cfg s → InSpecAll cfg as → Inv cfg (endState rnd cfg s as)
  | s, [], hi, _ => hi
  | s, a :: as, hi, hin => by
    have ha : inSpec cfg a.1 a.2.1 a.2.2.1 a.2.2.2 = true := hin a (by simp)
    have hi' := step_inv rnd cfg s a.1 a.2.1 a.2.2.1 a.2.2.2 hi ha
    simp only [endState]
    split
    · exact hi'
    · exact endState_inv rnd cfg _ as hi' (fun x hx => hin x (by simp [hx]))

/-! ### the statements the property file quotes -/

theorem endState_blocks (rnd : Rat → Rat) (cfg : Cfg) :
    ∀ (s : State) (as : List Act4), (endState rnd cfg s as).blocks = s.blocks
  | _, [] => rfl
  | s, a :: as => by
    simp only [endState]
    split
    · exact (step_numBlocks rnd cfg s _).2
    · rw [endState_blocks rnd cfg _ as]; exact (step_numBlocks rnd cfg s _).2

theorem cell_return (cfg : Cfg) (s : State) (as : List Act4) (hcd : cfg.cellDense = true)
    (hb : blocksOK cfg s = true) (h : freshOK cfg s = true) (hin : InSpecAll cfg as) :
    returnOf id cfg s as = coveredFraction cfg (endState id cfg s as) := by
  rw [return_fresh cfg s as hb h hin]; unfold objective; rw [if_pos hcd]

theorem block_return (cfg : Cfg) (s : State) (as : List Act4) (hcd : cfg.cellDense = false)
    (hb : blocksOK cfg s = true) (h : freshOK cfg s = true) (hin : InSpecAll cfg as) :
    returnOf id cfg s as = placedFraction (endState id cfg s as) := by
  rw [return_fresh cfg s as hb h hin]; unfold objective; rw [hcd]; rfl

/-- an episode from a generated instance that ends with every block placed returns 1 (either reward function) -/
theorem complete_return_one (cfg : Cfg) (s : State) (as : List Act4) (hb : blocksOK cfg s = true)
    (h : freshOK cfg s = true) (hin : InSpecAll cfg as) (hall : (endState id cfg s as).placed.all id = true)
    (hpos : 0 < cfg.numRows * cfg.numCols) (hnb : 0 < cfg.numBlocks) :
    returnOf id cfg s as = 1 := by
  rw [return_fresh cfg s as hb h hin]
  have hi := endState_inv id cfg s as (fresh_inv' cfg s hb h) hin
  obtain ⟨_, _, _, _, hsum⟩ := freshOK_fields cfg s h
  rw [← endState_blocks id cfg s as] at hsum
  obtain ⟨h1, h2⟩ := complete_objectives cfg _ hi.1 hall hsum hpos hnb
  unfold objective; split
  · exact h1
  · exact h2

theorem complete_both_one (cfg : Cfg) (s : State) (as : List Act4) (hb : blocksOK cfg s = true)
    (h : freshOK cfg s = true) (hin : InSpecAll cfg as) (hall : (endState id cfg s as).placed.all id = true)
    (hpos : 0 < cfg.numRows * cfg.numCols) (hnb : 0 < cfg.numBlocks) :
    returnOf id { cfg with cellDense := true } s as = 1 ∧ returnOf id { cfg with cellDense := false } s as = 1 := by
  constructor
  · exact complete_return_one { cfg with cellDense := true } s as hb h hin
      (by rw [endState_reward_irrel]; exact hall) hpos hnb
  · exact complete_return_one { cfg with cellDense := false } s as hb h hin
      (by rw [endState_reward_irrel]; exact hall) hpos hnb

/-- a complete episode of legal actions from a generated instance places every block -/
theorem legalEpisode_complete (rnd : Rat → Rat) (cfg : Cfg) (s : State) (as : List Act4)
    (hb : blocksOK cfg s = true) (h : freshOK cfg s = true) (hep : LegalEpisode rnd cfg s as) :
    (endState rnd cfg s as).placed.all id = true := by
  obtain ⟨_, h2, h3, _⟩ := freshOK_fields cfg s h
  exact legalEpisode_all_placed rnd cfg s as (fresh_inv' cfg s hb h)
    (by rw [h2, h3, countTrue_replicate_false]) hep

theorem step_count_inv (rnd : Rat → Rat) (cfg : Cfg) (s : State) (b k r c : Nat) (hi : Inv cfg s)
    (hc : Jx.countTrue s.placed ≤ s.stepCount) (hin : inSpec cfg b k r c = true) :
    Jx.countTrue (step rnd cfg s (act b k r c)).1.placed ≤ (step rnd cfg s (act b k r c)).1.stepCount := by
  have := step_countTrue_le rnd cfg s b k r c hi.2 hin
  rw [step_count]; omega

theorem last_iff_doc (rnd : Rat → Rat) (cfg : Cfg) (s : State) (b k r c : Nat) (hi : Inv cfg s)
    (hc : Jx.countTrue s.placed ≤ s.stepCount) (hin : inSpec cfg b k r c = true) :
    (step rnd cfg s (act b k r c)).2.stepType = .last ↔
      ((step rnd cfg s (act b k r c)).1.placed.all id = true ∨
        (step rnd cfg s (act b k r c)).1.numBlocks ≤ (step rnd cfg s (act b k r c)).1.stepCount) := by
  have hi' := step_inv rnd cfg s b k r c hi hin
  have hc' := step_count_inv rnd cfg s b k r c hi hc hin
  have hd := done_eq_doc cfg _ hi'.1 hc'
  have e1 : (step rnd cfg s (act b k r c)).1.stepCount = s.stepCount + 1 := step_count rnd cfg s _
  have e2 : (step rnd cfg s (act b k r c)).1.numBlocks = s.numBlocks := (step_numBlocks rnd cfg s _).1
  rw [last_iff]
  constructor
  · intro h; right; rw [e1, e2]; exact h
  · rintro (h | h)
    · rw [h] at hd
      simp only [Bool.true_or] at hd
      have := of_decide_eq_true hd.symm
      rw [e1, e2] at this; exact this
    · rw [e1, e2] at h; exact h

end FlatPack
