/-
FlatPack — C01 spec membership (wave 3): the declared specs as `Sp` values (equal to the generated literals of the catalogue
configuration, Props/Env/FlatPack.lean), membership of the `reset` observation of every generated state (certificates
`blocksOK`, `freshOK`, `BlocksBounded`) and of the observation of EVERY step with an action of the action space (legal or
ignored, terminal step included) from every state satisfying the episode invariant `Inv`; the invariant along whole plays;
reward / discount / action spec.  Also the `step`-level statement of "the environment executed the action" (C04), completion
through `step` (C06) and the documented observation (C12).
-/
import JumanjiModel.Env.FlatPack.Lemmas
import JumanjiModel.Env.FlatPack.InvLemmas
import JumanjiModel.Env.FlatPack.FeasLemmas
import JumanjiModel.Env.FlatPack.SpecLemmas
import JumanjiModel.Env.FlatPack.BoundsLemmas
import JumanjiModel.Env.FlatPack.Episode
import JumanjiModel.Env.PackSpecValid
namespace FlatPack
open Jm Sp PzS PkS

/-! ### the declared specs (env.py `observation_spec`, `action_spec`) -/

/-- `observation_spec`: `grid` BoundedArray((R, C), int32, 0, num_blocks), `blocks` BoundedArray((num_blocks, 3, 3), int32, 0,
num_blocks), `action_mask` BoundedArray((num_blocks, 4, R − 2, C − 2), bool, False, True) -/
def obsSpec (cfg : Cfg) : Sp.Nested :=
  [("grid", .bounded [cfg.numRows, cfg.numCols] .int32 "grid" [] [0] [] [(cfg.numBlocks : Rat)]),
   ("blocks", .bounded [cfg.numBlocks, 3, 3] .int32 "blocks" [] [0] [] [(cfg.numBlocks : Rat)]),
   ("action_mask", .bounded [cfg.numBlocks, 4, cfg.numRows - 2, cfg.numCols - 2] .bool "action_mask" [] [0] [] [1])]

/-- `action_spec`: MultiDiscreteArray([num_blocks, 4, R − 2, C − 2], int32) -/
def actionSpec (cfg : Cfg) : Leaf :=
  .multiDiscrete [4] [cfg.numBlocks, 4, cfg.numRows - 2, cfg.numCols - 2] .int32 "action"

/-- a model observation as the arrays the implementation emits; the shapes are READ OFF the values -/
def toNValue (o : Obs) : NValue :=
  [("grid", ⟨shape2 o.grid, .int32, ofNats o.grid.flatten⟩),
   ("blocks", ⟨shape3 o.blocks, .int32, ofNats o.blocks.flatten.flatten⟩),
   ("action_mask", ⟨shape4 o.actionMask, .bool, ofBools o.actionMask.flatten.flatten.flatten⟩)]

def actionArr (a : Action) : Arr := ⟨[4], .int32, [(a.block : Rat), (a.rot : Rat), (a.row : Rat), (a.col : Rat)]⟩

/-- what membership amounts to -/
def ObsOK (cfg : Cfg) (o : Obs) : Prop :=
  Rect2 o.grid cfg.numRows cfg.numCols ∧ (∀ r ∈ o.grid, ∀ v ∈ r, v ≤ cfg.numBlocks) ∧
  Rect3 o.blocks cfg.numBlocks 3 3 ∧ BlocksBounded cfg o.blocks ∧
  Rect4 o.actionMask cfg.numBlocks 4 (cfg.numRows - 2) (cfg.numCols - 2)

theorem obs_valid (cfg : Cfg) (hR : 3 ≤ cfg.numRows) (hB : 0 < cfg.numBlocks) (o : Obs) (h : ObsOK cfg o) :
    (obsSpec cfg).valid (toNValue o) = true := by
  obtain ⟨h1, b1, h2, b2, h3⟩ := h
  have v1 := valid_bounded2 cfg.numRows cfg.numCols .int32 "grid" 0 (cfg.numBlocks : Rat) o.grid ofNats ofNats_length h1
    (by omega) (ofNats_bounds _ cfg.numBlocks (by
      intro v hv
      obtain ⟨r, hr, hv'⟩ := List.mem_flatten.mp hv
      exact b1 r hr v hv'))
  have v2 := valid_bounded3 cfg.numBlocks 3 3 .int32 "blocks" 0 (cfg.numBlocks : Rat) o.blocks ofNats ofNats_length h2 hB
    (by omega) (ofNats_bounds _ cfg.numBlocks (by
      intro v hv
      obtain ⟨r, hr, hv'⟩ := List.mem_flatten.mp hv
      obtain ⟨blk, hblk, hr'⟩ := List.mem_flatten.mp hr
      exact b2 blk hblk r hr' v hv'))
  have v3 := valid_bounded4 cfg.numBlocks 4 (cfg.numRows - 2) (cfg.numCols - 2) .bool "action_mask" 0 1 o.actionMask
    ofBools ofBools_length h3 hB (by omega) (by omega) (ofBools_bounds _)
  simp only [Nested.valid, obsSpec, toNValue, List.map_cons, List.map_nil, List.zipWith_cons_cons, List.zipWith_nil_right,
    List.all_cons, List.all_nil, v1, v2, v3]
  decide

/-- … and conversely `validate` accepts nothing else -/
theorem obs_valid_only (cfg : Cfg) (o : Obs) (h : (obsSpec cfg).valid (toNValue o) = true) :
    shape2 o.grid = [cfg.numRows, cfg.numCols] ∧ (∀ v ∈ o.grid.flatten, v ≤ cfg.numBlocks) ∧
    shape3 o.blocks = [cfg.numBlocks, 3, 3] ∧ (∀ v ∈ o.blocks.flatten.flatten, v ≤ cfg.numBlocks) ∧
    shape4 o.actionMask = [cfg.numBlocks, 4, cfg.numRows - 2, cfg.numCols - 2] := by
  simp only [Nested.valid, obsSpec, toNValue, List.map_cons, List.map_nil, List.zipWith_cons_cons, List.zipWith_nil_right,
    List.all_cons, List.all_nil, id, Bool.and_true, Bool.and_eq_true, beq_self_eq_true, true_and] at h
  obtain ⟨h1, h2, h3⟩ := h
  rw [valid_scalar_bounded_iff] at h1 h2 h3
  exact ⟨h1.1, ofNats_bounds_conv _ _ h1.2.2.2, h2.1, ofNats_bounds_conv _ _ h2.2.2.2, h3.1⟩

/-! ### the observation of a state satisfying the invariant -/

theorem legalMask_rect (cfg : Cfg) (s : State) :
    Rect4 (legalMask cfg s) cfg.numBlocks 4 (cfg.numRows - 2) (cfg.numCols - 2) := by
  unfold legalMask
  refine ⟨by simp, ?_⟩
  intro x hx
  simp only [List.mem_map, List.mem_range] at hx
  obtain ⟨b, _, rfl⟩ := hx
  refine ⟨by simp, ?_⟩
  intro y hy
  simp only [List.mem_map, List.mem_range] at hy
  obtain ⟨k, _, rfl⟩ := hy
  refine ⟨by simp, ?_⟩
  intro z hz
  simp only [List.mem_map, List.mem_range] at hz
  obtain ⟨r, _, rfl⟩ := hz
  simp

theorem observe_obsOK (cfg : Cfg) (s : State) (hi : Inv cfg s) (hb : BlocksBounded cfg s.blocks) :
    ObsOK cfg (observe s) := by
  obtain ⟨⟨hbl, _, _, hsh, _⟩, hg, _⟩ := (feasible_iff cfg s).mp hi.1
  refine ⟨rect2_of_shaped hg, grid_le_of_feasible cfg s hi.1 hb, ⟨hbl, fun blk hblk => rect2_of_shaped (hsh blk hblk).1⟩,
    hb, ?_⟩
  show Rect4 s.actionMask _ _ _ _
  rw [hi.2]
  exact legalMask_rect cfg s

/-- C01: the observation of EVERY step with an action of the action space (placed or ignored, MID or LAST, any rounding) -/
theorem step_obs_valid (rnd : Rat → Rat) (cfg : Cfg) (hR : 3 ≤ cfg.numRows) (hB : 0 < cfg.numBlocks) (s : State)
    (b k r c : Nat) (hi : Inv cfg s) (hin : inSpec cfg b k r c = true) (hb : BlocksBounded cfg s.blocks) :
    (obsSpec cfg).valid (toNValue (step rnd cfg s (act b k r c)).2.obs) = true := by
  rw [obs_faithful]
  apply obs_valid cfg hR hB
  apply observe_obsOK cfg _ (step_inv rnd cfg s b k r c hi hin)
  have : (step rnd cfg s (act b k r c)).1.blocks = s.blocks := by simp [step]
  rw [this]; exact hb

/-- C01: the observation `reset` returns for a generated state (certificates `blocksOK`, `freshOK`, `BlocksBounded`, all
evaluated by `flat_pack.instance` on the implementation's reset states) -/
theorem reset_obs_valid (cfg : Cfg) (hR : 3 ≤ cfg.numRows) (hB : 0 < cfg.numBlocks) (s : State)
    (hbo : blocksOK cfg s = true) (hf : freshOK cfg s = true) (hb : BlocksBounded cfg s.blocks) :
    (obsSpec cfg).valid (toNValue (resetTimeStep s).obs) = true := by
  have : (resetTimeStep s).obs = observe s := rfl
  rw [this]
  exact obs_valid cfg hR hB _ (observe_obsOK cfg s (fresh_inv' cfg s hbo hf) hb)

/-! ### whole plays: the invariant and membership after every prefix -/

/-- the state after playing ALL the actions (no stop at LAST; the library allows stepping on) -/
def runAll (rnd : Rat → Rat) (cfg : Cfg) : State → List Act4 → State
  | s, [] => s
  | s, a :: as => runAll rnd cfg (stepA rnd cfg s a).1 as

theorem runAll_inv (rnd : Rat → Rat) (cfg : Cfg) : ∀ (s : State) (as : List Act4), Inv cfg s → InSpecAll cfg as →
    Inv cfg (runAll rnd cfg s as) ∧ (runAll rnd cfg s as).blocks = s.blocks
  | s, [], hi, _ => ⟨hi, rfl⟩
  | s, a :: as, hi, hin => by
    have ha : inSpec cfg a.1 a.2.1 a.2.2.1 a.2.2.2 = true := hin a (by simp)
    have hi' := step_inv rnd cfg s a.1 a.2.1 a.2.2.1 a.2.2.2 hi ha
    have := runAll_inv rnd cfg (stepA rnd cfg s a).1 as hi' (fun b hb => hin b (by simp [hb]))
    refine ⟨this.1, ?_⟩
    rw [show runAll rnd cfg s (a :: as) = runAll rnd cfg (stepA rnd cfg s a).1 as from rfl, this.2]
    simp [stepA, step]

/-- every observation of the rollout of ANY actions of the action space from a generated state is a member of the spec -/
theorem rollout_obs_valid (rnd : Rat → Rat) (cfg : Cfg) (hR : 3 ≤ cfg.numRows) (hB : 0 < cfg.numBlocks) (s : State)
    (hbo : blocksOK cfg s = true) (hf : freshOK cfg s = true) (hb : BlocksBounded cfg s.blocks) (as : List Act4)
    (hin : InSpecAll cfg as) (j : Nat) (e : State × TimeStep Obs)
    (he : (Ep.rollout (stepA rnd cfg) s as)[j]? = some e) : (obsSpec cfg).valid (toNValue e.2.obs) = true := by
  obtain ⟨s', a, hinv, ha, rfl⟩ := rollout_inv_idx (stepA rnd cfg)
    (fun _ s => Inv cfg s ∧ BlocksBounded cfg s.blocks) (fun a => inSpecA cfg a = true)
    (fun _ s a h ha => ⟨step_inv rnd cfg s a.1 a.2.1 a.2.2.1 a.2.2.2 h.1 ha, by
      have : (stepA rnd cfg s a).1.blocks = s.blocks := by simp [stepA, step]
      rw [this]; exact h.2⟩) 0 s ⟨fresh_inv' cfg s hbo hf, hb⟩ as hin j e he
  exact step_obs_valid rnd cfg hR hB s' a.1 a.2.1 a.2.2.1 a.2.2.2 hinv.1 ha hinv.2

/-! ### reward, discount, action spec -/

theorem step_protocol (rnd : Rat → Rat) (cfg : Cfg) (s : State) (a : Action) :
    StepOK none false (step rnd cfg s a).2 = true := by
  unfold step; exact condLast_stepOK _ _ _

theorem step_reward_discount_valid (rnd : Rat → Rat) (cfg : Cfg) (s : State) (a : Action) :
    rewardSpec.valid (scalarArr (step rnd cfg s a).2.reward) = true ∧
    discountSpec.valid (scalarArr (step rnd cfg s a).2.discount) = true :=
  stepOK_reward_discount_valid false _ (step_protocol rnd cfg s a)

theorem reset_reward_discount_valid (s : State) :
    rewardSpec.valid (scalarArr (resetTimeStep s).reward) = true ∧
    discountSpec.valid (scalarArr (resetTimeStep s).discount) = true := by
  unfold resetTimeStep; simp only [restart]; exact ⟨by decide, by decide⟩

theorem actionSpec_generate (cfg : Cfg) : (actionSpec cfg).generate = actionArr (act 0 0 0 0) := by
  simp [actionSpec, Leaf.generate, Leaf.lower, Leaf.shape, Leaf.dtype, actionArr, act]

/-- the action spec is well-formed exactly for grids of at least 3 × 3 with at least one block (within int32) -/
theorem actionSpec_WF (cfg : Cfg) (hR : 3 ≤ cfg.numRows) (hC : 3 ≤ cfg.numCols) (hB : 0 < cfg.numBlocks)
    (hbig : cfg.numBlocks ≤ 2147483648 ∧ cfg.numRows ≤ 2147483648 ∧ cfg.numCols ≤ 2147483648) :
    (actionSpec cfg).WF = true := by
  have fitsI : ∀ z : Int, -2147483648 ≤ z → z ≤ 2147483647 → DType.int32.fits ((z : Int) : Rat) = true := by
    intro z h1 h2; simp [DType.fits, DType.intRange, Rat.den_intCast, Rat.num_intCast, h1, h2]
  have h1 : DType.int32.fits (((((cfg.numBlocks : Nat)) : Int) - 1 : Int) : Rat) = true := fitsI _ (by omega) (by omega)
  have h2 : DType.int32.fits (((((4 : Nat)) : Int) - 1 : Int) : Rat) = true := fitsI _ (by omega) (by omega)
  have h3 : DType.int32.fits (((((cfg.numRows - 2 : Nat)) : Int) - 1 : Int) : Rat) = true := fitsI _ (by omega) (by omega)
  have h4 : DType.int32.fits (((((cfg.numCols - 2 : Nat)) : Int) - 1 : Int) : Rat) = true := fitsI _ (by omega) (by omega)
  simp only [actionSpec, Leaf.WF, Leaf.WF0, Leaf.fitsDType, List.all_cons, List.all_nil, h1, h2, h3, h4]
  simp [prod, DType.isInt]; omega

/-- membership in `action_spec` is exactly `inSpec` -/
theorem actionSpec_valid_iff (cfg : Cfg) (b k r c : Nat) :
    (actionSpec cfg).valid (actionArr (act b k r c)) = true ↔ inSpec cfg b k r c = true := by
  rw [Leaf.valid_iff]
  simp only [actionSpec, Leaf.shape, Leaf.dtype, Leaf.lower, Leaf.upper, actionArr, act, prod, inSpec, Bool.and_eq_true,
    decide_eq_true_eq]
  constructor
  · rintro ⟨_, _, _, h⟩
    rcases h with ⟨h, _⟩ | ⟨lo, hi, hl, hu, hall⟩
    · simp at h
    · simp only [Option.some.injEq] at hl hu
      subst hl; subst hu
      have h0 := (hall 0 (by simp) (by simp)).2
      have h1 := (hall 1 (by simp) (by simp)).2
      have h2 := (hall 2 (by simp) (by simp)).2
      have h3 := (hall 3 (by simp) (by simp)).2
      simp only [List.map_cons, List.map_nil, List.zip_cons_cons, List.getElem_cons_zero, List.getElem_cons_succ]
        at h0 h1 h2 h3
      have a0 : ((b : Int) : Rat) ≤ (((cfg.numBlocks : Nat) : Int) - 1 : Int) := h0
      have a1 : ((k : Int) : Rat) ≤ (((4 : Nat) : Int) - 1 : Int) := h1
      have a2 : ((r : Int) : Rat) ≤ (((cfg.numRows - 2 : Nat) : Int) - 1 : Int) := h2
      have a3 : ((c : Int) : Rat) ≤ (((cfg.numCols - 2 : Nat) : Int) - 1 : Int) := h3
      have b0 := Rat.intCast_le_intCast.mp a0
      have b1 := Rat.intCast_le_intCast.mp a1
      have b2 := Rat.intCast_le_intCast.mp a2
      have b3 := Rat.intCast_le_intCast.mp a3
      omega
  · rintro ⟨⟨⟨hb, hk⟩, hr⟩, hc⟩
    refine ⟨trivial, trivial, by simp, Or.inr ⟨_, _, rfl, rfl, ?_⟩⟩
    intro i h1 h2
    have hi : i = 0 ∨ i = 1 ∨ i = 2 ∨ i = 3 := by simp at h1; omega
    have nn : ∀ n : Nat, (0 : Rat) ≤ ((n : Int) : Rat) := fun n => by exact_mod_cast Int.natCast_nonneg n
    rcases hi with rfl | rfl | rfl | rfl
    · simp only [List.map_cons, List.map_nil, List.zip_cons_cons, List.getElem_cons_zero]
      exact ⟨nn b, Rat.intCast_le_intCast.mpr (by omega)⟩
    · simp only [List.map_cons, List.map_nil, List.zip_cons_cons, List.getElem_cons_succ, List.getElem_cons_zero]
      exact ⟨nn k, Rat.intCast_le_intCast.mpr (by omega)⟩
    · simp only [List.map_cons, List.map_nil, List.zip_cons_cons, List.getElem_cons_succ, List.getElem_cons_zero]
      exact ⟨nn r, Rat.intCast_le_intCast.mpr (by omega)⟩
    · simp only [List.map_cons, List.map_nil, List.zip_cons_cons, List.getElem_cons_succ, List.getElem_cons_zero]
      exact ⟨nn c, Rat.intCast_le_intCast.mpr (by omega)⟩

/-! ### C04: what `step` does with an action, stated on the outputs of `step` -/

/-- on every state satisfying the invariant, for every action of the action space: the environment EXECUTES the action (the
placed flags change; precisely: block `b` becomes placed) exactly when the rules allow it; otherwise it ignores it -/
theorem step_executes_iff_legal (rnd : Rat → Rat) (cfg : Cfg) (s : State) (hi : Inv cfg s) (b k r c : Nat)
    (hin : inSpec cfg b k r c = true) :
    ((step rnd cfg s (act b k r c)).1.placed ≠ s.placed ↔ legal cfg s b k r c) ∧
    (legal cfg s b k r c → (step rnd cfg s (act b k r c)).1.placed = s.placed.set b true ∧ s.placed.getD b true = false) ∧
    (¬ legal cfg s b k r c → (step rnd cfg s (act b k r c)).1.grid = s.grid ∧
      (step rnd cfg s (act b k r c)).1.placed = s.placed) := by
  have hill : ¬ legal cfg s b k r c → (step rnd cfg s (act b k r c)).1.grid = s.grid ∧
      (step rnd cfg s (act b k r c)).1.placed = s.placed := fun h =>
    ⟨(illegal_step rnd cfg s hi.2 hin h).1, (illegal_step rnd cfg s hi.2 hin h).2.1⟩
  have hleg : legal cfg s b k r c →
      (step rnd cfg s (act b k r c)).1.placed = s.placed.set b true ∧ s.placed.getD b true = false := by
    intro hl
    refine ⟨?_, ?_⟩
    · by_cases h0 : (0 : Nat) < cfg.numRows ∧ (0 : Nat) < cfg.numCols
      · exact (legal_step_cells rnd cfg s b k r c hi.1 hi.2 hl (0, 0) h0.1 h0.2).2.1
      · have := inSpec_bounds hin
        omega
    · unfold legal legalB at hl
      simp only [Bool.and_eq_true, Bool.not_eq_true'] at hl
      exact hl.1.2
  refine ⟨⟨fun hne => ?_, fun hl => ?_⟩, hleg, hill⟩
  · by_cases hl : legal cfg s b k r c
    · exact hl
    · exact absurd (hill hl).2 hne
  · obtain ⟨e, hf⟩ := hleg hl
    rw [e]
    intro heq
    have hbl : b < s.placed.length := by
      obtain ⟨⟨_, hpl, _⟩, _⟩ := (feasible_iff cfg s).mp hi.1
      have := inSpec_bounds hin
      omega
    have h1 : (s.placed.set b true).getD b true = true := by simp [List.getD, hbl]
    rw [heq, hf] at h1
    cases h1

/-! ### C06: completion through `step` -/

/-- a step (any action of the action space) from a state of play of a generated instance (`Inv`; the blocks have as many
cells as the grid) after which every block is placed yields a complete solution: feasible, all placed, no empty cell -/
theorem step_complete_is_solution (rnd : Rat → Rat) (cfg : Cfg) (s : State) (hi : Inv cfg s) (b k r c : Nat)
    (hin : inSpec cfg b k r c = true)
    (hsum : (s.blocks.map countNonzero).foldl (· + ·) 0 = cfg.numRows * cfg.numCols)
    (hall : (step rnd cfg s (act b k r c)).1.placed.all id = true) :
    IsSolution cfg (step rnd cfg s (act b k r c)).1 := by
  have hi' := step_inv rnd cfg s b k r c hi hin
  apply complete_is_solution cfg _ hi'.1 hall
  have : (step rnd cfg s (act b k r c)).1.blocks = s.blocks := by simp [step]
  rw [this]; exact hsum

/-! ### C12: the documented observation -/

/-- on every state of play the observation shows the grid, the blocks and — as mask — the table of legal moves of the rules
(not merely a cached copy) -/
theorem observe_documented (cfg : Cfg) (s : State) (hi : Inv cfg s) :
    observe s = { grid := s.grid, blocks := s.blocks, actionMask := legalMask cfg s } := by
  unfold observe; rw [hi.2]

end FlatPack
