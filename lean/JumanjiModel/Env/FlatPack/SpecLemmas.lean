/- FlatPack: the L1 step of a legal action, cell by cell (C09). -/
import JumanjiModel.Env.FlatPack.FeasLemmas
namespace FlatPack
open Jm

/-- a legal placement writes the number of the block into exactly the cells of the chosen pose, leaves every
other cell as it was and marks the block (and only it) as placed -/
theorem legal_step_cells (rnd : Rat → Rat) (cfg : Cfg) (s : State) (b k r c : Nat)
    (hf : Feasible cfg s) (hm : s.actionMask = legalMask cfg s) (hl : legal cfg s b k r c)
    (p : Nat × Nat) (hi : p.1 < cfg.numRows) (hj : p.2 < cfg.numCols) :
    Jx.Grid.get (step rnd cfg s (act b k r c)).1.grid 0 p.1 p.2 =
      (if p ∈ poseCells (s.blocks.getD b []) k r c then blockValue (s.blocks.getD b [])
       else Jx.Grid.get s.grid 0 p.1 p.2) ∧
    (step rnd cfg s (act b k r c)).1.placed = s.placed.set b true ∧
    (step rnd cfg s (act b k r c)).1.blocks = s.blocks := by
  have hf' := (feasible_iff cfg s).1 hf
  obtain ⟨hin, hbp, hunp, hfree⟩ := legal_unfold hl
  obtain ⟨eg, ep, eb, _⟩ := step_legal_fields rnd cfg s b k r c hf'.2.1 hf'.1.1 hm hl
  refine ⟨?_, ep, eb⟩
  rw [eg, get_tab _ _ _ _ hi hj]
  have hb : b < s.blocks.length := by
    have := inSpec_bounds hin
    rw [hf'.1.1]; exact this.1
  have hu : blockUniform (s.blocks.getD b []) = true := by
    have := hf'.1.2.2.2.1 (s.blocks.getD b []) (by simp [List.getD, hb])
    exact this.2
  exact new_cell hf'.2.1 hu hfree p hi hj

end FlatPack
