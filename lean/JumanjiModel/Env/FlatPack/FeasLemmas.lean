import JumanjiModel.Env.FlatPack.Lemmas
import JumanjiModel.Env.FlatPack.MaskLemmas
namespace FlatPack
open Jm

/-! ### grids as tables of a function -/

/-- the `R × C` grid with entry `f i j` at `(i, j)` -/
def tab (R C : Nat) (f : Nat → Nat → Nat) : G :=
  (List.range R).map (fun i => (List.range C).map (fun j => f i j))

theorem shaped_iff {g : G} {R C : Nat} :
    Jx.Grid.shaped g R C = true ↔ g.length = R ∧ ∀ row ∈ g, row.length = C := by
  simp [Jx.Grid.shaped]

theorem tab_shaped (R C : Nat) (f : Nat → Nat → Nat) : Jx.Grid.shaped (tab R C f) R C = true := by
  rw [shaped_iff]
  simp [tab]

theorem get_tab (R C : Nat) (f : Nat → Nat → Nat) (d : Nat) {i j : Nat} (hi : i < R) (hj : j < C) :
    Jx.Grid.get (tab R C f) d i j = f i j := by
  simp [tab, Jx.Grid.get, List.getD, hi, hj]

theorem shaped_eq_tab {g : G} {R C : Nat} (h : Jx.Grid.shaped g R C = true) :
    g = tab R C (fun i j => Jx.Grid.get g 0 i j) := shaped_eq_rangeMap 0 h

theorem zipWith_tab (R C : Nat) (a p : Nat → Nat → Nat) (f : Nat → Nat → Nat) :
    List.zipWith (List.zipWith f) (tab R C a) (tab R C p) = tab R C (fun i j => f (a i j) (p i j)) := by
  simp [tab, List.zipWith_map, List.zipWith_self]

theorem forall_mem_tab (R C : Nat) (f : Nat → Nat → Nat) (P : Nat → Prop) :
    (∀ row ∈ tab R C f, ∀ v ∈ row, P v) ↔ ∀ i < R, ∀ j < C, P (f i j) := by
  simp only [tab, List.mem_map, List.mem_range]
  constructor
  · intro H i hi j hj
    exact H _ ⟨i, hi, rfl⟩ _ (List.mem_map.mpr ⟨j, List.mem_range.mpr hj, rfl⟩)
  · rintro H row ⟨i, hi, rfl⟩ v hv
    obtain ⟨j, hj, rfl⟩ := List.mem_map.mp hv
    exact H i hi j (List.mem_range.mp hj)

theorem get_default {g : G} {R C : Nat} (h : Jx.Grid.shaped g R C = true) (d d' : Nat) {i j : Nat}
    (hi : i < R) (hj : j < C) : Jx.Grid.get g d i j = Jx.Grid.get g d' i j := by
  rw [shaped_iff] at h
  obtain ⟨hl, hr⟩ := h
  have h1 : i < g.length := by omega
  have h2 : j < g[i].length := by rw [hr _ (List.getElem_mem h1)]; exact hj
  simp [Jx.Grid.get, List.getD, h1, h2]

/-! ### rotation only moves entries around -/

theorem mem_transpose_flatten (g : G) (v : Nat) (h : v ∈ List.flatten (Jx.Grid.transpose g)) : v ∈ List.flatten g := by
  cases g with
  | nil => simp [Jx.Grid.transpose] at h
  | cons r0 rs =>
    simp only [Jx.Grid.transpose, List.mem_flatten, List.mem_map, List.mem_range] at h
    obtain ⟨row, ⟨c, _, rfl⟩, hv⟩ := h
    rw [List.mem_filterMap] at hv
    obtain ⟨row', hrow', hget⟩ := hv
    exact List.mem_flatten.mpr ⟨row', hrow', List.mem_of_getElem? hget⟩

theorem mem_map_reverse_flatten (g : G) (v : Nat) : v ∈ List.flatten (List.map List.reverse g) ↔ v ∈ List.flatten g := by
  simp only [List.mem_flatten, List.mem_map]
  constructor
  · rintro ⟨l, ⟨a, ha, rfl⟩, hv⟩
    exact ⟨a, ha, List.mem_reverse.mp hv⟩
  · rintro ⟨l, hl, hv⟩
    exact ⟨l.reverse, ⟨l, hl, rfl⟩, List.mem_reverse.mpr hv⟩

theorem mem_reverse_flatten (g : G) (v : Nat) : v ∈ List.flatten (List.reverse g) ↔ v ∈ List.flatten g := by
  simp [List.mem_flatten]

theorem mem_rotateBlock (blk : G) (k : Int) (v : Nat) (h : v ∈ List.flatten (rotateBlock blk k)) : v ∈ List.flatten blk := by
  unfold rotateBlock at h
  split at h
  · exact h
  · split at h
    · rw [mem_map_reverse_flatten] at h; exact mem_transpose_flatten _ _ h
    · split at h
      · rw [mem_map_reverse_flatten, mem_reverse_flatten] at h; exact h
      · rw [mem_reverse_flatten] at h; exact mem_transpose_flatten _ _ h

theorem get_mem_or_default (g : G) (d : Nat) (i j : Nat) :
    Jx.Grid.get g d i j = d ∨ Jx.Grid.get g d i j ∈ List.flatten g := by
  unfold Jx.Grid.get
  by_cases hi : i < g.length
  · by_cases hj : j < g[i].length
    · right
      simp only [List.getD, List.getElem?_eq_getElem hi, Option.getD_some, List.getElem?_eq_getElem hj]
      exact List.mem_flatten.mpr ⟨g[i], List.getElem_mem hi, List.getElem_mem hj⟩
    · left
      simp [List.getD, hi, hj]
  · left
    simp [List.getD, hi]

theorem gridMax_ge (g : G) (v : Nat) (h : v ∈ List.flatten g) : v ≤ gridMax g := by
  have := (foldl_max_le (List.flatten g) 0 (gridMax g)).1 (Nat.le_refl _)
  exact this.2 v h

/-- every entry of a rotated uniform block is `0` or the block's number -/
theorem rot_uniform {blk : G} (hu : blockUniform blk = true) (k : Int) (x y : Nat) :
    Jx.Grid.get (rotateBlock blk k) 0 x y = 0 ∨ Jx.Grid.get (rotateBlock blk k) 0 x y = blockValue blk := by
  rcases get_mem_or_default (rotateBlock blk k) 0 x y with h | h
  · exact Or.inl h
  · have hv := mem_rotateBlock _ _ _ h
    simp only [blockUniform, Bool.and_eq_true, decide_eq_true_eq, List.all_eq_true, Bool.or_eq_true,
      beq_iff_eq] at hu
    obtain ⟨row, hrow, hin⟩ := List.mem_flatten.mp hv
    exact hu.2 row hrow _ hin

theorem blockValue_pos {blk : G} (hu : blockUniform blk = true) : 0 < blockValue blk := by
  simp only [blockUniform, Bool.and_eq_true, decide_eq_true_eq] at hu
  exact hu.1

/-! ### the cells of a pose -/

theorem mem_poseCells (blk : G) (k r c : Nat) (p : Nat × Nat) :
    p ∈ poseCells blk k r c ↔
      (r ≤ p.1 ∧ p.1 < r + 3 ∧ c ≤ p.2 ∧ p.2 < c + 3) ∧
        Jx.Grid.get (rotateBlock blk (k : Int)) 0 (p.1 - r) (p.2 - c) ≠ 0 := by
  unfold poseCells
  simp only [List.mem_map, List.mem_filter, mem_coords, bne_iff_ne, ne_eq]
  constructor
  · rintro ⟨q, ⟨⟨h1, h2⟩, hne⟩, rfl⟩
    have e1 : r + q.1 - r = q.1 := by omega
    have e2 : c + q.2 - c = q.2 := by omega
    simp only [e1, e2]
    exact ⟨by omega, hne⟩
  · rintro ⟨hbox, hne⟩
    refine ⟨(p.1 - r, p.2 - c), ⟨⟨by simp only []; omega, by simp only []; omega⟩, hne⟩, ?_⟩
    apply Prod.ext <;> simp only [] <;> omega

theorem mem_poses (cfg : Cfg) (k r c : Nat) :
    (k, r, c) ∈ poses cfg ↔ k < 4 ∧ r < cfg.numRows - 2 ∧ c < cfg.numCols - 2 := by
  unfold poses
  simp only [List.mem_flatMap, List.mem_map, List.mem_range, Prod.mk.injEq]
  constructor
  · rintro ⟨k', hk, r', hr, c', hc, rfl, rfl, rfl⟩
    exact ⟨hk, hr, hc⟩
  · rintro ⟨hk, hr, hc⟩
    exact ⟨k, hk, r, hr, c, hc, rfl, rfl, rfl⟩

theorem mem_cellsWith (cfg : Cfg) (g : G) (v : Nat) (p : Nat × Nat) :
    p ∈ cellsWith cfg g v ↔ (p.1 < cfg.numRows ∧ p.2 < cfg.numCols) ∧ Jx.Grid.get g 0 p.1 p.2 = v := by
  unfold cellsWith
  simp only [List.mem_filter, mem_coords, beq_iff_eq]

theorem sameCells_iff (xs ys : List (Nat × Nat)) :
    sameCells xs ys = true ↔ ∀ p, p ∈ xs ↔ p ∈ ys := by
  unfold sameCells
  simp only [Bool.and_eq_true, List.all_eq_true, List.contains_iff_mem]
  constructor
  · rintro ⟨h1, h2⟩ p
    exact ⟨h1 p, h2 p⟩
  · intro H
    exact ⟨fun p hp => (H p).1 hp, fun p hp => (H p).2 hp⟩

/-! ### the successor of a legal step -/

theorem expandBlock_tab (cfg : Cfg) (blk : G) {r c : Nat}
    (hr : r + 3 ≤ cfg.numRows) (hc : c + 3 ≤ cfg.numCols) :
    expandBlock cfg blk (r : Int) (c : Int) = tab cfg.numRows cfg.numCols (fun i j =>
      if r ≤ i ∧ i < r + 3 ∧ c ≤ j ∧ j < c + 3 then Jx.Grid.get blk 0 (i - r) (j - c) else 0) := by
  simp only [expandBlock, tab, dsStart_nat hr, dsStart_nat hc]

/-- the entry the chosen pose adds at `(i, j)` -/
def addAt (blk : G) (k r c i j : Nat) : Nat :=
  if r ≤ i ∧ i < r + 3 ∧ c ≤ j ∧ j < c + 3 then Jx.Grid.get (rotateBlock blk (k : Int)) 0 (i - r) (j - c) else 0

theorem legal_unfold {cfg : Cfg} {s : State} {b k r c : Nat} (hl : legal cfg s b k r c) :
    inSpec cfg b k r c = true ∧ b < s.placed.length ∧ s.placed.getD b false = false ∧
      ∀ p ∈ poseCells (s.blocks.getD b []) k r c, Jx.Grid.get s.grid 1 p.1 p.2 = 0 := by
  unfold legal legalB at hl
  simp only [Bool.and_eq_true, Bool.not_eq_true', List.all_eq_true, cellFree, beq_iff_eq] at hl
  obtain ⟨⟨h1, h2⟩, h3⟩ := hl
  have hb : b < s.placed.length := by
    by_cases h : b < s.placed.length
    · exact h
    · simp [List.getD, h] at h2
  refine ⟨h1, hb, ?_, h3⟩
  simp [List.getD, hb] at h2 ⊢
  exact h2

/-- C06 (cell-wise): the fields of the successor of a legal step -/
theorem step_legal_fields (rnd : Rat → Rat) (cfg : Cfg) (s : State) (b k r c : Nat)
    (hg : Jx.Grid.shaped s.grid cfg.numRows cfg.numCols = true)
    (hbl : s.blocks.length = cfg.numBlocks)
    (hm : s.actionMask = legalMask cfg s) (hl : legal cfg s b k r c) :
    (step rnd cfg s (act b k r c)).1.grid = tab cfg.numRows cfg.numCols (fun i j =>
        Jx.Grid.get s.grid 0 i j + addAt (s.blocks.getD b []) k r c i j) ∧
    (step rnd cfg s (act b k r c)).1.placed = s.placed.set b true ∧
    (step rnd cfg s (act b k r c)).1.blocks = s.blocks ∧
    (step rnd cfg s (act b k r c)).1.numBlocks = s.numBlocks := by
  obtain ⟨hin, hbp, _, _⟩ := legal_unfold hl
  have hin' := hin
  simp only [inSpec, Bool.and_eq_true, decide_eq_true_eq] at hin'
  obtain ⟨⟨⟨hb1, hk⟩, hr⟩, hc⟩ := hin'
  have hmask : maskAt s.actionMask (act b k r c) = true := by
    rw [hm, maskAt_legalMask cfg s hin]; exact hl
  refine ⟨?_, ?_, by simp [step], by simp [step]⟩
  · simp only [step, hmask, if_true]
    simp only [act]
    rw [Jx.getWC_nat _ _ (by omega : b < s.blocks.length), expandBlock_tab cfg _ hr hc]
    conv => lhs; rw [shaped_eq_tab hg]
    rw [zipWith_tab]
    rfl
  · simp only [step, hmask, if_true]
    simp only [act]
    exact Jx.setWD_nat _ _ hbp

/-! ### `Feasible` as a proposition about the fields -/

/-- what `feasibleB` tests, spelled out -/
def FeasP (cfg : Cfg) (grid : G) (blocks : List G) (placed : List Bool) (nb : Nat) : Prop :=
  (blocks.length = cfg.numBlocks ∧ placed.length = cfg.numBlocks ∧ nb = cfg.numBlocks ∧
    (∀ blk ∈ blocks, Jx.Grid.shaped blk 3 3 = true ∧ blockUniform blk = true) ∧
    (blocks.map blockValue).Nodup) ∧
  Jx.Grid.shaped grid cfg.numRows cfg.numCols = true ∧
  (∀ b < cfg.numBlocks, placed.getD b false = true →
    ∃ k r c, (k < 4 ∧ r < cfg.numRows - 2 ∧ c < cfg.numCols - 2) ∧
      ∀ p, p ∈ cellsWith cfg grid (blockValue (blocks.getD b [])) ↔ p ∈ poseCells (blocks.getD b []) k r c) ∧
  (∀ b < cfg.numBlocks, placed.getD b false = false →
    ∀ p, p ∉ cellsWith cfg grid (blockValue (blocks.getD b []))) ∧
  (∀ row ∈ grid, ∀ v ∈ row, v = 0 ∨
    ∃ b < cfg.numBlocks, placed.getD b false = true ∧ blockValue (blocks.getD b []) = v)

theorem blocksOK_iff (cfg : Cfg) (s : State) : blocksOK cfg s = true ↔
    (s.blocks.length = cfg.numBlocks ∧ s.placed.length = cfg.numBlocks ∧ s.numBlocks = cfg.numBlocks ∧
    (∀ blk ∈ s.blocks, Jx.Grid.shaped blk 3 3 = true ∧ blockUniform blk = true) ∧
    (s.blocks.map blockValue).Nodup) := by
  simp only [blocksOK, Bool.and_eq_true, beq_iff_eq, List.all_eq_true, decide_eq_true_eq, and_assoc]

theorem blockSitsInGrid_iff (cfg : Cfg) (s : State) (b : Nat) : blockSitsInGrid cfg s b = true ↔
    ∃ k r c, (k < 4 ∧ r < cfg.numRows - 2 ∧ c < cfg.numCols - 2) ∧
      ∀ p, p ∈ cellsWith cfg s.grid (blockValue (s.blocks.getD b [])) ↔ p ∈ poseCells (s.blocks.getD b []) k r c := by
  simp only [blockSitsInGrid, List.any_eq_true, sameCells_iff]
  constructor
  · rintro ⟨⟨k, r, c⟩, hmem, h⟩
    exact ⟨k, r, c, (mem_poses cfg k r c).1 hmem, h⟩
  · rintro ⟨k, r, c, hb, h⟩
    exact ⟨(k, r, c), (mem_poses cfg k r c).2 hb, h⟩

theorem feasible_iff (cfg : Cfg) (s : State) :
    Feasible cfg s ↔ FeasP cfg s.grid s.blocks s.placed s.numBlocks := by
  unfold Feasible feasibleB FeasP
  simp only [Bool.and_eq_true, blocksOK_iff, List.all_eq_true, List.mem_range, Bool.or_eq_true, beq_iff_eq,
    List.any_eq_true]
  constructor
  · rintro ⟨⟨⟨hA, hB⟩, hC⟩, hD⟩
    refine ⟨hA, hB, fun b hb hp => ?_, fun b hb hp => ?_, fun row hrow v hv => ?_⟩
    · have := hC b hb
      rw [if_pos hp, blockSitsInGrid_iff] at this
      exact this
    · have := hC b hb
      rw [hp] at this
      simp only [Bool.false_eq_true, if_false, List.isEmpty_iff] at this
      rw [this]; intro p; exact List.not_mem_nil
    · rcases hD row hrow v hv with h | ⟨b, hb, h⟩
      · exact Or.inl h
      · exact Or.inr ⟨b, hb, h⟩
  · rintro ⟨hA, hB, hC1, hC2, hD⟩
    refine ⟨⟨⟨hA, hB⟩, fun b hb => ?_⟩, fun row hrow v hv => ?_⟩
    · cases hp : s.placed.getD b false
      · simp only [Bool.false_eq_true, if_false, List.isEmpty_iff]
        exact List.eq_nil_iff_forall_not_mem.2 (hC2 b hb hp)
      · simp only [if_true]
        rw [blockSitsInGrid_iff]
        exact hC1 b hb hp
    · rcases hD row hrow v hv with h | ⟨b, hb, h⟩
      · exact Or.inl h
      · exact Or.inr ⟨b, hb, h⟩

/-! ### C06: a legal step keeps the state feasible -/

/-- cell-wise description of the new grid: the block's number on the cells of the pose, unchanged elsewhere -/
theorem new_cell {cfg : Cfg} {g blk : G} {k r c : Nat}
    (hg : Jx.Grid.shaped g cfg.numRows cfg.numCols = true) (hu : blockUniform blk = true)
    (hfree : ∀ p ∈ poseCells blk k r c, Jx.Grid.get g 1 p.1 p.2 = 0)
    (p : Nat × Nat) (hi : p.1 < cfg.numRows) (hj : p.2 < cfg.numCols) :
    Jx.Grid.get g 0 p.1 p.2 + addAt blk k r c p.1 p.2 =
      if p ∈ poseCells blk k r c then blockValue blk else Jx.Grid.get g 0 p.1 p.2 := by
  by_cases hp : p ∈ poseCells blk k r c
  · rw [if_pos hp]
    have h0 := hfree p hp
    rw [get_default hg 1 0 hi hj] at h0
    rw [mem_poseCells] at hp
    obtain ⟨hbox, hne⟩ := hp
    simp only [addAt, if_pos hbox, h0]
    rcases rot_uniform hu (k : Int) (p.1 - r) (p.2 - c) with h | h
    · exact absurd h hne
    · rw [h]; omega
  · rw [if_neg hp]
    rw [mem_poseCells] at hp
    unfold addAt
    split
    · rename_i hbox
      have : Jx.Grid.get (rotateBlock blk (k : Int)) 0 (p.1 - r) (p.2 - c) = 0 := by
        apply Classical.byContradiction
        intro hne
        exact hp ⟨hbox, hne⟩
      omega
    · omega

theorem getD_set_self {l : List Bool} {b : Nat} (h : b < l.length) : (l.set b true).getD b false = true := by
  simp [List.getD_eq_getElem?_getD, h]

theorem getD_set_ne {l : List Bool} {b b' : Nat} (h : b' ≠ b) : (l.set b true).getD b' false = l.getD b' false := by
  have : ¬ b = b' := fun e => h e.symm
  simp [List.getD_eq_getElem?_getD, this]

theorem getD_set_mono {l : List Bool} {b b' : Nat} (hb : b < l.length) (h : l.getD b' false = true) :
    (l.set b true).getD b' false = true := by
  by_cases e : b' = b
  · subst e; exact getD_set_self hb
  · rw [getD_set_ne e]; exact h

theorem blockValue_ne {blocks : List G} (hnd : (blocks.map blockValue).Nodup) {b b' : Nat}
    (hb : b < blocks.length) (hb' : b' < blocks.length) (hne : b' ≠ b) :
    blockValue (blocks.getD b' []) ≠ blockValue (blocks.getD b []) := by
  have key := (List.pairwise_iff_getElem.1 hnd)
  have e1 : blockValue (blocks.getD b []) = (blocks.map blockValue)[b]'(by simpa using hb) := by
    simp [List.getD_eq_getElem?_getD, hb]
  have e2 : blockValue (blocks.getD b' []) = (blocks.map blockValue)[b']'(by simpa using hb') := by
    simp [List.getD_eq_getElem?_getD, hb']
  rw [e1, e2]
  rcases Nat.lt_or_gt_of_ne hne with h | h
  · exact key b' b _ _ h
  · exact fun e => key b b' _ _ h e.symm

theorem feasP_step {cfg : Cfg} {grid : G} {blocks : List G} {placed : List Bool} {nb : Nat} {b k r c : Nat}
    (hf : FeasP cfg grid blocks placed nb)
    (hin : inSpec cfg b k r c = true) (hunp : placed.getD b false = false)
    (hfree : ∀ p ∈ poseCells (blocks.getD b []) k r c, Jx.Grid.get grid 1 p.1 p.2 = 0) :
    FeasP cfg (tab cfg.numRows cfg.numCols (fun i j => Jx.Grid.get grid 0 i j + addAt (blocks.getD b []) k r c i j))
      blocks (placed.set b true) nb := by
  obtain ⟨⟨hbl, hpl, hnb, hblk, hnd⟩, hg, h1, h2, h4⟩ := hf
  have hin' := hin
  simp only [inSpec, Bool.and_eq_true, decide_eq_true_eq] at hin'
  obtain ⟨⟨⟨hb1, hk⟩, hr⟩, hc⟩ := hin'
  have hbb : b < blocks.length := by omega
  have hbp : b < placed.length := by omega
  have hmem : blocks.getD b [] ∈ blocks := by
    simp only [List.getD_eq_getElem?_getD, List.getElem?_eq_getElem hbb, Option.getD_some]
    exact List.getElem_mem hbb
  have hu := (hblk _ hmem).2
  have hVpos := blockValue_pos hu
  have hnoV := h2 b hb1 hunp
  -- membership in `cellsWith` of the new grid
  have hnew : ∀ (v : Nat) (p : Nat × Nat),
      p ∈ cellsWith cfg (tab cfg.numRows cfg.numCols
        (fun i j => Jx.Grid.get grid 0 i j + addAt (blocks.getD b []) k r c i j)) v ↔
      (p.1 < cfg.numRows ∧ p.2 < cfg.numCols) ∧
        (if p ∈ poseCells (blocks.getD b []) k r c then blockValue (blocks.getD b []) else Jx.Grid.get grid 0 p.1 p.2) = v := by
    intro v p
    rw [mem_cellsWith]
    constructor
    · rintro ⟨hb, h⟩
      rw [get_tab _ _ _ _ hb.1 hb.2, new_cell hg hu hfree p hb.1 hb.2] at h
      exact ⟨hb, h⟩
    · rintro ⟨hb, h⟩
      rw [get_tab _ _ _ _ hb.1 hb.2, new_cell hg hu hfree p hb.1 hb.2]
      exact ⟨hb, h⟩
  have hposeIn : ∀ p ∈ poseCells (blocks.getD b []) k r c, p.1 < cfg.numRows ∧ p.2 < cfg.numCols := by
    intro p hp
    rw [mem_poseCells] at hp
    omega
  -- other blocks: same cells as before
  have hother : ∀ b' < cfg.numBlocks, b' ≠ b → ∀ p,
      p ∈ cellsWith cfg (tab cfg.numRows cfg.numCols
        (fun i j => Jx.Grid.get grid 0 i j + addAt (blocks.getD b []) k r c i j)) (blockValue (blocks.getD b' [])) ↔
      p ∈ cellsWith cfg grid (blockValue (blocks.getD b' [])) := by
    intro b' hb' hne p
    have hVne := blockValue_ne hnd hbb (by omega : b' < blocks.length) hne
    have hmem' : blocks.getD b' [] ∈ blocks := by
      have hbb' : b' < blocks.length := by omega
      simp only [List.getD_eq_getElem?_getD, List.getElem?_eq_getElem hbb', Option.getD_some]
      exact List.getElem_mem hbb'
    have hV'pos := blockValue_pos (hblk _ hmem').2
    rw [hnew, mem_cellsWith]
    by_cases hp : p ∈ poseCells (blocks.getD b []) k r c
    · rw [if_pos hp]
      have hin2 := hposeIn p hp
      have h0 := hfree p hp
      rw [get_default hg 1 0 hin2.1 hin2.2] at h0
      rw [h0]
      constructor
      · rintro ⟨_, e⟩; exact absurd e.symm hVne
      · rintro ⟨_, e⟩; omega
    · rw [if_neg hp]
  refine ⟨⟨hbl, by simpa using hpl, hnb, hblk, hnd⟩, tab_shaped _ _ _, ?_, ?_, ?_⟩
  · intro b' hb' hp'
    by_cases e : b' = b
    · subst e
      refine ⟨k, r, c, ⟨hk, by omega, by omega⟩, fun p => ?_⟩
      rw [hnew]
      constructor
      · rintro ⟨hb, h⟩
        by_cases hp : p ∈ poseCells (blocks.getD b' []) k r c
        · exact hp
        · rw [if_neg hp] at h
          exact absurd ((mem_cellsWith cfg grid _ p).2 ⟨hb, h⟩) (hnoV p)
      · intro hp
        exact ⟨hposeIn p hp, by rw [if_pos hp]⟩
    · rw [getD_set_ne e] at hp'
      obtain ⟨k', r', c', hb, h⟩ := h1 b' hb' hp'
      exact ⟨k', r', c', hb, fun p => (hother b' hb' e p).trans (h p)⟩
  · intro b' hb' hp' p
    have e : b' ≠ b := by
      intro e; subst e
      rw [getD_set_self hbp] at hp'
      exact absurd hp' (by decide)
    rw [getD_set_ne e] at hp'
    rw [hother b' hb' e p]
    exact h2 b' hb' hp' p
  · rw [forall_mem_tab]
    intro i hi j hj
    have hc := new_cell hg hu hfree (i, j) hi hj
    simp only [] at hc
    rw [hc]
    by_cases hp : (i, j) ∈ poseCells (blocks.getD b []) k r c
    · rw [if_pos hp]
      exact Or.inr ⟨b, hb1, getD_set_self hbp, rfl⟩
    · rw [if_neg hp]
      have h4' := h4
      rw [shaped_eq_tab hg, forall_mem_tab] at h4'
      rcases h4' i hi j hj with h | ⟨b', hb', hpl', hv⟩
      · exact Or.inl h
      · exact Or.inr ⟨b', hb', getD_set_mono hbp hpl', hv⟩

/-- C06: legal play keeps the state feasible -/
theorem step_feasible (rnd : Rat → Rat) (cfg : Cfg) (s : State) (b k r c : Nat)
    (hf : Feasible cfg s) (hm : s.actionMask = legalMask cfg s)
    (hl : legal cfg s b k r c) : Feasible cfg (step rnd cfg s (act b k r c)).1 := by
  rw [feasible_iff] at hf ⊢
  obtain ⟨hin, hbp, hunp, hfree⟩ := legal_unfold hl
  obtain ⟨eg, ep, eb, en⟩ := step_legal_fields rnd cfg s b k r c hf.2.1 hf.1.1 hm hl
  rw [eg, ep, eb, en]
  exact feasP_step hf hin hunp hfree

/-- C06: the fresh instance is feasible -/
theorem fresh_feasible (cfg : Cfg) (s : State) (hb : blocksOK cfg s = true)
    (hg : s.grid = Jx.Grid.mk cfg.numRows cfg.numCols 0) (hp : s.placed = List.replicate cfg.numBlocks false) :
    Feasible cfg s := by
  rw [feasible_iff]
  have hok := (blocksOK_iff cfg s).1 hb
  obtain ⟨hbl, hpl, hnb, hblk, hnd⟩ := hok
  have hrep : ∀ b, (List.replicate cfg.numBlocks false).getD b false = false := by
    intro b
    by_cases h : b < cfg.numBlocks <;> simp [List.getD_eq_getElem?_getD, h]
  have hzero : ∀ i j, Jx.Grid.get (Jx.Grid.mk cfg.numRows cfg.numCols 0) 0 i j = 0 := by
    intro i j
    rcases get_mem_or_default (Jx.Grid.mk cfg.numRows cfg.numCols 0) 0 i j with h | h
    · exact h
    · simp only [Jx.Grid.mk, List.mem_flatten, List.mem_replicate] at h
      obtain ⟨l, hl, hv⟩ := h
      rw [hl.2, List.mem_replicate] at hv
      exact hv.2
  rw [hg, hp]
  refine ⟨⟨hbl, by simp, hnb, hblk, hnd⟩, ?_, ?_, ?_, ?_⟩
  · simp [Jx.Grid.mk, Jx.Grid.shaped]
  · intro b _ h
    rw [hrep] at h
    exact absurd h (by decide)
  · intro b hb1 _ p hmem
    rw [mem_cellsWith, hzero] at hmem
    have hbb : b < s.blocks.length := by omega
    have hmem' : s.blocks.getD b [] ∈ s.blocks := by
      simp only [List.getD_eq_getElem?_getD, List.getElem?_eq_getElem hbb, Option.getD_some]
      exact List.getElem_mem hbb
    have := blockValue_pos (hblk _ hmem').2
    omega
  · intro row hrow v hv
    simp only [Jx.Grid.mk, List.mem_replicate] at hrow
    rw [hrow.2, List.mem_replicate] at hv
    exact Or.inl hv.2

/-! ### C08: the dense rewards telescope -/

theorem countNonzero_cons (x : List Nat) (xs : G) :
    countNonzero (x :: xs) = (x.filter (fun v => v != 0)).length + countNonzero xs := by
  simp [countNonzero, Jx.Grid.count, List.flatten_cons, List.filter_append, List.length_append]

theorem count_add_row (l : List Nat) (a p : Nat → Nat) (h : ∀ j ∈ l, a j = 0 ∨ p j = 0) :
    ((l.map (fun j => a j + p j)).filter (fun v => v != 0)).length =
      ((l.map a).filter (fun v => v != 0)).length + ((l.map p).filter (fun v => v != 0)).length := by
  induction l with
  | nil => simp
  | cons x xs ih =>
    have ih' := ih (fun j hj => h j (List.mem_cons_of_mem _ hj))
    have hx := h x (List.mem_cons_self)
    simp only [List.map_cons, List.filter_cons]
    rcases hx with hx | hx
    · by_cases hp : p x = 0
      · simp [hx, hp, ih']
      · simp [hx, hp, ih']; omega
    · by_cases ha : a x = 0
      · simp [hx, ha, ih']
      · simp [hx, ha, ih']; omega

theorem count_add_rows (l : List Nat) (C : Nat) (a p : Nat → Nat → Nat)
    (h : ∀ i ∈ l, ∀ j < C, a i j = 0 ∨ p i j = 0) :
    countNonzero (l.map (fun i => (List.range C).map (fun j => a i j + p i j))) =
      countNonzero (l.map (fun i => (List.range C).map (fun j => a i j))) +
      countNonzero (l.map (fun i => (List.range C).map (fun j => p i j))) := by
  induction l with
  | nil => simp [countNonzero, Jx.Grid.count]
  | cons x xs ih =>
    have ih' := ih (fun i hi => h i (List.mem_cons_of_mem _ hi))
    simp only [List.map_cons, countNonzero_cons, ih']
    rw [count_add_row (List.range C) (a x) (p x) (fun j hj => h x List.mem_cons_self j (List.mem_range.mp hj))]
    exact Nat.add_add_add_comm _ _ _ _

theorem countNonzero_tab_add (R C : Nat) (a p : Nat → Nat → Nat)
    (h : ∀ i < R, ∀ j < C, a i j = 0 ∨ p i j = 0) :
    countNonzero (tab R C (fun i j => a i j + p i j)) = countNonzero (tab R C a) + countNonzero (tab R C p) :=
  count_add_rows (List.range R) C a p (fun i hi => h i (List.mem_range.mp hi))

theorem rat_add_div (a b n : Nat) : ((a + b : Nat) : Rat) / (n : Rat) = (a : Rat) / n + (b : Rat) / n := by
  rw [Rat.div_def, Rat.div_def, Rat.div_def, ← Rat.add_mul]; simp

theorem step_reward (rnd : Rat → Rat) (cfg : Cfg) (s : State) (a : Action) :
    (step rnd cfg s a).2.reward =
      [reward rnd cfg s (expandBlock cfg (rotateBlock (Jx.getWC s.blocks [] a.block) a.rot) a.row a.col)
        (maskAt s.actionMask a)] := by
  simp only [step, condLast]
  split <;> rfl

theorem legal_mask {cfg : Cfg} {s : State} {b k r c : Nat} (hm : s.actionMask = legalMask cfg s)
    (hl : legal cfg s b k r c) : maskAt s.actionMask (act b k r c) = true := by
  rw [hm, maskAt_legalMask cfg s (legal_unfold hl).1]; exact hl

theorem addAt_ne_zero {blk : G} {k r c i j : Nat} (h : addAt blk k r c i j ≠ 0) :
    (i, j) ∈ poseCells blk k r c := by
  rw [mem_poseCells]
  unfold addAt at h
  split at h
  · rename_i hbox; exact ⟨hbox, h⟩
  · exact absurd rfl h

/-- C08 (cell-dense, exact arithmetic): the covered fraction grows by exactly the reward of a legal step.
`hbl` (as many blocks as the configuration says) makes the block index `b` a plain lookup. -/
theorem cellDense_telescopes (cfg : Cfg) (s : State) (b k r c : Nat)
    (hg : Jx.Grid.shaped s.grid cfg.numRows cfg.numCols = true)
    (hbl : s.blocks.length = cfg.numBlocks)
    (hm : s.actionMask = legalMask cfg s) (hl : legal cfg s b k r c) (hcd : cfg.cellDense = true) :
    coveredFraction cfg (step id cfg s (act b k r c)).1 =
      coveredFraction cfg s + ((step id cfg s (act b k r c)).2.reward).sum := by
  obtain ⟨hin, hbp, hunp, hfree⟩ := legal_unfold hl
  have hin' := hin
  simp only [inSpec, Bool.and_eq_true, decide_eq_true_eq] at hin'
  obtain ⟨⟨⟨hb1, hk⟩, hr⟩, hc⟩ := hin'
  obtain ⟨eg, _, _, _⟩ := step_legal_fields id cfg s b k r c hg hbl hm hl
  have hblock : expandBlock cfg (rotateBlock (Jx.getWC s.blocks [] (b : Int)) (k : Int)) (r : Int) (c : Int) =
      tab cfg.numRows cfg.numCols (fun i j => addAt (s.blocks.getD b []) k r c i j) := by
    rw [Jx.getWC_nat _ _ (by omega : b < s.blocks.length), expandBlock_tab cfg _ hr hc]
    rfl
  have hdisj : ∀ i < cfg.numRows, ∀ j < cfg.numCols,
      Jx.Grid.get s.grid 0 i j = 0 ∨ addAt (s.blocks.getD b []) k r c i j = 0 := by
    intro i hi j hj
    by_cases h : addAt (s.blocks.getD b []) k r c i j = 0
    · exact Or.inr h
    · left
      have := hfree _ (addAt_ne_zero h)
      rw [get_default hg 1 0 hi hj] at this
      exact this
  have hcount : countNonzero (step id cfg s (act b k r c)).1.grid =
      countNonzero s.grid + countNonzero (tab cfg.numRows cfg.numCols (fun i j => addAt (s.blocks.getD b []) k r c i j)) := by
    rw [eg, countNonzero_tab_add _ _ _ _ hdisj, ← shaped_eq_tab hg]
  rw [step_reward, legal_mask hm hl]
  simp only [coveredFraction, hcount]
  simp only [act, reward, hcd, if_true, hblock, id, List.sum_cons, List.sum_nil, Rat.add_zero]
  exact rat_add_div _ _ _

theorem countTrue_set {l : List Bool} {b : Nat} (hb : b < l.length) (h : l.getD b false = false) :
    Jx.countTrue (l.set b true) = Jx.countTrue l + 1 := by
  induction l generalizing b with
  | nil => simp at hb
  | cons x xs ih =>
    cases b with
    | zero =>
      simp only [List.getD_cons_zero] at h
      subst h
      simp [Jx.countTrue]
    | succ n =>
      simp only [List.getD_cons_succ] at h
      have := ih (by simpa using hb) h
      simp only [Jx.countTrue] at this ⊢
      cases x <;> simp [List.set_cons_succ, this]

/-- C08 (block-dense, exact arithmetic): the placed fraction grows by exactly the reward of a legal step -/
theorem blockDense_telescopes (cfg : Cfg) (s : State) (b k r c : Nat)
    (hm : s.actionMask = legalMask cfg s) (hl : legal cfg s b k r c) (hcd : cfg.cellDense = false) :
    placedFraction (step id cfg s (act b k r c)).1 =
      placedFraction s + ((step id cfg s (act b k r c)).2.reward).sum := by
  obtain ⟨hin, hbp, hunp, hfree⟩ := legal_unfold hl
  have hmask := legal_mask hm hl
  have ep : (step id cfg s (act b k r c)).1.placed = s.placed.set b true := by
    simp only [step, hmask, if_true]
    simp only [act]
    exact Jx.setWD_nat _ _ hbp
  have en : (step id cfg s (act b k r c)).1.numBlocks = s.numBlocks := by simp [step]
  rw [step_reward]
  simp only [placedFraction, ep, en, countTrue_set hbp hunp, reward, hcd, hmask, if_true, id, List.sum_cons,
    List.sum_nil, Rat.add_zero, Bool.false_eq_true, if_false]
  have := rat_add_div (Jx.countTrue s.placed) 1 s.numBlocks
  simpa using this

/-- C08: in either reward mode the objective grows by exactly the reward of a legal step -/
theorem objective_telescopes (cfg : Cfg) (s : State) (b k r c : Nat)
    (hg : Jx.Grid.shaped s.grid cfg.numRows cfg.numCols = true)
    (hbl : s.blocks.length = cfg.numBlocks)
    (hm : s.actionMask = legalMask cfg s) (hl : legal cfg s b k r c) :
    objective cfg (step id cfg s (act b k r c)).1 =
      objective cfg s + ((step id cfg s (act b k r c)).2.reward).sum := by
  unfold objective
  cases hcd : cfg.cellDense
  · simp only [Bool.false_eq_true, if_false]
    exact blockDense_telescopes cfg s b k r c hm hl hcd
  · simp only [if_true]
    exact cellDense_telescopes cfg s b k r c hg hbl hm hl hcd


end FlatPack
