/-
FlatPack — C01: value bounds of the observation leaves (definitions; proofs in BoundsLemmas.lean).

Real spec: `grid` BoundedArray(int32, 0, num_blocks), `blocks` BoundedArray(int32, 0, num_blocks), `action_mask` bool.
-/
import JumanjiModel.Env.FlatPack.Model
import JumanjiModel.Env.PuzzleBounds
namespace FlatPack
open Jm PzB

/-- interval of every observation leaf, as a function of the configuration -/
def obsBounds (cfg : Cfg) : Table :=
  [("grid", iv 0 (cfg.numBlocks : Int)), ("blocks", iv 0 (cfg.numBlocks : Int)), ("action_mask", iv 0 1)]

/-- the numeric leaves of an observation, flattened -/
def obsLeaves (o : Obs) : Leaves :=
  [("grid", nats2 o.grid), ("blocks", nats3 o.blocks), ("action_mask", bools4 o.actionMask)]

/-- `reset`: the observation of the generated state -/
def resetTimeStep (s : State) : TimeStep Obs := restart (observeL1 s)

/-- generator fact used for the bound of `blocks` (and, with `Feasible`, of `grid`): the blocks are numbered
1 … num_blocks, i.e. no entry of a block exceeds `num_blocks` -/
def BlocksBounded (cfg : Cfg) (blocks : List G) : Prop := ∀ blk ∈ blocks, ∀ row ∈ blk, ∀ v ∈ row, v ≤ cfg.numBlocks

instance (cfg : Cfg) (blocks : List G) : Decidable (BlocksBounded cfg blocks) := by unfold BlocksBounded; infer_instance

theorem obs_in_bounds (cfg : Cfg) (o : Obs) (hg : ∀ row ∈ o.grid, ∀ v ∈ row, v ≤ cfg.numBlocks)
    (hb : BlocksBounded cfg o.blocks) : ObsInBounds (obsBounds cfg) (obsLeaves o) := by
  refine ⟨by simp [obsBounds, obsLeaves], ?_⟩
  intro k b hk vs hvs
  simp only [obsBounds, obsLeaves, List.mem_cons, Prod.mk.injEq, List.not_mem_nil, or_false] at hk hvs
  rcases hk with ⟨rfl, rfl⟩ | ⟨rfl, rfl⟩ | ⟨rfl, rfl⟩ <;> rcases hvs with ⟨h', rfl⟩ | ⟨h', rfl⟩ | ⟨h', rfl⟩ <;>
    first
      | exact absurd h' (by decide)
      | exact allIn_nats2 _ _ hg
      | exact allIn_bools4 _
      | (apply allIn_nats2; intro row hrow v hv
         obtain ⟨blk, hblk, hrow'⟩ := List.mem_flatten.mp hrow
         exact hb blk hblk row hrow' v hv)

end FlatPack
