import JumanjiModel.Env.FlatPack.Model
import JumanjiModel.Prim.Lemmas
namespace FlatPack

/-! ### (a) index plumbing -/

theorem getWC_range_map {α} (n : Nat) (f : Nat → α) (d : α) {b : Nat} (h : b < n) :
    Jx.getWC ((List.range n).map f) d (b : Int) = f b := by
  rw [Jx.getWC_nat _ _ (by simpa using h)]
  simp [List.getD, h]

/-! ### (b) `dynamic_update_slice` start index of an in-range position -/

theorem dsStart_nat {n r : Nat} (h : r + 3 ≤ n) : dsStart n 3 (r : Int) = r := by
  unfold dsStart Jx.wrapIdx
  simp only []
  repeat' split
  all_goals omega

/-! ### (c) `gridMax` of a sum picture -/

theorem foldl_max_le (l : List Nat) (a k : Nat) :
    l.foldl max a ≤ k ↔ a ≤ k ∧ ∀ v ∈ l, v ≤ k := by
  induction l generalizing a with
  | nil => simp
  | cons x xs ih =>
    simp only [List.foldl_cons, ih, List.mem_cons, forall_eq_or_imp, Nat.max_le, and_assoc]

theorem gridMax_le_iff (x : G) (k : Nat) :
    gridMax x ≤ k ↔ ∀ row ∈ x, ∀ v ∈ row, v ≤ k := by
  unfold gridMax
  rw [foldl_max_le]
  simp only [Nat.zero_le, true_and, List.mem_flatten]
  constructor
  · intro H row hrow v hv
    exact H v ⟨row, hrow, hv⟩
  · rintro H v ⟨row, hrow, hv⟩
    exact H row hrow v hv

theorem shaped_eq_rangeMap {g : G} {R C : Nat} (d : Nat) (h : Jx.Grid.shaped g R C = true) :
    g = (List.range R).map (fun i => (List.range C).map (fun j => Jx.Grid.get g d i j)) := by
  unfold Jx.Grid.shaped at h
  simp only [Bool.and_eq_true, beq_iff_eq, List.all_eq_true] at h
  obtain ⟨hl, hr⟩ := h
  apply List.ext_getElem
  · simp [hl]
  · intro i h1 h2
    have hrow : g[i].length = C := hr _ (List.getElem_mem h1)
    apply List.ext_getElem
    · simp [hrow]
    · intro j h3 h4
      simp [Jx.Grid.get, List.getD, h1, h3]

theorem gridMax_zip_rangeMap (R C : Nat) (a p : Nat → Nat → Nat) (f : Nat → Nat → Nat) (k : Nat) :
    gridMax (List.zipWith (List.zipWith f)
        ((List.range R).map (fun i => (List.range C).map (fun j => a i j)))
        ((List.range R).map (fun i => (List.range C).map (fun j => p i j)))) ≤ k
      ↔ ∀ i < R, ∀ j < C, f (a i j) (p i j) ≤ k := by
  rw [gridMax_le_iff]
  simp only [List.zipWith_map, List.zipWith_self, List.mem_map, List.mem_range]
  constructor
  · intro H i hi j hj
    exact H _ ⟨i, hi, rfl⟩ _ (List.mem_map.mpr ⟨j, List.mem_range.mpr hj, rfl⟩)
  · rintro H row ⟨i, hi, rfl⟩ v hv
    obtain ⟨j, hj, rfl⟩ := List.mem_map.mp hv
    exact H i hi j (List.mem_range.mp hj)

theorem mem_coords (nr nc : Nat) (p : Nat × Nat) :
    p ∈ Jx.Grid.coords nr nc ↔ p.1 < nr ∧ p.2 < nc := by
  unfold Jx.Grid.coords
  simp only [List.mem_flatMap, List.mem_map, List.mem_range]
  constructor
  · rintro ⟨i, hi, j, hj, rfl⟩
    exact ⟨hi, hj⟩
  · rintro ⟨h1, h2⟩
    exact ⟨p.1, h1, p.2, h2, rfl⟩

/-! ### (d) the picture of a pose versus its cells -/

theorem onesLike_expandBlock (cfg : Cfg) (blk : G) {r c : Nat}
    (hr : r + 3 ≤ cfg.numRows) (hc : c + 3 ≤ cfg.numCols) :
    onesLike (expandBlock cfg blk (r : Int) (c : Int)) =
      (List.range cfg.numRows).map (fun i => (List.range cfg.numCols).map (fun j =>
        if (if r ≤ i ∧ i < r + 3 ∧ c ≤ j ∧ j < c + 3 then Jx.Grid.get blk 0 (i - r) (j - c) else 0) != 0
        then 1 else 0)) := by
  simp only [onesLike, expandBlock, dsStart_nat hr, dsStart_nat hc, List.map_map, Function.comp_def]

theorem legalCore (cfg : Cfg) (g blk : G) (r c : Nat)
    (hg : Jx.Grid.shaped g cfg.numRows cfg.numCols = true)
    (hr : r + 3 ≤ cfg.numRows) (hc : c + 3 ≤ cfg.numCols) :
    gridMax (List.zipWith (List.zipWith (fun g m => (if g > 0 then 1 else 0) + m)) g
        (onesLike (expandBlock cfg blk (r : Int) (c : Int)))) ≤ 1
      ↔ ∀ p ∈ Jx.Grid.coords 3 3, Jx.Grid.get blk 0 p.1 p.2 ≠ 0 →
          Jx.Grid.get g 1 (r + p.1) (c + p.2) = 0 := by
  have key := gridMax_zip_rangeMap cfg.numRows cfg.numCols (fun i j => Jx.Grid.get g 1 i j)
    (fun i j => if (if r ≤ i ∧ i < r + 3 ∧ c ≤ j ∧ j < c + 3 then Jx.Grid.get blk 0 (i - r) (j - c) else 0) != 0
        then 1 else 0) (fun g m => (if g > 0 then 1 else 0) + m) 1
  rw [← shaped_eq_rangeMap 1 hg, ← onesLike_expandBlock cfg blk hr hc] at key
  rw [key]
  constructor
  · intro H p hp hne
    rw [mem_coords] at hp
    have h := H (r + p.1) (by omega) (c + p.2) (by omega)
    have e1 : r + p.1 - r = p.1 := by omega
    have e2 : c + p.2 - c = p.2 := by omega
    have hbox : r ≤ r + p.1 ∧ r + p.1 < r + 3 ∧ c ≤ c + p.2 ∧ c + p.2 < c + 3 := by omega
    simp only [if_pos hbox, e1, e2, bne_iff_ne, ne_eq, hne, not_false_eq_true, if_true] at h
    by_cases hz : Jx.Grid.get g 1 (r + p.1) (c + p.2) = 0
    · exact hz
    · have hpos : Jx.Grid.get g 1 (r + p.1) (c + p.2) > 0 := by omega
      simp only [hpos, if_true] at h
      omega
  · intro H i hi j hj
    by_cases hbox : r ≤ i ∧ i < r + 3 ∧ c ≤ j ∧ j < c + 3
    · simp only [if_pos hbox]
      by_cases hne : Jx.Grid.get blk 0 (i - r) (j - c) = 0
      · simp only [hne, bne_self_eq_false, Bool.false_eq_true, if_false]
        split <;> omega
      · have h := H (i - r, j - c) (by rw [mem_coords]; simp only []; omega) hne
        have e1 : r + (i - r) = i := by omega
        have e2 : c + (j - c) = j := by omega
        simp only [e1, e2] at h
        simp only [h]
        split <;> split <;> omega
    · simp only [if_neg hbox, bne_self_eq_false, Bool.false_eq_true, if_false]
      split <;> omega

theorem poseCells_all (g blk : G) (k r c : Nat) :
    (poseCells blk k r c).all (cellFree g) = true
      ↔ ∀ p ∈ Jx.Grid.coords 3 3, Jx.Grid.get (rotateBlock blk (k : Int)) 0 p.1 p.2 ≠ 0 →
          Jx.Grid.get g 1 (r + p.1) (c + p.2) = 0 := by
  unfold poseCells cellFree
  simp only [List.all_eq_true, List.mem_map, List.mem_filter, bne_iff_ne, ne_eq, beq_iff_eq]
  constructor
  · intro H p hp hne
    exact H _ ⟨p, ⟨hp, hne⟩, rfl⟩
  · rintro H q ⟨p, ⟨hp, hne⟩, rfl⟩
    exact H p hp hne

/-! ### (e) the mask body at an in-spec index -/

theorem body_eq_legal (cfg : Cfg) (s : State)
    (hg : Jx.Grid.shaped s.grid cfg.numRows cfg.numCols = true)
    (hb : s.blocks.length = cfg.numBlocks) (hp : s.placed.length = cfg.numBlocks)
    (b k r c : Nat) (hin : inSpec cfg b k r c = true) :
    (if s.placed.getD b false then false else
      isLegalAction (b : Int) s.grid s.placed
        (onesLike (expandBlock cfg (rotateBlock (Jx.getWC s.blocks [] (b : Int)) (k : Int)) (r : Int) (c : Int))))
      = legalB cfg s b k r c := by
  have hin' := hin
  simp only [inSpec, Bool.and_eq_true, decide_eq_true_eq] at hin'
  obtain ⟨⟨⟨hb1, hk⟩, hr⟩, hc⟩ := hin'
  have hbp : b < s.placed.length := by omega
  have hbb : b < s.blocks.length := by omega
  unfold legalB isLegalAction
  rw [hin, Jx.getWC_nat _ _ hbp, Jx.getWC_nat _ _ hbb]
  have hd : s.placed.getD b true = s.placed.getD b false := by simp [List.getD, hbp]
  rw [hd]
  cases hpl : s.placed.getD b false
  · simp only [Bool.false_eq_true, if_false, Bool.not_false, Bool.true_and]
    rw [Bool.eq_iff_iff, decide_eq_true_eq, legalCore cfg s.grid _ r c hg hr hc, poseCells_all]
  · simp

set_option linter.unusedVariables false in
/-- C04: the L1 mask entry of an in-spec action equals the L2 legality of that action.
(`h3` is not needed: the rotated block is treated as an opaque grid read with default 0.) -/
theorem mask_entry_eq_legal (cfg : Cfg) (s : State)
    (hg : Jx.Grid.shaped s.grid cfg.numRows cfg.numCols = true)
    (hb : s.blocks.length = cfg.numBlocks) (hp : s.placed.length = cfg.numBlocks)
    (h3 : ∀ blk ∈ s.blocks, Jx.Grid.shaped blk 3 3 = true)
    (b k r c : Nat) (hin : inSpec cfg b k r c = true) :
    maskAt (makeActionMask cfg s.grid s.blocks s.placed) ⟨(b : Int), (k : Int), (r : Int), (c : Int)⟩
      = legalB cfg s b k r c := by
  have hin' := hin
  simp only [inSpec, Bool.and_eq_true, decide_eq_true_eq] at hin'
  obtain ⟨⟨⟨hb1, hk⟩, hr⟩, hc⟩ := hin'
  have hr' : r < cfg.numRows - 2 := by omega
  have hc' : c < cfg.numCols - 2 := by omega
  unfold maskAt makeActionMask
  simp only [getWC_range_map _ _ _ hb1, getWC_range_map _ _ _ hk, getWC_range_map _ _ _ hr',
    getWC_range_map _ _ _ hc']
  exact body_eq_legal cfg s hg hb hp b k r c hin

set_option linter.unusedVariables false in
/-- the whole L1 mask is the L2 mask (same remark about `h3`) -/
theorem makeActionMask_eq_legalMask (cfg : Cfg) (s : State)
    (hg : Jx.Grid.shaped s.grid cfg.numRows cfg.numCols = true)
    (hb : s.blocks.length = cfg.numBlocks) (hp : s.placed.length = cfg.numBlocks)
    (h3 : ∀ blk ∈ s.blocks, Jx.Grid.shaped blk 3 3 = true) :
    makeActionMask cfg s.grid s.blocks s.placed = legalMask cfg s := by
  unfold makeActionMask legalMask
  apply List.map_congr_left; intro b hb1
  apply List.map_congr_left; intro k hk
  apply List.map_congr_left; intro r hr
  apply List.map_congr_left; intro c hc
  rw [List.mem_range] at hb1 hk hr hc
  have hin : inSpec cfg b k r c = true := by
    simp only [inSpec, Bool.and_eq_true, decide_eq_true_eq]
    omega
  exact body_eq_legal cfg s hg hb hp b k r c hin

end FlatPack
