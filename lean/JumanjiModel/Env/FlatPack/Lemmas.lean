/- Proofs about the FlatPack model (statements of the properties are in Props/Env/FlatPack.lean). -/
import JumanjiModel.Env.FlatPack.Model
import JumanjiModel.Prim.Lemmas
namespace FlatPack
open Jm

theorem getWC_range_map {α} (n : Nat) (f : Nat → α) (d : α) {i : Nat} (h : i < n) :
    Jx.getWC ((List.range n).map f) d (i : Int) = f i := by
  rw [Jx.getWC_nat _ _ (by simpa using h)]
  simp [List.getD, h]

/-- an action of the action space, as `step` receives it -/
def act (b k r c : Nat) : Action := ⟨(b : Int), (k : Int), (r : Int), (c : Int)⟩

theorem inSpec_bounds {cfg : Cfg} {b k r c : Nat} (h : inSpec cfg b k r c = true) :
    b < cfg.numBlocks ∧ k < 4 ∧ r < cfg.numRows - 2 ∧ c < cfg.numCols - 2 := by
  simp only [inSpec, Bool.and_eq_true, decide_eq_true_eq] at h
  omega

/-- looking an in-spec action up in the L2 mask gives its legality -/
theorem maskAt_legalMask (cfg : Cfg) (s : State) {b k r c : Nat} (h : inSpec cfg b k r c = true) :
    maskAt (legalMask cfg s) (act b k r c) = legalB cfg s b k r c := by
  obtain ⟨hb, hk, hr, hc⟩ := inSpec_bounds h
  unfold maskAt legalMask act
  simp only []
  rw [getWC_range_map _ _ _ hb, getWC_range_map _ _ _ hk, getWC_range_map _ _ _ hr, getWC_range_map _ _ _ hc]

/-! ### step -/

theorem step_count (rnd : Rat → Rat) (cfg : Cfg) (s : State) (a : Action) :
    (step rnd cfg s a).1.stepCount = s.stepCount + 1 := by simp [step]

theorem step_numBlocks (rnd : Rat → Rat) (cfg : Cfg) (s : State) (a : Action) :
    (step rnd cfg s a).1.numBlocks = s.numBlocks ∧ (step rnd cfg s a).1.blocks = s.blocks := by simp [step]

/-- a step is LAST exactly when the number of steps taken reaches the number of blocks -/
theorem last_iff (rnd : Rat → Rat) (cfg : Cfg) (s : State) (a : Action) :
    (step rnd cfg s a).2.stepType = .last ↔ s.numBlocks ≤ s.stepCount + 1 := by
  simp only [step, condLast]
  split
  · rename_i h; simpa [termination] using h
  · rename_i h; simpa [transition] using h

/-- the mask cached in the successor is the mask of the successor's grid and placed flags -/
theorem cached_mask (rnd : Rat → Rat) (cfg : Cfg) (s : State) (a : Action) :
    (step rnd cfg s a).1.actionMask =
      makeActionMask cfg (step rnd cfg s a).1.grid (step rnd cfg s a).1.blocks (step rnd cfg s a).1.placed := by
  simp [step]

/-- a masked-out action is ignored: grid, blocks and placed flags stay, the step is counted, no reward -/
theorem invalid_step (rnd : Rat → Rat) (cfg : Cfg) (s : State) (a : Action) (h : maskAt s.actionMask a = false) :
    (step rnd cfg s a).1.grid = s.grid ∧ (step rnd cfg s a).1.placed = s.placed ∧
    (step rnd cfg s a).1.blocks = s.blocks ∧ (step rnd cfg s a).1.stepCount = s.stepCount + 1 ∧
    (step rnd cfg s a).2.reward = [0] ∧
    ((step rnd cfg s a).2.stepType = .last → s.numBlocks ≤ s.stepCount + 1) := by
  refine ⟨by simp [step, h], by simp [step, h], by simp [step], by simp [step], ?_, (last_iff rnd cfg s a).1⟩
  simp only [step, condLast, h]
  split <;> simp [termination, transition, reward]

theorem illegal_step (rnd : Rat → Rat) (cfg : Cfg) (s : State) (hm : s.actionMask = legalMask cfg s)
    {b k r c : Nat} (hin : inSpec cfg b k r c = true) (h : ¬ legal cfg s b k r c) :
    (step rnd cfg s (act b k r c)).1.grid = s.grid ∧ (step rnd cfg s (act b k r c)).1.placed = s.placed ∧
    (step rnd cfg s (act b k r c)).1.blocks = s.blocks ∧
    (step rnd cfg s (act b k r c)).1.stepCount = s.stepCount + 1 ∧
    (step rnd cfg s (act b k r c)).2.reward = [0] ∧
    ((step rnd cfg s (act b k r c)).2.stepType = .last → s.numBlocks ≤ s.stepCount + 1) := by
  apply invalid_step
  rw [hm, maskAt_legalMask cfg s hin]
  unfold legal at h; simpa using h

/-- the environment's own validity test is legality (in a state whose cached mask is the set of legal moves) -/
theorem valid_iff_legal (cfg : Cfg) (s : State) (hm : s.actionMask = legalMask cfg s)
    {b k r c : Nat} (hin : inSpec cfg b k r c = true) :
    maskAt s.actionMask (act b k r c) = true ↔ legal cfg s b k r c := by
  rw [hm, maskAt_legalMask cfg s hin]; rfl

/-- the observation is the documented view of the successor state -/
theorem obs_faithful (rnd : Rat → Rat) (cfg : Cfg) (s : State) (a : Action) :
    (step rnd cfg s a).2.obs = observe (step rnd cfg s a).1 := by
  simp only [step, condLast]
  split <;> rfl

end FlatPack
