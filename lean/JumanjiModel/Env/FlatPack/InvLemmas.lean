import JumanjiModel.Env.FlatPack.FeasLemmas
namespace FlatPack
open Jm

/-! ### the state invariant: feasible + cached mask = legal moves -/

def Inv (cfg : Cfg) (s : State) : Prop := Feasible cfg s ∧ s.actionMask = legalMask cfg s

/-- `feasibleB` reads only grid, blocks, placed flags and `numBlocks` -/
theorem feasibleB_congr (cfg : Cfg) {s s' : State} (hg : s'.grid = s.grid) (hb : s'.blocks = s.blocks)
    (hp : s'.placed = s.placed) (hn : s'.numBlocks = s.numBlocks) : feasibleB cfg s' = feasibleB cfg s := by
  simp only [feasibleB, blocksOK, blockSitsInGrid, hg, hb, hp, hn]

/-- `legalMask` reads only grid, blocks and placed flags -/
theorem legalMask_congr (cfg : Cfg) {s s' : State} (hg : s'.grid = s.grid) (hb : s'.blocks = s.blocks)
    (hp : s'.placed = s.placed) : legalMask cfg s' = legalMask cfg s := by
  simp only [legalMask, legalB, hg, hb, hp]

/-- in a feasible state the L1 mask of its own fields is the L2 mask -/
theorem feasible_mask (cfg : Cfg) (s : State) (hf : Feasible cfg s) :
    makeActionMask cfg s.grid s.blocks s.placed = legalMask cfg s := by
  have h := (feasible_iff cfg s).1 hf
  obtain ⟨⟨hbl, hpl, _, hblk, _⟩, hg, _⟩ := h
  exact makeActionMask_eq_legalMask cfg s hg hbl hpl (fun blk hb => (hblk blk hb).1)

/-- fields of the successor of an in-spec step that is not legal -/
theorem step_illegal_fields (rnd : Rat → Rat) (cfg : Cfg) (s : State) (b k r c : Nat)
    (hm : s.actionMask = legalMask cfg s) (hin : inSpec cfg b k r c = true) (hl : ¬ legal cfg s b k r c) :
    (step rnd cfg s (act b k r c)).1.grid = s.grid ∧ (step rnd cfg s (act b k r c)).1.placed = s.placed ∧
    (step rnd cfg s (act b k r c)).1.blocks = s.blocks ∧ (step rnd cfg s (act b k r c)).1.numBlocks = s.numBlocks ∧
    (step rnd cfg s (act b k r c)).2.reward = [0] := by
  obtain ⟨h1, h2, h3, _, h5, _⟩ := illegal_step rnd cfg s hm hin hl
  exact ⟨h1, h2, h3, (step_numBlocks rnd cfg s _).1, h5⟩

/-- `Inv` is kept by EVERY in-spec step, legal or not -/
theorem step_inv (rnd : Rat → Rat) (cfg : Cfg) (s : State) (b k r c : Nat) (hi : Inv cfg s)
    (hin : inSpec cfg b k r c = true) : Inv cfg (step rnd cfg s (act b k r c)).1 := by
  obtain ⟨hf, hm⟩ := hi
  have hf' : Feasible cfg (step rnd cfg s (act b k r c)).1 := by
    by_cases hl : legal cfg s b k r c
    · exact step_feasible rnd cfg s b k r c hf hm hl
    · obtain ⟨h1, h2, h3, h4, _⟩ := step_illegal_fields rnd cfg s b k r c hm hin hl
      unfold Feasible at hf ⊢
      rw [feasibleB_congr cfg h1 h3 h2 h4]
      exact hf
  refine ⟨hf', ?_⟩
  rw [cached_mask]
  exact feasible_mask cfg _ hf'

theorem fresh_inv (cfg : Cfg) (s : State) (hb : blocksOK cfg s = true)
    (hg : s.grid = Jx.Grid.mk cfg.numRows cfg.numCols 0) (hp : s.placed = List.replicate cfg.numBlocks false)
    (hm : s.actionMask = legalMask cfg s) : Inv cfg s :=
  ⟨fresh_feasible cfg s hb hg hp, hm⟩

/-! ### C08: whole-step telescoping -/

theorem objective_congr (cfg : Cfg) {s s' : State} (hg : s'.grid = s.grid) (hp : s'.placed = s.placed)
    (hn : s'.numBlocks = s.numBlocks) : objective cfg s' = objective cfg s := by
  simp only [objective, coveredFraction, placedFraction, hg, hp, hn]

/-- C08: for ANY in-spec action the objective grows by exactly the reward of the step -/
theorem objective_step (cfg : Cfg) (s : State) (b k r c : Nat) (hi : Inv cfg s) (hin : inSpec cfg b k r c = true) :
    objective cfg (step id cfg s (act b k r c)).1 =
      objective cfg s + ((step id cfg s (act b k r c)).2.reward).sum := by
  obtain ⟨hf, hm⟩ := hi
  by_cases hl : legal cfg s b k r c
  · have h := (feasible_iff cfg s).1 hf
    exact objective_telescopes cfg s b k r c h.2.1 h.1.1 hm hl
  · obtain ⟨h1, h2, _, h4, h5⟩ := step_illegal_fields id cfg s b k r c hm hin hl
    rw [objective_congr cfg h1 h2 h4, h5]
    simp only [List.sum_cons, List.sum_nil, Rat.add_zero]

/-! ### C06 (completion): counting cells -/

theorem flatten_tab (R C : Nat) (f : Nat → Nat → Nat) :
    List.flatten (tab R C f) = (Jx.Grid.coords R C).map (fun p => f p.1 p.2) := by
  unfold tab Jx.Grid.coords
  rw [List.flatMap_def]
  generalize List.range R = l
  induction l with
  | nil => rfl
  | cons x xs ih =>
    simp only [List.map_cons, List.flatten_cons, List.map_append, List.map_map, Function.comp_def, ih]

theorem countNonzero_tab (R C : Nat) (f : Nat → Nat → Nat) :
    countNonzero (tab R C f) = ((Jx.Grid.coords R C).filter (fun p => f p.1 p.2 != 0)).length := by
  unfold countNonzero Jx.Grid.count
  rw [flatten_tab, List.filter_map, List.length_map]
  rfl

theorem length_filter_or {α} (l : List α) (p q : α → Bool) (h : ∀ x ∈ l, ¬ (p x = true ∧ q x = true)) :
    (l.filter (fun x => p x || q x)).length = (l.filter p).length + (l.filter q).length := by
  induction l with
  | nil => rfl
  | cons x xs ih =>
    have ih' := ih (fun y hy => h y (List.mem_cons_of_mem _ hy))
    have hx := h x List.mem_cons_self
    simp only [List.filter_cons]
    cases hp : p x <;> cases hq : q x <;> simp_all <;> omega

/-- counting the elements whose value is in a duplicate-free list, value by value -/
theorem count_by_value {α} (l : List α) (val : α → Nat) (vs : List Nat) (hnd : vs.Nodup) :
    (l.filter (fun x => vs.contains (val x))).length =
      (vs.map (fun v => (l.filter (fun x => val x == v)).length)).sum := by
  induction vs with
  | nil => simp
  | cons v vs ih =>
    rw [List.nodup_cons] at hnd
    simp only [List.map_cons, List.sum_cons, ← ih hnd.2]
    rw [← length_filter_or]
    · congr 1
    · rintro x _ ⟨h1, h2⟩
      simp only [beq_iff_eq, List.contains_iff_mem] at h1 h2
      subst h1
      exact hnd.1 h2

theorem nodup_coords (R C : Nat) : (Jx.Grid.coords R C).Nodup := by
  unfold Jx.Grid.coords List.Nodup
  rw [List.pairwise_flatMap]
  constructor
  · intro r _
    rw [List.pairwise_map]
    exact List.Pairwise.imp (fun h e => h (congrArg Prod.snd e)) List.nodup_range
  · refine List.Pairwise.imp ?_ List.nodup_range
    intro a b hab x hx y hy e
    simp only [List.mem_map] at hx hy
    obtain ⟨_, _, rfl⟩ := hx
    obtain ⟨_, _, rfl⟩ := hy
    exact hab (congrArg Prod.fst e)

theorem nodup_cellsWith (cfg : Cfg) (g : G) (v : Nat) : (cellsWith cfg g v).Nodup :=
  List.Pairwise.filter _ (nodup_coords _ _)

theorem nodup_poseCells (blk : G) (k r c : Nat) : (poseCells blk k r c).Nodup := by
  unfold poseCells List.Nodup
  rw [List.pairwise_map]
  refine List.Pairwise.imp ?_ (List.Pairwise.filter _ (nodup_coords 3 3))
  intro a b hab e
  apply hab
  have e1 := congrArg Prod.fst e
  have e2 := congrArg Prod.snd e
  simp only [] at e1 e2
  apply Prod.ext <;> omega

theorem len3 {α} {l : List α} (h : l.length = 3) : ∃ a b c, l = [a, b, c] := by
  match l, h with
  | [a, b, c], _ => exact ⟨a, b, c, rfl⟩

theorem shaped33 {blk : G} (h : Jx.Grid.shaped blk 3 3 = true) :
    ∃ a b c d e f g h i : Nat, blk = [[a, b, c], [d, e, f], [g, h, i]] := by
  rw [shaped_iff] at h
  obtain ⟨hl, hr⟩ := h
  obtain ⟨r1, r2, r3, rfl⟩ := len3 hl
  obtain ⟨a, b, c, rfl⟩ := len3 (hr r1 (by simp))
  obtain ⟨d, e, f, rfl⟩ := len3 (hr r2 (by simp))
  obtain ⟨g, h, i, rfl⟩ := len3 (hr r3 (by simp))
  exact ⟨a, b, c, d, e, f, g, h, i, rfl⟩

theorem coords33 : Jx.Grid.coords 3 3 = [(0,0),(0,1),(0,2),(1,0),(1,1),(1,2),(2,0),(2,1),(2,2)] := by decide

/-- a pose has as many cells as the block has non-zero entries (rotation only moves entries around) -/
theorem poseCells_length {blk : G} (hs : Jx.Grid.shaped blk 3 3 = true) (k r c : Nat) :
    (poseCells blk k r c).length = countNonzero blk := by
  obtain ⟨a, b, c', d, e, f, g, h, i, rfl⟩ := shaped33 hs
  unfold poseCells
  rw [List.length_map, coords33, ← List.countP_eq_length_filter]
  unfold countNonzero Jx.Grid.count
  rw [← List.countP_eq_length_filter]
  unfold rotateBlock
  have hr3 : List.range 3 = [0, 1, 2] := by decide
  split
  · simp only [List.countP_cons, List.countP_nil, Jx.Grid.get, List.flatten_cons, List.flatten_nil, List.cons_append,
      List.nil_append, List.getD_cons_zero, List.getD_cons_succ]
  · split
    · simp only [List.countP_cons, List.countP_nil, Jx.Grid.get, Jx.Grid.transpose, hr3, List.flatten_cons, List.flatten_nil,
        List.cons_append, List.length_cons, List.length_nil,
        List.nil_append, List.getD_cons_zero, List.getD_cons_succ, List.map_cons, List.map_nil, List.filterMap_cons,
        List.filterMap_nil, List.reverse_cons, List.reverse_nil, List.getElem?_cons_zero, List.getElem?_cons_succ]
      omega
    · split
      · simp only [List.countP_cons, List.countP_nil, Jx.Grid.get, List.flatten_cons, List.flatten_nil, List.cons_append,
          List.nil_append, List.getD_cons_zero, List.getD_cons_succ, List.map_cons, List.map_nil,
          List.reverse_cons, List.reverse_nil]
        omega
      · simp only [List.countP_cons, List.countP_nil, Jx.Grid.get, Jx.Grid.transpose, hr3, List.flatten_cons, List.flatten_nil,
          List.cons_append, List.length_cons, List.length_nil,
          List.nil_append, List.getD_cons_zero, List.getD_cons_succ, List.map_cons, List.map_nil, List.filterMap_cons,
          List.filterMap_nil, List.reverse_cons, List.reverse_nil, List.getElem?_cons_zero, List.getElem?_cons_succ]
        omega

theorem sameMembers_length {xs ys : List (Nat × Nat)} (hx : xs.Nodup) (hy : ys.Nodup) (h : ∀ p, p ∈ xs ↔ p ∈ ys) :
    xs.length = ys.length :=
  ((List.perm_ext_iff_of_nodup hx hy).2 h).length_eq

theorem length_coords (R C : Nat) : (Jx.Grid.coords R C).length = R * C := by
  unfold Jx.Grid.coords
  induction R with
  | zero => simp
  | succ n ih =>
    rw [List.range_succ, List.flatMap_append, List.length_append, ih]
    simp [Nat.succ_mul]

theorem shaped_flatten_length {g : G} {R C : Nat} (h : Jx.Grid.shaped g R C = true) :
    (List.flatten g).length = R * C := by
  rw [shaped_eq_tab h, flatten_tab, List.length_map, length_coords]

/-- in a feasible state the number of non-zero grid cells is the total size of the placed blocks
(stated here for "all blocks placed") -/
theorem feasible_count (cfg : Cfg) (s : State) (hf : Feasible cfg s) (hall : s.placed.all id = true) :
    countNonzero s.grid = (s.blocks.map countNonzero).sum := by
  obtain ⟨⟨hbl, hpl, _, hblk, hnd⟩, hg, h1, _, h4⟩ := (feasible_iff cfg s).1 hf
  have hplaced : ∀ b < cfg.numBlocks, s.placed.getD b false = true := by
    intro b hb
    have hb' : b < s.placed.length := by omega
    simp only [List.all_eq_true, id] at hall
    simp only [List.getD_eq_getElem?_getD, List.getElem?_eq_getElem hb', Option.getD_some]
    exact hall _ (List.getElem_mem hb')
  have hcells : ∀ blk ∈ s.blocks, (cellsWith cfg s.grid (blockValue blk)).length = countNonzero blk := by
    intro blk hmem
    obtain ⟨b, hb, rfl⟩ := List.getElem_of_mem hmem
    have e : s.blocks.getD b [] = s.blocks[b] := by
      simp [List.getD_eq_getElem?_getD, hb]
    obtain ⟨k, r, c, _, hsame⟩ := h1 b (by omega) (hplaced b (by omega))
    rw [e] at hsame
    rw [sameMembers_length (nodup_cellsWith _ _ _) (nodup_poseCells _ _ _ _) hsame]
    exact poseCells_length (hblk _ hmem).1 k r c
  have h4' := h4
  rw [shaped_eq_tab hg, forall_mem_tab] at h4'
  have hstep1 : countNonzero s.grid =
      ((Jx.Grid.coords cfg.numRows cfg.numCols).filter
        (fun p => (s.blocks.map blockValue).contains (Jx.Grid.get s.grid 0 p.1 p.2))).length := by
    conv => lhs; rw [shaped_eq_tab hg]
    rw [countNonzero_tab]
    congr 1
    apply List.filter_congr
    intro p hp
    rw [mem_coords] at hp
    rw [Bool.eq_iff_iff]
    simp only [bne_iff_ne, ne_eq, List.contains_iff_mem, List.mem_map]
    constructor
    · intro hne
      rcases h4' p.1 hp.1 p.2 hp.2 with h | ⟨b, hb, _, hv⟩
      · exact absurd h hne
      · have hb' : b < s.blocks.length := by omega
        refine ⟨s.blocks[b], List.getElem_mem hb', ?_⟩
        rw [← hv]
        simp [List.getD_eq_getElem?_getD, hb']
    · rintro ⟨blk, hmem, hv⟩ h0
      have := blockValue_pos (hblk blk hmem).2
      omega
  rw [hstep1, count_by_value _ _ _ hnd, List.map_map]
  congr 1
  apply List.map_congr_left
  intro blk hmem
  exact hcells blk hmem

/-- C06 (completion): feasible + every block placed + the blocks have as many cells as the grid
⟹ complete solution (no empty cell) -/
theorem complete_is_solution (cfg : Cfg) (s : State) (hf : Feasible cfg s) (hall : s.placed.all id = true)
    (hsum : (s.blocks.map countNonzero).foldl (· + ·) 0 = cfg.numRows * cfg.numCols) : IsSolution cfg s := by
  refine ⟨hf, hall, ?_⟩
  have hg := ((feasible_iff cfg s).1 hf).2.1
  have hcnt := feasible_count cfg s hf hall
  rw [List.sum_eq_foldl_nat, hsum, ← shaped_flatten_length hg] at hcnt
  unfold countNonzero Jx.Grid.count at hcnt
  rw [List.length_filter_eq_length_iff] at hcnt
  simp only [List.all_eq_true]
  intro row hrow v hv
  exact hcnt v (List.mem_flatten.mpr ⟨row, hrow, hv⟩)

end FlatPack
