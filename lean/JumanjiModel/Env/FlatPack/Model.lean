/-
FlatPack (jumanji/environments/packing/flat_pack/{env,reward,utils,types}.py).  Import-free.

L1 = transliteration of `step`, `_make_action_mask`, `_is_legal_action`, `_expand_block_to_grid`,
`utils.rotate_block`, `CellDenseReward`, `BlockDenseReward`.  The float32 divisions of the reward
functions go through the rounding parameter `rnd` (identity = exact ℚ, `Jx.roundF32` in the bridge).
L2 = the rules: a block may be put down iff it has not been placed yet and every one of its cells
lands on an empty cell of the grid; `Feasible` recomputes from the raw grid that it is the disjoint
union of the placed blocks, each somewhere inside the grid in one of its four orientations.
-/
import JumanjiModel.Prim.Idx
import JumanjiModel.Prim.Grid
import JumanjiModel.Core.TimeStep
namespace FlatPack
open Jm

abbrev G := List (List Nat)
/-- the 4-D mask `(num_blocks, 4, num_rows-2, num_cols-2)` -/
abbrev Mask := List (List (List (List Bool)))

structure Cfg where
  numRows : Nat      -- grid rows  (= 2 * row_blocks + 1)
  numCols : Nat
  numBlocks : Nat    -- `env.num_blocks` (= row_blocks * col_blocks)
  cellDense : Bool   -- CellDenseReward / BlockDenseReward
  deriving Repr, DecidableEq

structure State where
  grid : G
  numBlocks : Nat           -- `state.num_blocks`
  blocks : List G           -- num_blocks × 3 × 3
  actionMask : Mask         -- cached
  placed : List Bool
  stepCount : Nat
  deriving Repr, DecidableEq

structure Obs where
  grid : G
  blocks : List G
  actionMask : Mask
  deriving Repr, DecidableEq

structure Action where
  block : Int
  rot : Int
  row : Int
  col : Int
  deriving Repr, DecidableEq

/-! ### L1 -/

/-- `rotate_block`: `lax.switch` clamps the branch index into `[0, 3]` -/
def rotateBlock (b : G) (k : Int) : G :=
  if k ≤ 0 then b
  else if k = 1 then List.map List.reverse (Jx.Grid.transpose b)           -- flip(transpose, axis=1)
  else if k = 2 then List.map List.reverse (List.reverse b)                   -- flip(flip(axis=0), axis=1)
  else List.reverse (Jx.Grid.transpose b)                                 -- flip(transpose, axis=0)

/-- start index of `lax.dynamic_update_slice` (wrap once, clamp into `[0, n - size]`) -/
def dsStart (n size : Nat) (i : Int) : Nat :=
  let j := Jx.wrapIdx n i
  if j < 0 then 0 else if j.toNat > n - size then n - size else j.toNat

/-- `_expand_block_to_grid`: zeros with the 3 × 3 block written at `(row, col)` -/
def expandBlock (cfg : Cfg) (b : G) (row col : Int) : G :=
  let ys := dsStart cfg.numRows 3 row
  let xs := dsStart cfg.numCols 3 col
  (List.range cfg.numRows).map (fun r => (List.range cfg.numCols).map (fun c =>
    if ys ≤ r ∧ r < ys + 3 ∧ xs ≤ c ∧ c < xs + 3 then Jx.Grid.get b 0 (r - ys) (c - xs) else 0))

/-- `_get_ones_like_expanded_block` -/
def onesLike (g : G) : G := g.map (fun r => r.map (fun v => if v != 0 then 1 else 0))

def gridMax (g : G) : Nat := g.flatten.foldl max 0

/-- `_is_legal_action`: `~placed[b] & (max((grid > 0) + grid_mask_block) <= 1)` -/
def isLegalAction (b : Int) (grid : G) (placed : List Bool) (maskBlock : G) : Bool :=
  let pm := List.zipWith (List.zipWith (fun g m => (if g > 0 then 1 else 0) + m)) grid maskBlock
  !(Jx.getWC placed false b) && decide (gridMax pm ≤ 1)

/-- `_make_action_mask` -/
def makeActionMask (cfg : Cfg) (grid : G) (blocks : List G) (placed : List Bool) : Mask :=
  (List.range cfg.numBlocks).map (fun (b : Nat) => (List.range 4).map (fun (k : Nat) =>
    (List.range (cfg.numRows - 2)).map (fun (r : Nat) => (List.range (cfg.numCols - 2)).map (fun (c : Nat) =>
      let piece := onesLike (expandBlock cfg (rotateBlock (Jx.getWC blocks [] (b : Int)) (k : Int)) (r : Int) (c : Int))
      let legal := isLegalAction (b : Int) grid placed piece
      -- "now set all current placed blocks to false in the mask"
      if placed.getD b false then false else legal))))

/-- `state.action_mask[block_idx, rotation, row_idx, col_idx]` (gather: wrap, then clamp) -/
def maskAt (m : Mask) (a : Action) : Bool :=
  Jx.getWC (Jx.getWC (Jx.getWC (Jx.getWC m [] a.block) [] a.rot) [] a.row) false a.col

def countNonzero (g : G) : Nat := Jx.Grid.count (fun v => v != 0) g

/-- the two reward functions -/
def reward (rnd : Rat → Rat) (cfg : Cfg) (s : State) (gridBlock : G) (valid : Bool) : Rat :=
  if cfg.cellDense then
    (if valid then rnd ((countNonzero gridBlock : Rat) / ((cfg.numRows * cfg.numCols : Nat) : Rat)) else 0)
  else
    (if valid then rnd (1 / (s.numBlocks : Rat)) else 0)

def observeL1 (s : State) : Obs := { grid := s.grid, blocks := s.blocks, actionMask := s.actionMask }

def step (rnd : Rat → Rat) (cfg : Cfg) (s : State) (a : Action) : State × TimeStep Obs :=
  let chosen := rotateBlock (Jx.getWC s.blocks [] a.block) a.rot
  let gridBlock := expandBlock cfg chosen a.row a.col
  let legal := maskAt s.actionMask a
  let newGrid := if legal then List.zipWith (List.zipWith (· + ·)) s.grid gridBlock else s.grid
  let placed := if legal then Jx.setWD s.placed a.block true else s.placed
  let newMask := makeActionMask cfg newGrid s.blocks placed
  let s' : State := { grid := newGrid, numBlocks := s.numBlocks, blocks := s.blocks, actionMask := newMask,
                      placed := placed, stepCount := s.stepCount + 1 }
  let done := decide (s'.stepCount ≥ s'.numBlocks)
  (s', condLast done [reward rnd cfg s gridBlock legal] (observeL1 s'))

/-! ### L2: the rules -/

/-- grid coordinates of the cells of block `b` turned `rot` quarter turns with the top-left corner of
its 3 × 3 box at `(row, col)` -/
def poseCells (b : G) (rot row col : Nat) : List (Nat × Nat) :=
  ((Jx.Grid.coords 3 3).filter (fun p => Jx.Grid.get (rotateBlock b (rot : Int)) 0 p.1 p.2 != 0)).map
    (fun p => (row + p.1, col + p.2))

def cellFree (g : G) (p : Nat × Nat) : Bool := Jx.Grid.get g 1 p.1 p.2 == 0

/-- the action is in the action space -/
def inSpec (cfg : Cfg) (b rot row col : Nat) : Bool :=
  decide (b < cfg.numBlocks) && decide (rot < 4) && decide (row + 3 ≤ cfg.numRows) && decide (col + 3 ≤ cfg.numCols)

/-- a block may be put down iff it has not been placed yet and all its cells land on empty cells -/
def legalB (cfg : Cfg) (s : State) (b rot row col : Nat) : Bool :=
  inSpec cfg b rot row col && !(s.placed.getD b true) &&
  (poseCells (s.blocks.getD b []) rot row col).all (cellFree s.grid)

def legal (cfg : Cfg) (s : State) (b rot row col : Nat) : Prop := legalB cfg s b rot row col = true
instance (cfg : Cfg) (s : State) (b rot row col : Nat) : Decidable (legal cfg s b rot row col) := by
  unfold legal; infer_instance

def legalMask (cfg : Cfg) (s : State) : Mask :=
  (List.range cfg.numBlocks).map (fun b => (List.range 4).map (fun k =>
    (List.range (cfg.numRows - 2)).map (fun r => (List.range (cfg.numCols - 2)).map (fun c => legalB cfg s b k r c))))

/-- the number a block writes into the grid (all its cells carry the same positive number) -/
def blockValue (b : G) : Nat := gridMax b

def blockUniform (b : G) : Bool := decide (0 < blockValue b) && b.all (fun r => r.all (fun v => v == 0 || v == blockValue b))

/-- the instance is well formed: 3 × 3 blocks, each of one positive number, numbers pairwise different -/
def blocksOK (cfg : Cfg) (s : State) : Bool :=
  s.blocks.length == cfg.numBlocks && s.placed.length == cfg.numBlocks && s.numBlocks == cfg.numBlocks &&
  s.blocks.all (fun b => Jx.Grid.shaped b 3 3 && blockUniform b) &&
  (s.blocks.map blockValue).Nodup

/-- grid cells carrying the number `v`, row-major -/
def cellsWith (cfg : Cfg) (g : G) (v : Nat) : List (Nat × Nat) :=
  (Jx.Grid.coords cfg.numRows cfg.numCols).filter (fun p => Jx.Grid.get g 0 p.1 p.2 == v)

/-- all poses of the action space -/
def poses (cfg : Cfg) : List (Nat × Nat × Nat) :=
  (List.range 4).flatMap (fun k => (List.range (cfg.numRows - 2)).flatMap (fun r =>
    (List.range (cfg.numCols - 2)).map (fun c => (k, r, c))))

/-- same set of cells (both lists are duplicate-free here) -/
def sameCells (xs ys : List (Nat × Nat)) : Bool := xs.all (ys.contains ·) && ys.all (xs.contains ·)

/-- the cells numbered like block `b` are exactly block `b` in one orientation somewhere inside the grid -/
def blockSitsInGrid (cfg : Cfg) (s : State) (b : Nat) : Bool :=
  let blk := s.blocks.getD b []
  let cs := cellsWith cfg s.grid (blockValue blk)
  (poses cfg).any (fun p => sameCells cs (poseCells blk p.1 p.2.1 p.2.2))

/-- hard constraint, recomputed from the raw arrays: the grid is the disjoint union of the placed blocks,
each lying inside the grid in one of its orientations; unplaced blocks have left no trace; nothing else
is on the grid -/
def feasibleB (cfg : Cfg) (s : State) : Bool :=
  blocksOK cfg s && Jx.Grid.shaped s.grid cfg.numRows cfg.numCols &&
  (List.range cfg.numBlocks).all (fun b =>
    if s.placed.getD b false then blockSitsInGrid cfg s b
    else (cellsWith cfg s.grid (blockValue (s.blocks.getD b []))).isEmpty) &&
  s.grid.all (fun r => r.all (fun v => v == 0 ||
    (List.range cfg.numBlocks).any (fun b => s.placed.getD b false && blockValue (s.blocks.getD b []) == v)))

def Feasible (cfg : Cfg) (s : State) : Prop := feasibleB cfg s = true
instance (cfg : Cfg) (s : State) : Decidable (Feasible cfg s) := by unfold Feasible; infer_instance

/-- complete solution: feasible, every block placed, no empty cell -/
def IsSolution (cfg : Cfg) (s : State) : Prop :=
  Feasible cfg s ∧ s.placed.all id = true ∧ s.grid.all (fun r => r.all (fun v => v != 0)) = true
instance (cfg : Cfg) (s : State) : Decidable (IsSolution cfg s) := by unfold IsSolution; infer_instance

/-- objectives: covered fraction of the grid / fraction of blocks placed -/
def coveredFraction (cfg : Cfg) (s : State) : Rat :=
  (countNonzero s.grid : Rat) / ((cfg.numRows * cfg.numCols : Nat) : Rat)
def placedFraction (s : State) : Rat := (Jx.countTrue s.placed : Rat) / (s.numBlocks : Rat)
def objective (cfg : Cfg) (s : State) : Rat := if cfg.cellDense then coveredFraction cfg s else placedFraction s

/-- the documented observation: grid, blocks and mask as they are in the state -/
def observe (s : State) : Obs := { grid := s.grid, blocks := s.blocks, actionMask := s.actionMask }

/-- C05: an illegal action is ignored — grid, blocks and placed flags unchanged, the step is counted,
no reward -/
def illegalOk (s s' : State) (ts : TimeStep Obs) : Bool :=
  decide (s'.grid = s.grid) && decide (s'.placed = s.placed) && decide (s'.blocks = s.blocks) &&
  decide (s'.stepCount = s.stepCount + 1) && ts.reward == [0] && decide (s'.actionMask = s.actionMask)

/-! ### C10: the generated blocks tile the grid -/

/-- cells of block `b` turned `rot` quarter turns, shifted so that its bounding box starts at `(row, col)`
(unlike an action, the empty margin of the 3 × 3 box may stick out of the grid) -/
def freeCells (b : G) (rot row col : Nat) : List (Nat × Nat) :=
  let cs := (Jx.Grid.coords 3 3).filter (fun p => Jx.Grid.get (rotateBlock b (rot : Int)) 0 p.1 p.2 != 0)
  let r0 := (cs.map (·.1)).foldl min 3
  let c0 := (cs.map (·.2)).foldl min 3
  cs.map (fun p => (row + p.1 - r0, col + p.2 - c0))

/-- exact cover by depth-first search: always fill the first empty cell (row-major) with some pose of
some unused block.  `cands b` lists the candidate cell sets of block `b`. -/
def coverSearch (nr nc : Nat) (cands : List (List (List (Nat × Nat)))) : Nat → List (Nat × Nat) → List Bool → Bool
  | 0, _, _ => false
  | fuel + 1, covered, used =>
    match (Jx.Grid.coords nr nc).find? (fun p => !covered.contains p) with
    | none => used.all id
    | some cell =>
      (List.range cands.length).any (fun b =>
        !(used.getD b true) &&
        (cands.getD b []).any (fun cs =>
          cs.contains cell && cs.all (fun p => decide (p.1 < nr) && decide (p.2 < nc) && !covered.contains p) &&
          coverSearch nr nc cands fuel (cs ++ covered) (used.set b true)))

/-- certificate "the blocks tile the grid": some choice of orientation and position (bounding boxes
anywhere inside the grid) of every block covers every cell exactly once -/
def tilesFree (cfg : Cfg) (s : State) : Bool :=
  let cands := s.blocks.map (fun b =>
    (List.range 4).flatMap (fun k => (List.range cfg.numRows).flatMap (fun r =>
      (List.range cfg.numCols).map (fun c => freeCells b k r c))))
  coverSearch cfg.numRows cfg.numCols cands (s.blocks.length + 1) [] (List.replicate s.blocks.length false)

/-- "solvable as advertised": the same with the poses an agent can actually choose (3 × 3 box inside the grid) -/
def tilesByActions (cfg : Cfg) (s : State) : Bool :=
  let cands := s.blocks.map (fun b => (poses cfg).map (fun p => poseCells b p.1 p.2.1 p.2.2))
  coverSearch cfg.numRows cfg.numCols cands (s.blocks.length + 1) [] (List.replicate s.blocks.length false)

/-- the reset state: empty grid, nothing placed, step 0, every action allowed -/
def freshOK (cfg : Cfg) (s : State) : Bool :=
  s.grid == Jx.Grid.mk cfg.numRows cfg.numCols 0 && s.placed == List.replicate cfg.numBlocks false &&
  s.stepCount == 0 && decide (s.actionMask = legalMask cfg s) &&
  decide ((s.blocks.map countNonzero).foldl (· + ·) 0 = cfg.numRows * cfg.numCols)

/-! ### L2: one step of the game as documented (C09)

docs/environments/flat_pack.md and the class docstring: an action names a block, a number of quarter turns and
the grid coordinates of the top-left corner of the block's 3 × 3 box.  The block is put down iff it has not
been placed yet, its box lies inside the grid and none of its cells lands on an occupied cell (`legalB`);
then its cells are written into the grid and it is marked as placed.  Otherwise nothing happens (the step is
counted).  Reward: cell-dense = number of cells of the placed block / number of grid cells; block-dense =
1 / num_blocks; 0 when nothing was placed.  The episode ends "if all blocks have been placed on the board" or
"if the agent has taken `num_blocks` steps". -/

/-- the grid after writing block `blk`, turned `k` quarter turns, with the top-left corner of its box at
`(r, c)`: the block's entry wherever the block has a cell, the old grid everywhere else -/
def writeBlock (cfg : Cfg) (g blk : G) (k r c : Nat) : G :=
  (List.range cfg.numRows).map (fun i => (List.range cfg.numCols).map (fun j =>
    if (r ≤ i ∧ i < r + 3 ∧ c ≤ j ∧ j < c + 3) ∧
        Jx.Grid.get (rotateBlock blk (k : Int)) 0 (i - r) (j - c) ≠ 0
    then Jx.Grid.get (rotateBlock blk (k : Int)) 0 (i - r) (j - c)
    else Jx.Grid.get g 0 i j))

/-- reward of a successful placement of block `b` -/
def rewardL2 (rnd : Rat → Rat) (cfg : Cfg) (s : State) (b : Nat) : Rat :=
  if cfg.cellDense then
    rnd ((countNonzero (s.blocks.getD b []) : Rat) / ((cfg.numRows * cfg.numCols : Nat) : Rat))
  else rnd (1 / (s.numBlocks : Rat))

def stepL2 (rnd : Rat → Rat) (cfg : Cfg) (s : State) (b k r c : Nat) : State × TimeStep Obs :=
  let ok := legalB cfg s b k r c
  let s1 : State :=
    { s with grid := if ok then writeBlock cfg s.grid (s.blocks.getD b []) k r c else s.grid
             placed := if ok then s.placed.set b true else s.placed
             stepCount := s.stepCount + 1 }
  let s' : State := { s1 with actionMask := legalMask cfg s1 }
  let done := s'.placed.all id || decide (s'.numBlocks ≤ s'.stepCount)
  let rew := if ok then rewardL2 rnd cfg s b else 0
  (s', if done then termination [rew] (observe s') else transition [rew] (observe s'))

/-! ### L1: the two deterministic toy generators (generator.py, `ToyFlatPackGeneratorWithRotation.__call__`,
`ToyFlatPackGeneratorNoRotation.__call__`; audit r5 #3), transliterated by hand: 5 × 5 grid of zeros, the four literal blocks,
`action_mask = jnp.ones((4, 4, 3, 3))`, `num_blocks = 4`, `placed_blocks = zeros(4)`, `step_count = 0` (the key is not modelled).
`flat_pack.instance` / the C09 sweep compare real reset states with the model state by state. -/

def toyCfg (cellDense : Bool) : Cfg := ⟨5, 5, 4, cellDense⟩

/-- `jnp.ones((4, 4, 3, 3), dtype=bool)` -/
def toyOnesMask : Mask := List.replicate 4 (List.replicate 4 (List.replicate 3 (List.replicate 3 true)))

def toyGenerateRot : State := ⟨Jx.Grid.mk 5 5 0, 4,
  [[[0,1,0],[0,1,1],[1,1,1]], [[2,0,0],[2,2,2],[2,2,0]], [[0,0,3],[0,3,3],[3,3,3]], [[4,4,0],[4,4,4],[0,4,4]]],
  toyOnesMask, [false,false,false,false], 0⟩

def toyGenerateNoRot : State := ⟨Jx.Grid.mk 5 5 0, 4,
  [[[1,1,1],[1,1,0],[0,1,0]], [[0,2,2],[2,2,2],[0,0,2]], [[3,0,0],[3,3,0],[3,3,3]], [[4,4,0],[4,4,4],[0,4,4]]],
  toyOnesMask, [false,false,false,false], 0⟩

end FlatPack
