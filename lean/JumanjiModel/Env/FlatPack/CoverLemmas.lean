import JumanjiModel.Env.FlatPack.Model
namespace FlatPack

/-- a tiling: for every block index `b < cands.length` one of its candidate cell sets, such that the chosen
sets lie inside the grid, are pairwise disjoint, and together contain every cell of the grid -/
def IsTiling (nr nc : Nat) (cands : List (List (List (Nat × Nat)))) (choice : List (List (Nat × Nat))) : Prop :=
  choice.length = cands.length ∧
  (∀ b, b < cands.length → choice.getD b [] ∈ cands.getD b []) ∧
  (∀ b, b < cands.length → ∀ p ∈ choice.getD b [], p.1 < nr ∧ p.2 < nc) ∧
  (∀ b b', b < b' → b' < cands.length → ∀ p ∈ choice.getD b [], p ∉ choice.getD b' []) ∧
  (∀ i j, i < nr → j < nc → ∃ b, b < cands.length ∧ (i, j) ∈ choice.getD b [])

theorem cover_mem_coords (nr nc i j : Nat) : (i, j) ∈ Jx.Grid.coords nr nc ↔ i < nr ∧ j < nc := by
  simp [Jx.Grid.coords, List.mem_flatMap, List.mem_map, List.mem_range]

theorem getD_set_true (l : List Bool) (b b' : Nat) :
    (l.set b true).getD b' true = if b = b' then true else l.getD b' true := by
  simp only [List.getD_eq_getElem?_getD, List.getElem?_set]
  split
  · split <;> simp
  · rfl

theorem getD_set_cells (l : List (List (Nat × Nat))) (b b' : Nat) (cs : List (Nat × Nat)) (h : b < l.length) :
    (l.set b cs).getD b' [] = if b = b' then cs else l.getD b' [] := by
  simp only [List.getD_eq_getElem?_getD, List.getElem?_set]
  split
  · simp
  · rfl

/-- the search invariant: a successful search from `(covered, used)` yields a choice of one candidate set
for every not-yet-used block; the chosen sets lie inside the grid, avoid `covered`, are pairwise disjoint,
and together with `covered` contain every cell of the grid -/
theorem coverSearch_inv (nr nc : Nat) (cands : List (List (List (Nat × Nat)))) :
    ∀ (fuel : Nat) (covered : List (Nat × Nat)) (used : List Bool),
    coverSearch nr nc cands fuel covered used = true →
    ∃ choice : List (List (Nat × Nat)),
      choice.length = cands.length ∧
      (∀ b, b < cands.length → used.getD b true = false →
        choice.getD b [] ∈ cands.getD b [] ∧
        ∀ p ∈ choice.getD b [], p.1 < nr ∧ p.2 < nc ∧ p ∉ covered) ∧
      (∀ b b', b < b' → b' < cands.length → used.getD b true = false → used.getD b' true = false →
        ∀ p ∈ choice.getD b [], p ∉ choice.getD b' []) ∧
      (∀ i j, i < nr → j < nc →
        (i, j) ∈ covered ∨ ∃ b, b < cands.length ∧ used.getD b true = false ∧ (i, j) ∈ choice.getD b []) := by
  intro fuel
  induction fuel with
  | zero => intro covered used h; simp [coverSearch] at h
  | succ fuel ih =>
    intro covered used h
    unfold coverSearch at h
    split at h
    · -- no uncovered cell
      rename_i hnone
      rw [List.find?_eq_none] at hnone
      refine ⟨List.replicate cands.length [], by simp, ?_, ?_, ?_⟩
      · intro b hb hu
        rw [List.all_eq_true] at h
        exfalso
        rw [List.getD_eq_getElem?_getD] at hu
        cases hx : used[b]? with
        | none => simp [hx] at hu
        | some v =>
          simp [hx] at hu
          have := h v (List.mem_of_getElem? hx)
          simp [hu] at this
      · intro b b' _ _ _ _ p hp
        simp [List.getD_eq_getElem?_getD, List.getElem?_replicate] at hp
        split at hp <;> simp at hp
      · intro i j hi hj
        left
        have := hnone (i, j) ((cover_mem_coords nr nc i j).2 ⟨hi, hj⟩)
        simpa using this
    · -- fill `cell`
      rename_i cell hcell
      rw [List.any_eq_true] at h
      obtain ⟨b, hbr, hb⟩ := h
      rw [List.mem_range] at hbr
      rw [Bool.and_eq_true, List.any_eq_true] at hb
      obtain ⟨hub, cs, hcs, hrest⟩ := hb
      simp only [Bool.and_eq_true] at hrest
      obtain ⟨⟨_, hall⟩, hrec⟩ := hrest
      rw [List.all_eq_true] at hall
      have hub' : used.getD b true = false := by simpa using hub
      obtain ⟨ch, hlen, hmem, hdisj, hcov⟩ := ih _ _ hrec
      have hcsin : ∀ p ∈ cs, p.1 < nr ∧ p.2 < nc ∧ p ∉ covered := by
        intro p hp
        have := hall p hp
        simpa [and_assoc] using this
      have hbl : b < ch.length := by omega
      refine ⟨ch.set b cs, by simp [hlen], ?_, ?_, ?_⟩
      · intro b' hb' hu'
        rw [getD_set_cells _ _ _ _ hbl]
        by_cases hbb : b = b'
        · subst hbb; simp only [if_true]
          rw [List.getD_eq_getElem?_getD] at hcs
          exact ⟨by rw [List.getD_eq_getElem?_getD]; exact hcs, hcsin⟩
        · simp only [hbb, if_false]
          have hu2 : (used.set b true).getD b' true = false := by
            rw [getD_set_true, if_neg hbb]; exact hu'
          obtain ⟨h1, h2⟩ := hmem b' hb' hu2
          refine ⟨h1, ?_⟩
          intro p hp
          obtain ⟨ha, hb2, hc⟩ := h2 p hp
          refine ⟨ha, hb2, ?_⟩
          intro hpc
          exact hc (List.mem_append_right _ hpc)
      · intro b1 b2 hlt hb2 hu1 hu2 p hp
        rw [getD_set_cells _ _ _ _ hbl] at hp ⊢
        by_cases h1 : b = b1
        · have h2 : b ≠ b2 := by omega
          simp only [h1, if_true] at hp
          simp only [h2, if_false]
          have hu2' : (used.set b true).getD b2 true = false := by
            rw [getD_set_true, if_neg h2]; exact hu2
          intro hq
          exact ((hmem b2 hb2 hu2').2 p hq).2.2 (List.mem_append_left _ hp)
        · simp only [h1, if_false] at hp
          have hu1' : (used.set b true).getD b1 true = false := by
            rw [getD_set_true, if_neg h1]; exact hu1
          by_cases h2 : b = b2
          · simp only [h2, if_true]
            intro hq
            exact ((hmem b1 (by omega) hu1').2 p hp).2.2 (List.mem_append_left _ hq)
          · simp only [h2, if_false]
            have hu2' : (used.set b true).getD b2 true = false := by
              rw [getD_set_true, if_neg h2]; exact hu2
            exact hdisj b1 b2 hlt hb2 hu1' hu2' p hp
      · intro i j hi hj
        rcases hcov i j hi hj with hc | ⟨b', hb', hu', hp'⟩
        · rcases List.mem_append.1 hc with hc | hc
          · right
            refine ⟨b, hbr, hub', ?_⟩
            rw [getD_set_cells _ _ _ _ hbl]; simpa using hc
          · exact Or.inl hc
        · right
          rw [getD_set_true] at hu'
          have hne : b ≠ b' := by intro h; simp [h] at hu'
          simp only [hne, if_false] at hu'
          refine ⟨b', hb', hu', ?_⟩
          rw [getD_set_cells _ _ _ _ hbl]; simpa [hne] using hp'

theorem coverSearch_sound (nr nc : Nat) (cands : List (List (List (Nat × Nat)))) (fuel : Nat)
    (h : coverSearch nr nc cands fuel [] (List.replicate cands.length false) = true) :
    ∃ choice, IsTiling nr nc cands choice := by
  obtain ⟨ch, hlen, hmem, hdisj, hcov⟩ := coverSearch_inv nr nc cands fuel _ _ h
  have hu : ∀ b, b < cands.length → (List.replicate cands.length false).getD b true = false := by
    intro b hb
    simp [List.getD_eq_getElem?_getD, hb]
  refine ⟨ch, hlen, ?_, ?_, ?_, ?_⟩
  · intro b hb; exact (hmem b hb (hu b hb)).1
  · intro b hb p hp
    obtain ⟨h1, h2, _⟩ := (hmem b hb (hu b hb)).2 p hp
    exact ⟨h1, h2⟩
  · intro b b' hlt hb' p hp
    exact hdisj b b' hlt hb' (hu b (by omega)) (hu b' hb') p hp
  · intro i j hi hj
    rcases hcov i j hi hj with hc | ⟨b, hb, _, hp⟩
    · simp at hc
    · exact ⟨b, hb, hp⟩

theorem tilesFree_sound (cfg : Cfg) (s : State) (h : tilesFree cfg s = true) :
    ∃ choice, IsTiling cfg.numRows cfg.numCols
      (s.blocks.map (fun b => (List.range 4).flatMap (fun k => (List.range cfg.numRows).flatMap (fun r =>
        (List.range cfg.numCols).map (fun c => freeCells b k r c))))) choice := by
  apply coverSearch_sound _ _ _ (s.blocks.length + 1)
  simpa [tilesFree] using h

theorem tilesByActions_sound (cfg : Cfg) (s : State) (h : tilesByActions cfg s = true) :
    ∃ choice, IsTiling cfg.numRows cfg.numCols
      (s.blocks.map (fun b => (poses cfg).map (fun p => poseCells b p.1 p.2.1 p.2.2))) choice := by
  apply coverSearch_sound _ _ _ (s.blocks.length + 1)
  simpa [tilesByActions] using h

/-- the certificates are not vacuous: one full 3 × 3 block tiles the 3 × 3 grid -/
example : tilesByActions ⟨3,3,1,true⟩ ⟨Jx.Grid.mk 3 3 0, 1, [[[1,1,1],[1,1,1],[1,1,1]]], [], [false], 0⟩ = true := by
  decide

example : tilesFree ⟨3,3,1,true⟩ ⟨Jx.Grid.mk 3 3 0, 1, [[[1,1,1],[1,1,1],[1,1,1]]], [], [false], 0⟩ = true := by
  decide

/-- the 5 × 5 toy instance (four blocks) -/
example : tilesByActions ⟨5,5,4,true⟩ ⟨Jx.Grid.mk 5 5 0, 4,
    [[[1,1,1],[1,1,0],[0,1,0]], [[0,2,2],[2,2,2],[0,0,2]], [[3,0,0],[3,3,0],[3,3,3]], [[4,4,0],[4,4,4],[0,4,4]]],
    [], [false,false,false,false], 0⟩ = true := by
  decide +kernel

example : tilesFree ⟨5,5,4,true⟩ ⟨Jx.Grid.mk 5 5 0, 4,
    [[[1,1,1],[1,1,0],[0,1,0]], [[0,2,2],[2,2,2],[0,0,2]], [[3,0,0],[3,3,0],[3,3,3]], [[4,4,0],[4,4,4],[0,4,4]]],
    [], [false,false,false,false], 0⟩ = true := by
  decide +kernel

end FlatPack
