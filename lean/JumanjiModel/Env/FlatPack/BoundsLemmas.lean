/- FlatPack — C01: proofs of the observation bounds (through the hard-constraint invariant `Feasible` / `Inv` of C06). -/
import JumanjiModel.Env.FlatPack.Bounds
import JumanjiModel.Env.FlatPack.Lemmas
import JumanjiModel.Env.FlatPack.MaskLemmas
import JumanjiModel.Env.FlatPack.InvLemmas
namespace FlatPack
open Jm PzB

theorem blockValue_le (cfg : Cfg) (blocks : List G) (hb : BlocksBounded cfg blocks) (b : Nat) :
    blockValue (blocks.getD b []) ≤ cfg.numBlocks := by
  unfold blockValue gridMax
  rw [foldl_max_le]
  refine ⟨Nat.zero_le _, ?_⟩
  intro v hv
  obtain ⟨row, hrow, hv'⟩ := List.mem_flatten.mp hv
  rw [List.getD_eq_getElem?_getD] at hrow
  cases hx : blocks[b]? with
  | none => rw [hx] at hrow; cases hrow
  | some blk =>
    rw [hx] at hrow
    exact hb blk (List.mem_of_getElem? hx) row hrow v hv'

/-- in a feasible state every grid cell is empty or carries the number of a placed block, hence at most `num_blocks` -/
theorem grid_le_of_feasible (cfg : Cfg) (s : State) (hf : Feasible cfg s) (hb : BlocksBounded cfg s.blocks) :
    ∀ row ∈ s.grid, ∀ v ∈ row, v ≤ cfg.numBlocks := by
  obtain ⟨_, _, _, _, hD⟩ := (feasible_iff cfg s).mp hf
  intro row hrow v hv
  rcases hD row hrow v hv with h | ⟨b, _, _, h⟩
  · omega
  · rw [← h]; exact blockValue_le cfg s.blocks hb b

theorem observe_in_bounds (cfg : Cfg) (s : State) (hf : Feasible cfg s) (hb : BlocksBounded cfg s.blocks) :
    ObsInBounds (obsBounds cfg) (obsLeaves (observe s)) :=
  obs_in_bounds cfg _ (grid_le_of_feasible cfg s hf hb) hb

theorem step_obs_in_bounds (rnd : Rat → Rat) (cfg : Cfg) (s : State) (b k r c : Nat) (hi : Inv cfg s)
    (hin : inSpec cfg b k r c = true) (hb : BlocksBounded cfg s.blocks) :
    ObsInBounds (obsBounds cfg) (obsLeaves (step rnd cfg s (act b k r c)).2.obs) := by
  rw [obs_faithful]
  apply observe_in_bounds cfg _ (step_inv rnd cfg s b k r c hi hin).1
  have : (step rnd cfg s (act b k r c)).1.blocks = s.blocks := by simp [step]
  rw [this]; exact hb

theorem reset_obs_in_bounds (cfg : Cfg) (s : State) (hbo : blocksOK cfg s = true)
    (hg : s.grid = Jx.Grid.mk cfg.numRows cfg.numCols 0) (hp : s.placed = List.replicate cfg.numBlocks false)
    (hb : BlocksBounded cfg s.blocks) : ObsInBounds (obsBounds cfg) (obsLeaves (resetTimeStep s).obs) :=
  observe_in_bounds cfg s (fresh_feasible cfg s hbo hg hp) hb

end FlatPack
