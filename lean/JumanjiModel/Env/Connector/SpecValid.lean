/-
Connector — C01 spec membership (wave 4): the declared specs as `Sp` values (equal to the generated literals of the catalogue
configurations, Props/Env/Connector.lean), the invariant `SpecInv` (the grid is `n × n` with cells in `0 … 3k`, there are `k`
agents, the counter is non-negative) established by BOTH generators for every draw (also a boxed-in random walk, known
finding CN1: the board is then not fresh but still in the spec) and preserved by EVERY step (any joint action of length `k`,
in the action space or not, legal or not), membership of the observations of `reset` and of every `step` (terminal step
included), whole episodes, the converse (`obs_valid_only`), reward / discount / action spec.
-/
import JumanjiModel.Env.Connector.Bounds
import JumanjiModel.Env.Connector.RefineLemmas
import JumanjiModel.Env.Connector.GenLemmas
import JumanjiModel.Env.MultiAgentSpecValid
namespace Connector
open Jm Jx Sp PzS PkS MaS

/-! ### the declared specs (env.py `observation_spec`, `action_spec`, `reward_spec`, `discount_spec`) -/

/-- `observation_spec`: `grid` BoundedArray((n, n), int32, 0, 3·k + 1) (`num_agents * 3 + AGENT_INITIAL_VALUE`),
`action_mask` BoundedArray((k, 5), bool, False, True), `step_count` BoundedArray((), int32, 0, time_limit) -/
def obsSpec (cfg : Cfg) : Sp.Nested :=
  [("grid", .bounded [cfg.n, cfg.n] .int32 "grid" [] [0] [] [(((3 * cfg.k + 1 : Nat) : Int) : Rat)]),
   ("action_mask", .bounded [cfg.k, 5] .bool "action_mask" [] [0] [] [1]),
   ("step_count", .bounded [] .int32 "step_count" [] [0] [] [(cfg.timeLimit : Rat)])]

/-- `action_spec`: MultiDiscreteArray([5] * k, int32) -/
def actionSpec (cfg : Cfg) : Leaf := actionSpecN cfg.k 5
/-- `reward_spec`: Array((k,), float); `discount_spec`: BoundedArray((k,), float, 0, 1) -/
def rewardSpec (cfg : Cfg) : Leaf := rewardSpecN cfg.k
def discountSpec (cfg : Cfg) : Leaf := discountSpecN cfg.k

/-- a model observation as the arrays the implementation emits; the shapes are READ OFF the values -/
def toNValue (o : Obs) : NValue :=
  [("grid", ⟨shape2 o.grid, .int32, ofInts (List.flatten o.grid)⟩),
   ("action_mask", ⟨shape2 o.actionMask, .bool, ofBools o.actionMask.flatten⟩),
   ("step_count", ⟨[], .int32, [(o.stepCount : Rat)]⟩)]

/-- what membership amounts to -/
def ObsOK (cfg : Cfg) (o : Obs) : Prop :=
  Rect2 o.grid cfg.n cfg.n ∧ (∀ r ∈ o.grid, ∀ v ∈ r, 0 ≤ v ∧ v ≤ 3 * (cfg.k : Int) + 1) ∧
  Rect2 o.actionMask cfg.k 5 ∧ 0 ≤ o.stepCount ∧ o.stepCount ≤ cfg.timeLimit

theorem obs_valid (cfg : Cfg) (hn : 0 < cfg.n) (hk : 0 < cfg.k) (o : Obs) (h : ObsOK cfg o) :
    (obsSpec cfg).valid (toNValue o) = true := by
  obtain ⟨h1, h2, h3, h4, h5⟩ := h
  have hb : ∀ x ∈ ofInts (List.flatten o.grid), (0 : Rat) ≤ x ∧ x ≤ (((3 * cfg.k + 1 : Nat) : Int) : Rat) := by
    have := ofInts_bounds (List.flatten o.grid) 0 ((3 * cfg.k + 1 : Nat) : Int)
      (fun v hv => by have := mem_flatten_of h2 v hv; omega)
    simpa using this
  have v1 := valid_bounded2 cfg.n cfg.n .int32 "grid" 0 (((3 * cfg.k + 1 : Nat) : Int) : Rat) o.grid ofInts ofInts_length
    h1 hn hb
  have v2 := valid_mask cfg.k 5 "action_mask" o.actionMask h3 hk
  have v3 := valid_counter "step_count" cfg.timeLimit o.stepCount h4 h5
  simp only [Nested.valid, obsSpec, toNValue, List.map_cons, List.map_nil, List.zipWith_cons_cons, List.zipWith_nil_right,
    List.all_cons, List.all_nil, v1, v2, v3]
  decide

/-- … and conversely `validate` accepts nothing else: declared shapes, cells in `0 … 3k + 1`, counter in `[0, time_limit]` -/
theorem obs_valid_only (cfg : Cfg) (o : Obs) (h : (obsSpec cfg).valid (toNValue o) = true) :
    shape2 o.grid = [cfg.n, cfg.n] ∧ (List.flatten o.grid).length = cfg.n * cfg.n ∧
    (∀ v ∈ List.flatten o.grid, 0 ≤ v ∧ v ≤ 3 * (cfg.k : Int) + 1) ∧
    shape2 o.actionMask = [cfg.k, 5] ∧ o.actionMask.flatten.length = cfg.k * 5 ∧
    0 ≤ o.stepCount ∧ o.stepCount ≤ cfg.timeLimit := by
  simp only [Nested.valid, obsSpec, toNValue, List.map_cons, List.map_nil, List.zipWith_cons_cons, List.zipWith_nil_right,
    List.all_cons, List.all_nil, id, Bool.and_true, Bool.and_eq_true, beq_self_eq_true, true_and] at h
  obtain ⟨h1, h2, h3⟩ := h
  have m := valid_mask_only _ _ _ _ h2
  have c := valid_counter_only _ _ _ h3
  rw [valid_scalar_bounded_iff] at h1
  have hb := ofInts_bounds_conv (List.flatten o.grid) 0 ((3 * cfg.k + 1 : Nat) : Int) (by simpa using h1.2.2.2)
  refine ⟨h1.1, by simpa [ofInts_length, prod_two] using h1.2.2.1, ?_, m.1, m.2, c.1, c.2⟩
  intro v hv
  have := hb v hv
  omega

/-! ### the invariant -/

/-- the grid is `n × n`, every cell holds `0` or a value of one of the `k` agents, there are `k` agents, the counter is
non-negative.  Weaker than `Consistent` (nothing about where the agents are): it also holds on the boards a boxed-in random
walk produces, and EVERY step keeps it. -/
def SpecInv (cfg : Cfg) (s : State) : Prop :=
  Grid.shaped s.grid cfg.n cfg.n = true ∧ AllP (fun v => 0 ≤ v ∧ v ≤ 3 * (cfg.k : Int)) s.grid ∧
  s.agents.length = cfg.k ∧ 0 ≤ s.stepCount

instance (cfg : Cfg) (s : State) : Decidable (SpecInv cfg s) := by
  unfold SpecInv AllP; infer_instance

theorem specInv_of_consistent (cfg : Cfg) (s : State) (h : Consistent cfg.n cfg.k s) : SpecInv cfg s := by
  have ⟨hg, h0⟩ := consistent_grid_range h
  unfold Consistent consistentB at h
  simp only [Bool.and_eq_true, decide_eq_true_eq, beq_iff_eq] at h
  exact ⟨h.1.1.1.1, hg, h.1.1.1.2, h0⟩

theorem shaped_setWD' {g : Grid Int} {nr nc : Nat} (h : Grid.shaped g nr nc = true) (r c v : Int) :
    Grid.shaped (Grid.setWD g r c v) nr nc = true := by
  unfold Grid.setWD
  simp only []
  repeat' split
  all_goals try exact h
  rename_i row hrow _ _
  unfold Grid.shaped at h ⊢
  simp only [Bool.and_eq_true, beq_iff_eq, List.all_eq_true, List.length_set] at h ⊢
  refine ⟨h.1, ?_⟩
  intro x hx
  rcases List.mem_or_eq_of_mem_set hx with hx | hx
  · exact h.2 x hx
  · subst hx
    rw [List.length_set]
    exact h.2 row (List.mem_of_getElem? hrow)

theorem allP_setWD {P : Int → Prop} {g : Grid Int} (h : AllP P g) (r c : Int) {v : Int} (hv : P v) :
    AllP P (Grid.setWD g r c v) := by
  unfold Grid.setWD
  simp only []
  repeat' split
  all_goals try exact h
  rename_i row hrow _ _
  intro x hx w hw
  rcases List.mem_or_eq_of_mem_set hx with hx | hx
  · exact h x hx w hw
  · subst hx
    rcases List.mem_or_eq_of_mem_set hw with hw | hw
    · exact h row (List.mem_of_getElem? hrow) w hw
    · subst hw; exact hv

theorem stepAgent_shaped {g : Grid Int} {n : Nat} (h : Grid.shaped g n n = true) (ag : Agent) (a : Int) :
    Grid.shaped (stepAgent g ag a).2 n n = true := by
  unfold stepAgent
  simp only []
  split
  · unfold moveAgent; exact shaped_setWD' (shaped_setWD' h _ _ _) _ _ _
  · exact h

theorem stepEach_length (s : State) (acts : List Int) (h : acts.length = s.agents.length) :
    (stepEach s acts).length = s.agents.length := by
  unfold stepEach; simp [h]

theorem stepAgents_shaped (k n : Nat) (s : State) (acts : List Int) (hs : Grid.shaped s.grid n n = true)
    (hk : 0 < k) (hl : s.agents.length = k) (ha : acts.length = k) :
    Grid.shaped (stepAgents k s acts).2 n n = true := by
  rw [stepAgents_grid]
  have hall : ∀ G ∈ agentGrids k s acts, Grid.shaped G n n = true := by
    intro G hG
    unfold agentGrids at hG
    obtain ⟨i, hi, rfl⟩ := List.getElem_of_mem hG
    simp only [List.getElem_zipWith]
    unfold getAgentGrid
    apply shaped_map
    unfold stepEach
    simp only [List.getElem_zipWith]
    exact stepAgent_shaped hs _ _
  have hne : agentGrids k s acts ≠ [] := by
    intro e
    have : (agentGrids k s acts).length = k := by
      unfold agentGrids; simp [agentIds, stepEach_length s acts (by omega), hl]
    rw [e] at this; simp at this; omega
  refine shaped_zipWith _ (shaped_joinGrids _ hall hne) ?_
  unfold sumGrids
  apply shaped_foldl_zipWith _ _ _ (shaped_map _ hs)
  intro G hG
  simp only [List.mem_map] at hG
  obtain ⟨id, _, rfl⟩ := hG
  exact shaped_map _ hs

theorem stepAgents_length (k : Nat) (s : State) (acts : List Int) (hl : s.agents.length = k) (ha : acts.length = k) :
    (stepAgents k s acts).1.length = k := by
  unfold stepAgents resolve
  simp [agentIds, stepEach_length s acts (by omega), hl]

/-- EVERY step — any joint action with one entry per agent, whatever the entries — keeps the invariant -/
theorem step_specInv (cfg : Cfg) (hk : 0 < cfg.k) (s : State) (h : SpecInv cfg s) (acts : List Int)
    (ha : acts.length = cfg.k) : SpecInv cfg (step cfg s acts).1 := by
  obtain ⟨h1, _, h3, h4⟩ := h
  refine ⟨?_, ?_, ?_, ?_⟩
  · rw [step_grid]; exact stepAgents_shaped cfg.k cfg.n s acts h1 hk h3 ha
  · rw [step_grid]; exact stepAgents_grid_tight cfg.k s acts
  · show (stepAgents cfg.k s acts).1.length = cfg.k
    exact stepAgents_length cfg.k s acts h3 ha
  · rw [step_count]; omega

/-! ### the generators establish the invariant, for EVERY draw -/

theorem scatter_shaped {n : Nat} (ps : List Pos) (vals : List Int) :
    ∀ (g : Grid Int), Grid.shaped g n n = true → Grid.shaped (scatter g ps vals) n n = true := by
  unfold scatter
  generalize List.zip ps vals = l
  induction l with
  | nil => intro g h; exact h
  | cons x l ih => intro g h; simp only [List.foldl_cons]; exact ih _ (shaped_setWD' h _ _ _)

theorem scatter_allP {P : Int → Prop} (ps : List Pos) (vals : List Int) (hv : ∀ v ∈ vals, P v) :
    ∀ (g : Grid Int), AllP P g → AllP P (scatter g ps vals) := by
  unfold scatter
  have hl : ∀ x ∈ List.zip ps vals, P x.2 := fun x hx => hv x.2 (List.of_mem_zip hx).2
  generalize List.zip ps vals = l at hl
  induction l with
  | nil => intro g h; exact h
  | cons x l ih =>
    intro g h
    simp only [List.foldl_cons]
    exact ih (fun y hy => hl y (by simp [hy])) _ (allP_setWD h _ _ (hl x (by simp)))

theorem zeroGrid_allP (n k : Nat) : AllP (fun v => 0 ≤ v ∧ v ≤ 3 * (k : Int)) (zeroGrid n) := by
  intro r hr v hv
  simp only [zeroGrid, Grid.mk, List.mem_replicate] at hr
  rw [hr.2] at hv
  simp only [List.mem_replicate] at hv
  rw [hv.2]; omega

theorem idVals_range (k : Nat) (f : Int → Int) (hf : ∀ id, 0 ≤ id → id < (k : Int) → 0 ≤ f id ∧ f id ≤ 3 * (k : Int)) :
    ∀ v ∈ (agentIds k).map f, 0 ≤ v ∧ v ≤ 3 * (k : Int) := by
  intro v hv
  obtain ⟨id, hid, rfl⟩ := List.mem_map.1 hv
  have := mem_agentIds hid
  exact hf id this.1 this.2

/-- the board either generator hands out satisfies the invariant whatever the drawn cells are -/
theorem emitBoard_specInv (cfg : Cfg) (starts targets : List Pos) : SpecInv cfg (emitBoard cfg.n cfg.k starts targets) := by
  have hp := idVals_range cfg.k posVal (fun id h0 h1 => by unfold posVal; omega)
  have ht := idVals_range cfg.k tgtVal (fun id h0 h1 => by unfold tgtVal; omega)
  refine ⟨?_, ?_, ?_, ?_⟩
  · exact scatter_shaped _ _ _ (scatter_shaped _ _ _ (shaped_zeroGrid cfg.n))
  · exact scatter_allP _ _ ht _ (scatter_allP _ _ hp _ (zeroGrid_allP cfg.n cfg.k))
  · simp [emitBoard, mkAgents]
  · show (0 : Int) ≤ 0; omega

theorem uniform_specInv (cfg : Cfg) (cells : List Nat) : SpecInv cfg (uniformGenerate cfg.n cfg.k cells) := by
  unfold uniformGenerate; exact emitBoard_specInv cfg _ _

theorem walk_specInv (cfg : Cfg) (init : List (Int × Int)) (tape : List (List Int)) :
    SpecInv cfg (walkGenerate cfg.n cfg.k init tape).2 := by
  unfold walkGenerate; exact emitBoard_specInv cfg _ _

/-! ### the observations -/

theorem agentMask_length (g : Grid Int) (ag : Agent) : (agentMask g ag).length = 5 := by simp [agentMask]

theorem observeL1_ok (cfg : Cfg) (s : State) (h : SpecInv cfg s) (hT : s.stepCount ≤ cfg.timeLimit) :
    ObsOK cfg (observeL1 s) := by
  obtain ⟨h1, h2, h3, h4⟩ := h
  refine ⟨rect2_of_shaped h1, ?_, ⟨?_, ?_⟩, h4, hT⟩
  · intro r hr v hv
    have := h2 r hr v hv
    omega
  · simp [observeL1, actionMask, h3]
  · intro r hr
    simp only [observeL1, actionMask, List.mem_map] at hr
    obtain ⟨ag, _, rfl⟩ := hr
    exact agentMask_length _ _

/-- C01: the `reset` observation built on ANY state satisfying the invariant with counter 0 -/
theorem reset_obs_valid (cfg : Cfg) (hn : 0 < cfg.n) (hk : 0 < cfg.k) (hT : 0 ≤ cfg.timeLimit) (s : State)
    (h : SpecInv cfg s) (h0 : s.stepCount = 0) : (obsSpec cfg).valid (toNValue (resetTs cfg s).obs) = true :=
  obs_valid cfg hn hk _ (observeL1_ok cfg s h (by omega))

/-- C01: the observation of EVERY step (any joint action of length `k`, legal or not, in the action space or not; MID or
LAST) from a state satisfying the invariant whose counter has not reached the limit -/
theorem step_obs_valid (cfg : Cfg) (hn : 0 < cfg.n) (hk : 0 < cfg.k) (s : State) (h : SpecInv cfg s)
    (hlim : s.stepCount < cfg.timeLimit) (acts : List Int) (ha : acts.length = cfg.k) :
    (obsSpec cfg).valid (toNValue (step cfg s acts).2.obs) = true := by
  rw [obs_faithful]
  exact obs_valid cfg hn hk _ (observeL1_ok cfg _ (step_specInv cfg hk s h acts ha) (by rw [step_count]; omega))

/-- whole episodes: along the rollout of ANY joint actions of length `k` from a state with the invariant and counter 0 (every
generated state), every observation emitted by one of the first `time_limit` steps is a member of the spec (the episode is
over by then: `Props.C11.connector_rollout_ends_by_limit`, Props/EpisodeInstances.lean) -/
theorem rollout_obs_valid (cfg : Cfg) (hn : 0 < cfg.n) (hk : 0 < cfg.k) (s0 : State) (h : SpecInv cfg s0)
    (h0 : s0.stepCount = 0) (as : List (List Int)) (has : ∀ a ∈ as, a.length = cfg.k) (j : Nat)
    (hj : (j : Int) < cfg.timeLimit) (e : State × TimeStep Obs) (he : (Ep.rollout (step cfg) s0 as)[j]? = some e) :
    (obsSpec cfg).valid (toNValue e.2.obs) = true := by
  obtain ⟨s', a, hinv, ha, rfl⟩ := rollout_inv_idx (step cfg)
    (fun n s => SpecInv cfg s ∧ s.stepCount = (n : Int)) (fun a => a.length = cfg.k)
    (fun n s a hh ha => ⟨step_specInv cfg hk s hh.1 a ha, by rw [step_count, hh.2]; omega⟩) 0 s0
    ⟨h, by simpa using h0⟩ as has j e he
  exact step_obs_valid cfg hn hk s' hinv.1 (by rw [hinv.2]; simpa using hj) a ha

/-! ### reward, discount, action spec -/

theorem discount_entries (agents : List Agent) (mask : List (List Bool)) :
    ∀ x ∈ (List.zipWith connectedOrBlocked agents mask).map (fun d => (1 : Rat) - b2r d), 0 ≤ x ∧ x ≤ 1 := by
  intro x hx
  obtain ⟨d, _, rfl⟩ := List.mem_map.1 hx
  cases d <;> decide +kernel

/-- reward and discount of EVERY step from a state with `k` agents, for a joint action of length `k`: `k` rewards, `k` discounts
in `[0, 1]` -/
theorem step_reward_discount_valid (cfg : Cfg) (s : State) (hl : s.agents.length = cfg.k) (acts : List Int)
    (ha : acts.length = cfg.k) :
    (rewardSpec cfg).valid (vecArr (step cfg s acts).2.reward) = true ∧
    (discountSpec cfg).valid (vecArr (step cfg s acts).2.discount) = true := by
  have hlen := stepAgents_length cfg.k s acts hl ha
  have hr : (step cfg s acts).2.reward.length = cfg.k := by
    have : (step cfg s acts).2.reward = denseReward cfg s.agents (stepAgents cfg.k s acts).1 := by
      unfold step finish condLastDiscount termination transition; simp only []; split <;> rfl
    rw [this]; simp [denseReward, hl, hlen]
  refine ⟨(reward_valid_iff _ _).2 hr, (discount_valid_iff _ _).2 ?_⟩
  unfold step finish condLastDiscount termination transition
  simp only []
  split
  · refine ⟨by simp [zerosR, RShape.size], ?_⟩
    intro x hx
    simp only [zerosR, List.mem_replicate] at hx
    rw [hx.2]; exact ⟨by decide, by decide⟩
  · refine ⟨?_, discount_entries _ _⟩
    simp only [Option.getD_some, List.length_map, List.length_zipWith, actionMask]
    rw [hlen]; simp

theorem reset_reward_discount_valid (cfg : Cfg) (s : State) :
    (rewardSpec cfg).valid (vecArr (resetTs cfg s).reward) = true ∧
    (discountSpec cfg).valid (vecArr (resetTs cfg s).discount) = true :=
  restart_reward_discount_valid cfg.k _

/-- `action_spec.generate_value()` is the all-no-op joint action: the spec is well-formed, the value is a member, and `step`
answers it from every state with the invariant with a member of the observation spec and members of reward / discount spec -/
theorem accepts_generate_value (cfg : Cfg) (hn : 0 < cfg.n) (hk : 0 < cfg.k) (s : State) (h : SpecInv cfg s)
    (hlim : s.stepCount < cfg.timeLimit) :
    (actionSpec cfg).WF = true ∧ (actionSpec cfg).valid (actionSpec cfg).generate = true ∧
    (actionSpec cfg).generate = actionArr (List.replicate cfg.k 0) ∧
    (obsSpec cfg).valid (toNValue (step cfg s (List.replicate cfg.k 0)).2.obs) = true ∧
    (rewardSpec cfg).valid (vecArr (step cfg s (List.replicate cfg.k 0)).2.reward) = true ∧
    (discountSpec cfg).valid (vecArr (step cfg s (List.replicate cfg.k 0)).2.discount) = true ∧
    (step cfg s (List.replicate cfg.k 0)).2.stepType ≠ .first := by
  obtain ⟨w, v, g⟩ := actionSpecN_accepts_generate cfg.k 5 (by omega) (by omega)
  have rd := step_reward_discount_valid cfg s h.2.2.1 (List.replicate cfg.k 0) (by simp)
  refine ⟨w, v, g, step_obs_valid cfg hn hk s h hlim _ (by simp), rd.1, rd.2, ?_⟩
  unfold step finish condLastDiscount termination transition
  simp only []
  split <;> simp

/-! ### audit r6 #2: `time_limit = 0` -/

theorem step_obs_stepCount (cfg : Cfg) (s : State) (acts : List Int) :
    (step cfg s acts).2.obs.stepCount = s.stepCount + 1 := by
  rw [obs_faithful, ← step_count cfg s acts]; rfl

/-- with `time_limit ≤ 0` NO step observation from a state with a non-negative counter is a member of the declared spec -/
theorem time_limit_zero_step_obs_not_valid (cfg : Cfg) (h0 : cfg.timeLimit ≤ 0) (s : State)
    (hs : 0 ≤ s.stepCount) (acts : List Int) :
    (obsSpec cfg).valid (toNValue (step cfg s acts).2.obs) = false := by
  cases hv : (obsSpec cfg).valid (toNValue (step cfg s acts).2.obs) with
  | false => rfl
  | true =>
    have h := (obs_valid_only cfg _ hv).2.2.2.2.2.2
    rw [step_obs_stepCount] at h
    omega

end Connector
