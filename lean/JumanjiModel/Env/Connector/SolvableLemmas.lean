/- Connector: what `Feasible` and the `walk_board_solvable` certificate mean — routes of different agents
are 4-connected chains that never share a cell. -/
import JumanjiModel.Env.Connector.FeasLemmas
namespace Connector
open Jm Jx

/-- every cell of a route is its first cell, one of its `m` inner cells, or its last cell -/
theorem mem_route_cases {r : List Pos} {a b : Pos} {m : Nat} (hh : r.head? = some a) (hl : r.getLast? = some b)
    (hlen : r.length = m + 2) {c : Pos} (hc : c ∈ r) : c = a ∨ c ∈ (r.drop 1).take m ∨ c = b := by
  obtain ⟨j, hj⟩ := List.getElem?_of_mem hc
  have hjl := lt_of_getElem? hj
  rcases Nat.eq_zero_or_pos j with h0 | h0
  · subst h0
    left
    cases r with
    | nil => simp at hlen
    | cons x t => simp at hh hj; rw [← hh, hj]
  · by_cases hm : j = m + 1
    · right; right
      rw [List.getLast?_eq_getElem?, hlen, show m + 2 - 1 = j by omega, hj] at hl
      exact Option.some.inj hl
    · right; left
      have : ((r.drop 1).take m)[j - 1]? = some c := by
        rw [List.getElem?_take_of_lt (by omega), List.getElem?_drop, show 1 + (j - 1) = j by omega]; exact hj
      exact List.mem_of_getElem? this

/-- a good route of agent number `i` on a grid `g`: a chain of pairwise different 4-adjacent cells inside the
grid from `a` to `b`, every cell of which belongs to agent `i` on `g` (holds its path, head or target value) -/
def GoodRoute (n : Nat) (g : Grid Int) (i : Nat) (a b : Pos) (r : List Pos) : Prop :=
  r.head? = some a ∧ r.getLast? = some b ∧ isChain r = true ∧ r.Nodup ∧ (∀ c ∈ r, inGrid n c) ∧
  ∀ c ∈ r, cell g c = pathVal (i : Int) ∨ cell g c = posVal (i : Int) ∨ cell g c = tgtVal (i : Int)

/-- good routes of different agents never share a cell -/
theorem goodRoute_disjoint {n : Nat} {g : Grid Int} {i j : Nat} (hij : i ≠ j) {a b a' b' : Pos} {r r' : List Pos}
    (h : GoodRoute n g i a b r) (h' : GoodRoute n g j a' b' r') : ∀ c, c ∈ r → c ∉ r' := by
  intro c hc hc'
  have h1 := h.2.2.2.2.2 c hc
  have h2 := h'.2.2.2.2.2 c hc'
  unfold pathVal posVal tgtVal at *
  omega

theorem isRoute_unpack {n : Nat} {g : Grid Int} {pv : Int} {a b : Pos} {m : Nat} {r : List Pos}
    (h : isRoute n g pv a b m r = true) :
    r.head? = some a ∧ r.getLast? = some b ∧ isChain r = true ∧ r.Nodup ∧ r.length = m + 2 ∧
      (∀ c ∈ r, inGrid n c) ∧ ∀ c ∈ (r.drop 1).take m, cell g c = pv := by
  unfold isRoute at h
  simp only [Bool.and_eq_true, beq_iff_eq, decide_eq_true_eq, List.all_eq_true] at h
  obtain ⟨⟨⟨⟨⟨⟨h1, h2⟩, h3⟩, h4⟩, h5⟩, h6⟩, h7⟩ := h
  exact ⟨h1, h2, h3, h4, h5, h6, h7⟩

/-- C06, what `Feasible` means: every agent owns a chain of 4-adjacent, pairwise different cells from its start
to its head, all holding its own path / head value -/
theorem feasible_routes {n k : Nat} {s : State} (hf : Feasible n k s) {i : Nat} {ag : Agent}
    (hag : s.agents[i]? = some ag) : ∃ r, GoodRoute n s.grid i ag.start ag.position r := by
  unfold Feasible feasibleB at hf
  rw [Bool.and_eq_true] at hf
  have c := (consistent_iff n k s).1 hf.1
  have ok := c.agent i ag hag
  have hr := List.all_eq_true.1 hf.2 ag (List.mem_of_getElem? hag)
  rcases agentRoute_sound n s.grid ag hr with ⟨e, _⟩ | ⟨r, hr⟩
  · refine ⟨[ag.start], rfl, by rw [e]; rfl, rfl, by simp, ?_, ?_⟩
    · intro c hc; simp at hc; rw [hc]; exact ok.startIn
    · intro c hc; simp at hc; rw [hc, e]; exact Or.inr (Or.inl ok.headAt)
  · obtain ⟨h1, h2, h3, h4, h5, h6, h7⟩ := isRoute_unpack hr
    refine ⟨r, h1, h2, h3, h4, h6, ?_⟩
    intro c hc
    have hne : ag.start ≠ ag.position := by
      intro e
      cases r with
      | nil => simp at h5
      | cons x t =>
        cases t with
        | nil => simp at h5
        | cons y t =>
          simp at h1
          have : (x :: y :: t).getLast? = some ag.position := h2
          rw [List.getLast?_eq_getElem?] at this
          have hx : x ∈ (y :: t) := by
            apply List.mem_of_getElem? (i := (y :: t).length - 1)
            simp at this ⊢
            rw [h1, e]
            simpa using this
          exact (List.nodup_cons.1 h4).1 hx
    rcases mem_route_cases h1 h2 h5 hc with rfl | hin | rfl
    · exact Or.inl (ok.startAt hne)
    · have := h7 c hin; rw [ok.id] at this; exact Or.inl this
    · exact Or.inr (Or.inl ok.headAt)

/-- C06: a feasible state in which every agent is connected is a complete solution, and then every agent owns a
chain from its start to its target -/
theorem complete_is_solution {n k : Nat} {s : State} (hf : Feasible n k s)
    (hall : ∀ ag ∈ s.agents, isConnected ag) :
    solutionB n k s = true ∧
      ∀ (i : Nat) ag, s.agents[i]? = some ag → ∃ r, GoodRoute n s.grid i ag.start ag.target r := by
  constructor
  · unfold solutionB
    rw [Bool.and_eq_true]
    refine ⟨hf, ?_⟩
    rw [List.all_eq_true]
    intro ag hag
    simpa using hall ag hag
  · intro i ag hag
    have := feasible_routes hf hag
    have e : ag.position = ag.target := hall ag (List.mem_of_getElem? hag)
    rw [e] at this
    exact this

theorem all_zipWith_get {α β} (f : α → β → Bool) (l1 : List α) (l2 : List β)
    (h : (List.zipWith f l1 l2).all id = true) {i : Nat} {x : α} {y : β} (h1 : l1[i]? = some x)
    (h2 : l2[i]? = some y) : f x y = true := by
  rw [List.all_eq_true] at h
  have := h (f x y) (List.mem_of_getElem? (i := i) (by simp [List.getElem?_zipWith, h1, h2]))
  simpa using this

/-- C10: if the `walk_board_solvable` certificate accepts a board together with the recorded solution, then
every agent has a chain of 4-adjacent, pairwise different cells inside the grid from its head (= start) to its
target whose cells belong to it on the recorded board and are free on the generated board (empty, or already
holding the very value of the recorded board: its own head and target); chains of different agents never share
a cell — the board admits a complete solution -/
theorem walk_board_solvable {n k : Nat} {s : State} {solved : Grid Int} (hc : Consistent n k s)
    (h : solvedBoardB n k s solved = true) :
    (∀ (i : Nat) ag, s.agents[i]? = some ag → ∃ r, GoodRoute n solved i ag.start ag.target r ∧
        ∀ c ∈ r, cell s.grid c = 0 ∨ cell s.grid c = cell solved c) ∧
    (∀ (i j : Nat) (a b a' b' : Pos) (r r' : List Pos), i ≠ j → GoodRoute n solved i a b r →
        GoodRoute n solved j a' b' r' → ∀ c, c ∈ r → c ∉ r') := by
  have c := (consistent_iff n k s).1 hc
  unfold solvedBoardB at h
  simp only [Bool.and_eq_true] at h
  obtain ⟨⟨⟨hs, ha⟩, _⟩, hfree⟩ := h
  have free : ∀ q, inGrid n q → cell s.grid q = 0 ∨ cell s.grid q = cell solved q := by
    intro q hq
    obtain ⟨q1, q2⟩ := inGrid_toNat hq
    obtain ⟨row, e1, l1⟩ := shaped_getElem? c.shaped q1
    obtain ⟨row', e2, l2⟩ := shaped_getElem? hs q1
    have hrow := all_zipWith_get _ _ _ hfree e1 e2
    have hq2 : q.2.toNat < row.length := by omega
    have hq2' : q.2.toNat < row'.length := by omega
    have := all_zipWith_get _ _ _ hrow (List.getElem?_eq_getElem hq2) (List.getElem?_eq_getElem hq2')
    unfold cell
    rw [get_of_row e1, get_of_row e2]
    simpa [hq2, hq2'] using this
  refine ⟨?_, fun i j a b a' b' r r' hij h1 h2 => goodRoute_disjoint hij h1 h2⟩
  intro i ag hag
  have ok := c.agent i ag hag
  have hsol := List.all_eq_true.1 ha ag (List.mem_of_getElem? hag)
  unfold agentSolvedB at hsol
  simp only [Bool.and_eq_true, beq_iff_eq, decide_eq_true_eq] at hsol
  obtain ⟨⟨⟨⟨⟨⟨_, _⟩, hst⟩, htg⟩, _⟩, _⟩, hroute⟩ := hsol
  split at hroute
  · rename_i r _
    obtain ⟨h1, h2, h3, h4, h5, h6, h7⟩ := isRoute_unpack hroute
    refine ⟨r, ⟨h1, h2, h3, h4, h6, ?_⟩, fun c hc => free c (h6 c hc)⟩
    intro c hc
    rw [ok.id] at hst htg
    rcases mem_route_cases h1 h2 h5 hc with rfl | hin | rfl
    · exact Or.inr (Or.inl hst)
    · have := h7 c hin; rw [ok.id] at this; exact Or.inl this
    · exact Or.inr (Or.inr htg)
  · simp at hroute

theorem feasible_consistent {n k : Nat} {s : State} (hf : Feasible n k s) : Consistent n k s := by
  unfold Feasible feasibleB at hf
  rw [Bool.and_eq_true] at hf
  exact hf.1

/-- C06 along whole episodes: every state an episode passes through under the rules (= under `step`, by the
refinement) from a feasible state with in-spec joint actions is feasible -/
theorem feasible_along (cfg : Cfg) (hk : 0 < cfg.k) (actss : List (List Int))
    (hspec : ∀ acts ∈ actss, acts.length = cfg.k ∧ ∀ a ∈ acts, 0 ≤ a ∧ a ≤ 4) (s0 : State)
    (hf : Feasible cfg.n cfg.k s0) : ∀ s ∈ traceL2 cfg s0 actss, Feasible cfg.n cfg.k s := by
  induction actss generalizing s0 with
  | nil => intro s hs; simp [traceL2] at hs; rw [hs]; exact hf
  | cons acts rest ih =>
    intro s hs
    simp only [traceL2, List.mem_cons] at hs
    rcases hs with rfl | hs
    · exact hf
    · have sp := hspec acts (by simp)
      have hstep := step_feasible cfg s0 acts hf hk sp.1 sp.2
      rw [step_eq_stepL2 cfg s0 acts (feasible_consistent hf) hk sp.1 sp.2] at hstep
      exact ih (fun a ha => hspec a (by simp [ha])) _ hstep s hs

end Connector
