/- Connector: operational solvability.  From a route plan (one 4-connected chain per agent from its head to its
target through free cells, chains of different agents disjoint) an explicit joint-action sequence is built
(agent by agent, all others play the no-op, each agent walks along its chain) and played through the rule-level
step `stepL2`: every step is legal, nobody collides, and at the end every agent is connected. -/
import JumanjiModel.Env.Connector.SolvableLemmas
namespace Connector
open Jm Jx

/-! ### the action sequence -/

/-- the action that moves from `p` to its 4-neighbour `q`: 1 up, 2 right, 3 down, 4 left -/
def dirAct (p q : Pos) : Int :=
  if q = (p.1 - 1, p.2) then 1 else if q = (p.1, p.2 + 1) then 2 else if q = (p.1 + 1, p.2) then 3 else 4

/-- the joint action in which agent `i` plays `a` and every other agent the no-op -/
def soloAct (k i : Nat) (a : Int) : List Int := (List.range k).map (fun j => if j = i then a else 0)

/-- agent `i` walks along the chain `r`, one cell per step, all others wait -/
def walkActs (k i : Nat) : List Pos → List (List Int)
  | p :: q :: rest => soloAct k i (dirAct p q) :: walkActs k i (q :: rest)
  | _ => []

/-- agents `i, i+1, …, i+m-1` walk one after the other -/
def planFrom (k : Nat) (routes : List (List Pos)) : Nat → Nat → List (List Int)
  | 0, _ => []
  | m + 1, i => walkActs k i (routes.getD i []) ++ planFrom k routes m (i + 1)

/-- the whole solving episode: agent 0 walks its chain, then agent 1, … -/
def planActs (k : Nat) (routes : List (List Pos)) : List (List Int) := planFrom k routes k 0

theorem dirAct_spec {p q : Pos} (h : adjacent p q = true) :
    1 ≤ dirAct p q ∧ dirAct p q ≤ 4 ∧ ∃ d, dir (dirAct p q).toNat = some d ∧ q = (p.1 + d.1, p.2 + d.2) := by
  obtain ⟨p1, p2⟩ := p
  obtain ⟨q1, q2⟩ := q
  unfold adjacent at h
  simp only [Bool.or_eq_true, Bool.and_eq_true, beq_iff_eq] at h
  unfold dirAct
  simp only [Prod.mk.injEq]
  split
  · rename_i e
    exact ⟨by omega, by omega, (-1, 0), rfl, by omega⟩
  · split
    · rename_i e
      exact ⟨by omega, by omega, (0, 1), rfl, by omega⟩
    · split
      · rename_i e
        exact ⟨by omega, by omega, (1, 0), rfl, by omega⟩
      · exact ⟨by omega, by omega, (0, -1), rfl, by omega⟩

theorem soloAct_length (k i : Nat) (a : Int) : (soloAct k i a).length = k := by simp [soloAct]

theorem soloAct_get (k i : Nat) (a : Int) {j : Nat} (hj : j < k) :
    (soloAct k i a)[j]? = some (if j = i then a else 0) := by
  simp [soloAct, hj]

theorem soloAct_spec (k i : Nat) (a : Int) (h1 : 0 ≤ a) (h4 : a ≤ 4) : ∀ x ∈ soloAct k i a, 0 ≤ x ∧ x ≤ 4 := by
  intro x hx
  unfold soloAct at hx
  rw [List.mem_map] at hx
  obtain ⟨j, _, rfl⟩ := hx
  split <;> omega

/-! ### runs of the rule-level step -/

/-- every step of the run `actss` from `s` satisfies `Good (state before the step) (joint action)` -/
def RunOK (cfg : Cfg) (Good : State → List Int → Prop) : State → List (List Int) → Prop
  | _, [] => True
  | s, a :: rest => Good s a ∧ RunOK cfg Good (stepL2 cfg s a).1 rest

/-- the state the run ends in -/
def finalL2 (cfg : Cfg) : State → List (List Int) → State
  | s, [] => s
  | s, a :: rest => finalL2 cfg (stepL2 cfg s a).1 rest

theorem runOK_append (cfg : Cfg) (Good : State → List Int → Prop) (s : State) (A B : List (List Int)) :
    RunOK cfg Good s (A ++ B) ↔ RunOK cfg Good s A ∧ RunOK cfg Good (finalL2 cfg s A) B := by
  induction A generalizing s with
  | nil => simp [RunOK, finalL2]
  | cons a A ih => simp only [List.cons_append, RunOK, finalL2, ih, and_assoc]

theorem finalL2_append (cfg : Cfg) (s : State) (A B : List (List Int)) :
    finalL2 cfg s (A ++ B) = finalL2 cfg (finalL2 cfg s A) B := by
  induction A generalizing s with
  | nil => rfl
  | cons a A ih => simp only [List.cons_append, finalL2, ih]

theorem traceL2_head (cfg : Cfg) (s : State) (actss : List (List Int)) :
    ∃ tl, traceL2 cfg s actss = s :: tl := by
  cases actss with
  | nil => exact ⟨[], rfl⟩
  | cons a rest => exact ⟨_, rfl⟩

theorem traceL2_length (cfg : Cfg) (s : State) (actss : List (List Int)) :
    (traceL2 cfg s actss).length = actss.length + 1 := by
  induction actss generalizing s with
  | nil => rfl
  | cons a rest ih => simp [traceL2, ih]

theorem traceL2_getLast (cfg : Cfg) (s : State) (actss : List (List Int)) :
    (traceL2 cfg s actss).getLast? = some (finalL2 cfg s actss) := by
  induction actss generalizing s with
  | nil => rfl
  | cons a rest ih =>
    obtain ⟨tl, e⟩ := traceL2_head cfg (stepL2 cfg s a).1 rest
    have := ih (stepL2 cfg s a).1
    simp only [traceL2, finalL2]
    rw [e] at this ⊢
    rw [List.getLast?_cons_cons]
    exact this

/-- a run that is good step by step is good at every index of its trace -/
theorem runOK_index {cfg : Cfg} {Good : State → List Int → Prop} {s0 : State} {actss : List (List Int)}
    (h : RunOK cfg Good s0 actss) {t : Nat} {s : State} {a : List Int}
    (hs : (traceL2 cfg s0 actss)[t]? = some s) (ha : actss[t]? = some a) : Good s a := by
  induction actss generalizing s0 t with
  | nil => simp at ha
  | cons a0 rest ih =>
    cases t with
    | zero =>
      simp only [traceL2, List.getElem?_cons_zero, Option.some.injEq] at hs ha
      subst hs; subst ha
      exact h.1
    | succ t =>
      simp only [traceL2, List.getElem?_cons_succ] at hs ha
      exact ih h.2 hs ha

/-! ### route plans -/

/-- the remaining route of agent number `i` in the state with grid `g`: a chain of pairwise different 4-adjacent
cells inside the grid from the agent's head to its target, every cell after the head being free for this agent
(empty, or holding its own target value) -/
structure LegOK (n : Nat) (g : Grid Int) (i : Nat) (ag : Agent) (r : List Pos) : Prop where
  head : r.head? = some ag.position
  last : r.getLast? = some ag.target
  chain : isChain r = true
  nodup : r.Nodup
  inG : ∀ c ∈ r, inGrid n c
  free : ∀ c ∈ r.tail, cell g c = 0 ∨ cell g c = tgtVal (i : Int)

/-- a route plan for the state `s`: the state is consistent, there is one remaining route per agent, and routes of
different agents never share a cell -/
structure Plan (n k : Nat) (s : State) (routes : List (List Pos)) : Prop where
  cons : Cons n k s
  len : routes.length = k
  route : ∀ (i : Nat) (ag : Agent) (r : List Pos), s.agents[i]? = some ag → routes[i]? = some r →
    LegOK n s.grid i ag r
  disj : ∀ (i j : Nat) (r r' : List Pos), i ≠ j → routes[i]? = some r → routes[j]? = some r' → ∀ c ∈ r, c ∉ r'

theorem proposal_zero (n : Nat) (g : Grid Int) (ag : Agent) : proposal n g ag 0 = none := by
  simp [proposal, dir]

section
variable {n k : Nat} {s : State} {routes : List (List Pos)}

theorem Plan.lookup (P : Plan n k s routes) {i : Nat} (hi : i < k) :
    ∃ ag r, s.agents[i]? = some ag ∧ routes[i]? = some r ∧ LegOK n s.grid i ag r := by
  have h1 : i < s.agents.length := by rw [P.cons.len]; exact hi
  have h2 : i < routes.length := by rw [P.len]; exact hi
  exact ⟨s.agents[i], routes[i], List.getElem?_eq_getElem h1, List.getElem?_eq_getElem h2,
    P.route i _ _ (List.getElem?_eq_getElem h1) (List.getElem?_eq_getElem h2)⟩

/-- an agent whose remaining route has at least two cells is not connected and may enter the next cell -/
theorem route_next {g : Grid Int} {i : Nat} {ag : Agent} {p q : Pos} {rest : List Pos}
    (ok : AgentOK n g i ag) (R : LegOK n g i ag (p :: q :: rest)) :
    p = ag.position ∧ adjacent p q = true ∧ ¬ isConnected ag ∧ canEnter n g ag q ∧
      proposal n g ag (dirAct p q) = some q ∧ 1 ≤ dirAct p q ∧ dirAct p q ≤ 4 ∧
      movePosition ag.position (dirAct p q) = q := by
  have hp : p = ag.position := by have := R.head; simpa using this
  have hadj : adjacent p q = true := by
    have := R.chain; unfold isChain at this; rw [Bool.and_eq_true] at this; exact this.1
  have hnc : ¬ isConnected ag := by
    intro hc
    unfold isConnected at hc
    have hl := R.last
    rw [List.getLast?_cons_cons] at hl
    have hmem : ag.target ∈ q :: rest := List.mem_of_getLast? hl
    have hnd := R.nodup
    rw [List.nodup_cons] at hnd
    apply hnd.1
    rw [hp, hc]; exact hmem
  have hq : inGrid n q := R.inG q (by simp)
  have hfree := R.free q (by simp)
  have hce : canEnter n g ag q := ⟨hq, by rw [ok.id]; exact hfree, hnc⟩
  obtain ⟨h1, h4, d, hd, hqd⟩ := dirAct_spec hadj
  refine ⟨hp, hadj, hnc, hce, ?_, h1, h4, ?_⟩
  · unfold proposal
    simp only [hd]
    rw [← hp, ← hqd]
    have : 0 < dirAct p q := by omega
    simp [this, hce]
  · have e : dirAct p q = ((dirAct p q).toNat : Int) := by omega
    rw [e, movePosition_dir hd, ← hp, ← hqd]

/-- in a state with a route plan an agent is finished (connected or without legal move) exactly when it is
connected: an unconnected agent can always take the next cell of its route -/
theorem Plan.finished_iff (P : Plan n k s routes) {i : Nat} {ag : Agent} (hag : s.agents[i]? = some ag) :
    finished n s i = true ↔ isConnected ag := by
  have hi : i < k := by have := lt_of_getElem? hag; rw [P.cons.len] at this; exact this
  obtain ⟨ag', r, hag', hr, R⟩ := P.lookup hi
  rw [hag] at hag'; cases hag'
  have ok := P.cons.agent i ag hag
  unfold finished
  simp only [hag, Bool.or_eq_true, decide_eq_true_eq]
  constructor
  · rintro (h | h)
    · exact h
    · match r, R with
      | [], R => have := R.head; simp at this
      | [x], R =>
        have h1 := R.head; have h2 := R.last
        simp at h1 h2
        unfold isConnected; rw [← h1, ← h2]
      | p :: q :: rest, R =>
        exfalso
        obtain ⟨hp, hadj, hnc, hce, _, h1, h4, _⟩ := route_next ok R
        obtain ⟨_, _, d, hd, hqd⟩ := dirAct_spec hadj
        have hl : legal n s i (dirAct p q).toNat := Or.inr ⟨d, hd, ag, hag, by rw [← hp, ← hqd]; exact hce⟩
        have hmem : (dirAct p q).toNat ∈ ([1, 2, 3, 4] : List Nat) := by
          simp only [List.mem_cons, List.not_mem_nil, or_false]; omega
        have : ([1, 2, 3, 4] : List Nat).any (fun a => decide (legal n s i a)) = true :=
          List.any_eq_true.2 ⟨_, hmem, by simpa using hl⟩
        rw [this] at h; simp at h
  · intro h; exact Or.inl h

end

/-! ### one step of the walk -/

/-- the successor state of the rule-level step (without the timestep) -/
def nextL2 (n : Nat) (s : State) (acts : List Int) : State :=
  { grid := (stepAgentsL2 n s acts).2, stepCount := s.stepCount + 1, agents := (stepAgentsL2 n s acts).1 }

theorem stepL2_state (cfg : Cfg) (s : State) (acts : List Int) : (stepL2 cfg s acts).1 = nextL2 cfg.n s acts := rfl

theorem stepL2_last_iff (cfg : Cfg) (s : State) (a : List Int) :
    (stepL2 cfg s a).2.stepType = .last ↔
      (((List.range (stepL2 cfg s a).1.agents.length).map (finished cfg.n (stepL2 cfg s a).1)).all id = true ∨
        cfg.timeLimit ≤ s.stepCount + 1) := by
  rw [stepL2_eq]
  simp only []
  split <;> simp_all

theorem l2_agent_fwd {n k : Nat} {s : State} {acts : List Int} (x : Ctx n k s acts) {j : Nat} {ag : Agent}
    (hag : s.agents[j]? = some ag) :
    (stepAgentsL2 n s acts).1[j]? = some (moved ag (wins (propsOf n s acts) j)) := by
  have hj : j < (stepAgentsL2 n s acts).1.length := by rw [l2_agents_length x]; exact x.lt hag
  have h := List.getElem?_eq_getElem hj
  obtain ⟨ag0, h0, e⟩ := l2_agent_get x h
  rw [hag] at h0; cases h0
  rw [h, e]

/-- the situation of one step of the walk: agent `i` stands on `p`, the next cell of its route is `q` -/
structure Solo (n k : Nat) (s : State) (routes : List (List Pos)) (i : Nat) (ag : Agent) (p q : Pos)
    (rest : List Pos) : Prop where
  plan : Plan n k s routes
  hag : s.agents[i]? = some ag
  hr : routes[i]? = some (p :: q :: rest)

section
variable {n k : Nat} {s : State} {routes : List (List Pos)} {i : Nat} {ag : Agent} {p q : Pos} {rest : List Pos}

theorem Solo.lt (S : Solo n k s routes i ag p q rest) : i < k := by
  have := lt_of_getElem? S.hag; rw [S.plan.cons.len] at this; exact this

theorem Solo.leg (S : Solo n k s routes i ag p q rest) : LegOK n s.grid i ag (p :: q :: rest) :=
  S.plan.route i ag _ S.hag S.hr

theorem Solo.next (S : Solo n k s routes i ag p q rest) :
    p = ag.position ∧ adjacent p q = true ∧ ¬ isConnected ag ∧ canEnter n s.grid ag q ∧
      proposal n s.grid ag (dirAct p q) = some q ∧ 1 ≤ dirAct p q ∧ dirAct p q ≤ 4 ∧
      movePosition ag.position (dirAct p q) = q :=
  route_next (S.plan.cons.agent i ag S.hag) S.leg

theorem Solo.ctx (S : Solo n k s routes i ag p q rest) : Ctx n k s (soloAct k i (dirAct p q)) := by
  obtain ⟨_, _, _, _, _, h1, h4, _⟩ := S.next
  exact ⟨S.plan.cons, by have := S.lt; omega, soloAct_length _ _ _, soloAct_spec _ _ _ (by omega) h4⟩

theorem Solo.props_i (S : Solo n k s routes i ag p q rest) :
    (propsOf n s (soloAct k i (dirAct p q)))[i]? = some (some q) := by
  rw [props_get S.hag (soloAct_get k i _ S.lt)]
  simp only [if_true]
  rw [S.next.2.2.2.2.1]

theorem Solo.props_ne (S : Solo n k s routes i ag p q rest) {j : Nat} (hj : j < k) (hne : j ≠ i) :
    (propsOf n s (soloAct k i (dirAct p q)))[j]? = some none := by
  obtain ⟨agj, _, hagj, _, _⟩ := S.plan.lookup hj
  rw [props_get hagj (soloAct_get k i _ hj)]
  simp only [hne, if_false, proposal_zero]

theorem Solo.props_none (S : Solo n k s routes i ag p q rest) {j : Nat} (hne : j ≠ i) :
    (propsOf n s (soloAct k i (dirAct p q)))[j]? ≠ some (some q) := by
  rcases Nat.lt_or_ge j k with hj | hj
  · rw [S.props_ne hj hne]; simp
  · rw [List.getElem?_eq_none (by rw [S.ctx.props_length]; exact hj)]; simp

theorem Solo.wins_i (S : Solo n k s routes i ag p q rest) :
    wins (propsOf n s (soloAct k i (dirAct p q))) i = some q :=
  wins_highest _ S.props_i (fun j hij => S.props_none (by omega))

theorem Solo.wins_ne (S : Solo n k s routes i ag p q rest) {j : Nat} (hne : j ≠ i) :
    wins (propsOf n s (soloAct k i (dirAct p q))) j = none := by
  rcases Nat.lt_or_ge j k with hj | hj
  · exact wins_of_none _ _ (S.props_ne hj hne)
  · unfold wins
    rw [List.getElem?_eq_none (by rw [S.ctx.props_length]; exact hj)]

/-- only the old head cell and the entered cell change -/
theorem Solo.cell_other (S : Solo n k s routes i ag p q rest) {c : Pos} (hc : inGrid n c) (h1 : c ≠ p)
    (h2 : c ≠ q) : cell (nextL2 n s (soloAct k i (dirAct p q))).grid c = cell s.grid c := by
  show cell (applyMoves s.grid (awOf n s _)) c = _
  rcases l2_cases S.ctx hc with ⟨i0, _, hw, _, _⟩ | ⟨j, agj, p', _, hagj, hw, e, _, _⟩ | ⟨_, _, e⟩
  · by_cases e : i0 = i
    · subst e; rw [S.wins_i] at hw; exact absurd (Option.some.inj hw).symm h2
    · rw [S.wins_ne e] at hw; simp at hw
  · by_cases e' : j = i
    · subst e'
      have := S.hag; rw [hagj] at this; cases this
      exact absurd (e.trans S.next.1.symm) h1
    · rw [S.wins_ne e'] at hw; simp at hw
  · exact e

theorem Solo.agent_i (S : Solo n k s routes i ag p q rest) :
    (nextL2 n s (soloAct k i (dirAct p q))).agents[i]? = some { ag with position := q } := by
  show (stepAgentsL2 n s _).1[i]? = _
  rw [l2_agent_fwd S.ctx S.hag, S.wins_i]; rfl

theorem Solo.agent_ne (S : Solo n k s routes i ag p q rest) {j : Nat} {agj : Agent}
    (hagj : s.agents[j]? = some agj) (hne : j ≠ i) :
    (nextL2 n s (soloAct k i (dirAct p q))).agents[j]? = some agj := by
  show (stepAgentsL2 n s _).1[j]? = _
  rw [l2_agent_fwd S.ctx hagj, S.wins_ne hne]; rfl

theorem Solo.agent_inv (S : Solo n k s routes i ag p q rest) {j : Nat} {ag' : Agent}
    (h : (nextL2 n s (soloAct k i (dirAct p q))).agents[j]? = some ag') :
    (j = i ∧ ag' = { ag with position := q }) ∨ (j ≠ i ∧ s.agents[j]? = some ag') := by
  have h' : (stepAgentsL2 n s (soloAct k i (dirAct p q))).1[j]? = some ag' := h
  obtain ⟨ag0, h0, e⟩ := l2_agent_get S.ctx h'
  by_cases hj : j = i
  · subst hj
    left
    rw [S.hag] at h0; cases h0
    rw [S.wins_i] at e
    exact ⟨rfl, e⟩
  · right
    rw [S.wins_ne hj] at e
    exact ⟨hj, by rw [e]; exact h0⟩

theorem Solo.routes_inv (S : Solo n k s routes i ag p q rest) {j : Nat} {r' : List Pos}
    (h : (routes.set i (q :: rest))[j]? = some r') :
    (j = i ∧ r' = q :: rest) ∨ (j ≠ i ∧ routes[j]? = some r') := by
  by_cases hj : j = i
  · subst hj
    left
    have hl : j < routes.length := lt_of_getElem? S.hr
    rw [List.getElem?_set_self hl] at h
    exact ⟨rfl, (Option.some.inj h).symm⟩
  · right
    rw [List.getElem?_set_ne (fun e => hj e.symm)] at h
    exact ⟨hj, h⟩

/-- after the step the rest of the route is a route plan again -/
theorem Solo.plan_next (S : Solo n k s routes i ag p q rest) :
    Plan n k (nextL2 n s (soloAct k i (dirAct p q))) (routes.set i (q :: rest)) := by
  have L := S.leg
  have hnd := List.nodup_cons.1 L.nodup
  have hnd2 := List.nodup_cons.1 hnd.2
  refine ⟨l2_cons S.ctx, by simp [S.plan.len], ?_, ?_⟩
  · intro j ag' r' hag' hr'
    rcases S.agent_inv hag' with ⟨rfl, rfl⟩ | ⟨hj, hagj⟩
    · rcases S.routes_inv hr' with ⟨_, rfl⟩ | ⟨hj, _⟩
      · refine ⟨rfl, ?_, ?_, hnd.2, fun c hc => L.inG c (List.mem_cons_of_mem _ hc), ?_⟩
        · have := L.last; rw [List.getLast?_cons_cons] at this; exact this
        · have := L.chain; unfold isChain at this; rw [Bool.and_eq_true] at this; exact this.2
        · intro c hc
          have hc' : c ∈ rest := hc
          have hcq : c ∈ q :: rest := List.mem_cons_of_mem _ hc'
          rw [S.cell_other (L.inG c (List.mem_cons_of_mem _ hcq)) (fun e => hnd.1 (e ▸ hcq)) (fun e => hnd2.1 (e ▸ hc'))]
          exact L.free c hcq
      · exact absurd rfl hj
    · rcases S.routes_inv hr' with ⟨e, _⟩ | ⟨_, hrj⟩
      · exact absurd e hj
      · have R := S.plan.route j ag' r' hagj hrj
        refine ⟨R.head, R.last, R.chain, R.nodup, R.inG, ?_⟩
        intro c hc
        have hcr : c ∈ r' := List.mem_of_mem_tail hc
        have hnot := S.plan.disj j i r' _ hj hrj S.hr c hcr
        rw [S.cell_other (R.inG c hcr) (fun e => hnot (by rw [e]; simp)) (fun e => hnot (by rw [e]; simp))]
        exact R.free c hc
  · intro i1 i2 r1 r2 hne h1 h2 c hc1 hc2
    have sub : ∀ {j : Nat} {r' : List Pos}, (routes.set i (q :: rest))[j]? = some r' →
        ∃ r0, routes[j]? = some r0 ∧ ∀ c ∈ r', c ∈ r0 := by
      intro j r' h
      rcases S.routes_inv h with ⟨rfl, rfl⟩ | ⟨_, h0⟩
      · exact ⟨_, S.hr, fun c hc => List.mem_cons_of_mem _ hc⟩
      · exact ⟨r', h0, fun c hc => hc⟩
    obtain ⟨r1', e1, s1⟩ := sub h1
    obtain ⟨r2', e2, s2⟩ := sub h2
    exact S.plan.disj i1 i2 r1' r2' hne e1 e2 c (s1 c hc1) (s2 c hc2)

end

/-! ### every step of the walk is good -/

/-- what is shown for every step of the solving episode (state `s` before the step, joint action `a`) -/
structure StepGood (cfg : Cfg) (s : State) (a : List Int) : Prop where
  /-- the state is consistent -/
  cons : Consistent cfg.n cfg.k s
  /-- the joint action is in-spec: one action `0..4` per agent -/
  len : a.length = cfg.k
  spec : ∀ x ∈ a, 0 ≤ x ∧ x ≤ 4
  /-- every agent's action is legal by the rules -/
  legal : ∀ j, j < cfg.k → legalInt cfg.n s j (a.getD j 0) = true
  /-- nobody collides or is refused: every agent ends exactly where its action sends it -/
  moves : (stepL2 cfg s a).1.agents =
    List.zipWith (fun (ag : Agent) (x : Int) => { ag with position := movePosition ag.position x }) s.agents a
  /-- the episode is not complete before the step -/
  open_ : ∃ ag ∈ s.agents, ¬ isConnected ag
  /-- the step is LAST exactly when every agent is connected afterwards or the time limit is reached -/
  last : (stepL2 cfg s a).2.stepType = .last ↔
    ((∀ ag ∈ (stepL2 cfg s a).1.agents, isConnected ag) ∨ cfg.timeLimit ≤ s.stepCount + 1)

theorem Plan.all_finished_iff {n k : Nat} {s : State} {routes : List (List Pos)} (P : Plan n k s routes) :
    ((List.range s.agents.length).map (finished n s)).all id = true ↔ ∀ ag ∈ s.agents, isConnected ag := by
  rw [List.all_eq_true]
  constructor
  · intro h ag hag
    obtain ⟨j, hj⟩ := List.getElem?_of_mem hag
    have hjl := lt_of_getElem? hj
    have := h (finished n s j) (List.mem_map.2 ⟨j, List.mem_range.2 hjl, rfl⟩)
    exact (P.finished_iff hj).1 this
  · intro h x hx
    obtain ⟨j, hj, rfl⟩ := List.mem_map.1 hx
    have hjl := List.mem_range.1 hj
    have hag : s.agents[j]? = some s.agents[j] := List.getElem?_eq_getElem hjl
    exact (P.finished_iff hag).2 (h _ (List.mem_of_getElem? hag))

theorem Solo.good {cfg : Cfg} {s : State} {routes : List (List Pos)} {i : Nat} {ag : Agent} {p q : Pos}
    {rest : List Pos} (S : Solo cfg.n cfg.k s routes i ag p q rest) :
    StepGood cfg s (soloAct cfg.k i (dirAct p q)) := by
  obtain ⟨hp, hadj, hnc, hce, hprop, h1, h4, hmv⟩ := S.next
  have x := S.ctx
  refine ⟨(consistent_iff _ _ _).2 S.plan.cons, soloAct_length _ _ _, soloAct_spec _ _ _ (by omega) h4, ?_, ?_,
    ⟨ag, List.mem_of_getElem? S.hag, hnc⟩, ?_⟩
  · intro j hj
    have e : (soloAct cfg.k i (dirAct p q)).getD j 0 = if j = i then dirAct p q else 0 := by
      simp [List.getD, soloAct_get _ _ _ hj]
    rw [e]
    by_cases hji : j = i
    · subst hji
      simp only [if_true]
      obtain ⟨_, _, d, hd, hqd⟩ := dirAct_spec hadj
      have hl : legal cfg.n s j (dirAct p q).toNat :=
        Or.inr ⟨d, hd, ag, S.hag, by rw [← hp, ← hqd]; exact hce⟩
      unfold legalInt
      simp only [Bool.and_eq_true, decide_eq_true_eq]
      exact ⟨by omega, hl⟩
    · simp only [hji, if_false]
      unfold legalInt legal
      simp
  · apply List.ext_getElem?
    intro j
    rw [List.getElem?_zipWith]
    rcases Nat.lt_or_ge j cfg.k with hj | hj
    · obtain ⟨agj, _, hagj, _, _⟩ := S.plan.lookup hj
      rw [hagj, soloAct_get _ _ _ hj]
      by_cases hji : j = i
      · subst hji
        rw [S.hag] at hagj; cases hagj
        have := S.agent_i
        rw [stepL2_state, this]
        simp only [if_true, hmv]
      · have := S.agent_ne hagj hji
        rw [stepL2_state, this]
        simp [hji, movePosition]
    · have h1 : (stepL2 cfg s (soloAct cfg.k i (dirAct p q))).1.agents[j]? = none := by
        apply List.getElem?_eq_none
        show (stepAgentsL2 cfg.n s _).1.length ≤ j
        rw [l2_agents_length x]; exact hj
      have h2 : s.agents[j]? = none := List.getElem?_eq_none (by rw [S.plan.cons.len]; exact hj)
      rw [h1, h2]
  · rw [stepL2_last_iff, stepL2_state, S.plan_next.all_finished_iff]

/-- agent `i` walks its whole remaining route: every step is good, afterwards its route is a single cell (it is
connected) and the other agents' routes are untouched -/
theorem walk_ok (cfg : Cfg) (i : Nat) (hi : i < cfg.k) (r : List Pos) :
    ∀ (s : State) (routes : List (List Pos)), Plan cfg.n cfg.k s routes → routes[i]? = some r →
      RunOK cfg (StepGood cfg) s (walkActs cfg.k i r) ∧
      ∃ routes', Plan cfg.n cfg.k (finalL2 cfg s (walkActs cfg.k i r)) routes' ∧
        (∃ x, routes'[i]? = some [x]) ∧ ∀ j, j ≠ i → routes'[j]? = routes[j]? := by
  induction r with
  | nil =>
    intro s routes P hr
    obtain ⟨ag, r, hag, hr', R⟩ := P.lookup hi
    rw [hr] at hr'; cases hr'
    have := R.head; simp at this
  | cons p t ih =>
    cases t with
    | nil =>
      intro s routes P hr
      exact ⟨trivial, routes, P, ⟨p, hr⟩, fun _ _ => rfl⟩
    | cons q rest =>
      intro s routes P hr
      obtain ⟨ag, r, hag, hr', R⟩ := P.lookup hi
      rw [hr] at hr'; cases hr'
      have S : Solo cfg.n cfg.k s routes i ag p q rest := ⟨P, hag, hr⟩
      have hl : i < routes.length := lt_of_getElem? hr
      obtain ⟨ok, routes', P', hx, hsame⟩ :=
        ih (stepL2 cfg s (soloAct cfg.k i (dirAct p q))).1 (routes.set i (q :: rest)) S.plan_next
          (List.getElem?_set_self hl)
      refine ⟨⟨S.good, ok⟩, routes', P', hx, ?_⟩
      intro j hj
      rw [hsame j hj, List.getElem?_set_ne (fun e => hj e.symm)]

/-- agents `i, …, k-1` walk one after the other -/
theorem plan_ok (cfg : Cfg) (routes0 : List (List Pos)) :
    ∀ (m i : Nat) (s : State) (routes : List (List Pos)), i + m = cfg.k → Plan cfg.n cfg.k s routes →
      (∀ j, j < i → ∃ x, routes[j]? = some [x]) → (∀ j, i ≤ j → routes[j]? = routes0[j]?) →
      RunOK cfg (StepGood cfg) s (planFrom cfg.k routes0 m i) ∧
      ∃ routes', Plan cfg.n cfg.k (finalL2 cfg s (planFrom cfg.k routes0 m i)) routes' ∧
        ∀ j, j < cfg.k → ∃ x, routes'[j]? = some [x] := by
  intro m
  induction m with
  | zero =>
    intro i s routes him P hdone _
    exact ⟨trivial, routes, P, fun j hj => hdone j (by omega)⟩
  | succ m ih =>
    intro i s routes him P hdone hsame
    have hi : i < cfg.k := by omega
    have hl : i < routes.length := by rw [P.len]; exact hi
    have hr : routes[i]? = some (routes0.getD i []) := by
      have h0 := hsame i (Nat.le_refl _)
      have : routes[i]? = some routes[i] := List.getElem?_eq_getElem hl
      rw [this] at h0 ⊢
      simp [List.getD, ← h0]
    obtain ⟨ok1, routes1, P1, ⟨x, hx⟩, hs1⟩ := walk_ok cfg i hi _ s routes P hr
    obtain ⟨ok2, routes2, P2, hall⟩ := ih (i + 1) _ routes1 (by omega) P1
      (fun j hj => by
        by_cases e : j = i
        · subst e; exact ⟨x, hx⟩
        · rw [hs1 j e]; exact hdone j (by omega))
      (fun j hj => by rw [hs1 j (by omega)]; exact hsame j (by omega))
    unfold planFrom
    rw [runOK_append, finalL2_append]
    exact ⟨⟨ok1, ok2⟩, routes2, P2, hall⟩

/-- OPERATIONAL SOLVABILITY: playing `planActs` from a state with a route plan, every step is good (consistent
state, in-spec and legal joint action, nobody collides, LAST only by completion or time limit) and in the final
state every agent is connected -/
theorem plan_solves (cfg : Cfg) (s0 : State) (routes : List (List Pos)) (P : Plan cfg.n cfg.k s0 routes) :
    RunOK cfg (StepGood cfg) s0 (planActs cfg.k routes) ∧
      ∀ ag ∈ (finalL2 cfg s0 (planActs cfg.k routes)).agents, isConnected ag := by
  obtain ⟨ok, routes', P', hall⟩ := plan_ok cfg routes cfg.k 0 s0 routes (by omega) P (fun j hj => by omega)
    (fun _ _ => rfl)
  refine ⟨ok, ?_⟩
  intro ag hag
  have hag : ag ∈ (finalL2 cfg s0 (planFrom cfg.k routes cfg.k 0)).agents := hag
  obtain ⟨j, hj⟩ := List.getElem?_of_mem hag
  have hjk : j < cfg.k := by have := lt_of_getElem? hj; rw [P'.cons.len] at this; exact this
  obtain ⟨x, hx⟩ := hall j hjk
  have R := P'.route j ag [x] hj hx
  have h1 := R.head; have h2 := R.last
  simp at h1 h2
  unfold isConnected; rw [← h1, ← h2]

/-! ### the `walk_board_solvable` certificate gives a route plan -/

/-- the route of one agent read off the solved board recorded by the generator (the same search the certificate
`agentSolvedB` runs) -/
def routeOf (n : Nat) (solved : Grid Int) (ag : Agent) : List Pos :=
  (searchRoute n solved (pathVal ag.id) ag.target (countVal solved (pathVal ag.id)) ag.start [ag.start]).getD []

def routesOf (n : Nat) (solved : Grid Int) (agents : List Agent) : List (List Pos) := agents.map (routeOf n solved)

/-- the explicit solving episode of a generated board -/
def solveActs (n k : Nat) (s : State) (solved : Grid Int) : List (List Int) := planActs k (routesOf n solved s.agents)

theorem cert_route {n k : Nat} {s : State} {solved : Grid Int} (c : Cons n k s)
    (h : solvedBoardB n k s solved = true) {i : Nat} {ag : Agent} (hag : s.agents[i]? = some ag) :
    GoodRoute n solved i ag.start ag.target (routeOf n solved ag) ∧
      ∀ q ∈ routeOf n solved ag, cell s.grid q = 0 ∨ cell s.grid q = cell solved q := by
  unfold solvedBoardB at h
  simp only [Bool.and_eq_true] at h
  obtain ⟨⟨⟨hs, ha⟩, _⟩, hfree⟩ := h
  have free : ∀ q, inGrid n q → cell s.grid q = 0 ∨ cell s.grid q = cell solved q := by
    intro q hq
    obtain ⟨q1, q2⟩ := inGrid_toNat hq
    obtain ⟨row, e1, l1⟩ := shaped_getElem? c.shaped q1
    obtain ⟨row', e2, l2⟩ := shaped_getElem? hs q1
    have hrow := all_zipWith_get _ _ _ hfree e1 e2
    have hq2 : q.2.toNat < row.length := by omega
    have hq2' : q.2.toNat < row'.length := by omega
    have := all_zipWith_get _ _ _ hrow (List.getElem?_eq_getElem hq2) (List.getElem?_eq_getElem hq2')
    unfold cell
    rw [get_of_row e1, get_of_row e2]
    simpa [hq2, hq2'] using this
  have ok := c.agent i ag hag
  have hsol := List.all_eq_true.1 ha ag (List.mem_of_getElem? hag)
  unfold agentSolvedB at hsol
  simp only [Bool.and_eq_true, beq_iff_eq, decide_eq_true_eq] at hsol
  obtain ⟨⟨⟨⟨⟨⟨_, _⟩, hst⟩, htg⟩, _⟩, _⟩, hroute⟩ := hsol
  split at hroute
  · rename_i r hsr
    have er : routeOf n solved ag = r := by unfold routeOf; rw [hsr]; rfl
    rw [er]
    obtain ⟨h1, h2, h3, h4, h5, h6, h7⟩ := isRoute_unpack hroute
    refine ⟨⟨h1, h2, h3, h4, h6, ?_⟩, fun q hq => free q (h6 q hq)⟩
    intro q hq
    rw [ok.id] at hst htg
    rcases mem_route_cases h1 h2 h5 hq with rfl | hin | rfl
    · exact Or.inr (Or.inl hst)
    · have := h7 q hin; rw [ok.id] at this; exact Or.inl this
    · exact Or.inr (Or.inr htg)
  · simp at hroute

theorem not_head_of_mem_tail {r : List Pos} {a c : Pos} (hh : r.head? = some a) (hn : r.Nodup)
    (hc : c ∈ r.tail) : c ≠ a := by
  cases r with
  | nil => simp at hh
  | cons x t =>
    simp at hh hc
    subst hh
    intro e
    exact (List.nodup_cons.1 hn).1 (e ▸ hc)

/-- C10: a generated board on which nobody has moved yet and whose recorded solution the certificate accepts has
a route plan: the routes read off the recorded solution -/
theorem cert_plan {n k : Nat} {s : State} {solved : Grid Int} (hc : Consistent n k s)
    (hst : ∀ ag ∈ s.agents, ag.start = ag.position) (h : solvedBoardB n k s solved = true) :
    Plan n k s (routesOf n solved s.agents) := by
  have c := (consistent_iff n k s).1 hc
  have inv : ∀ {i : Nat} {r : List Pos}, (routesOf n solved s.agents)[i]? = some r →
      ∃ ag, s.agents[i]? = some ag ∧ r = routeOf n solved ag := by
    intro i r hr
    unfold routesOf at hr
    rw [List.getElem?_map] at hr
    cases hag : s.agents[i]? with
    | none => rw [hag] at hr; simp at hr
    | some ag => rw [hag] at hr; exact ⟨ag, rfl, by simpa using hr.symm⟩
  refine ⟨c, by simp [routesOf, c.len], ?_, ?_⟩
  · intro i ag r hag hr
    obtain ⟨ag', hag', rfl⟩ := inv hr
    rw [hag] at hag'; cases hag'
    obtain ⟨⟨h1, h2, h3, h4, h5, h6⟩, hfree⟩ := cert_route c h hag
    have ok := c.agent i ag hag
    have e := hst ag (List.mem_of_getElem? hag)
    refine ⟨by rw [← e]; exact h1, h2, h3, h4, h5, ?_⟩
    intro q hq
    have hqr := List.mem_of_mem_tail hq
    have hne : q ≠ ag.position := by rw [← e]; exact not_head_of_mem_tail h1 h4 hq
    rcases hfree q hqr with h0 | hs
    · exact Or.inl h0
    · rcases h6 q hqr with hv | hv | hv
      · exact absurd (hs.trans hv) (ok.pathNone e q (h5 q hqr))
      · exact absurd (ok.headUniq q (h5 q hqr) (hs.trans hv)) hne
      · exact Or.inr (hs.trans hv)
  · intro i j r r' hij hr hr'
    obtain ⟨ag, hag, rfl⟩ := inv hr
    obtain ⟨ag', hag', rfl⟩ := inv hr'
    exact goodRoute_disjoint hij (cert_route c h hag).1 (cert_route c h hag').1

theorem fresh_start {n k : Nat} {s : State} (h : freshB n k s = true) : ∀ ag ∈ s.agents, ag.start = ag.position := by
  unfold freshB at h
  simp only [Bool.and_eq_true, List.all_eq_true, beq_iff_eq] at h
  exact h.1.1.2

end Connector
