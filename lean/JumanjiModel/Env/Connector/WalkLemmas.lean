/- `RandomWalkGenerator`: what the transliterated walk guarantees for all draw tapes. -/
import JumanjiModel.Env.Connector.GenLemmas
import JumanjiModel.Env.Connector.WalkLoopLemmas
import JumanjiModel.Env.Connector.WalkInitLemmas
namespace Connector
open Jm Jx

/-- C10, `RandomWalkGenerator`: for ALL possible draws (the start / first-move cells of `_initialize_agents` and the
whole tape of cells drawn by `_select_action`, of any length) in which no agent is boxed in at its start (every
first-move draw is a real cell, not the `-1` padding — known finding CN1 otherwise), the emitted board is fresh:
consistent, step count 0, every agent on its start, starts and targets `2k` pairwise different cells inside the
grid, nothing else on the board -/
theorem walk_reset_fresh (n k : Nat) (hn : 0 < n) (hk : 0 < k) (init : List (Int × Int)) (tape : List (List Int))
    (hv : validWalkDraw n k init tape = true) (hnb : ∀ d ∈ init, d.2 ≠ -1) :
    freshB n k (walkGenerate n k init tape).2 = true := by
  unfold validWalkDraw at hv
  simp only [Bool.and_eq_true, beq_iff_eq] at hv
  obtain ⟨⟨hlen, hinit⟩, htape⟩ := hv
  have inv0 := walkInit_inv n k hn init hlen hinit hnb
  have inv := walkLoop_inv n k hk _ tape _ _ inv0 htape
  obtain ⟨h1, h2, h3, h4⟩ := walkInv_distinct n k _ _ _ inv
  unfold walkGenerate
  exact emit_fresh n k _ _ h1 h2 h3 h4

end Connector
