/- The refinement L1 (`stepAgents`: tentative grids, max-join, correction mask) = L2 (`stepAgentsL2`:
proposals, lower id yields, `applyMoves`) for Connector, cell by cell. -/
import JumanjiModel.Env.Connector.ConsLemmas
namespace Connector
open Jm Jx

/-! ### cell values -/

theorem agentCell_cases (i : Nat) (v : Int) :
    agentCell (i : Int) v =
      if v = pathVal (i : Int) ∨ v = posVal (i : Int) ∨ v = tgtVal (i : Int) then v else 0 := by
  unfold agentCell pathVal posVal tgtVal
  repeat' split
  all_goals omega

/-! ### who wins a cell -/

theorem wins_some_iff (props : List (Option Pos)) (i : Nat) (p : Pos) :
    wins props i = some p ↔ props[i]? = some (some p) ∧ ∀ j, i < j → props[j]? ≠ some (some p) := by
  constructor
  · intro h
    unfold wins at h
    split at h
    · rename_i p' hp'
      split at h
      · simp at h
      · rename_i hany
        simp at h; subst h
        refine ⟨hp', ?_⟩
        intro j hij hj
        apply hany
        rw [List.any_eq_true]
        refine ⟨some p', ?_, by simp⟩
        have : (props.drop (i + 1))[j - (i + 1)]? = some (some p') := by
          rw [List.getElem?_drop, show i + 1 + (j - (i + 1)) = j by omega]; exact hj
        exact List.mem_of_getElem? this
    · simp at h
  · rintro ⟨h1, h2⟩; exact wins_highest props h1 h2

theorem wins_of_none (props : List (Option Pos)) (i : Nat) (h : props[i]? = some none) : wins props i = none := by
  unfold wins; simp [h]

theorem exists_winner (props : List (Option Pos)) (q : Pos) :
    ∀ (m i : Nat), props.length - i ≤ m → props[i]? = some (some q) → ∃ i0, wins props i0 = some q := by
  intro m
  induction m with
  | zero =>
    intro i hm hi
    have : i < props.length := by
      rcases Nat.lt_or_ge i props.length with h | h
      · exact h
      · rw [List.getElem?_eq_none h] at hi; simp at hi
    omega
  | succ m ih =>
    intro i hm hi
    have hlt : i < props.length := by
      rcases Nat.lt_or_ge i props.length with h | h
      · exact h
      · rw [List.getElem?_eq_none h] at hi; simp at hi
    by_cases h : ∃ j, i < j ∧ props[j]? = some (some q)
    · obtain ⟨j, hij, hj⟩ := h
      exact ih j (by omega) hj
    · exact ⟨i, wins_highest props hi (fun j hij hj => h ⟨j, hij, hj⟩)⟩

theorem proposal_some {n : Nat} {g : Grid Int} {ag : Agent} {a : Int} {p : Pos}
    (h : proposal n g ag a = some p) : canEnter n g ag p ∧ adjacent ag.position p = true := by
  unfold proposal at h
  split at h
  · simp at h
  · rename_i d hd
    simp only [] at h
    split at h
    · rename_i hc
      simp at h; subst h
      refine ⟨hc.2, ?_⟩
      have := dir_some hd
      generalize a.toNat = t at hd this
      rcases t with _ | _ | _ | _ | _ | t <;> simp [dir] at hd
      all_goals subst hd
      all_goals simp [adjacent]
      all_goals omega
    · simp at h

/-! ### the tentative grid of one agent -/

def tentGrid (g : Grid Int) (ag : Agent) : Option Pos → Grid Int
  | none => g
  | some p => setCell (setCell g p (posVal ag.id)) ag.position (pathVal ag.id)

def tentVal (g : Grid Int) (ag : Agent) (P : Option Pos) (q : Pos) : Int :=
  match P with
  | none => cell g q
  | some p => if q = ag.position then pathVal ag.id else if q = p then posVal ag.id else cell g q

theorem stepAgent_eq_tent {g : Grid Int} {n : Nat} (h : Grid.shaped g n n = true) (ag : Agent) (a : Int)
    (h0 : 0 ≤ a) (h4 : a ≤ 4) (hp : inGrid n ag.position) :
    stepAgent g ag a = (moved ag (proposal n g ag a), tentGrid g ag (proposal n g ag a)) := by
  have e : a = ((a.toNat : Nat) : Int) := by omega
  have := stepAgent_eq_rules h ag a.toNat (by omega) hp
  rw [← e] at this
  rw [this]
  cases proposal n g ag a <;> rfl

theorem shaped_tentGrid {g : Grid Int} {n : Nat} (h : Grid.shaped g n n = true) (ag : Agent) (P : Option Pos) :
    Grid.shaped (tentGrid g ag P) n n = true := by
  cases P with
  | none => exact h
  | some p => exact shaped_setCell (shaped_setCell h _ _) _ _

theorem cell_tentGrid {g : Grid Int} {n : Nat} (h : Grid.shaped g n n = true) (ag : Agent)
    (hp : inGrid n ag.position) (P : Option Pos) (hP : ∀ p, P = some p → inGrid n p) {q : Pos} (hq : inGrid n q) :
    cell (tentGrid g ag P) q = tentVal g ag P q := by
  cases P with
  | none => rfl
  | some p =>
    simp only [tentGrid, tentVal]
    rw [cell_setCell (shaped_setCell h _ _) hp hq, cell_setCell h (hP p rfl) hq]

/-! ### folds -/

theorem foldl_max_spec (l : List Int) (a m : Int) (hub : a ≤ m) (hubl : ∀ x ∈ l, x ≤ m)
    (hex : a = m ∨ m ∈ l) : l.foldl max a = m := by
  induction l generalizing a with
  | nil => simpa using hex
  | cons x l ih =>
    simp only [List.foldl_cons]
    have hx := hubl x (by simp)
    apply ih
    · omega
    · intro y hy; exact hubl y (by simp [hy])
    · rcases hex with h | h
      · left; omega
      · simp at h
        rcases h with h | h
        · left; omega
        · right; exact h

theorem cell_joinGrids {n : Nat} (gs : List (Grid Int)) (hs : ∀ g ∈ gs, Grid.shaped g n n = true) {q : Pos}
    (hq : inGrid n q) (m : Int) (hub : ∀ g ∈ gs, cell g q ≤ m) (hex : ∃ g ∈ gs, cell g q = m) :
    cell (joinGrids gs) q = m := by
  cases gs with
  | nil => obtain ⟨g, hg, _⟩ := hex; simp at hg
  | cons g0 gs =>
    unfold joinGrids
    rw [cell_foldl_zipWith max gs g0 (hs g0 (by simp)) (fun g hg => hs g (by simp [hg])) hq]
    apply foldl_max_spec
    · exact hub g0 (by simp)
    · intro x hx
      simp at hx
      obtain ⟨g, hg, rfl⟩ := hx
      exact hub g (by simp [hg])
    · obtain ⟨g, hg, e⟩ := hex
      simp at hg
      rcases hg with rfl | hg
      · left; exact e
      · right; simp; exact ⟨g, hg, e⟩

theorem shaped_joinGrids {n : Nat} (gs : List (Grid Int)) (hs : ∀ g ∈ gs, Grid.shaped g n n = true)
    (hne : gs ≠ []) : Grid.shaped (joinGrids gs) n n = true := by
  cases gs with
  | nil => exact absurd rfl hne
  | cons g0 gs =>
    unfold joinGrids
    exact shaped_foldl_zipWith max gs g0 (hs g0 (by simp)) (fun g hg => hs g (by simp [hg]))

theorem sum_range_zero (f : Nat → Int) (a : Int) (k : Nat) (h : ∀ i, i < k → f i = 0) :
    ((List.range k).map f).foldl (· + ·) a = a := by
  induction k with
  | zero => simp
  | succ k ih =>
    rw [List.range_succ, List.map_append, List.foldl_append, ih (fun i hi => h i (by omega))]
    simp [h k (by omega)]

theorem sum_range_single (f : Nat → Int) (a : Int) (k j : Nat) (hj : j < k) (h : ∀ i, i < k → i ≠ j → f i = 0) :
    ((List.range k).map f).foldl (· + ·) a = a + f j := by
  induction k with
  | zero => omega
  | succ k ih =>
    rw [List.range_succ, List.map_append, List.foldl_append]
    by_cases e : j = k
    · subst e
      rw [sum_range_zero f a j (fun i hi => h i (by omega) (by omega))]
      simp
    · rw [ih (by omega) (fun i hi hne => h i (by omega) hne)]
      simp [h k (by omega) (fun e' => e e'.symm)]

/-! ### the setting: a consistent state and an in-spec joint action -/

structure Ctx (n k : Nat) (s : State) (acts : List Int) : Prop where
  cons : Cons n k s
  kpos : 0 < k
  alen : acts.length = k
  spec : ∀ a ∈ acts, 0 ≤ a ∧ a ≤ 4

def propsOf (n : Nat) (s : State) (acts : List Int) : List (Option Pos) :=
  List.zipWith (proposal n s.grid) s.agents acts

def agentGrids (k : Nat) (s : State) (acts : List Int) : List (Grid Int) :=
  List.zipWith (fun id (x : Agent × Grid Int) => getAgentGrid id x.2) (agentIds k) (stepEach s acts)

section
variable {n k : Nat} {s : State} {acts : List Int}

theorem lt_of_getElem? {α} {l : List α} {i : Nat} {x : α} (h : l[i]? = some x) : i < l.length := by
  rcases Nat.lt_or_ge i l.length with h' | h'
  · exact h'
  · rw [List.getElem?_eq_none h'] at h; simp at h

theorem Ctx.lookup (x : Ctx n k s acts) {i : Nat} (hi : i < k) :
    ∃ ag a, s.agents[i]? = some ag ∧ acts[i]? = some a := by
  have h1 : i < s.agents.length := by rw [x.cons.len]; exact hi
  have h2 : i < acts.length := by rw [x.alen]; exact hi
  exact ⟨s.agents[i], acts[i], List.getElem?_eq_getElem h1, List.getElem?_eq_getElem h2⟩

theorem Ctx.lt (x : Ctx n k s acts) {i : Nat} {ag : Agent} (h : s.agents[i]? = some ag) : i < k := by
  have := lt_of_getElem? h; rw [x.cons.len] at this; exact this

theorem Ctx.aspec (x : Ctx n k s acts) {i : Nat} {a : Int} (h : acts[i]? = some a) : 0 ≤ a ∧ a ≤ 4 :=
  x.spec a (List.mem_of_getElem? h)

theorem props_get {i : Nat} {ag : Agent} {a : Int} (hag : s.agents[i]? = some ag) (ha : acts[i]? = some a) :
    (propsOf n s acts)[i]? = some (proposal n s.grid ag a) := by
  simp [propsOf, List.getElem?_zipWith, hag, ha]

theorem props_inv {i : Nat} {P : Option Pos} (h : (propsOf n s acts)[i]? = some P) :
    ∃ ag a, s.agents[i]? = some ag ∧ acts[i]? = some a ∧ proposal n s.grid ag a = P := by
  simp only [propsOf, List.getElem?_zipWith] at h
  cases hag : s.agents[i]? with
  | none => simp [hag] at h
  | some ag =>
    cases ha : acts[i]? with
    | none => simp [hag, ha] at h
    | some a =>
      simp [hag, ha] at h
      exact ⟨ag, a, rfl, rfl, h⟩

theorem Ctx.props_length (x : Ctx n k s acts) : (propsOf n s acts).length = k := by
  simp [propsOf, x.cons.len, x.alen]

/-- what a proposal means in a consistent state -/
theorem Ctx.prop_facts (x : Ctx n k s acts) {i : Nat} {ag : Agent} {a : Int} {p : Pos}
    (hag : s.agents[i]? = some ag) (hP : proposal n s.grid ag a = some p) :
    inGrid n p ∧ (cell s.grid p = 0 ∨ cell s.grid p = tgtVal (i : Int)) ∧ p ≠ ag.position ∧
      ag.position ≠ ag.target ∧ adjacent ag.position p = true := by
  obtain ⟨⟨hin, hv, hnc⟩, hadj⟩ := proposal_some hP
  have ok := x.cons.agent i ag hag
  rw [ok.id] at hv
  refine ⟨hin, hv, ?_, hnc, hadj⟩
  intro e
  rw [e, ok.headAt] at hv
  unfold posVal tgtVal at hv
  omega

theorem agentGrids_get (x : Ctx n k s acts) {i : Nat} {ag : Agent} {a : Int}
    (hag : s.agents[i]? = some ag) (ha : acts[i]? = some a) :
    (agentGrids k s acts)[i]? =
      some (getAgentGrid (i : Int) (tentGrid s.grid ag (proposal n s.grid ag a))) := by
  have hi := x.lt hag
  have ok := x.cons.agent i ag hag
  have sp := x.aspec ha
  simp [agentGrids, agentIds, stepEach, List.getElem?_zipWith, hag, ha, List.getElem?_range hi,
    stepAgent_eq_tent x.cons.shaped ag a sp.1 sp.2 ok.posIn]

theorem agentGrids_inv (x : Ctx n k s acts) {i : Nat} {G : Grid Int} (h : (agentGrids k s acts)[i]? = some G) :
    ∃ ag a, s.agents[i]? = some ag ∧ acts[i]? = some a ∧
      G = getAgentGrid (i : Int) (tentGrid s.grid ag (proposal n s.grid ag a)) := by
  have hi : i < k := by
    have := lt_of_getElem? h
    simp [agentGrids, agentIds] at this
    omega
  obtain ⟨ag, a, hag, ha⟩ := x.lookup hi
  rw [agentGrids_get x hag ha] at h
  exact ⟨ag, a, hag, ha, (Option.some.inj h).symm⟩

theorem Ctx.tent_in (x : Ctx n k s acts) {i : Nat} {ag : Agent} (hag : s.agents[i]? = some ag) (a : Int) :
    ∀ p, proposal n s.grid ag a = some p → inGrid n p := fun _ hP => (x.prop_facts hag hP).1

theorem agentGrid_shaped (x : Ctx n k s acts) : ∀ G ∈ agentGrids k s acts, Grid.shaped G n n = true := by
  intro G hG
  obtain ⟨i, hi⟩ := List.getElem?_of_mem hG
  obtain ⟨ag, a, hag, ha, rfl⟩ := agentGrids_inv x hi
  exact shaped_map _ (shaped_tentGrid x.cons.shaped _ _)

theorem agentGrid_cell (x : Ctx n k s acts) {i : Nat} {ag : Agent} (hag : s.agents[i]? = some ag) (a : Int)
    {q : Pos} (hq : inGrid n q) :
    cell (getAgentGrid (i : Int) (tentGrid s.grid ag (proposal n s.grid ag a))) q =
      agentCell (i : Int) (tentVal s.grid ag (proposal n s.grid ag a) q) := by
  have ok := x.cons.agent i ag hag
  unfold getAgentGrid
  rw [cell_map _ (shaped_tentGrid x.cons.shaped _ _) hq,
    cell_tentGrid x.cons.shaped ag ok.posIn _ (x.tent_in hag a) hq]

theorem agentGrids_ne (x : Ctx n k s acts) : agentGrids k s acts ≠ [] := by
  obtain ⟨ag, a, hag, ha⟩ := x.lookup x.kpos
  intro e
  have := agentGrids_get x hag ha
  rw [e] at this
  simp at this

/-- the max-join at one cell: the value `m` if no agent grid exceeds it and one attains it -/
theorem joined_eq (x : Ctx n k s acts) {q : Pos} (hq : inGrid n q) (m : Int)
    (hub : ∀ (i : Nat) ag a, s.agents[i]? = some ag → acts[i]? = some a →
      agentCell (i : Int) (tentVal s.grid ag (proposal n s.grid ag a) q) ≤ m)
    (hex : ∃ (i : Nat) (ag : Agent) (a : Int), s.agents[i]? = some ag ∧ acts[i]? = some a ∧
      agentCell (i : Int) (tentVal s.grid ag (proposal n s.grid ag a) q) = m) :
    cell (joinGrids (agentGrids k s acts)) q = m := by
  apply cell_joinGrids _ (agentGrid_shaped x) hq
  · intro G hG
    obtain ⟨i, hi⟩ := List.getElem?_of_mem hG
    obtain ⟨ag, a, hag, ha, rfl⟩ := agentGrids_inv x hi
    rw [agentGrid_cell x hag a hq]
    exact hub i ag a hag ha
  · obtain ⟨i, ag, a, hag, ha, e⟩ := hex
    refine ⟨_, List.mem_of_getElem? (agentGrids_get x hag ha), ?_⟩
    rw [agentGrid_cell x hag a hq]
    exact e

/-! ### the joined grid, cell by cell -/

/-- a cell somebody wins holds the winner's head value in the joined grid -/
theorem joined_winner (x : Ctx n k s acts) {q : Pos} {i0 : Nat} (hw : wins (propsOf n s acts) i0 = some q) :
    cell (joinGrids (agentGrids k s acts)) q = posVal (i0 : Int) := by
  obtain ⟨hp0, hmax⟩ := (wins_some_iff _ _ _).1 hw
  obtain ⟨ag0, a0, hag0, ha0, hP0⟩ := props_inv hp0
  obtain ⟨hq, hv, hne0, _, _⟩ := x.prop_facts hag0 hP0
  have ok0 := x.cons.agent i0 ag0 hag0
  refine joined_eq x hq _ ?_ ?_
  · intro i ag a hag ha
    have ok := x.cons.agent i ag hag
    have hpi := props_get (n := n) hag ha
    cases hP : proposal n s.grid ag a with
    | none =>
      have hne : i ≠ i0 := by
        rintro rfl
        rw [hp0, hP] at hpi; simp at hpi
      simp only [tentVal]
      rw [agentCell_cases]
      unfold pathVal posVal tgtVal at *
      split <;> omega
    | some p =>
      simp only [tentVal]
      have hh := ok.headAt
      by_cases e1 : q = ag.position
      · exfalso; rw [e1, hh] at hv; unfold posVal tgtVal at hv; omega
      · by_cases e2 : q = p
        · subst e2
          have hle : i ≤ i0 := by
            rcases Nat.lt_or_ge i0 i with h | h
            · exact absurd (by rw [hpi, hP]) (hmax i h)
            · exact h
          simp only [e1, if_false, if_true, ok.id]
          rw [agentCell_cases]
          unfold pathVal posVal tgtVal
          split <;> omega
        · have hne : i ≠ i0 := by
            rintro rfl
            rw [hp0, hP] at hpi; simp at hpi; exact e2 hpi
          simp only [e1, e2, if_false]
          rw [agentCell_cases]
          unfold pathVal posVal tgtVal at *
          split <;> omega
  · refine ⟨i0, ag0, a0, hag0, ha0, ?_⟩
    rw [hP0]
    simp only [tentVal, hne0, if_false, if_true, ok0.id]
    rw [agentCell_cases]
    unfold pathVal posVal tgtVal
    split <;> omega

/-- the head cell of an agent that asks for a legal move holds its path value in the joined grid -/
theorem joined_head (x : Ctx n k s acts) {j : Nat} {ag : Agent} {a : Int} {p : Pos}
    (hag : s.agents[j]? = some ag) (ha : acts[j]? = some a) (hP : proposal n s.grid ag a = some p) :
    cell (joinGrids (agentGrids k s acts)) ag.position = pathVal (j : Int) := by
  have okj := x.cons.agent j ag hag
  have hv := okj.headAt
  refine joined_eq x okj.posIn _ ?_ ?_
  · intro i ag' a' hag' ha'
    have ok := x.cons.agent i ag' hag'
    cases hP' : proposal n s.grid ag' a' with
    | none =>
      have hne : i ≠ j := by
        rintro rfl
        have e1 : ag' = ag := by rw [hag] at hag'; exact (Option.some.inj hag').symm
        have e2 : a' = a := by rw [ha] at ha'; exact (Option.some.inj ha').symm
        subst e1; subst e2
        rw [hP] at hP'; simp at hP'
      simp only [tentVal]
      rw [agentCell_cases]
      unfold pathVal posVal tgtVal at *
      split <;> omega
    | some p' =>
      simp only [tentVal]
      by_cases e1 : ag.position = ag'.position
      · have hh := ok.headAt
        rw [← e1, hv] at hh
        simp only [e1, if_true, ok.id]
        rw [agentCell_cases]
        unfold pathVal posVal tgtVal at *
        split <;> omega
      · by_cases e2 : ag.position = p'
        · exfalso
          obtain ⟨_, hv', _⟩ := x.prop_facts hag' hP'
          rw [← e2, hv] at hv'
          unfold posVal tgtVal at hv'
          omega
        · have hne : i ≠ j := by
            rintro rfl
            have e : ag' = ag := by rw [hag] at hag'; exact (Option.some.inj hag').symm
            exact e1 (by rw [e])
          simp only [e1, e2, if_false]
          rw [agentCell_cases]
          unfold pathVal posVal tgtVal at *
          split <;> omega
  · refine ⟨j, ag, a, hag, ha, ?_⟩
    rw [hP]
    simp only [tentVal, if_true, okj.id]
    rw [agentCell_cases]
    unfold pathVal posVal tgtVal
    split <;> omega

/-- nobody asks for a cell nobody wins -/
theorem no_proposer {q : Pos} (hnw : ∀ i, wins (propsOf n s acts) i ≠ some q) (i : Nat) :
    (propsOf n s acts)[i]? ≠ some (some q) := by
  intro h
  obtain ⟨i0, h0⟩ := exists_winner (propsOf n s acts) q _ i (Nat.le_refl _) h
  exact hnw i0 h0

/-- every other cell keeps its value in the joined grid -/
theorem joined_other (x : Ctx n k s acts) {q : Pos} (hq : inGrid n q)
    (hnw : ∀ i, wins (propsOf n s acts) i ≠ some q)
    (hnh : ∀ (j : Nat) ag a p, s.agents[j]? = some ag → acts[j]? = some a →
      proposal n s.grid ag a = some p → q ≠ ag.position) :
    cell (joinGrids (agentGrids k s acts)) q = cell s.grid q := by
  have key : ∀ (i : Nat) ag a, s.agents[i]? = some ag → acts[i]? = some a →
      tentVal s.grid ag (proposal n s.grid ag a) q = cell s.grid q := by
    intro i ag a hag ha
    cases hP : proposal n s.grid ag a with
    | none => rfl
    | some p =>
      have e1 := hnh i ag a p hag ha hP
      have e2 : q ≠ p := by
        rintro rfl
        exact no_proposer hnw i (by rw [props_get hag ha, hP])
      simp [tentVal, e1, e2]
  have hr := x.cons.range q hq
  refine joined_eq x hq _ ?_ ?_
  · intro i ag a hag ha
    rw [key i ag a hag ha, agentCell_cases]
    split <;> omega
  · by_cases hv : cell s.grid q = 0
    · obtain ⟨ag, a, hag, ha⟩ := x.lookup x.kpos
      refine ⟨0, ag, a, hag, ha, ?_⟩
      rw [key 0 ag a hag ha, agentCell_cases, hv]
      simp
    · have hj : ((cell s.grid q - 1) / 3).toNat < k := by omega
      obtain ⟨ag, a, hag, ha⟩ := x.lookup hj
      refine ⟨_, ag, a, hag, ha, ?_⟩
      rw [key _ ag a hag ha, agentCell_cases]
      unfold pathVal posVal tgtVal
      split
      · rfl
      · omega

/-! ### collisions and the correction mask -/

theorem joined_shaped (x : Ctx n k s acts) : Grid.shaped (joinGrids (agentGrids k s acts)) n n = true :=
  shaped_joinGrids _ (agentGrid_shaped x) (agentGrids_ne x)

theorem hasCollision_iff (x : Ctx n k s acts) (i : Nat) :
    hasCollision (joinGrids (agentGrids k s acts)) (i : Int) = true ↔
      ∀ q, inGrid n q → cell (joinGrids (agentGrids k s acts)) q ≠ posVal (i : Int) := by
  unfold hasCollision
  have := any_iff_cell (fun v => v == posVal (i : Int)) (joined_shaped x)
  constructor
  · intro h q hq e
    have : Grid.any (fun v => v == posVal (i : Int)) (joinGrids (agentGrids k s acts)) = true :=
      this.2 ⟨q, hq, by simpa using e⟩
    simp [this] at h
  · intro h
    cases hany : Grid.any (fun v => v == posVal (i : Int)) (joinGrids (agentGrids k s acts)) with
    | false => rfl
    | true =>
      obtain ⟨q, hq, e⟩ := this.1 hany
      exact absurd (by simpa using e) (h q hq)

/-- an agent is reset by the collision repair exactly when it asked for a cell and did not get it -/
theorem collided_iff (x : Ctx n k s acts) {i : Nat} {ag : Agent} {a : Int}
    (hag : s.agents[i]? = some ag) (ha : acts[i]? = some a) :
    hasCollision (joinGrids (agentGrids k s acts)) (i : Int) = true ↔
      (proposal n s.grid ag a).isSome = true ∧ wins (propsOf n s acts) i = none := by
  have ok := x.cons.agent i ag hag
  have hpi := props_get (n := n) hag ha
  rw [hasCollision_iff x i]
  constructor
  · intro h
    cases hP : proposal n s.grid ag a with
    | none =>
      exfalso
      refine h ag.position ok.posIn ?_
      rw [joined_other x ok.posIn, ok.headAt]
      · intro i0 hw
        obtain ⟨hp0, _⟩ := (wins_some_iff _ _ _).1 hw
        obtain ⟨ag0, a0, hag0, ha0, hP0⟩ := props_inv hp0
        obtain ⟨_, hv, _⟩ := x.prop_facts hag0 hP0
        rw [ok.headAt] at hv
        unfold posVal tgtVal at hv; omega
      · intro j ag' a' p hag' ha' hP' e
        have hh := (x.cons.agent j ag' hag').headAt
        rw [← e, ok.headAt] at hh
        have : j = i := by unfold posVal at hh; omega
        subst this
        have e1 : ag' = ag := by rw [hag] at hag'; exact (Option.some.inj hag').symm
        have e2 : a' = a := by rw [ha] at ha'; exact (Option.some.inj ha').symm
        subst e1; subst e2
        rw [hP] at hP'; simp at hP'
    | some p =>
      refine ⟨rfl, ?_⟩
      cases hw : wins (propsOf n s acts) i with
      | none => rfl
      | some p' =>
        exfalso
        obtain ⟨hp0, _⟩ := (wins_some_iff _ _ _).1 hw
        obtain ⟨ag0, a0, hag0, ha0, hP0⟩ := props_inv hp0
        exact h p' (x.prop_facts hag0 hP0).1 (joined_winner x hw)
  · rintro ⟨hsome, hw⟩ q hq e
    by_cases h1 : ∃ i0, wins (propsOf n s acts) i0 = some q
    · obtain ⟨i0, hw0⟩ := h1
      rw [joined_winner x hw0] at e
      have : i0 = i := by unfold posVal at e; omega
      subst this
      rw [hw] at hw0; simp at hw0
    · have hnw : ∀ i0, wins (propsOf n s acts) i0 ≠ some q := fun i0 h => h1 ⟨i0, h⟩
      by_cases h2 : ∃ (j : Nat) (ag' : Agent) (a' : Int) (p : Pos), s.agents[j]? = some ag' ∧ acts[j]? = some a' ∧
          proposal n s.grid ag' a' = some p ∧ q = ag'.position
      · obtain ⟨j, ag', a', p, hag', ha', hP', rfl⟩ := h2
        rw [joined_head x hag' ha' hP'] at e
        unfold pathVal posVal at e; omega
      · rw [joined_other x hq hnw (fun j ag' a' p hag' ha' hP' e' => h2 ⟨j, ag', a', p, hag', ha', hP', e'⟩)] at e
        have := ok.headUniq q hq e
        cases hP : proposal n s.grid ag a with
        | none => rw [hP] at hsome; simp at hsome
        | some p => exact h2 ⟨i, ag, a, p, hag, ha, hP, this⟩

theorem cell_corr {g : Grid Int} (h : Grid.shaped g n n = true) (joined : Grid Int) (k : Nat) {q : Pos}
    (hq : inGrid n q) :
    cell (sumGrids (Grid.map (fun _ => (0 : Int)) g) ((agentIds k).map (correctionMask g joined))) q =
      ((List.range k).map (fun (i : Nat) => (if cell g q = posVal (i : Int) then (2 - 1 : Int) else 0) *
        (if hasCollision joined (i : Int) then 1 else 0))).foldl (· + ·) 0 := by
  unfold sumGrids
  rw [cell_foldl_zipWith (· + ·) _ _ (shaped_map _ h) _ hq, cell_map _ h hq]
  · congr 1
    simp only [agentIds, List.map_map]
    apply List.map_congr_left
    intro i _
    simp only [Function.comp, correctionMask]
    rw [cell_map _ h hq]
  · intro G hG
    simp only [List.mem_map] at hG
    obtain ⟨id, _, rfl⟩ := hG
    exact shaped_map _ h

/-! ### the rule-level grid (`applyMoves`), cell by cell -/

theorem applyMoves_append (g : Grid Int) (L1 L2 : List (Agent × Option Pos)) :
    applyMoves g (L1 ++ L2) = applyMoves (applyMoves g L1) L2 := by
  induction L1 generalizing g with
  | nil => rfl
  | cons y L1 ih =>
    obtain ⟨ag, o⟩ := y
    cases o <;> simp [applyMoves, ih]

theorem shaped_applyMoves {g : Grid Int} (h : Grid.shaped g n n = true) (L : List (Agent × Option Pos)) :
    Grid.shaped (applyMoves g L) n n = true := by
  induction L generalizing g with
  | nil => exact h
  | cons y L ih =>
    obtain ⟨ag, o⟩ := y
    cases o with
    | none => exact ih h
    | some p => exact ih (shaped_setCell (shaped_setCell h _ _) _ _)

def okMove (n : Nat) (y : Agent × Option Pos) : Prop := inGrid n y.1.position ∧ ∀ p, y.2 = some p → inGrid n p
def touches (y : Agent × Option Pos) (q : Pos) : Prop := ∃ p, y.2 = some p ∧ (q = p ∨ q = y.1.position)

theorem applyMoves_untouched {g : Grid Int} (h : Grid.shaped g n n = true) (L : List (Agent × Option Pos))
    (hok : ∀ y ∈ L, okMove n y) {q : Pos} (hq : inGrid n q) (hnt : ∀ y ∈ L, ¬ touches y q) :
    cell (applyMoves g L) q = cell g q := by
  induction L generalizing g with
  | nil => rfl
  | cons y L ih =>
    obtain ⟨ag, o⟩ := y
    cases o with
    | none =>
      simp only [applyMoves]
      exact ih h (fun y hy => hok y (by simp [hy])) (fun y hy => hnt y (by simp [hy]))
    | some p =>
      simp only [applyMoves]
      rw [ih (shaped_setCell (shaped_setCell h _ _) _ _) (fun y hy => hok y (by simp [hy]))
        (fun y hy => hnt y (by simp [hy]))]
      have hx := hok (ag, some p) (by simp)
      have ht := hnt (ag, some p) (by simp)
      rw [cell_setCell (shaped_setCell h _ _) hx.1 hq, cell_setCell h (hx.2 p rfl) hq]
      have h1 : q ≠ p := fun e => ht ⟨p, rfl, Or.inl e⟩
      have h2 : q ≠ ag.position := fun e => ht ⟨p, rfl, Or.inr e⟩
      simp [h1, h2]

theorem applyMoves_mid {g : Grid Int} (h : Grid.shaped g n n = true) (L1 L2 : List (Agent × Option Pos))
    (ag : Agent) (p : Pos) (hokx : okMove n (ag, some p)) (hok2 : ∀ y ∈ L2, okMove n y) {q : Pos}
    (hq : inGrid n q) (hnt : ∀ y ∈ L2, ¬ touches y q) :
    cell (applyMoves g (L1 ++ (ag, some p) :: L2)) q =
      if q = ag.position then pathVal ag.id else if q = p then posVal ag.id else cell (applyMoves g L1) q := by
  rw [applyMoves_append]
  simp only [applyMoves]
  have h1 := shaped_applyMoves h L1
  rw [applyMoves_untouched (shaped_setCell (shaped_setCell h1 _ _) _ _) L2 hok2 hq hnt,
    cell_setCell (shaped_setCell h1 _ _) hokx.1 hq, cell_setCell h1 (hokx.2 p rfl) hq]

theorem split_at {α} {l : List α} {i : Nat} {y : α} (h : l[i]? = some y) :
    l = l.take i ++ y :: l.drop (i + 1) := by
  have hi := lt_of_getElem? h
  have : l[i] = y := by rw [List.getElem?_eq_getElem hi] at h; exact Option.some.inj h
  rw [← this, ← List.drop_eq_getElem_cons hi, List.take_append_drop]

def awOf (n : Nat) (s : State) (acts : List Int) : List (Agent × Option Pos) :=
  List.zip s.agents ((List.range (propsOf n s acts).length).map (wins (propsOf n s acts)))

theorem stepAgentsL2_eq (n : Nat) (s : State) (acts : List Int) :
    stepAgentsL2 n s acts = ((awOf n s acts).map (fun y => moved y.1 y.2), applyMoves s.grid (awOf n s acts)) := rfl

theorem aw_get (x : Ctx n k s acts) {i : Nat} {ag : Agent} (hag : s.agents[i]? = some ag) :
    (awOf n s acts)[i]? = some (ag, wins (propsOf n s acts) i) := by
  have hi := x.lt hag
  unfold awOf
  rw [List.getElem?_zip_eq_some]
  refine ⟨hag, ?_⟩
  simp [List.getElem?_map, x.props_length, List.getElem?_range hi]

theorem aw_inv (x : Ctx n k s acts) {i : Nat} {y : Agent × Option Pos} (h : (awOf n s acts)[i]? = some y) :
    s.agents[i]? = some y.1 ∧ y.2 = wins (propsOf n s acts) i := by
  have h' := h
  unfold awOf at h'
  rw [List.getElem?_zip_eq_some] at h'
  have := aw_get x h'.1
  rw [this] at h
  have e := Option.some.inj h
  exact ⟨h'.1, by rw [← e]⟩

theorem aw_ok (x : Ctx n k s acts) : ∀ y ∈ awOf n s acts, okMove n y := by
  intro y hy
  obtain ⟨i, hi⟩ := List.getElem?_of_mem hy
  obtain ⟨hag, hw⟩ := aw_inv x hi
  refine ⟨(x.cons.agent i _ hag).posIn, ?_⟩
  intro p hp
  rw [hw] at hp
  obtain ⟨hp0, _⟩ := (wins_some_iff _ _ _).1 hp
  obtain ⟨ag0, a0, hag0, ha0, hP0⟩ := props_inv hp0
  exact (x.prop_facts hag0 hP0).1

/-- the facts about a winner -/
theorem Ctx.win_facts (x : Ctx n k s acts) {i : Nat} {p : Pos} (hw : wins (propsOf n s acts) i = some p) :
    ∃ ag a, s.agents[i]? = some ag ∧ acts[i]? = some a ∧ proposal n s.grid ag a = some p ∧ inGrid n p ∧
      (cell s.grid p = 0 ∨ cell s.grid p = tgtVal (i : Int)) ∧ p ≠ ag.position := by
  obtain ⟨hp0, _⟩ := (wins_some_iff _ _ _).1 hw
  obtain ⟨ag0, a0, hag0, ha0, hP0⟩ := props_inv hp0
  obtain ⟨h1, h2, h3, _, _⟩ := x.prop_facts hag0 hP0
  exact ⟨ag0, a0, hag0, ha0, hP0, h1, h2, h3⟩

/-- two winners never touch the same cell -/
theorem touch_unique (x : Ctx n k s acts) {i j : Nat} {agi agj : Agent} {p p' : Pos}
    (hagi : s.agents[i]? = some agi) (hagj : s.agents[j]? = some agj)
    (hwi : wins (propsOf n s acts) i = some p) (hwj : wins (propsOf n s acts) j = some p')
    {q : Pos} (hi : q = p ∨ q = agi.position) (hj : q = p' ∨ q = agj.position) : i = j := by
  obtain ⟨ag, a, hag, ha, hP, hin, hv, hne⟩ := x.win_facts hwi
  obtain ⟨ag', a', hag', ha', hP', hin', hv', hne'⟩ := x.win_facts hwj
  have e1 : ag = agi := by rw [hagi] at hag; exact (Option.some.inj hag).symm
  have e2 : ag' = agj := by rw [hagj] at hag'; exact (Option.some.inj hag').symm
  subst e1; subst e2
  have hi0 := (x.cons.agent i ag hagi).headAt
  have hj0 := (x.cons.agent j ag' hagj).headAt
  obtain ⟨hpi, hmi⟩ := (wins_some_iff _ _ _).1 hwi
  obtain ⟨hpj, hmj⟩ := (wins_some_iff _ _ _).1 hwj
  unfold posVal tgtVal at *
  rcases hi with rfl | rfl <;> rcases hj with hj | hj
  · subst hj
    rcases Nat.lt_trichotomy i j with h | h | h
    · exact absurd hpj (hmi j h)
    · exact h
    · exact absurd hpi (hmj i h)
  · rw [hj, hj0] at hv; omega
  · rw [← hj, hi0] at hv'; omega
  · rw [hj, hj0] at hi0; omega

theorem mem_drop_succ {α} {l : List α} {i : Nat} {y : α} (h : y ∈ l.drop (i + 1)) : ∃ j, i < j ∧ l[j]? = some y := by
  obtain ⟨m, hm⟩ := List.getElem?_of_mem h
  rw [List.getElem?_drop] at hm
  exact ⟨i + 1 + m, by omega, hm⟩

/-- after the moves of the rules, a cell somebody wins holds the winner's head value … -/
theorem l2_winner (x : Ctx n k s acts) {q : Pos} {i0 : Nat} (hw : wins (propsOf n s acts) i0 = some q) :
    cell (applyMoves s.grid (awOf n s acts)) q = posVal (i0 : Int) := by
  obtain ⟨ag, a, hag, ha, hP, hin, hv, hne⟩ := x.win_facts hw
  have haw := aw_get x hag
  rw [hw] at haw
  have e := split_at haw
  rw [e, applyMoves_mid x.cons.shaped _ _ ag q (aw_ok x _ (List.mem_of_getElem? haw))
    (fun y hy => aw_ok x y (List.mem_of_mem_drop hy)) hin]
  · simp [hne, (x.cons.agent i0 ag hag).id]
  · intro y hy ⟨p', hp', ht⟩
    obtain ⟨j, hij, hj⟩ := mem_drop_succ hy
    obtain ⟨hagj, hwj⟩ := aw_inv x hj
    rw [hwj] at hp'
    have := touch_unique x hag hagj hw hp' (Or.inl rfl) ht
    omega

/-- … the old head cell of a winner holds its path value … -/
theorem l2_head (x : Ctx n k s acts) {j : Nat} {ag : Agent} {p : Pos} (hag : s.agents[j]? = some ag)
    (hw : wins (propsOf n s acts) j = some p) :
    cell (applyMoves s.grid (awOf n s acts)) ag.position = pathVal (j : Int) := by
  have haw := aw_get x hag
  rw [hw] at haw
  have e := split_at haw
  rw [e, applyMoves_mid x.cons.shaped _ _ ag p (aw_ok x _ (List.mem_of_getElem? haw))
    (fun y hy => aw_ok x y (List.mem_of_mem_drop hy)) (x.cons.agent j ag hag).posIn]
  · simp [(x.cons.agent j ag hag).id]
  · intro y hy ⟨p', hp', ht⟩
    obtain ⟨j', hij, hj⟩ := mem_drop_succ hy
    obtain ⟨hagj, hwj⟩ := aw_inv x hj
    rw [hwj] at hp'
    have := touch_unique x hag hagj hw hp' (Or.inr rfl) ht
    omega

/-- … and every other cell is unchanged -/
theorem l2_other (x : Ctx n k s acts) {q : Pos} (hq : inGrid n q)
    (hnw : ∀ i, wins (propsOf n s acts) i ≠ some q)
    (hnh : ∀ (j : Nat) ag p, s.agents[j]? = some ag → wins (propsOf n s acts) j = some p → q ≠ ag.position) :
    cell (applyMoves s.grid (awOf n s acts)) q = cell s.grid q := by
  apply applyMoves_untouched x.cons.shaped _ (aw_ok x) hq
  intro y hy ⟨p, hp, ht⟩
  obtain ⟨j, hj⟩ := List.getElem?_of_mem hy
  obtain ⟨hagj, hwj⟩ := aw_inv x hj
  rw [hwj] at hp
  rcases ht with rfl | ht
  · exact hnw j hp
  · exact hnh j _ p hagj hp ht

/-! ### L1 = L2 -/

theorem stepAgents_grid (k : Nat) (s : State) (acts : List Int) :
    (stepAgents k s acts).2 =
      Grid.zipWith (· + ·) (joinGrids (agentGrids k s acts))
        (sumGrids (Grid.map (fun _ => (0 : Int)) s.grid)
          ((agentIds k).map (correctionMask s.grid (joinGrids (agentGrids k s acts))))) := rfl

theorem corr_shaped (x : Ctx n k s acts) (joined : Grid Int) :
    Grid.shaped (sumGrids (Grid.map (fun _ => (0 : Int)) s.grid)
      ((agentIds k).map (correctionMask s.grid joined))) n n = true := by
  unfold sumGrids
  apply shaped_foldl_zipWith _ _ _ (shaped_map _ x.cons.shaped)
  intro G hG
  simp only [List.mem_map] at hG
  obtain ⟨id, _, rfl⟩ := hG
  exact shaped_map _ x.cons.shaped

theorem not_collided (x : Ctx n k s acts) {i : Nat} {ag : Agent} {a : Int}
    (hag : s.agents[i]? = some ag) (ha : acts[i]? = some a)
    (h : ¬ ((proposal n s.grid ag a).isSome = true ∧ wins (propsOf n s acts) i = none)) :
    hasCollision (joinGrids (agentGrids k s acts)) (i : Int) = false := by
  cases hc : hasCollision (joinGrids (agentGrids k s acts)) (i : Int) with
  | false => rfl
  | true => exact absurd ((collided_iff x hag ha).1 hc) h

theorem stepAgents_grid_eq (x : Ctx n k s acts) : (stepAgents k s acts).2 = (stepAgentsL2 n s acts).2 := by
  rw [stepAgents_grid, stepAgentsL2_eq]
  apply grid_ext_cell (shaped_zipWith _ (joined_shaped x) (corr_shaped x _)) (shaped_applyMoves x.cons.shaped _)
  intro q hq
  rw [cell_zipWith _ (joined_shaped x) (corr_shaped x _) hq, cell_corr x.cons.shaped _ k hq]
  by_cases h1 : ∃ i0, wins (propsOf n s acts) i0 = some q
  · obtain ⟨i0, hw⟩ := h1
    obtain ⟨ag, a, hag, ha, hP, hin, hv, hne⟩ := x.win_facts hw
    rw [joined_winner x hw, l2_winner x hw, sum_range_zero]
    · simp
    · intro i _
      have : cell s.grid q ≠ posVal (i : Int) := by unfold posVal tgtVal at *; omega
      simp [this]
  · have hnw : ∀ i0, wins (propsOf n s acts) i0 ≠ some q := fun i0 h => h1 ⟨i0, h⟩
    by_cases h2 : ∃ (j : Nat) (ag' : Agent) (a' : Int) (p : Pos), s.agents[j]? = some ag' ∧ acts[j]? = some a' ∧
        proposal n s.grid ag' a' = some p ∧ q = ag'.position
    · obtain ⟨j, ag, a, p, hag, ha, hP, rfl⟩ := h2
      have ok := x.cons.agent j ag hag
      have hj := x.lt hag
      rw [joined_head x hag ha hP, sum_range_single _ _ k j hj]
      · cases hw : wins (propsOf n s acts) j with
        | none =>
          have hc := (collided_iff x hag ha).2 ⟨by rw [hP]; rfl, hw⟩
          rw [l2_other x ok.posIn hnw]
          · simp only [hc, ok.headAt, if_true]
            unfold pathVal posVal; omega
          · intro j' ag' p' hag' hw' e
            have hh := (x.cons.agent j' ag' hag').headAt
            rw [← e, ok.headAt] at hh
            have : j' = j := by unfold posVal at hh; omega
            subst this
            rw [hw] at hw'; simp at hw'
        | some p' =>
          have hc := not_collided x hag ha (by rw [hw]; simp)
          rw [l2_head x hag hw]
          simp [hc]
      · intro i _ hne
        have : cell s.grid ag.position ≠ posVal (i : Int) := by rw [ok.headAt]; unfold posVal; omega
        simp [this]
    · have hnh : ∀ (j : Nat) ag' a' p, s.agents[j]? = some ag' → acts[j]? = some a' →
          proposal n s.grid ag' a' = some p → q ≠ ag'.position :=
        fun j ag' a' p hag' ha' hP' e' => h2 ⟨j, ag', a', p, hag', ha', hP', e'⟩
      rw [joined_other x hq hnw hnh, l2_other x hq hnw]
      · by_cases h3 : ∃ j : Nat, j < k ∧ cell s.grid q = posVal (j : Int)
        · obtain ⟨j, hj, hv⟩ := h3
          obtain ⟨ag, a, hag, ha⟩ := x.lookup hj
          have ok := x.cons.agent j ag hag
          have hqp := ok.headUniq q hq hv
          have hc := not_collided x hag ha (by
            rintro ⟨hs, _⟩
            cases hP : proposal n s.grid ag a with
            | none => rw [hP] at hs; simp at hs
            | some p => exact hnh j ag a p hag ha hP hqp)
          rw [sum_range_single _ _ k j hj]
          · simp [hc]
          · intro i _ hne
            have : cell s.grid q ≠ posVal (i : Int) := by rw [hv]; unfold posVal; omega
            simp [this]
        · rw [sum_range_zero]
          · simp
          · intro i hi
            have : cell s.grid q ≠ posVal (i : Int) := fun e => h3 ⟨i, hi, e⟩
            simp [this]
      · intro j ag' p hag' hw e
        obtain ⟨ag0, a0, hag0, ha0, hP0, _⟩ := x.win_facts hw
        have e1 : ag0 = ag' := by rw [hag'] at hag0; exact (Option.some.inj hag0).symm
        subst e1
        exact hnh j ag0 a0 p hag0 ha0 hP0 e

theorem stepAgents_agents_eq (x : Ctx n k s acts) : (stepAgents k s acts).1 = (stepAgentsL2 n s acts).1 := by
  rw [stepAgentsL2_eq]
  apply List.ext_getElem?
  intro i
  by_cases hi : i < k
  · obtain ⟨ag, a, hag, ha⟩ := x.lookup hi
    have ok := x.cons.agent i ag hag
    have sp := x.aspec ha
    have hl : (stepAgents k s acts).1[i]? =
        some (if hasCollision (joinGrids (agentGrids k s acts)) (i : Int) = true then ag
          else moved ag (proposal n s.grid ag a)) := by
      show (resolve k s (stepEach s acts)).1[i]? = _
      simp only [resolve, List.getElem?_zipWith, List.getElem?_map, agentIds, List.getElem?_range hi, stepEach,
        hag, ha, stepAgent_eq_tent x.cons.shaped ag a sp.1 sp.2 ok.posIn, Option.map_some]
      rfl
    have hr : ((awOf n s acts).map (fun y => moved y.1 y.2))[i]? = some (moved ag (wins (propsOf n s acts) i)) := by
      rw [List.getElem?_map, aw_get x hag]; rfl
    show (stepAgents k s acts).1[i]? = ((awOf n s acts).map (fun y => moved y.1 y.2))[i]?
    rw [hl, hr]
    congr 1
    have hpi := props_get (n := n) hag ha
    cases hP : proposal n s.grid ag a with
    | none =>
      have hc := not_collided x hag ha (by rw [hP]; simp)
      rw [hP] at hpi
      simp [hc, wins_of_none _ _ hpi, moved]
    | some p =>
      cases hw : wins (propsOf n s acts) i with
      | none =>
        have hc := (collided_iff x hag ha).2 ⟨by rw [hP]; rfl, hw⟩
        simp [hc, moved]
      | some p' =>
        have hc := not_collided x hag ha (by rw [hw]; simp)
        obtain ⟨hp0, _⟩ := (wins_some_iff _ _ _).1 hw
        rw [hpi, hP] at hp0
        simp at hp0
        subst hp0
        simp [hc]
  · have h1 : (stepAgents k s acts).1.length ≤ i := by
      show (resolve k s (stepEach s acts)).1.length ≤ i
      simp [resolve, stepEach, agentIds, x.cons.len, x.alen]
      omega
    have h2 : ((awOf n s acts).map (fun y => moved y.1 y.2)).length ≤ i := by
      simp [awOf, x.props_length, x.cons.len]
      omega
    show (stepAgents k s acts).1[i]? = ((awOf n s acts).map (fun y => moved y.1 y.2))[i]?
    rw [List.getElem?_eq_none h1, List.getElem?_eq_none h2]

/-- C09, the core: on a consistent state and an in-spec joint action the simultaneous step of the
implementation (tentative grids, max-join, correction mask) is the rule-level step (proposals, lower id
yields, moves applied one after the other) -/
theorem stepAgents_eq_L2 (x : Ctx n k s acts) : stepAgents k s acts = stepAgentsL2 n s acts :=
  Prod.ext (stepAgents_agents_eq x) (stepAgents_grid_eq x)

end
end Connector
