/- Connector: whole episodes.  (1) the solving episode of `SolveLemmas` read step by step (index `t` of the trace),
with the implementation model `step` (L1) in place of the rules `stepL2`; (2) the return of ANY episode of in-spec
joint actions from a consistent state equals the documented objective, per agent. -/
import JumanjiModel.Env.Connector.SolveLemmas
namespace Connector
open Jm Jx

/-! ### traces -/

theorem trace_succ (cfg : Cfg) {s0 : State} {actss : List (List Int)} {t : Nat} {s : State} {a : List Int}
    (hs : (traceL2 cfg s0 actss)[t]? = some s) (ha : actss[t]? = some a) :
    (traceL2 cfg s0 actss)[t + 1]? = some (stepL2 cfg s a).1 := by
  induction actss generalizing s0 t with
  | nil => simp at ha
  | cons a0 rest ih =>
    cases t with
    | zero =>
      simp only [traceL2, List.getElem?_cons_zero, Option.some.injEq] at hs ha
      subst hs; subst ha
      obtain ⟨tl, e⟩ := traceL2_head cfg (stepL2 cfg s0 a0).1 rest
      simp only [traceL2, List.getElem?_cons_succ, e, List.getElem?_cons_zero]
    | succ t =>
      simp only [traceL2, List.getElem?_cons_succ] at hs ha ⊢
      exact ih hs ha

theorem runOK_mem {cfg : Cfg} {Good : State → List Int → Prop} {s0 : State} {actss : List (List Int)}
    (h : RunOK cfg Good s0 actss) : ∀ a ∈ actss, ∃ s, Good s a := by
  induction actss generalizing s0 with
  | nil => intro a ha; simp at ha
  | cons a0 rest ih =>
    intro a ha
    rcases List.mem_cons.1 ha with rfl | ha
    · exact ⟨s0, h.1⟩
    · exact ih h.2 a ha

theorem finalL2_mem_trace (cfg : Cfg) (s : State) (actss : List (List Int)) :
    finalL2 cfg s actss ∈ traceL2 cfg s actss := List.mem_of_getLast? (traceL2_getLast cfg s actss)

theorem StepGood.kpos {cfg : Cfg} {s : State} {a : List Int} (G : StepGood cfg s a) : 0 < cfg.k := by
  obtain ⟨ag, hag, _⟩ := G.open_
  have c := (consistent_iff _ _ _).1 G.cons
  rw [← c.len]
  exact List.length_pos_of_mem hag

theorem StepGood.refines {cfg : Cfg} {s : State} {a : List Int} (G : StepGood cfg s a) :
    step cfg s a = stepL2 cfg s a := step_eq_stepL2 cfg s a G.cons G.kpos G.len G.spec

theorem getD_mem {l : List Int} {j : Nat} (hj : j < l.length) : l.getD j 0 ∈ l := by
  simp only [List.getD, List.getElem?_eq_getElem hj, Option.getD_some]
  exact List.getElem_mem hj

/-- the mask the implementation hands out allows every action of a good step -/
theorem StepGood.masked {cfg : Cfg} {s : State} {a : List Int} (G : StepGood cfg s a) {j : Nat} (hj : j < cfg.k) :
    ((actionMask s.grid s.agents).getD j []).getD (a.getD j 0).toNat false = true ∧
      Connector.legal cfg.n s j (a.getD j 0).toNat := by
  have c := (consistent_iff _ _ _).1 G.cons
  have hl := G.legal j hj
  unfold legalInt at hl
  simp only [Bool.and_eq_true, decide_eq_true_eq] at hl
  have hsp := G.spec _ (getD_mem (l := a) (j := j) (by rw [G.len]; exact hj))
  exact ⟨(mask_iff_legal s c.shaped j _ (by rw [c.len]; exact hj) (by omega)).2 hl.2, hl.2⟩

/-! ### the solving episode, step by step -/

/-- the solving episode `planActs` from a state with a route plan, read at step `t` (state `s` before the step,
joint action `a`): the action is in-spec, every agent's action is allowed by the implementation's mask and legal by
the rules, the implementation step is the rule-level step, every agent ends exactly where its action sends it
(nobody collides, nobody is refused), the successor is the next state of the trace, and the step is LAST exactly
when it is the final step of the plan (completion) or the time limit is reached -/
theorem plan_episode (cfg : Cfg) (s0 : State) (routes : List (List Pos)) (P : Plan cfg.n cfg.k s0 routes)
    (t : Nat) (s : State) (a : List Int) (hs : (traceL2 cfg s0 (planActs cfg.k routes))[t]? = some s)
    (ha : (planActs cfg.k routes)[t]? = some a) :
    (a.length = cfg.k ∧ ∀ x ∈ a, 0 ≤ x ∧ x ≤ 4) ∧
    (∀ j, j < cfg.k → ((actionMask s.grid s.agents).getD j []).getD (a.getD j 0).toNat false = true ∧
        legal cfg.n s j (a.getD j 0).toNat) ∧
    step cfg s a = stepL2 cfg s a ∧
    (step cfg s a).1.agents =
      List.zipWith (fun (ag : Agent) (x : Int) => { ag with position := movePosition ag.position x }) s.agents a ∧
    (traceL2 cfg s0 (planActs cfg.k routes))[t + 1]? = some (step cfg s a).1 ∧
    ((step cfg s a).2.stepType = .last ↔
      (t + 1 = (planActs cfg.k routes).length ∨ cfg.timeLimit ≤ s.stepCount + 1)) := by
  obtain ⟨ok, hfin⟩ := plan_solves cfg s0 routes P
  have G := runOK_index ok hs ha
  have hsucc := trace_succ cfg hs ha
  have htl := lt_of_getElem? ha
  refine ⟨⟨G.len, G.spec⟩, fun j hj => G.masked hj, G.refines, by rw [G.refines]; exact G.moves,
    by rw [G.refines]; exact hsucc, ?_⟩
  rw [G.refines, G.last]
  constructor
  · rintro (hall | hT)
    · left
      rcases Nat.lt_or_ge (t + 1) (planActs cfg.k routes).length with hlt | hge
      · exfalso
        have G' := runOK_index ok hsucc (List.getElem?_eq_getElem hlt)
        obtain ⟨ag, hag, hnc⟩ := G'.open_
        exact hnc (hall ag hag)
      · omega
    · exact Or.inr hT
  · rintro (hT | hT)
    · left
      have hlast := traceL2_getLast cfg s0 (planActs cfg.k routes)
      rw [List.getLast?_eq_getElem?, traceL2_length, ← hT, show t + 1 + 1 - 1 = t + 1 by omega, hsucc] at hlast
      rw [Option.some.inj hlast]
      exact hfin
    · exact Or.inr hT

/-- every joint action of the solving episode is in-spec -/
theorem plan_spec (cfg : Cfg) (s0 : State) (routes : List (List Pos)) (P : Plan cfg.n cfg.k s0 routes) :
    ∀ acts ∈ planActs cfg.k routes, acts.length = cfg.k ∧ ∀ a ∈ acts, 0 ≤ a ∧ a ≤ 4 := by
  intro acts hacts
  obtain ⟨s, G⟩ := runOK_mem (plan_solves cfg s0 routes P).1 acts hacts
  exact ⟨G.len, G.spec⟩

/-- the solving episode ends in a complete solution: feasible (every agent's cells form a path from its start to
its head) with every agent connected -/
theorem plan_final_solution (cfg : Cfg) (s0 : State) (routes : List (List Pos)) (P : Plan cfg.n cfg.k s0 routes)
    (hf : Feasible cfg.n cfg.k s0) :
    solutionB cfg.n cfg.k (finalL2 cfg s0 (planActs cfg.k routes)) = true := by
  have hall := (plan_solves cfg s0 routes P).2
  have hfeas : Feasible cfg.n cfg.k (finalL2 cfg s0 (planActs cfg.k routes)) := by
    rcases Nat.eq_zero_or_pos cfg.k with h0 | hk
    · have : planActs cfg.k routes = [] := by unfold planActs; rw [h0]; rfl
      rw [this]; exact hf
    · exact feasible_along cfg hk _ (plan_spec cfg s0 routes P) s0 hf _ (finalL2_mem_trace cfg s0 _)
  exact (complete_is_solution hfeas hall).1

/-- every state of an episode of in-spec joint actions from a consistent state is consistent -/
theorem consistent_along (cfg : Cfg) (hk : 0 < cfg.k) (actss : List (List Int))
    (hspec : ∀ acts ∈ actss, acts.length = cfg.k ∧ ∀ a ∈ acts, 0 ≤ a ∧ a ≤ 4) (s0 : State)
    (hc : Consistent cfg.n cfg.k s0) : ∀ s ∈ traceL2 cfg s0 actss, Consistent cfg.n cfg.k s := by
  induction actss generalizing s0 with
  | nil => intro s hs; simp [traceL2] at hs; rw [hs]; exact hc
  | cons acts rest ih =>
    intro s hs
    simp only [traceL2, List.mem_cons] at hs
    rcases hs with rfl | hs
    · exact hc
    · have sp := hspec acts (by simp)
      have hstep := step_consistent cfg s0 acts hc hk sp.1 sp.2
      rw [step_eq_stepL2 cfg s0 acts hc hk sp.1 sp.2] at hstep
      exact ih (fun a ha => hspec a (by simp [ha])) _ hstep s hs

/-! ### C08: the return of an episode is the documented objective -/

/-- the return of agent `i` over the episode `actss` from `s`, summed from the rewards the implementation model
`step` emits -/
def returnL1 (cfg : Cfg) : State → List (List Int) → Nat → Rat
  | _, [], _ => 0
  | s, a :: rest, i => (step cfg s a).2.reward.getD i 0 + returnL1 cfg (step cfg s a).1 rest i

theorem connectedAt_of {s : State} {i : Nat} {ag : Agent} (h : s.agents[i]? = some ag) :
    connectedAt s i = decide (isConnected ag) := by
  unfold connectedAt; rw [h]

/-- the reward one step pays agent `i`, from its connected flags before and after -/
theorem reward_term (cfg : Cfg) (s : State) (a : List Int) (hc : Consistent cfg.n cfg.k s) (hk : 0 < cfg.k)
    (hlen : a.length = cfg.k) (hspec : ∀ x ∈ a, 0 ≤ x ∧ x ≤ 4) {i : Nat} (hi : i < cfg.k) :
    (step cfg s a).2.reward.getD i 0 =
      (if !connectedAt s i && connectedAt (step cfg s a).1 i then cfg.connectedReward else 0) +
        (if !connectedAt s i then cfg.timestepReward else 0) ∧
    (connectedAt s i = true → connectedAt (step cfg s a).1 i = true) := by
  have c := (consistent_iff _ _ _).1 hc
  have c' := (consistent_iff _ _ _).1 (step_consistent cfg s a hc hk hlen hspec)
  have h1 : i < s.agents.length := by rw [c.len]; exact hi
  have h2 : i < (step cfg s a).1.agents.length := by rw [c'.len]; exact hi
  have hag := List.getElem?_eq_getElem h1
  have hag' := List.getElem?_eq_getElem h2
  have hai : a[i]? = some a[i] := List.getElem?_eq_getElem (by rw [hlen]; exact hi)
  constructor
  · rw [step_reward, connectedAt_of hag, connectedAt_of hag']
    simp only [List.getD, List.getElem?_zipWith, hag, hag', Option.getD_some]
    unfold rewardL2
    by_cases e1 : isConnected s.agents[i] <;> by_cases e2 : isConnected (step cfg s a).1.agents[i] <;>
      simp [e1, e2]
  · intro h
    rw [connectedAt_of hag] at h
    have hfro := connected_frozen cfg s a hi hag hai (of_decide_eq_true h)
    rw [connectedAt_of hfro]; exact h

theorem returnL1_flags (cfg : Cfg) (hk : 0 < cfg.k) {i : Nat} (hi : i < cfg.k) (actss : List (List Int)) :
    ∀ (s0 : State), (∀ acts ∈ actss, acts.length = cfg.k ∧ ∀ a ∈ acts, 0 ≤ a ∧ a ≤ 4) →
      Consistent cfg.n cfg.k s0 →
      returnL1 cfg s0 actss i = episodeReturn cfg.connectedReward cfg.timestepReward
          ((traceL2 cfg s0 actss).map (fun s => connectedAt s i)) ∧
        monotone ((traceL2 cfg s0 actss).map (fun s => connectedAt s i)) := by
  induction actss with
  | nil => intro s0 _ _; simp [returnL1, traceL2, episodeReturn, monotone]
  | cons a rest ih =>
    intro s0 hspec hc
    have sp := hspec a (by simp)
    have href := step_eq_stepL2 cfg s0 a hc hk sp.1 sp.2
    have hc' := step_consistent cfg s0 a hc hk sp.1 sp.2
    obtain ⟨hrew, hmono⟩ := reward_term cfg s0 a hc hk sp.1 sp.2 hi
    obtain ⟨ih1, ih2⟩ := ih (step cfg s0 a).1 (fun x hx => hspec x (by simp [hx])) hc'
    obtain ⟨tl, e⟩ := traceL2_head cfg (step cfg s0 a).1 rest
    simp only [traceL2, returnL1, ← href]
    rw [e] at ih1 ih2 ⊢
    simp only [List.map_cons] at ih1 ih2 ⊢
    constructor
    · rw [ih1, hrew]; rfl
    · exact ⟨hmono, ih2⟩

/-- C08: for ANY episode of in-spec joint actions from a consistent state, the rewards agent `i` receives from the
implementation model add up to the documented objective: `connected_reward` if it got connected during the
episode plus `timestep_reward` for every step it started unconnected -/
theorem episode_return_eq_objective (cfg : Cfg) (hk : 0 < cfg.k) (actss : List (List Int))
    (hspec : ∀ acts ∈ actss, acts.length = cfg.k ∧ ∀ a ∈ acts, 0 ≤ a ∧ a ≤ 4) (s0 : State)
    (hc : Consistent cfg.n cfg.k s0) {i : Nat} (hi : i < cfg.k) :
    returnL1 cfg s0 actss i = objectiveOf cfg (traceL2 cfg s0 actss) i := by
  obtain ⟨h1, h2⟩ := returnL1_flags cfg hk hi actss s0 hspec hc
  rw [h1, objectiveOf_eq, episodeReturn_closed _ _ _ h2]

/-- the objective of an episode at whose end agent `i` is connected -/
theorem objective_connected (cfg : Cfg) (s0 : State) (actss : List (List Int)) (i : Nat)
    (h : connectedAt (finalL2 cfg s0 actss) i = true) :
    objectiveOf cfg (traceL2 cfg s0 actss) i =
      (if connectedAt s0 i then 0 else cfg.connectedReward) +
        cfg.timestepReward *
          ((((traceL2 cfg s0 actss).dropLast).filter (fun s => !connectedAt s i)).length : Nat) := by
  unfold objectiveOf
  obtain ⟨tl, e⟩ := traceL2_head cfg s0 actss
  have hl := traceL2_getLast cfg s0 actss
  rw [hl]
  rw [e]
  simp only [List.head?_cons, h]
  cases connectedAt s0 i <;> simp

/-- C08 for the solving episode: every agent's return is the documented objective, which here is
`connected_reward` (unless it was connected from the start) plus `timestep_reward` for every step it started
unconnected -/
theorem plan_return (cfg : Cfg) (s0 : State) (routes : List (List Pos)) (P : Plan cfg.n cfg.k s0 routes)
    {i : Nat} (hi : i < cfg.k) :
    returnL1 cfg s0 (planActs cfg.k routes) i = objectiveOf cfg (traceL2 cfg s0 (planActs cfg.k routes)) i ∧
    objectiveOf cfg (traceL2 cfg s0 (planActs cfg.k routes)) i =
      (if connectedAt s0 i then 0 else cfg.connectedReward) +
        cfg.timestepReward *
          ((((traceL2 cfg s0 (planActs cfg.k routes)).dropLast).filter (fun s => !connectedAt s i)).length : Nat) := by
  have hk : 0 < cfg.k := by omega
  obtain ⟨ok, hall⟩ := plan_solves cfg s0 routes P
  refine ⟨episode_return_eq_objective cfg hk _ (plan_spec cfg s0 routes P) s0 ((consistent_iff _ _ _).2 P.cons) hi,
    objective_connected cfg s0 _ i ?_⟩
  -- the final state is consistent: it has `k` agents, all connected
  have hcT : Consistent cfg.n cfg.k (finalL2 cfg s0 (planActs cfg.k routes)) :=
    consistent_along cfg hk _ (plan_spec cfg s0 routes P) s0 ((consistent_iff _ _ _).2 P.cons) _
      (finalL2_mem_trace cfg s0 _)
  have cT := (consistent_iff _ _ _).1 hcT
  have h1 : i < (finalL2 cfg s0 (planActs cfg.k routes)).agents.length := by rw [cT.len]; exact hi
  have hag := List.getElem?_eq_getElem h1
  rw [connectedAt_of hag]
  exact decide_eq_true (hall _ (List.mem_of_getElem? hag))

/-! ### the explicit number of penalised steps in the solving episode -/

/-- the number of steps of the episode that agent `i` starts unconnected -/
def openCount (cfg : Cfg) : State → List (List Int) → Nat → Nat
  | _, [], _ => 0
  | s, a :: rest, i => (if connectedAt s i then 0 else 1) + openCount cfg (stepL2 cfg s a).1 rest i

theorem openCount_eq (cfg : Cfg) (s : State) (actss : List (List Int)) (i : Nat) :
    (((traceL2 cfg s actss).dropLast).filter (fun s => !connectedAt s i)).length = openCount cfg s actss i := by
  induction actss generalizing s with
  | nil => simp [traceL2, openCount]
  | cons a rest ih =>
    obtain ⟨tl, e⟩ := traceL2_head cfg (stepL2 cfg s a).1 rest
    have := ih (stepL2 cfg s a).1
    simp only [traceL2, openCount]
    rw [e] at this ⊢
    rw [List.dropLast_cons_cons, List.filter_cons]
    cases connectedAt s i <;> simp [this] <;> omega

theorem openCount_append (cfg : Cfg) (s : State) (A B : List (List Int)) (i : Nat) :
    openCount cfg s (A ++ B) i = openCount cfg s A i + openCount cfg (finalL2 cfg s A) B i := by
  induction A generalizing s with
  | nil => simp [openCount, finalL2]
  | cons a A ih => simp only [List.cons_append, openCount, finalL2, ih]; omega

/-- a connected agent stays connected: it starts no further step unconnected -/
theorem openCount_connected (cfg : Cfg) (hk : 0 < cfg.k) {i : Nat} (hi : i < cfg.k) (actss : List (List Int)) :
    ∀ (s : State), (∀ acts ∈ actss, acts.length = cfg.k ∧ ∀ a ∈ acts, 0 ≤ a ∧ a ≤ 4) →
      Consistent cfg.n cfg.k s → connectedAt s i = true → openCount cfg s actss i = 0 := by
  induction actss with
  | nil => intro s _ _ _; rfl
  | cons a rest ih =>
    intro s hspec hc hcon
    have sp := hspec a (by simp)
    have href := step_eq_stepL2 cfg s a hc hk sp.1 sp.2
    have hc' := step_consistent cfg s a hc hk sp.1 sp.2
    have hcon' := (reward_term cfg s a hc hk sp.1 sp.2 hi).2 hcon
    rw [href] at hc' hcon'
    simp only [openCount, hcon, if_true, Nat.zero_add]
    exact ih _ (fun x hx => hspec x (by simp [hx])) hc' hcon'

/-- while agent `j` walks its route `r` (`|r| − 1` steps) it is unconnected at the start of every step; every
other agent keeps its connected flag -/
theorem walk_count (cfg : Cfg) (j : Nat) (hj : j < cfg.k) (r : List Pos) :
    ∀ (s : State) (routes : List (List Pos)), Plan cfg.n cfg.k s routes → routes[j]? = some r →
      openCount cfg s (walkActs cfg.k j r) j = r.length - 1 ∧
      ∀ i, i ≠ j → i < cfg.k →
        openCount cfg s (walkActs cfg.k j r) i = (if connectedAt s i then 0 else r.length - 1) ∧
        connectedAt (finalL2 cfg s (walkActs cfg.k j r)) i = connectedAt s i := by
  induction r with
  | nil =>
    intro s routes P hr
    obtain ⟨ag, r, hag, hr', R⟩ := P.lookup hj
    rw [hr] at hr'; cases hr'
    have := R.head; simp at this
  | cons p t ih =>
    cases t with
    | nil =>
      intro s routes P hr
      refine ⟨rfl, fun i _ _ => ⟨?_, rfl⟩⟩
      simp [walkActs, openCount]
    | cons q rest =>
      intro s routes P hr
      obtain ⟨ag, r, hag, hr', R⟩ := P.lookup hj
      rw [hr] at hr'; cases hr'
      have S : Solo cfg.n cfg.k s routes j ag p q rest := ⟨P, hag, hr⟩
      have hl : j < routes.length := lt_of_getElem? hr
      obtain ⟨ihj, ihi⟩ :=
        ih (stepL2 cfg s (soloAct cfg.k j (dirAct p q))).1 (routes.set j (q :: rest)) S.plan_next
          (List.getElem?_set_self hl)
      have hcj : connectedAt s j = false := by
        rw [connectedAt_of hag]; exact decide_eq_false S.next.2.2.1
      constructor
      · simp only [walkActs, openCount, hcj, ihj]
        simp
        omega
      · intro i hne hi
        obtain ⟨agi, _, hagi, _, _⟩ := P.lookup hi
        have hsame : connectedAt (stepL2 cfg s (soloAct cfg.k j (dirAct p q))).1 i = connectedAt s i := by
          rw [stepL2_state, connectedAt_of (S.agent_ne hagi hne), connectedAt_of hagi]
        obtain ⟨h1, h2⟩ := ihi i hne hi
        constructor
        · simp only [walkActs, openCount, h1, hsame]
          cases connectedAt s i <;> simp
          omega
        · simp only [walkActs, finalL2, h2, hsame]

/-- in a state with a route plan a connected agent's remaining route is a single cell -/
theorem Plan.connected_route {n k : Nat} {s : State} {routes : List (List Pos)} (P : Plan n k s routes)
    {i : Nat} {ag : Agent} {r : List Pos} (hag : s.agents[i]? = some ag) (hr : routes[i]? = some r)
    (hc : isConnected ag) : r.length = 1 := by
  have R := P.route i ag r hag hr
  match r, R with
  | [], R => have := R.head; simp at this
  | [_], _ => rfl
  | p :: q :: rest, R => exact absurd hc (route_next (P.cons.agent i ag hag) R).2.2.1

/-- the steps agents `i0, …, k-1` take: agent `i ≥ i0` starts `Σ_{i0 ≤ j ≤ i} (|r_j| − 1)` of them unconnected
(none if it is connected already) -/
theorem plan_count (cfg : Cfg) (routes0 : List (List Pos)) :
    ∀ (m i0 : Nat) (s : State) (routes : List (List Pos)), i0 + m = cfg.k → Plan cfg.n cfg.k s routes →
      (∀ j, j < i0 → ∃ x, routes[j]? = some [x]) → (∀ j, i0 ≤ j → routes[j]? = routes0[j]?) →
      ∀ i, i0 ≤ i → i < cfg.k →
        openCount cfg s (planFrom cfg.k routes0 m i0) i =
          if connectedAt s i then 0
          else ((List.range (i + 1 - i0)).map (fun d => (routes0.getD (i0 + d) []).length - 1)).sum := by
  intro m
  induction m with
  | zero => intro i0 s routes him _ _ _ i h1 h2; omega
  | succ m ih =>
    intro i0 s routes him P hdone hsame i hi0 hik
    have hi : i0 < cfg.k := by omega
    have hk : 0 < cfg.k := by omega
    have hl : i0 < routes.length := by rw [P.len]; exact hi
    have hr : routes[i0]? = some (routes0.getD i0 []) := by
      have h0 := hsame i0 (Nat.le_refl _)
      have : routes[i0]? = some routes[i0] := List.getElem?_eq_getElem hl
      rw [this] at h0 ⊢
      simp [List.getD, ← h0]
    obtain ⟨ok1, routes1, P1, ⟨x, hx⟩, hs1⟩ := walk_ok cfg i0 hi _ s routes P hr
    obtain ⟨wj, wi⟩ := walk_count cfg i0 hi _ s routes P hr
    have hdone1 : ∀ j, j < i0 + 1 → ∃ x, routes1[j]? = some [x] := fun j hj => by
      by_cases e : j = i0
      · subst e; exact ⟨x, hx⟩
      · rw [hs1 j e]; exact hdone j (by omega)
    have hsame1 : ∀ j, i0 + 1 ≤ j → routes1[j]? = routes0[j]? := fun j hj => by
      rw [hs1 j (by omega)]; exact hsame j (by omega)
    unfold planFrom
    rw [openCount_append]
    rcases Nat.eq_or_lt_of_le hi0 with e | hlt
    · subst e
      -- the walking agent itself: connected afterwards
      obtain ⟨ok2, _⟩ := plan_ok cfg routes0 m (i0 + 1) _ routes1 (by omega) P1 hdone1 hsame1
      have hspec2 : ∀ acts ∈ planFrom cfg.k routes0 m (i0 + 1), acts.length = cfg.k ∧ ∀ a ∈ acts, 0 ≤ a ∧ a ≤ 4 := by
        intro acts hacts
        obtain ⟨s', G⟩ := runOK_mem ok2 acts hacts
        exact ⟨G.len, G.spec⟩
      obtain ⟨ag1, r1, hag1, hr1, R1⟩ := P1.lookup hi
      rw [hx] at hr1; cases hr1
      have hcon1 : connectedAt (finalL2 cfg s (walkActs cfg.k i0 (routes0.getD i0 []))) i0 = true := by
        rw [connectedAt_of hag1]
        have h1 := R1.head; have h2 := R1.last
        simp at h1 h2
        exact decide_eq_true (show ag1.position = ag1.target by rw [← h1, ← h2])
      rw [wj, openCount_connected cfg hk hi _ _ hspec2 ((consistent_iff _ _ _).2 P1.cons) hcon1]
      obtain ⟨ag, r, hag, hr', _⟩ := P.lookup hi
      rw [hr] at hr'; cases hr'
      cases hc : connectedAt s i0 with
      | true =>
        rw [connectedAt_of hag] at hc
        have := P.connected_route hag hr (of_decide_eq_true hc)
        simp only [if_true, Nat.add_zero]
        omega
      | false =>
        rw [show i0 + 1 - i0 = 1 by omega]
        simp
    · obtain ⟨w1, w2⟩ := wi i (by omega) hik
      have := ih (i0 + 1) _ routes1 (by omega) P1 hdone1 hsame1 i (by omega) hik
      rw [w1, this, w2]
      cases connectedAt s i with
      | true => simp
      | false =>
        rw [show i + 1 - i0 = (i + 1 - (i0 + 1)) + 1 by omega, List.range_succ_eq_map]
        simp only [Bool.false_eq_true, if_false, List.map_cons, List.sum_cons, List.map_map, Nat.add_zero]
        congr 2
        apply List.map_congr_left
        intro d _
        simp only [Function.comp]
        rw [show i0 + 1 + d = i0 + (d + 1) by omega]

/-- C08, explicit: in the solving episode agent `i` pays the time penalty for the steps of agents `0 … i`
(`|r_j| − 1` steps each) and then collects the connection reward -/
theorem plan_return_explicit (cfg : Cfg) (s0 : State) (routes : List (List Pos)) (P : Plan cfg.n cfg.k s0 routes)
    {i : Nat} (hi : i < cfg.k) :
    returnL1 cfg s0 (planActs cfg.k routes) i =
      if connectedAt s0 i then 0
      else cfg.connectedReward + cfg.timestepReward *
        ((((List.range (i + 1)).map (fun j => (routes.getD j []).length - 1)).sum : Nat) : Rat) := by
  obtain ⟨h1, h2⟩ := plan_return cfg s0 routes P hi
  have hc := plan_count cfg routes cfg.k 0 s0 routes (by omega) P (fun j hj => by omega) (fun _ _ => rfl) i
    (Nat.zero_le _) hi
  rw [h1, h2, openCount_eq]
  unfold planActs
  rw [hc]
  cases connectedAt s0 i with
  | true =>
    simp only [if_true]
    rw [show ((0 : Nat) : Rat) = 0 from rfl, Rat.mul_zero, Rat.add_zero]
  | false => simp

end Connector
