/-
Connector (jumanji/environments/routing/connector/{env,utils,reward,types,constants,generator}.py).
Import-free.

L1 = transliteration of `step`, `_step_agents`, `_step_agent`, `_get_action_mask`, `move_position`,
`move_agent`, `is_valid_position`, `connected_or_blocked`, `get_agent_grid`, `get_correction_mask`,
`DenseRewardFn` (same index arithmetic: gathers wrap+clamp, scatters wrap+drop, `lax.switch` clamps its
index, the per-agent grids are joined with `max` and repaired with the correction mask).
L2 = the rules as documented (docs/environments/connector.md, the class docstring): every agent has a
head (`2+3·id`), a target (`3+3·id`) and leaves a path (`1+3·id`); an agent may move to a 4-neighbour
cell inside the grid that is empty or its own target, unless it is already connected; all agents move
simultaneously and when several want the same cell the one with the highest id gets it, the others
stay; reward `+1` on the step an agent connects, `-0.03` on every step it starts unconnected.
-/
import JumanjiModel.Prim.Idx
import JumanjiModel.Prim.Grid
import JumanjiModel.Core.TimeStep
namespace Connector
open Jm Jx

abbrev Pos := Int × Int

structure Agent where
  id : Int
  start : Pos
  target : Pos
  position : Pos
  deriving Repr, DecidableEq

structure State where
  grid : Grid Int
  stepCount : Int
  agents : List Agent
  deriving Repr, DecidableEq

structure Obs where
  grid : Grid Int
  actionMask : List (List Bool)
  stepCount : Int
  deriving Repr, DecidableEq

structure Cfg where
  n : Nat                    -- generator.grid_size
  k : Nat                    -- generator.num_agents
  timeLimit : Int
  connectedReward : Rat      -- DenseRewardFn.connected_reward
  timestepReward : Rat       -- DenseRewardFn.timestep_reward
  deriving Repr

/-! ### L1 -/

/-- `utils.get_path / get_position / get_target` -/
def pathVal (id : Int) : Int := 1 + 3 * id
def posVal (id : Int) : Int := 2 + 3 * id
def tgtVal (id : Int) : Int := 3 + 3 * id

/-- `Agent.connected`: `jnp.all(position == target)` -/
def Agent.connected (ag : Agent) : Bool := ag.position.1 == ag.target.1 && ag.position.2 == ag.target.2

/-- `move_position`: `lax.switch(action, [noop, up, right, down, left])` (the index is clamped) -/
def movePosition (p : Pos) (a : Int) : Pos :=
  if a ≤ 0 then p
  else if a = 1 then (p.1 - 1, p.2)
  else if a = 2 then (p.1, p.2 + 1)
  else if a = 3 then (p.1 + 1, p.2)
  else (p.1, p.2 - 1)

/-- `is_valid_position` (`grid_size = grid.shape[0]`; `grid[row, col]` is a clamping gather) -/
def isValidPosition (g : Grid Int) (ag : Agent) (p : Pos) : Bool :=
  let n : Int := g.length
  let inBounds := decide (0 ≤ p.1) && decide (p.1 < n) && decide (0 ≤ p.2) && decide (p.2 < n)
  let v := Grid.getWC g 0 p.1 p.2
  let openCell := v == 0 || v == tgtVal ag.id
  inBounds && openCell && !ag.connected

/-- `move_agent` -/
def moveAgent (ag : Agent) (g : Grid Int) (np : Pos) : Agent × Grid Int :=
  let g1 := Grid.setWD g np.1 np.2 (posVal ag.id)
  let g2 := Grid.setWD g1 ag.position.1 ag.position.2 (pathVal ag.id)
  ({ ag with position := np }, g2)

/-- `_step_agent` -/
def stepAgent (g : Grid Int) (ag : Agent) (a : Int) : Agent × Grid Int :=
  let np := movePosition ag.position a
  if isValidPosition g ag np && a != 0 then moveAgent ag g np else (ag, g)

/-- one cell of `get_agent_grid` -/
def agentCell (id : Int) (v : Int) : Int :=
  (if v = posVal id then posVal id else 0) + (if v = tgtVal id then tgtVal id else 0) +
  (if v = pathVal id then pathVal id else 0)

def getAgentGrid (id : Int) (g : Grid Int) : Grid Int := Grid.map (agentCell id) g

/-- `jnp.max(agent_grids, 0)` (one grid per agent; at least one agent) -/
def joinGrids : List (Grid Int) → Grid Int
  | [] => []
  | g :: gs => gs.foldl (Grid.zipWith max) g

/-- `get_correction_mask`: `(mask, has_collision)` -/
def hasCollision (joined : Grid Int) (id : Int) : Bool := !(Grid.any (fun v => v == posVal id) joined)

def correctionMask (old joined : Grid Int) (id : Int) : Grid Int :=
  let c : Int := if hasCollision joined id then 1 else 0
  Grid.map (fun v => (if v = posVal id then (2 - 1 : Int) else 0) * c) old

/-- `jnp.sum(correction_masks, 0)` -/
def sumGrids (zero : Grid Int) (gs : List (Grid Int)) : Grid Int := gs.foldl (Grid.zipWith (· + ·)) zero

/-- agent ids `jnp.arange(num_agents)` as integers -/
def agentIds (k : Nat) : List Int := (List.range k).map (fun (i : Nat) => (i : Int))

/-- `_step_agents`, after the vmapped `_step_agent`: join the per-agent grids, detect collisions, repair -/
def resolve (k : Nat) (s : State) (stepped : List (Agent × Grid Int)) : List Agent × Grid Int :=
  let ids := agentIds k
  let agentGrids := List.zipWith (fun id (x : Agent × Grid Int) => getAgentGrid id x.2) ids stepped
  let joined := joinGrids agentGrids
  let collided := ids.map (hasCollision joined)
  let masks := ids.map (correctionMask s.grid joined)
  let corr := sumGrids (Grid.map (fun _ => (0 : Int)) s.grid) masks
  let agents := List.zipWith (fun (c : Bool) (on : Agent × Agent) => if c then on.1 else on.2) collided
                  (List.zipWith (fun o (x : Agent × Grid Int) => (o, x.1)) s.agents stepped)
  (agents, Grid.zipWith (· + ·) joined corr)

/-- the vmapped `_step_agent` -/
def stepEach (s : State) (acts : List Int) : List (Agent × Grid Int) :=
  List.zipWith (fun ag a => stepAgent s.grid ag a) s.agents acts

/-- `_step_agents` -/
def stepAgents (k : Nat) (s : State) (acts : List Int) : List Agent × Grid Int :=
  resolve k s (stepEach s acts)

/-- `_get_action_mask` for one agent -/
def agentMask (g : Grid Int) (ag : Agent) : List Bool :=
  true :: ([1, 2, 3, 4] : List Int).map (fun a => isValidPosition g ag (movePosition ag.position a))

def actionMask (g : Grid Int) (agents : List Agent) : List (List Bool) := agents.map (agentMask g)

/-- `connected_or_blocked` -/
def connectedOrBlocked (ag : Agent) (mask : List Bool) : Bool := ag.connected || !((mask.drop 1).any id)

def b2r (b : Bool) : Rat := if b then 1 else 0

/-- `DenseRewardFn.__call__` -/
def denseReward (cfg : Cfg) (old new : List Agent) : List Rat :=
  List.zipWith (fun (o n : Agent) =>
    cfg.connectedReward * b2r (!o.connected && n.connected) + cfg.timestepReward * b2r (!o.connected)) old new

def observeL1 (s : State) : Obs :=
  { grid := s.grid, actionMask := actionMask s.grid s.agents, stepCount := s.stepCount }

/-- `Connector.step` after `_step_agents` -/
def finish (cfg : Cfg) (s : State) (ag : List Agent × Grid Int) : State × TimeStep Obs :=
  let agents := ag.1
  let grid := ag.2
  let s' : State := { grid := grid, stepCount := s.stepCount + 1, agents := agents }
  let reward := denseReward cfg s.agents agents
  let mask := actionMask grid agents
  let obs : Obs := { grid := grid, actionMask := mask, stepCount := s'.stepCount }
  let done := List.zipWith connectedOrBlocked agents mask
  let discount := done.map (fun d => (1 : Rat) - b2r d)
  let last := done.all id || decide (s'.stepCount ≥ cfg.timeLimit)
  (s', condLastDiscount last reward obs discount (some cfg.k))

/-- `Connector.step` -/
def step (cfg : Cfg) (s : State) (acts : List Int) : State × TimeStep Obs :=
  finish cfg s (stepAgents cfg.k s acts)

/-- the timestep of `reset` on a generated state -/
def resetTs (cfg : Cfg) (s : State) : TimeStep Obs := restart (observeL1 s) (some cfg.k)

/-! ### L2: the rules -/

/-- the four moves: 1 up, 2 right, 3 down, 4 left (row, column) -/
def dir : Nat → Option Pos
  | 1 => some (-1, 0) | 2 => some (0, 1) | 3 => some (1, 0) | 4 => some (0, -1) | _ => none

def inGrid (n : Nat) (p : Pos) : Prop := 0 ≤ p.1 ∧ p.1 < (n : Int) ∧ 0 ≤ p.2 ∧ p.2 < (n : Int)
instance (n : Nat) (p : Pos) : Decidable (inGrid n p) := by unfold inGrid; infer_instance

/-- plain lookup of a cell that lies inside the grid -/
def cell (g : Grid Int) (p : Pos) : Int := Grid.get g 0 p.1.toNat p.2.toNat

def isConnected (ag : Agent) : Prop := ag.position = ag.target
instance (ag : Agent) : Decidable (isConnected ag) := by unfold isConnected; infer_instance

/-- an agent may enter cell `p` iff `p` is inside the `n × n` grid, is empty or holds the agent's own
target, and the agent is not connected yet -/
def canEnter (n : Nat) (g : Grid Int) (ag : Agent) (p : Pos) : Prop :=
  inGrid n p ∧ (cell g p = 0 ∨ cell g p = tgtVal ag.id) ∧ ¬ isConnected ag
instance (n : Nat) (g : Grid Int) (ag : Agent) (p : Pos) : Decidable (canEnter n g ag p) := by
  unfold canEnter; infer_instance

/-- legality of action `a` for agent number `i`: the no-op is always allowed; a move is allowed iff the
agent exists and can enter the neighbouring cell in that direction -/
def legal (n : Nat) (s : State) (i a : Nat) : Prop :=
  a = 0 ∨ ∃ d, dir a = some d ∧ ∃ ag, s.agents[i]? = some ag ∧
    canEnter n s.grid ag (ag.position.1 + d.1, ag.position.2 + d.2)

instance (n : Nat) (s : State) (i a : Nat) : Decidable (legal n s i a) := by
  unfold legal
  cases dir a with
  | none => exact decidable_of_iff (a = 0) (by simp)
  | some d =>
    cases s.agents[i]? with
    | none => exact decidable_of_iff (a = 0) (by simp)
    | some ag =>
      exact decidable_of_iff (a = 0 ∨ canEnter n s.grid ag (ag.position.1 + d.1, ag.position.2 + d.2)) (by simp)

/-- legality of an action given as an integer of the action spec `0..4` (anything else is illegal) -/
def legalInt (n : Nat) (s : State) (i : Nat) (a : Int) : Bool :=
  decide (0 ≤ a) && decide (legal n s i a.toNat)

/-- documented observation: the grid, per agent the legality of the five actions, the step count -/
def observe (n : Nat) (s : State) : Obs :=
  { grid := s.grid,
    actionMask := (List.range s.agents.length).map (fun i => (List.range 5).map (fun a => decide (legal n s i a))),
    stepCount := s.stepCount }

/-- the cell an agent asks for: `some destination` iff its action is a legal move (not the no-op) -/
def proposal (n : Nat) (g : Grid Int) (ag : Agent) (a : Int) : Option Pos :=
  match dir a.toNat with
  | none => none
  | some d =>
    let p : Pos := (ag.position.1 + d.1, ag.position.2 + d.2)
    if 0 < a ∧ canEnter n g ag p then some p else none

/-- agent `i` gets its cell iff no agent with a higher index asks for the same cell -/
def wins (props : List (Option Pos)) (i : Nat) : Option Pos :=
  match props[i]? with
  | some (some p) => if (props.drop (i + 1)).any (fun q => q == some p) then none else some p
  | _ => none

def setCell (g : Grid Int) (p : Pos) (v : Int) : Grid Int := Grid.set g p.1.toNat p.2.toNat v

/-- apply the moves of the winners one after the other: the old head cell becomes path, the new cell head -/
def applyMoves (g : Grid Int) : List (Agent × Option Pos) → Grid Int
  | [] => g
  | (_, none) :: rest => applyMoves g rest
  | (ag, some p) :: rest => applyMoves (setCell (setCell g p (posVal ag.id)) ag.position (pathVal ag.id)) rest

def moved (ag : Agent) : Option Pos → Agent
  | none => ag
  | some p => { ag with position := p }

/-- rule-level transition of the agents and the grid -/
def stepAgentsL2 (n : Nat) (s : State) (acts : List Int) : List Agent × Grid Int :=
  let props := List.zipWith (proposal n s.grid) s.agents acts
  let won := (List.range props.length).map (wins props)
  let aw := List.zip s.agents won
  (aw.map (fun x => moved x.1 x.2), applyMoves s.grid aw)

/-- documented dense reward of one agent -/
def rewardL2 (cfg : Cfg) (o n : Agent) : Rat :=
  (if ¬ isConnected o ∧ isConnected n then cfg.connectedReward else 0) +
  (if ¬ isConnected o then cfg.timestepReward else 0)

/-- an agent is finished when it is connected or has no legal move -/
def finished (n : Nat) (s : State) (i : Nat) : Bool :=
  (match s.agents[i]? with | some ag => decide (isConnected ag) | none => false) ||
  !(([1, 2, 3, 4] : List Nat).any (fun a => decide (legal n s i a)))

/-- rule-level step: simultaneous moves, per-agent reward and discount, the episode ends when every
agent is finished or at the time limit -/
def stepL2 (cfg : Cfg) (s : State) (acts : List Int) : State × TimeStep Obs :=
  let (agents, grid) := stepAgentsL2 cfg.n s acts
  let s' : State := { grid := grid, stepCount := s.stepCount + 1, agents := agents }
  let reward := List.zipWith (rewardL2 cfg) s.agents agents
  let fin := (List.range agents.length).map (finished cfg.n s')
  let last := fin.all id || decide (cfg.timeLimit ≤ s'.stepCount)
  let ts : TimeStep Obs :=
    { stepType := if last then .last else .mid, reward := reward,
      discount := if last then List.replicate cfg.k 0 else fin.map (fun f => if f then 0 else 1),
      obs := observe cfg.n s' }
  (s', ts)

/-! ### Invariants (recomputed from the raw state arrays) -/

def countVal (g : Grid Int) (v : Int) : Nat := Grid.count (fun x => x == v) g

/-- C07: the state is a physically possible configuration of agent number `i` -/
def agentConsistent (n : Nat) (g : Grid Int) (i : Nat) (ag : Agent) : Bool :=
  ag.id == (i : Int) && decide (inGrid n ag.position) && decide (inGrid n ag.target) && decide (inGrid n ag.start) &&
  cell g ag.position == posVal ag.id && countVal g (posVal ag.id) == 1 &&
  (if ag.position = ag.target then countVal g (tgtVal ag.id) == 0
   else cell g ag.target == tgtVal ag.id && countVal g (tgtVal ag.id) == 1) &&
  (if ag.start = ag.position then countVal g (pathVal ag.id) == 0 else cell g ag.start == pathVal ag.id)

/-- C07 `Consistent`: the grid is `n × n`, there are `k` agents numbered `0..k-1`, all stored positions
lie inside the grid, each agent has exactly one head cell and it is at `agents.position`, exactly one
target cell at `agents.target` unless connected (then none), its start cell is its head or a path cell,
and every non-empty cell belongs to one of the `k` agents.  (Occupancy: since the unique head / target
cells are at the stored positions, no two agents share a head or target cell.) -/
def consistentB (n k : Nat) (s : State) : Bool :=
  Grid.shaped s.grid n n && s.agents.length == k &&
  (List.zipIdx s.agents).all (fun x => agentConsistent n s.grid x.2 x.1) &&
  Grid.all (fun v => decide (0 ≤ v) && decide (v ≤ 3 * (k : Int))) s.grid && decide (0 ≤ s.stepCount)

def Consistent (n k : Nat) (s : State) : Prop := consistentB n k s = true
instance (n k : Nat) (s : State) : Decidable (Consistent n k s) := by unfold Consistent; infer_instance

def adjacent (p q : Pos) : Bool :=
  (p.1 == q.1 && (p.2 + 1 == q.2 || q.2 + 1 == p.2)) || (p.2 == q.2 && (p.1 + 1 == q.1 || q.1 + 1 == p.1))

def neighbours (p : Pos) : List Pos := [(p.1 - 1, p.2), (p.1, p.2 + 1), (p.1 + 1, p.2), (p.1, p.2 - 1)]

/-- a route: consecutive cells 4-adjacent, no cell twice -/
def isChain : List Pos → Bool
  | [] => true
  | [_] => true
  | p :: q :: rest => adjacent p q && isChain (q :: rest)

/-- `r` is a route from `a` to `b` inside the grid whose inner cells all hold `pv` and that uses `m` inner
cells -/
def isRoute (n : Nat) (g : Grid Int) (pv : Int) (a b : Pos) (m : Nat) (r : List Pos) : Bool :=
  r.head? == some a && r.getLast? == some b && isChain r && r.Nodup && r.length == m + 2 &&
  r.all (fun p => decide (inGrid n p)) && ((r.drop 1).take m).all (fun p => cell g p == pv)

/-- depth-first search for a route from `cur` through exactly `m` further `pv`-cells to `b` -/
def searchRoute (n : Nat) (g : Grid Int) (pv : Int) (b : Pos) : Nat → Pos → List Pos → Option (List Pos)
  | 0, cur, _ => if adjacent cur b then some [cur, b] else none
  | m + 1, cur, seen =>
    (neighbours cur).firstM (fun q =>
      if decide (inGrid n q) && cell g q == pv && !(seen.contains q) && q != b then
        (searchRoute n g pv b m q (q :: seen)).map (fun r => cur :: r)
      else none)

/-- the cells of agent `ag` form a path: its path cells, in some order, are a chain of 4-adjacent cells
from `start` to the head that uses every path cell exactly once -/
def agentRouteB (n : Nat) (g : Grid Int) (ag : Agent) : Bool :=
  if ag.start = ag.position then countVal g (pathVal ag.id) == 0
  else
    let m := countVal g (pathVal ag.id) - 1     -- inner cells: the path cells other than the start
    match searchRoute n g (pathVal ag.id) ag.position m ag.start [ag.start] with
    | some r => isRoute n g (pathVal ag.id) ag.start ag.position m r
    | none => false

/-- C06 `Feasible`: consistent, and every agent's cells form a path from its start to its head.
(Paths, heads and targets of different agents never share a cell: every cell holds one value, and by
consistency the heads / targets stored in `agents` are where the grid says.) -/
def feasibleB (n k : Nat) (s : State) : Bool :=
  consistentB n k s && s.agents.all (agentRouteB n s.grid)

def Feasible (n k : Nat) (s : State) : Prop := feasibleB n k s = true

/-- complete solution: feasible and every agent connected -/
def solutionB (n k : Nat) (s : State) : Bool := feasibleB n k s && s.agents.all (fun ag => decide (isConnected ag))

/-- the states an episode passes through under the rules: `[s₀, s₁, …, s_T]` -/
def traceL2 (cfg : Cfg) : State → List (List Int) → List State
  | s, [] => [s]
  | s, a :: rest => s :: traceL2 cfg (stepL2 cfg s a).1 rest

def agentAt (s : State) (i : Nat) : Option Agent := s.agents[i]?

def connectedAt (s : State) (i : Nat) : Bool :=
  match s.agents[i]? with | some ag => decide (isConnected ag) | none => false

/-- C08 objective of agent `i` over the states `[s₀ … s_T]` of an episode: `connected_reward` if it got
connected during the episode, plus `timestep_reward` for every step it started unconnected -/
def objectiveOf (cfg : Cfg) (tr : List State) (i : Nat) : Rat :=
  match tr.head?, tr.getLast? with
  | some s0, some sT =>
    (if !connectedAt s0 i && connectedAt sT i then cfg.connectedReward else 0) +
    cfg.timestepReward * (((tr.dropLast).filter (fun s => !connectedAt s i)).length : Nat)
  | _, _ => 0

def objective (cfg : Cfg) (s0 : State) (acts : List (List Int)) : List Rat :=
  (List.range cfg.k).map (objectiveOf cfg (traceL2 cfg s0 acts))

/-! ### C05 / C07 judges on a transition -/

/-- replace every illegal action by the no-op -/
def sanitize (n : Nat) (s : State) (acts : List Int) : List Int :=
  (List.zipIdx acts).map (fun x => if legalInt n s x.2 x.1 then x.1 else 0)

/-- C05: the transition is the one the rules give when the illegal actions are replaced by no-ops, and the
offending agents are exactly where they were -/
def illegalOk (cfg : Cfg) (s : State) (acts : List Int) (s' : State) : Bool :=
  let r := (stepL2 cfg s (sanitize cfg.n s acts)).1
  decide (s'.grid = r.grid) && decide (s'.agents = r.agents) && decide (s'.stepCount = s.stepCount + 1) &&
  (List.zipIdx acts).all (fun x => legalInt cfg.n s x.2 x.1 || decide (s'.agents[x.2]? = s.agents[x.2]?))

def nonZero (g : Grid Int) : Nat := Grid.count (fun v => v != 0) g

/-- C07 occupancy bookkeeping: no occupied cell is ever freed or changes owner, every agent keeps its
identity and either stays or moves to a 4-neighbour, and the number of occupied cells grows by one for
every agent that moved to an empty cell (an agent entering its target occupies no new cell) -/
def conservedB (s s' : State) : Bool :=
  decide (s.grid.length = s'.grid.length) &&
  (List.zipWith (fun r r' => r.length == r'.length &&
      (List.zipWith (fun (v v' : Int) => v == 0 || (v' != 0 && (v - 1) / 3 == (v' - 1) / 3)) r r').all id)
    s.grid s'.grid).all id &&
  s.agents.length == s'.agents.length &&
  (List.zipWith (fun (o n : Agent) => o.id == n.id && o.start == n.start && o.target == n.target &&
      (o.position == n.position || adjacent o.position n.position)) s.agents s'.agents).all id &&
  nonZero s'.grid == nonZero s.grid +
    ((List.zipWith (fun (o n : Agent) => o.position != n.position && n.position != n.target) s.agents s'.agents).filter id).length

/-! ### C10: generator certificates -/

/-- a fresh board: consistent, nobody has moved, starts and targets are `2k` distinct cells -/
def freshB (n k : Nat) (s : State) : Bool :=
  consistentB n k s && s.stepCount == 0 && s.agents.all (fun ag => ag.start == ag.position) &&
  (s.agents.map (·.start) ++ s.agents.map (·.target)).Nodup &&
  nonZero s.grid == 2 * k

/-- the recorded solution of a random-walk board: in `solved`, agent `ag` has its head at `start`, its
target at `target` and its path cells form a route between them -/
def agentSolvedB (n : Nat) (solved : Grid Int) (ag : Agent) : Bool :=
  decide (inGrid n ag.start) && decide (inGrid n ag.target) &&
  cell solved ag.start == posVal ag.id && cell solved ag.target == tgtVal ag.id &&
  countVal solved (posVal ag.id) == 1 && countVal solved (tgtVal ag.id) == 1 &&
  (let m := countVal solved (pathVal ag.id)
   match searchRoute n solved (pathVal ag.id) ag.target m ag.start [ag.start] with
   | some r => isRoute n solved (pathVal ag.id) ag.start ag.target m r
   | none => false)

/-- every cell the recorded solution uses is free on the fresh board (or is the agent's own head/target) -/
def solvedBoardB (n k : Nat) (s : State) (solved : Grid Int) : Bool :=
  Grid.shaped solved n n && s.agents.all (agentSolvedB n solved) &&
  Grid.all (fun v => decide (0 ≤ v) && decide (v ≤ 3 * (k : Int))) solved &&
  (List.zipWith (fun r r' => (List.zipWith (fun (v v' : Int) => v == 0 || v == v') r r').all id) s.grid solved).all id

/-! ### L1: whole episodes of the transliterated `step` -/

/-- the states an episode passes through under the implementation model `step`: `[s₀, s₁, …, s_T]` -/
def traceL1 (cfg : Cfg) : State → List (List Int) → List State
  | s, [] => [s]
  | s, a :: rest => s :: traceL1 cfg (step cfg s a).1 rest

/-- the final state of an episode under the implementation model `step` -/
def finalL1 (cfg : Cfg) : State → List (List Int) → State
  | s, [] => s
  | s, a :: rest => finalL1 cfg (step cfg s a).1 rest

/-! ### L1: the generators (generator.py) -/

/-- `jnp.divmod(cell, grid_size)` (floor division) -/
def unflat (n : Nat) (c : Int) : Pos := (c / (n : Int), c % (n : Int))

/-- `jnp.zeros((grid_size, grid_size))` -/
def zeroGrid (n : Nat) : Grid Int := Grid.mk n n 0

/-- `grid.at[(rows, cols)].set(values)`: one scattered value per agent (wrap, then drop) -/
def scatter (g : Grid Int) (ps : List Pos) (vals : List Int) : Grid Int :=
  (List.zip ps vals).foldl (fun g x => Grid.setWD g x.1.1 x.1.2 x.2) g

/-- `jax.vmap(Agent)(id=arange(k), start=…, target=…, position=…)` -/
def mkAgents (k : Nat) (starts targets positions : List Pos) : List Agent :=
  (List.range k).map (fun (i : Nat) => ⟨(i : Int), starts.getD i (0, 0), targets.getD i (0, 0), positions.getD i (0, 0)⟩)

/-- the board both generators hand out: an empty grid with the head values at `starts` and the target values
at `targets`; every agent stands on its start; step count 0 -/
def emitBoard (n k : Nat) (starts targets : List Pos) : State :=
  let g1 := scatter (zeroGrid n) starts ((agentIds k).map posVal)
  let g2 := scatter g1 targets ((agentIds k).map tgtVal)
  { grid := g2, stepCount := 0, agents := mkAgents k starts targets starts }

/-- draw of `UniformRandomGenerator`: the result of `jax.random.choice(arange(n²), shape=(2, k), replace=False)`
in row-major order (the `k` start cells, then the `k` target cells): `2k` pairwise different cells `< n²` -/
def validUniformDraw (n k : Nat) (cells : List Nat) : Bool :=
  cells.length == 2 * k && decide cells.Nodup && cells.all (fun c => decide (c < n * n))

/-- `UniformRandomGenerator.__call__` -/
def uniformGenerate (n k : Nat) (cells : List Nat) : State :=
  emitBoard n k ((cells.take k).map (fun (c : Nat) => unflat n (c : Int))) ((cells.drop k).map (fun (c : Nat) => unflat n (c : Int)))

/-- the draw of `UniformRandomGenerator` read off a state it produced -/
def uniformDrawOf (n : Nat) (s : State) : List Nat :=
  s.agents.map (fun ag => (ag.start.1 * (n : Int) + ag.start.2).toNat) ++
  s.agents.map (fun ag => (ag.target.1 * (n : Int) + ag.target.2).toNat)

/-- `flat_grid.at[c].set(v)` on the flattened grid (wrap, then drop), reshaped back -/
def setFlat (n : Nat) (g : Grid Int) (c : Int) (v : Int) : Grid Int :=
  let j := wrapIdx (n * n) c
  if j < 0 then g else if j ≥ ((n * n : Nat) : Int) then g else Grid.set g (j.toNat / n) (j.toNat % n) v

/-- `grid[jnp.divmod(cell, grid_size)]` (gather: wrap, then clamp) -/
def getUnflat (n : Nat) (g : Grid Int) (c : Int) : Int := Grid.getWC g 0 (unflat n c).1 (unflat n c).2

/-- `_adjacent_cells`: the flat indices of the cells above, below, left and right; `-1` where that leaves the grid -/
def adjacentCells (n : Nat) (c : Int) : List Int :=
  ([-(n : Int), (n : Int), -1, 1] : List Int).map (fun d =>
    let x := c + d
    let inRange := decide (0 ≤ x) && decide (x < ((n * n : Nat) : Int))
    let sameLine := decide ((unflat n x).1 = (unflat n c).1) || decide ((unflat n x).2 = (unflat n c).2)
    if inRange && sameLine then x else -1)

/-- `_is_cell_free` -/
def isCellFree (n : Nat) (g : Grid Int) (c : Int) : Bool := c != -1 && getUnflat n g c == 0

/-- `_is_cell_doubling_back` (`True` = fine: the cell touches at most one cell of wire `w`) -/
def notDoublingBack (n : Nat) (g : Grid Int) (w : Int) (c : Int) : Bool :=
  let touching := (adjacentCells n c).map (fun x =>
    let v := getUnflat n g x
    x != -1 && (v == 3 * w + 2 || v == 3 * w + 1 || v == 3 * w + 3))
  decide ((touching.filter id).length ≤ 1)

/-- `_available_cells` -/
def availableCells (n : Nat) (g : Grid Int) (c : Int) : List Int :=
  let w := (getUnflat n g c - 1) / 3
  (adjacentCells n c).map (fun x => if isCellFree n g x && notDoublingBack n g w x then x else -1)

/-- `jax.random.choice(key, a, shape=(), p=mask)`: some entry of `a` whose mask bit is set; when no bit is set
the cumulative sum is all zero and `searchsorted` returns index 0, i.e. `a[0]` -/
def validChoice (a : List Int) (mask : List Bool) (d : Int) : Bool :=
  if mask.any id then (List.zip a mask).any (fun x => x.2 && x.1 == d) else d == a.headD 0

/-- `_initialize_starts_and_first_move` for agent `id` with draw `d = (start cell, first-move cell)` -/
def walkInitStep (n : Nat) (g : Grid Int) (id : Int) (d : Int × Int) : Grid Int :=
  setFlat n (setFlat n g d.1 (tgtVal id)) d.2 (posVal id)

def validInitDraw (n : Nat) (g : Grid Int) (id : Int) (d : Int × Int) : Bool :=
  validChoice ((List.range (n * n)).map (fun (c : Nat) => (c : Int))) ((List.flatten g).map (fun v => v == 0)) d.1 &&
  (let av := availableCells n (setFlat n g d.1 (tgtVal id)) d.1
   validChoice av (av.map (fun x => x != -1)) d.2)

/-- the `lax.scan` of `_initialize_agents`: grid and validity of the draws -/
def walkInit (n : Nat) : Grid Int → Nat → List (Int × Int) → Grid Int × Bool
  | g, _, [] => (g, true)
  | g, i, d :: rest =>
    let r := walkInit n (walkInitStep n g (i : Int) d) (i + 1) rest
    (r.1, validInitDraw n g (i : Int) d && r.2)

/-- `_convert_tuple_to_flat_position` -/
def flatPos (n : Nat) (p : Pos) : Int := p.1 * (n : Int) + p.2

/-- `_no_available_cells` -/
def noAvailable (n : Nat) (g : Grid Int) (ag : Agent) : Bool :=
  (availableCells n g (flatPos n ag.position)).all (fun x => x == -1)

/-- `_continue_stepping` -/
def continueStepping (n : Nat) (g : Grid Int) (agents : List Agent) : Bool := !(agents.all (noAvailable n g))

/-- `_action_from_positions` / `_action_from_tuple` -/
def actionFromCells (n : Nat) (c1 c2 : Int) : Int :=
  let d : Pos := ((unflat n c2).1 - (unflat n c1).1, (unflat n c2).2 - (unflat n c1).2)
  (if d = (-1, 0) then 1 else 0) + (if d = (1, 0) then 3 else 0) + (if d = (0, -1) then 4 else 0) +
  (if d = (0, 1) then 2 else 0)

/-- the actions `_select_action` derives from the drawn cells -/
def walkActions (n : Nat) (agents : List Agent) (d : List Int) : List Int :=
  List.zipWith (fun ag c => actionFromCells n (flatPos n ag.position) c) agents d

/-- the `lax.while_loop` of `generate_board`; one entry of the tape (the cells drawn by `_select_action`, one per
agent) per iteration; `_step_agents` of the generator is the environment's `_step_agents` -/
def walkLoop (n k : Nat) : Grid Int → List Agent → List (List Int) → Grid Int × List Agent
  | g, ags, [] => (g, ags)
  | g, ags, d :: rest =>
    if continueStepping n g ags then
      let r := stepAgents k ⟨g, 0, ags⟩ (walkActions n ags d)
      walkLoop n k r.2 r.1 rest
    else (g, ags)

/-- the tape is what the loop consumes: every iteration's draws are possible results of `jax.random.choice` and
the tape ends exactly when the loop condition fails -/
def validTape (n k : Nat) : Grid Int → List Agent → List (List Int) → Bool
  | g, ags, [] => !continueStepping n g ags
  | g, ags, d :: rest =>
    continueStepping n g ags && d.length == k &&
    (List.zipWith (fun ag c =>
        let av := availableCells n g (flatPos n ag.position)
        validChoice av (av.map (fun x => x != -1)) c) ags d).all id &&
    (let r := stepAgents k ⟨g, 0, ags⟩ (walkActions n ags d)
     validTape n k r.2 r.1 rest)

/-- the agents after `_initialize_agents` -/
def walkAgents0 (n k : Nat) (init : List (Int × Int)) : List Agent :=
  mkAgents k (init.map (fun d => unflat n d.1)) (List.replicate k (-1, -1)) (init.map (fun d => unflat n d.2))

/-- all draws of one call of `RandomWalkGenerator.generate_board` are possible -/
def validWalkDraw (n k : Nat) (init : List (Int × Int)) (tape : List (List Int)) : Bool :=
  init.length == k && (walkInit n (zeroGrid n) 0 init).2 &&
  validTape n k (walkInit n (zeroGrid n) 0 init).1 (walkAgents0 n k init) tape

/-- `RandomWalkGenerator.generate_board`: `(solved_grid, state)` -/
def walkGenerate (n k : Nat) (init : List (Int × Int)) (tape : List (List Int)) : Grid Int × State :=
  let r := walkLoop n k (walkInit n (zeroGrid n) 0 init).1 (walkAgents0 n k init) tape
  let heads := r.2.map (fun ag => ag.start)
  let targets := r.2.map (fun ag => ag.position)
  let solved := scatter (scatter r.1 heads ((agentIds k).map posVal)) targets ((agentIds k).map tgtVal)
  (solved, emitBoard n k heads targets)

end Connector
