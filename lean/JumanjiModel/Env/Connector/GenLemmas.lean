/- C10: the board the generators emit is fresh (for every possible draw of `UniformRandomGenerator`). -/
import JumanjiModel.Env.Connector.ConservedLemmas
namespace Connector
open Jm Jx

/-! ### scattering a list of assignments -/

/-- a sequence of `.at[p].set(v)` -/
def assign (g : Grid Int) (asg : List (Pos × Int)) : Grid Int :=
  asg.foldl (fun g x => Grid.setWD g x.1.1 x.1.2 x.2) g

theorem scatter_eq_assign (g : Grid Int) (ps : List Pos) (vals : List Int) :
    scatter g ps vals = assign g (List.zip ps vals) := rfl

theorem assign_append (g : Grid Int) (a b : List (Pos × Int)) :
    assign g (a ++ b) = assign (assign g a) b := by
  unfold assign; rw [List.foldl_append]

theorem assign_spec {n : Nat} (asg : List (Pos × Int)) : ∀ (g : Grid Int), Grid.shaped g n n = true →
    (∀ x ∈ asg, inGrid n x.1) → (asg.map Prod.fst).Nodup →
    Grid.shaped (assign g asg) n n = true ∧
    (∀ x ∈ asg, cell (assign g asg) x.1 = x.2) ∧
    (∀ q, inGrid n q → q ∉ asg.map Prod.fst → cell (assign g asg) q = cell g q) := by
  induction asg with
  | nil => intro g h _ _; exact ⟨h, by simp, by intro q _ _; rfl⟩
  | cons a rest ih =>
    intro g h hin hnd
    obtain ⟨p, v⟩ := a
    have hp : inGrid n p := hin (p, v) (by simp)
    have e : assign g ((p, v) :: rest) = assign (setCell g p v) rest := by
      unfold assign
      rw [List.foldl_cons]
      congr 1
      exact setWD_eq_setCell h hp.1 hp.2.1 hp.2.2.1 hp.2.2.2 v
    rw [e]
    have h' := shaped_setCell h p v
    simp only [List.map_cons, List.nodup_cons] at hnd
    obtain ⟨r1, r2, r3⟩ := ih (setCell g p v) h' (fun x hx => hin x (List.mem_cons_of_mem _ hx)) hnd.2
    refine ⟨r1, ?_, ?_⟩
    · intro x hx
      rcases List.mem_cons.1 hx with hx | hx
      · subst hx
        show cell (assign (setCell g p v) rest) p = v
        rw [r3 p hp hnd.1, cell_setCell h hp hp]; simp
      · exact r2 x hx
    · intro q hq hnq
      simp only [List.map_cons, List.mem_cons, not_or] at hnq
      rw [r3 q hq hnq.2, cell_setCell h hp hq]; simp [hnq.1]

theorem assign_nonZero {n : Nat} (asg : List (Pos × Int)) : ∀ (g : Grid Int), Grid.shaped g n n = true →
    (∀ x ∈ asg, inGrid n x.1) → (asg.map Prod.fst).Nodup →
    (∀ x ∈ asg, x.2 ≠ 0) → (∀ x ∈ asg, cell g x.1 = 0) →
    nonZero (assign g asg) = nonZero g + asg.length := by
  induction asg with
  | nil => intro g _ _ _ _ _; rfl
  | cons a rest ih =>
    intro g h hin hnd hv h0
    obtain ⟨p, v⟩ := a
    have hp : inGrid n p := hin (p, v) (by simp)
    have e : assign g ((p, v) :: rest) = assign (setCell g p v) rest := by
      unfold assign
      rw [List.foldl_cons]
      congr 1
      exact setWD_eq_setCell h hp.1 hp.2.1 hp.2.2.1 hp.2.2.2 v
    rw [e]
    have h' := shaped_setCell h p v
    simp only [List.map_cons, List.nodup_cons] at hnd
    have hin' : ∀ x ∈ rest, inGrid n x.1 := fun x hx => hin x (List.mem_cons_of_mem _ hx)
    have c0 : cell g p = 0 := h0 (p, v) (by simp)
    have v0 : v ≠ 0 := hv (p, v) (by simp)
    rw [ih (setCell g p v) h' hin' hnd.2 (fun x hx => hv x (List.mem_cons_of_mem _ hx))]
    · have : nonZero (setCell g p v) = nonZero g + 1 := by
        unfold nonZero
        apply count_setCell_succ _ h hp
        · simp [c0]
        · simp [v0]
      rw [this, List.length_cons]; omega
    · intro x hx
      have hne : x.1 ≠ p := by
        intro e1; apply hnd.1; rw [← e1]; exact List.mem_map_of_mem hx
      rw [cell_setCell h hp (hin' x hx)]; simp [hne]
      exact h0 x (List.mem_cons_of_mem _ hx)

/-! ### the empty grid -/

theorem shaped_zeroGrid (n : Nat) : Grid.shaped (zeroGrid n) n n = true := by
  simp [zeroGrid, Grid.mk, Grid.shaped]

theorem cell_zeroGrid (n : Nat) (q : Pos) : cell (zeroGrid n) q = 0 := by
  unfold cell zeroGrid Grid.mk Grid.get
  simp only [List.getD, List.getElem?_replicate]
  split <;> simp [List.getElem?_replicate] <;> split <;> simp

theorem nonZero_zeroGrid (n : Nat) : nonZero (zeroGrid n) = 0 := by
  unfold nonZero
  rw [count_zero_iff _ (shaped_zeroGrid n)]
  intro q _; simp [cell_zeroGrid]

/-! ### the agents and the assignments of `emitBoard` -/

theorem mkAgents_getElem? {k : Nat} {s t p : List Pos} {i : Nat} {ag : Agent}
    (h : (mkAgents k s t p)[i]? = some ag) :
    i < k ∧ ag = ⟨(i : Int), s.getD i (0, 0), t.getD i (0, 0), p.getD i (0, 0)⟩ := by
  unfold mkAgents at h
  rw [List.getElem?_map] at h
  by_cases hi : i < k
  · rw [List.getElem?_range hi] at h
    simp only [Option.map_some, Option.some.injEq] at h
    exact ⟨hi, h.symm⟩
  · rw [List.getElem?_eq_none (by simp; omega)] at h; simp at h

theorem range_map_getD {α} (l : List α) (d : α) (k : Nat) (h : l.length = k) :
    (List.range k).map (fun i => l.getD i d) = l := by
  apply List.ext_getElem
  · simp [h]
  · intro i h1 h2
    simp [List.getD, h2]

theorem mem_zip_ids {k : Nat} (ps : List Pos) (f : Int → Int) (hl : ps.length = k) (x : Pos × Int) :
    x ∈ List.zip ps ((agentIds k).map f) ↔ ∃ i, i < k ∧ x = (ps.getD i (0, 0), f (i : Int)) := by
  rw [List.mem_iff_getElem?]
  constructor
  · rintro ⟨i, hi⟩
    rw [List.getElem?_zip_eq_some] at hi
    obtain ⟨h1, h2⟩ := hi
    have hik : i < k := by
      rcases Nat.lt_or_ge i k with h | h
      · exact h
      · rw [List.getElem?_eq_none (by omega)] at h1; simp at h1
    refine ⟨i, hik, ?_⟩
    simp only [agentIds, List.map_map, List.getElem?_map, List.getElem?_range hik, Option.map_some,
      Option.some.injEq, Function.comp] at h2
    apply Prod.ext
    · simp [List.getD, h1]
    · exact h2.symm
  · rintro ⟨i, hik, rfl⟩
    refine ⟨i, ?_⟩
    rw [List.getElem?_zip_eq_some]
    constructor
    · simp [List.getD, List.getElem?_eq_getElem (show i < ps.length by omega)]
    · simp [agentIds, List.getElem?_range hik]

/-- the cells of the emitted grid -/
structure EmitCells (n k : Nat) (starts targets : List Pos) (G : Grid Int) : Prop where
  shaped : Grid.shaped G n n = true
  headAt : ∀ i, i < k → cell G (starts.getD i (0, 0)) = posVal (i : Int)
  tgtAt : ∀ i, i < k → cell G (targets.getD i (0, 0)) = tgtVal (i : Int)
  cases : ∀ q, inGrid n q → cell G q = 0 ∨
    (∃ i, i < k ∧ q = starts.getD i (0, 0) ∧ cell G q = posVal (i : Int)) ∨
    (∃ i, i < k ∧ q = targets.getD i (0, 0) ∧ cell G q = tgtVal (i : Int))
  nz : nonZero G = 2 * k

theorem mem_getD {α} {l : List α} {q : α} (d : α) (h : q ∈ l) : ∃ i, i < l.length ∧ q = l.getD i d := by
  obtain ⟨i, hi, e⟩ := List.mem_iff_getElem.1 h
  exact ⟨i, hi, by simp [List.getD, hi, e]⟩

theorem emit_cells (n k : Nat) (starts targets : List Pos) (hs : starts.length = k) (ht : targets.length = k)
    (hnd : (starts ++ targets).Nodup) (hin : ∀ p ∈ starts ++ targets, inGrid n p) :
    EmitCells n k starts targets (emitBoard n k starts targets).grid := by
  have eG : (emitBoard n k starts targets).grid =
      assign (zeroGrid n) (List.zip starts ((agentIds k).map posVal) ++ List.zip targets ((agentIds k).map tgtVal)) := by
    simp only [emitBoard, scatter_eq_assign, assign_append]
  rw [eG]
  generalize hasg : List.zip starts ((agentIds k).map posVal) ++ List.zip targets ((agentIds k).map tgtVal) = asg
  have hil : (agentIds k).length = k := by simp [agentIds]
  have hfst : asg.map Prod.fst = starts ++ targets := by
    rw [← hasg, List.map_append, List.map_fst_zip (by simp [hil, hs]), List.map_fst_zip (by simp [hil, ht])]
  have hmem : ∀ x, x ∈ asg ↔ (∃ i, i < k ∧ x = (starts.getD i (0, 0), posVal (i : Int))) ∨
      (∃ i, i < k ∧ x = (targets.getD i (0, 0), tgtVal (i : Int))) := by
    intro x
    rw [← hasg, List.mem_append, mem_zip_ids starts posVal hs, mem_zip_ids targets tgtVal ht]
  have hlen : asg.length = 2 * k := by
    rw [← hasg]; simp [hil, hs, ht]; omega
  have hin' : ∀ x ∈ asg, inGrid n x.1 := by
    intro x hx; apply hin; rw [← hfst]; exact List.mem_map_of_mem hx
  have hnd' : (asg.map Prod.fst).Nodup := by rw [hfst]; exact hnd
  obtain ⟨r1, r2, r3⟩ := assign_spec asg (zeroGrid n) (shaped_zeroGrid n) hin' hnd'
  have hA : ∀ i, i < k → cell (assign (zeroGrid n) asg) (starts.getD i (0, 0)) = posVal (i : Int) :=
    fun i hi => r2 (starts.getD i (0, 0), posVal (i : Int)) ((hmem _).2 (Or.inl ⟨i, hi, rfl⟩))
  have hB : ∀ i, i < k → cell (assign (zeroGrid n) asg) (targets.getD i (0, 0)) = tgtVal (i : Int) :=
    fun i hi => r2 (targets.getD i (0, 0), tgtVal (i : Int)) ((hmem _).2 (Or.inr ⟨i, hi, rfl⟩))
  refine ⟨r1, hA, hB, ?_, ?_⟩
  · intro q hq
    by_cases hm : q ∈ asg.map Prod.fst
    · rw [hfst, List.mem_append] at hm
      rcases hm with hm | hm
      · obtain ⟨i, hi, e⟩ := mem_getD (0, 0) hm
        right; left
        exact ⟨i, by omega, e, by rw [e]; exact hA i (by omega)⟩
      · obtain ⟨i, hi, e⟩ := mem_getD (0, 0) hm
        right; right
        exact ⟨i, by omega, e, by rw [e]; exact hB i (by omega)⟩
    · left; rw [r3 q hq hm, cell_zeroGrid]
  · rw [assign_nonZero asg (zeroGrid n) (shaped_zeroGrid n) hin' hnd', nonZero_zeroGrid, hlen]
    · omega
    · intro x hx
      rcases (hmem x).1 hx with ⟨i, _, rfl⟩ | ⟨i, _, rfl⟩
      · simp only [posVal]; omega
      · simp only [tgtVal]; omega
    · intro x _; exact cell_zeroGrid n _

theorem getD_mem_gen {α} (l : List α) (d : α) {i : Nat} (h : i < l.length) : l.getD i d ∈ l := by
  simp [List.getD, h]

theorem getD_append_left {α} (a b : List α) (d : α) {i : Nat} (h : i < a.length) :
    a.getD i d = (a ++ b)[i]'(by simp; omega) := by
  simp [List.getD, h, List.getElem_append_left]

theorem getD_append_right {α} (a b : List α) (d : α) {i : Nat} (h : i < b.length) :
    b.getD i d = (a ++ b)[a.length + i]'(by simp; omega) := by
  simp [List.getD, h]

theorem nodup_getElem_inj {α} {l : List α} (h : l.Nodup) {i j : Nat} {hi : i < l.length} {hj : j < l.length}
    (e : l[i] = l[j]) : i = j := by
  have hp := List.pairwise_iff_getElem.1 h
  rcases Nat.lt_trichotomy i j with h1 | h1 | h1
  · exact absurd e (hp i j hi hj h1)
  · exact h1
  · exact absurd e.symm (hp j i hj hi h1)

/-- the board both generators emit is consistent -/
theorem emit_cons (n k : Nat) (starts targets : List Pos) (hs : starts.length = k) (ht : targets.length = k)
    (hnd : (starts ++ targets).Nodup) (hin : ∀ p ∈ starts ++ targets, inGrid n p) :
    Cons n k (emitBoard n k starts targets) := by
  have c := emit_cells n k starts targets hs ht hnd hin
  have hSS : ∀ i j, i < k → j < k → starts.getD i (0, 0) = starts.getD j (0, 0) → i = j := by
    intro i j hi hj e
    rw [getD_append_left starts targets _ (by omega), getD_append_left starts targets _ (by omega)] at e
    exact nodup_getElem_inj hnd e
  have hTT : ∀ i j, i < k → j < k → targets.getD i (0, 0) = targets.getD j (0, 0) → i = j := by
    intro i j hi hj e
    rw [getD_append_right starts targets _ (by omega), getD_append_right starts targets _ (by omega)] at e
    have := nodup_getElem_inj hnd e
    omega
  have hST : ∀ i j, i < k → j < k → starts.getD i (0, 0) ≠ targets.getD j (0, 0) := by
    intro i j hi hj e
    rw [getD_append_left starts targets _ (by omega), getD_append_right starts targets _ (by omega)] at e
    have := nodup_getElem_inj hnd e
    omega
  have hSin : ∀ i, i < k → inGrid n (starts.getD i (0, 0)) := fun i hi =>
    hin _ (List.mem_append_left _ (getD_mem_gen starts _ (by omega)))
  have hTin : ∀ i, i < k → inGrid n (targets.getD i (0, 0)) := fun i hi =>
    hin _ (List.mem_append_right _ (getD_mem_gen targets _ (by omega)))
  refine ⟨c.shaped, by simp [emitBoard, mkAgents], ?_, ?_, by simp [emitBoard]⟩
  · intro i ag hag
    have hag' : (mkAgents k starts targets starts)[i]? = some ag := hag
    obtain ⟨hi, rfl⟩ := mkAgents_getElem? hag'
    refine ⟨rfl, hSin i hi, hTin i hi, hSin i hi, c.headAt i hi, ?_, ?_, fun _ => c.tgtAt i hi, ?_, ?_, ?_⟩
    · intro q hq hv
      rcases c.cases q hq with h0 | ⟨j, hj, e, hc⟩ | ⟨j, hj, e, hc⟩
      · rw [h0] at hv; simp only [posVal] at hv; omega
      · rw [hc] at hv; simp only [posVal] at hv
        have : j = i := by omega
        subst this; exact e
      · rw [hc] at hv; simp only [posVal, tgtVal] at hv; omega
    · intro e; exact absurd e (hST i i hi hi)
    · intro _ q hq hv
      rcases c.cases q hq with h0 | ⟨j, hj, e, hc⟩ | ⟨j, hj, e, hc⟩
      · rw [h0] at hv; simp only [tgtVal] at hv; omega
      · rw [hc] at hv; simp only [posVal, tgtVal] at hv; omega
      · rw [hc] at hv; simp only [tgtVal] at hv
        have : j = i := by omega
        subst this; exact e
    · intro _ q hq hv
      rcases c.cases q hq with h0 | ⟨j, hj, e, hc⟩ | ⟨j, hj, e, hc⟩
      · rw [h0] at hv; simp only [pathVal] at hv; omega
      · rw [hc] at hv; simp only [posVal, pathVal] at hv; omega
      · rw [hc] at hv; simp only [tgtVal, pathVal] at hv; omega
    · intro e; exact absurd rfl e
  · intro q hq
    rcases c.cases q hq with h0 | ⟨j, hj, e, hc⟩ | ⟨j, hj, e, hc⟩
    · rw [h0]; omega
    · rw [hc]; simp only [posVal]; omega
    · rw [hc]; simp only [tgtVal]; omega

/-- the board both generators emit is fresh whenever starts and targets are 2k pairwise different cells inside the grid -/
theorem emit_fresh (n k : Nat) (starts targets : List Pos) (hs : starts.length = k) (ht : targets.length = k)
    (hnd : (starts ++ targets).Nodup) (hin : ∀ p ∈ starts ++ targets, inGrid n p) :
    freshB n k (emitBoard n k starts targets) = true := by
  have c := emit_cells n k starts targets hs ht hnd hin
  have hc : consistentB n k (emitBoard n k starts targets) = true :=
    (consistent_iff n k _).2 (emit_cons n k starts targets hs ht hnd hin)
  have hS : (emitBoard n k starts targets).agents.map (·.start) = starts := by
    simp only [emitBoard, mkAgents, List.map_map]
    exact range_map_getD starts _ k hs
  have hT : (emitBoard n k starts targets).agents.map (·.target) = targets := by
    simp only [emitBoard, mkAgents, List.map_map]
    exact range_map_getD targets _ k ht
  unfold freshB
  rw [hc, hS, hT, c.nz]
  simp only [Bool.true_and, Bool.and_eq_true, beq_iff_eq, decide_eq_true_eq, List.all_eq_true]
  refine ⟨⟨⟨rfl, ?_⟩, hnd⟩, trivial⟩
  intro ag hag
  simp only [emitBoard, mkAgents, List.mem_map] at hag
  obtain ⟨i, _, rfl⟩ := hag
  rfl

/-! ### `UniformRandomGenerator` -/

theorem unflat_nat (n c : Nat) : unflat n (c : Int) = (((c / n : Nat) : Int), ((c % n : Nat) : Int)) := by
  simp [unflat, Int.natCast_ediv, Int.natCast_emod]

theorem unflat_inGrid {n c : Nat} (h : c < n * n) : inGrid n (unflat n (c : Int)) := by
  rw [unflat_nat]
  have hn : 0 < n := by
    rcases Nat.eq_zero_or_pos n with h0 | h0
    · subst h0; simp at h
    · exact h0
  exact inGrid_of_nat (Nat.div_lt_of_lt_mul h) (Nat.mod_lt _ hn)

theorem unflat_inj {n c c' : Nat} (e : unflat n (c : Int) = unflat n (c' : Int)) : c = c' := by
  rw [unflat_nat, unflat_nat] at e
  have e1 : c / n = c' / n := Int.ofNat_inj.1 (congrArg Prod.fst e)
  have e2 : c % n = c' % n := Int.ofNat_inj.1 (congrArg Prod.snd e)
  have a := Nat.div_add_mod c n
  have b := Nat.div_add_mod c' n
  rw [e1, e2] at a
  omega

theorem nodup_map_of_inj {α β} (f : α → β) (l : List α) (h : l.Nodup) (hf : ∀ a b, f a = f b → a = b) :
    (l.map f).Nodup := by
  unfold List.Nodup at h ⊢
  rw [List.pairwise_map]
  exact h.imp (fun hab e => hab (hf _ _ e))

/-- C10: for EVERY possible draw of `choice(replace=False)` the board of `UniformRandomGenerator` is fresh -/
theorem uniform_reset_fresh (n k : Nat) (cells : List Nat) (h : validUniformDraw n k cells = true) :
    freshB n k (uniformGenerate n k cells) = true := by
  unfold validUniformDraw at h
  simp only [Bool.and_eq_true, beq_iff_eq, decide_eq_true_eq, List.all_eq_true] at h
  obtain ⟨⟨hl, hnd⟩, hlt⟩ := h
  have hcat : (cells.take k).map (fun (c : Nat) => unflat n (c : Int)) ++ (cells.drop k).map (fun (c : Nat) => unflat n (c : Int)) =
      cells.map (fun (c : Nat) => unflat n (c : Int)) := by
    rw [← List.map_append, List.take_append_drop]
  unfold uniformGenerate
  apply emit_fresh
  · simp; omega
  · simp; omega
  · rw [hcat]
    exact nodup_map_of_inj _ cells hnd (fun a b e => unflat_inj e)
  · rw [hcat]
    intro p hp
    obtain ⟨c, hc, rfl⟩ := List.mem_map.1 hp
    exact unflat_inGrid (hlt c hc)

end Connector
