/-
Connector — audit r6 #4: the trace of the implementation model (`traceL1`) in terms of the abstract step system of
Core/Episode.lean (`Ep.ofStep (step cfg) stepCount`), so that the plan theorems can be stated on `Ep.rollout` / `Ep.firstLastTS`
(what `props/c11.py` measures) and respect `time_limit`.
-/
import JumanjiModel.Core.EpisodeLemmas
import JumanjiModel.Env.Connector.Lemmas
open Jm Jx Ep

namespace Connector
theorem traceL1_getElem? (cfg : Cfg) (acts : List (List Int)) : ∀ (s : State) (j : Nat), j ≤ acts.length →
    (traceL1 cfg s acts)[j]? = some ((ofStep (step cfg) (·.stepCount)).stateAt s acts j) := by
  induction acts with
  | nil => intro s j hj; have : j = 0 := by simpa using hj
           subst this; rfl
  | cons a rest ih =>
    intro s j hj
    cases j with
    | zero => rfl
    | succ j =>
      simp only [traceL1, List.getElem?_cons_succ]
      rw [ih (step cfg s a).1 j (by simpa using hj)]
      rfl

theorem stateAt_stepCount (cfg : Cfg) (acts : List (List Int)) : ∀ (s : State) (j : Nat), j ≤ acts.length →
    ((ofStep (step cfg) (·.stepCount)).stateAt s acts j).stepCount = s.stepCount + (j : Int) := by
  induction acts with
  | nil => intro s j hj; have : j = 0 := by simpa using hj
           subst this; simp [Sys.stateAt, Sys.run]
  | cons a rest ih =>
    intro s j hj
    cases j with
    | zero => simp [Sys.stateAt, Sys.run]
    | succ j =>
      have := ih (step cfg s a).1 j (by simpa using hj)
      simp only [Sys.stateAt, List.take_succ_cons, Sys.run] at this ⊢
      rw [show (ofStep (step cfg) (·.stepCount)).step s a = (step cfg s a).1 from rfl, this, step_count]
      push_cast; omega
end Connector
