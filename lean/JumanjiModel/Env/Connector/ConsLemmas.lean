/- `Consistent` (a Boolean recomputed from the raw arrays, with cell counts) as a statement about cells. -/
import JumanjiModel.Env.Connector.GridLemmas
namespace Connector
open Jm Jx

theorem countVal_zero_iff {g : Grid Int} {n : Nat} (h : Grid.shaped g n n = true) (v : Int) :
    countVal g v = 0 ↔ ∀ q, inGrid n q → cell g q ≠ v := by
  unfold countVal
  rw [count_zero_iff _ h]
  constructor
  · intro h0 q hq; have := h0 q hq; simpa using this
  · intro h0 q hq; have := h0 q hq; simpa using this

theorem countVal_one_at {g : Grid Int} {n : Nat} (h : Grid.shaped g n n = true) (v : Int) {p : Pos}
    (hp : inGrid n p) :
    (cell g p = v ∧ countVal g v = 1) ↔ (cell g p = v ∧ ∀ q, inGrid n q → cell g q = v → q = p) := by
  unfold countVal
  rw [count_one_iff _ h]
  constructor
  · rintro ⟨e, p', hp', hP, hu⟩
    refine ⟨e, ?_⟩
    have : p = p' := hu p hp (by simpa using e)
    subst this
    intro q hq hv
    exact hu q hq (by simpa using hv)
  · rintro ⟨e, hu⟩
    exact ⟨e, p, hp, by simpa using e, fun q hq hv => hu q hq (by simpa using hv)⟩

/-- what `agentConsistent` says, cell by cell -/
structure AgentOK (n : Nat) (g : Grid Int) (i : Nat) (ag : Agent) : Prop where
  id : ag.id = (i : Int)
  posIn : inGrid n ag.position
  tgtIn : inGrid n ag.target
  startIn : inGrid n ag.start
  headAt : cell g ag.position = posVal (i : Int)
  headUniq : ∀ q, inGrid n q → cell g q = posVal (i : Int) → q = ag.position
  tgtNone : ag.position = ag.target → ∀ q, inGrid n q → cell g q ≠ tgtVal (i : Int)
  tgtAt : ag.position ≠ ag.target → cell g ag.target = tgtVal (i : Int)
  tgtUniq : ag.position ≠ ag.target → ∀ q, inGrid n q → cell g q = tgtVal (i : Int) → q = ag.target
  pathNone : ag.start = ag.position → ∀ q, inGrid n q → cell g q ≠ pathVal (i : Int)
  startAt : ag.start ≠ ag.position → cell g ag.start = pathVal (i : Int)

theorem agentConsistent_iff {g : Grid Int} {n : Nat} (h : Grid.shaped g n n = true) (i : Nat) (ag : Agent) :
    agentConsistent n g i ag = true ↔ AgentOK n g i ag := by
  unfold agentConsistent
  simp only [Bool.and_eq_true, beq_iff_eq, decide_eq_true_eq]
  constructor
  · rintro ⟨⟨⟨⟨⟨⟨⟨hid, hp⟩, ht⟩, hs⟩, hh⟩, hc⟩, htg⟩, hst⟩
    rw [hid] at hh hc htg hst
    have a := (countVal_one_at h _ hp).1 ⟨hh, hc⟩
    refine ⟨hid, hp, ht, hs, hh, a.2, ?_, ?_, ?_, ?_, ?_⟩
    · intro e; simp only [e, if_true, beq_iff_eq] at htg
      exact (countVal_zero_iff h _).1 htg
    · intro e; simp only [e, if_false, Bool.and_eq_true, beq_iff_eq] at htg; exact htg.1
    · intro e; simp only [e, if_false, Bool.and_eq_true, beq_iff_eq] at htg
      exact ((countVal_one_at h _ ht).1 htg).2
    · intro e; simp only [e, if_true, beq_iff_eq] at hst
      exact (countVal_zero_iff h _).1 hst
    · intro e; simp only [e, if_false, beq_iff_eq] at hst; exact hst
  · intro ok
    have a := (countVal_one_at h _ ok.posIn).2 ⟨ok.headAt, ok.headUniq⟩
    rw [ok.id]
    refine ⟨⟨⟨⟨⟨⟨⟨rfl, ok.posIn⟩, ok.tgtIn⟩, ok.startIn⟩, a.1⟩, a.2⟩, ?_⟩, ?_⟩
    · by_cases e : ag.position = ag.target
      · simp only [e, if_true, beq_iff_eq]
        exact (countVal_zero_iff h _).2 (ok.tgtNone e)
      · simp only [e, if_false, Bool.and_eq_true, beq_iff_eq]
        exact (countVal_one_at h _ ok.tgtIn).2 ⟨ok.tgtAt e, ok.tgtUniq e⟩
    · by_cases e : ag.start = ag.position
      · simp only [e, if_true, beq_iff_eq]
        exact (countVal_zero_iff h _).2 (ok.pathNone e)
      · simp only [e, if_false, beq_iff_eq]
        exact ok.startAt e

/-- what `Consistent` says, cell by cell -/
structure Cons (n k : Nat) (s : State) : Prop where
  shaped : Grid.shaped s.grid n n = true
  len : s.agents.length = k
  agent : ∀ (i : Nat) (ag : Agent), s.agents[i]? = some ag → AgentOK n s.grid i ag
  range : ∀ q, inGrid n q → 0 ≤ cell s.grid q ∧ cell s.grid q ≤ 3 * (k : Int)
  count : 0 ≤ s.stepCount

theorem consistent_iff (n k : Nat) (s : State) : Consistent n k s ↔ Cons n k s := by
  unfold Consistent consistentB
  simp only [Bool.and_eq_true, beq_iff_eq, decide_eq_true_eq]
  constructor
  · rintro ⟨⟨⟨⟨hs, hl⟩, ha⟩, hr⟩, hc⟩
    refine ⟨hs, hl, ?_, ?_, hc⟩
    · intro i ag hi
      rw [List.all_eq_true] at ha
      have := ha (ag, i) (List.mem_zipIdx_iff_getElem?.2 hi)
      exact (agentConsistent_iff hs i ag).1 this
    · intro q hq
      have := (all_iff_cell _ hs).1 hr q hq
      simpa using this
  · intro c
    refine ⟨⟨⟨⟨c.shaped, c.len⟩, ?_⟩, ?_⟩, c.count⟩
    · rw [List.all_eq_true]
      rintro ⟨ag, i⟩ hx
      exact (agentConsistent_iff c.shaped i ag).2 (c.agent i ag (List.mem_zipIdx_iff_getElem?.1 hx))
    · rw [all_iff_cell _ c.shaped]
      intro q hq
      have := c.range q hq
      simpa using this

end Connector
