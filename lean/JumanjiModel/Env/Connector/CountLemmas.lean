/- Counting cells: the count only depends on which cells satisfy the predicate; one more cell, one more. -/
import JumanjiModel.Env.Connector.StepLemmas
namespace Connector
open Jm Jx

theorem count_map (Q : Int → Bool) (f : Int → Int) (g : Grid Int) :
    Grid.count Q (Grid.map f g) = Grid.count (Q ∘ f) g := by
  unfold Grid.count Grid.map
  rw [← List.map_flatten, List.filter_map, List.length_map]

theorem count_congr (P : Int → Bool) {g g' : Grid Int} {n : Nat} (h : Grid.shaped g n n = true)
    (h' : Grid.shaped g' n n = true) (e : ∀ q, inGrid n q → P (cell g q) = P (cell g' q)) :
    Grid.count P g = Grid.count P g' := by
  have key : ∀ g : Grid Int, Grid.count P g = Grid.count (fun v : Int => v == 1) (Grid.map (fun v : Int => if P v then (1 : Int) else 0) g) := by
    intro g
    rw [count_map]
    congr 1
    funext v
    simp only [Function.comp]
    cases P v <;> simp
  rw [key g, key g']
  congr 1
  apply grid_ext_cell (shaped_map _ h) (shaped_map _ h')
  intro q hq
  rw [cell_map _ h hq, cell_map _ h' hq, e q hq]

theorem filter_set_len {α} (P : α → Bool) (l : List α) (i : Nat) (w : α) (hi : i < l.length)
    (h1 : P l[i] = false) (h2 : P w = true) : ((l.set i w).filter P).length = (l.filter P).length + 1 := by
  induction l generalizing i with
  | nil => simp at hi
  | cons a l ih =>
    cases i with
    | zero =>
      simp at h1
      simp [h1, h2]
    | succ i =>
      simp at h1 hi
      have := ih i hi h1
      simp only [List.set_cons_succ, List.filter_cons]
      split <;> simp [this]

theorem count_set_row (P : Int → Bool) (g : Grid Int) (r : Nat) (row' : List Int) (hr : r < g.length) :
    Grid.count P (List.set g r row') + (g[r].filter P).length = Grid.count P g + (row'.filter P).length := by
  induction g generalizing r with
  | nil => simp at hr
  | cons a g ih =>
    cases r with
    | zero => simp only [List.set_cons_zero, count_cons, List.getElem_cons_zero]; omega
    | succ r =>
      simp at hr
      have := ih r hr
      simp only [List.set_cons_succ, count_cons, List.getElem_cons_succ]
      omega

theorem count_setCell_succ (P : Int → Bool) {g : Grid Int} {n : Nat} (h : Grid.shaped g n n = true) {p : Pos}
    (hp : inGrid n p) (w : Int) (h1 : P (cell g p) = false) (h2 : P w = true) :
    Grid.count P (setCell g p w) = Grid.count P g + 1 := by
  obtain ⟨p1, p2⟩ := inGrid_toNat hp
  obtain ⟨row, e1, l1⟩ := shaped_getElem? h p1
  have hl := shaped_length h
  have hr : p.1.toNat < g.length := by omega
  have erow : g[p.1.toNat] = row := by
    rw [List.getElem?_eq_getElem hr] at e1; exact Option.some.inj e1
  have hc : p.2.toNat < row.length := by omega
  unfold setCell Grid.set
  simp only [e1]
  have a := count_set_row P g p.1.toNat (List.set row p.2.toNat w) hr
  have hcell : cell g p = row[p.2.toNat] := by
    unfold cell; rw [get_of_row e1]; simp [hc]
  rw [hcell] at h1
  have b := filter_set_len P row p.2.toNat w hc h1 h2
  rw [erow] at a
  omega

/-- if exactly one more cell (`p`) satisfies `P` in `g'` than in `g`, the count is one higher -/
theorem count_succ_of_cells (P : Int → Bool) {g g' : Grid Int} {n : Nat} (h : Grid.shaped g n n = true)
    (h' : Grid.shaped g' n n = true) {p : Pos} (hp : inGrid n p) (h1 : P (cell g p) = false)
    (h2 : P (cell g' p) = true) (e : ∀ q, inGrid n q → q ≠ p → P (cell g q) = P (cell g' q)) :
    Grid.count P g' = Grid.count P g + 1 := by
  rw [← count_setCell_succ P h hp (cell g' p) h1 h2]
  apply count_congr P h' (shaped_setCell h _ _)
  intro q hq
  rw [cell_setCell h hp hq]
  by_cases e1 : q = p
  · simp [e1]
  · simp [e1, e q hq e1]

theorem count_pos_of_cell (P : Int → Bool) {g : Grid Int} {n : Nat} (h : Grid.shaped g n n = true) {p : Pos}
    (hp : inGrid n p) (h1 : P (cell g p) = true) : 0 < Grid.count P g := by
  rcases Nat.eq_zero_or_pos (Grid.count P g) with h0 | h0
  · have := (count_zero_iff P h).1 h0 p hp
    rw [this] at h1; exact Bool.noConfusion h1
  · exact h0

end Connector
