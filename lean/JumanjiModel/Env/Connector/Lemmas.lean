/- Helper lemmas and proofs for Connector. -/
import JumanjiModel.Env.Connector.Model
import JumanjiModel.Prim.Lemmas
namespace Connector
open Jm Jx

/-! ### shaped grids: the clamping gather is the plain lookup inside the grid -/

theorem shaped_length {g : Grid Int} {n m : Nat} (h : Grid.shaped g n m = true) : g.length = n := by
  unfold Grid.shaped at h; simp at h; exact h.1

theorem shaped_row {g : Grid Int} {n m : Nat} (h : Grid.shaped g n m = true) {r : Nat} (hr : r < n) :
    (g.getD r []).length = m := by
  unfold Grid.shaped at h; simp at h
  have hl := h.1
  have : r < g.length := by omega
  simp only [List.getD, List.getElem?_eq_getElem this, Option.getD_some]
  exact h.2 _ (List.getElem_mem this)

theorem getWC_eq_cell {g : Grid Int} {n : Nat} (h : Grid.shaped g n n = true) {p : Pos} (hp : inGrid n p) :
    Grid.getWC g 0 p.1 p.2 = cell g p := by
  obtain ⟨h1, h2, h3, h4⟩ := hp
  have hl := shaped_length h
  have e1 : p.1 = ((p.1.toNat : Nat) : Int) := by omega
  have e2 : p.2 = ((p.2.toNat : Nat) : Int) := by omega
  have hr : p.1.toNat < g.length := by omega
  have a1 := getWC_nat g ([] : List Int) hr
  rw [Int.toNat_of_nonneg h1] at a1
  have hrow := shaped_row h (r := p.1.toNat) (by omega)
  have hc : p.2.toNat < (g.getD p.1.toNat []).length := by omega
  have a2 := getWC_nat (g.getD p.1.toNat []) (0 : Int) hc
  rw [Int.toNat_of_nonneg h3] at a2
  unfold Grid.getWC cell Grid.get
  rw [a1, a2]

theorem isValidPosition_eq {g : Grid Int} {n : Nat} (h : Grid.shaped g n n = true) (ag : Agent) (p : Pos) :
    isValidPosition g ag p = decide (canEnter n g ag p) := by
  have hl := shaped_length h
  by_cases hp : inGrid n p
  · have hc := getWC_eq_cell h hp
    obtain ⟨h1, h2, h3, h4⟩ := hp
    unfold isValidPosition canEnter inGrid isConnected Agent.connected
    simp only [hc, hl]
    have : (ag.position = ag.target) ↔ (ag.position.1 = ag.target.1 ∧ ag.position.2 = ag.target.2) := by
      constructor
      · intro e; rw [e]; exact ⟨rfl, rfl⟩
      · intro ⟨a, b⟩; exact Prod.ext a b
    simp [h1, h2, h3, h4, this, Bool.beq_eq_decide_eq]
  · unfold isValidPosition canEnter
    have : (decide (0 ≤ p.1) && decide (p.1 < (g.length : Int)) && decide (0 ≤ p.2) && decide (p.2 < (g.length : Int))) = false := by
      unfold inGrid at hp; rw [hl]
      simp only [Bool.and_eq_false_iff, decide_eq_false_iff_not]
      omega
    simp [this, hp]

/-! ### C04 -/

theorem dir_some {a : Nat} {d : Pos} (h : dir a = some d) : 1 ≤ a ∧ a ≤ 4 := by
  rcases a with _ | _ | _ | _ | _ | a <;> simp [dir] at h ⊢

theorem movePosition_dir {a : Nat} {d : Pos} (h : dir a = some d) (p : Pos) :
    movePosition p (a : Int) = (p.1 + d.1, p.2 + d.2) := by
  rcases a with _ | _ | _ | _ | _ | a <;> simp [dir] at h
  all_goals subst h
  all_goals simp [movePosition, Int.sub_eq_add_neg]

theorem agentMask_getD {g : Grid Int} {n : Nat} (h : Grid.shaped g n n = true) (ag : Agent) (a : Nat) (ha : a < 5) :
    (agentMask g ag).getD a false =
      decide (a = 0 ∨ ∃ d, dir a = some d ∧ canEnter n g ag (ag.position.1 + d.1, ag.position.2 + d.2)) := by
  rcases a with _ | _ | _ | _ | _ | a
  · simp [agentMask]
  all_goals first
    | omega
    | simp [agentMask, dir, movePosition, isValidPosition_eq h, Int.sub_eq_add_neg]

theorem mask_iff_legal {n : Nat} (s : State) (h : Grid.shaped s.grid n n = true) (i a : Nat)
    (hi : i < s.agents.length) (ha : a < 5) :
    ((actionMask s.grid s.agents).getD i []).getD a false = true ↔ legal n s i a := by
  have e : (actionMask s.grid s.agents).getD i [] = agentMask s.grid s.agents[i] := by
    simp [actionMask, List.getD, hi]
  rw [e, agentMask_getD h _ a ha]
  unfold legal
  simp [List.getElem?_eq_getElem hi]

/-- the environment's own test in `_step_agent` -/
theorem stepAgent_eq {g : Grid Int} {n : Nat} (h : Grid.shaped g n n = true) (ag : Agent) (a : Nat) (ha : a < 5) :
    stepAgent g ag (a : Int) =
      if a ≠ 0 ∧ ∃ d, dir a = some d ∧ canEnter n g ag (ag.position.1 + d.1, ag.position.2 + d.2)
      then moveAgent ag g (movePosition ag.position (a : Int)) else (ag, g) := by
  rcases a with _ | _ | _ | _ | _ | a
  · simp [stepAgent]
  all_goals first
    | omega
    | simp [stepAgent, dir, movePosition, isValidPosition_eq h, Int.sub_eq_add_neg]

/-! ### C05 -/

theorem stepAgent_noop (g : Grid Int) (ag : Agent) : stepAgent g ag 0 = (ag, g) := by simp [stepAgent]

theorem stepAgent_of_illegal {s : State} {n : Nat} (h : Grid.shaped s.grid n n = true) {i : Nat} {ag : Agent}
    (hag : s.agents[i]? = some ag) (a : Int) (h0 : 0 ≤ a) (h4 : a ≤ 4) (hl : legalInt n s i a = false) :
    stepAgent s.grid ag a = (ag, s.grid) := by
  have e : a = ((a.toNat : Nat) : Int) := by omega
  have hl' : ¬ legal n s i a.toNat := by
    unfold legalInt at hl; simp [h0] at hl; exact hl
  rw [e, stepAgent_eq h ag a.toNat (by omega)]
  have : ¬ (a.toNat ≠ 0 ∧ ∃ d, dir a.toNat = some d ∧ canEnter n s.grid ag (ag.position.1 + d.1, ag.position.2 + d.2)) := by
    intro ⟨_, d, hd, hc⟩
    exact hl' (Or.inr ⟨d, hd, ag, hag, hc⟩)
  simp only [this, if_false]

theorem stepEach_sanitize {s : State} {n : Nat} (h : Grid.shaped s.grid n n = true) (acts : List Int)
    (hspec : ∀ a ∈ acts, 0 ≤ a ∧ a ≤ 4) : stepEach s (sanitize n s acts) = stepEach s acts := by
  apply List.ext_getElem?
  intro i
  unfold stepEach sanitize
  simp only [List.getElem?_zipWith, List.getElem?_map, List.getElem?_zipIdx]
  cases hag : s.agents[i]? with
  | none => simp
  | some ag =>
    cases ha : acts[i]? with
    | none => simp
    | some a =>
      have hm : a ∈ acts := List.mem_of_getElem? ha
      obtain ⟨h0, h4⟩ := hspec a hm
      simp only [Option.map_some, Nat.zero_add]
      cases hl : legalInt n s i a with
      | true => simp
      | false =>
        simp only [Bool.false_eq_true, if_false]
        rw [stepAgent_noop, stepAgent_of_illegal h hag a h0 h4 hl]

/-- C05: a joint action in which some agents ask for illegal moves has exactly the effect of the joint
action in which those agents play the no-op: successor state and timestep are equal -/
theorem step_sanitize (cfg : Cfg) (s : State) (h : Grid.shaped s.grid cfg.n cfg.n = true) (acts : List Int)
    (hspec : ∀ a ∈ acts, 0 ≤ a ∧ a ≤ 4) : step cfg s acts = step cfg s (sanitize cfg.n s acts) := by
  unfold step stepAgents
  rw [stepEach_sanitize h acts hspec]

/-- C05: the offending agent is frozen (same record: id, start, target, position) -/
theorem illegal_frozen (cfg : Cfg) (s : State) (h : Grid.shaped s.grid cfg.n cfg.n = true) (acts : List Int)
    {i : Nat} {ag : Agent} {a : Int} (hi : i < cfg.k) (hag : s.agents[i]? = some ag) (ha : acts[i]? = some a)
    (h0 : 0 ≤ a) (h4 : a ≤ 4) (hl : legalInt cfg.n s i a = false) :
    (step cfg s acts).1.agents[i]? = some ag := by
  unfold step stepAgents finish resolve stepEach
  simp only [List.getElem?_zipWith, List.getElem?_map, agentIds]
  have : (List.range cfg.k)[i]? = some i := by simp [hi]
  simp [this, hag, ha, stepAgent_of_illegal h hag a h0 h4 hl]

/-! ### C12, C11 -/

theorem obs_faithful (cfg : Cfg) (s : State) (acts : List Int) :
    (step cfg s acts).2.obs = observeL1 (step cfg s acts).1 := by
  unfold step finish condLastDiscount termination transition observeL1
  simp only []
  split <;> rfl

theorem observeL1_eq_observe {n : Nat} (s : State) (h : Grid.shaped s.grid n n = true) :
    observeL1 s = observe n s := by
  unfold observeL1 observe actionMask
  congr 1
  apply List.ext_getElem
  · simp
  · intro i h1 h2
    have hi : i < s.agents.length := by simpa using h1
    have r5 : List.range 5 = [0, 1, 2, 3, 4] := by decide
    simp [agentMask, r5, legal, dir, List.getElem?_eq_getElem hi, isValidPosition_eq h, movePosition,
      Int.sub_eq_add_neg]

theorem step_count (cfg : Cfg) (s : State) (acts : List Int) :
    (step cfg s acts).1.stepCount = s.stepCount + 1 := by
  unfold step finish; rfl

theorem last_iff (cfg : Cfg) (s : State) (acts : List Int) :
    (step cfg s acts).2.stepType = .last ↔
      ((List.zipWith connectedOrBlocked (step cfg s acts).1.agents
          (actionMask (step cfg s acts).1.grid (step cfg s acts).1.agents)).all id = true ∨
       cfg.timeLimit ≤ (step cfg s acts).1.stepCount) := by
  unfold step finish condLastDiscount termination transition
  simp only []
  split <;> simp_all

/-- MID discount: per agent, 0 for a connected or blocked agent, else 1; LAST: all zero -/
theorem discount_eq (cfg : Cfg) (s : State) (acts : List Int) :
    (step cfg s acts).2.discount =
      if (step cfg s acts).2.stepType = .last then List.replicate cfg.k 0
      else (List.zipWith connectedOrBlocked (step cfg s acts).1.agents
          (actionMask (step cfg s acts).1.grid (step cfg s acts).1.agents)).map (fun d => 1 - b2r d) := by
  unfold step finish condLastDiscount termination transition
  simp only []
  split <;> simp [zerosR, RShape.size]

/-! ### C08 -/

theorem connected_iff (ag : Agent) : ag.connected = true ↔ isConnected ag := by
  unfold Agent.connected isConnected
  constructor
  · intro h; simp at h; exact Prod.ext h.1 h.2
  · intro h; rw [h]; simp

theorem denseReward_eq (cfg : Cfg) (old new : List Agent) :
    denseReward cfg old new = List.zipWith (rewardL2 cfg) old new := by
  unfold denseReward
  congr 1
  funext o n
  unfold rewardL2 b2r
  by_cases ho : isConnected o <;> by_cases hn : isConnected n <;>
    simp [ho, hn, (connected_iff o).2, (connected_iff n).2] <;>
    simp_all [← connected_iff]

theorem step_reward (cfg : Cfg) (s : State) (acts : List Int) :
    (step cfg s acts).2.reward = List.zipWith (rewardL2 cfg) s.agents (step cfg s acts).1.agents := by
  rw [← denseReward_eq]
  unfold step finish condLastDiscount termination transition
  simp only []
  split <;> rfl

theorem stepAgent_connected (g : Grid Int) (ag : Agent) (a : Int) (h : ag.connected = true) :
    stepAgent g ag a = (ag, g) := by simp [stepAgent, isValidPosition, h]

/-- a connected agent stays where it is (so "connected" is monotone along an episode) -/
theorem connected_frozen (cfg : Cfg) (s : State) (acts : List Int) {i : Nat} {ag : Agent} {a : Int}
    (hi : i < cfg.k) (hag : s.agents[i]? = some ag) (ha : acts[i]? = some a) (hc : isConnected ag) :
    (step cfg s acts).1.agents[i]? = some ag := by
  unfold step stepAgents finish resolve stepEach
  simp only [List.getElem?_zipWith, List.getElem?_map, agentIds]
  have : (List.range cfg.k)[i]? = some i := by simp [hi]
  simp [this, hag, ha, stepAgent_connected _ ag a ((connected_iff ag).2 hc)]

/-- the return of one agent along an episode, from its connected flags `[c₀, c₁, …, c_T]` -/
def episodeReturn (cR tR : Rat) : List Bool → Rat
  | c0 :: c1 :: rest => (if !c0 && c1 then cR else 0) + (if !c0 then tR else 0) + episodeReturn cR tR (c1 :: rest)
  | _ => 0

def monotone : List Bool → Prop
  | c0 :: c1 :: rest => (c0 = true → c1 = true) ∧ monotone (c1 :: rest)
  | _ => True

def closedForm (cR tR : Rat) (cs : List Bool) : Rat :=
  (if !(cs.head?.getD false) && cs.getLast?.getD false then cR else 0) +
  tR * (((cs.dropLast).filter (fun c => !c)).length : Nat)

theorem monotone_last {c : Bool} {rest : List Bool} (h : monotone (c :: rest)) (hc : c = true) :
    (c :: rest).getLast?.getD false = true := by
  induction rest generalizing c with
  | nil => simp [hc]
  | cons d rest ih =>
    rw [List.getLast?_cons_cons]
    exact ih h.2 (h.1 hc)

theorem episodeReturn_closed (cR tR : Rat) (cs : List Bool) (h : monotone cs) :
    episodeReturn cR tR cs = closedForm cR tR cs := by
  induction cs with
  | nil => simp [episodeReturn, closedForm]; grind
  | cons c0 rest ih =>
    cases rest with
    | nil => simp [episodeReturn, closedForm]; grind
    | cons c1 rest =>
      have ih' := ih h.2
      have hl : (c0 :: c1 :: rest).getLast?.getD false = (c1 :: rest).getLast?.getD false := by
        rw [List.getLast?_cons_cons]
      unfold episodeReturn
      rw [ih']
      unfold closedForm
      rw [hl, List.dropLast_cons_cons]
      cases c0 <;> cases c1
      · simp; grind
      · have := monotone_last h.2 rfl
        simp [this]; grind
      · exact absurd (h.1 rfl) (by simp)
      · have := monotone_last h.2 rfl
        simp [this]; grind
theorem objectiveOf_eq (cfg : Cfg) (tr : List State) (i : Nat) :
    objectiveOf cfg tr i = closedForm cfg.connectedReward cfg.timestepReward (tr.map (fun s => connectedAt s i)) := by
  unfold objectiveOf closedForm
  cases tr with
  | nil => simp; grind
  | cons s rest =>
    have hl : ((s :: rest).map (fun s => connectedAt s i)).getLast? = ((s :: rest).getLast?).map (fun s => connectedAt s i) := by
      rw [List.getLast?_map]
    have hd : ((s :: rest).map (fun s => connectedAt s i)).dropLast = ((s :: rest).dropLast).map (fun s => connectedAt s i) := by
      rw [List.map_dropLast]
    rw [hl, hd]
    cases hL : (s :: rest).getLast? with
    | none => simp at hL
    | some sT =>
      simp only [List.head?_map, List.head?_cons, Option.map_some, Option.getD_some, List.filter_map, List.length_map, Function.comp_def]

/-- what happens to one agent in a step: it stays as it is, or it makes the move it asked for (only its
position changes), and then the environment's own test accepted the move -/
theorem stay_or_move (cfg : Cfg) (s : State) (acts : List Int) {i : Nat} {ag : Agent} {a : Int}
    (hi : i < cfg.k) (hag : s.agents[i]? = some ag) (ha : acts[i]? = some a) :
    (step cfg s acts).1.agents[i]? = some ag ∨
    ((step cfg s acts).1.agents[i]? = some { ag with position := movePosition ag.position a } ∧
      isValidPosition s.grid ag (movePosition ag.position a) = true ∧ a ≠ 0) := by
  unfold step stepAgents finish resolve stepEach
  simp only [List.getElem?_zipWith, List.getElem?_map, agentIds]
  have : (List.range cfg.k)[i]? = some i := by simp [hi]
  simp only [this, hag, ha, Option.map_some]
  unfold stepAgent moveAgent
  by_cases hv : (isValidPosition s.grid ag (movePosition ag.position a) && a != 0) = true
  · simp only [hv, if_true]
    simp at hv
    split
    · left; rfl
    · right; exact ⟨rfl, hv.1, hv.2⟩
  · simp only [hv]
    simp
theorem setWD_eq_setCell {g : Grid Int} {n m : Nat} (h : Grid.shaped g n m = true) {p : Pos}
    (h1 : 0 ≤ p.1) (h2 : p.1 < (n : Int)) (h3 : 0 ≤ p.2) (h4 : p.2 < (m : Int)) (v : Int) :
    Grid.setWD g p.1 p.2 v = setCell g p v := by
  have hl := shaped_length h
  have hr : p.1.toNat < g.length := by omega
  have hrow : (g[p.1.toNat]).length = m := by
    have := shaped_row h (r := p.1.toNat) (by omega)
    simpa [List.getD, List.getElem?_eq_getElem hr] using this
  unfold Grid.setWD setCell Grid.set wrapIdx
  have a1 : ¬ p.1 < 0 := by omega
  have a2 : ¬ p.1 ≥ (g.length : Int) := by omega
  have a3 : ¬ p.2 < 0 := by omega
  have a4 : ¬ p.2 ≥ ((g[p.1.toNat]).length : Int) := by omega
  simp only [a1, a2, if_false, List.getElem?_eq_getElem hr, a3, a4]

theorem shaped_setCell {g : Grid Int} {n m : Nat} (h : Grid.shaped g n m = true) (p : Pos) (v : Int) :
    Grid.shaped (setCell g p v) n m = true := by
  unfold setCell Grid.set
  split
  · exact h
  · rename_i row hrow
    unfold Grid.shaped at h ⊢
    simp at h ⊢
    refine ⟨h.1, ?_⟩
    intro x hx
    rcases List.mem_or_eq_of_mem_set hx with hx | hx
    · exact h.2 x hx
    · rw [hx]; simp; exact h.2 row (List.mem_of_getElem? hrow)

/-- the tentative step of one agent is the rule-level single move: if the agent asks for a legal move its
head goes to the destination and its old cell becomes path; otherwise nothing changes -/
theorem stepAgent_eq_rules {g : Grid Int} {n : Nat} (h : Grid.shaped g n n = true) (ag : Agent) (a : Nat)
    (ha : a < 5) (hp : inGrid n ag.position) :
    stepAgent g ag (a : Int) =
      match proposal n g ag (a : Int) with
      | none => (ag, g)
      | some p => (moved ag (some p), setCell (setCell g p (posVal ag.id)) ag.position (pathVal ag.id)) := by
  rw [stepAgent_eq h ag a ha]
  unfold proposal
  simp only [Int.toNat_natCast]
  cases hd : dir a with
  | none => simp
  | some d =>
    have ha0 : a ≠ 0 := by have := dir_some hd; omega
    have ha0' : (0 : Int) < (a : Int) := by omega
    simp only [ha0, ne_eq, not_false_eq_true, true_and, Option.some.injEq, exists_eq_left', ha0']
    by_cases hc : canEnter n g ag (ag.position.1 + d.1, ag.position.2 + d.2)
    · simp only [hc, if_true]
      unfold moveAgent moved
      rw [movePosition_dir hd]
      obtain ⟨⟨q1, q2, q3, q4⟩, _, _⟩ := hc
      obtain ⟨r1, r2, r3, r4⟩ := hp
      rw [setWD_eq_setCell h q1 q2 q3 q4]
      simp only []
      rw [setWD_eq_setCell (shaped_setCell h _ _) r1 r2 r3 r4]
    · simp only [hc, if_false]
theorem agentRoute_sound (n : Nat) (g : Grid Int) (ag : Agent) (h : agentRouteB n g ag = true) :
    (ag.start = ag.position ∧ countVal g (pathVal ag.id) = 0) ∨
    ∃ r, isRoute n g (pathVal ag.id) ag.start ag.position (countVal g (pathVal ag.id) - 1) r = true := by
  unfold agentRouteB at h
  split at h
  · rename_i e; left; exact ⟨e, by simpa using h⟩
  · right
    simp only [] at h
    split at h
    · rename_i r _; exact ⟨r, h⟩
    · simp at h

/-- lower id yields: an agent whose cell is also asked for by an agent with a higher index does not get it -/
theorem wins_yields (props : List (Option Pos)) {i j : Nat} {p : Pos} (hij : i < j)
    (hj : props[j]? = some (some p)) (hi : props[i]? = some (some p)) : wins props i = none := by
  unfold wins
  simp only [hi]
  have : (props.drop (i + 1)).any (fun q => q == some p) = true := by
    rw [List.any_eq_true]
    refine ⟨some p, ?_, by simp⟩
    have : (props.drop (i + 1))[j - (i + 1)]? = some (some p) := by
      rw [List.getElem?_drop]; rw [show i + 1 + (j - (i + 1)) = j by omega]; exact hj
    exact List.mem_of_getElem? this
  simp [this]

/-- … and the highest index asking for a cell gets it -/
theorem wins_highest (props : List (Option Pos)) {i : Nat} {p : Pos} (hi : props[i]? = some (some p))
    (hno : ∀ j, i < j → props[j]? ≠ some (some p)) : wins props i = some p := by
  unfold wins
  simp only [hi]
  have : (props.drop (i + 1)).any (fun q => q == some p) = false := by
    rw [List.any_eq_false]
    intro q hq
    obtain ⟨m, hm⟩ := List.getElem?_of_mem hq
    rw [List.getElem?_drop] at hm
    have := hno (i + 1 + m) (by omega)
    intro hqp
    simp at hqp
    exact this (by rw [hm, hqp])
  simp [this]
end Connector
