/- Connector, C07 occupancy conservation: the step (any in-spec joint action, from a consistent state)
satisfies the bookkeeping judge `conservedB`. -/
import JumanjiModel.Env.Connector.SolveLemmas
namespace Connector
open Jm Jx

/-! ### list helpers -/

theorem all_zipWith_of_get {α β} (f : α → β → Bool) (l1 : List α) (l2 : List β)
    (h : ∀ (i : Nat) (x : α) (y : β), l1[i]? = some x → l2[i]? = some y → f x y = true) :
    (List.zipWith f l1 l2).all id = true := by
  rw [List.all_eq_true]
  intro b hb
  obtain ⟨i, hi⟩ := List.getElem?_of_mem hb
  rw [List.getElem?_zipWith] at hi
  cases h1 : l1[i]? with
  | none => simp [h1] at hi
  | some x =>
    cases h2 : l2[i]? with
    | none => simp [h1, h2] at hi
    | some y =>
      simp [h1, h2] at hi
      simp only [id]
      rw [← hi]
      exact h i x y h1 h2

theorem zipWith_map_map {α β γ δ} (f : β → γ → δ) (g : α → β) (h : α → γ) (L : List α) :
    List.zipWith f (L.map g) (L.map h) = L.map (fun y => f (g y) (h y)) := by
  induction L with
  | nil => rfl
  | cons a L ih => simp [ih]

theorem filter_map_len {α} (H G : α → Bool) (L : List α) (h : ∀ y ∈ L, H y = G y) :
    ((L.map H).filter id).length = (L.filter G).length := by
  induction L with
  | nil => rfl
  | cons a L ih =>
    have ha := h a (by simp)
    have := ih (fun y hy => h y (by simp [hy]))
    simp only [List.map_cons, List.filter_cons, id]
    rw [ha]
    cases G a <;> simp [this]

/-! ### two shaped grids, row by row -/

theorem rows_all_of_cell (f : Int → Int → Bool) {g g' : Grid Int} {n : Nat} (h : Grid.shaped g n n = true)
    (h' : Grid.shaped g' n n = true) (e : ∀ q, inGrid n q → f (cell g q) (cell g' q) = true) :
    (List.zipWith (fun (r r' : List Int) => r.length == r'.length && (List.zipWith f r r').all id) g g').all id = true := by
  apply all_zipWith_of_get
  intro r row row' h1 h2
  have hr : r < n := by have := lt_of_getElem? h1; rw [shaped_length h] at this; exact this
  obtain ⟨row0, e1, l1⟩ := shaped_getElem? h hr
  obtain ⟨row0', e2, l2⟩ := shaped_getElem? h' hr
  rw [h1] at e1; rw [h2] at e2
  cases e1; cases e2
  simp only [Bool.and_eq_true, beq_iff_eq]
  refine ⟨by omega, ?_⟩
  apply all_zipWith_of_get
  intro c v v' hc hc'
  have hcn : c < n := by have := lt_of_getElem? hc; omega
  have := e _ (inGrid_of_nat hr hcn)
  rw [cell_of_nat, cell_of_nat, get_of_row h1, get_of_row h2, hc, hc'] at this
  simpa using this

/-! ### the number of occupied cells after a list of moves -/

def gainFlag (g : Grid Int) (y : Agent × Option Pos) : Bool :=
  match y.2 with
  | some p => cell g p == 0
  | none => false

theorem nonZero_applyMoves {n : Nat} (L : List (Agent × Option Pos)) :
    ∀ {g : Grid Int}, Grid.shaped g n n = true →
      (∀ y ∈ L, okMove n y) →
      (∀ ag p, (ag, some p) ∈ L → cell g ag.position ≠ 0 ∧ p ≠ ag.position ∧ 0 ≤ ag.id) →
      (∀ (i j : Nat) y y' q, L[i]? = some y → L[j]? = some y' → touches y q → touches y' q → i = j) →
      nonZero (applyMoves g L) = nonZero g + (L.filter (gainFlag g)).length := by
  induction L with
  | nil => intro g _ _ _ _; simp [applyMoves]
  | cons y L ih =>
    intro g h hok hnz huniq
    obtain ⟨ag, o⟩ := y
    have hok' : ∀ y ∈ L, okMove n y := fun y hy => hok y (by simp [hy])
    have huniq' : ∀ (i j : Nat) y y' q, L[i]? = some y → L[j]? = some y' → touches y q → touches y' q → i = j := by
      intro i j y y' q h1 h2 t1 t2
      have := huniq (i + 1) (j + 1) y y' q (by simpa using h1) (by simpa using h2) t1 t2
      omega
    cases o with
    | none =>
      simp only [applyMoves]
      rw [ih h hok' (fun ag' p' hm => hnz ag' p' (by simp [hm])) huniq']
      simp [gainFlag]
    | some p =>
      simp only [applyMoves]
      obtain ⟨hpos, hp⟩ := hok (ag, some p) (by simp)
      have hpos : inGrid n ag.position := hpos
      have hp : inGrid n p := hp p rfl
      obtain ⟨hv, hne, hid⟩ := hnz ag p (by simp)
      have h1 : Grid.shaped (setCell g p (posVal ag.id)) n n = true := shaped_setCell h _ _
      have h2 : Grid.shaped (setCell (setCell g p (posVal ag.id)) ag.position (pathVal ag.id)) n n = true :=
        shaped_setCell h1 _ _
      have hcell : ∀ q, inGrid n q →
          cell (setCell (setCell g p (posVal ag.id)) ag.position (pathVal ag.id)) q =
            if q = ag.position then pathVal ag.id else if q = p then posVal ag.id else cell g q := by
        intro q hq
        rw [cell_setCell h1 hpos hq, cell_setCell h hp hq]
      have hunt : ∀ y' ∈ L, ∀ q, touches y' q → q ≠ p ∧ q ≠ ag.position := by
        intro y' hy' q ht
        obtain ⟨j, hj⟩ := List.getElem?_of_mem hy'
        constructor
        · intro e
          have := huniq 0 (j + 1) (ag, some p) y' q (by simp) (by simpa using hj) ⟨p, rfl, Or.inl e⟩ ht
          omega
        · intro e
          have := huniq 0 (j + 1) (ag, some p) y' q (by simp) (by simpa using hj) ⟨p, rfl, Or.inr e⟩ ht
          omega
      have hkeep : ∀ y' ∈ L, ∀ q, inGrid n q → touches y' q →
          cell (setCell (setCell g p (posVal ag.id)) ag.position (pathVal ag.id)) q = cell g q := by
        intro y' hy' q hq ht
        obtain ⟨a, b⟩ := hunt y' hy' q ht
        rw [hcell q hq]; simp [a, b]
      have hnz' : ∀ ag' p', (ag', some p') ∈ L →
          cell (setCell (setCell g p (posVal ag.id)) ag.position (pathVal ag.id)) ag'.position ≠ 0 ∧
            p' ≠ ag'.position ∧ 0 ≤ ag'.id := by
        intro ag' p' hm
        obtain ⟨a, b, c⟩ := hnz ag' p' (by simp [hm])
        refine ⟨?_, b, c⟩
        rw [hkeep (ag', some p') hm ag'.position (hok' _ hm).1 ⟨p', rfl, Or.inr rfl⟩]
        exact a
      rw [ih h2 hok' hnz' huniq']
      have hfil : L.filter (gainFlag (setCell (setCell g p (posVal ag.id)) ag.position (pathVal ag.id))) =
          L.filter (gainFlag g) := by
        apply List.filter_congr
        intro y' hy'
        obtain ⟨ag', o'⟩ := y'
        cases o' with
        | none => rfl
        | some p' =>
          simp only [gainFlag]
          rw [hkeep (ag', some p') hy' p' ((hok' _ hy').2 p' rfl) ⟨p', rfl, Or.inl rfl⟩]
      rw [hfil]
      have hposv : posVal ag.id ≠ 0 := by unfold posVal; omega
      have hpathv : pathVal ag.id ≠ 0 := by unfold pathVal; omega
      have e21 : nonZero (setCell (setCell g p (posVal ag.id)) ag.position (pathVal ag.id)) =
          nonZero (setCell g p (posVal ag.id)) := by
        unfold nonZero
        apply count_congr _ h2 h1
        intro q hq
        rw [cell_setCell h1 hpos hq]
        by_cases e : q = ag.position
        · subst e
          rw [cell_setCell h hp hq]
          simp only [if_true, hne.symm, if_false]
          rw [bne_iff_ne.2 hpathv, bne_iff_ne.2 hv]
        · simp [e]
      rw [e21]
      by_cases hz : cell g p = 0
      · have e10 : nonZero (setCell g p (posVal ag.id)) = nonZero g + 1 := by
          unfold nonZero
          exact count_setCell_succ _ h hp _ (by simp [hz]) (by simp [hposv])
        rw [e10]
        simp [gainFlag, hz]
        omega
      · have e10 : nonZero (setCell g p (posVal ag.id)) = nonZero g := by
          unfold nonZero
          apply count_congr _ h1 h
          intro q hq
          rw [cell_setCell h hp hq]
          by_cases e : q = p
          · subst e
            simp only [if_true]
            rw [bne_iff_ne.2 hposv, bne_iff_ne.2 hz]
          · simp [e]
        rw [e10]
        simp [gainFlag, hz]

/-! ### the theorem -/

section
variable {n k : Nat} {s : State} {acts : List Int}

theorem aw_map_fst (x : Ctx n k s acts) : (awOf n s acts).map Prod.fst = s.agents := by
  unfold awOf
  apply List.map_fst_zip
  simp [x.props_length, x.cons.len]

theorem l2_nonZero (x : Ctx n k s acts) :
    nonZero (applyMoves s.grid (awOf n s acts)) =
      nonZero s.grid + ((awOf n s acts).filter (gainFlag s.grid)).length := by
  apply nonZero_applyMoves _ x.cons.shaped (aw_ok x)
  · intro ag p hm
    obtain ⟨i, hi⟩ := List.getElem?_of_mem hm
    obtain ⟨hag, hw⟩ := aw_inv x hi
    have hag : s.agents[i]? = some ag := hag
    have hw : wins (propsOf n s acts) i = some p := hw.symm
    obtain ⟨ag0, a0, hag0, _, _, _, _, hne⟩ := x.win_facts hw
    have e0 : ag0 = ag := by rw [hag] at hag0; exact (Option.some.inj hag0).symm
    subst e0
    have ok := x.cons.agent i ag0 hag
    refine ⟨?_, hne, ?_⟩
    · rw [ok.headAt]; unfold posVal; omega
    · rw [ok.id]; omega
  · intro i j y y' q hi hj ⟨p, hp, ht⟩ ⟨p', hp', ht'⟩
    obtain ⟨hagi, hwi⟩ := aw_inv x hi
    obtain ⟨hagj, hwj⟩ := aw_inv x hj
    rw [hwi] at hp
    rw [hwj] at hp'
    exact touch_unique x hagi hagj hp hp' ht ht'

theorem l2_flags (x : Ctx n k s acts) :
    ((List.zipWith (fun (o n : Agent) => o.position != n.position && n.position != n.target) s.agents
        ((awOf n s acts).map (fun y => moved y.1 y.2))).filter id).length =
      ((awOf n s acts).filter (gainFlag s.grid)).length := by
  conv => lhs; rw [← aw_map_fst x]
  rw [zipWith_map_map]
  apply filter_map_len
  intro y hy
  obtain ⟨i, hi⟩ := List.getElem?_of_mem hy
  obtain ⟨hag, hw⟩ := aw_inv x hi
  obtain ⟨ag, o⟩ := y
  have hag : s.agents[i]? = some ag := hag
  have hw : o = wins (propsOf n s acts) i := hw
  cases o with
  | none => simp [moved, gainFlag]
  | some p =>
    obtain ⟨ag0, a0, hag0, _, hP, hin, hv, hne⟩ := x.win_facts hw.symm
    have e0 : ag0 = ag := by rw [hag] at hag0; exact (Option.some.inj hag0).symm
    subst e0
    have ok := x.cons.agent i ag0 hag
    have hnc := (x.prop_facts hag hP).2.2.2.1
    simp only [moved, gainFlag]
    by_cases ht : p = ag0.target
    · have hc : cell s.grid ag0.target ≠ 0 := by
        rw [ok.tgtAt hnc]; unfold tgtVal; omega
      simp [ht, hc]
    · have hc : cell s.grid p = 0 := by
        rcases hv with hv | hv
        · exact hv
        · exact absurd (ok.tgtUniq hnc p hin hv) ht
      have hne' : ¬ ag0.position = p := fun e => hne e.symm
      simp [ht, hc, hne']

end

/-- C07 occupancy conservation: ANY in-spec joint action from a consistent state satisfies the occupancy bookkeeping `conservedB` -/
theorem step_conserved (cfg : Cfg) (s : State) (acts : List Int) (hc : Consistent cfg.n cfg.k s) (hk : 0 < cfg.k)
    (hlen : acts.length = cfg.k) (hspec : ∀ a ∈ acts, 0 ≤ a ∧ a ≤ 4) :
    conservedB s (step cfg s acts).1 = true := by
  have x := ctx_of hc hk hlen hspec
  rw [step_eq_stepL2 cfg s acts hc hk hlen hspec, stepL2_state]
  have hs' : Grid.shaped (applyMoves s.grid (awOf cfg.n s acts)) cfg.n cfg.n = true :=
    shaped_applyMoves x.cons.shaped _
  unfold conservedB nextL2
  rw [stepAgentsL2_eq]
  simp only [Bool.and_eq_true, decide_eq_true_eq, beq_iff_eq]
  refine ⟨⟨⟨⟨?_, ?_⟩, ?_⟩, ?_⟩, ?_⟩
  · rw [shaped_length x.cons.shaped, shaped_length hs']
  · apply rows_all_of_cell _ x.cons.shaped hs'
    intro q hq
    simp only [Bool.or_eq_true, Bool.and_eq_true, beq_iff_eq, bne_iff_ne, ne_eq]
    rcases l2_cases x hq with ⟨i0, _, _, e, hv⟩ | ⟨j, ag, p, _, _, _, _, e, hv⟩ | ⟨_, _, e⟩
    · rw [e]
      unfold posVal tgtVal at *
      rcases hv with hv | hv
      · left; exact hv
      · right; rw [hv]; constructor <;> omega
    · rw [e, hv]
      unfold posVal pathVal
      right; constructor <;> omega
    · rw [e]
      by_cases h0 : cell s.grid q = 0
      · left; exact h0
      · right; exact ⟨h0, rfl⟩
  · have := l2_agents_length x
    rw [stepAgentsL2_eq] at this
    rw [x.cons.len, this]
  · apply all_zipWith_of_get
    intro i o nw h1 h2
    have h2' : (stepAgentsL2 cfg.n s acts).1[i]? = some nw := by rw [stepAgentsL2_eq]; exact h2
    obtain ⟨ag, hag, rfl⟩ := l2_agent_get x h2'
    have e0 : ag = o := by rw [h1] at hag; exact (Option.some.inj hag).symm
    subst e0
    cases hw : wins (propsOf cfg.n s acts) i with
    | none => simp [moved]
    | some p =>
      obtain ⟨ag0, a0, hag0, _, hP, _⟩ := x.win_facts hw
      have e0 : ag0 = ag := by rw [h1] at hag0; exact (Option.some.inj hag0).symm
      subst e0
      have hadj := (x.prop_facts h1 hP).2.2.2.2
      simp [moved, hadj]
  · rw [l2_nonZero x, l2_flags x]

end Connector
