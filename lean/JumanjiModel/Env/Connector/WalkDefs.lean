/- The invariant of the random walk of `RandomWalkGenerator` (proof device): during the walk the start cell of
agent `i` holds its TARGET value and its head walks away from the first-move cell; seen through `mirrorAgent`
(start := first-move cell, target := walk start) a walk state is a consistent environment state, and the walk's
`_step_agents` is the environment's. -/
import JumanjiModel.Env.Connector.ConservedLemmas
namespace Connector
open Jm Jx

/-- the walk agent seen as an environment agent: it started on its first-move cell `f` and its "target" is the
cell the walk started from (which holds the agent's target value during the walk) -/
def mirrorAgent (f : Pos) (ag : Agent) : Agent := ⟨ag.id, f, ag.start, ag.position⟩

def mirrorAgents (firsts : List Pos) (ags : List Agent) : List Agent := List.zipWith mirrorAgent firsts ags

/-- invariant of the walk: seen through the mirror the walk state is consistent, the walk agents have the dummy
target `(-1, -1)`, and no head stands on its own walk start -/
def WalkInv (n k : Nat) (firsts : List Pos) (g : Grid Int) (ags : List Agent) : Prop :=
  firsts.length = k ∧ ags.length = k ∧ Cons n k ⟨g, 0, mirrorAgents firsts ags⟩ ∧
  ∀ ag ∈ ags, ag.target = (-1, -1) ∧ ag.position ≠ ag.start

end Connector
