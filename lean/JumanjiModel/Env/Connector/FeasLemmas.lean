/- Connector: the step preserves `Feasible` (every agent's path cells are a route from its start to its head). -/
import JumanjiModel.Env.Connector.RouteLemmas
namespace Connector
open Jm Jx

section
variable {n k : Nat} {s : State} {acts : List Int}

theorem l2_path_kept (x : Ctx n k s acts) (i : Nat) {c : Pos} (hc : inGrid n c)
    (hv : cell s.grid c = pathVal (i : Int)) :
    cell (applyMoves s.grid (awOf n s acts)) c = pathVal (i : Int) := by
  rcases l2_cases x hc with ⟨i0, _, _, _, h⟩ | ⟨j, ag', p', _, _, _, _, _, h⟩ | ⟨_, _, e⟩
  · rw [hv] at h; unfold pathVal tgtVal at h; omega
  · rw [hv] at h; unfold pathVal posVal at h; omega
  · rw [e, hv]

theorem l2_count_stay (x : Ctx n k s acts) {i : Nat} (hw : wins (propsOf n s acts) i = none) :
    countVal (applyMoves s.grid (awOf n s acts)) (pathVal (i : Int)) = countVal s.grid (pathVal (i : Int)) := by
  unfold countVal
  apply count_congr _ (shaped_applyMoves x.cons.shaped _) x.cons.shaped
  intro q hq
  rcases l2_cases x hq with ⟨i0, _, _, e, h⟩ | ⟨j, ag', p', _, _, hwj, _, e, h⟩ | ⟨_, _, e⟩
  · rw [e]
    have h1 : ¬ (posVal (i0 : Int) = pathVal (i : Int)) := by unfold posVal pathVal; omega
    have h2 : ¬ (cell s.grid q = pathVal (i : Int)) := by unfold pathVal tgtVal at *; omega
    rw [beq_eq_false_iff_ne.2 h1, beq_eq_false_iff_ne.2 h2]
  · rw [e, h]
    have hji : j ≠ i := by rintro rfl; rw [hw] at hwj; simp at hwj
    have h1 : ¬ (pathVal (j : Int) = pathVal (i : Int)) := by unfold pathVal; omega
    have h2 : ¬ (posVal (j : Int) = pathVal (i : Int)) := by unfold posVal pathVal; omega
    rw [beq_eq_false_iff_ne.2 h1, beq_eq_false_iff_ne.2 h2]
  · rw [e]

theorem l2_count_move (x : Ctx n k s acts) {i : Nat} {ag : Agent} {p : Pos} (hag : s.agents[i]? = some ag)
    (hw : wins (propsOf n s acts) i = some p) :
    countVal (applyMoves s.grid (awOf n s acts)) (pathVal (i : Int)) = countVal s.grid (pathVal (i : Int)) + 1 := by
  have ok := x.cons.agent i ag hag
  unfold countVal
  apply count_succ_of_cells _ x.cons.shaped (shaped_applyMoves x.cons.shaped _) ok.posIn
  · rw [ok.headAt]
    have : ¬ (posVal (i : Int) = pathVal (i : Int)) := by unfold posVal pathVal; omega
    simp [this]
  · rw [l2_head x hag hw]; simp
  · intro q hq hne
    rcases l2_cases x hq with ⟨i0, _, _, e, h⟩ | ⟨j, ag', p', _, hagj, hwj, hqj, e, h⟩ | ⟨_, _, e⟩
    · rw [e]
      have h1 : ¬ (posVal (i0 : Int) = pathVal (i : Int)) := by unfold posVal pathVal; omega
      have h2 : ¬ (cell s.grid q = pathVal (i : Int)) := by unfold pathVal tgtVal at *; omega
      rw [beq_eq_false_iff_ne.2 h1, beq_eq_false_iff_ne.2 h2]
    · rw [e, h]
      have hji : j ≠ i := by
        rintro rfl
        have : ag' = ag := by rw [hag] at hagj; exact (Option.some.inj hagj).symm
        subst this
        exact hne hqj
      have h1 : ¬ (pathVal (j : Int) = pathVal (i : Int)) := by unfold pathVal; omega
      have h2 : ¬ (posVal (j : Int) = pathVal (i : Int)) := by unfold posVal pathVal; omega
      rw [beq_eq_false_iff_ne.2 h1, beq_eq_false_iff_ne.2 h2]
    · rw [e]

/-- the route of one agent after the step -/
theorem l2_route (x : Ctx n k s acts) {i : Nat} {ag : Agent} (hag : s.agents[i]? = some ag)
    (hr : agentRouteB n s.grid ag = true) :
    agentRouteB n (applyMoves s.grid (awOf n s acts)) (moved ag (wins (propsOf n s acts) i)) = true := by
  have ok := x.cons.agent i ag hag
  have hold := (agentRouteB_iff n s.grid ag ok.startIn ok.posIn).1 hr
  rw [ok.id] at hold
  have hg : ∀ c, inGrid n c → cell s.grid c = pathVal (i : Int) →
      cell (applyMoves s.grid (awOf n s acts)) c = pathVal (i : Int) := fun c hc hv => l2_path_kept x i hc hv
  cases hw : wins (propsOf n s acts) i with
  | none =>
    simp only [moved]
    rw [agentRouteB_iff n _ ag ok.startIn ok.posIn, ok.id, l2_count_stay x hw]
    rcases hold with ⟨e, hc⟩ | ⟨e, r, hv⟩
    · exact Or.inl ⟨e, hc⟩
    · exact Or.inr ⟨e, r, validR_mono hg _ _ _ _ hv⟩
  | some p =>
    simp only [moved]
    obtain ⟨ag0, a0, hag0, ha0, hP0, hin, hvp, hne⟩ := x.win_facts hw
    have e0 : ag0 = ag := by rw [hag] at hag0; exact (Option.some.inj hag0).symm
    subst e0
    have hadj := (x.prop_facts hag hP0).2.2.2.2
    have hpv : cell s.grid p ≠ pathVal (i : Int) := by unfold pathVal tgtVal at *; omega
    rw [agentRouteB_iff n _ { ag0 with position := p } ok.startIn hin]
    show (ag0.start = p ∧ _) ∨ (ag0.start ≠ p ∧ _)
    simp only [ok.id]
    rw [l2_count_move x hag hw]
    right
    rcases hold with ⟨e, hc⟩ | ⟨e, r, hv⟩
    · refine ⟨by rw [e]; exact fun h => hne h.symm, [ag0.start, p], ?_⟩
      rw [hc]
      exact ⟨rfl, by rw [e]; exact hadj⟩
    · have hcpos : 0 < countVal s.grid (pathVal (i : Int)) :=
        count_pos_of_cell _ x.cons.shaped ok.startIn (by rw [ok.startAt e]; simp)
      refine ⟨?_, r.dropLast ++ [ag0.position, p], ?_⟩
      · intro h
        rw [← h, ok.startAt e] at hpv
        exact hpv rfl
      · have := validR_extend hg (l2_head x hag hw) ok.posIn hadj (fun h => hne h.symm) hpv _ _ _ _
          (by simp; exact fun h => e h.symm) hv
        rw [show countVal s.grid (pathVal (i : Int)) - 1 + 1 = countVal s.grid (pathVal (i : Int)) by omega] at this
        exact this

theorem l2_feasible_agents (x : Ctx n k s acts) (hf : s.agents.all (agentRouteB n s.grid) = true) :
    (stepAgentsL2 n s acts).1.all (agentRouteB n (stepAgentsL2 n s acts).2) = true := by
  rw [List.all_eq_true] at hf ⊢
  intro ag' hmem
  obtain ⟨i, hi⟩ := List.getElem?_of_mem hmem
  obtain ⟨ag, hag, rfl⟩ := l2_agent_get x hi
  exact l2_route x hag (hf ag (List.mem_of_getElem? hag))

end

/-- C06: ANY in-spec joint action (mask-respecting or not: illegal moves are no-ops) leads from a feasible
state to a feasible state -/
theorem step_feasible (cfg : Cfg) (s : State) (acts : List Int) (hf : Feasible cfg.n cfg.k s) (hk : 0 < cfg.k)
    (hlen : acts.length = cfg.k) (hspec : ∀ a ∈ acts, 0 ≤ a ∧ a ≤ 4) :
    Feasible cfg.n cfg.k (step cfg s acts).1 := by
  unfold Feasible feasibleB at hf ⊢
  rw [Bool.and_eq_true] at hf ⊢
  have hc : Consistent cfg.n cfg.k s := hf.1
  have x := ctx_of hc hk hlen hspec
  refine ⟨step_consistent cfg s acts hc hk hlen hspec, ?_⟩
  have : (step cfg s acts).1 =
      { grid := (stepAgentsL2 cfg.n s acts).2, stepCount := s.stepCount + 1, agents := (stepAgentsL2 cfg.n s acts).1 } := by
    unfold step; rw [stepAgents_eq_L2 x]; rfl
  rw [this]
  exact l2_feasible_agents x hf.2

/-- a fresh board (the generator post-condition certificate) is consistent … -/
theorem fresh_consistent (n k : Nat) (s : State) (h : freshB n k s = true) : Consistent n k s := by
  unfold freshB at h
  simp only [Bool.and_eq_true] at h
  exact h.1.1.1.1

/-- … and feasible: nobody has moved, there are no path cells -/
theorem fresh_feasible (n k : Nat) (s : State) (h : freshB n k s = true) : Feasible n k s := by
  have hc := fresh_consistent n k s h
  have c := (consistent_iff n k s).1 hc
  unfold freshB at h
  simp only [Bool.and_eq_true] at h
  have hst := h.1.1.2
  unfold Feasible feasibleB
  rw [Bool.and_eq_true]
  refine ⟨hc, ?_⟩
  rw [List.all_eq_true] at hst ⊢
  intro ag hmem
  obtain ⟨i, hi⟩ := List.getElem?_of_mem hmem
  have ok := c.agent i ag hi
  have e : ag.start = ag.position := by simpa using hst ag hmem
  rw [agentRouteB_iff n _ ag ok.startIn ok.posIn]
  left
  refine ⟨e, ?_⟩
  rw [ok.id]
  exact (countVal_zero_iff c.shaped _).2 (ok.pathNone e)

end Connector
