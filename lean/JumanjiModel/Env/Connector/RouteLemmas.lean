/- Routes: the depth-first search `searchRoute` behind `agentRouteB` is sound and complete. -/
import JumanjiModel.Env.Connector.CountLemmas
namespace Connector
open Jm Jx

theorem firstM_some {α β} (f : α → Option β) (l : List α) {r : β} (h : l.firstM f = some r) :
    ∃ y ∈ l, f y = some r := by
  induction l with
  | nil => simp [List.firstM] at h
  | cons a l ih =>
    simp only [List.firstM] at h
    cases hfa : f a with
    | some r' =>
      rw [hfa] at h
      have : r' = r := by simpa using h
      exact ⟨a, by simp, by rw [hfa, this]⟩
    | none =>
      rw [hfa] at h
      have : l.firstM f = some r := by simpa using h
      obtain ⟨y, hy, e⟩ := ih this
      exact ⟨y, by simp [hy], e⟩

theorem firstM_isSome {α β} (f : α → Option β) (l : List α) {y : α} (hy : y ∈ l) (h : (f y).isSome = true) :
    (l.firstM f).isSome = true := by
  induction l with
  | nil => simp at hy
  | cons a l ih =>
    simp only [List.firstM]
    cases hfa : f a with
    | some r' => simp
    | none =>
      simp at hy
      rcases hy with rfl | hy
      · rw [hfa] at h; simp at h
      · simpa using ih hy

theorem mem_neighbours (p q : Pos) : q ∈ neighbours p ↔ adjacent p q = true := by
  obtain ⟨p1, p2⟩ := p
  obtain ⟨q1, q2⟩ := q
  simp [neighbours, adjacent, Prod.ext_iff]
  omega

/-- the valid outputs of `searchRoute … m cur seen` -/
def validR (n : Nat) (g : Grid Int) (pv : Int) (b : Pos) : Nat → Pos → List Pos → List Pos → Prop
  | 0, cur, _, r => r = [cur, b] ∧ adjacent cur b = true
  | m + 1, cur, seen, r => ∃ q r', r = cur :: r' ∧ adjacent cur q = true ∧ inGrid n q ∧ cell g q = pv ∧
      q ∉ seen ∧ q ≠ b ∧ validR n g pv b m q (q :: seen) r'

theorem search_sound (n : Nat) (g : Grid Int) (pv : Int) (b : Pos) (m : Nat) (cur : Pos) (seen r : List Pos)
    (h : searchRoute n g pv b m cur seen = some r) : validR n g pv b m cur seen r := by
  induction m generalizing cur seen r with
  | zero =>
    simp only [searchRoute] at h
    split at h
    · rename_i ha; simp at h; exact ⟨h.symm, ha⟩
    · simp at h
  | succ m ih =>
    simp only [searchRoute] at h
    obtain ⟨q, hq, hf⟩ := firstM_some _ _ h
    split at hf
    · rename_i hc
      simp only [Bool.and_eq_true, decide_eq_true_eq, beq_iff_eq, Bool.not_eq_true', bne_iff_ne] at hc
      obtain ⟨⟨⟨hin, hv⟩, hs⟩, hb⟩ := hc
      rw [Option.map_eq_some_iff] at hf
      obtain ⟨r', hr', e⟩ := hf
      refine ⟨q, r', e.symm, (mem_neighbours _ _).1 hq, hin, hv, ?_, hb, ih _ _ _ hr'⟩
      intro hmem
      have : seen.contains q = true := by simpa using hmem
      rw [this] at hs; exact Bool.noConfusion hs
    · simp at hf

theorem search_complete (n : Nat) (g : Grid Int) (pv : Int) (b : Pos) (m : Nat) (cur : Pos) (seen r : List Pos)
    (h : validR n g pv b m cur seen r) : (searchRoute n g pv b m cur seen).isSome = true := by
  induction m generalizing cur seen r with
  | zero =>
    obtain ⟨_, ha⟩ := h
    simp [searchRoute, ha]
  | succ m ih =>
    obtain ⟨q, r', _, hadj, hin, hv, hs, hb, hr'⟩ := h
    simp only [searchRoute]
    apply firstM_isSome _ _ ((mem_neighbours _ _).2 hadj)
    have hc : (decide (inGrid n q) && cell g q == pv && !(seen.contains q) && q != b) = true := by
      simp [hin, hv, hs, hb]
    simp only [hc, if_true]
    have := ih _ _ _ hr'
    cases hsr : searchRoute n g pv b m q (q :: seen) with
    | none => rw [hsr] at this; simp at this
    | some r'' => simp

/-- what a valid search output looks like -/
structure RouteOK (n : Nat) (g : Grid Int) (pv : Int) (cur b : Pos) (seen : List Pos) (m : Nat) (r : List Pos) : Prop where
  head : r.head? = some cur
  last : r.getLast? = some b
  chain : isChain r = true
  len : r.length = m + 2
  fresh : ∀ c ∈ r.tail, c ∉ seen ∨ c = b
  nodupTail : r.tail.Nodup
  inG : ∀ c ∈ r.tail, inGrid n c ∨ c = b
  inner : ((r.drop 1).take m).all (fun p => cell g p == pv) = true

theorem routeOK_of_valid (n : Nat) (g : Grid Int) (pv : Int) (b : Pos) (m : Nat) (cur : Pos) (seen r : List Pos)
    (h : validR n g pv b m cur seen r) : RouteOK n g pv cur b seen m r := by
  induction m generalizing cur seen r with
  | zero =>
    obtain ⟨rfl, ha⟩ := h
    refine ⟨rfl, rfl, by simp [isChain, ha], rfl, ?_, by simp, ?_, by simp⟩
    · intro c hc; simp at hc; exact Or.inr hc
    · intro c hc; simp at hc; exact Or.inr hc
  | succ m ih =>
    obtain ⟨q, r', rfl, hadj, hin, hv, hs, hb, hr'⟩ := h
    have ok := ih _ _ _ hr'
    obtain ⟨t, rfl⟩ : ∃ t, r' = q :: t := by
      cases r' with
      | nil => have := ok.len; simp at this
      | cons a t => have := ok.head; simp at this; exact ⟨t, by rw [this]⟩
    refine ⟨rfl, ?_, ?_, ?_, ?_, ?_, ?_, ?_⟩
    · have := ok.last; rw [List.getLast?_cons_cons]; exact this
    · simp only [isChain, hadj, Bool.true_and]; exact ok.chain
    · have := ok.len; simp at this ⊢; omega
    · intro c hc
      simp at hc
      rcases hc with rfl | hc
      · exact Or.inl hs
      · rcases ok.fresh c (by simpa using hc) with h1 | h1
        · left; intro hmem; exact h1 (by simp [hmem])
        · exact Or.inr h1
    · show (q :: t).Nodup
      rw [List.nodup_cons]
      refine ⟨?_, by simpa using ok.nodupTail⟩
      intro hmem
      rcases ok.fresh q (by simpa using hmem) with h1 | h1
      · exact h1 (by simp)
      · exact hb h1
    · intro c hc
      simp at hc
      rcases hc with rfl | hc
      · exact Or.inl hin
      · exact ok.inG c (by simpa using hc)
    · have := ok.inner
      simp only [List.drop_succ_cons, List.drop_zero, List.take_succ_cons, List.all_cons, hv, beq_self_eq_true,
        Bool.true_and] at this ⊢
      exact this

theorem isRoute_of_routeOK {n : Nat} {g : Grid Int} {pv : Int} {cur b : Pos} {seen : List Pos} {m : Nat}
    {r : List Pos} (ok : RouteOK n g pv cur b seen m r) (hcs : cur ∈ seen) (hne : cur ≠ b)
    (hic : inGrid n cur) (hib : inGrid n b) : isRoute n g pv cur b m r = true := by
  obtain ⟨t, rfl⟩ : ∃ t, r = cur :: t := by
    cases r with
    | nil => have := ok.len; simp at this
    | cons a t => have := ok.head; simp at this; exact ⟨t, by rw [this]⟩
  unfold isRoute
  simp only [Bool.and_eq_true, beq_iff_eq, decide_eq_true_eq]
  refine ⟨⟨⟨⟨⟨⟨ok.head, ok.last⟩, ok.chain⟩, ?_⟩, ok.len⟩, ?_⟩, ok.inner⟩
  · rw [List.nodup_cons]
    refine ⟨?_, by simpa using ok.nodupTail⟩
    intro hmem
    rcases ok.fresh cur (by simpa using hmem) with h1 | h1
    · exact h1 hcs
    · exact hne h1
  · rw [List.all_eq_true]
    intro c hc
    simp at hc
    rcases hc with rfl | hc
    · simpa using hic
    · rcases ok.inG c (by simpa using hc) with h1 | h1
      · simpa using h1
      · rw [h1]; simpa using hib

/-- `agentRouteB`, as a statement: no path cells if the agent has not moved, otherwise a valid route from
the start through all path cells to the head -/
theorem agentRouteB_iff (n : Nat) (g : Grid Int) (ag : Agent) (hs : inGrid n ag.start) (hp : inGrid n ag.position) :
    agentRouteB n g ag = true ↔
      (ag.start = ag.position ∧ countVal g (pathVal ag.id) = 0) ∨
      (ag.start ≠ ag.position ∧
        ∃ r, validR n g (pathVal ag.id) ag.position (countVal g (pathVal ag.id) - 1) ag.start [ag.start] r) := by
  unfold agentRouteB
  by_cases e : ag.start = ag.position
  · simp [e]
  · simp only [e, if_false, false_and, false_or]
    have e' : ag.start ≠ ag.position := e
    constructor
    · intro h
      split at h
      · rename_i r hr
        exact ⟨e', r, search_sound _ _ _ _ _ _ _ _ hr⟩
      · simp at h
    · rintro ⟨_, r, hr⟩
      have := search_complete _ _ _ _ _ _ _ _ hr
      cases hsr : searchRoute n g (pathVal ag.id) ag.position (countVal g (pathVal ag.id) - 1) ag.start [ag.start] with
      | none => rw [hsr] at this; simp at this
      | some r' =>
        simp only []
        exact isRoute_of_routeOK (routeOK_of_valid _ _ _ _ _ _ _ _ (search_sound _ _ _ _ _ _ _ _ hsr)) (by simp) e hs hp

/-- a route stays a route when the path cells keep their value -/
theorem validR_mono {n : Nat} {g g' : Grid Int} {pv : Int} {b : Pos} (hg : ∀ c, inGrid n c → cell g c = pv → cell g' c = pv)
    (m : Nat) (cur : Pos) (seen r : List Pos) (h : validR n g pv b m cur seen r) : validR n g' pv b m cur seen r := by
  induction m generalizing cur seen r with
  | zero => exact h
  | succ m ih =>
    obtain ⟨q, r', e, hadj, hin, hv, hs, hb, hr'⟩ := h
    exact ⟨q, r', e, hadj, hin, hg q hin hv, hs, hb, ih _ _ _ hr'⟩

/-- a route to the old head `b` extends to a route to the new head `p` when `b` has become a path cell -/
theorem validR_extend {n : Nat} {g g' : Grid Int} {pv : Int} {b p : Pos}
    (hg : ∀ c, inGrid n c → cell g c = pv → cell g' c = pv) (hb' : cell g' b = pv) (hib : inGrid n b)
    (hadj : adjacent b p = true) (hbp : b ≠ p) (hp : cell g p ≠ pv)
    (m : Nat) (cur : Pos) (seen r : List Pos) (hbs : b ∉ seen) (h : validR n g pv b m cur seen r) :
    validR n g' pv p (m + 1) cur seen (r.dropLast ++ [b, p]) := by
  induction m generalizing cur seen r with
  | zero =>
    obtain ⟨rfl, ha⟩ := h
    exact ⟨b, [b, p], by simp, ha, hib, hb', hbs, hbp, rfl, hadj⟩
  | succ m ih =>
    obtain ⟨q, r', rfl, hadj', hin, hv, hs, hb, hr'⟩ := h
    have hne : r' ≠ [] := by
      intro e; subst e
      cases m <;> simp [validR] at hr'
    refine ⟨q, r'.dropLast ++ [b, p], ?_, hadj', hin, hg q hin hv, hs, ?_, ?_⟩
    · rw [List.dropLast_cons_of_ne_nil hne]; rfl
    · intro e; rw [e] at hv; exact hp hv
    · apply ih
      · intro hmem
        simp at hmem
        rcases hmem with e | hmem
        · exact hb e.symm
        · exact hbs hmem
      · exact hr'

end Connector
