/- Connector: the whole step (state, reward, discount, step type, observation) equals the rule-level step,
and the step preserves `Consistent`. -/
import JumanjiModel.Env.Connector.RefineLemmas
namespace Connector
open Jm Jx

theorem connected_eq_decide (ag : Agent) : ag.connected = decide (isConnected ag) := by
  cases h : ag.connected with
  | true => exact (decide_eq_true ((connected_iff ag).1 h)).symm
  | false =>
    have : ¬ isConnected ag := fun hc => by rw [(connected_iff ag).2 hc] at h; exact Bool.noConfusion h
    exact (decide_eq_false this).symm

theorem done_eq {n : Nat} (s : State) (h : Grid.shaped s.grid n n = true) :
    List.zipWith connectedOrBlocked s.agents (actionMask s.grid s.agents) =
      (List.range s.agents.length).map (finished n s) := by
  apply List.ext_getElem
  · simp [actionMask]
  · intro i h1 h2
    have hi : i < s.agents.length := by simpa [actionMask] using h1
    simp [actionMask, connectedOrBlocked, finished, agentMask, legal, dir, List.getElem?_eq_getElem hi,
      isValidPosition_eq h, movePosition, Int.sub_eq_add_neg, connected_eq_decide]

/-- `finish` (everything `step` does after `_step_agents`) is the rest of the rule-level step -/
theorem finish_eq (cfg : Cfg) (s : State) (agents : List Agent) (grid : Grid Int)
    (h : Grid.shaped grid cfg.n cfg.n = true) :
    finish cfg s (agents, grid) =
      (let s' : State := { grid := grid, stepCount := s.stepCount + 1, agents := agents }
       let reward := List.zipWith (rewardL2 cfg) s.agents agents
       let fin := (List.range agents.length).map (finished cfg.n s')
       let last := fin.all id || decide (cfg.timeLimit ≤ s'.stepCount)
       (s', { stepType := if last then .last else .mid, reward := reward,
              discount := if last then List.replicate cfg.k 0 else fin.map (fun f => if f then 0 else 1),
              obs := observe cfg.n s' })) := by
  have hd := done_eq (n := cfg.n) { grid := grid, stepCount := s.stepCount + 1, agents := agents } h
  have ho := observeL1_eq_observe (n := cfg.n) { grid := grid, stepCount := s.stepCount + 1, agents := agents } h
  simp only [] at hd
  unfold finish
  simp only [denseReward_eq, hd]
  unfold observeL1 at ho
  simp only [] at ho
  rw [ho]
  unfold condLastDiscount termination transition
  simp only [ge_iff_le]
  split
  · simp [zerosR, RShape.size]
  · rename_i hl
    simp only [Option.getD_some, List.map_map]
    congr 2
    apply List.map_congr_left
    intro i _
    simp only [Function.comp, b2r]
    split
    · exact Rat.sub_self
    · decide +kernel

theorem stepL2_eq (cfg : Cfg) (s : State) (acts : List Int) :
    stepL2 cfg s acts =
      (let s' : State := { grid := (stepAgentsL2 cfg.n s acts).2, stepCount := s.stepCount + 1,
                           agents := (stepAgentsL2 cfg.n s acts).1 }
       let reward := List.zipWith (rewardL2 cfg) s.agents (stepAgentsL2 cfg.n s acts).1
       let fin := (List.range (stepAgentsL2 cfg.n s acts).1.length).map (finished cfg.n s')
       let last := fin.all id || decide (cfg.timeLimit ≤ s'.stepCount)
       (s', { stepType := if last then .last else .mid, reward := reward,
              discount := if last then List.replicate cfg.k 0 else fin.map (fun f => if f then 0 else 1),
              obs := observe cfg.n s' })) := rfl

theorem ctx_of {cfg : Cfg} {s : State} {acts : List Int} (hc : Consistent cfg.n cfg.k s) (hk : 0 < cfg.k)
    (hlen : acts.length = cfg.k) (hspec : ∀ a ∈ acts, 0 ≤ a ∧ a ≤ 4) : Ctx cfg.n cfg.k s acts :=
  ⟨(consistent_iff _ _ _).1 hc, hk, hlen, hspec⟩

/-- C09, full refinement: state, reward, discount, step type and observation -/
theorem step_eq_stepL2 (cfg : Cfg) (s : State) (acts : List Int) (hc : Consistent cfg.n cfg.k s) (hk : 0 < cfg.k)
    (hlen : acts.length = cfg.k) (hspec : ∀ a ∈ acts, 0 ≤ a ∧ a ≤ 4) :
    step cfg s acts = stepL2 cfg s acts := by
  have x := ctx_of hc hk hlen hspec
  unfold step
  rw [stepAgents_eq_L2 x, stepL2_eq]
  have hs : Grid.shaped (stepAgentsL2 cfg.n s acts).2 cfg.n cfg.n = true := by
    rw [stepAgentsL2_eq]; exact shaped_applyMoves x.cons.shaped _
  exact finish_eq cfg s _ _ hs

/-! ### the step preserves `Consistent` -/

section
variable {n k : Nat} {s : State} {acts : List Int}

/-- the three kinds of cells after the moves of the rules -/
theorem l2_cases (x : Ctx n k s acts) {q : Pos} (hq : inGrid n q) :
    (∃ i0 : Nat, i0 < k ∧ wins (propsOf n s acts) i0 = some q ∧
        cell (applyMoves s.grid (awOf n s acts)) q = posVal (i0 : Int) ∧
        (cell s.grid q = 0 ∨ cell s.grid q = tgtVal (i0 : Int))) ∨
    (∃ (j : Nat) (ag : Agent) (p : Pos), j < k ∧ s.agents[j]? = some ag ∧ wins (propsOf n s acts) j = some p ∧
        q = ag.position ∧ cell (applyMoves s.grid (awOf n s acts)) q = pathVal (j : Int) ∧
        cell s.grid q = posVal (j : Int)) ∨
    ((∀ i, wins (propsOf n s acts) i ≠ some q) ∧
      (∀ (j : Nat) ag p, s.agents[j]? = some ag → wins (propsOf n s acts) j = some p → q ≠ ag.position) ∧
      cell (applyMoves s.grid (awOf n s acts)) q = cell s.grid q) := by
  by_cases h1 : ∃ i0, wins (propsOf n s acts) i0 = some q
  · obtain ⟨i0, hw⟩ := h1
    obtain ⟨ag, a, hag, ha, hP, hin, hv, hne⟩ := x.win_facts hw
    exact Or.inl ⟨i0, x.lt hag, hw, l2_winner x hw, hv⟩
  · have hnw : ∀ i0, wins (propsOf n s acts) i0 ≠ some q := fun i0 h => h1 ⟨i0, h⟩
    by_cases h2 : ∃ (j : Nat) (ag : Agent) (p : Pos), s.agents[j]? = some ag ∧ wins (propsOf n s acts) j = some p ∧
        q = ag.position
    · obtain ⟨j, ag, p, hag, hw, rfl⟩ := h2
      exact Or.inr (Or.inl ⟨j, ag, p, x.lt hag, hag, hw, rfl, l2_head x hag hw, (x.cons.agent j ag hag).headAt⟩)
    · have hnh : ∀ (j : Nat) ag p, s.agents[j]? = some ag → wins (propsOf n s acts) j = some p → q ≠ ag.position :=
        fun j ag p hag hw e => h2 ⟨j, ag, p, hag, hw, e⟩
      exact Or.inr (Or.inr ⟨hnw, hnh, l2_other x hq hnw hnh⟩)

theorem l2_agent_get (x : Ctx n k s acts) {i : Nat} {ag' : Agent} (h : (stepAgentsL2 n s acts).1[i]? = some ag') :
    ∃ ag, s.agents[i]? = some ag ∧ ag' = moved ag (wins (propsOf n s acts) i) := by
  rw [stepAgentsL2_eq] at h
  simp only [List.getElem?_map] at h
  cases haw : (awOf n s acts)[i]? with
  | none => rw [haw] at h; simp at h
  | some y =>
    rw [haw] at h
    obtain ⟨hag, hw⟩ := aw_inv x haw
    simp at h
    exact ⟨y.1, hag, by rw [← h, hw]⟩

theorem l2_agents_length (x : Ctx n k s acts) : (stepAgentsL2 n s acts).1.length = k := by
  rw [stepAgentsL2_eq]
  simp [awOf, x.props_length, x.cons.len]

theorem l2_agentOK (x : Ctx n k s acts) {i : Nat} {ag : Agent} (hag : s.agents[i]? = some ag) :
    AgentOK n (applyMoves s.grid (awOf n s acts)) i (moved ag (wins (propsOf n s acts) i)) := by
  have ok := x.cons.agent i ag hag
  have hi := x.lt hag
  cases hw : wins (propsOf n s acts) i with
  | none =>
    simp only [moved]
    have hself : ∀ (j : Nat) ag' p, s.agents[j]? = some ag' → wins (propsOf n s acts) j = some p → j ≠ i := by
      intro j ag' p _ hwj e; subst e; rw [hw] at hwj; simp at hwj
    refine ⟨ok.id, ok.posIn, ok.tgtIn, ok.startIn, ?_, ?_, ?_, ?_, ?_, ?_, ?_⟩
    · rcases l2_cases x ok.posIn with ⟨i0, _, _, _, hv⟩ | ⟨j, ag', p, _, hag', hwj, _, _, hv⟩ | ⟨_, _, e⟩
      · rw [ok.headAt] at hv; unfold posVal tgtVal at hv; omega
      · rw [ok.headAt] at hv
        have : j = i := by unfold posVal at hv; omega
        exact absurd this (hself j ag' p hag' hwj)
      · rw [e, ok.headAt]
    · intro q hq hv
      rcases l2_cases x hq with ⟨i0, _, hw0, e, _⟩ | ⟨j, ag', p, _, _, _, _, e, _⟩ | ⟨_, _, e⟩
      · rw [e] at hv
        have : i0 = i := by unfold posVal at hv; omega
        subst this; rw [hw] at hw0; simp at hw0
      · rw [e] at hv; unfold pathVal posVal at hv; omega
      · rw [e] at hv; exact ok.headUniq q hq hv
    · intro he q hq hv
      rcases l2_cases x hq with ⟨i0, _, hw0, e, _⟩ | ⟨j, ag', p, _, _, _, _, e, _⟩ | ⟨_, _, e⟩
      · rw [e] at hv; unfold posVal tgtVal at hv; omega
      · rw [e] at hv; unfold pathVal tgtVal at hv; omega
      · rw [e] at hv; exact ok.tgtNone he q hq hv
    · intro he
      have hv0 := ok.tgtAt he
      rcases l2_cases x ok.tgtIn with ⟨i0, _, hw0, _, hv⟩ | ⟨j, ag', p, _, _, _, _, _, hv⟩ | ⟨_, _, e⟩
      · rw [hv0] at hv
        have : i0 = i := by unfold tgtVal at hv; omega
        subst this; rw [hw] at hw0; simp at hw0
      · rw [hv0] at hv; unfold posVal tgtVal at hv; omega
      · rw [e, hv0]
    · intro he q hq hv
      rcases l2_cases x hq with ⟨i0, _, hw0, e, _⟩ | ⟨j, ag', p, _, _, _, _, e, _⟩ | ⟨_, _, e⟩
      · rw [e] at hv; unfold posVal tgtVal at hv; omega
      · rw [e] at hv; unfold pathVal tgtVal at hv; omega
      · rw [e] at hv; exact ok.tgtUniq he q hq hv
    · intro he q hq hv
      rcases l2_cases x hq with ⟨i0, _, hw0, e, _⟩ | ⟨j, ag', p, _, hag', hwj, _, e, _⟩ | ⟨_, _, e⟩
      · rw [e] at hv; unfold posVal pathVal at hv; omega
      · rw [e] at hv
        have : j = i := by unfold pathVal at hv; omega
        exact absurd this (hself j ag' p hag' hwj)
      · rw [e] at hv; exact ok.pathNone he q hq hv
    · intro he
      have hv0 := ok.startAt he
      rcases l2_cases x ok.startIn with ⟨i0, _, hw0, _, hv⟩ | ⟨j, ag', p, _, _, _, _, _, hv⟩ | ⟨_, _, e⟩
      · rw [hv0] at hv; unfold pathVal tgtVal at hv; omega
      · rw [hv0] at hv; unfold posVal pathVal at hv; omega
      · rw [e, hv0]
  | some p =>
    simp only [moved]
    obtain ⟨ag0, a0, hag0, ha0, hP0, hin, hvp, hne⟩ := x.win_facts hw
    have e0 : ag0 = ag := by rw [hag] at hag0; exact (Option.some.inj hag0).symm
    subst e0
    have hnc := (x.prop_facts hag hP0).2.2.2.1
    have hwin : ∀ q, wins (propsOf n s acts) i = some q → q = p := by
      intro q hq; rw [hw] at hq; exact (Option.some.inj hq).symm
    refine ⟨ok.id, hin, ok.tgtIn, ok.startIn, ?_, ?_, ?_, ?_, ?_, ?_, ?_⟩
    · exact l2_winner x hw
    · intro q hq hv
      show q = p
      rcases l2_cases x hq with ⟨i0, _, hw0, e, _⟩ | ⟨j, ag', p', _, _, _, _, e, _⟩ | ⟨_, hnh, e⟩
      · rw [e] at hv
        have : i0 = i := by unfold posVal at hv; omega
        subst this; exact hwin q hw0
      · rw [e] at hv; unfold pathVal posVal at hv; omega
      · rw [e] at hv
        exact absurd (ok.headUniq q hq hv) (hnh i ag0 p hag hw)
    · intro he q hq hv
      have he : p = ag0.target := he
      rcases l2_cases x hq with ⟨i0, _, hw0, e, _⟩ | ⟨j, ag', p', _, _, _, _, e, _⟩ | ⟨hnw, _, e⟩
      · rw [e] at hv; unfold posVal tgtVal at hv; omega
      · rw [e] at hv; unfold pathVal tgtVal at hv; omega
      · rw [e] at hv
        have := ok.tgtUniq hnc q hq hv
        rw [this, ← he] at hnw
        exact hnw i hw
    · intro he
      have he : p ≠ ag0.target := he
      show cell _ ag0.target = _
      have hv0 := ok.tgtAt hnc
      rcases l2_cases x ok.tgtIn with ⟨i0, _, hw0, _, hv⟩ | ⟨j, ag', p', _, _, _, _, _, hv⟩ | ⟨_, _, e⟩
      · rw [hv0] at hv
        have : i0 = i := by unfold tgtVal at hv; omega
        subst this; exact absurd (hwin _ hw0).symm he
      · rw [hv0] at hv; unfold posVal tgtVal at hv; omega
      · rw [e, hv0]
    · intro he q hq hv
      show q = ag0.target
      rcases l2_cases x hq with ⟨i0, _, hw0, e, _⟩ | ⟨j, ag', p', _, _, _, _, e, _⟩ | ⟨_, _, e⟩
      · rw [e] at hv; unfold posVal tgtVal at hv; omega
      · rw [e] at hv; unfold pathVal tgtVal at hv; omega
      · rw [e] at hv; exact ok.tgtUniq hnc q hq hv
    · intro he
      have he : ag0.start = p := he
      exfalso
      by_cases hs : ag0.start = ag0.position
      · exact hne (by rw [← he, hs])
      · have := ok.startAt hs
        rw [he] at this
        rw [this] at hvp; unfold pathVal tgtVal at hvp; omega
    · intro he
      have he : ag0.start ≠ p := he
      show cell _ ag0.start = _
      by_cases hs : ag0.start = ag0.position
      · rw [hs]; exact l2_head x hag hw
      · have hv0 := ok.startAt hs
        rcases l2_cases x ok.startIn with ⟨i0, _, hw0, _, hv⟩ | ⟨j, ag', p', _, _, _, _, _, hv⟩ | ⟨_, _, e⟩
        · rw [hv0] at hv; unfold pathVal tgtVal at hv; omega
        · rw [hv0] at hv; unfold posVal pathVal at hv; omega
        · rw [e, hv0]

/-- the rule-level step leads from a consistent state to a consistent state -/
theorem l2_cons (x : Ctx n k s acts) :
    Cons n k { grid := (stepAgentsL2 n s acts).2, stepCount := s.stepCount + 1, agents := (stepAgentsL2 n s acts).1 } := by
  refine ⟨?_, l2_agents_length x, ?_, ?_, ?_⟩
  · rw [stepAgentsL2_eq]; exact shaped_applyMoves x.cons.shaped _
  · intro i ag' h
    obtain ⟨ag, hag, rfl⟩ := l2_agent_get x h
    exact l2_agentOK x hag
  · intro q hq
    show 0 ≤ cell (applyMoves s.grid (awOf n s acts)) q ∧ cell (applyMoves s.grid (awOf n s acts)) q ≤ 3 * (k : Int)
    have hr := x.cons.range q hq
    rcases l2_cases x hq with ⟨i0, hi0, _, e, _⟩ | ⟨j, ag', p', hj, _, _, _, e, _⟩ | ⟨_, _, e⟩
    · rw [e]; unfold posVal; omega
    · rw [e]; unfold pathVal; omega
    · rw [e]; exact hr
  · have := x.cons.count
    show 0 ≤ s.stepCount + 1
    omega

end

/-- C07: ANY in-spec joint action leads from a consistent state to a consistent state (whether or not the
step is LAST) -/
theorem step_consistent (cfg : Cfg) (s : State) (acts : List Int) (hc : Consistent cfg.n cfg.k s) (hk : 0 < cfg.k)
    (hlen : acts.length = cfg.k) (hspec : ∀ a ∈ acts, 0 ≤ a ∧ a ≤ 4) :
    Consistent cfg.n cfg.k (step cfg s acts).1 := by
  have x := ctx_of hc hk hlen hspec
  rw [consistent_iff]
  have : (step cfg s acts).1 =
      { grid := (stepAgentsL2 cfg.n s acts).2, stepCount := s.stepCount + 1, agents := (stepAgentsL2 cfg.n s acts).1 } := by
    unfold step; rw [stepAgents_eq_L2 x]; rfl
  rw [this]
  exact l2_cons x

end Connector
